(** C20 — proofs: the derivative matcher decides the SPEC language [L]; search finds exactly the
    substrings in the language; [search_span] is leftmost-longest; [check_spans] is sound. *)
From ChibiV Require Import C20.Re.
Local Open Scope N_scope.

(* ------------------------------------------------------------------------------------------ *)
(** * Contexts *)

Lemma lastc_app p s1 s2 : lastc p (s1 ++ s2) = lastc (lastc p s1) s2.
Proof. unfold lastc. apply fold_left_app. Qed.

Lemma lastc_cons p c s : lastc p (c :: s) = lastc (Some c) s.
Proof. reflexivity. Qed.

Lemma firstc_app s1 s2 n : firstc (s1 ++ s2) n = firstc s1 (firstc s2 n).
Proof. destruct s1; reflexivity. Qed.

(* ------------------------------------------------------------------------------------------ *)
(** * Character sets *)

Lemma in_nrange lo hi d : In d (nrange lo hi) <-> lo <= d /\ d <= hi.
Proof.
  unfold nrange. rewrite in_map_iff. split.
  - intros (k & <- & Hk). apply in_seq in Hk. lia.
  - intros [H1 H2]. exists (N.to_nat (d - lo)). split; [lia|]. apply in_seq. lia.
Qed.

Lemma ci_eqb_spec ci c d : ci_eqb ci c d = true <-> ci_eq ci c d.
Proof.
  unfold ci_eqb, ci_eq. rewrite orb_true_iff, andb_true_iff, !N.eqb_eq. tauto.
Qed.

Lemma cs_mem_spec cs : forall ci c, cs_mem ci cs c = true <-> cs_in ci cs c.
Proof.
  induction cs as [d|lo hi| |a IHa b IHb|a IHa b IHb|a IHa|a IHa b IHb|a IHa|a IHa];
    intros ci c; cbn [cs_mem cs_in].
  - apply ci_eqb_spec.
  - rewrite orb_true_iff, andb_true_iff, existsb_exists. unfold in_rng.
    rewrite andb_true_iff, !N.leb_le. split.
    + intros [H|[Hci (d & Hd & He)]].
      * exists c. split; [lia|left; reflexivity].
      * apply in_nrange in Hd. apply N.eqb_eq in He. exists d. split; [lia|right; auto].
    + intros (d & Hd & [->|[Hci He]]).
      * left. lia.
      * right. split; [exact Hci|]. exists d. split; [apply in_nrange; lia|apply N.eqb_eq; exact He].
  - tauto.
  - rewrite orb_true_iff, IHa, IHb. tauto.
  - rewrite andb_true_iff, IHa, IHb. tauto.
  - rewrite negb_true_iff, <- IHa. destruct (cs_mem ci a c); split; congruence.
  - rewrite andb_true_iff, negb_true_iff, IHa, <- IHb. destruct (cs_mem ci b c); intuition congruence.
  - apply IHa.
  - apply IHa.
Qed.

(* ------------------------------------------------------------------------------------------ *)
(** * Pieces: [LStar], [LPow] *)

Lemma LStar_ext (P Q : lang) : (forall p s n, P p s n <-> Q p s n) ->
  forall p s n, LStar P p s n <-> LStar Q p s n.
Proof.
  intros H. assert (forall P Q : lang, (forall p s n, P p s n -> Q p s n) ->
                    forall p s n, LStar P p s n -> LStar Q p s n) as M.
  { intros P0 Q0 H0 p s n HS. induction HS; [constructor|constructor; auto]. }
  intros p s n. split; apply M; intros; apply H; assumption.
Qed.

Lemma LPow_ext (P Q : lang) : (forall p s n, P p s n <-> Q p s n) ->
  forall k p s n, LPow P k p s n <-> LPow Q k p s n.
Proof.
  intros H. induction k as [|k IH]; intros p s n; cbn [LPow]; [tauto|].
  split; intros (s1 & s2 & E & H1 & H2); exists s1, s2; (split; [exact E|split; [apply H; exact H1|apply IH; exact H2]]).
Qed.

Lemma LStar_LPow (P : lang) p s n : LStar P p s n <-> exists k, LPow P k p s n.
Proof.
  split.
  - intros HS. induction HS as [|p s1 s2 n H1 _ (k & Hk)].
    + exists O. reflexivity.
    + exists (S k), s1, s2. auto.
  - intros (k & Hk). revert p s Hk. induction k as [|k IH]; intros p s Hk; cbn [LPow] in Hk.
    + subst. constructor.
    + destruct Hk as (s1 & s2 & -> & H1 & H2). constructor; auto.
Qed.

Lemma LPow_add (P : lang) j k : forall p s n,
  LPow P (j + k) p s n <->
  exists s1 s2, s = s1 ++ s2 /\ LPow P j p s1 (firstc s2 n) /\ LPow P k (lastc p s1) s2 n.
Proof.
  induction j as [|j IH]; intros p s n; cbn [LPow Nat.add].
  - split.
    + intros H. exists [], s. auto.
    + intros (s1 & s2 & -> & -> & H). exact H.
  - split.
    + intros (s1 & s2 & -> & H1 & H2). apply IH in H2. destruct H2 as (t1 & t2 & -> & H2 & H3).
      exists (s1 ++ t1), t2. rewrite app_assoc. split; [reflexivity|]. split.
      * exists s1, t1. rewrite <- firstc_app. auto.
      * rewrite lastc_app. exact H3.
    + intros (s1 & s2 & -> & (t1 & t2 & -> & H1 & H2) & H3).
      exists t1, (t2 ++ s2). rewrite app_assoc. split; [reflexivity|]. split.
      * rewrite firstc_app. exact H1.
      * apply IH. exists t2, s2. rewrite <- lastc_app. auto.
Qed.

(* ------------------------------------------------------------------------------------------ *)
(** * The language of a core expression *)

Fixpoint LR (r : re) : lang :=
  fun p s n =>
  match r with
  | REmpty => False
  | REps => s = []
  | RChr ci cs => exists c, s = [c] /\ cs_mem ci cs c = true
  | RSeq a b => exists s1 s2, s = s1 ++ s2 /\ LR a p s1 (firstc s2 n) /\ LR b (lastc p s1) s2 n
  | RAlt a b => LR a p s n \/ LR b p s n
  | RStar a => LStar (LR a) p s n
  | RAnc k => s = [] /\ anchor_ok k p n = true
  end.

Lemma nullable_spec r : forall p n, nullable r p n = true <-> LR r p [] n.
Proof.
  induction r as [| |ci cs|a IHa b IHb|a IHa b IHb|a IHa|k]; intros p n; cbn [nullable LR].
  - split; [discriminate|tauto].
  - tauto.
  - split; [discriminate|]. intros (c & E & _). discriminate.
  - rewrite andb_true_iff, IHa, IHb. split.
    + intros [H1 H2]. exists [], []. auto.
    + intros (s1 & s2 & E & H1 & H2). symmetry in E. apply app_eq_nil in E. destruct E; subst. auto.
  - rewrite orb_true_iff, IHa, IHb. tauto.
  - split; [constructor|reflexivity].
  - tauto.
Qed.

Lemma alt_mem_sound a b : alt_mem a b = true -> forall p s n, LR a p s n -> LR b p s n.
Proof.
  induction b as [| |ci cs|b1 _ b2 _|b1 _ b2 IH2|b1 _|k]; cbn [alt_mem];
    destruct (re_eq_dec a _) as [->|_]; try discriminate; try (intros _ p s n H; exact H).
  intros H p s n Ha. apply orb_true_iff in H. destruct H as [H|H].
  - destruct (re_eq_dec a b1) as [->|_]; [left; exact Ha|discriminate].
  - right. apply IH2; assumption.
Qed.

Lemma mkAlt_spec a b p s n : LR (mkAlt a b) p s n <-> LR a p s n \/ LR b p s n.
Proof.
  assert (D : LR (if alt_mem a b then b else RAlt a b) p s n <-> LR a p s n \/ LR b p s n).
  { destruct (alt_mem a b) eqn:E; cbn [LR]; [|tauto].
    split; [tauto|]. intros [H|H]; [eapply alt_mem_sound; eauto|exact H]. }
  unfold mkAlt. destruct a; try (destruct b; cbn [LR] in *; tauto).
Qed.

Lemma mkSeq_spec a b p s n : LR (mkSeq a b) p s n <-> LR (RSeq a b) p s n.
Proof.
  assert (E : LR REmpty p s n <-> LR (RSeq a REmpty) p s n).
  { cbn [LR]. split; [tauto|]. intros (s1 & s2 & _ & _ & H). exact H. }
  unfold mkSeq. destruct a; try (destruct b; solve [exact E | reflexivity]).
  - cbn [LR]. split; [tauto|]. intros (s1 & s2 & _ & H & _). exact H.
  - cbn [LR]. split.
    + intros H. exists [], s. auto.
    + intros (s1 & s2 & -> & -> & H). exact H.
Qed.

Lemma LStar_cons_inv (P : lang) c : forall p s n,
  LStar P p (c :: s) n ->
  exists s1 s2, s = s1 ++ s2 /\ P p (c :: s1) (firstc s2 n) /\ LStar P (lastc (Some c) s1) s2 n.
Proof.
  intros p s n H. remember (c :: s) as t eqn:Et. revert c s Et.
  induction H as [|p s1 s2 n H1 H2 IH]; intros c s Et; [discriminate|].
  destruct s1 as [|c1 s1].
  - cbn [app] in Et. apply (IH c s Et).
  - cbn [app] in Et. injection Et as -> <-. exists s1, s2. auto.
Qed.

(** the derivative: [deriv p c r] matches [s] exactly when [r] matches [c :: s] *)
Lemma deriv_spec r : forall p c s n, LR (deriv p c r) (Some c) s n <-> LR r p (c :: s) n.
Proof.
  induction r as [| |ci cs|a IHa b IHb|a IHa b IHb|a IHa|k]; intros p c s n; cbn [deriv].
  - cbn [LR]. tauto.
  - cbn [LR]. split; [tauto|discriminate].
  - cbn [LR]. destruct (cs_mem ci cs c) eqn:E; cbn [LR].
    + split; [intros ->; exists c; auto|]. intros (d & H & _). injection H as _ ->. reflexivity.
    + split; [tauto|]. intros (d & H & H'). injection H as -> _. congruence.
  - rewrite mkAlt_spec, mkSeq_spec. cbn [LR]. split.
    + intros [(s1 & s2 & -> & H1 & H2)|H].
      * apply IHa in H1. exists (c :: s1), s2. auto.
      * destruct (nullable a p (Some c)) eqn:E; [|destruct H].
        apply nullable_spec in E. apply IHb in H. exists [], (c :: s). auto.
    + intros (s1 & s2 & E & H1 & H2). destruct s1 as [|c1 s1].
      * cbn [app] in E. subst s2. right. cbn [firstc] in H1. apply nullable_spec in H1.
        rewrite H1. apply IHb. exact H2.
      * cbn [app] in E. injection E as <- ->. left. exists s1, s2.
        split; [reflexivity|]. split; [apply IHa; exact H1|exact H2].
  - rewrite mkAlt_spec. cbn [LR]. rewrite IHa, IHb. tauto.
  - rewrite mkSeq_spec. cbn [LR]. split.
    + intros (s1 & s2 & -> & H1 & H2). apply IHa in H1.
      change (c :: s1 ++ s2) with ((c :: s1) ++ s2). constructor; assumption.
    + intros H. apply LStar_cons_inv in H. destruct H as (s1 & s2 & -> & H1 & H2).
      exists s1, s2. split; [reflexivity|]. split; [apply IHa; exact H1|exact H2].
  - cbn [LR]. split; [tauto|]. intros [H _]. discriminate.
Qed.

Lemma matchc_spec s : forall r p n, matchc r p s n = true <-> LR r p s n.
Proof.
  induction s as [|c s IH]; intros r p n; cbn [matchc].
  - apply nullable_spec.
  - rewrite IH. apply deriv_spec.
Qed.

(* ------------------------------------------------------------------------------------------ *)
(** * Desugaring preserves the language *)

Lemma rpow_spec d t k : forall p s n,
  LR (rpow k d t) p s n <->
  exists s1 s2, s = s1 ++ s2 /\ LPow (LR d) k p s1 (firstc s2 n) /\ LR t (lastc p s1) s2 n.
Proof.
  induction k as [|k IH]; intros p s n; cbn [rpow LPow].
  - split.
    + intros H. exists [], s. auto.
    + intros (s1 & s2 & -> & -> & H). exact H.
  - cbn [LR]. split.
    + intros (s1 & s2 & -> & H1 & H2). apply IH in H2. destruct H2 as (t1 & t2 & -> & H2 & H3).
      exists (s1 ++ t1), t2. rewrite app_assoc. split; [reflexivity|]. split.
      * exists s1, t1. rewrite <- firstc_app. auto.
      * rewrite lastc_app. exact H3.
    + intros (s1 & s2 & -> & (t1 & t2 & -> & H1 & H2) & H3).
      exists t1, (t2 ++ s2). rewrite app_assoc. split; [reflexivity|]. split.
      * rewrite firstc_app. exact H1.
      * apply IH. exists t2, s2. rewrite <- lastc_app. auto.
Qed.

Lemma ropt_spec d k : forall p s n,
  LR (ropt k d) p s n <-> exists j, (j <= k)%nat /\ LPow (LR d) j p s n.
Proof.
  induction k as [|k IH]; intros p s n; cbn [ropt LR].
  - split.
    + intros ->. exists O. split; [lia|reflexivity].
    + intros (j & Hj & H). assert (j = O) by lia. subst. exact H.
  - split.
    + intros [->|(s1 & s2 & -> & H1 & H2)].
      * exists O. split; [lia|reflexivity].
      * apply IH in H2. destruct H2 as (j & Hj & H2). exists (S j). split; [lia|].
        exists s1, s2. auto.
    + intros (j & Hj & H). destruct j as [|j]; [left; exact H|right].
      destruct H as (s1 & s2 & -> & H1 & H2). exists s1, s2. split; [reflexivity|].
      split; [exact H1|]. apply IH. exists j. split; [lia|exact H2].
Qed.

Theorem desugar_spec r : forall ci p s n, L ci r p s n <-> LR (desugar ci r) p s n.
Proof.
  induction r as [| |cs|a IHa b IHb|a IHa b IHb|g a IHa|a IHa|g a IHa|g m [m'|] a IHa|a IHa|k|a IHa|a IHa];
    intros ci p s n; cbn [L desugar].
  - reflexivity.
  - reflexivity.
  - cbn [LR]. split; intros (c & E & H); exists c; (split; [exact E|apply cs_mem_spec; exact H]).
  - cbn [LR]. split; intros (s1 & s2 & E & H1 & H2); exists s1, s2;
      (split; [exact E|split; [apply IHa; exact H1|apply IHb; exact H2]]).
  - cbn [LR]. rewrite IHa, IHb. reflexivity.
  - cbn [LR]. apply LStar_ext. intros; apply IHa.
  - (* Plus *)
    cbn zeta. cbn [LR]. split.
    + intros (k & Hk & H). destruct k as [|k]; [lia|]. cbn [LPow] in H.
      destruct H as (s1 & s2 & -> & H1 & H2). exists s1, s2. split; [reflexivity|].
      split; [apply IHa; exact H1|]. apply LStar_LPow. exists k.
      eapply LPow_ext; [|exact H2]. intros; symmetry; apply IHa.
    + intros (s1 & s2 & -> & H1 & H2). apply LStar_LPow in H2. destruct H2 as (k & H2).
      exists (S k). split; [lia|]. exists s1, s2. split; [reflexivity|].
      split; [apply IHa; exact H1|]. eapply LPow_ext; [|exact H2]. intros; apply IHa.
  - cbn [LR]. rewrite IHa. reflexivity.
  - (* Rep m (Some m') *)
    cbn zeta. destruct (Nat.ltb_spec m' m) as [Hlt|Hge]; cbn [LR].
    + split; [|tauto]. intros (k & Hk & _). lia.
    + rewrite rpow_spec. split.
      * intros (k & Hk & H). replace k with (m + (k - m))%nat in H by lia.
        apply LPow_add in H. destruct H as (s1 & s2 & -> & H1 & H2). exists s1, s2.
        split; [reflexivity|]. split; [eapply LPow_ext; [|exact H1]; intros; symmetry; apply IHa|].
        apply ropt_spec. exists (k - m)%nat. split; [lia|].
        eapply LPow_ext; [|exact H2]. intros; symmetry; apply IHa.
      * intros (s1 & s2 & -> & H1 & H2). apply ropt_spec in H2. destruct H2 as (j & Hj & H2).
        exists (m + j)%nat. split; [lia|]. apply LPow_add. exists s1, s2. split; [reflexivity|].
        split; (eapply LPow_ext; [|eassumption]; intros; apply IHa).
  - (* Rep m None *)
    cbn zeta. rewrite rpow_spec. split.
    + intros (k & Hk & H). replace k with (m + (k - m))%nat in H by lia.
      apply LPow_add in H. destruct H as (s1 & s2 & -> & H1 & H2). exists s1, s2.
      split; [reflexivity|]. split; [eapply LPow_ext; [|exact H1]; intros; symmetry; apply IHa|].
      cbn [LR]. apply LStar_LPow. exists (k - m)%nat.
      eapply LPow_ext; [|exact H2]. intros; symmetry; apply IHa.
    + intros (s1 & s2 & -> & H1 & H2). cbn [LR] in H2. apply LStar_LPow in H2.
      destruct H2 as (j & H2). exists (m + j)%nat. split; [lia|]. apply LPow_add.
      exists s1, s2. split; [reflexivity|].
      split; (eapply LPow_ext; [|eassumption]; intros; apply IHa).
  - apply IHa.
  - reflexivity.
  - apply IHa.
  - apply IHa.
Qed.

(* ------------------------------------------------------------------------------------------ *)
(** * Whole-string matching *)

Theorem matchb_spec r s : matchb r s = true <-> L false r None s None.
Proof. unfold matchb. rewrite matchc_spec. symmetry. apply desugar_spec. Qed.

Lemma mid_all s : mid 0 (length s) s = s.
Proof. unfold mid. rewrite Nat.sub_0_r. cbn [skipn]. apply firstn_all. Qed.

Lemma post_all s : post (length s) s = [].
Proof. unfold post. apply skipn_all. Qed.

Theorem matchb_in_lang r s : matchb r s = true <-> in_lang false r s 0 (length s).
Proof.
  rewrite matchb_spec. unfold in_lang. rewrite mid_all, post_all. cbn [pre firstn lastc fold_left firstc].
  split; [intros H; split; [lia|exact H]|tauto].
Qed.

(* ------------------------------------------------------------------------------------------ *)
(** * Substrings of the rest of the subject *)

(** [s] is the rest of the subject after the character [p]; s[i..j) is in the language of [r] *)
Definition LRat (r : re) (p : option char) (s : list char) (i j : nat) : Prop :=
  (i <= j /\ j <= length s)%nat /\
  LR r (lastc p (pre i s)) (mid i j s) (firstc (post j s) None).

Lemma in_lang_LRat ci r s i j : in_lang ci r s i j <-> LRat (desugar ci r) None s i j.
Proof. unfold in_lang, LRat. rewrite desugar_spec. reflexivity. Qed.

Lemma LRat_0_0 r p s : LRat r p s 0 0 <-> nullable r p (firstc s None) = true.
Proof.
  unfold LRat, pre, mid, post. cbn [firstn skipn Nat.sub lastc fold_left].
  rewrite nullable_spec. split; [tauto|]. intros H. split; [lia|exact H].
Qed.

Lemma LRat_0_S r p c s k : LRat r p (c :: s) 0 (S k) <-> LRat (deriv p c r) (Some c) s 0 k.
Proof.
  unfold LRat, pre, mid, post. rewrite !Nat.sub_0_r. cbn [firstn skipn lastc fold_left length].
  rewrite deriv_spec. split; intros [H1 H2]; (split; [lia|exact H2]).
Qed.

Lemma LRat_S_S r p c s i j : LRat r p (c :: s) (S i) (S j) <-> LRat r (Some c) s i j.
Proof.
  unfold LRat, pre, mid, post. cbn [firstn skipn Nat.sub length]. rewrite lastc_cons.
  split; intros [H1 H2]; (split; [lia|exact H2]).
Qed.

Lemma LRat_nil r p i j : LRat r p [] i j -> i = O /\ j = O.
Proof. intros [H _]. cbn [length] in H. lia. Qed.

Lemma prefixb_spec s : forall r p, prefixb r p s = true <-> exists k, LRat r p s 0 k.
Proof.
  induction s as [|c s IH]; intros r p; cbn [prefixb]; rewrite orb_true_iff, <- LRat_0_0.
  - split.
    + intros [H|H]; [exists O; exact H|discriminate].
    + intros (k & H). left. destruct (LRat_nil _ _ _ _ H) as [_ ->]. exact H.
  - rewrite IH. split.
    + intros [H|(k & H)]; [exists O; exact H|exists (S k); apply LRat_0_S; exact H].
    + intros ([|k] & H); [left; exact H|right; exists k; apply LRat_0_S; exact H].
Qed.

Lemma searchc_spec s : forall r p, searchc r p s = true <-> exists i j, LRat r p s i j.
Proof.
  induction s as [|c s IH]; intros r p; cbn [searchc]; rewrite orb_true_iff, prefixb_spec.
  - split.
    + intros [(k & H)|H]; [exists O, k; exact H|discriminate].
    + intros (i & j & H). left. destruct (LRat_nil _ _ _ _ H) as [-> ->]. exists O. exact H.
  - rewrite IH. split.
    + intros [(k & H)|(i & j & H)]; [exists O, k; exact H|].
      exists (S i), (S j). apply LRat_S_S. exact H.
    + intros (i & j & H). destruct i as [|i]; [left; exists j; exact H|right].
      destruct j as [|j]; [destruct H as [H _]; lia|].
      exists i, j. apply LRat_S_S in H. exact H.
Qed.

Theorem searchb_spec r s : searchb r s = true <-> exists i j, in_lang false r s i j.
Proof.
  unfold searchb. rewrite searchc_spec.
  split; intros (i & j & H); exists i, j; apply in_lang_LRat; exact H.
Qed.

(* ------------------------------------------------------------------------------------------ *)
(** * Leftmost-longest *)

Lemma longest_spec s : forall r p,
  match longest r p s with
  | Some k => LRat r p s 0 k /\ forall k', LRat r p s 0 k' -> (k' <= k)%nat
  | None => forall k', ~ LRat r p s 0 k'
  end.
Proof.
  induction s as [|c s IH]; intros r p; cbn [longest].
  - destruct (nullable r p (firstc [] None)) eqn:E.
    + split; [apply LRat_0_0; exact E|]. intros k' H. destruct (LRat_nil _ _ _ _ H) as [_ ->]. lia.
    + intros k' H. destruct (LRat_nil _ _ _ _ H) as [_ ->]. apply LRat_0_0 in H. congruence.
  - specialize (IH (deriv p c r) (Some c)).
    destruct (longest (deriv p c r) (Some c) s) as [k|]; cbn [option_map].
    + destruct IH as [H1 H2]. split; [apply LRat_0_S; exact H1|].
      intros [|k'] H; [lia|]. apply LRat_0_S in H. apply H2 in H. lia.
    + destruct (nullable r p (firstc (c :: s) None)) eqn:E.
      * split; [apply LRat_0_0; exact E|]. intros [|k'] H; [lia|].
        apply LRat_0_S in H. destruct (IH _ H).
      * intros [|k'] H; [apply LRat_0_0 in H; congruence|].
        apply LRat_0_S in H. destruct (IH _ H).
Qed.

Lemma search_from_spec s : forall r p i0,
  match search_from r p s i0 with
  | Some (a, b) => exists i j, a = (i0 + i)%nat /\ b = (i0 + j)%nat /\ LRat r p s i j /\
                     forall i' j', LRat r p s i' j' -> (i < i')%nat \/ (i = i' /\ (j' <= j)%nat)
  | None => forall i j, ~ LRat r p s i j
  end.
Proof.
  induction s as [|c s IH]; intros r p i0; cbn [search_from].
  - pose proof (longest_spec [] r p) as HL. destruct (longest r p []) as [k|].
    + destruct HL as [H1 H2]. exists O, k. split; [lia|]. split; [lia|]. split; [exact H1|].
      intros i' j' H. destruct (LRat_nil _ _ _ _ H) as [-> ->]. right. split; [reflexivity|].
      apply H2. exact H.
    + intros i j H. destruct (LRat_nil _ _ _ _ H) as [-> ->]. exact (HL _ H).
  - pose proof (longest_spec (c :: s) r p) as HL. destruct (longest r p (c :: s)) as [k|].
    + destruct HL as [H1 H2]. exists O, k. split; [lia|]. split; [lia|]. split; [exact H1|].
      intros [|i'] j' H; [right; split; [reflexivity|apply H2; exact H]|left; lia].
    + specialize (IH r (Some c) (S i0)). destruct (search_from r (Some c) s (S i0)) as [[a b]|].
      * destruct IH as (i & j & -> & -> & H1 & H2). exists (S i), (S j).
        split; [lia|]. split; [lia|]. split; [apply LRat_S_S; exact H1|].
        intros [|i'] j' H; [destruct (HL _ H)|].
        destruct j' as [|j']; [destruct H as [H _]; lia|]. apply LRat_S_S in H.
        destruct (H2 _ _ H) as [Hlt|[-> Hle]]; [left; lia|right; split; [reflexivity|lia]].
      * intros [|i] j H; [exact (HL _ H)|].
        destruct j as [|j]; [destruct H as [H _]; lia|]. apply LRat_S_S in H. exact (IH _ _ H).
Qed.

Theorem search_span_spec r s :
  match search_span r s with
  | Some (i, j) => in_lang false r s i j /\
                   forall i' j', in_lang false r s i' j' -> (i < i')%nat \/ (i = i' /\ (j' <= j)%nat)
  | None => forall i j, ~ in_lang false r s i j
  end.
Proof.
  unfold search_span. pose proof (search_from_spec s (desugar false r) None O) as H.
  destruct (search_from (desugar false r) None s O) as [[a b]|].
  - destruct H as (i & j & -> & -> & H1 & H2). cbn [Nat.add]. split; [apply in_lang_LRat; exact H1|].
    intros i' j' H. apply in_lang_LRat in H. exact (H2 _ _ H).
  - intros i j Hl. apply in_lang_LRat in Hl. exact (H _ _ Hl).
Qed.

(* ------------------------------------------------------------------------------------------ *)
(** * The span validator *)

Lemma span_ok_spec ci r s i j : span_ok ci r s (i, j) = true <-> in_lang ci r s i j.
Proof.
  unfold span_ok, in_lang. rewrite !andb_true_iff, !Nat.leb_le, matchc_spec, <- desugar_spec. tauto.
Qed.

Lemma forallb2_spec {A B} (f : A -> B -> bool) : forall l m, forallb2 f l m = true ->
  length l = length m /\
  forall k x y, nth_error l k = Some x -> nth_error m k = Some y -> f x y = true.
Proof.
  induction l as [|x l IH]; intros [|y m] H; cbn [forallb2] in H; try discriminate.
  - split; [reflexivity|]. intros [|k] x y Hx; discriminate.
  - apply andb_true_iff in H. destruct H as [H1 H2]. destruct (IH _ H2) as [IH1 IH2].
    split; [cbn [length]; congruence|]. intros [|k] x' y' Hx Hy; cbn [nth_error] in *.
    + congruence.
    + eapply IH2; eassumption.
Qed.

Lemma subs_length r : forall ci anc rep k, length (subs ci anc rep k r) = count_subs r.
Proof.
  induction r as [| |cs|a IHa b IHb|a IHa b IHb|g a IHa|a IHa|g a IHa|g m n a IHa|a IHa|k0|a IHa|a IHa];
    intros ci anc rep k; cbn [subs count_subs length]; try reflexivity; try apply IHa.
  - rewrite app_length, IHa, IHb. reflexivity.
  - rewrite app_length, IHa, IHb. reflexivity.
  - destruct m as [|m]; [destruct n as [[|n]|]|]; cbn [length]; try reflexivity; apply IHa.
  - rewrite IHa. reflexivity.
Qed.

(** what [check_spans r s spans = true] establishes *)
Definition spans_valid (r : sre) (s : list char) (spans : list (option span)) : Prop :=
  exists i0 j0 rest,
    spans = Some (i0, j0) :: rest /\
    in_lang false r s i0 j0 /\
    length rest = count_subs r /\
    forall k ci body anc i j,
      nth_error (subs false 0 false 1 r) k = Some (ci, body, anc) ->
      nth_error rest k = Some (Some (i, j)) ->
      in_lang ci body s i j /\
      exists oi oj, nth anc spans None = Some (oi, oj) /\ (oi <= i /\ j <= oj)%nat.

Theorem check_spans_sound r s spans : check_spans r s spans = true -> spans_valid r s spans.
Proof.
  unfold check_spans, spans_valid. destruct spans as [|[[i0 j0]|] rest]; try discriminate.
  intros H. apply andb_true_iff in H. destruct H as [H0 H].
  apply span_ok_spec in H0. apply forallb2_spec in H. destruct H as [Hlen H].
  exists i0, j0, rest. split; [reflexivity|]. split; [exact H0|].
  split; [rewrite <- (subs_length r false 0%nat false 1%nat); symmetry; exact Hlen|].
  intros k ci body anc i j Hk Hr. specialize (H _ _ _ Hk Hr). unfold sub_ok in H.
  apply andb_true_iff in H. destruct H as [H1 H2]. apply span_ok_spec in H1. split; [exact H1|].
  match type of H2 with (match ?x with _ => _ end) = true => destruct x as [[oi oj]|] eqn:En end;
    [|discriminate H2].
  exists oi, oj. split; [reflexivity|]. unfold within in H2. cbn [fst snd] in H2.
  apply andb_true_iff in H2. rewrite !Nat.leb_le in H2. exact H2.
Qed.

Lemma forallb2_complete {A B} (f : A -> B -> bool) : forall l m, length l = length m ->
  (forall k x y, nth_error l k = Some x -> nth_error m k = Some y -> f x y = true) ->
  forallb2 f l m = true.
Proof.
  induction l as [|x l IH]; intros [|y m] Hl H; cbn [length] in Hl; try discriminate; cbn [forallb2]; [reflexivity|].
  apply andb_true_iff. split.
  - apply (H O); reflexivity.
  - apply IH; [congruence|]. intros k x' y' Hx Hy. apply (H (S k)); assumption.
Qed.

(** the validator rejects nothing valid: it is exact *)
Theorem check_spans_complete r s spans : spans_valid r s spans -> check_spans r s spans = true.
Proof.
  intros (i0 & j0 & rest & -> & H0 & Hlen & H). unfold check_spans.
  apply andb_true_iff. split; [apply span_ok_spec; exact H0|].
  apply forallb2_complete; [rewrite subs_length; symmetry; exact Hlen|].
  intros k [[ci body] anc] [[i j]|] Hk Hr; [|reflexivity].
  destruct (H _ _ _ _ _ _ Hk Hr) as (HL & oi & oj & Hn & Hi & Hj).
  unfold sub_ok. apply andb_true_iff. split; [apply span_ok_spec; exact HL|].
  rewrite Hn. unfold within. cbn [fst snd]. apply andb_true_iff. rewrite !Nat.leb_le. auto.
Qed.

(* ------------------------------------------------------------------------------------------ *)
(** * regexp-fold: successive matches *)

Lemma LRat_skip d : forall s r p x y, (d <= length s)%nat ->
  LRat r (lastc p (firstn d s)) (skipn d s) x y -> LRat r p s (d + x) (d + y).
Proof.
  induction d as [|d IH]; intros s r p x y Hd H.
  - exact H.
  - destruct s as [|c s]; [cbn [length] in Hd; lia|].
    cbn [firstn skipn] in H. rewrite lastc_cons in H. cbn [length] in Hd.
    apply IH in H; [|lia]. cbn [Nat.add]. apply LRat_S_S. exact H.
Qed.

Lemma fold_from_sound fuel : forall s r p i l, fold_from fuel r p s i = Some l ->
  Forall (fun ab => exists x y, fst ab = (i + x)%nat /\ snd ab = (i + y)%nat /\ LRat r p s x y) l.
Proof.
  induction fuel as [|fuel IH]; intros s r p i l H; destruct s as [|c s]; cbn [fold_from] in H;
    try (injection H as <-; constructor); try discriminate.
  pose proof (search_from_spec (c :: s) r p i) as HS.
  destruct (search_from r p (c :: s) i) as [[a b]|]; [|injection H as <-; constructor].
  destruct HS as (x & y & -> & -> & HL & _).
  set (d := if ((i + y) =? i)%nat then 1%nat else (i + y - i)%nat) in *.
  destruct (fold_from fuel r (lastc p (firstn d (c :: s))) (skipn d (c :: s)) (i + d)) as [l'|] eqn:E;
    [|discriminate]. cbn [option_map] in H. injection H as <-.
  assert (Hd : (d <= length (c :: s))%nat).
  { subst d. destruct (Nat.eqb_spec (i + y) i); [cbn [length]; lia|]. destruct HL as [HL _]. lia. }
  constructor.
  - exists x, y. cbn [fst snd]. auto.
  - apply IH in E. eapply Forall_impl; [|exact E]. intros [a b] (x' & y' & Ha & Hb & HL').
    cbn [fst snd] in *. exists (d + x')%nat, (d + y')%nat. split; [lia|]. split; [lia|].
    apply LRat_skip; assumption.
Qed.

Lemma fold_from_total fuel : forall s r p i, (length s <= fuel)%nat -> fold_from fuel r p s i <> None.
Proof.
  induction fuel as [|fuel IH]; intros s r p i Hl; destruct s as [|c s]; cbn [fold_from];
    try discriminate; [cbn [length] in Hl; lia|].
  pose proof (search_from_spec (c :: s) r p i) as HS.
  destruct (search_from r p (c :: s) i) as [[a b]|]; [|discriminate].
  destruct HS as (x & y & -> & -> & HL & _).
  set (d := if ((i + y) =? i)%nat then 1%nat else (i + y - i)%nat).
  assert (Hd : (1 <= d)%nat) by (subst d; destruct (Nat.eqb_spec (i + y) i); lia).
  specialize (IH (skipn d (c :: s)) r (lastc p (firstn d (c :: s))) (i + d)%nat).
  destruct (fold_from fuel r (lastc p (firstn d (c :: s))) (skipn d (c :: s)) (i + d)); [discriminate|].
  exfalso. apply IH; [|reflexivity]. rewrite skipn_length. cbn [length] in *. lia.
Qed.

Theorem fold_spans_spec r s :
  exists l, fold_spans r s = Some l /\
            Forall (fun ab => in_lang false r s (fst ab) (snd ab)) l /\
            (s <> [] -> hd_error l = search_span r s).
Proof.
  unfold fold_spans. destruct (fold_from (length s) (desugar false r) None s 0) as [l|] eqn:E.
  - exists l. split; [reflexivity|]. split.
    + apply fold_from_sound in E. eapply Forall_impl; [|exact E].
      intros [a b] (x & y & Ha & Hb & HL). cbn [fst snd Nat.add] in *. subst. apply in_lang_LRat. exact HL.
    + intros Hne. destruct s as [|c s]; [congruence|]. unfold search_span. cbn [length fold_from] in E.
      destruct (search_from (desugar false r) None (c :: s) 0) as [[a b]|]; [|injection E as <-; reflexivity].
      destruct (fold_from (length s) (desugar false r) _ _ _); [|discriminate].
      cbn [option_map] in E. injection E as <-. reflexivity.
  - exfalso. eapply fold_from_total; [|exact E]. lia.
Qed.

(* ------------------------------------------------------------------------------------------ *)
(** * Sanity of the SPEC: without anchors the language ignores the context; case-insensitive comparison *)

Lemma LStar_ctx (P : lang) : (forall p s n p' n', P p s n -> P p' s n') ->
  forall p s n, LStar P p s n -> forall p' n', LStar P p' s n'.
Proof.
  intros HP p s n H. induction H as [|p s1 s2 n H1 _ IH]; intros p' n'; [constructor|].
  constructor; [eapply HP; exact H1|apply IH].
Qed.

Lemma LPow_ctx (P : lang) : (forall p s n p' n', P p s n -> P p' s n') ->
  forall k p s n p' n', LPow P k p s n -> LPow P k p' s n'.
Proof.
  intros HP. induction k as [|k IH]; intros p s n p' n' H; cbn [LPow] in *; [exact H|].
  destruct H as (s1 & s2 & E & H1 & H2). exists s1, s2. split; [exact E|].
  split; [eapply HP; exact H1|eapply IH; exact H2].
Qed.

Theorem anchor_free_context_independent r : anchor_free r = true ->
  forall ci p s n p' n', L ci r p s n -> L ci r p' s n'.
Proof.
  induction r as [| |cs|a IHa b IHb|a IHa b IHb|g a IHa|a IHa|g a IHa|g m [m'|] a IHa|a IHa|k|a IHa|a IHa];
    intros Hf ci p s n p' n' H; cbn [anchor_free] in Hf; cbn [L] in *;
    try (apply andb_true_iff in Hf; destruct Hf as [Hfa Hfb]).
  - exact H.
  - exact H.
  - exact H.
  - destruct H as (s1 & s2 & E & H1 & H2). exists s1, s2. split; [exact E|].
    split; [eapply IHa; eauto|eapply IHb; eauto].
  - destruct H as [H|H]; [left; eapply IHa; eauto|right; eapply IHb; eauto].
  - eapply LStar_ctx; [|exact H]. intros; eapply IHa; eauto.
  - destruct H as (k & Hk & H). exists k. split; [exact Hk|].
    eapply LPow_ctx; [|exact H]. intros; eapply IHa; eauto.
  - destruct H as [H|H]; [left; exact H|right; eapply IHa; eauto].
  - destruct H as (k & Hk & H). exists k. split; [exact Hk|].
    eapply LPow_ctx; [|exact H]. intros; eapply IHa; eauto.
  - destruct H as (k & Hk & H). exists k. split; [exact Hk|].
    eapply LPow_ctx; [|exact H]. intros; eapply IHa; eauto.
  - eapply IHa; eauto.
  - discriminate.
  - eapply IHa; eauto.
  - eapply IHa; eauto.
Qed.

Theorem ci_eq_fold c d : ci_eq true c d <-> fold c = fold d.
Proof. unfold ci_eq. split; [intros [->|[_ H]]; [reflexivity|exact H]|intros H; right; auto]. Qed.

Theorem ci_eq_false c d : ci_eq false c d <-> c = d.
Proof. unfold ci_eq. split; [intros [H|[H _]]; [exact H|discriminate]|auto]. Qed.

(* ------------------------------------------------------------------------------------------ *)
(** * sre-expand-reps: the flat expansion of a repetition has the language of the repetition *)

Lemma items_app (P : lang) l1 : forall l2 p s n,
  items_lang P (l1 ++ l2) p s n <->
  exists s1 s2, s = s1 ++ s2 /\ items_lang P l1 p s1 (firstc s2 n) /\ items_lang P l2 (lastc p s1) s2 n.
Proof.
  induction l1 as [|it l1 IH]; intros l2 p s n; cbn [app items_lang].
  - split.
    + intros H. exists [], s. auto.
    + intros (s1 & s2 & -> & -> & H). exact H.
  - split.
    + intros (s1 & s2 & -> & H1 & H2). apply IH in H2. destruct H2 as (t1 & t2 & -> & H2 & H3).
      exists (s1 ++ t1), t2. rewrite app_assoc. split; [reflexivity|]. split.
      * exists s1, t1. rewrite <- firstc_app. auto.
      * rewrite lastc_app. exact H3.
    + intros (s1 & s2 & -> & (t1 & t2 & -> & H1 & H2) & H3).
      exists t1, (t2 ++ s2). rewrite app_assoc. split; [reflexivity|]. split.
      * rewrite firstc_app. exact H1.
      * apply IH. exists t2, s2. rewrite <- lastc_app. auto.
Qed.

Lemma items_copies (P : lang) l : Forall (fun it => exists b, it = RCopy b) l ->
  forall p s n, items_lang P l p s n <-> LPow P (length l) p s n.
Proof.
  induction 1 as [|it l (b & ->) _ IH]; intros p s n; cbn [items_lang length LPow item_lang]; [reflexivity|].
  split; intros (s1 & s2 & E & H1 & H2); exists s1, s2; (split; [exact E|split; [exact H1|apply IH; exact H2]]).
Qed.

Lemma items_opts (P : lang) l : Forall (fun it => exists b, it = ROptc b) l ->
  forall p s n, items_lang P l p s n <-> exists i, (i <= length l)%nat /\ LPow P i p s n.
Proof.
  induction 1 as [|it l (b & ->) _ IH]; intros p s n; cbn [items_lang length item_lang].
  - split.
    + intros ->. exists O. split; [lia|reflexivity].
    + intros (i & Hi & H). assert (i = O) by lia. subst. exact H.
  - split.
    + intros (s1 & s2 & -> & [->|H1] & H2).
      * apply IH in H2. destruct H2 as (i & Hi & H2). exists i. split; [lia|exact H2].
      * apply IH in H2. destruct H2 as (i & Hi & H2). exists (S i). split; [lia|].
        exists s1, s2. auto.
    + intros (i & Hi & H). destruct (Nat.eq_dec i (S (length l))) as [->|Hne].
      * destruct H as (s1 & s2 & -> & H1 & H2). exists s1, s2. split; [reflexivity|].
        split; [right; exact H1|]. apply IH. exists (length l). split; [lia|exact H2].
      * exists [], s. split; [reflexivity|]. split; [left; reflexivity|].
        apply IH. exists i. split; [lia|exact H].
Qed.

Lemma Forall_repeat {A} (Q : A -> Prop) x k : Q x -> Forall Q (repeat x k).
Proof. intros H. induction k; cbn [repeat]; constructor; auto. Qed.

Theorem expand_reps_unbounded (P : lang) from p s n :
  items_lang P (expand_reps from None) p s n <-> exists k, (from <= k)%nat /\ LPow P k p s n.
Proof.
  unfold expand_reps. rewrite items_app. split.
  - intros (s1 & s2 & -> & H1 & H2).
    apply items_copies in H1; [|apply Forall_repeat; eauto]. rewrite repeat_length in H1.
    cbn [items_lang item_lang] in H2. destruct H2 as (t1 & t2 & -> & H2 & ->).
    rewrite app_nil_r in *. cbn [firstc] in H2. apply LStar_LPow in H2. destruct H2 as (j & H2).
    exists (from + j)%nat. split; [lia|]. apply LPow_add. exists s1, t1. auto.
  - intros (k & Hk & H). replace k with (from + (k - from))%nat in H by lia. apply LPow_add in H.
    destruct H as (s1 & s2 & -> & H1 & H2). exists s1, s2. split; [reflexivity|]. split.
    + apply items_copies; [apply Forall_repeat; eauto|]. rewrite repeat_length. exact H1.
    + cbn [items_lang item_lang]. exists s2, []. rewrite app_nil_r. split; [reflexivity|].
      split; [|reflexivity]. cbn [firstc]. apply LStar_LPow. eauto.
Qed.

Theorem expand_reps_bounded (P : lang) from t p s n : (from <= t)%nat ->
  (items_lang P (expand_reps from (Some t)) p s n <-> exists k, (from <= k /\ k <= t)%nat /\ LPow P k p s n).
Proof.
  intros Hle. unfold expand_reps. destruct (Nat.eqb_spec from t) as [<-|Hne].
  - destruct from as [|k0].
    + cbn [items_lang]. split.
      * intros ->. exists O. split; [lia|reflexivity].
      * intros (k & Hk & H). assert (k = O) by lia. subst. exact H.
    + rewrite items_copies.
      * rewrite app_length, repeat_length. cbn [length]. replace (k0 + 1)%nat with (S k0) by lia. split.
        -- intros H. exists (S k0). split; [lia|exact H].
        -- intros (k & Hk & H). assert (k = S k0) by lia. subst. exact H.
      * apply Forall_app. split; [apply Forall_repeat; eauto|repeat constructor; eauto].
  - rewrite items_app. split.
    + intros (s1 & s2 & -> & H1 & H2).
      apply items_copies in H1; [|apply Forall_repeat; eauto]. rewrite repeat_length in H1.
      apply items_opts in H2; [|apply Forall_app; split; [apply Forall_repeat; eauto|repeat constructor; eauto]].
      rewrite app_length, repeat_length in H2. cbn [length] in H2. destruct H2 as (i & Hi & H2).
      exists (from + i)%nat. split; [lia|]. apply LPow_add. exists s1, s2. auto.
    + intros (k & Hk & H). replace k with (from + (k - from))%nat in H by lia. apply LPow_add in H.
      destruct H as (s1 & s2 & -> & H1 & H2). exists s1, s2. split; [reflexivity|]. split.
      * apply items_copies; [apply Forall_repeat; eauto|]. rewrite repeat_length. exact H1.
      * apply items_opts; [apply Forall_app; split; [apply Forall_repeat; eauto|repeat constructor; eauto]|].
        rewrite app_length, repeat_length. cbn [length]. exists (k - from)%nat. split; [lia|exact H2].
Qed.

(* ------------------------------------------------------------------------------------------ *)
(** * regexp-match>=?: the merge preference *)

Fixpoint wf_vec (m : list (option nat)) : Prop :=
  match m with
  | Some a :: Some b :: r => (a <= b)%nat /\ wf_vec r
  | _ :: _ :: r => wf_vec r
  | _ => True
  end.

Lemma pair_ind {A} (P : list A -> Prop) :
  P [] -> (forall a, P [a]) -> (forall a b l, P l -> P (a :: b :: l)) -> forall l, P l.
Proof.
  intros H0 H1 H2. fix IH 1. intros [|a [|b l]]; [exact H0|apply H1|apply H2, IH].
Qed.

Lemma oeqb_sym a b : oeqb a b = oeqb b a.
Proof. destruct a, b; cbn [oeqb]; try reflexivity. apply Nat.eqb_sym. Qed.

Lemma oeqb_eq a b : oeqb a b = true <-> a = b.
Proof.
  destruct a, b; cbn [oeqb]; try (split; congruence).
  rewrite Nat.eqb_eq. split; congruence.
Qed.

Ltac ge_cases :=
  repeat match goal with
         | |- context [(?a <? ?b)%nat] => destruct (Nat.ltb_spec a b)
         | |- context [(?a =? ?b)%nat] => destruct (Nat.eqb_spec a b)
         | H : context [(?a <? ?b)%nat] |- _ => destruct (Nat.ltb_spec a b)
         | H : context [(?a =? ?b)%nat] |- _ => destruct (Nat.eqb_spec a b)
         end.

(** the preference is total on well-formed vectors: of two different candidates one is kept *)
Theorem match_ge_total ng : forall m1 m2 i, wf_vec m1 -> wf_vec m2 ->
  match_ge ng i m1 m2 = true \/ match_ge ng i m2 m1 = true.
Proof.
  induction m1 as [|a|s1 e1 r1 IH] using pair_ind; intros m2 i W1 W2; try (left; reflexivity).
  destruct m2 as [|s2 [|e2 r2]]; try (left; reflexivity).
  cbn [match_ge]. rewrite (oeqb_sym s2 s1), (oeqb_sym e2 e1).
  destruct (oeqb s1 s2 && oeqb e1 e2) eqn:E.
  - apply IH.
    + destruct s1 as [?|], e1 as [?|]; cbn [wf_vec] in W1; tauto.
    + destruct s2 as [?|], e2 as [?|]; cbn [wf_vec] in W2; tauto.
  - assert (N : ~ (s1 = s2 /\ e1 = e2)).
    { intros [-> ->]. rewrite andb_false_iff in E. destruct E as [E|E];
        [assert (X : oeqb s2 s2 = true) by (apply oeqb_eq; reflexivity)
        |assert (X : oeqb e2 e2 = true) by (apply oeqb_eq; reflexivity)]; congruence. }
    destruct (existsb (Nat.eqb (i + 1)) ng);
    destruct s1 as [b1|], s2 as [b2|], e1 as [x1|], e2 as [x2|]; cbn [wf_vec] in W1, W2; cbn [negb orb andb];
      ge_cases; cbn [negb orb andb]; auto; try lia;
      try (exfalso; apply N; split; f_equal; lia).
Qed.

(** on complete first pairs: leftmost first, then longest -- or shortest when the end slot is non-greedy *)
Theorem match_ge_leftmost_longest ng s1 e1 s2 e2 r1 r2 :
  (s1 <= e1)%nat -> (s2 <= e2)%nat -> (s1, e1) <> (s2, e2) ->
  (match_ge ng 0 (Some s1 :: Some e1 :: r1) (Some s2 :: Some e2 :: r2) = true <->
   (s1 < s2)%nat \/ (s1 = s2 /\ if existsb (Nat.eqb 1) ng then (e1 <= e2)%nat else (e2 <= e1)%nat)).
Proof.
  intros W1 W2 N. cbn [match_ge oeqb Nat.add].
  destruct (Nat.eqb_spec s1 s2) as [->|Hs]; [destruct (Nat.eqb_spec e1 e2) as [->|He]; [congruence|]|];
    cbn [andb]; destruct (existsb (Nat.eqb 1) ng); cbn [negb orb andb]; ge_cases; cbn [negb orb andb];
    split; intros HH; try discriminate; try reflexivity; try lia.
Qed.

(* ------------------------------------------------------------------------------------------ *)
(** * Non-vacuity: the statements above on concrete values *)

(** (: bol ($ (+ (or #\a #\b))) (w/nocase ($ (repeated 1 2 #\c))) eol)  on the second line of "x\nabCc" *)
Definition ex_sre : sre :=
  Seq (Anc Bol) (Seq (Sub (Plus (Alt (Chr (CsChar 97)) (Chr (CsChar 98)))))
                     (Seq (NoCase (Sub (Rep true 1 (Some 2%nat) (Chr (CsChar 99))))) (Anc Eol))).
Definition ex_str : list char := [120; 10; 97; 98; 67; 99].

Example ex_search : searchb ex_sre ex_str = true /\ matchb ex_sre ex_str = false.
Proof. vm_compute. split; reflexivity. Qed.
Example ex_in_lang : in_lang false ex_sre ex_str 2 6.
Proof. apply span_ok_spec. vm_compute. reflexivity. Qed.
Example ex_span : search_span ex_sre ex_str = Some (2, 6)%nat.
Proof. vm_compute. reflexivity. Qed.
Example ex_check : check_spans ex_sre ex_str [Some (2, 6); Some (2, 4); Some (4, 6)]%nat = true
                /\ check_spans ex_sre ex_str [Some (2, 6); Some (2, 3); Some (4, 6)]%nat = true
                /\ check_spans ex_sre ex_str [Some (2, 6); Some (2, 5); Some (4, 6)]%nat = false
                /\ check_spans ex_sre ex_str [Some (2, 6); Some (1, 4); Some (4, 6)]%nat = false.
Proof. vm_compute. repeat split; reflexivity. Qed.
Example ex_fold_spans : fold_spans (Plus (Chr (CsRange 97 98))) ex_str = Some [(2, 4)]%nat
                     /\ fold_spans (Star true (Chr (CsChar 97))) [98; 97; 97; 98] = Some [(0, 0); (1, 3); (3, 3)]%nat.
Proof. vm_compute. split; reflexivity. Qed.
Example ex_expand : expand_reps 2 (Some 4%nat) = [RCopy false; RCopy false; ROptc false; ROptc true]
                 /\ expand_reps 3 (Some 3%nat) = [RCopy false; RCopy false; RCopy true]
                 /\ expand_reps 0 (Some 0%nat) = [] /\ expand_reps 1 None = [RCopy false; RStarc].
Proof. vm_compute. repeat split; reflexivity. Qed.
Example ex_ge : match_ge [] 0 [Some 0; Some 3; Some 1; Some 2]%nat [Some 0; Some 2; Some 0; Some 2]%nat = true
             /\ match_ge [1%nat] 0 [Some 0; Some 3]%nat [Some 0; Some 2]%nat = false
             /\ match_ge [] 0 [Some 1; Some 3]%nat [Some 0; Some 0]%nat = false
             /\ match_ge [3%nat] 0 [Some 0; Some 3; Some 1; Some 3]%nat [Some 0; Some 3; Some 1; Some 2]%nat = false.
Proof. vm_compute. repeat split; reflexivity. Qed.
Example ex_fold : fold 67 = fold 99 /\ cs_mem true (CsRange 97 100) 67 = true
                  /\ cs_mem false (CsRange 97 100) 67 = false.
Proof. vm_compute. repeat split; reflexivity. Qed.
