(** C20 -- every set of spans the modelled engine reports passes the exact validator [check_spans]:
    assembly of  run_vector_is_trace (NfaSubs.v: the reported vector is the trace of one accepting path),
    compile_top_shapeM (NfaSubsGraph.v: shape of the table with its submatch marks), FragM_sound (NfaSubsValid.v:
    one traversal of a fragment acts on the vector as [U] says), U_algebra_holds (NfaSubsUAlg.v). *)
From ChibiV Require Import C20.Re C20.Proofs C20.Nfa C20.NfaSem C20.NfaRun C20.NfaThompson C20.NfaSpan C20.NfaCount
                           C20.NfaSubsDefs C20.NfaSubsTfc C20.NfaSubsGraph C20.NfaSubsU C20.NfaSubs.
From Coq Require Import List Arith Lia Bool.
Import ListNotations.
Local Open Scope nat_scope.
Arguments match_ge : simpl never.

(* ------------------------------------------------------------------------------------------ *)
(** * Vectors, marks, spans *)

Lemma nth_upd_eq {A} (l : list A) k f d : k < length l -> nth k (upd l k f) d = f (nth k l d).
Proof.
  revert k; induction l as [|x r IH]; intros [|k] H; cbn [length] in H; try lia; cbn [upd nth]; [reflexivity|].
  apply IH. lia.
Qed.

Lemma g_setm_eq (m : mvec) k v : k < length m -> getm (setm m k v) k = Some v.
Proof. intros H. unfold getm, setm. rewrite nth_upd_eq by exact H. reflexivity. Qed.

Lemma g_setm_neq (m : mvec) k v j : k <> j -> getm (setm m k v) j = getm m j.
Proof. intros H. unfold getm, setm. apply nth_upd_neq. exact H. Qed.

Lemma g_umark_other idx r (m : mvec) i slot : slot <> idx -> getm (umark idx r m i) slot = getm m slot.
Proof.
  intros H. unfold umark, update_match. cbn [s_match s_rule].
  match goal with |- getm (if ?c then _ else _) _ = _ => destruct c end; [reflexivity|].
  apply g_setm_neq. congruence.
Qed.

Lemma g_umark_left idx (m : mvec) i : umark idx RLeft m i = setm m idx i.
Proof. unfold umark, update_match. cbn [s_match s_rule andb]. reflexivity. Qed.

Lemma getm_repeat_none k n : getm (repeat None n) k = None.
Proof. unfold getm. apply nth_repeat_none. Qed.

Lemma spans_of_nth : forall k (m : mvec) a e,
  nth_error (spans_of m) k = Some (Some (a, e)) -> getm m (2 * k) = Some a /\ getm m (S (2 * k)) = Some e.
Proof.
  induction k as [|k IH]; intros m a e H.
  - destruct m as [|x [|y r]]; cbn [spans_of nth_error] in H; try discriminate.
    destruct x as [x|], y as [y|]; try discriminate. injection H as <- <-. split; reflexivity.
  - destruct m as [|x [|y r]]; cbn [spans_of nth_error] in H; try discriminate.
    destruct (IH r a e H) as [A B].
    replace (2 * S k) with (S (S (2 * k))) by lia. unfold getm in *. cbn [nth]. split; assumption.
Qed.

Lemma spans_of_get : forall k (m : mvec) a e,
  getm m (2 * k) = Some a -> getm m (S (2 * k)) = Some e -> nth k (spans_of m) None = Some (a, e).
Proof.
  induction k as [|k IH]; intros m a e A B.
  - change (2 * 0) with 0 in A, B.
    destruct m as [|x [|y r]]; unfold getm in A, B; cbn [nth] in A, B; try discriminate.
    subst x y. reflexivity.
  - replace (2 * S k) with (S (S (2 * k))) in A, B by lia.
    destruct m as [|x [|y r]]; unfold getm in A, B; cbn [nth] in A, B; try discriminate.
    cbn [spans_of nth]. apply IH; assumption.
Qed.

(* ------------------------------------------------------------------------------------------ *)
(** * The main theorem, from the soundness of fragments *)

Definition FragM_sound_stmt (ok : xsre -> Prop) : Prop := forall T s x, ok x -> wf_x x = true ->
  forall ci nocap k0 anc rep next entry lo hi, anc <= k0 ->
    FragM T x ci nocap k0 next entry lo hi ->
    TFC T s (QV s (subs ci anc rep (S k0) (to_sre nocap x)) k0 (Lat s (L ci (to_sre true x)))) next entry (Rg lo hi).

Section Main.
Variable ok : xsre -> Prop.
Hypothesis HS : FragM_sound_stmt ok.

Theorem run_vector_valid x s b m : ok x -> wf_x x = true -> run b (compile_top x) s = Some (Some m) ->
  spans_valid (to_sre false x) s (spans_of m).
Proof.
  intros Hok Hw E.
  set (N := compile_top x) in *.
  destruct (Shape.compile_top_slot0 x) as (S1 & S2 & S3 & _).
  pose proof (compile_top_slot1_discipline x) as D. fold N in S1, S2, S3, D.
  destruct (run_vector_is_trace b N s m E) as (i0 & l & qa & j & A & B & Lij & Lj & C & EL & Ha & M).
  destruct (trace_slot01 N s D S1 S2 S3 i0 l qa j C EL Ha) as [G0 G1]. cbv zeta in G0, G1. rewrite <- M in G0, G1.
  pose proof (run_vector_length x s b m E) as Lm.
  (* span 0 *)
  assert (HL0 : in_lang false (to_sre false x) s i0 j).
  { apply (in_lang_iff_path x s i0 j Hw). split; [lia|]. exists qa. split; [|exact Ha].
    rewrite <- EL. apply chain_path. exact C. }
  (* the traced path, up to the accept state *)
  pose proof (chain_tp (n_tb N) s l (n_start N, i0) (repeat None (n_nsave N)) C) as TP. rewrite EL in TP.
  set (m' := trace (n_tb N) (repeat None (n_nsave N)) (removelast ((n_start N, i0) :: l))) in *.
  assert (Em : m = m').
  { rewrite M, (trace_full (n_tb N) (repeat None (n_nsave N)) (n_start N, i0) l), EL. fold m'.
    destruct Ha as (sa & Ea & Ka). eapply ent_plain; [exact Ea|].
    pose proof (D_st N D qa sa Ea) as Dst. unfold disc_st in Dst. rewrite Ka in Dst.
    destruct (s_match sa); [discriminate Dst | reflexivity]. }
  (* the shape of the table *)
  destruct (compile_top_shapeM x) as (n2 & h & Hs & Hh & H0 & H1 & Hn1 & HF). fold N in Hs, H0, H1, Hn1, HF.
  pose proof (FragM_Frag _ _ _ _ _ _ _ _ _ HF) as HF0.
  destruct (Frag_na _ x _ _ _ _ _ HF0) as [Hle HNA].
  set (sl := subs false 0 false 1 (to_sre false x)).
  pose proof (HS (n_tb N) s x Hok Hw false false 0 0 false 1 n2 2 h (le_n 0) HF) as F1. fold sl in F1.
  assert (F2 : TFC (n_tb N) s (QV s sl 0 (Lat s (L false (to_sre true x)))) 1 n2 (Rg 1 (S h))).
  { eapply TFC_weaken; [|exact F1]. unfold Rg. intros; lia. }
  assert (R1 : Rg 1 (S h) 1) by (unfold Rg; lia).
  assert (Rh : Rg 1 (S h) h) by (unfold Rg; lia).
  pose proof (TFC_mark_after (n_tb N) s _ 1 1 (end_rule (ngs x)) 0 n2 (Rg 1 (S h)) H1 R1 F2) as F3.
  pose proof (TFC_mark_before (n_tb N) s _ h 0 RLeft n2 0 (Rg 1 (S h)) Hn1 Rh F3) as F4.
  (* the accept state is outside, and has no successor *)
  assert (HR : ~ Rg 1 (S h) qa).
  { destruct Ha as (sa & Ea & Ka). unfold Rg. intros Hr.
    assert (Cs : qa = 1 \/ qa = h \/ Rg 2 h qa) by (unfold Rg; lia).
    destruct Cs as [->|[->|Hr2]].
    - destruct H1 as (st & E1 & K1 & _). rewrite Ea in E1. injection E1 as <-. congruence.
    - destruct Hn1 as (st & E1 & K1 & _). rewrite Ea in E1. injection E1 as <-. congruence.
    - exact (HNA qa Hr2 sa Ea Ka). }
  rewrite Hs in TP.
  assert (Hi0 : i0 <= length s) by lia.
  destruct (F4 _ h i0 _ qa j m' eq_refl Hi0 TP HR) as (j' & k' & m1 & _ & Lj' & HQ & TP2).
  assert (X : j' = j /\ m1 = m').
  { inversion TP2 as [c0 m00|k0 c0 m00 c1 c2 m2 Hst Hp']; subst.
    - split; reflexivity.
    - exfalso. eapply step_acc_inv; [exact H0 | reflexivity | exact Hst]. }
  destruct X as [-> ->]. clear TP2.
  destruct HQ as (m1 & HQ & Em').
  (* the body of the whole match, from the vector with slot 0 set *)
  rewrite g_umark_left in HQ.
  assert (Ln : length (repeat (@None nat) (n_nsave N)) = 2 * S (count_subs (to_sre false x))).
  { rewrite repeat_length. apply compile_top_nsave. }
  assert (Lsl : length sl = count_subs (to_sre false x)) by apply subs_length.
  assert (Bn : Bnd i0 (setm (repeat None (n_nsave N)) 0 i0)).
  { intros k v Hk. destruct (Nat.eq_dec 0 k) as [<-|NE].
    - rewrite g_setm_eq in Hk by (rewrite Ln; lia). injection Hk as <-. lia.
    - rewrite g_setm_neq in Hk by exact NE. rewrite getm_repeat_none in Hk. discriminate Hk. }
  assert (Lp : 2 * S (0 + length sl) <= length (setm (repeat (@None nat) (n_nsave N)) 0 i0)).
  { unfold setm. rewrite NfaRun.upd_length, Ln, Lsl. lia. }
  destruct (HQ Bn Lp) as (HP & _ & (UL & UF & UP)).
  (* conclusion *)
  assert (Lm2 : 2 <= length m) by lia.
  destruct (vec_shape m Lm2) as [r Er]. rewrite G0, G1 in Er.
  unfold spans_valid. exists i0, j, (spans_of r).
  split; [rewrite Er; reflexivity|]. split; [exact HL0|]. split.
  { pose proof (spans_of_length _ _ Lm) as Ls. rewrite Er in Ls. cbn [spans_of length] in Ls.
    injection Ls as Ls. exact Ls. }
  intros k ci body anc a e Hk Hr.
  assert (Hr' : nth_error (spans_of m) (S k) = Some (Some (a, e))) by (rewrite Er; exact Hr).
  destruct (spans_of_nth _ _ _ _ Hr') as [Ga Ge].
  (* slots other than 1 of m are those of m1 *)
  assert (Same : forall slot, slot <> 1 -> getm m slot = getm m1 slot).
  { intros slot Hne. rewrite Em, Em'. apply g_umark_other. exact Hne. }
  rewrite Same in Ga by lia. rewrite Same in Ge by lia.
  destruct (UP k ci body anc Hk) as [[PA PB]|(a' & e' & Ga' & Ge' & La & Le & HLk & Nest)].
  - exfalso. cbn [Nat.add] in PA. rewrite Ga in PA. rewrite g_setm_neq in PA by lia.
    rewrite getm_repeat_none in PA. discriminate PA.
  - cbn [Nat.add] in Ga', Ge'. rewrite Ga in Ga'. rewrite Ge in Ge'. injection Ga' as <-. injection Ge' as <-.
    split; [exact HLk|].
    destruct anc as [|anc'].
    + exists i0, j. split; [rewrite Er; reflexivity|]. split; assumption.
    + destruct (Nest ltac:(lia)) as (oa & oe & Goa & Goe & L1 & L2).
      exists oa, oe. split; [|split; assumption].
      apply spans_of_get; rewrite Same by lia; assumption.
Qed.

Theorem nfa_submatch_spans_valid_from : forall x s b spans, ok x -> wf_x x = true ->
  nfa_spans b x s = Some spans -> check_spans (to_sre false x) s spans = true.
Proof.
  intros x s b spans Hok Hw E. unfold nfa_spans in E.
  destruct (run b (compile_top x) s) as [[m|]|] eqn:ER; try discriminate. injection E as <-.
  apply check_spans_complete. eapply run_vector_valid; eassumption.
Qed.

End Main.
