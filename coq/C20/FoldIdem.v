(** C20 -- simple case folding of the modelled universe is idempotent. *)
From ChibiV Require Import C20.Chars.
Local Open Scope N_scope.
Ltac rng_decide :=
  repeat match goal with
         | |- context [in_rng ?a ?b ?x] =>
             let H := fresh "R" in
             first [ assert (H : in_rng a b x = false) by (unfold in_rng; apply andb_false_iff; rewrite !N.leb_gt; lia)
                   | assert (H : in_rng a b x = true) by (unfold in_rng; apply andb_true_iff; rewrite !N.leb_le; lia) ];
             rewrite H; clear H
         | |- context [(?x =? ?k)] =>
             let H := fresh "Q" in
             assert (H : (x =? k) = false) by (apply N.eqb_neq; lia); rewrite H; clear H
         end.
Ltac bounds E :=
  unfold in_rng in E; repeat rewrite andb_true_iff in E; rewrite ?N.leb_le, ?negb_true_iff, ?N.eqb_neq in E.
Ltac branch off E1 E2 E3 E4 E5 E6 Ek :=
  let Hr := fresh "Hr" in
  assert (Hr : fold _ = _ + off) by (unfold fold; rewrite ?E1, ?E2, ?E3, ?E4, ?E5, ?E6; reflexivity);
  rewrite Hr; clear Hr; bounds Ek; unfold fold; rng_decide; reflexivity.
Lemma fold_idem c : fold (fold c) = fold c.
Proof.
  destruct (in_rng 65 90 c) eqn:E1; [branch 32 E1 E1 E1 E1 E1 E1 E1|].
  destruct (in_rng 192 222 c && negb (c =? 215)) eqn:E2; [branch 32 E1 E2 E2 E2 E2 E2 E2|].
  destruct (in_rng 913 939 c && negb (c =? 930)) eqn:E3; [branch 32 E1 E2 E3 E3 E3 E3 E3|].
  destruct (in_rng 1040 1071 c) eqn:E4; [branch 32 E1 E2 E3 E4 E4 E4 E4|].
  destruct (in_rng 1024 1039 c) eqn:E5; [branch 80 E1 E2 E3 E4 E5 E5 E5|].
  destruct (in_rng 66560 66599 c) eqn:E6; [branch 40 E1 E2 E3 E4 E5 E6 E6|].
  assert (Hr : fold c = c) by (unfold fold; rewrite E1, E2, E3, E4, E5, E6; reflexivity).
  rewrite Hr. exact Hr.
Qed.
