(** C20 — the span the search simulation of Nfa.v reports ([nfa_spans true]) is the leftmost-longest
    substring of the SPEC language, for every well-formed SRE whose end slot is not non-greedy.

    Method: [adv] is factored into a depth-first traversal [adv_ev] that only emits events (a character
    state reached with a vector / the accept state reached with a vector) and two folds that merge the events
    into the posse ([padd]) and the accept register ([accupd]).  The traversal facts come from NfaRun.v
    (adv_sound, closure_complete) applied to the empty posse; the merge facts are list lemmas about
    [match_ge] on the first pair of the vectors. *)
From ChibiV Require Import C20.Re C20.Proofs C20.Nfa C20.NfaSem C20.NfaRun C20.NfaThompson.
From Coq Require Import List Arith Lia Bool.
Import ListNotations.
Local Open Scope nat_scope.
Arguments match_ge : simpl never.

Definition span0 (o : option (list (option span))) : option span :=
  match o with Some (Some sp :: _) => Some sp | _ => None end.

(* ------------------------------------------------------------------------------------------ *)
(** * [match_ge] on the first pair *)

Lemma match_ge_cons ng i s1 e1 r1 s2 e2 r2 :
  match_ge ng i (s1 :: e1 :: r1) (s2 :: e2 :: r2) =
  if oeqb s1 s2 && oeqb e1 e2 then match_ge ng (i + 2) r1 r2
  else negb
    match s2 with
    | None => false
    | Some b2 =>
        match s1 with
        | None => true
        | Some b1 =>
            (b2 <? b1) || match e1 with Some x1 => (x1 <? b1) | None => false end
            || ((b2 =? b1) &&
                (if existsb (Nat.eqb (i + 1)) ng then negb else (fun b : bool => b))
                  match e2 with
                  | None => true
                  | Some x2 => match e1 with Some x1 => (x1 <? x2) | None => false end
                  end)
        end
    end.
Proof. reflexivity. Qed.

Lemma vec_shape (m : mvec) : 2 <= length m -> exists r, m = getm m 0 :: getm m 1 :: r.
Proof. destruct m as [|a [|b r]]; cbn [length]; try lia. intros _. exists r. reflexivity. Qed.

Lemma getm_some_len (m : mvec) k v : getm m k = Some v -> k < length m.
Proof.
  unfold getm. intros H. destruct (Nat.lt_ge_cases k (length m)) as [L|L]; [exact L|].
  rewrite nth_overflow in H by exact L. discriminate H.
Qed.

(** two stored vectors (slot 1 unset) with different starts: the smaller start wins *)
Lemma mge_posse ng (m1 m2 : mvec) b1 b2 :
  V0 m1 -> V0 m2 -> getm m1 0 = Some b1 -> getm m2 0 = Some b2 -> b1 <> b2 ->
  match_ge ng 0 m1 m2 = (b1 <? b2).
Proof.
  intros [L1 E1] [L2 E2] S1 S2 NE.
  destruct (vec_shape m1 L1) as [r1 ->]. destruct (vec_shape m2 L2) as [r2 ->].
  rewrite S1, E1, S2, E2. rewrite match_ge_cons. cbn [oeqb].
  destruct (Nat.eqb_spec b1 b2) as [?|_]; [contradiction|]. cbn [andb].
  destruct (Nat.eqb_spec b2 b1) as [?|_]; [congruence|]. cbn [andb]. rewrite !orb_false_r.
  destruct (Nat.ltb_spec b2 b1), (Nat.ltb_spec b1 b2); cbn [negb]; try reflexivity; lia.
Qed.

Definition better (a e b j : nat) : Prop := a < b \/ (a = b /\ j <= e).

Lemma better_refl a e : better a e a e.
Proof. right. lia. Qed.
Lemma better_trans a e b j c k : better a e b j -> better b j c k -> better a e c k.
Proof. unfold better. lia. Qed.

(** two accepted vectors: the new one replaces the old one iff it is at least as good *)
Lemma mge_acc ng (m1 m2 : mvec) b1 e1 b2 e2 :
  existsb (Nat.eqb 1) ng = false ->
  getm m1 0 = Some b1 -> getm m1 1 = Some e1 -> getm m2 0 = Some b2 -> getm m2 1 = Some e2 ->
  b1 <= e1 -> b2 <= e2 ->
  (match_ge ng 0 m1 m2 = true -> better b1 e1 b2 e2) /\ (match_ge ng 0 m1 m2 = false -> better b2 e2 b1 e1).
Proof.
  intros Hng S1 E1 S2 E2 W1 W2.
  pose proof (getm_some_len _ _ _ E1) as L1. pose proof (getm_some_len _ _ _ E2) as L2.
  destruct (vec_shape m1 L1) as [r1 ->]. destruct (vec_shape m2 L2) as [r2 ->].
  rewrite S1, E1, S2, E2.
  destruct (Nat.eq_dec b1 b2) as [->|NB].
  - destruct (Nat.eq_dec e1 e2) as [->|NE].
    + split; intros _; apply better_refl.
    + assert (NP : (b2, e1) <> (b2, e2)) by congruence.
      pose proof (match_ge_leftmost_longest ng b2 e1 b2 e2 r1 r2 W1 W2 NP) as X. rewrite Hng in X.
      unfold better. split; intros H.
      * apply X in H. lia.
      * destruct (match_ge ng 0 (Some b2 :: Some e1 :: r1) (Some b2 :: Some e2 :: r2)); [discriminate|].
        destruct (le_lt_dec e2 e1) as [A|A]; [|lia]. exfalso.
        assert (T : false = true) by (apply X; right; split; [reflexivity | exact A]). discriminate T.
  - assert (NP : (b1, e1) <> (b2, e2)) by congruence.
    pose proof (match_ge_leftmost_longest ng b1 e1 b2 e2 r1 r2 W1 W2 NP) as X. rewrite Hng in X.
    unfold better. split; intros H.
    + apply X in H. lia.
    + destruct (match_ge ng 0 (Some b1 :: Some e1 :: r1) (Some b2 :: Some e2 :: r2)); [discriminate|].
      destruct (lt_dec b1 b2) as [A|A]; [|lia]. exfalso.
      assert (T : false = true) by (apply X; left; exact A). discriminate T.
Qed.

(* ------------------------------------------------------------------------------------------ *)
(** * The closure as a traversal emitting events, and two folds *)

Fixpoint adv_ev (fuel : nat) (N : nfa) (p n : option char) (i : nat)
                (stk : list (nat * mvec)) (seen : list nat) : option (list (nat * mvec) * list mvec) :=
  match stk with
  | [] => Some ([], [])
  | (q, m0) :: stk' =>
    match fuel with
    | O => None
    | S fuel' =>
      match nth_error (n_tb N) q with
      | None => adv_ev fuel' N p n i stk' seen
      | Some st =>
        let m := update_match st m0 i in
        match s_kind st with
        | KAccept =>
            match adv_ev fuel' N p n i stk' seen with Some (ev, ac) => Some (ev, m :: ac) | None => None end
        | KChar _ _ =>
            match adv_ev fuel' N p n i stk' seen with Some (ev, ac) => Some ((q, m) :: ev, ac) | None => None end
        | KEps | KAnchor _ =>
            if memb q seen then adv_ev fuel' N p n i stk' seen
            else if (match s_kind st with KAnchor k => anchor_ok k p n | _ => true end) then
              adv_ev fuel' N p n i
                  (map (fun q' => (q', m)) (opt_list (s_n1 st) ++ opt_list (s_n2 st)) ++ stk') (q :: seen)
            else adv_ev fuel' N p n i stk' seen
        end
      end
    end
  end.

Definition accupd (ng : list nat) (c : bool) (acc : option mvec) (m : mvec) : option mvec :=
  if c && (match acc with None => true | Some a => match_ge ng 0 m a end) then Some m else acc.
Definition paddp (ng : list nat) (p : posse) (e : nat * mvec) : posse := padd ng p (fst e) (snd e).

Lemma adv_factor N p n i atend whole : forall fuel stk new seen acc,
  adv fuel N p n i atend whole stk new seen acc =
  match adv_ev fuel N p n i stk seen with
  | None => None
  | Some (ev, ac) => Some (fold_left (paddp (n_ngi N)) ev new,
                           fold_left (accupd (n_ngi N) (negb whole || atend)) ac acc)
  end.
Proof.
  induction fuel as [|fuel IH]; intros stk new seen acc.
  - destruct stk as [|[q m0] stk']; reflexivity.
  - destruct stk as [|[q m0] stk']; [reflexivity|]. cbn [adv adv_ev].
    destruct (nth_error (n_tb N) q) as [st|]; [|apply IH].
    cbv zeta. destruct (s_kind st) eqn:Ek.
    + rewrite IH. destruct (adv_ev fuel N p n i stk' seen) as [[ev ac]|]; reflexivity.
    + rewrite IH. destruct (adv_ev fuel N p n i stk' seen) as [[ev ac]|]; reflexivity.
    + destruct (memb q seen); [apply IH|]. destruct (anchor_ok k p n); apply IH.
    + destruct (memb q seen); apply IH.
Qed.

(* ------------------------------------------------------------------------------------------ *)
(** * Merging events into a posse *)

Lemma pfind_In (p : posse) q m : pfind p q = Some m -> In (q, m) p.
Proof.
  induction p as [|[q0 m0] r IH]; cbn [pfind]; [discriminate|].
  destruct (Nat.eqb_spec q0 q) as [->|NE].
  - intros [= ->]. left. reflexivity.
  - intros H. right. apply IH. exact H.
Qed.

Lemma pfind_pmerge ng q m q' : forall p,
  pfind (pmerge ng p q m) q' =
  if q' =? q then option_map (fun m' => if match_ge ng 0 m' m then m' else m) (pfind p q) else pfind p q'.
Proof.
  induction p as [|[q0 m0] r IH]; cbn [pmerge pfind].
  - destruct (q' =? q); reflexivity.
  - destruct (Nat.eqb_spec q0 q) as [->|NE]; cbn [pfind].
    + destruct (Nat.eqb_spec q q') as [<-|NE'].
      * rewrite Nat.eqb_refl. reflexivity.
      * destruct (Nat.eqb_spec q' q) as [->|_]; [congruence | reflexivity].
    + destruct (Nat.eqb_spec q0 q') as [->|NE'].
      * destruct (Nat.eqb_spec q' q) as [->|_]; [congruence | reflexivity].
      * exact IH.
Qed.

Lemma pfind_app (p : posse) q m q' :
  pfind (p ++ [(q, m)]) q' = match pfind p q' with Some x => Some x | None => if q =? q' then Some m else None end.
Proof.
  induction p as [|[q0 m0] r IH]; cbn [app pfind]; [reflexivity|].
  destruct (q0 =? q'); [reflexivity | exact IH].
Qed.

Lemma pfind_padd ng p q m q' :
  pfind (padd ng p q m) q' =
  if q' =? q then match pfind p q with
                  | Some m' => Some (if match_ge ng 0 m' m then m' else m)
                  | None => Some m
                  end
  else pfind p q'.
Proof.
  unfold padd. destruct (pfind p q) as [m'|] eqn:E.
  - rewrite pfind_pmerge, E. reflexivity.
  - rewrite pfind_app. destruct (Nat.eqb_spec q' q) as [->|NE].
    + rewrite E, Nat.eqb_refl. reflexivity.
    + destruct (pfind p q'); [reflexivity|]. destruct (Nat.eqb_spec q q'); [congruence | reflexivity].
Qed.

(** a vector as stored in a posse: slot 1 unset, start [b] *)
Definition GV (b : nat) (m : mvec) : Prop := V0 m /\ getm m 0 = Some b.
Definition pst (p : posse) (q b : nat) : Prop := exists m, pfind p q = Some m /\ GV b m.
Definition Pgood (p : posse) : Prop := forall q m, pfind p q = Some m -> exists b, GV b m.

Lemma GV_inj b b' m : GV b m -> GV b' m -> b = b'.
Proof. intros [_ A] [_ B]. congruence. Qed.

Lemma padd_pst ng p q m b : Pgood p -> GV b m ->
  Pgood (padd ng p q m) /\
  (exists b', pst (padd ng p q m) q b' /\ b' <= b) /\
  (forall q' b1, pst p q' b1 -> exists b2, pst (padd ng p q m) q' b2 /\ b2 <= b1) /\
  (forall q' b2, pst (padd ng p q m) q' b2 -> pst p q' b2 \/ (q' = q /\ b2 = b)).
Proof.
  intros G Gm.
  (* the vector stored for q after the merge *)
  assert (Hq : exists mq bq, pfind (padd ng p q m) q = Some mq /\ GV bq mq /\ bq <= b /\
                 (forall m1 b1, pfind p q = Some m1 -> GV b1 m1 -> bq <= b1) /\
                 (mq = m \/ pfind p q = Some mq)).
  { rewrite pfind_padd, Nat.eqb_refl. destruct (pfind p q) as [m1|] eqn:E.
    - destruct (G q m1 E) as [b1 G1].
      destruct (Nat.eq_dec b1 b) as [->|NE].
      + destruct (match_ge ng 0 m1 m).
        * exists m1, b. split; [reflexivity|]. split; [exact G1|]. split; [lia|].
          split; [|right; reflexivity]. intros m2 b2 [= <-] G2. pose proof (GV_inj _ _ _ G1 G2). lia.
        * exists m, b. split; [reflexivity|]. split; [exact Gm|]. split; [lia|].
          split; [|left; reflexivity]. intros m2 b2 [= <-] G2. pose proof (GV_inj _ _ _ G1 G2). lia.
      + rewrite (mge_posse ng m1 m b1 b (proj1 G1) (proj1 Gm) (proj2 G1) (proj2 Gm) NE).
        destruct (Nat.ltb_spec b1 b) as [L|L].
        * exists m1, b1. split; [reflexivity|]. split; [exact G1|]. split; [lia|].
          split; [|right; reflexivity]. intros m2 b2 [= <-] G2. pose proof (GV_inj _ _ _ G1 G2). lia.
        * exists m, b. split; [reflexivity|]. split; [exact Gm|]. split; [lia|].
          split; [|left; reflexivity]. intros m2 b2 [= <-] G2. pose proof (GV_inj _ _ _ G1 G2). lia.
    - exists m, b. split; [reflexivity|]. split; [exact Gm|]. split; [lia|].
      split; [|left; reflexivity]. intros m2 b2 H. discriminate H. }
  destruct Hq as (mq & bq & Fq & Gq & Lq & Mq & Oq).
  split; [|split; [|split]].
  - intros q' m' H. destruct (Nat.eq_dec q' q) as [->|NE].
    + rewrite Fq in H. injection H as <-. exists bq. exact Gq.
    + rewrite pfind_padd in H. apply Nat.eqb_neq in NE. rewrite NE in H. eapply G. exact H.
  - exists bq. split; [exists mq; split; assumption | exact Lq].
  - intros q' b1 (m1 & F1 & G1). destruct (Nat.eq_dec q' q) as [->|NE].
    + exists bq. split; [exists mq; split; assumption|]. eapply Mq; eassumption.
    + exists b1. split; [|lia]. exists m1. split; [|exact G1].
      rewrite pfind_padd. apply Nat.eqb_neq in NE. rewrite NE. exact F1.
  - intros q' b2 (m2 & F2 & G2). destruct (Nat.eq_dec q' q) as [->|NE].
    + rewrite Fq in F2. injection F2 as <-. destruct Oq as [->|Oq].
      * right. split; [reflexivity|]. eapply GV_inj; eassumption.
      * left. exists mq. split; assumption.
    + left. exists m2. split; [|exact G2].
      rewrite pfind_padd in F2. apply Nat.eqb_neq in NE. rewrite NE in F2. exact F2.
Qed.

Lemma fold_pst ng b : forall ev p, Pgood p -> (forall q m, In (q, m) ev -> GV b m) ->
  Pgood (fold_left (paddp ng) ev p) /\
  (forall q, In q (map fst ev) -> exists b', pst (fold_left (paddp ng) ev p) q b' /\ b' <= b) /\
  (forall q' b1, pst p q' b1 -> exists b2, pst (fold_left (paddp ng) ev p) q' b2 /\ b2 <= b1) /\
  (forall q' b2, pst (fold_left (paddp ng) ev p) q' b2 -> pst p q' b2 \/ (In q' (map fst ev) /\ b2 = b)).
Proof.
  induction ev as [|[q m] ev IH]; intros p G Hev; cbn [fold_left map fst In].
  - split; [exact G|]. split; [intros q []|]. split; [|tauto].
    intros q' b1 H. exists b1. split; [exact H | lia].
  - assert (Gm : GV b m) by (apply (Hev q m); left; reflexivity).
    assert (Hev' : forall q0 m0, In (q0, m0) ev -> GV b m0) by (intros q0 m0 H; apply (Hev q0 m0); right; exact H).
    unfold paddp at 2 4 6 8. cbn [fst snd].
    destruct (padd_pst ng p q m b G Gm) as (A1 & A2 & A3 & A4).
    destruct (IH (padd ng p q m) A1 Hev') as (B1 & B2 & B3 & B4).
    split; [exact B1|]. split; [|split].
    + intros q0 [<-|H]; [|apply B2; exact H].
      destruct A2 as (b' & P1 & L1). destruct (B3 _ _ P1) as (b2 & P2 & L2). exists b2. split; [exact P2 | lia].
    + intros q' b1 P0. destruct (A3 _ _ P0) as (b2 & P1 & L1). destruct (B3 _ _ P1) as (b3 & P2 & L2).
      exists b3. split; [exact P2 | lia].
    + intros q' b2 P2. destruct (B4 _ _ P2) as [P1|[I E]]; [|right; split; [right; exact I | exact E]].
      destruct (A4 _ _ P1) as [P0|[-> ->]]; [left; exact P0 | right; split; [left; reflexivity | reflexivity]].
Qed.

Lemma keys_fold ng q : forall ev p, In q (keys (fold_left (paddp ng) ev p)) <-> In q (keys p) \/ In q (map fst ev).
Proof.
  induction ev as [|[q0 m0] ev IH]; intros p; cbn [fold_left map fst In]; [tauto|].
  rewrite IH. unfold paddp. cbn [fst snd]. rewrite In_keys_padd. intuition.
Qed.

(* ------------------------------------------------------------------------------------------ *)
(** * Merging accept events into the accept register *)

Definition AV (a e : nat) (m : mvec) : Prop := getm m 0 = Some a /\ getm m 1 = Some e.
Definition accdom (acc : option mvec) (b j : nat) : Prop := exists m a e, acc = Some m /\ AV a e m /\ better a e b j.
Definition Agood (acc : option mvec) : Prop := forall m, acc = Some m -> exists a e, AV a e m /\ a <= e.

Lemma AV_inj a e a' e' m : AV a e m -> AV a' e' m -> a = a' /\ e = e'.
Proof. intros [A B] [A' B']. split; congruence. Qed.

Lemma accupd_spec ng acc m b j : existsb (Nat.eqb 1) ng = false -> Agood acc -> AV b j m -> b <= j ->
  (accupd ng true acc m = Some m \/ accupd ng true acc m = acc) /\
  accdom (accupd ng true acc m) b j /\
  (forall b1 j1, accdom acc b1 j1 -> accdom (accupd ng true acc m) b1 j1).
Proof.
  intros Hng G Hm W. unfold accupd. cbn [andb]. destruct acc as [a|].
  - destruct (G a eq_refl) as (a0 & e0 & Ha & Wa).
    destruct (mge_acc ng m a b j a0 e0 Hng (proj1 Hm) (proj2 Hm) (proj1 Ha) (proj2 Ha) W Wa) as [T F].
    destruct (match_ge ng 0 m a).
    + specialize (T eq_refl). split; [left; reflexivity|]. split.
      * exists m, b, j. split; [reflexivity|]. split; [exact Hm | apply better_refl].
      * intros b1 j1 (m1 & a1 & e1 & E1 & H1 & B1). injection E1 as <-.
        destruct (AV_inj _ _ _ _ _ Ha H1) as [<- <-].
        exists m, b, j. split; [reflexivity|]. split; [exact Hm|]. eapply better_trans; eassumption.
    + specialize (F eq_refl). split; [right; reflexivity|]. split; [|tauto].
      exists a, a0, e0. split; [reflexivity|]. split; [exact Ha | exact F].
  - split; [left; reflexivity|]. split.
    + exists m, b, j. split; [reflexivity|]. split; [exact Hm | apply better_refl].
    + intros b1 j1 (m1 & a1 & e1 & E1 & _). discriminate E1.
Qed.

Lemma fold_acc ng b j : existsb (Nat.eqb 1) ng = false -> b <= j -> forall ac acc,
  Agood acc -> (forall m, In m ac -> AV b j m) ->
  (fold_left (accupd ng true) ac acc = acc \/ exists m, In m ac /\ fold_left (accupd ng true) ac acc = Some m) /\
  (ac <> [] -> accdom (fold_left (accupd ng true) ac acc) b j) /\
  (forall b1 j1, accdom acc b1 j1 -> accdom (fold_left (accupd ng true) ac acc) b1 j1).
Proof.
  intros Hng W. induction ac as [|m ac IH]; intros acc G Hac; cbn [fold_left].
  - split; [left; reflexivity|]. split; [congruence | tauto].
  - assert (Hm : AV b j m) by (apply Hac; left; reflexivity).
    assert (Hac' : forall m0, In m0 ac -> AV b j m0) by (intros m0 H; apply Hac; right; exact H).
    destruct (accupd_spec ng acc m b j Hng G Hm W) as (A1 & A2 & A3).
    assert (G' : Agood (accupd ng true acc m)).
    { destruct A1 as [E|E]; rewrite E; [|exact G]. intros m0 [= <-]. exists b, j. split; [exact Hm | exact W]. }
    destruct (IH _ G' Hac') as (B1 & B2 & B3).
    split; [|split].
    + destruct B1 as [E|(m1 & I1 & E)].
      * rewrite E. destruct A1 as [E'|E']; [right; exists m; split; [left; reflexivity | exact E'] | left; exact E'].
      * right. exists m1. split; [right; exact I1 | exact E].
    + intros _. apply B3. exact A2.
    + intros b1 j1 H. apply B3. apply A3. exact H.
Qed.

Lemma fold_acc_nonnil ng : forall ac acc, ac <> [] -> fold_left (accupd ng true) ac acc <> None.
Proof.
  assert (K : forall ac acc, acc <> None -> fold_left (accupd ng true) ac acc <> None).
  { induction ac as [|m ac IH]; intros acc H; cbn [fold_left]; [exact H|]. apply IH.
    unfold accupd. cbn [andb]. destruct acc as [a|]; [|congruence]. destruct (match_ge ng 0 m a); discriminate. }
  intros [|m ac] acc H; [congruence|]. cbn [fold_left]. apply K.
  unfold accupd. cbn [andb]. destruct acc as [a|]; [|discriminate]. destruct (match_ge ng 0 m a); discriminate.
Qed.

(* ------------------------------------------------------------------------------------------ *)
(** * The search loop on a graph with the slot-0 / slot-1 discipline of [compile_top] *)

Lemma um_keep0 st (m : mvec) i : s_match st <> Some 0 -> getm (update_match st m i) 0 = getm m 0.
Proof.
  intros H. unfold update_match. destruct (s_match st) as [idx|]; [|reflexivity].
  match goal with |- getm (if ?c then _ else _) 0 = _ => destruct c end; [reflexivity|].
  unfold getm, setm. apply nth_upd_neq. intros ->. apply H. reflexivity.
Qed.

Lemma um_set0 st (m : mvec) i : s_match st = Some 0 -> s_rule st = RLeft -> 1 <= length m ->
  getm (update_match st m i) 0 = Some i.
Proof.
  intros H R L. unfold update_match. rewrite H, R. cbn [andb].
  destruct m as [|a r]; [cbn [length] in L; lia | reflexivity].
Qed.

Section Span.
Variable N : nfa.
Variable s : list char.
Notation tb := (n_tb N).
Notation h := (n_start N).
Notation ng := (n_ngi N).
Hypothesis D : slot1_discipline N = true.
Hypothesis Hst : exists st, nth_error tb h = Some st /\ s_kind st = KEps /\ s_match st = Some 0 /\ s_rule st = RLeft.
Hypothesis H0only : forall q st, nth_error tb q = Some st -> s_match st = Some 0 -> q = h.
Hypothesis Hnop : forall q st q', nth_error tb q = Some st -> s_n1 st = Some q' \/ s_n2 st = Some q' -> q' <> h.
Hypothesis Hng : existsb (Nat.eqb 1) ng = false.

(** what a stack entry carries: slot 1 as in NfaRun.vec_ok; slot 0 = the origin's start [b0], except for
    the start state itself, which is about to write it *)
Definition SV (i b0 q : nat) (m0 : mvec) : Prop :=
  vec_ok N i q m0 /\ ((q = h /\ b0 = i) \/ (q <> h /\ getm m0 0 = Some b0)).

Lemma acceptb_h : acceptb tb h = false.
Proof. destruct Hst as (st & E & K & _). eapply acceptb_false; [exact E | rewrite K; discriminate]. Qed.

Lemma um_start i b0 q st m0 : nth_error tb q = Some st -> acceptb tb q = false -> SV i b0 q m0 ->
  getm (update_match st m0 i) 0 = Some b0.
Proof.
  intros E NA [V [[-> ->]|[NE S0]]].
  - destruct Hst as (st' & E' & _ & M & R). rewrite E in E'. injection E' as <-.
    unfold vec_ok in V. rewrite NA in V. destruct V as [L _]. apply um_set0; [exact M | exact R | lia].
  - rewrite um_keep0; [exact S0|]. intros M. apply NE. eapply H0only; eassumption.
Qed.

Lemma ev_vec p n i b0 : forall fuel stk seen ev ac,
  adv_ev fuel N p n i stk seen = Some (ev, ac) ->
  (forall q m0, In (q, m0) stk -> SV i b0 q m0) ->
  (forall q m, In (q, m) ev -> GV b0 m) /\ (forall m, In m ac -> AV b0 i m).
Proof.
  induction fuel as [|fuel IH]; intros stk seen ev ac E Hstk.
  - destruct stk as [|[q m0] stk']; cbn [adv_ev] in E; [|discriminate]. injection E as <- <-. split; intros ? ; intros; contradiction.
  - destruct stk as [|[q m0] stk']; cbn [adv_ev] in E.
    { injection E as <- <-. split; intros ?; intros; contradiction. }
    assert (Hq : SV i b0 q m0) by (apply Hstk; left; reflexivity).
    assert (Hstk' : forall q' m', In (q', m') stk' -> SV i b0 q' m') by (intros q' m' H; apply Hstk; right; exact H).
    destruct (nth_error tb q) as [st|] eqn:Eq; [|eapply IH; eassumption].
    cbv zeta in E.
    pose proof (D_st N D q st Eq) as Dst. unfold disc_st in Dst.
    assert (Push : (s_kind st = KEps \/ exists k, s_kind st = KAnchor k) ->
       forall q' m', In (q', m') (map (fun q' => (q', update_match st m0 i))
                                      (opt_list (s_n1 st) ++ opt_list (s_n2 st)) ++ stk') -> SV i b0 q' m').
    { intros Hk q' m' H. apply in_app_iff in H. destruct H as [H|H]; [|apply Hstk'; exact H].
      apply in_map_iff in H. destruct H as (x & Hx & Hin). injection Hx as -> <-.
      assert (NA : acceptb tb q = false).
      { eapply acceptb_false; [exact Eq|]. destruct Hk as [Hk|[k Hk]]; rewrite Hk; discriminate. }
      split.
      - destruct Hq as [Hq _]. unfold vec_ok in Hq. rewrite NA in Hq.
        assert (Dst' : (if is_one (s_match st) then forallb (acceptb tb) (succs st)
                        else forallb (fun q' => negb (acceptb tb q')) (succs st)) = true).
        { destruct Hk as [Hk|[k Hk]]; rewrite Hk in Dst; exact Dst. }
        unfold vec_ok. destruct (is_one (s_match st)) eqn:E1; rewrite forallb_forall in Dst'; specialize (Dst' q' Hin).
        + rewrite Dst'. apply um_one; [|exact Hq]. apply is_one_true. exact E1.
        + apply negb_true_iff in Dst'. rewrite Dst'. apply um_V0; assumption.
      - right. split; [|eapply um_start; eassumption].
        apply (Hnop q st q' Eq). apply in_app_iff in Hin.
        destruct Hin as [Hin|Hin]; [left|right].
        + destruct (s_n1 st) as [y|]; cbn [opt_list In] in Hin; [|contradiction]. destruct Hin as [->|[]]. reflexivity.
        + destruct (s_n2 st) as [y|]; cbn [opt_list In] in Hin; [|contradiction]. destruct Hin as [->|[]]. reflexivity. }
    destruct (s_kind st) eqn:Ek; try rewrite Ek in Dst; cbv iota in Dst.
    + destruct (adv_ev fuel N p n i stk' seen) as [[ev1 ac1]|] eqn:E1; [|discriminate]. injection E as <- <-.
      destruct (IH _ _ _ _ E1 Hstk') as [A B]. split; [exact A|].
      intros m [<-|H]; [|apply B; exact H].
      assert (AC : acceptb tb q = true) by (eapply acceptb_true; eassumption).
      assert (Um : update_match st m0 i = m0).
      { unfold update_match. destruct (s_match st); [discriminate Dst | reflexivity]. }
      rewrite Um. destruct Hq as [V S0]. unfold vec_ok in V. rewrite AC in V. split; [|exact V].
      destruct S0 as [[-> _]|[_ S0]]; [|exact S0]. rewrite acceptb_h in AC. discriminate AC.
    + destruct (adv_ev fuel N p n i stk' seen) as [[ev1 ac1]|] eqn:E1; [|discriminate]. injection E as <- <-.
      destruct (IH _ _ _ _ E1 Hstk') as [A B]. split; [|exact B].
      intros q' m' [H|H]; [|eapply A; exact H]. injection H as <- <-.
      assert (NA : acceptb tb q = false) by (eapply acceptb_false; [exact Eq | rewrite Ek; discriminate]).
      split; [|eapply um_start; eassumption].
      destruct Hq as [V _]. unfold vec_ok in V. rewrite NA in V.
      apply andb_true_iff in Dst. destruct Dst as [D1 _]. apply negb_true_iff in D1. apply um_V0; assumption.
    + destruct (memb q seen); [eapply IH; eassumption|].
      destruct (anchor_ok k p n); [|eapply IH; eassumption].
      eapply IH; [exact E | apply Push; right; exists k; reflexivity].
    + destruct (memb q seen); [eapply IH; eassumption|].
      eapply IH; [exact E | apply Push; left; reflexivity].
Qed.

(** one call of [advance] in search mode, in terms of its events *)
Lemma advance_events i q0 m0 b0 new acc new' acc' :
  advance N s i false (q0, m0) new acc = Some (new', acc') -> SV i b0 q0 m0 ->
  exists ev ac,
    new' = fold_left (paddp ng) ev new /\ acc' = fold_left (accupd ng true) ac acc /\
    (forall q m, In (q, m) ev -> GV b0 m /\ path tb s (q0, i) (q, i)) /\
    (forall m, In m ac -> AV b0 i m) /\
    (ac <> [] -> exists qa, path tb s (q0, i) (qa, i) /\ is_accept tb qa) /\
    (forall q, path tb s (q0, i) (q, i) ->
       (forall st ci cs, nth_error tb q = Some st -> s_kind st = KChar ci cs -> In q (map fst ev)) /\
       (is_accept tb q -> ac <> [])).
Proof.
  intros E HS. unfold advance in E. pose proof E as E0. rewrite adv_factor in E0.
  destruct (adv_ev (adv_fuel N) N (prevc s i) (nth_error s i) i [(q0, m0)] []) as [[ev ac]|] eqn:EV; [|discriminate].
  cbn [negb orb] in E0. injection E0 as <- <-.
  exists ev, ac. split; [reflexivity|]. split; [reflexivity|].
  assert (HS' : forall q m1, In (q, m1) [(q0, m0)] -> SV i b0 q m1) by (intros q m1 [H|[]]; injection H as <- <-; exact HS).
  destruct (ev_vec _ _ _ _ _ _ _ _ _ EV HS') as [V1 V2].
  (* the same traversal on the empty posse *)
  assert (E1 : adv (adv_fuel N) N (prevc s i) (nth_error s i) i (length s <=? i) false [(q0, m0)] [] [] None =
               Some (fold_left (paddp ng) ev [], fold_left (accupd ng true) ac None)).
  { rewrite adv_factor, EV. reflexivity. }
  set (P := fun q => path tb s (q0, i) (q, i)).
  assert (Pcl : forall q q', P q -> step tb s (q, i) (q', i) -> P q').
  { intros q q' Hp St. unfold P. eapply path_snoc; eassumption. }
  assert (X1 : forall q, In q (map fst [(q0, m0)]) -> P q) by (intros q [<-|[]]; apply path_refl).
  assert (X2 : forall q, In q (keys (@nil (nat * mvec))) -> P q) by (intros q []).
  destruct (adv_sound N s i false P Pcl _ _ _ _ _ _ _ E1 X1 X2) as [S1 S2].
  destruct (closure_complete N s i false _ _ _ _ _ _ _ E1) as (_ & _ & C).
  split; [|split; [exact V2|split]].
  - intros q m H. split; [eapply V1; exact H|]. apply S1. apply keys_fold. right.
    apply in_map_iff. exists (q, m). split; [reflexivity | exact H].
  - intros Hac. destruct (S2 (fold_acc_nonnil ng ac None Hac)) as [B|(_ & qa & Pa & Ha)]; [congruence|].
    exists qa. split; assumption.
  - intros q Hp. destruct (C q Hp) as [C1 C2]. split.
    + intros st ci cs Est Ek. specialize (C1 st ci cs Est Ek). apply keys_fold in C1. destruct C1 as [[]|C1]. exact C1.
    + intros Ha Hnil. subst ac. cbn [fold_left] in C2. apply C2; [exact Ha | reflexivity | reflexivity].
Qed.


(** ** Invariants of the posse and of the accept register *)

Lemma In_pmerge2 q m q' m' : forall p, In (q', m') (pmerge ng p q m) -> In (q', m') p \/ (q' = q /\ m' = m).
Proof.
  induction p as [|[q1 m1] r IH]; cbn [pmerge]; [tauto|]. destruct (Nat.eqb_spec q1 q) as [->|NE].
  - intros [H|H]; [|left; right; exact H]. injection H as H1 H2. subst q'.
    destruct (match_ge ng 0 m1 m); subst m'; [left; left; reflexivity | right; split; reflexivity].
  - intros [H|H]; [left; left; exact H|]. destruct (IH H) as [A|A]; [left; right; exact A | right; exact A].
Qed.

Lemma In_padd2 p q m q' m' : In (q', m') (padd ng p q m) -> In (q', m') p \/ (q' = q /\ m' = m).
Proof.
  unfold padd. destruct (pfind p q); [apply In_pmerge2|].
  intros H. apply in_app_iff in H. destruct H as [H|[H|[]]]; [left; exact H|]. injection H as <- <-. right. split; reflexivity.
Qed.

Lemma In_fold q' m' : forall ev p, In (q', m') (fold_left (paddp ng) ev p) -> In (q', m') p \/ In (q', m') ev.
Proof.
  induction ev as [|[q m] ev IH]; intros p H; cbn [fold_left] in H; [left; exact H|].
  destruct (IH _ H) as [A|A]; [|right; right; exact A].
  unfold paddp in A. cbn [fst snd] in A. apply In_padd2 in A. destruct A as [A|[-> ->]]; [left; exact A | right; left; reflexivity].
Qed.

Definition isK (q : nat) : Prop := exists st ci cs, nth_error tb q = Some st /\ s_kind st = KChar ci cs.
Definition PS (i : nat) (p : posse) : Prop :=
  forall q m, In (q, m) p -> exists b, GV b m /\ path tb s (h, b) (q, i).
Definition PDa (i : nat) (p : posse) : Prop :=
  forall q b, isK q -> path tb s (h, b) (q, i) -> exists b', pst p q b' /\ b' <= b.
Definition PDe (i : nat) (p : posse) : Prop :=
  forall q b, isK q -> b < i -> path tb s (h, b) (q, i) -> exists b', pst p q b' /\ b' <= b.
Definition AccS (i : nat) (acc : option mvec) : Prop :=
  forall m, acc = Some m -> exists a e, AV a e m /\ a <= e /\ e <= i /\
    exists qa, is_accept tb qa /\ path tb s (h, a) (qa, e).
Definition AccDa (i : nat) (acc : option mvec) : Prop :=
  forall b j qa, j <= i -> path tb s (h, b) (qa, j) -> is_accept tb qa -> accdom acc b j.
Definition AccDe (i : nat) (acc : option mvec) : Prop :=
  forall b j qa, b < i -> j <= i -> path tb s (h, b) (qa, j) -> is_accept tb qa -> accdom acc b j.

Lemma PS_good i p : PS i p -> Pgood p.
Proof. intros H q m F. apply pfind_In in F. destruct (H q m F) as (b & G & _). exists b. exact G. Qed.

Lemma AccS_good i acc : AccS i acc -> Agood acc.
Proof. intros H m E. destruct (H m E) as (a & e & A & W & _). exists a, e. split; assumption. Qed.

Lemma AccS_mono i i' acc : i <= i' -> AccS i acc -> AccS i' acc.
Proof.
  intros L H m E. destruct (H m E) as (a & e & A & W & W' & R). exists a, e.
  split; [exact A|]. split; [exact W|]. split; [lia | exact R].
Qed.

Lemma advance_inv i q0 m0 b0 new acc new' acc' :
  advance N s i false (q0, m0) new acc = Some (new', acc') -> SV i b0 q0 m0 -> path tb s (h, b0) (q0, i) ->
  PS i new -> AccS i acc ->
  PS i new' /\ AccS i acc' /\
  (forall q b1, pst new q b1 -> exists b2, pst new' q b2 /\ b2 <= b1) /\
  (forall b1 j1, accdom acc b1 j1 -> accdom acc' b1 j1) /\
  (forall q, path tb s (q0, i) (q, i) ->
     (isK q -> exists b', pst new' q b' /\ b' <= b0) /\ (is_accept tb q -> accdom acc' b0 i)).
Proof.
  intros E HS HP Hnew Hacc.
  destruct (advance_events i q0 m0 b0 new acc new' acc' E HS) as (ev & ac & -> & -> & E1 & E2 & E3 & E4).
  pose proof (path_mono _ _ _ _ HP) as Mb. cbn [snd] in Mb.
  assert (Hev : forall q m, In (q, m) ev -> GV b0 m) by (intros q m H; apply (E1 q m H)).
  destruct (fold_pst ng b0 ev new (PS_good _ _ Hnew) Hev) as (F1 & F2 & F3 & _).
  destruct (fold_acc ng b0 i Hng Mb ac acc (AccS_good _ _ Hacc) E2) as (G1 & G2 & G3).
  split; [|split; [|split; [exact F3|split; [exact G3|]]]].
  - intros q m H. apply In_fold in H. destruct H as [H|H]; [apply Hnew; exact H|].
    destruct (E1 q m H) as [A B]. exists b0. split; [exact A|]. eapply path_trans; eassumption.
  - destruct G1 as [->|(m1 & I1 & ->)]; [exact Hacc|].
    intros m [= <-]. exists b0, i. split; [apply E2; exact I1|]. split; [exact Mb|]. split; [lia|].
    assert (NN : ac <> []) by (intros ->; destruct I1).
    destruct (E3 NN) as (qa & Pa & Ha). exists qa. split; [exact Ha|]. eapply path_trans; eassumption.
  - intros q Hp. destruct (E4 q Hp) as [C1 C2]. split.
    + intros (st & ci & cs & Est & Ek). apply F2. eapply C1; eassumption.
    + intros Ha. apply G2. apply C2. exact Ha.
Qed.

Lemma nsave_ge2 : 2 <= n_nsave N.
Proof.
  pose proof D as D0. unfold slot1_discipline in D0. apply andb_true_iff in D0. destruct D0 as [_ D3].
  apply Nat.leb_le. exact D3.
Qed.

Lemma start_inv i s1 acc s1' acc' :
  advance N s i false (start_searcher N) s1 acc = Some (s1', acc') ->
  PS i s1 -> PDe i s1 -> AccS i acc -> AccDe i acc ->
  PS i s1' /\ PDa i s1' /\ AccS i acc' /\ AccDa i acc'.
Proof.
  intros E H1 H2 H3 H4. unfold start_searcher in E.
  assert (HS : SV i i h (repeat None (n_nsave N))).
  { split; [|left; split; reflexivity]. unfold vec_ok. rewrite acceptb_h.
    split; [rewrite repeat_length; apply nsave_ge2 | unfold getm; apply nth_repeat_none]. }
  destruct (advance_inv i h _ i s1 acc s1' acc' E HS (NfaRun.path_refl N s _) H1 H3) as (A1 & A2 & A3 & A4 & A5).
  split; [exact A1|]. split; [|split; [exact A2|]].
  - intros q b K Hp. pose proof (path_mono _ _ _ _ Hp) as M. cbn [snd] in M.
    destruct (Nat.eq_dec b i) as [->|NE].
    + destruct (A5 q Hp) as [X _]. apply X. exact K.
    + assert (L : b < i) by lia. destruct (H2 q b K L Hp) as (b1 & P1 & L1).
      destruct (A3 _ _ P1) as (b2 & P2 & L2). exists b2. split; [exact P2 | lia].
  - intros b j qa Lj Hp Ha. pose proof (path_mono _ _ _ _ Hp) as M. cbn [snd] in M.
    destruct (Nat.eq_dec b i) as [->|NE].
    + assert (j = i) by lia. subst j. destruct (A5 qa Hp) as [_ X]. apply X. exact Ha.
    + apply A4. apply (H4 b j qa); [lia | exact Lj | exact Hp | exact Ha].
Qed.

Lemma step_all_inv i ch : nth_error s i = Some ch ->
  forall l new acc new' acc',
  step_all N s (S i) false ch l new acc = Some (new', acc') ->
  (forall qc mc, In (qc, mc) l -> exists bc, GV bc mc /\ path tb s (h, bc) (qc, i)) ->
  PS (S i) new -> AccS (S i) acc ->
  PS (S i) new' /\ AccS (S i) acc' /\
  (forall q b1, pst new q b1 -> exists b2, pst new' q b2 /\ b2 <= b1) /\
  (forall b1 j1, accdom acc b1 j1 -> accdom acc' b1 j1) /\
  (forall qc mc bc qn, In (qc, mc) l -> GV bc mc -> fire N ch qc = Some qn ->
     forall q, path tb s (qn, S i) (q, S i) ->
       (isK q -> exists b', pst new' q b' /\ b' <= bc) /\ (is_accept tb q -> accdom acc' bc (S i))).
Proof.
  intros Hch. induction l as [|[q0 m0] l IH]; intros new acc new' acc' E Hl Hnew Hacc.
  - cbn [step_all] in E. injection E as <- <-. split; [exact Hnew|]. split; [exact Hacc|].
    split; [intros q b1 H; exists b1; split; [exact H | lia]|]. split; [tauto|]. intros qc mc bc qn [].
  - rewrite step_all_cons in E.
    assert (Hl' : forall qc mc, In (qc, mc) l -> exists bc, GV bc mc /\ path tb s (h, bc) (qc, i))
      by (intros qc mc H; apply Hl; right; exact H).
    destruct (fire N ch q0) as [q'|] eqn:F.
    + destruct (advance N s (S i) false (q', m0) new acc) as [[new1 acc1]|] eqn:EA; [|discriminate].
      destruct (Hl q0 m0 (or_introl eq_refl)) as (b0 & G0 & P0).
      pose proof F as F'. apply fire_spec in F'. destruct F' as (st & ci & cs & Est & Ek & Ec & E1).
      assert (NA : acceptb tb q' = false).
      { pose proof (D_st N D q0 st Est) as Dst. unfold disc_st in Dst. rewrite Ek in Dst.
        apply andb_true_iff in Dst. destruct Dst as [_ D2]. rewrite forallb_forall in D2.
        apply negb_true_iff. apply D2. unfold succs. rewrite E1. left. reflexivity. }
      assert (HS : SV (S i) b0 q' m0).
      { split; [unfold vec_ok; rewrite NA; exact (proj1 G0)|]. right.
        split; [apply (Hnop q0 st q' Est); left; exact E1 | exact (proj2 G0)]. }
      assert (HP : path tb s (h, b0) (q', S i)).
      { eapply path_snoc; [exact P0|]. eapply step_chr; eassumption. }
      destruct (advance_inv (S i) q' m0 b0 new acc new1 acc1 EA HS HP Hnew Hacc) as (A1 & A2 & A3 & A4 & A5).
      destruct (IH _ _ _ _ E Hl' A1 A2) as (B1 & B2 & B3 & B4 & B5).
      split; [exact B1|]. split; [exact B2|]. split; [|split].
      * intros q b1 P1. destruct (A3 _ _ P1) as (b2 & P2 & L2). destruct (B3 _ _ P2) as (b3 & P3 & L3).
        exists b3. split; [exact P3 | lia].
      * intros b1 j1 H. apply B4. apply A4. exact H.
      * intros qc mc bc qn [H|H] Gc Fc q Hp; [|eapply B5; eassumption].
        injection H as <- <-. rewrite F in Fc. injection Fc as <-.
        pose proof (GV_inj _ _ _ G0 Gc) as <-.
        destruct (A5 q Hp) as [X1 X2]. split.
        -- intros K. destruct (X1 K) as (b2 & P2 & L2). destruct (B3 _ _ P2) as (b3 & P3 & L3).
           exists b3. split; [exact P3 | lia].
        -- intros Ha. apply B4. apply X2. exact Ha.
    + destruct (IH _ _ _ _ E Hl' Hnew Hacc) as (B1 & B2 & B3 & B4 & B5).
      split; [exact B1|]. split; [exact B2|]. split; [exact B3|]. split; [exact B4|].
      intros qc mc bc qn [H|H] Gc Fc q Hp; [|eapply B5; eassumption].
      injection H as <- <-. rewrite F in Fc. discriminate Fc.
Qed.

Lemma step_inv i ch s1 acc s2 acc2 : nth_error s i = Some ch ->
  step_all N s (S i) false ch s1 [] acc = Some (s2, acc2) ->
  PS i s1 -> PDa i s1 -> AccS i acc -> AccDa i acc ->
  PS (S i) s2 /\ PDe (S i) s2 /\ AccS (S i) acc2 /\ AccDe (S i) acc2.
Proof.
  intros Hch E H1 H2 H3 H4.
  assert (Hnil : PS (S i) []) by (intros q m []).
  assert (H3' : AccS (S i) acc) by (eapply AccS_mono; [|exact H3]; lia).
  destruct (step_all_inv i ch Hch s1 [] acc s2 acc2 E H1 Hnil H3') as (B1 & B2 & _ & B4 & B5).
  assert (Key : forall b q, b < S i -> path tb s (h, b) (q, S i) ->
     exists qc mc bc qn, In (qc, mc) s1 /\ GV bc mc /\ bc <= b /\ fire N ch qc = Some qn /\ path tb s (qn, S i) (q, S i)).
  { intros b q Lb P0.
    assert (L1 : snd (h, b) <= i) by (cbn [snd]; lia).
    assert (L2 : i < snd (q, S i)) by (cbn [snd]; lia).
    destruct (path_split N s _ _ P0 i L1 L2) as (qc & st & ci & cs & c & qn & P1 & Est & Ek & Ec & Em & En & P2).
    assert (K : isK qc) by (exists st, ci, cs; split; assumption).
    destruct (H2 qc b K P1) as (bc & (mc & Fc & Gc) & Lc).
    exists qc, mc, bc, qn. split; [apply pfind_In; exact Fc|]. split; [exact Gc|]. split; [exact Lc|].
    split; [|exact P2]. apply fire_spec. exists st, ci, cs. rewrite Hch in Ec. injection Ec as <-. auto. }
  split; [exact B1|]. split; [|split; [exact B2|]].
  - intros q b K Lb P0. destruct (Key b q Lb P0) as (qc & mc & bc & qn & I & G & L & F & P2).
    destruct (B5 qc mc bc qn I G F q P2) as [X _]. destruct (X K) as (b' & P' & L'). exists b'. split; [exact P' | lia].
  - intros b j qa Lb Lj P0 Ha. destruct (Nat.eq_dec j (S i)) as [->|NE].
    + destruct (Key b qa Lb P0) as (qc & mc & bc & qn & I & G & L & F & P2).
      destruct (B5 qc mc bc qn I G F qa P2) as [_ X]. destruct (X Ha) as (m & a & e & Em & Am & Bm).
      exists m, a, e. split; [exact Em|]. split; [exact Am|]. unfold better in *. lia.
    + apply B4. apply (H4 b j qa); [lia | exact P0 | exact Ha].
Qed.

Lemma loop_inv : forall k i s1 acc s1' acc', k + i = length s ->
  PS i s1 -> PDe i s1 -> AccS i acc -> AccDe i acc ->
  loop true N s k i s1 acc = Some (s1', acc') ->
  AccS (length s) acc' /\ AccDa (length s) acc'.
Proof.
  induction k as [|k IH]; intros i s1 acc s1' acc' Hk H1 H2 H3 H4 E; cbn [loop orb negb andb] in E.
  - destruct (advance N s i false (start_searcher N) s1 acc) as [[s1a acca]|] eqn:ES; [|discriminate].
    injection E as <- <-. assert (i = length s) by lia. subst i.
    destruct (start_inv _ _ _ _ _ ES H1 H2 H3 H4) as (_ & _ & A3 & A4). split; assumption.
  - destruct (advance N s i false (start_searcher N) s1 acc) as [[s1a acca]|] eqn:ES; [|discriminate].
    destruct (start_inv _ _ _ _ _ ES H1 H2 H3 H4) as (A1 & A2 & A3 & A4).
    rewrite orb_false_r in E.
    destruct (early_exit s1a acca) eqn:EX.
    + injection E as <- <-. split; [eapply AccS_mono; [|exact A3]; lia|].
      intros b j qa Lj P0 Ha. destruct (le_lt_dec j i) as [Lji|Lji]; [apply (A4 b j qa Lji P0 Ha)|].
      unfold early_exit in EX. destruct acca as [a|]; [|discriminate EX].
      destruct (A3 a eq_refl) as (a1 & e1 & Aa & W1 & W2 & _).
      rewrite (proj1 Aa) in EX. rewrite forallb_forall in EX.
      exists a, a1, e1. split; [reflexivity|]. split; [exact Aa|]. left.
      destruct (le_lt_dec b i) as [Lb|Lb]; [|lia].
      assert (L1 : snd (h, b) <= i) by (cbn [snd]; exact Lb).
      assert (L2 : i < snd (qa, j)) by (cbn [snd]; exact Lji).
      destruct (path_split N s _ _ P0 i L1 L2) as (qc & st & ci & cs & c & qn & P1 & Est & Ek & _).
      assert (K : isK qc) by (exists st, ci, cs; split; assumption).
      destruct (A2 qc b K P1) as (bc & (mc & Fc & Gc) & Lc).
      specialize (EX (qc, mc) (pfind_In _ _ _ Fc)). cbn [snd] in EX. rewrite (proj2 Gc) in EX.
      apply Nat.ltb_lt in EX. lia.
    + destruct (nth_error s i) as [ch|] eqn:Ech.
      2:{ exfalso. apply nth_error_None in Ech. lia. }
      destruct (step_all N s (S i) false ch s1a [] acca) as [[s2 acc2]|] eqn:ESA; [|discriminate].
      destruct (step_inv _ _ _ _ _ _ Ech ESA A1 A2 A3 A4) as (B1 & B2 & B3 & B4).
      apply (IH (S i) s2 acc2 s1' acc'); [lia | exact B1 | exact B2 | exact B3 | exact B4 | exact E].
Qed.

(** the accept register after the whole search: it holds a pair with an accepting path, at least as good
    (smaller start, then larger end) as every pair with an accepting path *)
Theorem loop_best s1 acc :
  loop true N s (length s) 0 [] None = Some (s1, acc) ->
  (forall m, acc = Some m -> exists a e, AV a e m /\ e <= length s /\
     exists qa, is_accept tb qa /\ path tb s (h, a) (qa, e)) /\
  (forall b j qa, j <= length s -> path tb s (h, b) (qa, j) -> is_accept tb qa ->
     exists m a e, acc = Some m /\ AV a e m /\ better a e b j).
Proof.
  intros E.
  assert (H1 : PS 0 []) by (intros q m []).
  assert (H2 : PDe 0 []) by (intros q b _ L; lia).
  assert (H3 : AccS 0 None) by (intros m H; discriminate H).
  assert (H4 : AccDe 0 None) by (intros b j qa L; lia).
  destruct (loop_inv _ _ _ _ _ _ (Nat.add_0_r _) H1 H2 H3 H4 E) as [A B].
  split.
  - intros m Em. destruct (A m Em) as (a & e & Am & _ & Le & R). exists a, e. split; [exact Am|]. split; assumption.
  - exact B.
Qed.

End Span.

(* ------------------------------------------------------------------------------------------ *)
(** * The graphs [compile_top] builds have the slot-0 discipline *)
Module Shape.
(** Shape of the graph [compile_top] builds around slot 0: the start state is the only state recording
    slot 0, nothing points back to it, and slot 1 is non-greedy only when the whole SRE is. *)

Lemma sh_upd_length {A} (l : list A) k f : length (upd l k f) = length l.
Proof. revert k; induction l as [|x r IH]; intros [|k]; cbn [upd length]; auto. Qed.

Lemma sh_nth_error_upd {A} (l : list A) k f q :
  nth_error (upd l k f) q = if q =? k then option_map f (nth_error l q) else nth_error l q.
Proof.
  revert k q; induction l as [|x r IH]; intros [|k] [|q]; cbn [upd nth_error Nat.eqb option_map];
    try reflexivity; try (destruct (_ =? _); reflexivity); apply IH.
Qed.

Notation ob r n := (forall k, r = Some k -> k < n).

Definition Gst (st : state) (hi : nat) : Prop :=
  s_match st <> Some 0 /\ ob (s_n1 st) hi /\ ob (s_n2 st) hi.

Definition Renv (e : cenv) : Prop :=
  (forall q st, nth_error (e_tb e) q = Some st -> Gst st (length (e_tb e))) /\
  Forall (fun k => 2 <= k) (e_ngi e).

Lemma Gst_mono st hi hi' : Gst st hi -> hi <= hi' -> Gst st hi'.
Proof.
  intros (A & B & C) L. split; [exact A|]. split; intros k E; [specialize (B k E) | specialize (C k E)]; lia.
Qed.

Lemma alloc_R st e id e' :
  Renv e -> Gst st (S (length (e_tb e))) -> alloc st e = (id, e') ->
  Renv e' /\ id = length (e_tb e) /\ length (e_tb e') = S (length (e_tb e)).
Proof.
  intros (HG & HN) G A. unfold alloc in A. injection A as <- <-. cbn [e_tb e_ngi].
  assert (HL : length (e_tb e ++ [st]) = S (length (e_tb e))) by (rewrite app_length; cbn [length]; lia).
  split; [|split; [reflexivity | exact HL]].
  split; [|exact HN]. cbn [e_tb]. rewrite HL.
  intros q st' E. destruct (Nat.lt_ge_cases q (length (e_tb e))) as [Lt|Ge].
  - rewrite nth_error_app1 in E by exact Lt. eapply Gst_mono; [eapply HG; eassumption | lia].
  - rewrite nth_error_app2 in E by exact Ge.
    destruct (q - length (e_tb e)) as [|d]; cbn [nth_error] in E; [injection E as <-; exact G | destruct d; discriminate E].
Qed.

Lemma upd_R e f :
  (forall st, Gst st (length (e_tb e)) -> Gst (f st) (length (e_tb e))) ->
  Renv e -> forall id, Renv (mkEnv (upd (e_tb e) id f) (e_nsub e) (e_ngi e)).
Proof.
  intros Hf (HG & HN) id. split; [|exact HN]. cbn [e_tb]. rewrite sh_upd_length.
  intros q st E. rewrite sh_nth_error_upd in E. destruct (q =? id); [|eapply HG; eassumption].
  destruct (nth_error (e_tb e) q) as [st0|] eqn:E0; [|discriminate E]. cbn [option_map] in E. injection E as <-.
  apply Hf. eapply HG; eassumption.
Qed.

Lemma patch1_R id n e : Renv e -> ob n (length (e_tb e)) -> Renv (patch1 id n e).
Proof.
  intros HR Hn. unfold patch1. apply upd_R; [|exact HR].
  intros st (A & B & C). split; [|split]; cbn [s_match s_n1 s_n2]; assumption.
Qed.

Lemma patch2_R id n e : Renv e -> ob n (length (e_tb e)) -> Renv (patch2 id n e).
Proof.
  intros HR Hn. unfold patch2. apply upd_R; [|exact HR].
  intros st (A & B & C). split; [|split]; cbn [s_match s_n1 s_n2]; assumption.
Qed.

Lemma patch1_len id n e : length (e_tb (patch1 id n e)) = length (e_tb e).
Proof. unfold patch1. cbn [e_tb]. apply sh_upd_length. Qed.
Lemma patch2_len id n e : length (e_tb (patch2 id n e)) = length (e_tb e).
Proof. unfold patch2. cbn [e_tb]. apply sh_upd_length. Qed.

Lemma Renv_nsub e n : Renv e -> Renv (mkEnv (e_tb e) n (e_ngi e)).
Proof. intros H. exact H. Qed.

Lemma Renv_ngi e k : Renv e -> 2 <= k -> Renv (mkEnv (e_tb e) (e_nsub e) (k :: e_ngi e)).
Proof. intros (HG & HN) Hk. split; [exact HG|]. cbn [e_ngi]. constructor; assumption. Qed.

Definition cspec (f : nat -> cenv -> option nat * cenv) : Prop :=
  forall next e r e', next < length (e_tb e) -> Renv e -> f next e = (r, e') ->
    Renv e' /\ length (e_tb e) <= length (e_tb e') /\ ob r (length (e_tb e')).

Ltac ll := rewrite ?patch1_len, ?patch2_len in *; lia.
Ltac bnd :=
  let k := fresh "k" in let HH := fresh "HH" in
  intros k HH;
  first [ discriminate HH
        | injection HH as HH; ll
        | match goal with Hb : forall k', _ = Some k' -> _ |- _ => pose proof (Hb _ HH); ll end ].
Ltac gst :=
  unfold Gst, eps_state, fork_state, char_state, anchor_state; cbn [s_match s_n1 s_n2];
  split; [ first [discriminate | (let HH := fresh in intros HH; injection HH as HH; lia)] | split; bnd ].
Ltac al H :=
  match type of H with
  | context [alloc ?st ?e] =>
      let id := fresh "id" in let e1 := fresh "e" in let A := fresh "A" in let RR := fresh "RR" in
      destruct (alloc st e) as [id e1] eqn:A;
      assert (RR : Renv e1 /\ id = length (e_tb e) /\ length (e_tb e1) = S (length (e_tb e)))
        by (apply (alloc_R st e id e1); [first [assumption | apply Renv_nsub; assumption] | cbn [e_tb]; gst | exact A]);
      cbn [e_tb] in RR; destruct RR as (? & ? & ?); clear A; cbv beta iota zeta in H
  end.
Ltac callt H t pf :=
  let r := fresh "r" in let e1 := fresh "e" in let C := fresh "C" in let RR := fresh "RR" in
  match t with
  | ?f ?nx ?ee =>
      destruct t as [r e1] eqn:C;
      assert (RR : Renv e1 /\ length (e_tb ee) <= length (e_tb e1) /\ ob r (length (e_tb e1)))
        by (refine (pf nx ee r e1 _ _ C);
            [ ll | first [assumption | apply patch2_R; [assumption | bnd]] ]);
      destruct RR as (? & ? & ?); clear C; cbv beta iota zeta in H
  end.
Ltac rc H :=
  match type of H with
  | context [compile ?x ?ci ?nc ?nx ?e] =>
      match goal with IH : forall ci nocap, cspec (compile x ci nocap) |- _ =>
        callt H (compile x ci nc nx e) (IH ci nc) end
  end.
Ltac fin H :=
  injection H as <- <-;
  split; [ repeat first [assumption | apply patch1_R | apply patch2_R | bnd] | split; [ll | bnd] ].

Lemma compile_chars_R l ci : cspec (compile_chars l ci).
Proof.
  induction l as [|c l IH]; intros next e r e' Hn HR H; cbn [compile_chars] in H.
  - fin H.
  - al H. al H. callt H (compile_chars l ci next e1) IH. fin H.
Qed.

Lemma compile_items_R cb : (forall sb, cspec (cb sb)) -> forall items, cspec (compile_items cb items).
Proof.
  intros Hcb. induction items as [|it rest IH]; intros next e r e' Hn HR H; cbn [compile_items] in H.
  - fin H.
  - al H. destruct it as [sb|sb|].
    + callt H (cb sb id e0) (Hcb sb). callt H (compile_items cb rest next e1) IH. fin H.
    + al H. callt H (cb sb id0 e1) (Hcb sb). al H. callt H (compile_items cb rest next e3) IH. fin H.
    + al H. al H. callt H (cb true id1 e2) (Hcb true). al H.
      match type of H with context [compile_items cb rest next ?ee] => callt H (compile_items cb rest next ee) IH end.
      fin H.
Qed.

Lemma compile_R : forall x ci nocap, cspec (compile x ci nocap).
Proof.
  induction x; intros ci nocap next e r e' Hn HR H; cbn [compile] in H.
  - (* XEps *) fin H.
  - (* XFail *) fin H.
  - (* XChr *) al H. fin H.
  - (* XStr *) eapply compile_chars_R; eassumption.
  - (* XSeq *) al H. rc H. rc H. fin H.
  - (* XAlt *) destruct (is_cset (XAlt x1 x2)).
    + al H. fin H.
    + destruct x2; try solve [rc H; rc H; al H; fin H].
      eapply IHx1; eassumption.
  - (* XBar *) eapply IHx; eassumption.
  - (* XStar *) al H. rc H. al H. fin H.
  - (* XPlus *) al H. rc H. fin H.
  - (* XOpt *) rc H. al H. fin H.
  - (* XRep *)
    refine (compile_items_R _ _ _ _ _ _ _ Hn HR H).
    intros sb. exact (IHx ci (nocap || negb sb)).
  - (* XSub *) destruct nocap; [eapply IHx; eassumption|].
    al H. rc H. al H. injection H as <- <-.
    destruct (ngs x); cbn [e_tb]; (split; [first [assumption | apply Renv_ngi; [assumption | lia]] | split; [ll | bnd]]).
  - (* XNamed *) destruct nocap; [eapply IHx; eassumption|].
    al H. rc H. al H. injection H as <- <-.
    destruct (ngs x); cbn [e_tb]; (split; [first [assumption | apply Renv_ngi; [assumption | lia]] | split; [ll | bnd]]).
  - (* XNoCap *) eapply IHx; eassumption.
  - (* XWord *) al H. al H. rc H. al H. al H. fin H.
  - (* XAnc *) al H. fin H.
  - (* XNoCase *) eapply IHx; eassumption.
  - (* XCase *) eapply IHx; eassumption.
Qed.

Theorem compile_top_slot0 : forall x,
  (exists st, nth_error (n_tb (compile_top x)) (n_start (compile_top x)) = Some st /\ s_kind st = KEps /\ s_match st = Some 0 /\ s_rule st = RLeft) /\
  (forall q st, nth_error (n_tb (compile_top x)) q = Some st -> s_match st = Some 0 -> q = n_start (compile_top x)) /\
  (forall q st q', nth_error (n_tb (compile_top x)) q = Some st -> s_n1 st = Some q' \/ s_n2 st = Some q' -> q' <> n_start (compile_top x)) /\
  (ngs x = false -> existsb (Nat.eqb 1) (n_ngi (compile_top x)) = false).
Proof.
  intros x. unfold compile_top. cbn [alloc e_tb e_nsub e_ngi length app].
  set (a0 := mkState KAccept None RNone None None).
  set (b0 := mkState KEps (Some 1) (end_rule (ngs x)) (Some 0) None).
  assert (HR : Renv (mkEnv [a0; b0] 0 [])).
  { split; [|constructor]. cbn [e_tb length]. intros q st E.
    destruct q as [|[|q]]; cbn [nth_error] in E.
    - injection E as <-. unfold a0, Gst. cbn [s_match s_n1 s_n2]. repeat split; discriminate.
    - injection E as <-. unfold b0, Gst. cbn [s_match s_n1 s_n2]. split; [discriminate|]. split; bnd.
    - destruct q; discriminate E. }
  assert (HL : 1 < length (e_tb (mkEnv [a0; b0] 0 []))) by (cbn [e_tb length]; lia).
  destruct (compile x false false 1 (mkEnv [a0; b0] 0 [])) as [n2 e1] eqn:C.
  destruct (compile_R x false false 1 _ _ _ HL HR C) as ((HG & HN) & Hlen & Hn2).
  clear C HR HL. cbn [n_tb n_start n_ngi].
  set (s0 := mkState KEps (Some 0) RLeft n2 None).
  set (tb := e_tb e1) in *.
  assert (Hat : nth_error (tb ++ [s0]) (length tb) = Some s0).
  { rewrite nth_error_app2 by lia. rewrite Nat.sub_diag. reflexivity. }
  assert (Hcase : forall q st, nth_error (tb ++ [s0]) q = Some st ->
            (q < length tb /\ nth_error tb q = Some st) \/ (q = length tb /\ st = s0)).
  { intros q st E. destruct (Nat.lt_ge_cases q (length tb)) as [Lt|Ge].
    - left. rewrite nth_error_app1 in E by exact Lt. split; assumption.
    - right. assert (Hq : q < length (tb ++ [s0])) by (apply nth_error_Some; congruence).
      rewrite app_length in Hq. cbn [length] in Hq. assert (q = length tb) by lia. subst q.
      rewrite Hat in E. injection E as <-. split; reflexivity. }
  split; [|split; [|split]].
  - exists s0. split; [exact Hat|]. repeat split; reflexivity.
  - intros q st E M. destruct (Hcase q st E) as [(Lt & E')|(-> & _)]; [|reflexivity].
    exfalso. destruct (HG q st E') as (A & _). exact (A M).
  - intros q st q' E S. destruct (Hcase q st E) as [(Lt & E')|(-> & ->)].
    + destruct (HG q st E') as (_ & B & C'). destruct S as [S|S]; [specialize (B _ S) | specialize (C' _ S)]; lia.
    + unfold s0 in S. cbn [s_n1 s_n2] in S. destruct S as [S|S]; [|discriminate S]. specialize (Hn2 _ S). fold tb in Hn2. lia.
  - intros Hng. rewrite Hng. clear -HN. induction HN as [|k l Hk _ IH]; [reflexivity|].
    cbn [existsb]. rewrite IH. destruct k as [|[|k]]; [lia | lia | reflexivity].
Qed.
End Shape.

(* ------------------------------------------------------------------------------------------ *)
(** * Main theorem *)

Lemma in_lang_iff_path x s i j : wf_x x = true ->
  (in_lang false (to_sre false x) s i j <->
   i <= length s /\ exists q, path (n_tb (compile_top x)) s (n_start (compile_top x), i) (q, j) /\
                              is_accept (n_tb (compile_top x)) q).
Proof.
  intros Hw. unfold in_lang. split.
  - intros H. apply (Lat_in_lang (L false (to_sre false x))) in H.
    apply (Lat_ext s _ (L false (to_sre true x))) in H; [|intros; apply to_sre_nocap].
    assert (Hi : i <= length s) by (apply Lat_bounds in H; lia).
    split; [exact Hi|]. apply (compile_top_path_general x s i j Hw Hi). exact H.
  - intros [Hi H]. apply (Lat_in_lang (L false (to_sre false x))).
    apply (Lat_ext s (L false (to_sre true x))); [intros; symmetry; apply to_sre_nocap|].
    apply (compile_top_path_general x s i j Hw Hi). exact H.
Qed.

(** the span [regexp-search] reports for the whole match is the leftmost-longest substring of the language *)
Theorem nfa_search_span_leftmost_longest : forall x s, wf_x x = true -> ngs x = false ->
  match span0 (nfa_spans true x s) with
  | Some (i, j) => in_lang false (to_sre false x) s i j /\
                   forall i' j', in_lang false (to_sre false x) s i' j' -> i < i' \/ (i = i' /\ j' <= j)
  | None => forall i j, ~ in_lang false (to_sre false x) s i j
  end.
Proof.
  intros x s Hw Hg.
  destruct (Shape.compile_top_slot0 x) as (S1 & S2 & S3 & S4). specialize (S4 Hg).
  pose proof (compile_top_slot1_discipline x) as D.
  unfold nfa_spans, run.
  destruct (loop true (compile_top x) s (length s) 0 [] None) as [[s1 acc]|] eqn:E;
    [|exfalso; exact (loop_total _ _ _ _ _ _ _ E)].
  destruct (loop_best (compile_top x) s D S1 S2 S3 S4 s1 acc E) as [A B].
  cbn [orb]. destruct acc as [m|].
  - destruct (A m eq_refl) as (a & e & Am & Le & qa & Ha & Pa).
    pose proof (getm_some_len _ _ _ (proj2 Am)) as Lm. destruct (vec_shape m Lm) as [r Em].
    rewrite (proj1 Am), (proj2 Am) in Em. rewrite Em. cbn [spans_of span0].
    pose proof (path_mono _ _ _ _ Pa) as Mo. cbn [snd] in Mo.
    split.
    + apply (in_lang_iff_path x s a e Hw). split; [lia|]. exists qa. split; assumption.
    + intros i' j' H. apply (in_lang_iff_path x s i' j' Hw) in H. destruct H as [Hi (q & Pq & Hq)].
      assert (Hj : j' <= length s) by (apply (path_bound _ _ _ _ Pq); exact Hi).
      destruct (B i' j' q Hj Pq Hq) as (m' & a' & e' & Em' & Am' & Bt). injection Em' as <-.
      destruct (AV_inj _ _ _ _ _ Am Am') as [<- <-]. exact Bt.
  - cbn [span0]. intros i j H. apply (in_lang_iff_path x s i j Hw) in H. destruct H as [Hi (q & Pq & Hq)].
    assert (Hj : j <= length s) by (apply (path_bound _ _ _ _ Pq); exact Hi).
    destruct (B i j q Hj Pq Hq) as (m' & a' & e' & Em' & _). discriminate Em'.
Qed.

(** corollaries in the shape of the fallback statements *)
Corollary nfa_search_span_in_language x s i j : wf_x x = true -> ngs x = false ->
  span0 (nfa_spans true x s) = Some (i, j) -> in_lang false (to_sre false x) s i j.
Proof.
  intros Hw Hg E. pose proof (nfa_search_span_leftmost_longest x s Hw Hg) as H. rewrite E in H. apply H.
Qed.

Corollary nfa_search_span_leftmost x s i j : wf_x x = true -> ngs x = false ->
  span0 (nfa_spans true x s) = Some (i, j) ->
  forall i' j', in_lang false (to_sre false x) s i' j' -> i <= i'.
Proof.
  intros Hw Hg E i' j' Hl. pose proof (nfa_search_span_leftmost_longest x s Hw Hg) as H. rewrite E in H.
  destruct H as [_ H]. specialize (H i' j' Hl). lia.
Qed.

(** (seq (+ (or "ab" #\a)) (? #\c)) on "xaababcab" *)
Definition exs_x : xsre :=
  XSeq (XPlus (XSeq (XAlt (XStr [97%N; 98%N]) (XAlt (XChr (CsChar 97%N)) XFail)) XEps))
       (XSeq (XOpt true (XSeq (XChr (CsChar 99%N)) XEps)) XEps).
Definition exs_s : list char := [120%N; 97%N; 97%N; 98%N; 97%N; 98%N; 99%N; 97%N; 98%N].

Example ex_search_span_leftmost_longest :
  span0 (nfa_spans true exs_x exs_s) = Some (1, 7) /\
  in_lang false (to_sre false exs_x) exs_s 1 7 /\
  forall i' j', in_lang false (to_sre false exs_x) exs_s i' j' -> 1 < i' \/ (1 = i' /\ j' <= 7).
Proof.
  assert (E : span0 (nfa_spans true exs_x exs_s) = Some (1, 7)) by (vm_compute; reflexivity).
  pose proof (nfa_search_span_leftmost_longest exs_x exs_s eq_refl eq_refl) as H. rewrite E in H.
  split; [exact E | exact H].
Qed.

(** with a submatch, a loop and an anchor: (: ( * ($ (or #\a "bc"))) eos) on "xbca"; and no match of "b+" in "xa" *)
Example ex_search_span_sub :
  (in_lang false (to_sre false NfaRun.ex_x) [120%N; 98%N; 99%N; 97%N] 1 4 /\
   forall i' j', in_lang false (to_sre false NfaRun.ex_x) [120%N; 98%N; 99%N; 97%N] i' j' -> 1 < i' \/ (1 = i' /\ j' <= 4)) /\
  (forall i j, ~ in_lang false (to_sre false (XPlus (XSeq (XChr (CsChar 98%N)) XEps))) [120%N; 97%N] i j).
Proof.
  split.
  - assert (E : span0 (nfa_spans true NfaRun.ex_x [120%N; 98%N; 99%N; 97%N]) = Some (1, 4)) by (vm_compute; reflexivity).
    pose proof (nfa_search_span_leftmost_longest NfaRun.ex_x [120%N; 98%N; 99%N; 97%N] eq_refl eq_refl) as H.
    rewrite E in H. exact H.
  - assert (E : span0 (nfa_spans true (XPlus (XSeq (XChr (CsChar 98%N)) XEps)) [120%N; 97%N]) = None) by (vm_compute; reflexivity).
    pose proof (nfa_search_span_leftmost_longest (XPlus (XSeq (XChr (CsChar 98%N)) XEps)) [120%N; 97%N] eq_refl eq_refl) as H.
    rewrite E in H. exact H.
Qed.

