(** C20 — the graph shape of a compiled regexp, refined with the submatch marks.
    [NfaThompson.Frag] describes the shape of every compiled fragment but hides [s_match] / [s_rule].
    Here: [FragM], the same shape where every plain state is known to carry no mark ([s_match = None]) and
    the two states of a submatch [($ . b)] carry the save slots [2k] (entry, rule RLeft) and [2k+1] (exit, rule
    [end_rule (ngs b)]), k = the number of the submatch in the order of [Re.count_subs] / [Re.subs]. *)
From ChibiV Require Import C20.Re C20.Proofs C20.Nfa C20.NfaSem C20.NfaThompson C20.NfaCount.
From Coq Require Import List Arith Lia Bool.
Import ListNotations.
Local Open Scope nat_scope.

(* ------------------------------------------------------------------------------------------ *)
(** * States with their marks *)

Section Marks.
Variable T : list state.

Definition is_epsN (q : nat) (n1 n2 : option nat) : Prop :=
  exists st, nth_error T q = Some st /\ s_kind st = KEps /\ s_match st = None /\ s_n1 st = n1 /\ s_n2 st = n2.
Definition is_chrN (q : nat) (ci : bool) (cs : cset) (nx : nat) : Prop :=
  exists st, nth_error T q = Some st /\ s_kind st = KChar ci cs /\ s_match st = None /\
             s_n1 st = Some nx /\ s_n2 st = None.
Definition is_ancN (q : nat) (k : anchor) (nx : nat) : Prop :=
  exists st, nth_error T q = Some st /\ s_kind st = KAnchor k /\ s_match st = None /\
             s_n1 st = Some nx /\ s_n2 st = None.
Definition is_mark (q : nat) (idx : nat) (r : rule) (n1 : option nat) : Prop :=
  exists st, nth_error T q = Some st /\ s_kind st = KEps /\ s_match st = Some idx /\ s_rule st = r /\
             s_n1 st = n1 /\ s_n2 st = None.

Lemma is_epsN_eps q n1 n2 : is_epsN q n1 n2 -> is_eps T q n1 n2.
Proof. intros (st & H & K & _ & A & B). exists st. auto. Qed.

Lemma is_chrN_chr q ci cs nx : is_chrN q ci cs nx -> is_chr T q ci cs nx.
Proof. intros (st & H & K & _ & A & B). exists st. auto. Qed.

Lemma is_ancN_anc q k nx : is_ancN q k nx -> is_anc T q k nx.
Proof. intros (st & H & K & _ & A & B). exists st. auto. Qed.

Lemma is_mark_eps q idx r n1 : is_mark q idx r n1 -> is_eps T q n1 None.
Proof. intros (st & H & K & _ & _ & A & B). exists st. auto. Qed.

(* ------------------------------------------------------------------------------------------ *)
(** * The shape of a compiled fragment, with marks and submatch numbers *)

Fixpoint FragCharsM (l : list char) (ci : bool) (next : nat) (entry : option nat) (lo hi : nat) : Prop :=
  match l with
  | [] => entry = Some next /\ hi = lo
  | c :: r => exists n3, is_epsN lo n3 None /\ is_chrN (S lo) ci (CsChar c) lo /\
                         FragCharsM r ci next n3 (S (S lo)) hi /\ entry = Some (S lo)
  end.

Definition ItemFragM (B : bool -> bodyp) (it : rep_item) (nx : nat) (entry : option nat) (lo hi : nat) : Prop :=
  match it with
  | RCopy sb => B sb nx entry lo hi
  | ROptc sb => exists body h, is_epsN lo (Some nx) None /\ B sb lo body (S lo) h /\ is_epsN h body (Some nx) /\
                               hi = S h /\ entry = Some h
  | RStarc => exists body h, is_epsN lo (Some nx) (Some h) /\ is_epsN (S lo) (Some lo) None /\
                             B true (S lo) body (S (S lo)) h /\ is_epsN h body (Some lo) /\ hi = S h /\ entry = Some h
  end.

Fixpoint FragItemsM (B : bool -> bodyp) (items : list rep_item) (next : nat) (entry : option nat) (lo hi : nat) : Prop :=
  match items with
  | [] => entry = Some next /\ hi = lo
  | it :: rest => exists n3 mid, is_epsN lo n3 None /\ ItemFragM B it lo entry (S lo) mid /\
                                 FragItemsM B rest next n3 mid hi
  end.

(** [k0] = the number of submatches registered before the fragment is compiled ([e_nsub]) *)
Fixpoint FragM (x : xsre) (ci nocap : bool) (k0 : nat) (next : nat) (entry : option nat) (lo hi : nat) {struct x} : Prop :=
  match x with
  | XEps => entry = Some next /\ hi = lo
  | XFail => entry = None /\ hi = lo
  | XChr cs => is_chrN lo ci cs next /\ entry = Some lo /\ hi = S lo
  | XAnc k => is_ancN lo k next /\ entry = Some lo /\ hi = S lo
  | XStr l => FragCharsM l ci next entry lo hi
  | XSeq a b => exists n3 mid, is_epsN lo n3 None /\ FragM a ci nocap k0 lo entry (S lo) mid /\
                               FragM b ci nocap (k0 + count_subs (to_sre nocap a)) next n3 mid hi
  | XAlt a b =>
      if is_cset (XAlt a b) then is_chrN lo ci (cset_of (XAlt a b)) next /\ entry = Some lo /\ hi = S lo
      else if is_fail b then FragM a ci nocap k0 next entry lo hi
      else exists n1 n2 mid h, FragM a ci nocap k0 next n1 lo mid /\
                               FragM b ci nocap (k0 + count_subs (to_sre nocap a)) next n2 mid h /\
                               is_epsN h n1 n2 /\ hi = S h /\ entry = Some h
  | XOpt _ b => exists body h, FragM b ci nocap k0 next body lo h /\ is_epsN h body (Some next) /\
                               hi = S h /\ entry = Some h
  | XStar _ b => exists body h, is_epsN lo (Some next) (Some h) /\ FragM b ci nocap k0 lo body (S lo) h /\
                                is_epsN h body (Some lo) /\ hi = S h /\ entry = Some h
  | XPlus b => is_epsN lo (Some next) entry /\ FragM b ci nocap k0 lo entry (S lo) hi
  | XRep _ m n b => FragItemsM (fun sb => FragM b ci (nocap || negb sb) k0) (expand_reps m n) next entry lo hi
  | XSub b | XNamed b =>
      if nocap then FragM b ci true k0 next entry lo hi
      else exists n2 h, is_mark lo (S (2 * S k0)) (end_rule (ngs b)) (Some next) /\
                        FragM b ci false (S k0) lo n2 (S lo) h /\
                        is_mark h (2 * S k0) RLeft n2 /\ hi = S h /\ entry = Some h
  | XBar b => FragM b ci nocap k0 next entry lo hi
  | XNoCap b => FragM b ci true k0 next entry lo hi
  | XNoCase b => FragM b true nocap k0 next entry lo hi
  | XCase b => FragM b false nocap k0 next entry lo hi
  | XWord b => exists nb h, is_epsN lo (Some next) None /\ is_ancN (S lo) Eow lo /\
                            FragM b ci nocap k0 (S lo) nb (S (S lo)) h /\ is_epsN h nb None /\ is_ancN (S h) Bow h /\
                            hi = S (S h) /\ entry = Some (S h)
  end.

Lemma FragM_k x ci nocap k k' next entry lo hi :
  k = k' -> FragM x ci nocap k next entry lo hi -> FragM x ci nocap k' next entry lo hi.
Proof. intros ->. auto. Qed.

End Marks.

(* ------------------------------------------------------------------------------------------ *)
(** * The compile invariant *)

Lemma count_subs_nocap y : count_subs (to_sre true y) = 0.
Proof.
  induction y; cbn [to_sre count_subs]; try reflexivity; try lia.
  - apply count_subs_chars.
  - destruct m; [destruct n as [[|]|]|]; cbn [count_subs]; lia.
Qed.

Lemma alloc_invM st e n e1 : alloc st e = (n, e1) ->
  n = len e /\ len e1 = S (len e) /\ pres (e_tb e) (e_tb e1) /\ nth_error (e_tb e1) (len e) = Some st /\
  e_nsub e1 = e_nsub e.
Proof.
  intros H. destruct (alloc_inv _ _ _ _ H) as (A & B & C & D).
  split; [exact A|]. split; [exact B|]. split; [exact C|]. split; [exact D|].
  unfold alloc in H. injection H as _ <-. reflexivity.
Qed.

Definition CompOKM (B : list state -> nat -> bodyp) (cnt : nat) (f : nat -> cenv -> option nat * cenv) : Prop :=
  forall next e en e', f next e = (en, e') ->
    e_nsub e' = e_nsub e + cnt /\
    pres (e_tb e) (e_tb e') /\
    forall T, agree T (e_tb e') (len e) (len e') -> B T (e_nsub e) next en (len e) (len e').

Lemma CompOKM_intro (B : list state -> nat -> bodyp) cnt f :
  (forall next e, e_nsub (snd (f next e)) = e_nsub e + cnt) ->
  (forall next e en e', f next e = (en, e') ->
     pres (e_tb e) (e_tb e') /\
     forall T, agree T (e_tb e') (len e) (len e') -> B T (e_nsub e) next en (len e) (len e')) ->
  CompOKM B cnt f.
Proof.
  intros H1 H2 next e en e' H. split; [|apply H2; exact H].
  specialize (H1 next e). rewrite H in H1. exact H1.
Qed.

Lemma okM_weak (B : list state -> nat -> bodyp) cnt f next e en e' :
  CompOKM B cnt f -> f next e = (en, e') ->
  pres (e_tb e) (e_tb e') /\
  forall T, agree T (e_tb e') (len e) (len e') -> B T (e_nsub e) next en (len e) (len e').
Proof. intros H E. apply H in E. destruct E as (_ & P & F). split; assumption. Qed.

Lemma CompOKM_cnt (B : list state -> nat -> bodyp) cnt cnt' f : cnt = cnt' -> CompOKM B cnt f -> CompOKM B cnt' f.
Proof. intros ->. auto. Qed.

Ltac get_stM HT Hn := eexists; split; [eapply (agree_get _ _ _ _ _ _ HT); [|exact Hn]; lia|cbn; repeat split].
Ltac get_neM HT Hn := eexists; split; [rewrite HT by lia; rewrite nth_upd_ne by lia; exact Hn|cbn; repeat split].
Ltac dalM n e E := match goal with |- context [alloc ?st ?e0] => destruct (alloc st e0) as [n e] eqn:E end.
Ltac ainvM E L P N K := apply alloc_invM in E; cbn [e_tb e_nsub] in E; destruct E as (-> & L & P & N & K).

Lemma compile_chars_okM l ci : CompOKM (fun T _ => FragCharsM T l ci) 0 (compile_chars l ci).
Proof.
  apply CompOKM_intro; [intros; rewrite compile_chars_nsub; lia|].
  induction l as [|c r IH]; intros next e en e' H; cbn [compile_chars] in H.
  - injection H as <- <-. split; [apply pres_refl|]. intros T HT. cbn [FragCharsM]. auto.
  - destruct (alloc (eps_state None) e) as [n2 e1] eqn:E1.
    destruct (alloc (char_state ci (CsChar c) n2) e1) as [n1 e2] eqn:E2.
    destruct (compile_chars r ci next e2) as [n3 e3] eqn:E3.
    injection H as <- <-.
    ainvM E1 L1 P1 N1 K1. ainvM E2 L2 P2 N2 K2.
    apply IH in E3. destruct E3 as [P3 F3].
    assert (P13 := pres_trans _ _ _ P2 P3).
    cbn [patch1 e_tb]. rewrite length_upd. split.
    + apply pres_upd; [lia|]. eapply pres_trans; [exact P1|exact P13].
    + intros T HT. cbn [FragCharsM]. exists n3. destruct P3 as [A3 B3].
      split; [|split; [|split]].
      * eapply nth_pres in N1; [|exact P13]. eapply nth_upd_some in N1. get_stM HT N1.
      * eapply nth_pres in N2; [|split; [exact A3|exact B3]].
        rewrite <- L1. get_neM HT N2.
      * rewrite <- L1, <- L2. apply F3. eapply agree_upd; [exact HT|lia|lia|lia].
      * rewrite L1. reflexivity.
Qed.

(** only the last item of a repetition keeps its submatches *)
Fixpoint last_only (items : list rep_item) : bool :=
  match items with
  | [] => true
  | it :: rest => (negb (item_subs it) || match rest with [] => true | _ => false end) && last_only rest
  end.

Lemma last_only_cons it l : item_subs it = false -> last_only l = true -> last_only (it :: l) = true.
Proof. cbn [last_only]. intros -> ->. reflexivity. Qed.

Lemma last_only_rep it k l : item_subs it = false -> last_only l = true -> last_only (repeat it k ++ l) = true.
Proof. intros Hi Hl. induction k; cbn [repeat app]; [exact Hl|]. apply last_only_cons; assumption. Qed.

Lemma last_only_expand m n : last_only (expand_reps m n) = true.
Proof.
  unfold expand_reps. destruct n as [t|].
  - destruct (m =? t).
    + destruct m; [reflexivity|]. apply last_only_rep; reflexivity.
    + apply last_only_rep; [reflexivity|]. apply last_only_rep; reflexivity.
  - apply last_only_rep; reflexivity.
Qed.

Section ItemsOKM.
Variable B : list state -> bool -> nat -> bodyp.
Variable cb : bool -> nat -> cenv -> option nat * cenv.
Variable kk : nat.
Hypothesis Hcb : forall sb, CompOKM (fun T k0 => B T sb k0) (if sb then kk else 0) (cb sb).

Lemma compile_item_okM it :
  CompOKM (fun T k0 => ItemFragM T (fun sb => B T sb k0) it) (if item_subs it then kk else 0) (compile_item cb it).
Proof.
  destruct it as [sb|sb|]; intros nx e en e'; cbn [compile_item item_subs].
  - intros H. apply Hcb in H. exact H.
  - destruct (alloc (eps_state (Some nx)) e) as [m2 e1] eqn:E1. destruct (cb sb m2 e1) as [body e2] eqn:E2.
    destruct (alloc (fork_state body (Some nx)) e2) as [id e3] eqn:E3. intros H. injection H as <- <-.
    ainvM E1 L1 P1 N1 K1.
    apply Hcb in E2. destruct E2 as (K2 & P2 & F2).
    ainvM E3 L3 P3 N3 K3.
    assert (L2 : len e1 <= len e2) by apply P2.
    split; [lia|].
    split; [eapply pres_trans; [exact P1|eapply pres_trans; eauto]|].
    intros T HT. cbn [ItemFragM]. exists body, (len e2).
    split; [|split; [|split; [|split]]].
    + eapply nth_pres in N1; [|eapply pres_trans; [exact P2|exact P3]]. get_stM HT N1.
    + rewrite <- L1, <- K1. apply F2. eapply agree_sub; [exact HT|exact P3|lia|lia|lia].
    + get_stM HT N3.
    + exact L3.
    + reflexivity.
  - destruct (alloc (fork_state (Some nx) None) e) as [k2 e1] eqn:E1.
    destruct (alloc (eps_state (Some k2)) e1) as [m2 e2] eqn:E2.
    destruct (cb true m2 e2) as [body e3] eqn:E3.
    destruct (alloc (fork_state body (Some k2)) e3) as [k1 e4] eqn:E4. intros H. injection H as <- <-.
    ainvM E1 L1 P1 N1 K1. ainvM E2 L2 P2 N2 K2.
    apply Hcb in E3. destruct E3 as (K3 & P3 & F3).
    ainvM E4 L4 P4 N4 K4.
    assert (L3 : len e2 <= len e3) by apply P3.
    assert (P14 : pres (e_tb e1) (e_tb e4)) by (eapply pres_trans; [exact P2|eapply pres_trans; eauto]).
    assert (P24 : pres (e_tb e2) (e_tb e4)) by (eapply pres_trans; eauto).
    cbn [patch2 e_tb e_nsub]. rewrite length_upd.
    split; [lia|].
    split; [apply pres_upd; [lia|]; eapply pres_trans; [exact P1|exact P14]|].
    intros T HT. cbn [ItemFragM]. exists body, (len e3).
    split; [|split; [|split; [|split; [|split]]]].
    + eapply nth_pres in N1; [|exact P14]. eapply nth_upd_some in N1. get_stM HT N1.
    + eapply nth_pres in N2; [|exact P24]. rewrite <- L1. get_neM HT N2.
    + rewrite <- L1, <- L2. replace (e_nsub e) with (e_nsub e2) by lia.
      apply F3. eapply agree_sub; [|exact P4|..].
      * eapply (agree_upd T _ _ _ _ _ (len e2) (len e3) HT); lia.
      * lia.
      * lia.
      * lia.
    + get_neM HT N4.
    + exact L4.
    + reflexivity.
Qed.

Lemma compile_items_okM items : last_only items = true ->
  CompOKM (fun T k0 => FragItemsM T (fun sb => B T sb k0) items) (kk * length (filter item_subs items))
          (compile_items cb items).
Proof.
  induction items as [|it rest IH]; intros Hlo next e en e'.
  - cbn [compile_items]. intros H. injection H as <- <-. split; [cbn [filter length]; lia|].
    split; [apply pres_refl|]. intros T HT. cbn [FragItemsM]. auto.
  - cbn [last_only] in Hlo. apply andb_true_iff in Hlo. destruct Hlo as [Hl1 Hl2]. specialize (IH Hl2).
    rewrite compile_items_cons.
    destruct (alloc (eps_state None) e) as [n2 e1] eqn:E1. destruct (compile_item cb it n2 e1) as [n1 e2] eqn:E2.
    destruct (compile_items cb rest next e2) as [n3 e3] eqn:E3. intros H. injection H as <- <-.
    ainvM E1 L1 P1 N1 K1.
    apply compile_item_okM in E2. destruct E2 as (K2 & P2 & F2).
    apply IH in E3. destruct E3 as (K3 & P3 & F3).
    assert (L2 : len e1 <= len e2) by apply P2. assert (L3 : len e2 <= len e3) by apply P3.
    assert (P13 : pres (e_tb e1) (e_tb e3)) by (eapply pres_trans; eauto).
    cbn [patch1 e_tb e_nsub]. rewrite length_upd.
    split; [cbn [filter]; destruct (item_subs it); cbn [length]; lia|].
    split; [apply pres_upd; [lia|]; eapply pres_trans; eauto|].
    intros T HT. cbn [FragItemsM]. exists n3, (len e2).
    split; [|split].
    + eapply nth_pres in N1; [|exact P13]. eapply nth_upd_some in N1. get_stM HT N1.
    + rewrite <- L1, <- K1. apply F2. eapply agree_sub; [|exact P3|..].
      * eapply (agree_upd T _ _ _ _ _ (len e1) (len e2) HT); lia.
      * lia.
      * lia.
      * lia.
    + assert (HA : agree T (e_tb e3) (len e2) (len e3)) by (eapply agree_upd; [exact HT|lia|lia|lia]).
      assert (HK : rest = [] \/ e_nsub e2 = e_nsub e).
      { destruct (item_subs it); [left; destruct rest; [reflexivity|discriminate Hl1]|right; lia]. }
      destruct HK as [-> | HK].
      * exact (F3 T HA).
      * rewrite <- HK. exact (F3 T HA).
Qed.
End ItemsOKM.

Theorem compile_okM x : forall ci nocap,
  CompOKM (fun T k0 => FragM T x ci nocap k0) (count_subs (to_sre nocap x)) (compile x ci nocap).
Proof.
  induction x as [| |cs|l|a IHa b IHb|a IHa b IHb|a IHa|g a IHa|a IHa|g a IHa|g m n a IHa|a IHa|a IHa|a IHa|a IHa|k|a IHa|a IHa];
    intros ci nocap; (apply CompOKM_intro; [intros; apply compile_nsub|]); intros next e en e'.
  - (* XEps *) cbn [compile]. intros H. injection H as <- <-. split; [apply pres_refl|].
    intros T HT. cbn [FragM]. auto.
  - (* XFail *) cbn [compile]. intros H. injection H as <- <-. split; [apply pres_refl|].
    intros T HT. cbn [FragM]. auto.
  - (* XChr *) cbn [compile]. dalM qid e1 E1. intros H. injection H as <- <-. ainvM E1 L1 P1 N1 K1.
    split; [exact P1|]. intros T HT. cbn [FragM]. split; [get_stM HT N1|]. split; [reflexivity|exact L1].
  - (* XStr *) cbn [compile]. intros H. apply (okM_weak _ _ _ _ _ _ _ (compile_chars_okM l ci)) in H. exact H.
  - (* XSeq *) cbn [compile]. dalM n2 e1 E1.
    destruct (compile a ci nocap n2 e1) as [n1 e2] eqn:E2.
    destruct (compile b ci nocap next e2) as [n3 e3] eqn:E3. intros H. injection H as <- <-.
    ainvM E1 L1 P1 N1 K1. apply IHa in E2. destruct E2 as (K2 & P2 & F2). apply IHb in E3. destruct E3 as (K3 & P3 & F3).
    assert (L2 : len e1 <= len e2) by apply P2. assert (L3 : len e2 <= len e3) by apply P3.
    assert (P13 : pres (e_tb e1) (e_tb e3)) by (eapply pres_trans; eauto).
    cbn [patch1 e_tb]. rewrite length_upd.
    split; [apply pres_upd; [lia|]; eapply pres_trans; eauto|].
    intros T HT. cbn [FragM]. exists n3, (len e2). split; [|split].
    + eapply nth_pres in N1; [|exact P13]. eapply nth_upd_some in N1. get_stM HT N1.
    + rewrite <- L1, <- K1. apply F2. eapply agree_sub; [|exact P3|..].
      * eapply (agree_upd T _ _ _ _ _ (len e1) (len e2) HT); lia.
      * lia.
      * lia.
      * lia.
    + eapply FragM_k; [|apply F3; eapply agree_upd; [exact HT|lia|lia|lia]]; lia.
  - (* XAlt *) rewrite compile_alt. cbn [FragM]. destruct (is_cset (XAlt a b)).
    + dalM qid e1 E1. intros H. injection H as <- <-. ainvM E1 L1 P1 N1 K1.
      split; [exact P1|]. intros T HT. split; [get_stM HT N1|]. split; [reflexivity|exact L1].
    + destruct (is_fail b).
      { intros H. apply (okM_weak _ _ _ _ _ _ _ (IHa ci nocap)) in H. exact H. }
      destruct (compile a ci nocap next e) as [n1 e1] eqn:E1.
      destruct (compile b ci nocap next e1) as [n2 e2] eqn:E2.
      dalM qid e3 E3. intros H. injection H as <- <-.
      apply IHa in E1. destruct E1 as (K1 & P1 & F1). apply IHb in E2. destruct E2 as (K2 & P2 & F2).
      ainvM E3 L3 P3 N3 K3.
      assert (L1 : len e <= len e1) by apply P1. assert (L2 : len e1 <= len e2) by apply P2.
      split; [eapply pres_trans; [exact P1|eapply pres_trans; eauto]|].
      intros T HT. exists n1, n2, (len e1), (len e2). split; [|split; [|split; [|split]]].
      * apply F1. eapply agree_sub; [exact HT|eapply pres_trans; eauto|lia|lia|lia].
      * eapply FragM_k; [|apply F2; eapply agree_sub; [exact HT|exact P3|lia|lia|lia]]; lia.
      * get_stM HT N3.
      * exact L3.
      * reflexivity.
  - (* XBar *) cbn [compile FragM]. intros H. apply (okM_weak _ _ _ _ _ _ _ (IHa ci nocap)) in H. exact H.
  - (* XStar *) cbn [compile]. dalM n2 e1 E1.
    destruct (compile a ci nocap n2 e1) as [body e2] eqn:E2.
    dalM n1 e3 E3. intros H. injection H as <- <-.
    ainvM E1 L1 P1 N1 K1. apply IHa in E2. destruct E2 as (K2 & P2 & F2). ainvM E3 L3 P3 N3 K3.
    assert (L2 : len e1 <= len e2) by apply P2.
    assert (P13 : pres (e_tb e1) (e_tb e3)) by (eapply pres_trans; eauto).
    cbn [patch2 e_tb]. rewrite length_upd.
    split; [apply pres_upd; [lia|]; eapply pres_trans; eauto|].
    intros T HT. cbn [FragM]. exists body, (len e2). split; [|split; [|split; [|split]]].
    + eapply nth_pres in N1; [|exact P13]. eapply nth_upd_some in N1. get_stM HT N1.
    + rewrite <- L1, <- K1. apply F2. eapply agree_sub; [|exact P3|..].
      * eapply (agree_upd T _ _ _ _ _ (len e1) (len e2) HT); lia.
      * lia.
      * lia.
      * lia.
    + get_neM HT N3.
    + exact L3.
    + reflexivity.
  - (* XPlus *) cbn [compile]. dalM n2 e1 E1.
    destruct (compile a ci nocap n2 e1) as [n1 e2] eqn:E2. intros H. injection H as <- <-.
    ainvM E1 L1 P1 N1 K1. apply IHa in E2. destruct E2 as (K2 & P2 & F2).
    assert (L2 : len e1 <= len e2) by apply P2.
    cbn [patch2 e_tb]. rewrite length_upd.
    split; [apply pres_upd; [lia|]; eapply pres_trans; eauto|].
    intros T HT. cbn [FragM]. split.
    + eapply nth_pres in N1; [|exact P2]. eapply nth_upd_some in N1. get_stM HT N1.
    + rewrite <- L1, <- K1. apply F2. eapply (agree_upd T _ _ _ _ _ (len e1) (len e2) HT); lia.
  - (* XOpt *) cbn [compile].
    destruct (compile a ci nocap next e) as [body e1] eqn:E1. dalM qid e2 E2. intros H. injection H as <- <-.
    apply IHa in E1. destruct E1 as (K1 & P1 & F1). ainvM E2 L2 P2 N2 K2.
    assert (L1 : len e <= len e1) by apply P1.
    split; [eapply pres_trans; eauto|].
    intros T HT. cbn [FragM]. exists body, (len e1). split; [|split; [|split]].
    + apply F1. eapply agree_sub; [exact HT|exact P2|lia|lia|lia].
    + get_stM HT N2.
    + exact L2.
    + reflexivity.
  - (* XRep *) cbn [compile FragM]. intros H.
    assert (Hcb : forall sb, CompOKM (fun T k0 => FragM T a ci (nocap || negb sb) k0)
                               (if sb then count_subs (to_sre nocap a) else 0)
                               (fun k e => compile a ci (nocap || negb sb) k e)).
    { intros sb. eapply CompOKM_cnt; [|apply IHa].
      destruct sb; cbn [negb].
      * rewrite orb_false_r. reflexivity.
      * rewrite orb_true_r. apply count_subs_nocap. }
    apply (okM_weak _ _ _ _ _ _ _
             (compile_items_okM (fun T sb k0 => FragM T a ci (nocap || negb sb) k0)
                (fun subs k e => compile a ci (nocap || negb subs) k e) (count_subs (to_sre nocap a)) Hcb
                (expand_reps m n) (last_only_expand m n))) in H.
    exact H.
  - (* XSub *) cbn [compile]. destruct nocap.
    { cbn [FragM]. intros H. apply (okM_weak _ _ _ _ _ _ _ (IHa ci true)) in H. exact H. }
    dalM n3 e1 E1. destruct (compile a ci false n3 e1) as [n2 e2] eqn:E2. dalM n1 e3 E3.
    intros H. injection H as <- <-.
    ainvM E1 L1 P1 N1 K1. apply IHa in E2. destruct E2 as (K2 & P2 & F2). ainvM E3 L3 P3 N3 K3.
    assert (L2 : len e1 <= len e2) by apply P2.
    match goal with |- context [if ngs a then ?A else ?B] =>
      assert (TE : e_tb (if ngs a then A else B) = e_tb e3) by (destruct (ngs a); reflexivity); rewrite !TE end.
    split; [eapply pres_trans; [exact P1|eapply pres_trans; eauto]|].
    intros T HT. cbn [FragM]. exists n2, (len e2). split; [|split; [|split; [|split]]].
    + eapply nth_pres in N1; [|eapply pres_trans; eauto]. get_stM HT N1.
    + rewrite <- L1. eapply FragM_k; [|apply F2; eapply agree_sub; [exact HT|exact P3|lia|lia|lia]]; lia.
    + get_stM HT N3.
    + exact L3.
    + reflexivity.
  - (* XNamed *) cbn [compile]. destruct nocap.
    { cbn [FragM]. intros H. apply (okM_weak _ _ _ _ _ _ _ (IHa ci true)) in H. exact H. }
    dalM n3 e1 E1. destruct (compile a ci false n3 e1) as [n2 e2] eqn:E2. dalM n1 e3 E3.
    intros H. injection H as <- <-.
    ainvM E1 L1 P1 N1 K1. apply IHa in E2. destruct E2 as (K2 & P2 & F2). ainvM E3 L3 P3 N3 K3.
    assert (L2 : len e1 <= len e2) by apply P2.
    match goal with |- context [if ngs a then ?A else ?B] =>
      assert (TE : e_tb (if ngs a then A else B) = e_tb e3) by (destruct (ngs a); reflexivity); rewrite !TE end.
    split; [eapply pres_trans; [exact P1|eapply pres_trans; eauto]|].
    intros T HT. cbn [FragM]. exists n2, (len e2). split; [|split; [|split; [|split]]].
    + eapply nth_pres in N1; [|eapply pres_trans; eauto]. get_stM HT N1.
    + rewrite <- L1. eapply FragM_k; [|apply F2; eapply agree_sub; [exact HT|exact P3|lia|lia|lia]]; lia.
    + get_stM HT N3.
    + exact L3.
    + reflexivity.
  - (* XNoCap *) cbn [compile FragM]. intros H. apply (okM_weak _ _ _ _ _ _ _ (IHa ci true)) in H. exact H.
  - (* XWord *) cbn [compile]. dalM n2e e1 E1. dalM ne e2 E2.
    destruct (compile a ci nocap ne e2) as [nb e3] eqn:E3. dalM n2b e4 E4. dalM n1 e5 E5.
    intros H. injection H as <- <-.
    ainvM E1 L1 P1 N1 K1. ainvM E2 L2 P2 N2 K2. apply IHa in E3. destruct E3 as (K3 & P3 & F3).
    ainvM E4 L4 P4 N4 K4. ainvM E5 L5 P5 N5 K5.
    assert (L3 : len e2 <= len e3) by apply P3.
    assert (P35 : pres (e_tb e3) (e_tb e5)) by (eapply pres_trans; eauto).
    assert (P25 : pres (e_tb e2) (e_tb e5)) by (eapply pres_trans; eauto).
    assert (P15 : pres (e_tb e1) (e_tb e5)) by (eapply pres_trans; eauto).
    split; [eapply pres_trans; eauto|].
    intros T HT. cbn [FragM]. exists nb, (len e3).
    split; [|split; [|split; [|split; [|split; [|split]]]]].
    + eapply nth_pres in N1; [|exact P15]. get_stM HT N1.
    + eapply nth_pres in N2; [|exact P25]. rewrite <- L1. get_stM HT N2.
    + rewrite <- L1, <- L2. eapply FragM_k; [|apply F3; eapply agree_sub; [exact HT|exact P35|lia|lia|lia]]; lia.
    + eapply nth_pres in N4; [|exact P5]. get_stM HT N4.
    + rewrite <- L4. get_stM HT N5.
    + lia.
    + rewrite L4. reflexivity.
  - (* XAnc *) cbn [compile]. dalM qid e1 E1. intros H. injection H as <- <-. ainvM E1 L1 P1 N1 K1.
    split; [exact P1|]. intros T HT. cbn [FragM]. split; [get_stM HT N1|]. split; [reflexivity|exact L1].
  - (* XNoCase *) cbn [compile FragM]. intros H. apply (okM_weak _ _ _ _ _ _ _ (IHa true nocap)) in H. exact H.
  - (* XCase *) cbn [compile FragM]. intros H. apply (okM_weak _ _ _ _ _ _ _ (IHa false nocap)) in H. exact H.
Qed.

(* ------------------------------------------------------------------------------------------ *)
(** * Forgetting the marks: [FragM] refines [Frag] *)

Lemma FragCharsM_FragChars T l ci : forall next entry lo hi,
  FragCharsM T l ci next entry lo hi -> FragChars T l ci next entry lo hi.
Proof.
  induction l as [|c r IH]; intros next entry lo hi; cbn [FragCharsM FragChars]; [auto|].
  intros (n3 & H1 & H2 & H3 & H4). exists n3.
  split; [apply is_epsN_eps; exact H1|]. split; [apply is_chrN_chr; exact H2|]. split; [apply IH; exact H3|exact H4].
Qed.

Lemma ItemFragM_ItemFrag T (BM : bool -> bodyp) (B : bodyp) it :
  (forall sb nx en lo hi, BM sb nx en lo hi -> B nx en lo hi) ->
  forall nx entry lo hi, ItemFragM T BM it nx entry lo hi -> ItemFrag T B it nx entry lo hi.
Proof.
  intros HB nx entry lo hi. destruct it as [sb|sb|]; cbn [ItemFragM ItemFrag].
  - apply HB.
  - intros (body & h & H1 & H2 & H3 & H4 & H5). exists body, h.
    split; [apply is_epsN_eps; exact H1|]. split; [eapply HB; exact H2|]. split; [apply is_epsN_eps; exact H3|]. auto.
  - intros (body & h & H1 & H2 & H3 & H4 & H5 & H6). exists body, h.
    split; [apply is_epsN_eps; exact H1|]. split; [apply is_epsN_eps; exact H2|]. split; [eapply HB; exact H3|].
    split; [apply is_epsN_eps; exact H4|]. auto.
Qed.

Lemma FragItemsM_FragItems T (BM : bool -> bodyp) (B : bodyp) :
  (forall sb nx en lo hi, BM sb nx en lo hi -> B nx en lo hi) ->
  forall items next entry lo hi, FragItemsM T BM items next entry lo hi -> FragItems T B items next entry lo hi.
Proof.
  intros HB. induction items as [|it rest IH]; intros next entry lo hi; cbn [FragItemsM FragItems]; [auto|].
  intros (n3 & mid & H1 & H2 & H3). exists n3, mid.
  split; [apply is_epsN_eps; exact H1|]. split; [eapply ItemFragM_ItemFrag; [exact HB|exact H2]|apply IH; exact H3].
Qed.

Lemma FragM_Frag T x : forall ci nocap k0 next entry lo hi,
  FragM T x ci nocap k0 next entry lo hi -> Frag T x ci next entry lo hi.
Proof.
  induction x as [| |cs|l|a IHa b IHb|a IHa b IHb|a IHa|g a IHa|a IHa|g a IHa|g m n a IHa|a IHa|a IHa|a IHa|a IHa|k|a IHa|a IHa];
    intros ci nocap k0 next entry lo hi; cbn [FragM Frag].
  - auto.
  - auto.
  - intros (H1 & H2). split; [apply is_chrN_chr; exact H1|exact H2].
  - apply FragCharsM_FragChars.
  - intros (n3 & mid & H1 & H2 & H3). exists n3, mid.
    split; [apply is_epsN_eps; exact H1|]. split; [eapply IHa; exact H2|eapply IHb; exact H3].
  - destruct (is_cset (XAlt a b)).
    + intros (H1 & H2). split; [apply is_chrN_chr; exact H1|exact H2].
    + destruct (is_fail b); [apply IHa|].
      intros (n1 & n2 & mid & h & H1 & H2 & H3 & H4). exists n1, n2, mid, h.
      split; [eapply IHa; exact H1|]. split; [eapply IHb; exact H2|]. split; [apply is_epsN_eps; exact H3|exact H4].
  - apply IHa.
  - intros (body & h & H1 & H2 & H3 & H4). exists body, h.
    split; [apply is_epsN_eps; exact H1|]. split; [eapply IHa; exact H2|]. split; [apply is_epsN_eps; exact H3|exact H4].
  - intros (H1 & H2). split; [apply is_epsN_eps; exact H1|eapply IHa; exact H2].
  - intros (body & h & H1 & H2 & H3). exists body, h.
    split; [eapply IHa; exact H1|]. split; [apply is_epsN_eps; exact H2|exact H3].
  - apply FragItemsM_FragItems. intros sb nx en l0 h0. apply IHa.
  - destruct nocap.
    + intros H. left. eapply IHa; exact H.
    + intros (n2 & h & H1 & H2 & H3 & H4). right. exists n2, h.
      split; [eapply is_mark_eps; exact H1|]. split; [eapply IHa; exact H2|]. split; [eapply is_mark_eps; exact H3|exact H4].
  - destruct nocap.
    + intros H. left. eapply IHa; exact H.
    + intros (n2 & h & H1 & H2 & H3 & H4). right. exists n2, h.
      split; [eapply is_mark_eps; exact H1|]. split; [eapply IHa; exact H2|]. split; [eapply is_mark_eps; exact H3|exact H4].
  - apply IHa.
  - intros (nb & h & H1 & H2 & H3 & H4 & H5 & H6). exists nb, h.
    split; [apply is_epsN_eps; exact H1|]. split; [apply is_ancN_anc; exact H2|]. split; [eapply IHa; exact H3|].
    split; [apply is_epsN_eps; exact H4|]. split; [apply is_ancN_anc; exact H5|exact H6].
  - intros (H1 & H2). split; [apply is_ancN_anc; exact H1|exact H2].
  - apply IHa.
  - apply IHa.
Qed.

(* ------------------------------------------------------------------------------------------ *)
(** * The whole regexp: submatch 0 around the body, whose submatches are numbered from 1 *)

Theorem compile_top_shapeM x :
  exists n2 h, n_start (compile_top x) = h /\ 2 <= h /\
    nth_error (n_tb (compile_top x)) 0 = Some (mkState KAccept None RNone None None) /\
    is_mark (n_tb (compile_top x)) 1 1 (end_rule (ngs x)) (Some 0) /\
    is_mark (n_tb (compile_top x)) h 0 RLeft n2 /\
    FragM (n_tb (compile_top x)) x false false 0 1 n2 2 h.
Proof.
  remember (compile_top x) as N eqn:EN. unfold compile_top, alloc in EN.
  cbn [e_tb length app e_nsub e_ngi] in EN.
  match type of EN with context [compile x false false 1 ?e0] =>
    set (e2 := e0) in EN; destruct (compile x false false 1 e2) as [n2 e3] eqn:E3 end.
  subst N. cbn [n_start n_tb e_tb].
  apply compile_okM in E3. destruct E3 as (K3 & [A3 B3] & F3). cbn [e2 e_tb length e_nsub] in A3, B3, F3.
  exists n2, (len e3). split; [reflexivity|]. split; [exact A3|].
  split; [|split; [|split]].
  - rewrite nth_error_app1 by lia. rewrite B3 by lia. reflexivity.
  - eexists. split; [rewrite nth_error_app1 by lia; rewrite B3 by lia; reflexivity|cbn; repeat split].
  - eexists. split; [rewrite nth_error_app2 by lia; rewrite Nat.sub_diag; reflexivity|cbn; repeat split].
  - apply F3. intros q Hq. apply nth_error_app1. lia.
Qed.

(** the forgetful image is [NfaThompson.compile_top_shape] *)
Corollary compile_top_shapeM_shape x :
  exists n2 h, n_start (compile_top x) = h /\ 2 <= h /\
    nth_error (n_tb (compile_top x)) 0 = Some (mkState KAccept None RNone None None) /\
    is_eps (n_tb (compile_top x)) 1 (Some 0) None /\
    is_eps (n_tb (compile_top x)) h n2 None /\
    Frag (n_tb (compile_top x)) x false 1 n2 2 h.
Proof.
  destruct (compile_top_shapeM x) as (n2 & h & H1 & H2 & H3 & H4 & H5 & H6). exists n2, h.
  split; [exact H1|]. split; [exact H2|]. split; [exact H3|].
  split; [eapply is_mark_eps; exact H4|]. split; [eapply is_mark_eps; exact H5|eapply FragM_Frag; exact H6].
Qed.

(** the example of NfaThompson: ( * (/ "az")) ($ "01") (w/nocase (or #\x #\y)) *)
Example ex_shapeM :
  exists n2 h, n_start (compile_top ex_x) = h /\ 2 <= h /\
    is_mark (n_tb (compile_top ex_x)) 1 1 RRight (Some 0) /\
    is_mark (n_tb (compile_top ex_x)) h 0 RLeft n2 /\
    FragM (n_tb (compile_top ex_x)) ex_x false false 0 1 n2 2 h.
Proof.
  destruct (compile_top_shapeM ex_x) as (n2 & h & H1 & H2 & _ & H4 & H5 & H6). exists n2, h.
  split; [exact H1|]. split; [exact H2|]. split; [exact H4|]. split; [exact H5|exact H6].
Qed.
