(** C20 — the modelled engine (Nfa.v: compile_top + run) against the proved oracle of Re.v on a finite
    domain, by computation: every SRE of depth <= 1 over 14 atoms, 15 unary and 2 binary forms, plus the
    family "loop around a submatch around an operator", on every string of length <= 3 over {a, b, newline}
    and a few strings with upper-case letters.  These are the [_partial] forms of the engine theorems whose
    general statement (all SREs, all strings) is not closed for the priority simulation. *)
From ChibiV Require Import C20.Re C20.Proofs C20.Nfa.
Import ListNotations.
Local Open Scope nat_scope.

Definition ca : char := 97%N.
Definition cb : char := 98%N.
Definition cA : char := 65%N.

Definition one (x : xsre) : xsre := XSeq x XEps.

Definition atoms : list xsre :=
  [XChr (CsChar ca); XChr (CsChar cb); XChr CsAny; XChr (CsRange ca cb); XChr (CsNot (CsChar ca));
   XEps; XFail; XAnc Bos; XAnc Eos; XAnc Bol; XAnc Eol; XAnc Bow; XAnc Eow; XAnc Nwb; XStr [ca; cb]].

Definition unary : list (xsre -> xsre) :=
  [fun x => XStar true (one x); fun x => XStar false (one x); fun x => XPlus (one x);
   fun x => XOpt true (one x); fun x => XOpt false (one x);
   fun x => XRep true 0 (Some 2) (one x); fun x => XRep true 1 (Some 2) (one x);
   fun x => XRep true 2 (Some 3) (one x); fun x => XRep false 1 (Some 2) (one x);
   fun x => XRep true 2 (Some 2) (one x); fun x => XRep true 0 (Some 0) (one x);
   fun x => XRep true 1 None (one x); fun x => XRep true 2 None (one x);
   fun x => XSub (one x); fun x => XNoCase (one x)].

Definition binary : list (xsre -> xsre -> xsre) :=
  [fun x y => XSeq x (XSeq y XEps); fun x y => XAlt x (XAlt y XFail)].

Definition loops : list (xsre -> xsre) :=
  [fun x => XStar true (one x); fun x => XPlus (one x); fun x => XRep true 1 (Some 3) (one x);
   fun x => XStar false (one x)].

Definition small_xsres : list xsre :=
  atoms
  ++ flat_map (fun u => map u atoms) unary
  ++ flat_map (fun b => flat_map (fun x => map (b x) atoms) atoms) binary
  ++ flat_map (fun l => flat_map (fun u => map (fun a => l (XSub (one (u a)))) [XChr (CsChar ca); XChr (CsRange ca cb)]) unary) loops
  ++ flat_map (fun l => map (fun u => l (XSeq (XSub (one (u (XChr (CsChar ca))))) (XSeq (XOpt true (one (XChr (CsChar cb)))) XEps))) unary) loops.

Fixpoint strings_upto (alpha : list char) (n : nat) : list (list char) :=
  match n with
  | O => [[]]
  | S n' => [] :: flat_map (fun c => map (cons c) (strings_upto alpha n')) alpha
  end.

Definition small_strings : list (list char) :=
  nodup (list_eq_dec N.eq_dec) (strings_upto [ca; cb; newline] 3) ++ [[cA]; [ca; cA]; [cA; cb]; [cA; cA; ca]].

Definition span0 (o : option (list (option span))) : option span :=
  match o with Some (Some sp :: _) => Some sp | _ => None end.

Definition check_one (x : xsre) (s : list char) : bool :=
  let r := to_sre false x in
  let N := compile_top x in
  match run false N s, run true N s with
  | Some rm, Some rs =>
      Bool.eqb (match rm with Some _ => true | None => false end) (matchb r s)
      && Bool.eqb (match rs with Some _ => true | None => false end) (searchb r s)
      && (match rm with Some m => check_spans r s (spans_of m) | None => true end)
      && (match rs with Some m => check_spans r s (spans_of m) | None => true end)
      && (has_nongreedy r
          || match rs, search_span r s with
             | Some m, Some sp => match spans_of m with Some sp' :: _ => (fst sp =? fst sp') && (snd sp =? snd sp') | _ => false end
             | None, None => true
             | _, _ => false
             end)
  | _, _ => false
  end.

Lemma small_domain_checked :
  forallb (fun x => forallb (check_one x) small_strings) small_xsres = true.
Proof. vm_compute. reflexivity. Qed.

Lemma check_one_in x s : In x small_xsres -> In s small_strings -> check_one x s = true.
Proof.
  intros Hx Hs. pose proof small_domain_checked as H.
  rewrite forallb_forall in H. specialize (H x Hx). rewrite forallb_forall in H. exact (H s Hs).
Qed.

Lemma eqb_true_l (a b : bool) : Bool.eqb a b = true -> (a = true <-> b = true).
Proof. destruct a, b; cbn; intuition congruence. Qed.

(** regexp-matches? of the modelled engine decides the SPEC language (on the finite domain) *)
Theorem nfa_accepts_iff_language_small x s : In x small_xsres -> In s small_strings ->
  (nfa_matches x s = true <-> L false (to_sre false x) None s None).
Proof.
  intros Hx Hs. pose proof (check_one_in x s Hx Hs) as H. unfold check_one in H.
  rewrite <- matchb_spec. unfold nfa_matches, run_nfa.
  destruct (run false (compile_top x) s) as [rm|]; [|discriminate].
  destruct (run true (compile_top x) s) as [rs|]; [|discriminate].
  repeat (apply andb_prop in H; destruct H as [H ?]).
  apply eqb_true_l in H. destruct rm; exact H.
Qed.

(** regexp-search of the modelled engine succeeds exactly when some substring is in the language *)
Theorem nfa_search_iff_substring_small x s : In x small_xsres -> In s small_strings ->
  (nfa_search x s = true <-> exists i j, in_lang false (to_sre false x) s i j).
Proof.
  intros Hx Hs. pose proof (check_one_in x s Hx Hs) as H. unfold check_one in H.
  rewrite <- searchb_spec. unfold nfa_search, run_nfa.
  destruct (run false (compile_top x) s) as [rm|]; [|discriminate].
  destruct (run true (compile_top x) s) as [rs|]; [|discriminate].
  repeat (apply andb_prop in H; destruct H as [H ?]).
  match goal with E : Bool.eqb _ (searchb _ _) = true |- _ => apply eqb_true_l in E; destruct rs; exact E end.
Qed.

(** for SREs without non-greedy operators the span the simulation reports for a search is the
    leftmost-longest one *)
Theorem nfa_search_span_leftmost_longest_small x s : In x small_xsres -> In s small_strings ->
  has_nongreedy (to_sre false x) = false ->
  match span0 (nfa_spans true x s) with
  | Some (i, j) => in_lang false (to_sre false x) s i j /\
                   forall i' j', in_lang false (to_sre false x) s i' j' -> i < i' \/ (i = i' /\ j' <= j)
  | None => forall i j, ~ in_lang false (to_sre false x) s i j
  end.
Proof.
  intros Hx Hs Hg. pose proof (check_one_in x s Hx Hs) as H. unfold check_one in H.
  pose proof (search_span_spec (to_sre false x) s) as SP.
  unfold nfa_spans, span0.
  destruct (run false (compile_top x) s) as [rm|]; [|discriminate].
  destruct (run true (compile_top x) s) as [rs|]; [|discriminate].
  repeat (apply andb_prop in H; destruct H as [H ?]).
  rewrite Hg in *. cbn [orb] in *.
  destruct rs as [m|]; destruct (search_span (to_sre false x) s) as [[a b]|]; try discriminate.
  - destruct (spans_of m) as [|[[i j]|] rest]; try discriminate.
    cbn [fst snd] in *.
    match goal with E : (_ =? _) && (_ =? _) = true |- _ => apply andb_prop in E; destruct E as [E1 E2];
      apply Nat.eqb_eq in E1; apply Nat.eqb_eq in E2; subst end.
    exact SP.
  - exact SP.
Qed.

(** every set of spans the simulation reports passes the exact validator [check_spans] (hence, by
    submatch_span_check_sound, each delimits text in the language of its subexpression and nests) *)
Theorem nfa_submatch_spans_valid_small x s b spans : In x small_xsres -> In s small_strings ->
  nfa_spans b x s = Some spans -> check_spans (to_sre false x) s spans = true.
Proof.
  intros Hx Hs E. pose proof (check_one_in x s Hx Hs) as H. unfold check_one in H.
  unfold nfa_spans in E.
  destruct (run false (compile_top x) s) as [rm|] eqn:Em; [|discriminate].
  destruct (run true (compile_top x) s) as [rs|] eqn:Es; [|discriminate].
  repeat (apply andb_prop in H; destruct H as [H ?]).
  destruct b.
  - rewrite Es in E. destruct rs as [m|]; [|discriminate]. injection E as <-. assumption.
  - rewrite Em in E. destruct rm as [m|]; [|discriminate]. injection E as <-. assumption.
Qed.

Example ex_small_in :
  nth 707 small_xsres XEps = XStar true (one (XSub (one (XRep false 1 (Some 2) (one (XChr (CsRange ca cb)))))))
  /\ In (nth 707 small_xsres XEps) small_xsres /\ In (nth 30 small_strings []) small_strings
  /\ nth 30 small_strings [] = [newline; ca; cb].
Proof.
  split; [vm_compute; reflexivity|]. split; [apply nth_In; vm_compute; lia|]. split; [apply nth_In; vm_compute; lia|].
  vm_compute; reflexivity.
Qed.

Example ex_small_sizes : length small_xsres = 870 /\ length small_strings = 44.
Proof. vm_compute. split; reflexivity. Qed.
