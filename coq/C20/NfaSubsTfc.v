(** C20 -- the TRACED version of the soundness half of the fragment-correctness combinators [FC] of NfaThompson.v:
    the same first-exit factorisation, on the traced paths [tp] of NfaSubsDefs.v, carrying the match vector.
    Plain states record nothing ([s_match = None]); "mark" states record the current position in a slot. *)
From ChibiV Require Import C20.Re C20.Proofs C20.Nfa C20.NfaSem C20.NfaThompson C20.NfaSubsDefs.
From Coq Require Import List Arith Lia Bool.
Import ListNotations.
Local Open Scope nat_scope.

Section Tfc.
Variable T : list state.
Variable s : list char.

Definition is_epsN q n1 n2 := exists st, nth_error T q = Some st /\ s_kind st = KEps /\ s_match st = None /\ s_n1 st = n1 /\ s_n2 st = n2.
Definition is_chrN q ci cs nx := exists st, nth_error T q = Some st /\ s_kind st = KChar ci cs /\ s_match st = None /\ s_n1 st = Some nx /\ s_n2 st = None.
Definition is_ancN q k nx := exists st, nth_error T q = Some st /\ s_kind st = KAnchor k /\ s_match st = None /\ s_n1 st = Some nx /\ s_n2 st = None.
Definition is_mark q idx (r : rule) n1 := exists st, nth_error T q = Some st /\ s_kind st = KEps /\ s_match st = Some idx /\ s_rule st = r /\ s_n1 st = n1 /\ s_n2 st = None.

(** the forgetful lemmas *)
Lemma is_epsN_eps q n1 n2 : is_epsN q n1 n2 -> is_eps T q n1 n2.
Proof. intros (st & A & B & C & D & E). exists st. repeat split; assumption. Qed.
Lemma is_chrN_chr q ci cs nx : is_chrN q ci cs nx -> is_chr T q ci cs nx.
Proof. intros (st & A & B & C & D & E). exists st. repeat split; assumption. Qed.
Lemma is_ancN_anc q k nx : is_ancN q k nx -> is_anc T q k nx.
Proof. intros (st & A & B & C & D & E). exists st. repeat split; assumption. Qed.
Lemma is_mark_eps q idx r n1 : is_mark q idx r n1 -> is_eps T q n1 None.
Proof. intros (st & A & B & C & D & E & F). exists st. repeat split; assumption. Qed.

Definition umark (idx : nat) (r : rule) (m : mvec) (i : nat) : mvec :=
  update_match (mkState KEps (Some idx) r None None) m i.

Lemma ent_plain q i st m : nth_error T q = Some st -> s_match st = None -> ent T m (q, i) = m.
Proof.
  intros Hn Hm. unfold ent. cbn [fst snd]. rewrite Hn. unfold update_match. rewrite Hm. reflexivity.
Qed.

Lemma ent_mark q i idx r n1 m : is_mark q idx r n1 -> ent T m (q, i) = umark idx r m i.
Proof.
  intros (st & Hn & Hk & Hm & Hr & _). unfold ent, umark. cbn [fst snd]. rewrite Hn.
  unfold update_match. cbn [s_match s_rule]. rewrite Hm, Hr. reflexivity.
Qed.

Lemma ent_epsN q i n1 n2 m : is_epsN q n1 n2 -> ent T m (q, i) = m.
Proof. intros (st & Hn & _ & Hm & _). eapply ent_plain; eassumption. Qed.
Lemma ent_chrN q i ci cs nx m : is_chrN q ci cs nx -> ent T m (q, i) = m.
Proof. intros (st & Hn & _ & Hm & _). eapply ent_plain; eassumption. Qed.
Lemma ent_ancN q i k nx m : is_ancN q k nx -> ent T m (q, i) = m.
Proof. intros (st & Hn & _ & Hm & _). eapply ent_plain; eassumption. Qed.

Definition vrel := nat -> nat -> mvec -> mvec -> Prop.     (* i j m0 m1 *)

Definition TFC (Q : vrel) (next : nat) (entry : option nat) (R : nat -> Prop) : Prop :=
  forall k q0 i m0 q' j' m', entry = Some q0 -> i <= length s -> tp T s k (q0, i) m0 (q', j') m' -> ~ R q' ->
    exists j k' m1, k' <= k /\ j <= length s /\ Q i j m0 m1 /\ tp T s k' (next, j) m1 (q', j') m'.

Lemma TFC_ext (Q Q' : vrel) next entry R :
  (forall i j m0 m1, Q i j m0 m1 -> Q' i j m0 m1) -> TFC Q next entry R -> TFC Q' next entry R.
Proof.
  intros E H k q0 i m0 q' j' m' He Hi Hp HR.
  destruct (H k q0 i m0 q' j' m' He Hi Hp HR) as (j & k' & m1 & A & B & D & F).
  exists j, k', m1. split; [exact A|]. split; [exact B|]. split; [apply E; exact D|exact F].
Qed.

(** a variant: the relation may be weakened using the bounds the factorisation provides *)
Lemma TFC_ext_b (Q Q' : vrel) next entry R :
  (forall i j m0 m1, i <= length s -> j <= length s -> Q i j m0 m1 -> Q' i j m0 m1) ->
  TFC Q next entry R -> TFC Q' next entry R.
Proof.
  intros E H k q0 i m0 q' j' m' He Hi Hp HR.
  destruct (H k q0 i m0 q' j' m' He Hi Hp HR) as (j & k' & m1 & A & B & D & F).
  exists j, k', m1. split; [exact A|]. split; [exact B|]. split; [apply E; assumption|exact F].
Qed.

Lemma TFC_weaken (Q : vrel) next entry (R R' : nat -> Prop) :
  (forall q, R q -> R' q) -> TFC Q next entry R -> TFC Q next entry R'.
Proof.
  intros E H k q0 i m0 q' j' m' He Hi Hp HR. apply (H k q0 i m0 q' j' m' He Hi Hp).
  intros HH. apply HR, E, HH.
Qed.

Definition Qid (P : plang) : vrel := fun i j m0 m1 => P i j /\ m1 = m0.

Lemma TFC_eps next R : TFC (Qid (Peps s)) next (Some next) R.
Proof.
  intros k q0 i m0 q' j' m' He Hi Hp HR. injection He as <-. exists i, k, m0.
  split; [lia|]. split; [exact Hi|]. split; [|exact Hp]. split; [|reflexivity]. split; [reflexivity|exact Hi].
Qed.

Lemma TFC_fail next R : TFC (fun _ _ _ _ => False) next None R.
Proof. intros k q0 i m0 q' j' m' He. discriminate He. Qed.

Lemma TFC_chr q ci cs next (R : nat -> Prop) :
  is_chrN q ci cs next -> R q -> TFC (Qid (Pchr s ci cs)) next (Some q) R.
Proof.
  intros Hq HRq k q0 i m0 q' j' m' He Hi Hp HR. injection He as <-.
  inversion Hp as [c0 m00|k0 c0 m00 c1 c2 m2 Hs Hp']; subst.
  - contradiction.
  - destruct (step_chr_inv _ _ _ _ _ _ _ _ (is_chrN_chr _ _ _ _ Hq) Hs) as [-> (ch & Hch & Hm)].
    rewrite (ent_chrN _ _ _ _ _ _ Hq) in Hp'.
    exists (S i), k0, m0. split; [lia|]. split.
    + assert (i < length s) by (apply nth_error_Some; congruence). lia.
    + split; [|exact Hp']. split; [|reflexivity]. split; [reflexivity|].
      exists ch. split; [exact Hch|]. apply cs_mem_spec. exact Hm.
Qed.

Lemma TFC_anc q a next (R : nat -> Prop) :
  is_ancN q a next -> R q -> TFC (Qid (Panc s a)) next (Some q) R.
Proof.
  intros Hq HRq k q0 i m0 q' j' m' He Hi Hp HR. injection He as <-.
  inversion Hp as [c0 m00|k0 c0 m00 c1 c2 m2 Hs Hp']; subst.
  - contradiction.
  - destruct (step_anc_inv _ _ _ _ _ _ _ (is_ancN_anc _ _ _ Hq) Hs) as [-> Ha].
    rewrite (ent_ancN _ _ _ _ _ Hq) in Hp'.
    exists i, k0, m0. split; [lia|]. split; [exact Hi|]. split; [|exact Hp'].
    split; [|reflexivity]. split; [reflexivity|]. split; [exact Hi|exact Ha].
Qed.

Definition Qseq (Q1 Q2 : vrel) : vrel := fun i j m0 m2 => exists k m1, Q1 i k m0 m1 /\ Q2 k j m1 m2.

Lemma TFC_seq (Q1 Q2 : vrel) m next entry R :
  TFC Q1 m entry R -> TFC Q2 next (Some m) R -> TFC (Qseq Q1 Q2) next entry R.
Proof.
  intros S1 S2 k q0 i m0 q' j' m' He Hi Hp HR.
  destruct (S1 k q0 i m0 q' j' m' He Hi Hp HR) as (j1 & k1 & v1 & Hk1 & Hj1 & HP & Hp1).
  destruct (S2 k1 m j1 v1 q' j' m' eq_refl Hj1 Hp1 HR) as (j2 & k2 & v2 & Hk2 & Hj2 & HQ & Hp2).
  exists j2, k2, v2. split; [lia|]. split; [exact Hj2|]. split; [|exact Hp2]. exists j1, v1. split; assumption.
Qed.

Definition Qor (Q1 Q2 : vrel) : vrel := fun i j m0 m1 => Q1 i j m0 m1 \/ Q2 i j m0 m1.

Lemma TFC_fork (Q1 Q2 : vrel) q n1 n2 next (R : nat -> Prop) :
  is_epsN q n1 n2 -> R q -> TFC Q1 next n1 R -> TFC Q2 next n2 R -> TFC (Qor Q1 Q2) next (Some q) R.
Proof.
  intros Hq HRq S1 S2 k q0 i m0 q' j' m' He Hi Hp HR. injection He as <-.
  inversion Hp as [c0 m00|k0 c0 m00 c1 c2 m2 Hs Hp']; subst.
  - contradiction.
  - destruct (step_eps_inv _ _ _ _ _ _ _ (is_epsN_eps _ _ _ Hq) Hs) as (q1 & -> & [E|E]);
      rewrite (ent_epsN _ _ _ _ _ Hq) in Hp'.
    + destruct (S1 k0 q1 i m0 q' j' m' E Hi Hp' HR) as (j & k' & v & A & B & D & F).
      exists j, k', v. split; [lia|]. split; [exact B|]. split; [left; exact D|exact F].
    + destruct (S2 k0 q1 i m0 q' j' m' E Hi Hp' HR) as (j & k' & v & A & B & D & F).
      exists j, k', v. split; [lia|]. split; [exact B|]. split; [right; exact D|exact F].
Qed.

Inductive Qstar (Q : vrel) : vrel :=
| Qstar_nil : forall i m, i <= length s -> Qstar Q i i m m
| Qstar_cons : forall i k j m0 m1 m2, Q i k m0 m1 -> Qstar Q k j m1 m2 -> Qstar Q i j m0 m2.

(** the loop state [a]: either leave to [next], or go round through the fragment [e2] that comes back to [a] *)
Lemma TFC_loop (Q : vrel) a e2 next (R : nat -> Prop) :
  is_epsN a (Some next) e2 -> R a -> TFC Q a e2 R -> TFC (Qstar Q) next (Some a) R.
Proof.
  intros Ha HRa S k. induction k as [k IH] using lt_wf_ind.
  intros q0 i m0 q' j' m' He Hi Hp HR. injection He as <-.
  inversion Hp as [c0 m00|k0 c0 m00 c1 c2 m2 Hs Hp']; subst.
  - contradiction.
  - destruct (step_eps_inv _ _ _ _ _ _ _ (is_epsN_eps _ _ _ Ha) Hs) as (q1 & -> & [E|E]);
      rewrite (ent_epsN _ _ _ _ _ Ha) in Hp'.
    + injection E as <-. exists i, k0, m0. split; [lia|]. split; [exact Hi|]. split; [|exact Hp'].
      constructor. exact Hi.
    + destruct (S k0 q1 i m0 q' j' m' E Hi Hp' HR) as (j1 & k1 & v1 & A & B & D & F).
      destruct (IH k1 ltac:(lia) a j1 v1 q' j' m' eq_refl B F HR) as (j2 & k2 & v2 & A2 & B2 & D2 & F2).
      exists j2, k2, v2. split; [lia|]. split; [exact B2|]. split; [|exact F2].
      econstructor; eassumption.
Qed.

Lemma TFC_before (Q : vrel) q n1 next (R : nat -> Prop) :
  is_epsN q n1 None -> R q -> TFC Q next n1 R -> TFC Q next (Some q) R.
Proof.
  intros Hq HR H. eapply TFC_ext; [|eapply TFC_fork; [exact Hq|exact HR|exact H|apply TFC_fail]].
  intros i j m0 m1 [A|[]]. exact A.
Qed.

Lemma TFC_after (Q : vrel) q nx entry (R : nat -> Prop) :
  is_epsN q (Some nx) None -> R q -> TFC Q q entry R -> TFC Q nx entry R.
Proof.
  intros Hq HRq H k q0 i m0 q' j' m' He Hi Hp HR.
  destruct (H k q0 i m0 q' j' m' He Hi Hp HR) as (j & k' & m1 & A & B & D & F).
  inversion F as [c0 m00|k0 c0 m00 c1 c2 m2 Hs Hp']; subst.
  - contradiction.
  - destruct (step_eps_inv _ _ _ _ _ _ _ (is_epsN_eps _ _ _ Hq) Hs) as (q1 & -> & [E|E]); [|discriminate E].
    injection E as <-. rewrite (ent_epsN _ _ _ _ _ Hq) in Hp'.
    exists j, k0, m1. split; [lia|]. split; [exact B|]. split; [exact D|exact Hp'].
Qed.

Lemma TFC_mark_before (Q : vrel) q idx r n1 next (R : nat -> Prop) :
  is_mark q idx r n1 -> R q -> TFC Q next n1 R ->
  TFC (fun i j m0 m1 => Q i j (umark idx r m0 i) m1) next (Some q) R.
Proof.
  intros Hq HRq H k q0 i m0 q' j' m' He Hi Hp HR. injection He as <-.
  inversion Hp as [c0 m00|k0 c0 m00 c1 c2 m2 Hs Hp']; subst.
  - contradiction.
  - destruct (step_eps_inv _ _ _ _ _ _ _ (is_mark_eps _ _ _ _ Hq) Hs) as (q1 & -> & [E|E]); [|discriminate E].
    rewrite (ent_mark _ _ _ _ _ _ Hq) in Hp'.
    destruct (H k0 q1 i _ q' j' m' E Hi Hp' HR) as (j & k' & v & A & B & D & F).
    exists j, k', v. split; [lia|]. split; [exact B|]. split; [exact D|exact F].
Qed.

Lemma TFC_mark_after (Q : vrel) q idx r nx entry (R : nat -> Prop) :
  is_mark q idx r (Some nx) -> R q -> TFC Q q entry R ->
  TFC (fun i j m0 m2 => exists m1, Q i j m0 m1 /\ m2 = umark idx r m1 j) nx entry R.
Proof.
  intros Hq HRq H k q0 i m0 q' j' m' He Hi Hp HR.
  destruct (H k q0 i m0 q' j' m' He Hi Hp HR) as (j & k' & m1 & A & B & D & F).
  inversion F as [c0 m00|k0 c0 m00 c1 c2 m2 Hs Hp']; subst.
  - contradiction.
  - destruct (step_eps_inv _ _ _ _ _ _ _ (is_mark_eps _ _ _ _ Hq) Hs) as (q1 & -> & [E|E]); [|discriminate E].
    injection E as <-. rewrite (ent_mark _ _ _ _ _ _ Hq) in Hp'.
    exists j, k0, (umark idx r m1 j). split; [lia|]. split; [exact B|]. split; [|exact Hp'].
    exists m1. split; [exact D|reflexivity].
Qed.

Lemma Qstar_mono (Q Q' : vrel) : (forall i j m0 m1, Q i j m0 m1 -> Q' i j m0 m1) ->
  forall i j m0 m1, Qstar Q i j m0 m1 -> Qstar Q' i j m0 m1.
Proof. intros H i j m0 m1 HS. induction HS; [constructor; assumption|econstructor; eauto]. Qed.

Lemma Qstar_opt (Q : vrel) i j m0 m1 : Qstar (Qor Q (Qid (Peps s))) i j m0 m1 <-> Qstar Q i j m0 m1.
Proof.
  split.
  - intros H. induction H as [i m Hi|i k j m0 m1 m2 [HP|[[-> _] ->]] _ IH].
    + constructor. exact Hi.
    + econstructor; eassumption.
    + exact IH.
  - apply Qstar_mono. intros; left; assumption.
Qed.

Lemma Qstar_app (Q : vrel) i k j m0 m1 m2 : Qstar Q i k m0 m1 -> Qstar Q k j m1 m2 -> Qstar Q i j m0 m2.
Proof. intros H. induction H; intros H2; [exact H2|]. econstructor; [eassumption|]. apply IHQstar. exact H2. Qed.

Lemma TFC_star (Q : vrel) a h body nx (R : nat -> Prop) :
  is_epsN a (Some nx) (Some h) -> is_epsN h body (Some a) -> R a -> R h ->
  TFC Q a body R -> TFC (Qstar Q) nx (Some h) R.
Proof.
  intros Ha Hh HRa HRh H.
  assert (TFC (Qor Q (Qid (Peps s))) a (Some h) R) as F1.
  { eapply TFC_fork; [exact Hh|exact HRh|exact H|apply TFC_eps]. }
  assert (TFC (Qstar (Qor Q (Qid (Peps s)))) nx (Some a) R) as F2.
  { eapply TFC_loop; [exact Ha|exact HRa|exact F1]. }
  eapply TFC_ext; [|eapply TFC_seq; [exact F1|exact F2]].
  intros i j m0 m1 (k & v & [HP|[[-> _] ->]] & HS); apply (proj1 (Qstar_opt _ _ _ _ _)) in HS.
  - econstructor; eassumption.
  - exact HS.
Qed.

Lemma TFC_plus (Q : vrel) a entry nx (R : nat -> Prop) :
  is_epsN a (Some nx) entry -> R a -> TFC Q a entry R -> TFC (Qseq Q (Qstar Q)) nx entry R.
Proof.
  intros Ha HRa H. eapply TFC_seq; [exact H|]. eapply TFC_loop; eassumption.
Qed.

(** the vectors along a traced path all have the same length *)
Lemma update_match_length st m i : length (update_match st m i) = length m.
Proof.
  unfold update_match. destruct (s_match st) as [idx|]; [|reflexivity].
  match goal with |- length (if ?b then _ else _) = _ => destruct b end; [reflexivity|].
  unfold setm. apply length_upd.
Qed.

Lemma ent_length m c : length (ent T m c) = length m.
Proof. unfold ent. destruct (nth_error T (fst c)); [apply update_match_length|reflexivity]. Qed.

Lemma umark_length idx r m i : length (umark idx r m i) = length m.
Proof. apply update_match_length. Qed.

Lemma tp_len_ent k c m c' m' : tp T s k c m c' m' -> length m' = length m.
Proof.
  induction 1 as [c m|k c m c1 c' m' S1 _ IH]; [reflexivity|]. rewrite IH. apply ent_length.
Qed.

End Tfc.
