(** C20 — declarative semantics of a state graph of Nfa.v on a subject string: configurations
    (state, position), one transition per edge, acceptance = a path from the start state to the accept
    state.  This is the meeting point of the two halves of the engine proof:
      NfaThompson.v : the graph [compile_top x] has an accepting path on s  <->  s is in the SPEC language of x
      NfaRun.v      : the simulation [run] (posse of searchers with match vectors, merged by [match_ge])
                      finds an accept  <->  an accepting path exists.                     NO proofs here. *)
From ChibiV Require Export C20.Nfa.
From Coq Require Export Relations.
Import ListNotations.
Local Open Scope nat_scope.

Section Sem.
Variable tb : list state.
Variable s : list char.

(** the guard of an epsilon-like state at position [i] (state-matches? for chars = #f / a procedure) *)
Definition guard_ok (st : state) (i : nat) : bool :=
  match s_kind st with
  | KEps => true
  | KAnchor k => anchor_ok k (prevc s i) (nth_error s i)
  | _ => false
  end.

Inductive step : nat * nat -> nat * nat -> Prop :=
| step_n1 : forall q i st q',
    nth_error tb q = Some st -> guard_ok st i = true -> s_n1 st = Some q' -> step (q, i) (q', i)
| step_n2 : forall q i st q',
    nth_error tb q = Some st -> guard_ok st i = true -> s_n2 st = Some q' -> step (q, i) (q', i)
| step_chr : forall q i st ci cs c q',
    nth_error tb q = Some st -> s_kind st = KChar ci cs -> nth_error s i = Some c ->
    cs_mem ci cs c = true -> s_n1 st = Some q' -> step (q, i) (q', S i).

Definition path : nat * nat -> nat * nat -> Prop := clos_refl_trans_1n _ step.

Definition is_accept (q : nat) : Prop :=
  exists st, nth_error tb q = Some st /\ s_kind st = KAccept.
End Sem.

(** regexp-matches?: from the start state at 0 to an accept state at the end *)
Definition accepts_path (N : nfa) (s : list char) : Prop :=
  exists q, path (n_tb N) s (n_start N, 0) (q, length s) /\ is_accept (n_tb N) q.

(** regexp-search: from the start state at some i to an accept state at some j *)
Definition finds_path (N : nfa) (s : list char) : Prop :=
  exists i j q, i <= length s /\ path (n_tb N) s (n_start N, i) (q, j) /\ is_accept (n_tb N) q.

(** the SREs the tie generates: bounded repeats have m <= n, and a w/nocase / w/case that is an
    element of an all-char-set alternation has exactly one element (sre->char-set raises otherwise) *)
Fixpoint wf_x (x : xsre) : bool :=
  match x with
  | XEps | XFail | XChr _ | XStr _ | XAnc _ => true
  | XSeq a b | XAlt a b => wf_x a && wf_x b
  | XBar a | XStar _ a | XPlus a | XOpt _ a | XSub a | XNamed a | XNoCap a | XWord a => wf_x a
  | XRep _ m n a => wf_x a && match n with Some n' => m <=? n' | None => true end
  | XNoCase a | XCase a =>
      wf_x a && (negb (elems_cset a) || match a with XSeq _ XEps => true | _ => false end)
  end.
