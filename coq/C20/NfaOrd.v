(** C20 — the simulation of Nfa.v with the iteration order of a posse made explicit.
    regexp-advance! walks searchers1 in hash-table order ("NOTE: non-deterministic from hash order",
    regexp.scm:495) and the merge [regexp-match>=?] is not symmetric on vectors that fail its sanity
    clause (an end left of its start, the stale end of an earlier loop iteration): the later arrival can
    win, so the vectors kept in a posse may depend on that order.  [Nfa.loop] fixes insertion order; the tie
    observes the order the running code used at every step and replays it here: [ords] = for every step
    the state ids in the order the code walked them.                              NO proofs in this file. *)
From ChibiV Require Export C20.Nfa.
Import ListNotations.
Local Open Scope nat_scope.

Definition reorder (ord : list nat) (p : posse) : posse :=
  flat_map (fun q => match pfind p q with Some m => [(q, m)] | None => [] end) ord
  ++ filter (fun sr => negb (memb (fst sr) ord)) p.

Fixpoint loop_tr_ord (ords : list (list nat)) (search : bool) (N : nfa) (s : list char) (k i : nat)
                     (s1 : posse) (acc : option mvec) : option (list (nat * posse * option mvec)) :=
  match (if search || (i =? 0) then advance N s i (negb search) (start_searcher N) s1 acc
         else Some (s1, acc)) with
  | None => None
  | Some (s1, acc) =>
      match k with
      | O => Some [(i, s1, acc)]
      | S k' =>
          if (search && early_exit s1 acc) || (negb search && is_nil s1) then Some [(i, s1, acc)]
          else
            match nth_error s i with
            | None => Some [(i, s1, acc)]
            | Some ch =>
                match step_all N s (S i) (negb search) ch (reorder (hd [] ords) s1) [] acc with
                | None => None
                | Some (s2, acc') =>
                    option_map (cons (i, s1, acc)) (loop_tr_ord (tl ords) search N s k' (S i) s2 acc')
                end
            end
      end
  end.

(** the vector regexp-run-offsets returns, from the last snapshot *)
Definition result_of (search : bool) (s : list char) (tr : list (nat * posse * option mvec)) : option mvec :=
  match last tr (0, [], None) with
  | (_, _, Some m) =>
      if search || (match getm m 1 with Some e => length s <=? e | None => false end) then Some m else None
  | _ => None
  end.
