(** C20 — item 4 for every walking order of the posse: every vector [run_ord] returns is the trace of ONE
    accepting path ([run_ord_vector_is_trace]: the soundness-only invariant of NfaSubs.v speaks of membership
    in the walked list only), and the trace of ANY accepting path of [compile_top x] describes valid spans
    ([trace_vector_valid]); hence the spans pass [check_spans]. *)
From ChibiV Require Import C20.Re C20.Proofs C20.Nfa C20.NfaSem C20.NfaOrd C20.NfaRun C20.NfaThompson C20.NfaSpan C20.NfaCount
                           C20.NfaSubsDefs C20.NfaSubsTfc C20.NfaSubsGraph C20.NfaSubsU C20.NfaSubsUAlg
                           C20.NfaSubsValid C20.NfaSubs C20.NfaSubsMain C20.NfaSubsFinal C20.NfaAnyOrder.
From Coq Require Import List Arith Lia Bool.
Import ListNotations.
Local Open Scope nat_scope.
Arguments match_ge : simpl never.

Lemma loop_ord_tr_inv N s search ords s1 acc :
  loop_ord ords search N s (length s) 0 [] None = Some (s1, acc) -> AccT N s search acc.
Proof.
  intros E.
  pose (P := fun (i : nat) (p : posse) (a : option mvec) =>
               (forall q m, In (q, m) p -> Tr N s search (q, i) m) /\ AccT N s search a).
  destruct (loop_ord_ind search N s P P) with (3 := Nat.add_0_r (length s)) (5 := E) as (j & _ & [_ B] & _).
  - intros i p a p' a' Hi [H1 H2] ES. exact (start_tr N s search i p a p' a' Hi ES H1 H2).
  - intros i ch ord p a p2 a2 Ech [H1 H2] _ ESA.
    assert (Hnil : forall q m, In (q, m) (@nil (nat * mvec)) -> Tr N s search (q, S i) m) by (intros q m []).
    assert (Hl : forall q m, In (q, m) (reorder ord p) -> Tr N s search (q, i) m)
      by (intros q m H; apply H1; apply (reorder_In ord p); exact H).
    exact (step_all_tr N s search i ch Ech _ [] a p2 a2 ESA Hl Hnil H2).
  - split; [intros q m [] | intros m H; discriminate H].
  - exact B.
Qed.

(** every vector [run_ord] returns is the trace, from the all-unset vector, of one path from the start state
    (injected at [i0]) to an accept state (at [j]) *)
Theorem run_ord_vector_is_trace ords b N s m : run_ord ords b N s = Some (Some m) ->
  exists i0 l qa j,
    (b = true \/ i0 = 0) /\ (b = true \/ j = length s) /\ i0 <= j /\ j <= length s /\
    chain (n_tb N) s (n_start N, i0) l /\ last l (n_start N, i0) = (qa, j) /\ is_accept (n_tb N) qa /\
    m = trace (n_tb N) (repeat None (n_nsave N)) ((n_start N, i0) :: l).
Proof.
  unfold run_ord. intros E.
  destruct (loop_ord ords b N s (length s) 0 [] None) as [[s1 acc]|] eqn:EL; [|discriminate].
  injection E as E. destruct acc as [a|]; [|discriminate].
  assert (Em : a = m).
  { destruct (b || match getm a 1 with Some e => length s <=? e | None => false end); [|discriminate]. congruence. }
  subst a.
  pose proof (loop_ord_tr_inv N s b ords s1 (Some m) EL) as A.
  destruct (A m eq_refl) as (qa & j & (i0 & l & (S0 & S1) & C & EL' & M) & Ha & Cj).
  exists i0, l, qa, j. split; [exact S0|]. split; [exact Cj|].
  pose proof (chain_path _ _ _ _ C) as P. rewrite EL' in P.
  pose proof (NfaRun.path_mono N s _ _ P) as Mo. cbn [snd] in Mo.
  pose proof (NfaRun.path_bound N s _ _ P) as Bo. cbn [snd] in Bo.
  split; [exact Mo|]. split; [apply Bo; exact S1|]. repeat (split; [assumption|]). exact M.
Qed.

(** every trace of an accepting path of [compile_top x] describes valid spans (the proof of
    NfaSubsMain.run_vector_valid, which uses of [run] only that its vector is such a trace) *)
Theorem trace_vector_valid x s m : wf_x x = true ->
  (exists i0 l qa j, i0 <= j /\ j <= length s /\
     chain (n_tb (compile_top x)) s (n_start (compile_top x), i0) l /\
     last l (n_start (compile_top x), i0) = (qa, j) /\ is_accept (n_tb (compile_top x)) qa /\
     m = trace (n_tb (compile_top x)) (repeat None (n_nsave (compile_top x))) ((n_start (compile_top x), i0) :: l)) ->
  spans_valid (to_sre false x) s (spans_of m).
Proof.
  intros Hw HT. pose proof FragM_sound_all as HS. pose proof I as Hok.
  set (N := compile_top x) in *.
  destruct (Shape.compile_top_slot0 x) as (S1 & S2 & S3 & _).
  pose proof (compile_top_slot1_discipline x) as D. fold N in S1, S2, S3, D.
  destruct HT as (i0 & l & qa & j & Lij & Lj & C & EL & Ha & M).
  destruct (trace_slot01 N s D S1 S2 S3 i0 l qa j C EL Ha) as [G0 G1]. cbv zeta in G0, G1. rewrite <- M in G0, G1.
  assert (Lm : length m = 2 * S (count_subs (to_sre false x))).
  { rewrite M, trace_length, repeat_length. apply compile_top_nsave. }
  (* span 0 *)
  assert (HL0 : in_lang false (to_sre false x) s i0 j).
  { apply (in_lang_iff_path x s i0 j Hw). split; [lia|]. exists qa. split; [|exact Ha].
    rewrite <- EL. apply chain_path. exact C. }
  (* the traced path, up to the accept state *)
  pose proof (chain_tp (n_tb N) s l (n_start N, i0) (repeat None (n_nsave N)) C) as TP. rewrite EL in TP.
  set (m' := trace (n_tb N) (repeat None (n_nsave N)) (removelast ((n_start N, i0) :: l))) in *.
  assert (Em : m = m').
  { rewrite M, (trace_full (n_tb N) (repeat None (n_nsave N)) (n_start N, i0) l), EL. fold m'.
    destruct Ha as (sa & Ea & Ka). eapply ent_plain; [exact Ea|].
    pose proof (D_st N D qa sa Ea) as Dst. unfold disc_st in Dst. rewrite Ka in Dst.
    destruct (s_match sa); [discriminate Dst | reflexivity]. }
  (* the shape of the table *)
  destruct (compile_top_shapeM x) as (n2 & h & Hs & Hh & H0 & H1 & Hn1 & HF). fold N in Hs, H0, H1, Hn1, HF.
  pose proof (FragM_Frag _ _ _ _ _ _ _ _ _ HF) as HF0.
  destruct (Frag_na _ x _ _ _ _ _ HF0) as [Hle HNA].
  set (sl := subs false 0 false 1 (to_sre false x)).
  pose proof (HS (n_tb N) s x Hok Hw false false 0 0 false 1 n2 2 h (le_n 0) HF) as F1. fold sl in F1.
  assert (F2 : TFC (n_tb N) s (QV s sl 0 (Lat s (L false (to_sre true x)))) 1 n2 (Rg 1 (S h))).
  { eapply TFC_weaken; [|exact F1]. unfold Rg. intros; lia. }
  assert (R1 : Rg 1 (S h) 1) by (unfold Rg; lia).
  assert (Rh : Rg 1 (S h) h) by (unfold Rg; lia).
  pose proof (TFC_mark_after (n_tb N) s _ 1 1 (end_rule (ngs x)) 0 n2 (Rg 1 (S h)) H1 R1 F2) as F3.
  pose proof (TFC_mark_before (n_tb N) s _ h 0 RLeft n2 0 (Rg 1 (S h)) Hn1 Rh F3) as F4.
  (* the accept state is outside, and has no successor *)
  assert (HR : ~ Rg 1 (S h) qa).
  { destruct Ha as (sa & Ea & Ka). unfold Rg. intros Hr.
    assert (Cs : qa = 1 \/ qa = h \/ Rg 2 h qa) by (unfold Rg; lia).
    destruct Cs as [->|[->|Hr2]].
    - destruct H1 as (st & E1 & K1 & _). rewrite Ea in E1. injection E1 as <-. congruence.
    - destruct Hn1 as (st & E1 & K1 & _). rewrite Ea in E1. injection E1 as <-. congruence.
    - exact (HNA qa Hr2 sa Ea Ka). }
  rewrite Hs in TP.
  assert (Hi0 : i0 <= length s) by lia.
  destruct (F4 _ h i0 _ qa j m' eq_refl Hi0 TP HR) as (j' & k' & m1 & _ & Lj' & HQ & TP2).
  assert (X : j' = j /\ m1 = m').
  { inversion TP2 as [c0 m00|k0 c0 m00 c1 c2 m2 Hst Hp']; subst.
    - split; reflexivity.
    - exfalso. eapply step_acc_inv; [exact H0 | reflexivity | exact Hst]. }
  destruct X as [-> ->]. clear TP2.
  destruct HQ as (m1 & HQ & Em').
  (* the body of the whole match, from the vector with slot 0 set *)
  rewrite g_umark_left in HQ.
  assert (Ln : length (repeat (@None nat) (n_nsave N)) = 2 * S (count_subs (to_sre false x))).
  { rewrite repeat_length. apply compile_top_nsave. }
  assert (Lsl : length sl = count_subs (to_sre false x)) by apply subs_length.
  assert (Bn : Bnd i0 (setm (repeat None (n_nsave N)) 0 i0)).
  { intros k v Hk. destruct (Nat.eq_dec 0 k) as [<-|NE].
    - rewrite g_setm_eq in Hk by (rewrite Ln; lia). injection Hk as <-. lia.
    - rewrite g_setm_neq in Hk by exact NE. rewrite getm_repeat_none in Hk. discriminate Hk. }
  assert (Lp : 2 * S (0 + length sl) <= length (setm (repeat (@None nat) (n_nsave N)) 0 i0)).
  { unfold setm. rewrite NfaRun.upd_length, Ln, Lsl. lia. }
  destruct (HQ Bn Lp) as (HP & _ & (UL & UF & UP)).
  (* conclusion *)
  assert (Lm2 : 2 <= length m) by lia.
  destruct (vec_shape m Lm2) as [r Er]. rewrite G0, G1 in Er.
  unfold spans_valid. exists i0, j, (spans_of r).
  split; [rewrite Er; reflexivity|]. split; [exact HL0|]. split.
  { pose proof (spans_of_length _ _ Lm) as Ls. rewrite Er in Ls. cbn [spans_of length] in Ls.
    injection Ls as Ls. exact Ls. }
  intros k ci body anc a e Hk Hr.
  assert (Hr' : nth_error (spans_of m) (S k) = Some (Some (a, e))) by (rewrite Er; exact Hr).
  destruct (spans_of_nth _ _ _ _ Hr') as [Ga Ge].
  (* slots other than 1 of m are those of m1 *)
  assert (Same : forall slot, slot <> 1 -> getm m slot = getm m1 slot).
  { intros slot Hne. rewrite Em, Em'. apply g_umark_other. exact Hne. }
  rewrite Same in Ga by lia. rewrite Same in Ge by lia.
  destruct (UP k ci body anc Hk) as [[PA PB]|(a' & e' & Ga' & Ge' & La & Le & HLk & Nest)].
  - exfalso. cbn [Nat.add] in PA. rewrite Ga in PA. rewrite g_setm_neq in PA by lia.
    rewrite getm_repeat_none in PA. discriminate PA.
  - cbn [Nat.add] in Ga', Ge'. rewrite Ga in Ga'. rewrite Ge in Ge'. injection Ga' as <-. injection Ge' as <-.
    split; [exact HLk|].
    destruct anc as [|anc'].
    + exists i0, j. split; [rewrite Er; reflexivity|]. split; assumption.
    + destruct (Nest ltac:(lia)) as (oa & oe & Goa & Goe & L1 & L2).
      exists oa, oe. split; [|split; assumption].
      apply spans_of_get; rewrite Same by lia; assumption.
Qed.

Theorem run_ord_vector_spans_valid ords x s b m : wf_x x = true ->
  run_ord ords b (compile_top x) s = Some (Some m) -> spans_valid (to_sre false x) s (spans_of m).
Proof.
  intros Hw E. apply (trace_vector_valid x s m Hw).
  destruct (run_ord_vector_is_trace ords b _ s m E) as (i0 & l & qa & j & _ & _ & A & B & C & EL & Ha & M).
  exists i0, l, qa, j. repeat (split; [assumption|]). exact M.
Qed.

(** 4. regexp-matches (b = false) / regexp-search (b = true), for every walking order *)
Theorem nfa_submatch_spans_valid_any_order : forall ords x s b spans, wf_x x = true ->
  nfa_spans_ord ords b x s = Some spans -> check_spans (to_sre false x) s spans = true.
Proof.
  intros ords x s b spans Hw E. unfold nfa_spans_ord in E.
  destruct (run_ord ords b (compile_top x) s) as [[m|]|] eqn:ER; try discriminate. injection E as <-.
  apply check_spans_complete. eapply run_ord_vector_spans_valid; eassumption.
Qed.

(** (: ($ ( * ($ (or #\a "bc")))) (?? #\c) eos) on "xbcac", every step walked in reversed order *)
Example ex_submatch_spans_valid_any_order :
  nfa_spans_ord (NfaAnyOrder.exo_all_rev 5) true exf_x exf_s = Some [Some (1, 5); Some (1, 4); Some (3, 4)] /\
  check_spans (to_sre false exf_x) exf_s [Some (1, 5); Some (1, 4); Some (3, 4)] = true /\
  forall ords b s spans, nfa_spans_ord ords b exf_x s = Some spans -> check_spans (to_sre false exf_x) s spans = true.
Proof.
  assert (E : nfa_spans_ord (NfaAnyOrder.exo_all_rev 5) true exf_x exf_s = Some [Some (1, 5); Some (1, 4); Some (3, 4)])
    by (vm_compute; reflexivity).
  split; [exact E|]. split.
  - exact (nfa_submatch_spans_valid_any_order _ exf_x exf_s true _ eq_refl E).
  - intros ords b s spans. exact (nfa_submatch_spans_valid_any_order ords exf_x s b spans eq_refl).
Qed.
