(** C20 — characters: code points (N), simple case folding and word-constituent test on the
    *modelled universe* of characters.

    chibi's matcher never calls char-foldcase: case-insensitive states are built by
    [char-set-ci] (regexp.scm:67-73), which closes a set under char-upcase / char-downcase.
    The SPEC below is "two characters are equal when their simple case foldings are equal";
    [fold] is the simple case folding restricted to the blocks listed here (identity elsewhere).
    The tie draws subject characters and pattern literals from these blocks only and checks
    [fold], [is_word] against the running chibi (char-foldcase, char-upcase/downcase,
    char-set:word-constituent) for every character it uses (props/C20.py, "chars" stage). *)
From Coq Require Export NArith Arith List Bool Lia.
Export ListNotations.
Local Open Scope N_scope.

Definition char : Type := N.

Definition in_rng (lo hi c : N) : bool := (lo <=? c) && (c <=? hi).

(** simple case folding (CaseFolding.txt, status C/S) on: ASCII, Latin-1, Greek (monotonic
    capitals), Cyrillic U+0400-042F, Deseret U+10400-10427 (4-byte UTF-8). *)
Definition fold (c : char) : char :=
  if in_rng 65 90 c then c + 32
  else if in_rng 192 222 c && negb (c =? 215) then c + 32
  else if in_rng 913 939 c && negb (c =? 930) then c + 32
  else if in_rng 1040 1071 c then c + 32
  else if in_rng 1024 1039 c then c + 80
  else if in_rng 66560 66599 c then c + 40
  else c.

(** char-set:word-constituent = letters + digits + "_" (regexp.scm:547-548) on the universe *)
Definition is_word (c : char) : bool :=
  in_rng 48 57 c || in_rng 65 90 c || in_rng 97 122 c || (c =? 95)
  || (c =? 170) || (c =? 181) || (c =? 186)
  || (in_rng 192 255 c && negb (c =? 215) && negb (c =? 247))
  || (in_rng 913 929 c) || (in_rng 931 969 c)
  || in_rng 1024 1119 c
  || in_rng 66560 66639 c
  || in_rng 19968 40955 c.

Definition newline : char := 10.

(** the integers lo, lo+1, ..., hi (empty when hi < lo) *)
Definition nrange (lo hi : N) : list N :=
  map (fun k => lo + N.of_nat k) (seq 0 (N.to_nat (hi + 1 - lo))).
