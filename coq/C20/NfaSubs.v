(** C20 -- the match vector the simulation of Nfa.v reports is the TRACE of a single accepting path
    ([run_vector_is_trace]), for every state table; consequences for the tables [compile_top] builds:
    span 0 of regexp-matches and of regexp-search is in the language of the SRE ([nfa_span0_valid]), and the
    reported spans pass the exact validator [check_spans] when the SRE has no submatch
    ([nfa_submatch_spans_valid_partial]; the unconditional [nfa_submatch_spans_valid] is in NfaSubsFinal.v, built on
    NfaSubsGraph.v / NfaSubsTfc.v / NfaSubsU.v / NfaSubsUAlg.v / NfaSubsValid.v / NfaSubsMain.v).

    Soundness-only invariant: every vector on the stack of [adv], in a posse or in the accept register is the
    fold of [update_match] along one path from the start state: merging ([padd]/[pmerge], the accept update)
    keeps one of the two whole vectors, the [seen] blocking only drops vectors. *)
From ChibiV Require Import C20.Re C20.Proofs C20.Nfa C20.NfaSem C20.NfaRun C20.NfaThompson C20.NfaSpan C20.NfaCount
                           C20.NfaSubsDefs.
From Coq Require Import List Arith Lia Bool.
Import ListNotations.
Local Open Scope nat_scope.
Arguments match_ge : simpl never.

(* ------------------------------------------------------------------------------------------ *)
(** * (1) The vectors of the simulation are traces of paths *)

Section RunTrace.
Variable N : nfa.
Variable s : list char.
Variable search : bool.
Notation tb := (n_tb N).
Notation h := (n_start N).
Notation init := (repeat (@None nat) (n_nsave N)).

(** where a searcher may be injected *)
Definition sok (i0 : nat) : Prop := (search = true \/ i0 = 0) /\ i0 <= length s.

(** [m] = the vector after entering configuration [c] along some path from an injected start searcher *)
Definition Tr (c : nat * nat) (m : mvec) : Prop :=
  exists i0 l, sok i0 /\ chain tb s (h, i0) l /\ last l (h, i0) = c /\ m = trace tb init ((h, i0) :: l).

(** a stack entry (q, m0) of [adv] at position i: m0 = the vector before entering (q, i) *)
Definition Pre (q i : nat) (m0 : mvec) : Prop :=
  (q = h /\ sok i /\ m0 = init) \/ exists c, Tr c m0 /\ step tb s c (q, i).

Lemma Pre_Tr q i m0 : Pre q i m0 -> Tr (q, i) (ent tb m0 (q, i)).
Proof.
  intros [(-> & S0 & ->)|(c & (i0 & l & S0 & C & E & M) & St)].
  - exists i, []. split; [exact S0|]. split; [exact I|]. split; reflexivity.
  - exists i0, (l ++ [(q, i)]). split; [exact S0|]. split; [|split].
    + apply chain_snoc; [exact C|]. rewrite E. exact St.
    + apply last_snoc.
    + rewrite app_comm_cons, trace_snoc, <- M. reflexivity.
Qed.

Lemma ent_st q i m0 st : nth_error tb q = Some st -> ent tb m0 (q, i) = update_match st m0 i.
Proof. intros E. unfold ent. cbn [fst snd]. rewrite E. reflexivity. Qed.

Definition AccT (acc : option mvec) : Prop :=
  forall m, acc = Some m -> exists qa j, Tr (qa, j) m /\ is_accept tb qa /\ (search = true \/ j = length s).

Lemma adv_tr i : i <= length s -> forall fuel stk new seen acc new' acc',
  adv fuel N (prevc s i) (nth_error s i) i (length s <=? i) (negb search) stk new seen acc = Some (new', acc') ->
  (forall q m0, In (q, m0) stk -> Pre q i m0) ->
  (forall q m, In (q, m) new -> Tr (q, i) m) -> AccT acc ->
  (forall q m, In (q, m) new' -> Tr (q, i) m) /\ AccT acc'.
Proof.
  intros Hi. induction fuel as [|fuel IH]; intros stk new seen acc new' acc' E Hstk Hnew Hacc.
  - destruct stk as [|[q m0] stk']; cbn [adv] in E; [|discriminate]. injection E as <- <-. split; assumption.
  - destruct stk as [|[q m0] stk']; cbn [adv] in E; [injection E as <- <-; split; assumption|].
    assert (Hq : Pre q i m0) by (apply Hstk; left; reflexivity).
    assert (Hstk' : forall q' m', In (q', m') stk' -> Pre q' i m') by (intros q' m' H; apply Hstk; right; exact H).
    destruct (nth_error tb q) as [st|] eqn:Eq; [|eapply IH; eassumption].
    cbv zeta in E.
    pose proof (Pre_Tr q i m0 Hq) as HT. rewrite (ent_st q i m0 st Eq) in HT.
    assert (Push : guard_ok s st i = true -> forall q' m', In (q', m')
               (map (fun q' => (q', update_match st m0 i)) (opt_list (s_n1 st) ++ opt_list (s_n2 st)) ++ stk') ->
               Pre q' i m').
    { intros G q' m' H. apply in_app_iff in H. destruct H as [H|H]; [|apply Hstk'; exact H].
      apply in_map_iff in H. destruct H as (x & Hx & Hin). injection Hx as -> <-.
      right. exists (q, i). split; [exact HT|].
      apply in_app_iff in Hin. destruct Hin as [Hin|Hin].
      - destruct (s_n1 st) as [y|] eqn:E1; cbn [opt_list In] in Hin; [|contradiction]. destruct Hin as [->|[]].
        eapply step_n1; eassumption.
      - destruct (s_n2 st) as [y|] eqn:E1; cbn [opt_list In] in Hin; [|contradiction]. destruct Hin as [->|[]].
        eapply step_n2; eassumption. }
    destruct (s_kind st) eqn:Ek.
    + eapply IH; [exact E | exact Hstk' | exact Hnew |].
      match goal with |- AccT (if ?c then _ else _) => destruct c eqn:C end; [|exact Hacc].
      intros m [= <-]. exists q, i. split; [exact HT|]. split; [exists st; split; assumption|].
      apply andb_true_iff in C. destruct C as [C _]. rewrite negb_involutive in C.
      apply orb_true_iff in C. destruct C as [C|C]; [left; exact C|]. right. apply Nat.leb_le in C. lia.
    + eapply IH; [exact E | exact Hstk' | | exact Hacc].
      intros q' m' H. apply In_padd2 in H. destruct H as [H|[-> ->]]; [apply Hnew; exact H | exact HT].
    + destruct (memb q seen); [eapply IH; eassumption|].
      assert (G : guard_ok s st i = anchor_ok k (prevc s i) (nth_error s i)) by (unfold guard_ok; rewrite Ek; reflexivity).
      destruct (anchor_ok k (prevc s i) (nth_error s i)); [|eapply IH; eassumption].
      eapply IH; [exact E | apply Push; exact G | exact Hnew | exact Hacc].
    + destruct (memb q seen); [eapply IH; eassumption|].
      assert (G : guard_ok s st i = true) by (unfold guard_ok; rewrite Ek; reflexivity).
      eapply IH; [exact E | apply Push; exact G | exact Hnew | exact Hacc].
Qed.

Lemma advance_tr i q0 m0 new acc new' acc' : i <= length s ->
  advance N s i (negb search) (q0, m0) new acc = Some (new', acc') ->
  Pre q0 i m0 -> (forall q m, In (q, m) new -> Tr (q, i) m) -> AccT acc ->
  (forall q m, In (q, m) new' -> Tr (q, i) m) /\ AccT acc'.
Proof.
  intros Hi E HP Hnew Hacc. unfold advance in E.
  eapply (adv_tr i Hi); [exact E | | exact Hnew | exact Hacc].
  intros q m1 [H|[]]. injection H as <- <-. exact HP.
Qed.

Lemma step_all_tr i ch : nth_error s i = Some ch -> forall l new acc new' acc',
  step_all N s (S i) (negb search) ch l new acc = Some (new', acc') ->
  (forall q m, In (q, m) l -> Tr (q, i) m) ->
  (forall q m, In (q, m) new -> Tr (q, S i) m) -> AccT acc ->
  (forall q m, In (q, m) new' -> Tr (q, S i) m) /\ AccT acc'.
Proof.
  intros Hch. assert (Hi : S i <= length s) by (apply Nat.le_succ_l; apply nth_error_Some; congruence).
  induction l as [|[q m] l IH]; intros new acc new' acc' E Hl Hnew Hacc.
  - cbn [step_all] in E. injection E as <- <-. split; assumption.
  - rewrite step_all_cons in E.
    assert (Hl' : forall q' m', In (q', m') l -> Tr (q', i) m') by (intros q' m' H; apply Hl; right; exact H).
    destruct (fire N ch q) as [q'|] eqn:F; [|eapply IH; eassumption].
    destruct (advance N s (S i) (negb search) (q', m) new acc) as [[new1 acc1]|] eqn:EA; [|discriminate].
    apply fire_spec in F. destruct F as (st & ci & cs & Est & Ek & Ec & E1).
    assert (HP : Pre q' (S i) m).
    { right. exists (q, i). split; [apply Hl; left; reflexivity|]. eapply step_chr; eassumption. }
    destruct (advance_tr (S i) q' m new acc new1 acc1 Hi EA HP Hnew Hacc) as [A B].
    eapply IH; eassumption.
Qed.

Lemma start_tr i s1 acc s1' acc' : i <= length s ->
  (if search || (i =? 0) then advance N s i (negb search) (start_searcher N) s1 acc else Some (s1, acc))
    = Some (s1', acc') ->
  (forall q m, In (q, m) s1 -> Tr (q, i) m) -> AccT acc ->
  (forall q m, In (q, m) s1' -> Tr (q, i) m) /\ AccT acc'.
Proof.
  intros Hi E H1 H2. destruct (search || (i =? 0)) eqn:C.
  - unfold start_searcher in E. eapply advance_tr; try eassumption.
    left. split; [reflexivity|]. split; [|reflexivity]. split; [|exact Hi].
    apply orb_true_iff in C. destruct C as [C|C]; [left; exact C | right; apply Nat.eqb_eq; exact C].
  - injection E as <- <-. split; assumption.
Qed.

Lemma loop_tr_inv : forall k i s1 acc s1' acc', k + i = length s ->
  (forall q m, In (q, m) s1 -> Tr (q, i) m) -> AccT acc ->
  loop search N s k i s1 acc = Some (s1', acc') -> AccT acc'.
Proof.
  induction k as [|k IH]; intros i s1 acc s1' acc' Hk H1 H2 E; cbn [loop] in E.
  - match type of E with match ?X with _ => _ end = _ => destruct X as [[s1a acca]|] eqn:ES; [|discriminate] end.
    cbv beta iota in E. injection E as <- <-.
    assert (Hi : i <= length s) by lia.
    apply (start_tr i s1 acc s1a acca Hi ES H1 H2).
  - match type of E with match ?X with _ => _ end = _ => destruct X as [[s1a acca]|] eqn:ES; [|discriminate] end.
    cbv beta iota in E.
    assert (Hi : i <= length s) by lia.
    destruct (start_tr i s1 acc s1a acca Hi ES H1 H2) as [A B].
    destruct ((search && early_exit s1a acca) || (negb search && is_nil s1a)); [injection E as <- <-; exact B|].
    destruct (nth_error s i) as [ch|] eqn:Ech; [|injection E as <- <-; exact B].
    destruct (step_all N s (S i) (negb search) ch s1a [] acca) as [[s2 acc2]|] eqn:ESA; [|discriminate].
    assert (Hnil : forall q m, In (q, m) (@nil (nat * mvec)) -> Tr (q, S i) m) by (intros q m []).
    destruct (step_all_tr i ch Ech s1a [] acca s2 acc2 ESA A Hnil B) as [A' B'].
    apply (IH (S i) s2 acc2 s1' acc'); [lia | exact A' | exact B' | exact E].
Qed.

End RunTrace.

(** every vector [run] returns is the trace, from the all-unset vector, of one path from the start state
    (injected at [i0]) to an accept state (at [j]); when matching the whole string, i0 = 0 and j = length s *)
Theorem run_vector_is_trace b N s m : run b N s = Some (Some m) ->
  exists i0 l qa j,
    (b = true \/ i0 = 0) /\ (b = true \/ j = length s) /\ i0 <= j /\ j <= length s /\
    chain (n_tb N) s (n_start N, i0) l /\ last l (n_start N, i0) = (qa, j) /\ is_accept (n_tb N) qa /\
    m = trace (n_tb N) (repeat None (n_nsave N)) ((n_start N, i0) :: l).
Proof.
  unfold run. intros E.
  destruct (loop b N s (length s) 0 [] None) as [[s1 acc]|] eqn:EL; [|discriminate].
  injection E as E. destruct acc as [a|]; [|discriminate].
  assert (Em : a = m).
  { destruct (b || match getm a 1 with Some e => length s <=? e | None => false end); [|discriminate]. congruence. }
  subst a.
  assert (H1 : forall q m0, In (q, m0) (@nil (nat * mvec)) -> Tr N s b (q, 0) m0) by (intros q m0 []).
  assert (H2 : AccT N s b None) by (intros m0 H; discriminate H).
  pose proof (loop_tr_inv N s b (length s) 0 [] None s1 (Some m) (Nat.add_0_r _) H1 H2 EL) as A.
  destruct (A m eq_refl) as (qa & j & (i0 & l & (S0 & S1) & C & EL' & M) & Ha & Cj).
  exists i0, l, qa, j. split; [exact S0|]. split; [exact Cj|].
  pose proof (chain_path _ _ _ _ C) as P. rewrite EL' in P.
  pose proof (NfaRun.path_mono N s _ _ P) as Mo. cbn [snd] in Mo.
  pose proof (NfaRun.path_bound N s _ _ P) as Bo. cbn [snd] in Bo.
  split; [exact Mo|]. split; [apply Bo; exact S1|]. repeat (split; [assumption|]). exact M.
Qed.

Corollary run_vector_is_trace_path b N s m : run b N s = Some (Some m) ->
  exists i0 qa j, (b = true \/ i0 = 0) /\ (b = true \/ j = length s) /\ j <= length s /\
    path (n_tb N) s (n_start N, i0) (qa, j) /\ is_accept (n_tb N) qa.
Proof.
  intros E. destruct (run_vector_is_trace b N s m E) as (i0 & l & qa & j & A & B & _ & C & D & F & G & _).
  exists i0, qa, j. repeat (split; [assumption|]). split; [|exact G].
  rewrite <- F. apply chain_path. exact D.
Qed.

(* ------------------------------------------------------------------------------------------ *)
(** * Slots 0 and 1 of a trace, on a graph with the slot-0 / slot-1 disciplines of [compile_top] *)

Lemma chain_inv T s (I : nat * nat -> mvec -> Prop) :
  (forall c m c', I c m -> step T s c c' -> I c' (ent T m c')) ->
  forall l c m, I c m -> chain T s c l -> I (last l c) (trace T m l).
Proof.
  intros HI. induction l as [|c1 r IH]; intros c m H0 C; [exact H0|].
  destruct C as [S1 C1]. rewrite last_cons, trace_cons. apply IH; [|exact C1]. eapply HI; eassumption.
Qed.

Section Slot01.
Variable N : nfa.
Variable s : list char.
Notation tb := (n_tb N).
Notation h := (n_start N).
Hypothesis D : slot1_discipline N = true.
Hypothesis Hst : exists st, nth_error tb h = Some st /\ s_kind st = KEps /\ s_match st = Some 0 /\ s_rule st = RLeft.
Hypothesis H0only : forall q st, nth_error tb q = Some st -> s_match st = Some 0 -> q = h.
Hypothesis Hnop : forall q st q', nth_error tb q = Some st -> s_n1 st = Some q' \/ s_n2 st = Some q' -> q' <> h.

Lemma step_succ q i q' i' : step tb s (q, i) (q', i') ->
  exists st, nth_error tb q = Some st /\ s_kind st <> KAccept /\ (s_n1 st = Some q' \/ s_n2 st = Some q') /\
             (i' = i \/ exists ci cs, s_kind st = KChar ci cs).
Proof.
  intros H. inversion H as [q0 i0 st q1 E G E1|q0 i0 st q1 E G E1|q0 i0 st ci cs c q1 E K Ec Em E1]; subst.
  - exists st. split; [exact E|]. split; [intros K; unfold guard_ok in G; rewrite K in G; discriminate|]. split; [left; exact E1 | left; reflexivity].
  - exists st. split; [exact E|]. split; [intros K; unfold guard_ok in G; rewrite K in G; discriminate|]. split; [right; exact E1 | left; reflexivity].
  - exists st. split; [exact E|]. split; [rewrite K; discriminate|]. split; [left; exact E1 | right; exists ci, cs; exact K].
Qed.

(** entering a non-accepting state with slot 1 unset: what its successors receive *)
Lemma enter_ok q i st m : nth_error tb q = Some st -> V0 m ->
  forall q' i', step tb s (q, i) (q', i') -> vec_ok N i' q' (update_match st m i).
Proof.
  intros E V q' i' St.
  pose proof (D_st N D q st E) as Dst. unfold disc_st in Dst.
  inversion St as [q0 i0 st0 q1 E0 G E1|q0 i0 st0 q1 E0 G E1|q0 i0 st0 ci cs c q1 E0 K Ec Em E1]; subst;
    rewrite E in E0; injection E0 as <-.
  - assert (Dst' : (if is_one (s_match st) then forallb (acceptb tb) (succs st)
                    else forallb (fun q' => negb (acceptb tb q')) (succs st)) = true).
    { unfold guard_ok in G. destruct (s_kind st); try discriminate G; exact Dst. }
    assert (Hin : In q' (succs st)) by (unfold succs; rewrite E1; left; reflexivity).
    unfold vec_ok. destruct (is_one (s_match st)) eqn:E2; rewrite forallb_forall in Dst'; specialize (Dst' q' Hin).
    + rewrite Dst'. apply um_one; [apply is_one_true; exact E2 | exact V].
    + apply negb_true_iff in Dst'. rewrite Dst'. apply um_V0; assumption.
  - assert (Dst' : (if is_one (s_match st) then forallb (acceptb tb) (succs st)
                    else forallb (fun q' => negb (acceptb tb q')) (succs st)) = true).
    { unfold guard_ok in G. destruct (s_kind st); try discriminate G; exact Dst. }
    assert (Hin : In q' (succs st)).
    { unfold succs. apply in_app_iff. right. rewrite E1. left. reflexivity. }
    unfold vec_ok. destruct (is_one (s_match st)) eqn:E2; rewrite forallb_forall in Dst'; specialize (Dst' q' Hin).
    + rewrite Dst'. apply um_one; [apply is_one_true; exact E2 | exact V].
    + apply negb_true_iff in Dst'. rewrite Dst'. apply um_V0; assumption.
  - rewrite K in Dst. apply andb_true_iff in Dst. destruct Dst as [D1 D2]. apply negb_true_iff in D1.
    rewrite forallb_forall in D2.
    assert (Hin : In q' (succs st)) by (unfold succs; rewrite E1; left; reflexivity).
    specialize (D2 q' Hin). apply negb_true_iff in D2. unfold vec_ok. rewrite D2. apply um_V0; assumption.
Qed.

Definition I01 (i0 : nat) (c : nat * nat) (m : mvec) : Prop :=
  getm m 0 = Some i0 /\
  (if acceptb tb (fst c) then getm m 1 = Some (snd c)
   else forall q' i', step tb s c (q', i') -> vec_ok N i' q' m).

Lemma I01_step i0 c m c' : I01 i0 c m -> step tb s c c' -> I01 i0 c' (ent tb m c').
Proof.
  destruct c as [q i], c' as [q' i']. intros [A B] St. cbn [fst snd] in B.
  destruct (step_succ _ _ _ _ St) as (st & E & NK & Sc & _).
  rewrite (acceptb_false N q st E NK) in B. specialize (B q' i' St).
  assert (NH : q' <> h) by (eapply Hnop; eassumption).
  unfold ent. cbn [fst snd]. destruct (nth_error tb q') as [st'|] eqn:E'.
  - split.
    + rewrite um_keep0; [exact A|]. intros M. apply NH. eapply H0only; eassumption.
    + cbn [fst snd]. unfold vec_ok in B. destruct (acceptb tb q') eqn:AC.
      * pose proof (D_st N D q' st' E') as Dst. unfold disc_st in Dst.
        unfold acceptb in AC. rewrite E' in AC. destruct (s_kind st'); try discriminate AC.
        unfold update_match. destruct (s_match st'); [discriminate Dst | exact B].
      * apply enter_ok; assumption.
  - split; [exact A|]. cbn [fst snd]. unfold acceptb. rewrite E'.
    intros q2 i2 St2. destruct (step_succ _ _ _ _ St2) as (st2 & E2 & _). congruence.
Qed.

Lemma trace_slot01 i0 l qa j : chain tb s (h, i0) l -> last l (h, i0) = (qa, j) -> is_accept tb qa ->
  let m := trace tb (repeat None (n_nsave N)) ((h, i0) :: l) in
  getm m 0 = Some i0 /\ getm m 1 = Some j.
Proof.
  intros C EL (sa & Ea & Ka). cbv zeta. rewrite trace_cons.
  pose proof D as D0. unfold slot1_discipline in D0.
  apply andb_true_iff in D0. destruct D0 as [D1 D3]. apply andb_true_iff in D1. destruct D1 as [_ D2].
  apply negb_true_iff in D2. apply Nat.leb_le in D3.
  assert (V : V0 (repeat (@None nat) (n_nsave N))).
  { split; [rewrite repeat_length; exact D3 | unfold getm; apply nth_repeat_none]. }
  assert (H0 : I01 i0 (h, i0) (ent tb (repeat None (n_nsave N)) (h, i0))).
  { destruct Hst as (st & E & K & M & R). unfold ent. cbn [fst snd]. rewrite E. split.
    - apply um_set0; [exact M | exact R | rewrite repeat_length; lia].
    - cbn [fst snd]. rewrite D2. apply enter_ok; assumption. }
  pose proof (chain_inv tb s (I01 i0) (I01_step i0) l _ _ H0 C) as [A B].
  rewrite EL in B. cbn [fst snd] in B. rewrite (acceptb_true N qa sa Ea Ka) in B. split; assumption.
Qed.

End Slot01.

(* ------------------------------------------------------------------------------------------ *)
(** * (2') Span 0 of the reported vector is in the language, for matching and for searching *)

Theorem nfa_span0_valid : forall x s b m, wf_x x = true -> run b (compile_top x) s = Some (Some m) ->
  exists i j, getm m 0 = Some i /\ getm m 1 = Some j /\ in_lang false (to_sre false x) s i j /\
              (b = false -> i = 0 /\ j = length s).
Proof.
  intros x s b m Hw E.
  destruct (Shape.compile_top_slot0 x) as (S1 & S2 & S3 & _).
  pose proof (compile_top_slot1_discipline x) as D.
  destruct (run_vector_is_trace b _ s m E) as (i0 & l & qa & j & A & B & Lij & Lj & C & EL & Ha & M).
  destruct (trace_slot01 (compile_top x) s D S1 S2 S3 i0 l qa j C EL Ha) as [G0 G1]. rewrite <- M in G0, G1.
  exists i0, j. split; [exact G0|]. split; [exact G1|]. split.
  - apply (in_lang_iff_path x s i0 j Hw). split; [lia|]. exists qa. split; [|exact Ha].
    rewrite <- EL. apply chain_path. exact C.
  - intros ->. destruct A as [A|A]; [discriminate|]. destruct B as [B|B]; [discriminate|]. split; assumption.
Qed.

(* ------------------------------------------------------------------------------------------ *)
(** * The shape of the reported list of spans; the validator on SREs without submatch *)
From ChibiV Require Import C20.NfaSubsTfc.

Lemma trace_length T m l : length (trace T m l) = length m.
Proof.
  revert m. induction l as [|c r IH]; intros m; [reflexivity|]. rewrite trace_cons, IH. apply ent_length.
Qed.

Lemma spans_of_length : forall n (m : mvec), length m = 2 * n -> length (spans_of m) = n.
Proof.
  induction n as [|n IH]; intros m H.
  - destruct m; [reflexivity | cbn [length] in H; lia].
  - destruct m as [|a [|b r]]; cbn [length] in H; try lia. cbn [spans_of length]. f_equal. apply IH. lia.
Qed.

(** the vector [run] returns has one pair of slots per submatch of the SPEC syntax, plus the pair of the whole match *)
Theorem run_vector_length x s b m : run b (compile_top x) s = Some (Some m) ->
  length m = 2 * S (count_subs (to_sre false x)).
Proof.
  intros E. destruct (run_vector_is_trace b _ s m E) as (i0 & l & qa & j & _ & _ & _ & _ & _ & _ & _ & M).
  rewrite M, trace_length, repeat_length. apply compile_top_nsave.
Qed.

(** what is proved about the reported spans for EVERY well-formed SRE: the list has one entry per submatch after
    the entry of the whole match, and the whole-match span is in the language (anchored at both ends when matching) *)
Theorem nfa_spans_shape x s b spans : wf_x x = true -> nfa_spans b x s = Some spans ->
  exists i j rest, spans = Some (i, j) :: rest /\ length rest = count_subs (to_sre false x) /\
    in_lang false (to_sre false x) s i j /\ (b = false -> i = 0 /\ j = length s).
Proof.
  intros Hw E. unfold nfa_spans in E.
  destruct (run b (compile_top x) s) as [[m|]|] eqn:ER; try discriminate. injection E as <-.
  destruct (nfa_span0_valid x s b m Hw ER) as (i & j & G0 & G1 & HL & Hb).
  pose proof (run_vector_length x s b m ER) as Lm.
  pose proof (spans_of_length _ _ Lm) as Ls.
  destruct m as [|a [|c r]]; cbn [length] in Lm; try lia.
  unfold getm in G0, G1. cbn [nth] in G0, G1. subst a c. cbn [spans_of] in *. cbn [length] in Ls.
  exists i, j, (spans_of r). split; [reflexivity|]. split; [cbn [length] in Ls; injection Ls as Ls; exact Ls|]. split; assumption.
Qed.

Definition no_submatch (x : xsre) : Prop := count_subs (to_sre false x) = 0.

(** the target theorem on the SREs without submatch (any nesting of the other operators, anchors, case flags,
    w/nocapture around $): the reported list is exactly the whole-match entry and it passes the validator.

    The full statement, for every well-formed SRE, is proved in NfaSubsFinal.v:
      Theorem nfa_submatch_spans_valid : forall x s b spans, wf_x x = true ->
        nfa_spans b x s = Some spans -> check_spans (to_sre false x) s spans = true. *)
Theorem nfa_submatch_spans_valid_partial : forall x s b spans, wf_x x = true -> no_submatch x ->
  nfa_spans b x s = Some spans -> check_spans (to_sre false x) s spans = true.
Proof.
  intros x s b spans Hw H0 E.
  destruct (nfa_spans_shape x s b spans Hw E) as (i & j & rest & -> & Lr & HL & _).
  unfold no_submatch in H0. rewrite H0 in Lr. destruct rest; [|discriminate Lr].
  unfold check_spans. apply andb_true_iff. split; [apply span_ok_spec; exact HL|].
  pose proof (subs_length (to_sre false x) false 0 false 1) as Ls. rewrite H0 in Ls.
  destruct (subs false 0 false 1 (to_sre false x)); [reflexivity | discriminate Ls].
Qed.

(* ------------------------------------------------------------------------------------------ *)
(** * Examples: (: ( * ($ (or #\a "bc"))) eos) on "xbca" (search) and on "bca" (match) *)

Example ex_run_vector_is_trace :
  run true NfaRun.ex_N [120%N; 98%N; 99%N; 97%N] = Some (Some [Some 1; Some 4; Some 3; Some 4]) /\
  exists i0 l qa j, i0 <= j /\ j <= 4 /\
    chain (n_tb NfaRun.ex_N) [120%N; 98%N; 99%N; 97%N] (n_start NfaRun.ex_N, i0) l /\
    last l (n_start NfaRun.ex_N, i0) = (qa, j) /\ is_accept (n_tb NfaRun.ex_N) qa /\
    [Some 1; Some 4; Some 3; Some 4] =
      trace (n_tb NfaRun.ex_N) (repeat None (n_nsave NfaRun.ex_N)) ((n_start NfaRun.ex_N, i0) :: l).
Proof.
  assert (E : run true NfaRun.ex_N [120%N; 98%N; 99%N; 97%N] = Some (Some [Some 1; Some 4; Some 3; Some 4]))
    by (vm_compute; reflexivity).
  split; [exact E|].
  destruct (run_vector_is_trace _ _ _ _ E) as (i0 & l & qa & j & _ & _ & A & B & C & F & G & M).
  exists i0, l, qa, j. repeat (split; [assumption|]). exact M.
Qed.

Example ex_span0_valid :
  in_lang false (to_sre false NfaRun.ex_x) [120%N; 98%N; 99%N; 97%N] 1 4 /\
  in_lang false (to_sre false NfaRun.ex_x) [98%N; 99%N; 97%N] 0 3.
Proof.
  split.
  - assert (E : run true (compile_top NfaRun.ex_x) [120%N; 98%N; 99%N; 97%N] = Some (Some [Some 1; Some 4; Some 3; Some 4]))
      by (vm_compute; reflexivity).
    destruct (nfa_span0_valid NfaRun.ex_x _ _ _ eq_refl E) as (i & j & G0 & G1 & H & _).
    unfold getm in G0, G1. cbn [nth] in G0, G1. injection G0 as <-. injection G1 as <-. exact H.
  - assert (E : run false (compile_top NfaRun.ex_x) [98%N; 99%N; 97%N] = Some (Some [Some 0; Some 3; Some 2; Some 3]))
      by (vm_compute; reflexivity).
    destruct (nfa_span0_valid NfaRun.ex_x _ _ _ eq_refl E) as (i & j & G0 & G1 & H & _).
    unfold getm in G0, G1. cbn [nth] in G0, G1. injection G0 as <-. injection G1 as <-. exact H.
Qed.

(** without submatch: (: (w/nocapture ($ ( * (or #\a "bc")))) (? #\c) eos), a non-greedy variant, on "xbcac" *)
Definition exv_x (g : bool) : xsre :=
  XSeq (XNoCap (XSeq (XSub (XSeq (XStar g (XSeq (XAlt (XChr (CsChar 97%N)) (XAlt (XStr [98%N; 99%N]) XFail)) XEps)) XEps)) XEps))
       (XSeq (XOpt true (XSeq (XChr (CsChar 99%N)) XEps)) (XSeq (XAnc Eos) XEps)).

Example ex_submatch_spans_valid_partial :
  nfa_spans true (exv_x true) [120%N; 98%N; 99%N; 97%N; 99%N] = Some [Some (1, 5)] /\
  check_spans (to_sre false (exv_x true)) [120%N; 98%N; 99%N; 97%N; 99%N] [Some (1, 5)] = true /\
  forall b s spans, nfa_spans b (exv_x false) s = Some spans -> check_spans (to_sre false (exv_x false)) s spans = true.
Proof.
  assert (E : nfa_spans true (exv_x true) [120%N; 98%N; 99%N; 97%N; 99%N] = Some [Some (1, 5)]) by (vm_compute; reflexivity).
  split; [exact E|]. split.
  - exact (nfa_submatch_spans_valid_partial (exv_x true) _ _ _ eq_refl eq_refl E).
  - intros b s spans. exact (nfa_submatch_spans_valid_partial (exv_x false) s b spans eq_refl eq_refl).
Qed.
