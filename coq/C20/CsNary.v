(** C20 -- the n-ary spellings of character classes used by the round-4 streams of props/C20.py:
    [(or A B ...)] printed flat, the string-list form [("c1c2...")] and [(/ lo hi lo hi ...)] are given to the
    model as a LEFT-NESTED binary union ([cs_bin] in props/C20.py).  What that union denotes: *)
From ChibiV Require Import C20.Re.

(** [(or x y1 y2 ...)] as the plugin prints it for the model *)
Definition cs_union (x : cset) (ys : list cset) : cset := fold_left CsOr ys x.
(** [("c d1 d2 ...")] / [(or c d1 d2 ...)] over single characters *)
Definition cs_chars (c : char) (ds : list char) : cset := cs_union (CsChar c) (map CsChar ds).
(** [(/ lo hi lo1 hi1 ...)] *)
Definition cs_ranges (lo hi : char) (rs : list (char * char)) : cset :=
  cs_union (CsRange lo hi) (map (fun p => CsRange (fst p) (snd p)) rs).

Lemma cs_union_in ci c : forall ys x,
  cs_in ci (cs_union x ys) c <-> exists a, In a (x :: ys) /\ cs_in ci a c.
Proof.
  induction ys as [|y ys IH]; intro x; unfold cs_union in *; cbn [fold_left].
  - split.
    + intro H. exists x. split; [left; reflexivity | exact H].
    + intros [a [[<- | []] H]]. exact H.
  - rewrite IH. cbn [cs_in]. split.
    + intros [a [[<- | Hin] H]].
      * cbn [cs_in] in H. destruct H as [H | H].
        -- exists x. split; [left; reflexivity | exact H].
        -- exists y. split; [right; left; reflexivity | exact H].
      * exists a. split; [right; right; exact Hin | exact H].
    + intros [a [[<- | [<- | Hin]] H]].
      * exists (CsOr x y). split; [left; reflexivity | cbn [cs_in]; left; exact H].
      * exists (CsOr x y). split; [left; reflexivity | cbn [cs_in]; right; exact H].
      * exists a. split; [right; exact Hin | exact H].
Qed.

Lemma cs_union_mem ci c : forall ys x,
  cs_mem ci (cs_union x ys) c = existsb (fun a => cs_mem ci a c) (x :: ys).
Proof.
  induction ys as [|y ys IH]; intro x; unfold cs_union in *; cbn [fold_left existsb].
  - rewrite orb_false_r. reflexivity.
  - rewrite IH. cbn [existsb cs_mem]. rewrite orb_assoc. reflexivity.
Qed.

(** case-sensitively a class of single characters has exactly its characters as members, whatever the order of insertion:
    this is the fact the "charclass-tree" stream tests lib/chibi/iset against, member by member and neighbour by neighbour *)
Lemma cs_chars_members c ds d : cs_in false (cs_chars c ds) d <-> In d (c :: ds).
Proof.
  unfold cs_chars. rewrite cs_union_in. split.
  - intros [a [Hin H]]. cbn [In] in Hin. destruct Hin as [<- | Hin].
    + cbn [cs_in] in H. destruct H as [-> | [Hf _]]; [left; reflexivity | discriminate Hf].
    + apply in_map_iff in Hin. destruct Hin as [e [<- He]]. cbn [cs_in] in H.
      destruct H as [-> | [Hf _]]; [right; exact He | discriminate Hf].
  - intros [<- | Hin].
    + exists (CsChar c). split; [left; reflexivity | cbn [cs_in]; left; reflexivity].
    + exists (CsChar d). split; [right; apply in_map; exact Hin | cbn [cs_in]; left; reflexivity].
Qed.

Lemma cs_chars_permutation_invariant c ds c' ds' d :
  (forall x, In x (c :: ds) <-> In x (c' :: ds')) ->
  (cs_in false (cs_chars c ds) d <-> cs_in false (cs_chars c' ds') d).
Proof. intro H. rewrite !cs_chars_members. apply H. Qed.

Lemma cs_ranges_members lo hi rs d :
  cs_in false (cs_ranges lo hi rs) d <-> exists p, In p ((lo, hi) :: rs) /\ (fst p <= d /\ d <= snd p)%N.
Proof.
  unfold cs_ranges. rewrite cs_union_in. split.
  - intros [a [Hin H]]. cbn [In] in Hin. destruct Hin as [<- | Hin].
    + cbn [cs_in] in H. destruct H as [e [Hr [-> | [Hf _]]]]; [|discriminate Hf].
      exists (lo, hi). split; [left; reflexivity | exact Hr].
    + apply in_map_iff in Hin. destruct Hin as [p [<- Hp]]. cbn [cs_in] in H.
      destruct H as [e [Hr [-> | [Hf _]]]]; [|discriminate Hf].
      exists p. split; [right; exact Hp | exact Hr].
  - intros [p [[<- | Hin] Hr]].
    + exists (CsRange lo hi). split; [left; reflexivity|]. cbn [cs_in]. exists d. split; [exact Hr | left; reflexivity].
    + exists (CsRange (fst p) (snd p)). split.
      * right. apply in_map_iff. exists p. split; [reflexivity | exact Hin].
      * cbn [cs_in]. exists d. split; [exact Hr | left; reflexivity].
Qed.

(** non-vacuity: the class of seeded change C20-c1, in its order of insertion, has U+02BC and not U+02BD *)
Example ex_cs_chars :
  cs_mem false (cs_chars 1000%N [500; 700; 950; 830; 710; 690]%N) 700%N = true /\
  cs_mem false (cs_chars 1000%N [500; 700; 950; 830; 710; 690]%N) 701%N = false.
Proof. split; vm_compute; reflexivity. Qed.
