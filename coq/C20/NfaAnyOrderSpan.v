(** C20 — item 5 for every walking order of the posse: the span [regexp-search] reports is the
    leftmost-longest substring of the language, whatever order the searchers are walked in.
    The invariants of NfaSpan.v speak of [In] and [pfind] of the walked list only; [reorder] preserves both. *)
From ChibiV Require Import C20.Re C20.Proofs C20.Nfa C20.NfaSem C20.NfaOrd C20.NfaRun C20.NfaThompson C20.NfaSpan
                           C20.NfaAnyOrder.
From Coq Require Import List Arith Lia Bool.
Import ListNotations.
Local Open Scope nat_scope.
Arguments match_ge : simpl never.

Section SpanOrd.
Variable N : nfa.
Variable s : list char.
Notation tb := (n_tb N).
Notation h := (n_start N).
Hypothesis D : slot1_discipline N = true.
Hypothesis Hst : exists st, nth_error tb h = Some st /\ s_kind st = KEps /\ s_match st = Some 0 /\ s_rule st = RLeft.
Hypothesis H0only : forall q st, nth_error tb q = Some st -> s_match st = Some 0 -> q = h.
Hypothesis Hnop : forall q st q', nth_error tb q = Some st -> s_n1 st = Some q' \/ s_n2 st = Some q' -> q' <> h.
Hypothesis Hng : existsb (Nat.eqb 1) (n_ngi N) = false.

Theorem loop_ord_best ords s1 acc :
  loop_ord ords true N s (length s) 0 [] None = Some (s1, acc) ->
  (forall m, acc = Some m -> exists a e, AV a e m /\ e <= length s /\
     exists qa, is_accept tb qa /\ path tb s (h, a) (qa, e)) /\
  (forall b j qa, j <= length s -> path tb s (h, b) (qa, j) -> is_accept tb qa ->
     exists m a e, acc = Some m /\ AV a e m /\ better a e b j).
Proof.
  intros E.
  pose (P := fun (i : nat) (p : posse) (a : option mvec) => PS N s i p /\ PDe N s i p /\ AccS N s i a /\ AccDe N s i a).
  pose (Q := fun (i : nat) (p : posse) (a : option mvec) => PS N s i p /\ PDa N s i p /\ AccS N s i a /\ AccDa N s i a).
  assert (Fin : AccS N s (length s) acc /\ AccDa N s (length s) acc).
  { destruct (loop_ord_ind true N s P Q) with (3 := Nat.add_0_r (length s)) (5 := E)
      as (j & Lj & (A1 & A2 & A3 & A4) & Fin).
    - intros i p a p' a' Hi (H1 & H2 & H3 & H4) ES. cbn [orb negb] in ES.
      exact (start_inv N s D Hst H0only Hnop Hng i p a p' a' ES H1 H2 H3 H4).
    - intros i ch ord p a p2 a2 Ech (H1 & H2 & H3 & H4) _ ESA. cbn [negb] in ESA.
      assert (H1' : PS N s i (reorder ord p)) by (intros q m H; apply (H1 q m); apply (reorder_In ord p); exact H).
      assert (H2' : PDa N s i (reorder ord p)).
      { intros q b K Hp. destruct (H2 q b K Hp) as (b' & (m & F & G) & L). exists b'. split; [|exact L].
        exists m. split; [rewrite pfind_reorder; exact F | exact G]. }
      exact (step_inv N s D Hst H0only Hnop Hng i ch _ a p2 a2 Ech ESA H1' H2' H3 H4).
    - split; [intros q m []|]. split; [intros q b _ L; lia|]. split; [intros m H; discriminate H | intros b j qa L; lia].
    - destruct Fin as [->|[Lt EX]]; [split; assumption|].
      unfold exitc in EX. cbn [andb negb orb] in EX. rewrite orb_false_r in EX.
      split; [eapply AccS_mono; [|exact A3]; lia|].
      intros b j0 qa Lj0 P0 Ha. destruct (le_lt_dec j0 j) as [Lji|Lji]; [apply (A4 b j0 qa Lji P0 Ha)|].
      unfold early_exit in EX. destruct acc as [a|]; [|discriminate EX].
      destruct (A3 a eq_refl) as (a1 & e1 & Aa & W1 & W2 & _).
      rewrite (proj1 Aa) in EX. rewrite forallb_forall in EX.
      exists a, a1, e1. split; [reflexivity|]. split; [exact Aa|]. left.
      destruct (le_lt_dec b j) as [Lb|Lb]; [|lia].
      assert (L1 : snd (h, b) <= j) by (cbn [snd]; exact Lb).
      assert (L2 : j < snd (qa, j0)) by (cbn [snd]; exact Lji).
      destruct (path_split N s _ _ P0 j L1 L2) as (qc & st & ci & cs & c & qn & P1 & Est & Ek & _).
      assert (K : isK N qc) by (exists st, ci, cs; split; assumption).
      destruct (A2 qc b K P1) as (bc & (mc & Fc & Gc) & Lc).
      specialize (EX (qc, mc) (pfind_In _ _ _ Fc)). cbn [snd] in EX. rewrite (proj2 Gc) in EX.
      apply Nat.ltb_lt in EX. lia. }
  destruct Fin as [A B]. split.
  - intros m Em. destruct (A m Em) as (a & e & Am & _ & Le & R). exists a, e. split; [exact Am|]. split; assumption.
  - exact B.
Qed.

End SpanOrd.

(** 5. the span [regexp-search] reports is the leftmost-longest substring of the language, for every order *)
Theorem nfa_search_span_leftmost_longest_any_order : forall ords x s, wf_x x = true -> ngs x = false ->
  match span0 (nfa_spans_ord ords true x s) with
  | Some (i, j) => in_lang false (to_sre false x) s i j /\
                   forall i' j', in_lang false (to_sre false x) s i' j' -> i < i' \/ (i = i' /\ j' <= j)
  | None => forall i j, ~ in_lang false (to_sre false x) s i j
  end.
Proof.
  intros ords x s Hw Hg.
  destruct (Shape.compile_top_slot0 x) as (S1 & S2 & S3 & S4). specialize (S4 Hg).
  pose proof (compile_top_slot1_discipline x) as D.
  unfold nfa_spans_ord, run_ord.
  destruct (loop_ord ords true (compile_top x) s (length s) 0 [] None) as [[s1 acc]|] eqn:E;
    [|exfalso; exact (loop_ord_total _ _ _ _ _ _ _ _ E)].
  destruct (loop_ord_best (compile_top x) s D S1 S2 S3 S4 ords s1 acc E) as [A B].
  cbn [orb]. destruct acc as [m|].
  - destruct (A m eq_refl) as (a & e & Am & Le & qa & Ha & Pa).
    pose proof (getm_some_len _ _ _ (proj2 Am)) as Lm. destruct (vec_shape m Lm) as [r Em].
    rewrite (proj1 Am), (proj2 Am) in Em. rewrite Em. cbn [spans_of span0].
    pose proof (path_mono _ _ _ _ Pa) as Mo. cbn [snd] in Mo.
    split.
    + apply (in_lang_iff_path x s a e Hw). split; [lia|]. exists qa. split; assumption.
    + intros i' j' H. apply (in_lang_iff_path x s i' j' Hw) in H. destruct H as [Hi (q & Pq & Hq)].
      assert (Hj : j' <= length s) by (apply (path_bound _ _ _ _ Pq); exact Hi).
      destruct (B i' j' q Hj Pq Hq) as (m' & a' & e' & Em' & Am' & Bt). injection Em' as <-.
      destruct (AV_inj _ _ _ _ _ Am Am') as [<- <-]. exact Bt.
  - cbn [span0]. intros i j H. apply (in_lang_iff_path x s i j Hw) in H. destruct H as [Hi (q & Pq & Hq)].
    assert (Hj : j <= length s) by (apply (path_bound _ _ _ _ Pq); exact Hi).
    destruct (B i j q Hj Pq Hq) as (m' & a' & e' & Em' & _). discriminate Em'.
Qed.

(** (seq (+ (or "ab" #\a)) (? #\c)) on "xaababcab", every step walked in reversed order (with a repeated and an
    absent id): the posses are filled in another order than by [Nfa.loop], the reported span is the same *)
Example ex_order_matters :
  loop_tr_ord (NfaAnyOrder.exo_all_rev 9) true (compile_top exs_x) exs_s 9 0 [] None
  <> loop_tr_ord [] true (compile_top exs_x) exs_s 9 0 [] None.
Proof. vm_compute. discriminate. Qed.

Example ex_search_span_any_order :
  span0 (nfa_spans_ord (NfaAnyOrder.exo_all_rev 9) true exs_x exs_s) = Some (1, 7) /\
  in_lang false (to_sre false exs_x) exs_s 1 7 /\
  forall i' j', in_lang false (to_sre false exs_x) exs_s i' j' -> 1 < i' \/ (1 = i' /\ j' <= 7).
Proof.
  assert (E : span0 (nfa_spans_ord (NfaAnyOrder.exo_all_rev 9) true exs_x exs_s) = Some (1, 7)) by (vm_compute; reflexivity).
  pose proof (nfa_search_span_leftmost_longest_any_order (NfaAnyOrder.exo_all_rev 9) exs_x exs_s eq_refl eq_refl) as H.
  rewrite E in H. split; [exact E | exact H].
Qed.
