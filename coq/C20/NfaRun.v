(** C20 — the simulation of Nfa.v ([adv] / [advance] / [step_all] / [loop] / [run]) against the declarative
    path semantics of NfaSem.v.
      Part 1: the closure never runs out of fuel, every function of the simulation is total, and a posse
              never holds more searchers than the table has (character) states.
      Part 2: the simulation reports an accept exactly when an accepting path exists. *)
From ChibiV Require Import C20.Re C20.Nfa C20.NfaSem.
From Coq Require Import List Arith Lia Bool.
Import ListNotations.
Local Open Scope nat_scope.
Arguments match_ge : simpl never.

(* ------------------------------------------------------------------------------------------ *)
(** * Part 1: posse keys, fuel, totality *)

Definition keys (p : posse) : list nat := map fst p.

Lemma pfind_none_keys p q : pfind p q = None <-> ~ In q (keys p).
Proof.
  induction p as [|[q' m] r IH]; cbn [pfind keys map fst In].
  - tauto.
  - destruct (q' =? q) eqn:E.
    + apply Nat.eqb_eq in E. split; [discriminate | intros H; exfalso; apply H; left; exact E].
    + apply Nat.eqb_neq in E. fold (keys r). rewrite IH. tauto.
Qed.

Lemma keys_pmerge ng p q m : keys (pmerge ng p q m) = keys p.
Proof.
  induction p as [|[q' m'] r IH]; cbn [pmerge keys map fst]; [reflexivity|].
  destruct (q' =? q); cbn [map fst]; [reflexivity|]. f_equal. exact IH.
Qed.

Lemma keys_padd_some ng p q m : In q (keys p) -> keys (padd ng p q m) = keys p.
Proof.
  intros H. unfold padd. destruct (pfind p q) eqn:E.
  - apply keys_pmerge.
  - apply pfind_none_keys in E. contradiction.
Qed.

Lemma keys_padd_none ng p q m : ~ In q (keys p) -> keys (padd ng p q m) = keys p ++ [q].
Proof.
  intros H. unfold padd. apply pfind_none_keys in H. rewrite H. unfold keys. rewrite map_app. reflexivity.
Qed.

Lemma In_keys_padd ng p q m x : In x (keys (padd ng p q m)) <-> In x (keys p) \/ x = q.
Proof.
  destruct (in_dec Nat.eq_dec q (keys p)) as [H|H].
  - rewrite (keys_padd_some ng p q m H). split; [tauto|]. intros [A|A]; [exact A | subst; exact H].
  - rewrite (keys_padd_none ng p q m H). rewrite in_app_iff. cbn [In]. intuition.
Qed.

Lemma NoDup_snoc (l : list nat) q : NoDup l -> ~ In q l -> NoDup (l ++ [q]).
Proof.
  intros ND H. induction ND as [|x l Hx ND IH]; cbn [app].
  - constructor; [intros []|constructor].
  - constructor.
    + rewrite in_app_iff. cbn [In]. intros [A|[A|[]]]; [contradiction|]. subst. apply H. left. reflexivity.
    + apply IH. intros A. apply H. right. exact A.
Qed.

Lemma NoDup_keys_padd ng p q m : NoDup (keys p) -> NoDup (keys (padd ng p q m)).
Proof.
  intros ND. destruct (in_dec Nat.eq_dec q (keys p)) as [H|H].
  - rewrite (keys_padd_some ng p q m H). exact ND.
  - rewrite (keys_padd_none ng p q m H). apply NoDup_snoc; assumption.
Qed.

Lemma nodup_bound (l : list nat) n : NoDup l -> (forall q, In q l -> q < n) -> length l <= n.
Proof.
  intros ND H. rewrite <- (seq_length n 0). apply NoDup_incl_length; [exact ND|].
  intros q Hq. apply in_seq. specialize (H q Hq). lia.
Qed.

Lemma memb_In q l : memb q l = true <-> In q l.
Proof.
  unfold memb. rewrite existsb_exists. split.
  - intros [x [Hx E]]. apply Nat.eqb_eq in E. subst. exact Hx.
  - intros H. exists q. split; [exact H | apply Nat.eqb_refl].
Qed.

Lemma memb_false q l : memb q l = false <-> ~ In q l.
Proof. rewrite <- memb_In. destruct (memb q l); split; congruence. Qed.

Lemma succs_length (st : state) (m : mvec) :
  length (map (fun q' => (q', m)) (opt_list (s_n1 st) ++ opt_list (s_n2 st))) <= 2.
Proof. rewrite map_length, app_length. destruct (s_n1 st), (s_n2 st); cbn; lia. Qed.

Lemma adv_fuel_gen N p n i atend whole : forall fuel stk new seen acc,
  NoDup seen -> (forall q, In q seen -> q < length (n_tb N)) ->
  2 * (length (n_tb N) - length seen) + length stk < fuel ->
  adv fuel N p n i atend whole stk new seen acc <> None.
Proof.
  induction fuel as [|fuel IH]; intros stk new seen acc ND Hlt Hm; [lia|].
  destruct stk as [|[q m0] stk']; cbn [adv]; [discriminate|].
  cbn [length] in Hm.
  destruct (nth_error (n_tb N) q) as [st|] eqn:Eq.
  2:{ apply IH; auto; lia. }
  assert (Push : memb q seen = false ->
            adv fuel N p n i atend whole
              (map (fun q' => (q', update_match st m0 i)) (opt_list (s_n1 st) ++ opt_list (s_n2 st)) ++ stk')
              new (q :: seen) acc <> None).
  { intros Em. apply memb_false in Em.
    assert (ND' : NoDup (q :: seen)) by (constructor; assumption).
    assert (Hlt' : forall q0, In q0 (q :: seen) -> q0 < length (n_tb N)).
    { intros q0 [A|A]; [subst q0; apply nth_error_Some; congruence | apply Hlt; exact A]. }
    pose proof (nodup_bound _ _ ND' Hlt') as B. cbn [length] in B.
    apply IH; [exact ND' | exact Hlt' |].
    rewrite app_length. pose proof (succs_length st (update_match st m0 i)) as SL.
    cbn [length]. lia. }
  destruct (s_kind st) eqn:Ek; cbv iota.
  - apply IH; auto; lia.
  - apply IH; auto; lia.
  - destruct (memb q seen) eqn:Em; [apply IH; auto; lia|].
    destruct (anchor_ok k p n); [apply Push; reflexivity | apply IH; auto; lia].
  - destruct (memb q seen) eqn:Em; [apply IH; auto; lia|].
    apply Push; reflexivity.
Qed.

Theorem adv_fuel_suffices : forall N p n i atend whole sr new acc,
  adv (adv_fuel N) N p n i atend whole [sr] new [] acc <> None.
Proof.
  intros. apply adv_fuel_gen.
  - constructor.
  - intros q [].
  - unfold adv_fuel. cbn [length]. lia.
Qed.

Corollary advance_total N s i whole sr new acc : advance N s i whole sr new acc <> None.
Proof. unfold advance. apply adv_fuel_suffices. Qed.

Corollary step_all_total N s i2 whole ch : forall l new acc, step_all N s i2 whole ch l new acc <> None.
Proof.
  induction l as [|[q m] l IH]; intros new acc; cbn [step_all]; [discriminate|].
  destruct (nth_error (n_tb N) q) as [[[| ci cs | k |] sm sr [q'|] n2]|]; try apply IH.
  destruct (cs_mem ci cs ch); [|apply IH].
  destruct (advance N s i2 whole (q', m) new acc) as [[new' acc']|] eqn:E; [apply IH|].
  exfalso. exact (advance_total _ _ _ _ _ _ _ E).
Qed.

Corollary loop_total search N s : forall k i s1 acc, loop search N s k i s1 acc <> None.
Proof.
  induction k as [|k IH]; intros i s1 acc; cbn [loop].
  - destruct (search || (i =? 0)).
    + destruct (advance N s i (negb search) (start_searcher N) s1 acc) as [[a b]|] eqn:E; [discriminate|].
      exfalso. exact (advance_total _ _ _ _ _ _ _ E).
    + discriminate.
  - assert (K : forall s1 acc,
       (if (search && early_exit s1 acc) || (negb search && is_nil s1) then Some (s1, acc)
        else match nth_error s i with
             | None => Some (s1, acc)
             | Some ch => match step_all N s (S i) (negb search) ch s1 [] acc with
                          | None => None
                          | Some (s2, acc') => loop search N s k (S i) s2 acc'
                          end
             end) <> None).
    { intros s1' acc'. destruct ((search && early_exit s1' acc') || (negb search && is_nil s1')); [discriminate|].
      destruct (nth_error s i) as [ch|]; [|discriminate].
      destruct (step_all N s (S i) (negb search) ch s1' [] acc') as [[s2 acc2]|] eqn:E; [apply IH|].
      exfalso. exact (step_all_total _ _ _ _ _ _ _ _ E). }
    destruct (search || (i =? 0)).
    + destruct (advance N s i (negb search) (start_searcher N) s1 acc) as [[a b]|] eqn:E; [apply K|].
      exfalso. exact (advance_total _ _ _ _ _ _ _ E).
    + apply K.
Qed.

Theorem run_total search N s : run search N s <> None.
Proof.
  unfold run. destruct (loop search N s (length s) 0 [] None) as [[a b]|] eqn:E; [discriminate|].
  exfalso. exact (loop_total _ _ _ _ _ _ _ E).
Qed.

(** ** The posse holds at most one searcher per character state *)

Definition posse_ok (N : nfa) (p : posse) : Prop :=
  NoDup (keys p) /\
  forall q, In q (keys p) -> exists st ci cs, nth_error (n_tb N) q = Some st /\ s_kind st = KChar ci cs.

Lemma posse_ok_nil N : posse_ok N [].
Proof. split; [constructor | intros q []]. Qed.

Lemma posse_ok_padd N p q m st ci cs :
  nth_error (n_tb N) q = Some st -> s_kind st = KChar ci cs -> posse_ok N p -> posse_ok N (padd (n_ngi N) p q m).
Proof.
  intros Eq Ek [ND H]. split; [apply NoDup_keys_padd; exact ND|].
  intros x Hx. apply In_keys_padd in Hx. destruct Hx as [Hx| ->]; [apply H; exact Hx|].
  exists st, ci, cs. split; assumption.
Qed.

Lemma posse_ok_length N p : posse_ok N p -> length p <= length (n_tb N).
Proof.
  intros [ND H]. rewrite <- (map_length fst p). apply nodup_bound; [exact ND|].
  intros q Hq. destruct (H q Hq) as (st & ci & cs & E & _). apply nth_error_Some. congruence.
Qed.

Lemma adv_posse_ok N p n i atend whole : forall fuel stk new seen acc new' acc',
  posse_ok N new -> adv fuel N p n i atend whole stk new seen acc = Some (new', acc') -> posse_ok N new'.
Proof.
  induction fuel as [|fuel IH]; intros stk new seen acc new' acc' OK E.
  - destruct stk as [|[q m0] stk']; cbn [adv] in E; [|discriminate]. injection E as <- <-. exact OK.
  - destruct stk as [|[q m0] stk']; cbn [adv] in E; [injection E as <- <-; exact OK|].
    destruct (nth_error (n_tb N) q) as [st|] eqn:Eq; [|eapply IH; eassumption].
    destruct (s_kind st) eqn:Ek; cbv iota in E.
    + eapply IH; eassumption.
    + eapply IH; [|exact E]. eapply posse_ok_padd; eassumption.
    + destruct (memb q seen); [eapply IH; eassumption|].
      destruct (anchor_ok k p n); eapply IH; eassumption.
    + destruct (memb q seen); eapply IH; eassumption.
Qed.

Lemma advance_posse_ok N s i whole sr new acc new' acc' :
  posse_ok N new -> advance N s i whole sr new acc = Some (new', acc') -> posse_ok N new'.
Proof. unfold advance. apply adv_posse_ok. Qed.

Lemma step_all_posse_ok N s i2 whole ch : forall l new acc new' acc',
  posse_ok N new -> step_all N s i2 whole ch l new acc = Some (new', acc') -> posse_ok N new'.
Proof.
  induction l as [|[q m] l IH]; intros new acc new' acc' OK E; cbn [step_all] in E.
  - injection E as <- <-. exact OK.
  - destruct (nth_error (n_tb N) q) as [[[| ci cs | k |] sm sr [q'|] n2]|]; try (eapply IH; eassumption).
    destruct (cs_mem ci cs ch); [|eapply IH; eassumption].
    destruct (advance N s i2 whole (q', m) new acc) as [[new1 acc1]|] eqn:EA; [|discriminate].
    eapply IH; [|exact E]. eapply advance_posse_ok; eassumption.
Qed.

Lemma loop_posse_ok search N s : forall k i s1 acc s1' acc',
  posse_ok N s1 -> loop search N s k i s1 acc = Some (s1', acc') -> posse_ok N s1'.
Proof.
  induction k as [|k IH]; intros i s1 acc s1' acc' OK E; cbn [loop] in E.
  - destruct (search || (i =? 0)).
    + destruct (advance N s i (negb search) (start_searcher N) s1 acc) as [[a b]|] eqn:EA; [|discriminate].
      injection E as <- <-. eapply advance_posse_ok; eassumption.
    + injection E as <- <-. exact OK.
  - assert (K : forall s0 acc0, posse_ok N s0 ->
       (if (search && early_exit s0 acc0) || (negb search && is_nil s0) then Some (s0, acc0)
        else match nth_error s i with
             | None => Some (s0, acc0)
             | Some ch => match step_all N s (S i) (negb search) ch s0 [] acc0 with
                          | None => None
                          | Some (s2, acc2) => loop search N s k (S i) s2 acc2
                          end
             end) = Some (s1', acc') -> posse_ok N s1').
    { intros s0 acc0 OK0 E0.
      destruct ((search && early_exit s0 acc0) || (negb search && is_nil s0)); [injection E0 as <- <-; exact OK0|].
      destruct (nth_error s i) as [ch|]; [|injection E0 as <- <-; exact OK0].
      destruct (step_all N s (S i) (negb search) ch s0 [] acc0) as [[s2 acc2]|] eqn:ES; [|discriminate].
      eapply IH; [|exact E0]. eapply step_all_posse_ok; [apply posse_ok_nil | exact ES]. }
    destruct (search || (i =? 0)).
    + destruct (advance N s i (negb search) (start_searcher N) s1 acc) as [[a b]|] eqn:EA; [|discriminate].
      eapply K; [|exact E]. eapply advance_posse_ok; eassumption.
    + eapply K; eassumption.
Qed.

(** the searchers of every posse the simulation builds sit on distinct character states of the table *)
Theorem posse_keys_bounded search N s s1 acc :
  loop search N s (length s) 0 [] None = Some (s1, acc) ->
  NoDup (keys s1) /\
  (forall q, In q (keys s1) -> exists st ci cs, nth_error (n_tb N) q = Some st /\ s_kind st = KChar ci cs) /\
  length s1 <= length (n_tb N).
Proof.
  intros E. pose proof (loop_posse_ok _ _ _ _ _ _ _ _ _ (posse_ok_nil N) E) as OK.
  split; [apply OK|]. split; [apply OK|]. apply posse_ok_length. exact OK.
Qed.

Theorem adv_keys_bounded N p n i atend whole fuel stk new seen acc new' acc' :
  posse_ok N new -> adv fuel N p n i atend whole stk new seen acc = Some (new', acc') ->
  posse_ok N new' /\ length new' <= length (n_tb N).
Proof. intros OK E. pose proof (adv_posse_ok _ _ _ _ _ _ _ _ _ _ _ _ _ OK E) as OK'. split; [exact OK' | apply posse_ok_length; exact OK']. Qed.

(* ------------------------------------------------------------------------------------------ *)
(** * Part 2: the simulation against the path semantics *)

Section Sim.
Variable N : nfa.
Variable s : list char.
Notation tb := (n_tb N).

Lemma path_refl a : path tb s a a.
Proof. constructor. Qed.

Lemma path_step a b c : step tb s a b -> path tb s b c -> path tb s a c.
Proof. intros H1 H2. econstructor; eassumption. Qed.

Lemma path_trans a b c : path tb s a b -> path tb s b c -> path tb s a c.
Proof. unfold path. induction 1 as [|x y z Hxy Hyz IH]; intros H; [exact H|]. econstructor; [exact Hxy | apply IH; exact H]. Qed.

Lemma path_snoc a b c : path tb s a b -> step tb s b c -> path tb s a c.
Proof. intros H1 H2. eapply path_trans; [exact H1|]. eapply path_step; [exact H2 | apply path_refl]. Qed.

Lemma step_mono a b : step tb s a b -> snd a <= snd b.
Proof. destruct 1; cbn [snd]; lia. Qed.

Lemma path_mono a b : path tb s a b -> snd a <= snd b.
Proof. unfold path. induction 1 as [|x y z Hxy Hyz IH]; [lia|]. apply step_mono in Hxy. lia. Qed.

Lemma step_bound a b : step tb s a b -> snd a <= length s -> snd b <= length s.
Proof.
  destruct 1 as [| |q i st ci cs c q' E1 E2 E3 E4 E5]; cbn [snd]; try lia.
  intros _. apply Nat.le_succ_l. apply nth_error_Some. congruence.
Qed.

Lemma path_bound a b : path tb s a b -> snd a <= length s -> snd b <= length s.
Proof. unfold path. induction 1 as [|x y z Hxy Hyz IH]; [tauto|]. intros H. apply IH. eapply step_bound; eassumption. Qed.

Lemma estep_inv q q' i : step tb s (q, i) (q', i) ->
  exists st, nth_error tb q = Some st /\ guard_ok s st i = true /\ (s_n1 st = Some q' \/ s_n2 st = Some q').
Proof.
  intros H. inversion H; subst.
  - eexists; split; [eassumption|]. split; [assumption | left; assumption].
  - eexists; split; [eassumption|]. split; [assumption | right; assumption].
  - exfalso. lia.
Qed.

(** a path that advances over position [i] takes a character edge there *)
Lemma path_split a b : path tb s a b -> forall i, snd a <= i -> i < snd b ->
  exists qc st ci cs c qn, path tb s a (qc, i) /\ nth_error tb qc = Some st /\ s_kind st = KChar ci cs /\
    nth_error s i = Some c /\ cs_mem ci cs c = true /\ s_n1 st = Some qn /\ path tb s (qn, S i) b.
Proof.
  unfold path. induction 1 as [x|x y z Hxy Hyz IH]; intros i H1 H2; [lia|].
  pose proof Hxy as Hxy'.
  destruct Hxy as [q ix st q' E1 E2 E3|q ix st q' E1 E2 E3|q ix st ci cs c q' E1 E2 E3 E4 E5]; cbn [snd] in *.
  - destruct (IH i H1 H2) as (qc & st' & ci & cs & c & qn & P1 & R). exists qc, st', ci, cs, c, qn.
    split; [|exact R]. eapply path_step; eassumption.
  - destruct (IH i H1 H2) as (qc & st' & ci & cs & c & qn & P1 & R). exists qc, st', ci, cs, c, qn.
    split; [|exact R]. eapply path_step; eassumption.
  - destruct (Nat.eq_dec ix i) as [->|NE].
    + exists q, st, ci, cs, c, q'. split; [apply path_refl|]. repeat (split; [assumption|]). exact Hyz.
    + assert (H1' : S ix <= i) by lia.
      destruct (IH i H1' H2) as (qc & st' & ci' & cs' & c' & qn & P1 & R). exists qc, st', ci', cs', c', qn.
      split; [|exact R]. eapply path_step; eassumption.
Qed.

(** the test that lets an accept count at position [i] (regexp.scm:417-419) *)
Definition cond (whole : bool) (i : nat) : bool := negb whole || (length s <=? i).

(** ** One closure: soundness.  [P] = any set of states closed under the guarded epsilon edges at [i]. *)
Lemma adv_sound i whole (P : nat -> Prop) :
  (forall q q', P q -> step tb s (q, i) (q', i) -> P q') ->
  forall fuel stk new seen acc new' acc',
  adv fuel N (prevc s i) (nth_error s i) i (length s <=? i) whole stk new seen acc = Some (new', acc') ->
  (forall q, In q (map fst stk) -> P q) ->
  (forall q, In q (keys new) -> P q) ->
  (forall q, In q (keys new') -> P q) /\
  (acc' <> None -> acc <> None \/ (cond whole i = true /\ exists qa, P qa /\ is_accept tb qa)).
Proof.
  intros Pcl. induction fuel as [|fuel IH]; intros stk new seen acc new' acc' E Hstk Hnew.
  - destruct stk as [|[q m0] stk']; cbn [adv] in E; [|discriminate]. injection E as <- <-. split; [exact Hnew | tauto].
  - destruct stk as [|[q m0] stk']; cbn [adv] in E; [injection E as <- <-; split; [exact Hnew | tauto]|].
    cbn [map fst] in Hstk.
    assert (Hq : P q) by (apply Hstk; left; reflexivity).
    assert (Hstk' : forall x, In x (map fst stk') -> P x) by (intros x Hx; apply Hstk; right; exact Hx).
    destruct (nth_error tb q) as [st|] eqn:Eq; [|eapply IH; eassumption].
    match goal with |- ?G =>
      assert (Push : guard_ok s st i = true -> forall m,
                adv fuel N (prevc s i) (nth_error s i) i (length s <=? i) whole
                  (map (fun q' => (q', m)) (opt_list (s_n1 st) ++ opt_list (s_n2 st)) ++ stk')
                  new (q :: seen) acc = Some (new', acc') -> G) end.
    { intros G m E'. eapply IH; [exact E' | | exact Hnew].
      intros x Hx. rewrite map_app, map_map in Hx. cbn [fst] in Hx. rewrite map_id in Hx.
      apply in_app_iff in Hx. destruct Hx as [Hx|Hx]; [|apply Hstk'; exact Hx].
      apply in_app_iff in Hx. destruct Hx as [Hx|Hx].
      + destruct (s_n1 st) as [q1|] eqn:E1; cbn [opt_list In] in Hx; [|contradiction]. destruct Hx as [<-|[]].
        apply (Pcl q q1 Hq). eapply step_n1; eassumption.
      + destruct (s_n2 st) as [q1|] eqn:E1; cbn [opt_list In] in Hx; [|contradiction]. destruct Hx as [<-|[]].
        apply (Pcl q q1 Hq). eapply step_n2; eassumption. }
    destruct (s_kind st) eqn:Ek; cbv iota in E.
    + destruct (IH _ _ _ _ _ _ E Hstk' Hnew) as [A B]. split; [exact A|]. intros HA.
      destruct (B HA) as [B1|B1]; [|right; exact B1].
      unfold cond. destruct (negb whole || (length s <=? i)) eqn:C.
      * right. split; [reflexivity|]. exists q. split; [exact Hq|]. exists st. split; assumption.
      * left. cbn [andb] in B1. exact B1.
    + eapply IH; [exact E | exact Hstk' |]. intros x Hx. apply In_keys_padd in Hx.
      destruct Hx as [Hx| ->]; [apply Hnew; exact Hx | exact Hq].
    + destruct (memb q seen); [eapply IH; eassumption|].
      assert (G : guard_ok s st i = anchor_ok k (prevc s i) (nth_error s i)) by (unfold guard_ok; rewrite Ek; reflexivity).
      destruct (anchor_ok k (prevc s i) (nth_error s i)); [eapply Push; [exact G | exact E] | eapply IH; eassumption].
    + destruct (memb q seen); [eapply IH; eassumption|].
      assert (G : guard_ok s st i = true) by (unfold guard_ok; rewrite Ek; reflexivity).
      eapply Push; [exact G | exact E].
Qed.

(** ** One closure: completeness (the depth-first-search invariant) *)
Definition handled (i : nat) (whole : bool) (seen : list nat) (new : posse) (acc : option mvec) (q : nat) : Prop :=
  match nth_error tb q with
  | None => True
  | Some st =>
      match s_kind st with
      | KAccept => cond whole i = true -> acc <> None
      | KChar _ _ => In q (keys new)
      | _ => guard_ok s st i = true -> In q seen
      end
  end.

Lemma handled_mono i whole seen new acc seen' new' acc' q :
  incl seen seen' -> incl (keys new) (keys new') -> (acc <> None -> acc' <> None) ->
  handled i whole seen new acc q -> handled i whole seen' new' acc' q.
Proof.
  intros H1 H2 H3. unfold handled. destruct (nth_error tb q) as [st|]; [|tauto].
  destruct (s_kind st); auto.
Qed.

Lemma adv_complete i whole : forall fuel stk new seen acc new' acc',
  adv fuel N (prevc s i) (nth_error s i) i (length s <=? i) whole stk new seen acc = Some (new', acc') ->
  exists seen', incl seen seen' /\ incl (keys new) (keys new') /\ (acc <> None -> acc' <> None) /\
    (forall q, In q (map fst stk) -> handled i whole seen' new' acc' q) /\
    (forall q, In q seen' -> ~ In q seen ->
       forall q', step tb s (q, i) (q', i) -> handled i whole seen' new' acc' q').
Proof.
  induction fuel as [|fuel IH]; intros stk new seen acc new' acc' E.
  - destruct stk as [|[q m0] stk']; cbn [adv] in E; [|discriminate]. injection E as <- <-.
    exists seen. split; [apply incl_refl|]. split; [apply incl_refl|]. split; [tauto|].
    split; [intros q []|]. intros q H1 H2. contradiction.
  - destruct stk as [|[q m0] stk']; cbn [adv] in E.
    { injection E as <- <-.
      exists seen. split; [apply incl_refl|]. split; [apply incl_refl|]. split; [tauto|].
      split; [intros q []|]. intros q H1 H2. contradiction. }
    cbn [map fst].
    (* the common shape: the rest of the stack is run from a state at least as advanced, and [q] is handled *)
    assert (Rest : forall new1 acc1,
       incl (keys new) (keys new1) -> (acc <> None -> acc1 <> None) ->
       adv fuel N (prevc s i) (nth_error s i) i (length s <=? i) whole stk' new1 seen acc1 = Some (new', acc') ->
       (forall seen', incl seen seen' -> incl (keys new1) (keys new') -> (acc1 <> None -> acc' <> None) ->
                      handled i whole seen' new' acc' q) ->
       exists seen', incl seen seen' /\ incl (keys new) (keys new') /\ (acc <> None -> acc' <> None) /\
         (forall x, In x (q :: map fst stk') -> handled i whole seen' new' acc' x) /\
         (forall x, In x seen' -> ~ In x seen ->
            forall q', step tb s (x, i) (q', i) -> handled i whole seen' new' acc' q')).
    { intros new1 acc1 I1 I2 E1 Hq. destruct (IH _ _ _ _ _ _ E1) as (seen' & A1 & A2 & A3 & A4 & A5).
      exists seen'. split; [exact A1|]. split; [eapply incl_tran; eassumption|]. split; [tauto|].
      split; [|exact A5]. intros x [<-|Hx]; [apply Hq; assumption | apply A4; exact Hx]. }
    destruct (nth_error tb q) as [st|] eqn:Eq.
    2:{ refine (Rest _ _ _ _ E _); [apply incl_refl | tauto |].
        intros. unfold handled. rewrite Eq. exact I. }
    assert (Push : guard_ok s st i = true -> ~ In q seen -> forall m,
              adv fuel N (prevc s i) (nth_error s i) i (length s <=? i) whole
                (map (fun q' => (q', m)) (opt_list (s_n1 st) ++ opt_list (s_n2 st)) ++ stk')
                new (q :: seen) acc = Some (new', acc') ->
              (s_kind st = KEps \/ exists k, s_kind st = KAnchor k) ->
       exists seen', incl seen seen' /\ incl (keys new) (keys new') /\ (acc <> None -> acc' <> None) /\
         (forall x, In x (q :: map fst stk') -> handled i whole seen' new' acc' x) /\
         (forall x, In x seen' -> ~ In x seen ->
            forall q', step tb s (x, i) (q', i) -> handled i whole seen' new' acc' q')).
    { intros G NS m E' Hk. destruct (IH _ _ _ _ _ _ E') as (seen' & A1 & A2 & A3 & A4 & A5).
      assert (Hsucc : forall q', s_n1 st = Some q' \/ s_n2 st = Some q' -> handled i whole seen' new' acc' q').
      { intros q' Hq'. apply A4. rewrite map_app, map_map. cbn [fst]. rewrite map_id.
        apply in_app_iff. left. apply in_app_iff.
        destruct Hq' as [Hq'|Hq']; [left|right]; rewrite Hq'; left; reflexivity. }
      exists seen'. split; [intros x Hx; apply A1; right; exact Hx|]. split; [exact A2|]. split; [exact A3|].
      split.
      - intros x [<-|Hx].
        + unfold handled. rewrite Eq.
          assert (Hin : In q seen') by (apply A1; left; reflexivity).
          destruct Hk as [Hk|[k Hk]]; rewrite Hk; intros _; exact Hin.
        + apply A4. rewrite map_app. apply in_app_iff. right. exact Hx.
      - intros x Hx NSx q' Hst. destruct (Nat.eq_dec x q) as [->|NE].
        + apply estep_inv in Hst. destruct Hst as (st' & Est & _ & Hs).
          rewrite Eq in Est. injection Est as <-. apply Hsucc. exact Hs.
        + apply (A5 x Hx); [|exact Hst]. intros [A|A]; [apply NE; symmetry; exact A | apply NSx; exact A]. }
    destruct (s_kind st) eqn:Ek; cbv iota in E.
    + refine (Rest _ _ _ _ E _); [apply incl_refl | |].
      * intros HA. destruct ((negb whole || (length s <=? i)) && _); [discriminate | exact HA].
      * intros seen' _ _ H3. unfold handled. rewrite Eq, Ek. unfold cond. intros C. apply H3.
        rewrite C. cbn [andb]. destruct acc as [a|]; [destruct (match_ge (n_ngi N) 0 (update_match st m0 i) a)|]; discriminate.
    + refine (Rest _ _ _ _ E _).
      * intros x Hx. apply In_keys_padd. left. exact Hx.
      * tauto.
      * intros seen' _ H2 _. unfold handled. rewrite Eq, Ek. apply H2. apply In_keys_padd. right. reflexivity.
    + destruct (memb q seen) eqn:Em.
      { refine (Rest _ _ _ _ E _); [apply incl_refl | tauto |].
        intros seen' H1 _ _. unfold handled. rewrite Eq, Ek. intros _. apply H1. apply memb_In. exact Em. }
      assert (G : guard_ok s st i = anchor_ok k (prevc s i) (nth_error s i)) by (unfold guard_ok; rewrite Ek; reflexivity).
      destruct (anchor_ok k (prevc s i) (nth_error s i)).
      * eapply Push; [exact G | apply memb_false; exact Em | exact E | right; exists k; reflexivity].
      * refine (Rest _ _ _ _ E _); [apply incl_refl | tauto |].
        intros seen' _ _ _. unfold handled. rewrite Eq, Ek. rewrite G. discriminate.
    + destruct (memb q seen) eqn:Em.
      { refine (Rest _ _ _ _ E _); [apply incl_refl | tauto |].
        intros seen' H1 _ _. unfold handled. rewrite Eq, Ek. intros _. apply H1. apply memb_In. exact Em. }
      assert (G : guard_ok s st i = true) by (unfold guard_ok; rewrite Ek; reflexivity).
      eapply Push; [exact G | apply memb_false; exact Em | exact E | left; reflexivity].
Qed.

(** everything reachable from the searcher's state without consuming a character is recorded *)
Lemma closure_complete i whole fuel q0 m0 new acc new' acc' :
  adv fuel N (prevc s i) (nth_error s i) i (length s <=? i) whole [(q0, m0)] new [] acc = Some (new', acc') ->
  incl (keys new) (keys new') /\ (acc <> None -> acc' <> None) /\
  forall q, path tb s (q0, i) (q, i) ->
    (forall st ci cs, nth_error tb q = Some st -> s_kind st = KChar ci cs -> In q (keys new')) /\
    (is_accept tb q -> cond whole i = true -> acc' <> None).
Proof.
  intros E. destruct (adv_complete _ _ _ _ _ _ _ _ _ E) as (seen' & A1 & A2 & A3 & A4 & A5).
  split; [exact A2|]. split; [exact A3|].
  assert (Cl : forall a b, path tb s a b -> snd a = i -> snd b = i ->
               handled i whole seen' new' acc' (fst a) -> handled i whole seen' new' acc' (fst b)).
  { unfold path. induction 1 as [x|x y z Hxy Hyz IH]; intros Ha Hb Hh; [exact Hh|].
    pose proof (step_mono _ _ Hxy) as M1. pose proof (path_mono _ _ Hyz) as M2.
    assert (Hy : snd y = i) by lia.
    apply IH; [exact Hy | exact Hb |].
    destruct x as [qx ix], y as [qy iy]. cbn [fst snd] in *. subst ix iy.
    pose proof Hxy as Hxy'. apply estep_inv in Hxy'. destruct Hxy' as (st & Est & G & Hs).
    apply (A5 qx); [|intros []|exact Hxy].
    unfold handled in Hh. rewrite Est in Hh. unfold guard_ok in G.
    destruct (s_kind st) eqn:Ek; try discriminate; apply Hh; unfold guard_ok; rewrite Ek; exact G. }
  intros q Hp.
  assert (Hq : handled i whole seen' new' acc' q).
  { apply (Cl _ _ Hp); [reflexivity | reflexivity |]. apply A4. left. reflexivity. }
  unfold handled in Hq. split.
  - intros st ci cs Est Ek. rewrite Est, Ek in Hq. exact Hq.
  - intros (st & Est & Ek) C. rewrite Est, Ek in Hq. apply Hq. exact C.
Qed.

End Sim.
