(** C20 — the simulation of Nfa.v ([adv] / [advance] / [step_all] / [loop] / [run]) against the declarative
    path semantics of NfaSem.v.
      Part 1: the closure never runs out of fuel, every function of the simulation is total, and a posse
              never holds more searchers than the table has (character) states.
      Part 2: the simulation reports an accept exactly when an accepting path exists. *)
From ChibiV Require Import C20.Re C20.Nfa C20.NfaSem.
From Coq Require Import List Arith Lia Bool.
Import ListNotations.
Local Open Scope nat_scope.
Arguments match_ge : simpl never.

(* ------------------------------------------------------------------------------------------ *)
(** * Part 1: posse keys, fuel, totality *)

Definition keys (p : posse) : list nat := map fst p.

Lemma pfind_none_keys p q : pfind p q = None <-> ~ In q (keys p).
Proof.
  induction p as [|[q' m] r IH]; cbn [pfind keys map fst In].
  - tauto.
  - destruct (q' =? q) eqn:E.
    + apply Nat.eqb_eq in E. split; [discriminate | intros H; exfalso; apply H; left; exact E].
    + apply Nat.eqb_neq in E. fold (keys r). rewrite IH. tauto.
Qed.

Lemma keys_pmerge ng p q m : keys (pmerge ng p q m) = keys p.
Proof.
  induction p as [|[q' m'] r IH]; cbn [pmerge keys map fst]; [reflexivity|].
  destruct (q' =? q); cbn [map fst]; [reflexivity|]. f_equal. exact IH.
Qed.

Lemma keys_padd_some ng p q m : In q (keys p) -> keys (padd ng p q m) = keys p.
Proof.
  intros H. unfold padd. destruct (pfind p q) eqn:E.
  - apply keys_pmerge.
  - apply pfind_none_keys in E. contradiction.
Qed.

Lemma keys_padd_none ng p q m : ~ In q (keys p) -> keys (padd ng p q m) = keys p ++ [q].
Proof.
  intros H. unfold padd. apply pfind_none_keys in H. rewrite H. unfold keys. rewrite map_app. reflexivity.
Qed.

Lemma In_keys_padd ng p q m x : In x (keys (padd ng p q m)) <-> In x (keys p) \/ x = q.
Proof.
  destruct (in_dec Nat.eq_dec q (keys p)) as [H|H].
  - rewrite (keys_padd_some ng p q m H). split; [tauto|]. intros [A|A]; [exact A | subst; exact H].
  - rewrite (keys_padd_none ng p q m H). rewrite in_app_iff. cbn [In]. intuition.
Qed.

Lemma NoDup_snoc (l : list nat) q : NoDup l -> ~ In q l -> NoDup (l ++ [q]).
Proof.
  intros ND H. induction ND as [|x l Hx ND IH]; cbn [app].
  - constructor; [intros []|constructor].
  - constructor.
    + rewrite in_app_iff. cbn [In]. intros [A|[A|[]]]; [contradiction|]. subst. apply H. left. reflexivity.
    + apply IH. intros A. apply H. right. exact A.
Qed.

Lemma NoDup_keys_padd ng p q m : NoDup (keys p) -> NoDup (keys (padd ng p q m)).
Proof.
  intros ND. destruct (in_dec Nat.eq_dec q (keys p)) as [H|H].
  - rewrite (keys_padd_some ng p q m H). exact ND.
  - rewrite (keys_padd_none ng p q m H). apply NoDup_snoc; assumption.
Qed.

Lemma nodup_bound (l : list nat) n : NoDup l -> (forall q, In q l -> q < n) -> length l <= n.
Proof.
  intros ND H. rewrite <- (seq_length n 0). apply NoDup_incl_length; [exact ND|].
  intros q Hq. apply in_seq. specialize (H q Hq). lia.
Qed.

Lemma memb_In q l : memb q l = true <-> In q l.
Proof.
  unfold memb. rewrite existsb_exists. split.
  - intros [x [Hx E]]. apply Nat.eqb_eq in E. subst. exact Hx.
  - intros H. exists q. split; [exact H | apply Nat.eqb_refl].
Qed.

Lemma memb_false q l : memb q l = false <-> ~ In q l.
Proof. rewrite <- memb_In. destruct (memb q l); split; congruence. Qed.

Lemma succs_length (st : state) (m : mvec) :
  length (map (fun q' => (q', m)) (opt_list (s_n1 st) ++ opt_list (s_n2 st))) <= 2.
Proof. rewrite map_length, app_length. destruct (s_n1 st), (s_n2 st); cbn; lia. Qed.

Lemma adv_fuel_gen N p n i atend whole : forall fuel stk new seen acc,
  NoDup seen -> (forall q, In q seen -> q < length (n_tb N)) ->
  2 * (length (n_tb N) - length seen) + length stk < fuel ->
  adv fuel N p n i atend whole stk new seen acc <> None.
Proof.
  induction fuel as [|fuel IH]; intros stk new seen acc ND Hlt Hm; [lia|].
  destruct stk as [|[q m0] stk']; cbn [adv]; [discriminate|].
  cbn [length] in Hm.
  destruct (nth_error (n_tb N) q) as [st|] eqn:Eq.
  2:{ apply IH; auto; lia. }
  assert (Push : memb q seen = false ->
            adv fuel N p n i atend whole
              (map (fun q' => (q', update_match st m0 i)) (opt_list (s_n1 st) ++ opt_list (s_n2 st)) ++ stk')
              new (q :: seen) acc <> None).
  { intros Em. apply memb_false in Em.
    assert (ND' : NoDup (q :: seen)) by (constructor; assumption).
    assert (Hlt' : forall q0, In q0 (q :: seen) -> q0 < length (n_tb N)).
    { intros q0 [A|A]; [subst q0; apply nth_error_Some; congruence | apply Hlt; exact A]. }
    pose proof (nodup_bound _ _ ND' Hlt') as B. cbn [length] in B.
    apply IH; [exact ND' | exact Hlt' |].
    rewrite app_length. pose proof (succs_length st (update_match st m0 i)) as SL.
    cbn [length]. lia. }
  destruct (s_kind st) eqn:Ek; cbv iota.
  - apply IH; auto; lia.
  - apply IH; auto; lia.
  - destruct (memb q seen) eqn:Em; [apply IH; auto; lia|].
    destruct (anchor_ok k p n); [apply Push; reflexivity | apply IH; auto; lia].
  - destruct (memb q seen) eqn:Em; [apply IH; auto; lia|].
    apply Push; reflexivity.
Qed.

Theorem adv_fuel_suffices : forall N p n i atend whole sr new acc,
  adv (adv_fuel N) N p n i atend whole [sr] new [] acc <> None.
Proof.
  intros. apply adv_fuel_gen.
  - constructor.
  - intros q [].
  - unfold adv_fuel. cbn [length]. lia.
Qed.

Corollary advance_total N s i whole sr new acc : advance N s i whole sr new acc <> None.
Proof. unfold advance. apply adv_fuel_suffices. Qed.

Corollary step_all_total N s i2 whole ch : forall l new acc, step_all N s i2 whole ch l new acc <> None.
Proof.
  induction l as [|[q m] l IH]; intros new acc; cbn [step_all]; [discriminate|].
  destruct (nth_error (n_tb N) q) as [[[| ci cs | k |] sm sr [q'|] n2]|]; try apply IH.
  destruct (cs_mem ci cs ch); [|apply IH].
  destruct (advance N s i2 whole (q', m) new acc) as [[new' acc']|] eqn:E; [apply IH|].
  exfalso. exact (advance_total _ _ _ _ _ _ _ E).
Qed.

Corollary loop_total search N s : forall k i s1 acc, loop search N s k i s1 acc <> None.
Proof.
  induction k as [|k IH]; intros i s1 acc; cbn [loop].
  - destruct (search || (i =? 0)).
    + destruct (advance N s i (negb search) (start_searcher N) s1 acc) as [[a b]|] eqn:E; [discriminate|].
      exfalso. exact (advance_total _ _ _ _ _ _ _ E).
    + discriminate.
  - assert (K : forall s1 acc,
       (if (search && early_exit s1 acc) || (negb search && is_nil s1) then Some (s1, acc)
        else match nth_error s i with
             | None => Some (s1, acc)
             | Some ch => match step_all N s (S i) (negb search) ch s1 [] acc with
                          | None => None
                          | Some (s2, acc') => loop search N s k (S i) s2 acc'
                          end
             end) <> None).
    { intros s1' acc'. destruct ((search && early_exit s1' acc') || (negb search && is_nil s1')); [discriminate|].
      destruct (nth_error s i) as [ch|]; [|discriminate].
      destruct (step_all N s (S i) (negb search) ch s1' [] acc') as [[s2 acc2]|] eqn:E; [apply IH|].
      exfalso. exact (step_all_total _ _ _ _ _ _ _ _ E). }
    destruct (search || (i =? 0)).
    + destruct (advance N s i (negb search) (start_searcher N) s1 acc) as [[a b]|] eqn:E; [apply K|].
      exfalso. exact (advance_total _ _ _ _ _ _ _ E).
    + apply K.
Qed.

Theorem run_total search N s : run search N s <> None.
Proof.
  unfold run. destruct (loop search N s (length s) 0 [] None) as [[a b]|] eqn:E; [discriminate|].
  exfalso. exact (loop_total _ _ _ _ _ _ _ E).
Qed.

(** ** The posse holds at most one searcher per character state *)

Definition posse_ok (N : nfa) (p : posse) : Prop :=
  NoDup (keys p) /\
  forall q, In q (keys p) -> exists st ci cs, nth_error (n_tb N) q = Some st /\ s_kind st = KChar ci cs.

Lemma posse_ok_nil N : posse_ok N [].
Proof. split; [constructor | intros q []]. Qed.

Lemma posse_ok_padd N p q m st ci cs :
  nth_error (n_tb N) q = Some st -> s_kind st = KChar ci cs -> posse_ok N p -> posse_ok N (padd (n_ngi N) p q m).
Proof.
  intros Eq Ek [ND H]. split; [apply NoDup_keys_padd; exact ND|].
  intros x Hx. apply In_keys_padd in Hx. destruct Hx as [Hx| ->]; [apply H; exact Hx|].
  exists st, ci, cs. split; assumption.
Qed.

Lemma posse_ok_length N p : posse_ok N p -> length p <= length (n_tb N).
Proof.
  intros [ND H]. rewrite <- (map_length fst p). apply nodup_bound; [exact ND|].
  intros q Hq. destruct (H q Hq) as (st & ci & cs & E & _). apply nth_error_Some. congruence.
Qed.

Lemma adv_posse_ok N p n i atend whole : forall fuel stk new seen acc new' acc',
  posse_ok N new -> adv fuel N p n i atend whole stk new seen acc = Some (new', acc') -> posse_ok N new'.
Proof.
  induction fuel as [|fuel IH]; intros stk new seen acc new' acc' OK E.
  - destruct stk as [|[q m0] stk']; cbn [adv] in E; [|discriminate]. injection E as <- <-. exact OK.
  - destruct stk as [|[q m0] stk']; cbn [adv] in E; [injection E as <- <-; exact OK|].
    destruct (nth_error (n_tb N) q) as [st|] eqn:Eq; [|eapply IH; eassumption].
    destruct (s_kind st) eqn:Ek; cbv iota in E.
    + eapply IH; eassumption.
    + eapply IH; [|exact E]. eapply posse_ok_padd; eassumption.
    + destruct (memb q seen); [eapply IH; eassumption|].
      destruct (anchor_ok k p n); eapply IH; eassumption.
    + destruct (memb q seen); eapply IH; eassumption.
Qed.

Lemma advance_posse_ok N s i whole sr new acc new' acc' :
  posse_ok N new -> advance N s i whole sr new acc = Some (new', acc') -> posse_ok N new'.
Proof. unfold advance. apply adv_posse_ok. Qed.

Lemma step_all_posse_ok N s i2 whole ch : forall l new acc new' acc',
  posse_ok N new -> step_all N s i2 whole ch l new acc = Some (new', acc') -> posse_ok N new'.
Proof.
  induction l as [|[q m] l IH]; intros new acc new' acc' OK E; cbn [step_all] in E.
  - injection E as <- <-. exact OK.
  - destruct (nth_error (n_tb N) q) as [[[| ci cs | k |] sm sr [q'|] n2]|]; try (eapply IH; eassumption).
    destruct (cs_mem ci cs ch); [|eapply IH; eassumption].
    destruct (advance N s i2 whole (q', m) new acc) as [[new1 acc1]|] eqn:EA; [|discriminate].
    eapply IH; [|exact E]. eapply advance_posse_ok; eassumption.
Qed.

Lemma loop_posse_ok search N s : forall k i s1 acc s1' acc',
  posse_ok N s1 -> loop search N s k i s1 acc = Some (s1', acc') -> posse_ok N s1'.
Proof.
  induction k as [|k IH]; intros i s1 acc s1' acc' OK E; cbn [loop] in E.
  - destruct (search || (i =? 0)).
    + destruct (advance N s i (negb search) (start_searcher N) s1 acc) as [[a b]|] eqn:EA; [|discriminate].
      injection E as <- <-. eapply advance_posse_ok; eassumption.
    + injection E as <- <-. exact OK.
  - assert (K : forall s0 acc0, posse_ok N s0 ->
       (if (search && early_exit s0 acc0) || (negb search && is_nil s0) then Some (s0, acc0)
        else match nth_error s i with
             | None => Some (s0, acc0)
             | Some ch => match step_all N s (S i) (negb search) ch s0 [] acc0 with
                          | None => None
                          | Some (s2, acc2) => loop search N s k (S i) s2 acc2
                          end
             end) = Some (s1', acc') -> posse_ok N s1').
    { intros s0 acc0 OK0 E0.
      destruct ((search && early_exit s0 acc0) || (negb search && is_nil s0)); [injection E0 as <- <-; exact OK0|].
      destruct (nth_error s i) as [ch|]; [|injection E0 as <- <-; exact OK0].
      destruct (step_all N s (S i) (negb search) ch s0 [] acc0) as [[s2 acc2]|] eqn:ES; [|discriminate].
      eapply IH; [|exact E0]. eapply step_all_posse_ok; [apply posse_ok_nil | exact ES]. }
    destruct (search || (i =? 0)).
    + destruct (advance N s i (negb search) (start_searcher N) s1 acc) as [[a b]|] eqn:EA; [|discriminate].
      eapply K; [|exact E]. eapply advance_posse_ok; eassumption.
    + eapply K; eassumption.
Qed.

(** the searchers of every posse the simulation builds sit on distinct character states of the table *)
Theorem posse_keys_bounded search N s s1 acc :
  loop search N s (length s) 0 [] None = Some (s1, acc) ->
  NoDup (keys s1) /\
  (forall q, In q (keys s1) -> exists st ci cs, nth_error (n_tb N) q = Some st /\ s_kind st = KChar ci cs) /\
  length s1 <= length (n_tb N).
Proof.
  intros E. pose proof (loop_posse_ok _ _ _ _ _ _ _ _ _ (posse_ok_nil N) E) as OK.
  split; [apply OK|]. split; [apply OK|]. apply posse_ok_length. exact OK.
Qed.

Theorem adv_keys_bounded N p n i atend whole fuel stk new seen acc new' acc' :
  posse_ok N new -> adv fuel N p n i atend whole stk new seen acc = Some (new', acc') ->
  posse_ok N new' /\ length new' <= length (n_tb N).
Proof. intros OK E. pose proof (adv_posse_ok _ _ _ _ _ _ _ _ _ _ _ _ _ OK E) as OK'. split; [exact OK' | apply posse_ok_length; exact OK']. Qed.

(* ------------------------------------------------------------------------------------------ *)
(** * Part 2: the simulation against the path semantics *)

Section Sim.
Variable N : nfa.
Variable s : list char.
Notation tb := (n_tb N).

Lemma path_refl a : path tb s a a.
Proof. constructor. Qed.

Lemma path_step a b c : step tb s a b -> path tb s b c -> path tb s a c.
Proof. intros H1 H2. econstructor; eassumption. Qed.

Lemma path_trans a b c : path tb s a b -> path tb s b c -> path tb s a c.
Proof. unfold path. induction 1 as [|x y z Hxy Hyz IH]; intros H; [exact H|]. econstructor; [exact Hxy | apply IH; exact H]. Qed.

Lemma path_snoc a b c : path tb s a b -> step tb s b c -> path tb s a c.
Proof. intros H1 H2. eapply path_trans; [exact H1|]. eapply path_step; [exact H2 | apply path_refl]. Qed.

Lemma step_mono a b : step tb s a b -> snd a <= snd b.
Proof. destruct 1; cbn [snd]; lia. Qed.

Lemma path_mono a b : path tb s a b -> snd a <= snd b.
Proof. unfold path. induction 1 as [|x y z Hxy Hyz IH]; [lia|]. apply step_mono in Hxy. lia. Qed.

Lemma step_bound a b : step tb s a b -> snd a <= length s -> snd b <= length s.
Proof.
  destruct 1 as [| |q i st ci cs c q' E1 E2 E3 E4 E5]; cbn [snd]; try lia.
  intros _. apply Nat.le_succ_l. apply nth_error_Some. congruence.
Qed.

Lemma path_bound a b : path tb s a b -> snd a <= length s -> snd b <= length s.
Proof. unfold path. induction 1 as [|x y z Hxy Hyz IH]; [tauto|]. intros H. apply IH. eapply step_bound; eassumption. Qed.

Lemma estep_inv q q' i : step tb s (q, i) (q', i) ->
  exists st, nth_error tb q = Some st /\ guard_ok s st i = true /\ (s_n1 st = Some q' \/ s_n2 st = Some q').
Proof.
  intros H. inversion H; subst.
  - eexists; split; [eassumption|]. split; [assumption | left; assumption].
  - eexists; split; [eassumption|]. split; [assumption | right; assumption].
  - exfalso. lia.
Qed.

(** a path that advances over position [i] takes a character edge there *)
Lemma path_split a b : path tb s a b -> forall i, snd a <= i -> i < snd b ->
  exists qc st ci cs c qn, path tb s a (qc, i) /\ nth_error tb qc = Some st /\ s_kind st = KChar ci cs /\
    nth_error s i = Some c /\ cs_mem ci cs c = true /\ s_n1 st = Some qn /\ path tb s (qn, S i) b.
Proof.
  unfold path. induction 1 as [x|x y z Hxy Hyz IH]; intros i H1 H2; [lia|].
  pose proof Hxy as Hxy'.
  destruct Hxy as [q ix st q' E1 E2 E3|q ix st q' E1 E2 E3|q ix st ci cs c q' E1 E2 E3 E4 E5]; cbn [snd] in *.
  - destruct (IH i H1 H2) as (qc & st' & ci & cs & c & qn & P1 & R). exists qc, st', ci, cs, c, qn.
    split; [|exact R]. eapply path_step; eassumption.
  - destruct (IH i H1 H2) as (qc & st' & ci & cs & c & qn & P1 & R). exists qc, st', ci, cs, c, qn.
    split; [|exact R]. eapply path_step; eassumption.
  - destruct (Nat.eq_dec ix i) as [->|NE].
    + exists q, st, ci, cs, c, q'. split; [apply path_refl|]. repeat (split; [assumption|]). exact Hyz.
    + assert (H1' : S ix <= i) by lia.
      destruct (IH i H1' H2) as (qc & st' & ci' & cs' & c' & qn & P1 & R). exists qc, st', ci', cs', c', qn.
      split; [|exact R]. eapply path_step; eassumption.
Qed.

(** the test that lets an accept count at position [i] (regexp.scm:417-419) *)
Definition cond (whole : bool) (i : nat) : bool := negb whole || (length s <=? i).

(** ** One closure: soundness.  [P] = any set of states closed under the guarded epsilon edges at [i]. *)
Lemma adv_sound i whole (P : nat -> Prop) :
  (forall q q', P q -> step tb s (q, i) (q', i) -> P q') ->
  forall fuel stk new seen acc new' acc',
  adv fuel N (prevc s i) (nth_error s i) i (length s <=? i) whole stk new seen acc = Some (new', acc') ->
  (forall q, In q (map fst stk) -> P q) ->
  (forall q, In q (keys new) -> P q) ->
  (forall q, In q (keys new') -> P q) /\
  (acc' <> None -> acc <> None \/ (cond whole i = true /\ exists qa, P qa /\ is_accept tb qa)).
Proof.
  intros Pcl. induction fuel as [|fuel IH]; intros stk new seen acc new' acc' E Hstk Hnew.
  - destruct stk as [|[q m0] stk']; cbn [adv] in E; [|discriminate]. injection E as <- <-. split; [exact Hnew | tauto].
  - destruct stk as [|[q m0] stk']; cbn [adv] in E; [injection E as <- <-; split; [exact Hnew | tauto]|].
    cbn [map fst] in Hstk.
    assert (Hq : P q) by (apply Hstk; left; reflexivity).
    assert (Hstk' : forall x, In x (map fst stk') -> P x) by (intros x Hx; apply Hstk; right; exact Hx).
    destruct (nth_error tb q) as [st|] eqn:Eq; [|eapply IH; eassumption].
    match goal with |- ?G =>
      assert (Push : guard_ok s st i = true -> forall m,
                adv fuel N (prevc s i) (nth_error s i) i (length s <=? i) whole
                  (map (fun q' => (q', m)) (opt_list (s_n1 st) ++ opt_list (s_n2 st)) ++ stk')
                  new (q :: seen) acc = Some (new', acc') -> G) end.
    { intros G m E'. eapply IH; [exact E' | | exact Hnew].
      intros x Hx. rewrite map_app, map_map in Hx. cbn [fst] in Hx. rewrite map_id in Hx.
      apply in_app_iff in Hx. destruct Hx as [Hx|Hx]; [|apply Hstk'; exact Hx].
      apply in_app_iff in Hx. destruct Hx as [Hx|Hx].
      + destruct (s_n1 st) as [q1|] eqn:E1; cbn [opt_list In] in Hx; [|contradiction]. destruct Hx as [<-|[]].
        apply (Pcl q q1 Hq). eapply step_n1; eassumption.
      + destruct (s_n2 st) as [q1|] eqn:E1; cbn [opt_list In] in Hx; [|contradiction]. destruct Hx as [<-|[]].
        apply (Pcl q q1 Hq). eapply step_n2; eassumption. }
    destruct (s_kind st) eqn:Ek; cbv iota in E.
    + destruct (IH _ _ _ _ _ _ E Hstk' Hnew) as [A B]. split; [exact A|]. intros HA.
      destruct (B HA) as [B1|B1]; [|right; exact B1].
      unfold cond. destruct (negb whole || (length s <=? i)) eqn:C.
      * right. split; [reflexivity|]. exists q. split; [exact Hq|]. exists st. split; assumption.
      * left. cbn [andb] in B1. exact B1.
    + eapply IH; [exact E | exact Hstk' |]. intros x Hx. apply In_keys_padd in Hx.
      destruct Hx as [Hx| ->]; [apply Hnew; exact Hx | exact Hq].
    + destruct (memb q seen); [eapply IH; eassumption|].
      assert (G : guard_ok s st i = anchor_ok k (prevc s i) (nth_error s i)) by (unfold guard_ok; rewrite Ek; reflexivity).
      destruct (anchor_ok k (prevc s i) (nth_error s i)); [eapply Push; [exact G | exact E] | eapply IH; eassumption].
    + destruct (memb q seen); [eapply IH; eassumption|].
      assert (G : guard_ok s st i = true) by (unfold guard_ok; rewrite Ek; reflexivity).
      eapply Push; [exact G | exact E].
Qed.

(** ** One closure: completeness (the depth-first-search invariant) *)
Definition handled (i : nat) (whole : bool) (seen : list nat) (new : posse) (acc : option mvec) (q : nat) : Prop :=
  match nth_error tb q with
  | None => True
  | Some st =>
      match s_kind st with
      | KAccept => cond whole i = true -> acc <> None
      | KChar _ _ => In q (keys new)
      | _ => guard_ok s st i = true -> In q seen
      end
  end.

Lemma handled_mono i whole seen new acc seen' new' acc' q :
  incl seen seen' -> incl (keys new) (keys new') -> (acc <> None -> acc' <> None) ->
  handled i whole seen new acc q -> handled i whole seen' new' acc' q.
Proof.
  intros H1 H2 H3. unfold handled. destruct (nth_error tb q) as [st|]; [|tauto].
  destruct (s_kind st); auto.
Qed.

Lemma adv_complete i whole : forall fuel stk new seen acc new' acc',
  adv fuel N (prevc s i) (nth_error s i) i (length s <=? i) whole stk new seen acc = Some (new', acc') ->
  exists seen', incl seen seen' /\ incl (keys new) (keys new') /\ (acc <> None -> acc' <> None) /\
    (forall q, In q (map fst stk) -> handled i whole seen' new' acc' q) /\
    (forall q, In q seen' -> ~ In q seen ->
       forall q', step tb s (q, i) (q', i) -> handled i whole seen' new' acc' q').
Proof.
  induction fuel as [|fuel IH]; intros stk new seen acc new' acc' E.
  - destruct stk as [|[q m0] stk']; cbn [adv] in E; [|discriminate]. injection E as <- <-.
    exists seen. split; [apply incl_refl|]. split; [apply incl_refl|]. split; [tauto|].
    split; [intros q []|]. intros q H1 H2. contradiction.
  - destruct stk as [|[q m0] stk']; cbn [adv] in E.
    { injection E as <- <-.
      exists seen. split; [apply incl_refl|]. split; [apply incl_refl|]. split; [tauto|].
      split; [intros q []|]. intros q H1 H2. contradiction. }
    cbn [map fst].
    (* the common shape: the rest of the stack is run from a state at least as advanced, and [q] is handled *)
    assert (Rest : forall new1 acc1,
       incl (keys new) (keys new1) -> (acc <> None -> acc1 <> None) ->
       adv fuel N (prevc s i) (nth_error s i) i (length s <=? i) whole stk' new1 seen acc1 = Some (new', acc') ->
       (forall seen', incl seen seen' -> incl (keys new1) (keys new') -> (acc1 <> None -> acc' <> None) ->
                      handled i whole seen' new' acc' q) ->
       exists seen', incl seen seen' /\ incl (keys new) (keys new') /\ (acc <> None -> acc' <> None) /\
         (forall x, In x (q :: map fst stk') -> handled i whole seen' new' acc' x) /\
         (forall x, In x seen' -> ~ In x seen ->
            forall q', step tb s (x, i) (q', i) -> handled i whole seen' new' acc' q')).
    { intros new1 acc1 I1 I2 E1 Hq. destruct (IH _ _ _ _ _ _ E1) as (seen' & A1 & A2 & A3 & A4 & A5).
      exists seen'. split; [exact A1|]. split; [eapply incl_tran; eassumption|]. split; [tauto|].
      split; [|exact A5]. intros x [<-|Hx]; [apply Hq; assumption | apply A4; exact Hx]. }
    destruct (nth_error tb q) as [st|] eqn:Eq.
    2:{ refine (Rest _ _ _ _ E _); [apply incl_refl | tauto |].
        intros. unfold handled. rewrite Eq. exact I. }
    assert (Push : guard_ok s st i = true -> ~ In q seen -> forall m,
              adv fuel N (prevc s i) (nth_error s i) i (length s <=? i) whole
                (map (fun q' => (q', m)) (opt_list (s_n1 st) ++ opt_list (s_n2 st)) ++ stk')
                new (q :: seen) acc = Some (new', acc') ->
              (s_kind st = KEps \/ exists k, s_kind st = KAnchor k) ->
       exists seen', incl seen seen' /\ incl (keys new) (keys new') /\ (acc <> None -> acc' <> None) /\
         (forall x, In x (q :: map fst stk') -> handled i whole seen' new' acc' x) /\
         (forall x, In x seen' -> ~ In x seen ->
            forall q', step tb s (x, i) (q', i) -> handled i whole seen' new' acc' q')).
    { intros G NS m E' Hk. destruct (IH _ _ _ _ _ _ E') as (seen' & A1 & A2 & A3 & A4 & A5).
      assert (Hsucc : forall q', s_n1 st = Some q' \/ s_n2 st = Some q' -> handled i whole seen' new' acc' q').
      { intros q' Hq'. apply A4. rewrite map_app, map_map. cbn [fst]. rewrite map_id.
        apply in_app_iff. left. apply in_app_iff.
        destruct Hq' as [Hq'|Hq']; [left|right]; rewrite Hq'; left; reflexivity. }
      exists seen'. split; [intros x Hx; apply A1; right; exact Hx|]. split; [exact A2|]. split; [exact A3|].
      split.
      - intros x [<-|Hx].
        + unfold handled. rewrite Eq.
          assert (Hin : In q seen') by (apply A1; left; reflexivity).
          destruct Hk as [Hk|[k Hk]]; rewrite Hk; intros _; exact Hin.
        + apply A4. rewrite map_app. apply in_app_iff. right. exact Hx.
      - intros x Hx NSx q' Hst. destruct (Nat.eq_dec x q) as [->|NE].
        + apply estep_inv in Hst. destruct Hst as (st' & Est & _ & Hs).
          rewrite Eq in Est. injection Est as <-. apply Hsucc. exact Hs.
        + apply (A5 x Hx); [|exact Hst]. intros [A|A]; [apply NE; symmetry; exact A | apply NSx; exact A]. }
    destruct (s_kind st) eqn:Ek; cbv iota in E.
    + refine (Rest _ _ _ _ E _); [apply incl_refl | |].
      * intros HA. destruct ((negb whole || (length s <=? i)) && _); [discriminate | exact HA].
      * intros seen' _ _ H3. unfold handled. rewrite Eq, Ek. unfold cond. intros C. apply H3.
        rewrite C. cbn [andb]. destruct acc as [a|]; [destruct (match_ge (n_ngi N) 0 (update_match st m0 i) a)|]; discriminate.
    + refine (Rest _ _ _ _ E _).
      * intros x Hx. apply In_keys_padd. left. exact Hx.
      * tauto.
      * intros seen' _ H2 _. unfold handled. rewrite Eq, Ek. apply H2. apply In_keys_padd. right. reflexivity.
    + destruct (memb q seen) eqn:Em.
      { refine (Rest _ _ _ _ E _); [apply incl_refl | tauto |].
        intros seen' H1 _ _. unfold handled. rewrite Eq, Ek. intros _. apply H1. apply memb_In. exact Em. }
      assert (G : guard_ok s st i = anchor_ok k (prevc s i) (nth_error s i)) by (unfold guard_ok; rewrite Ek; reflexivity).
      destruct (anchor_ok k (prevc s i) (nth_error s i)).
      * eapply Push; [exact G | apply memb_false; exact Em | exact E | right; exists k; reflexivity].
      * refine (Rest _ _ _ _ E _); [apply incl_refl | tauto |].
        intros seen' _ _ _. unfold handled. rewrite Eq, Ek. rewrite G. discriminate.
    + destruct (memb q seen) eqn:Em.
      { refine (Rest _ _ _ _ E _); [apply incl_refl | tauto |].
        intros seen' H1 _ _. unfold handled. rewrite Eq, Ek. intros _. apply H1. apply memb_In. exact Em. }
      assert (G : guard_ok s st i = true) by (unfold guard_ok; rewrite Ek; reflexivity).
      eapply Push; [exact G | apply memb_false; exact Em | exact E | left; reflexivity].
Qed.

(** everything reachable from the searcher's state without consuming a character is recorded *)
Lemma closure_complete i whole fuel q0 m0 new acc new' acc' :
  adv fuel N (prevc s i) (nth_error s i) i (length s <=? i) whole [(q0, m0)] new [] acc = Some (new', acc') ->
  incl (keys new) (keys new') /\ (acc <> None -> acc' <> None) /\
  forall q, path tb s (q0, i) (q, i) ->
    (forall st ci cs, nth_error tb q = Some st -> s_kind st = KChar ci cs -> In q (keys new')) /\
    (is_accept tb q -> cond whole i = true -> acc' <> None).
Proof.
  intros E. destruct (adv_complete _ _ _ _ _ _ _ _ _ E) as (seen' & A1 & A2 & A3 & A4 & A5).
  split; [exact A2|]. split; [exact A3|].
  assert (Cl : forall a b, path tb s a b -> snd a = i -> snd b = i ->
               handled i whole seen' new' acc' (fst a) -> handled i whole seen' new' acc' (fst b)).
  { unfold path. induction 1 as [x|x y z Hxy Hyz IH]; intros Ha Hb Hh; [exact Hh|].
    pose proof (step_mono _ _ Hxy) as M1. pose proof (path_mono _ _ Hyz) as M2.
    assert (Hy : snd y = i) by lia.
    apply IH; [exact Hy | exact Hb |].
    destruct x as [qx ix], y as [qy iy]. cbn [fst snd] in *. subst ix iy.
    pose proof Hxy as Hxy'. apply estep_inv in Hxy'. destruct Hxy' as (st & Est & G & Hs).
    apply (A5 qx); [|intros []|exact Hxy].
    unfold handled in Hh. rewrite Est in Hh. unfold guard_ok in G.
    destruct (s_kind st) eqn:Ek; try discriminate; apply Hh; unfold guard_ok; rewrite Ek; exact G. }
  intros q Hp.
  assert (Hq : handled i whole seen' new' acc' q).
  { apply (Cl _ _ Hp); [reflexivity | reflexivity |]. apply A4. left. reflexivity. }
  unfold handled in Hq. split.
  - intros st ci cs Est Ek. rewrite Est, Ek in Hq. exact Hq.
  - intros (st & Est & Ek) C. rewrite Est, Ek in Hq. apply Hq. exact C.
Qed.

End Sim.

(** ** The loop: [regexp-advance!] over the whole string *)
Section Loop.
Variable N : nfa.
Variable s : list char.
Variable search : bool.
Notation tb := (n_tb N).

(** the successor a searcher in state [q] moves to on [ch] *)
Definition fire (ch : char) (q : nat) : option nat :=
  match nth_error tb q with
  | Some st =>
      match s_kind st with
      | KChar ci cs => match s_n1 st with Some q' => if cs_mem ci cs ch then Some q' else None | None => None end
      | _ => None
      end
  | None => None
  end.

Lemma step_all_cons i2 whole ch q m l new acc :
  step_all N s i2 whole ch ((q, m) :: l) new acc =
  match fire ch q with
  | Some q' => match advance N s i2 whole (q', m) new acc with
               | None => None
               | Some (new', acc') => step_all N s i2 whole ch l new' acc'
               end
  | None => step_all N s i2 whole ch l new acc
  end.
Proof.
  cbn [step_all]. unfold fire.
  destruct (nth_error tb q) as [[[| ci cs | k |] sm sr [q'|] n2]|]; cbn [s_kind s_n1]; try reflexivity.
  destruct (cs_mem ci cs ch); reflexivity.
Qed.

Lemma fire_spec ch q q' : fire ch q = Some q' <->
  exists st ci cs, nth_error tb q = Some st /\ s_kind st = KChar ci cs /\ cs_mem ci cs ch = true /\ s_n1 st = Some q'.
Proof.
  unfold fire. split.
  - destruct (nth_error tb q) as [st|]; [|discriminate].
    destruct (s_kind st) as [|ci cs|k|] eqn:Ek; try discriminate.
    destruct (s_n1 st) as [q1|] eqn:E1; [|discriminate].
    destruct (cs_mem ci cs ch) eqn:Ec; [|discriminate]. intros [= <-]. exists st, ci, cs. auto.
  - intros (st & ci & cs & -> & -> & Ec & ->). rewrite Ec. reflexivity.
Qed.

Definition start_ok (i0 : nat) : Prop := search = true \/ i0 = 0.
Definition Reach (i q : nat) : Prop := exists i0, start_ok i0 /\ path tb s (n_start N, i0) (q, i).
Definition counts (j : nat) : Prop := search = true \/ j = length s.
Definition AccFound : Prop :=
  exists i0 j qa, start_ok i0 /\ j <= length s /\ path tb s (n_start N, i0) (qa, j) /\ is_accept tb qa /\ counts j.

Lemma cond_counts i : i <= length s -> cond s (negb search) i = true -> counts i.
Proof.
  unfold cond, counts. destruct search; cbn [negb orb]; [left; reflexivity|].
  intros H C. right. apply Nat.leb_le in C. lia.
Qed.

Lemma counts_cond i : counts i -> cond s (negb search) i = true.
Proof.
  unfold cond, counts. intros [->| ->]; cbn [negb orb]; [reflexivity|].
  rewrite Nat.leb_refl. apply orb_true_r.
Qed.

(** *** soundness *)
Lemma advance_sound i sr new acc new' acc' :
  i <= length s ->
  advance N s i (negb search) sr new acc = Some (new', acc') ->
  Reach i (fst sr) -> (forall q, In q (keys new) -> Reach i q) -> (acc <> None -> AccFound) ->
  (forall q, In q (keys new') -> Reach i q) /\ (acc' <> None -> AccFound).
Proof.
  intros Hi E Hsr Hnew Hacc. unfold advance in E.
  assert (Pcl : forall q q', Reach i q -> step tb s (q, i) (q', i) -> Reach i q').
  { intros q q' (i0 & S0 & P0) St. exists i0. split; [exact S0|]. eapply path_snoc; eassumption. }
  pose proof (adv_sound N s i (negb search) (Reach i) Pcl _ _ _ _ _ _ _ E) as X.
  assert (X1 : forall q, In q (map fst [sr]) -> Reach i q) by (intros q [<-|[]]; exact Hsr).
  destruct (X X1 Hnew) as [A B].
  split; [exact A|]. intros HA. destruct (B HA) as [B1|(C & qa & (i0 & S0 & P0) & Ha)]; [auto|].
  exists i0, i, qa. repeat split; auto. apply cond_counts; assumption.
Qed.

Lemma step_all_sound i ch : nth_error s i = Some ch ->
  forall l new acc new' acc',
  step_all N s (S i) (negb search) ch l new acc = Some (new', acc') ->
  (forall q, In q (keys l) -> Reach i q) -> (forall q, In q (keys new) -> Reach (S i) q) ->
  (acc <> None -> AccFound) ->
  (forall q, In q (keys new') -> Reach (S i) q) /\ (acc' <> None -> AccFound).
Proof.
  intros Hch. assert (Hi : S i <= length s) by (apply Nat.le_succ_l; apply nth_error_Some; congruence).
  induction l as [|[q m] l IH]; intros new acc new' acc' E Hl Hnew Hacc.
  - cbn [step_all] in E. injection E as <- <-. split; assumption.
  - rewrite step_all_cons in E.
    assert (Hl' : forall x, In x (keys l) -> Reach i x) by (intros x Hx; apply Hl; right; exact Hx).
    destruct (fire ch q) as [q'|] eqn:F; [|eapply IH; eassumption].
    destruct (advance N s (S i) (negb search) (q', m) new acc) as [[new1 acc1]|] eqn:EA; [|discriminate].
    apply fire_spec in F. destruct F as (st & ci & cs & Est & Ek & Ec & E1).
    assert (R' : Reach (S i) q').
    { destruct (Hl q (or_introl eq_refl)) as (i0 & S0 & P0). exists i0. split; [exact S0|].
      eapply path_snoc; [exact P0|]. eapply step_chr; eassumption. }
    destruct (advance_sound (S i) (q', m) new acc new1 acc1 Hi EA R' Hnew Hacc) as [A B].
    eapply IH; eassumption.
Qed.

Lemma start_sound i s1 acc s1' acc' : i <= length s ->
  (if search || (i =? 0) then advance N s i (negb search) (start_searcher N) s1 acc else Some (s1, acc))
    = Some (s1', acc') ->
  (forall q, In q (keys s1) -> Reach i q) -> (acc <> None -> AccFound) ->
  (forall q, In q (keys s1') -> Reach i q) /\ (acc' <> None -> AccFound).
Proof.
  intros Hi E H1 H2. destruct (search || (i =? 0)) eqn:C.
  - eapply advance_sound; try eassumption. unfold start_searcher; cbn [fst].
    exists i. split; [|apply path_refl].
    unfold start_ok. apply orb_true_iff in C. destruct C as [C|C]; [left; exact C | right; apply Nat.eqb_eq; exact C].
  - injection E as <- <-. split; assumption.
Qed.

Lemma loop_sound : forall k i s1 acc s1' acc', k + i = length s ->
  (forall q, In q (keys s1) -> Reach i q) -> (acc <> None -> AccFound) ->
  loop search N s k i s1 acc = Some (s1', acc') -> (acc' <> None -> AccFound).
Proof.
  induction k as [|k IH]; intros i s1 acc s1' acc' Hk H1 H2 E; cbn [loop] in E.
  - match type of E with match ?X with _ => _ end = _ => destruct X as [[s1a acca]|] eqn:ES; [|discriminate] end.
    cbv beta iota in E. injection E as <- <-.
    assert (Hi : i <= length s) by lia.
    apply (start_sound i s1 acc s1a acca Hi ES H1 H2).
  - match type of E with match ?X with _ => _ end = _ => destruct X as [[s1a acca]|] eqn:ES; [|discriminate] end.
    cbv beta iota in E.
    assert (Hi : i <= length s) by lia.
    destruct (start_sound i s1 acc s1a acca Hi ES H1 H2) as [A B].
    destruct ((search && early_exit s1a acca) || (negb search && is_nil s1a)); [injection E as <- <-; exact B|].
    destruct (nth_error s i) as [ch|] eqn:Ech; [|injection E as <- <-; exact B].
    destruct (step_all N s (S i) (negb search) ch s1a [] acca) as [[s2 acc2]|] eqn:ESA; [|discriminate].
    assert (Hnil : forall q, In q (keys (@nil (nat * mvec))) -> Reach (S i) q) by (intros q []).
    destruct (step_all_sound i ch Ech s1a [] acca s2 acc2 ESA A Hnil B) as [A' B'].
    apply (IH (S i) s2 acc2 s1' acc'); [lia | exact A' | exact B' | exact E].
Qed.

(** *** completeness *)
Definition EntryC (i : nat) (s1 : posse) : Prop :=
  forall q st ci cs i0, nth_error tb q = Some st -> s_kind st = KChar ci cs -> start_ok i0 -> i0 < i ->
    path tb s (n_start N, i0) (q, i) -> In q (keys s1).
Definition AfterC (i : nat) (s1 : posse) : Prop :=
  forall q st ci cs i0, nth_error tb q = Some st -> s_kind st = KChar ci cs -> start_ok i0 ->
    path tb s (n_start N, i0) (q, i) -> In q (keys s1).
Definition AccEntryC (i : nat) (acc : option mvec) : Prop :=
  forall i0 j qa, start_ok i0 -> i0 < i -> j <= i -> counts j ->
    path tb s (n_start N, i0) (qa, j) -> is_accept tb qa -> acc <> None.
Definition AccAfterC (i : nat) (acc : option mvec) : Prop :=
  forall i0 j qa, start_ok i0 -> j <= i -> counts j ->
    path tb s (n_start N, i0) (qa, j) -> is_accept tb qa -> acc <> None.

Lemma start_complete i s1 acc s1' acc' :
  (if search || (i =? 0) then advance N s i (negb search) (start_searcher N) s1 acc else Some (s1, acc))
    = Some (s1', acc') ->
  EntryC i s1 -> AccEntryC i acc -> AfterC i s1' /\ AccAfterC i acc'.
Proof.
  intros E H1 H2. destruct (search || (i =? 0)) eqn:C.
  - unfold advance, start_searcher in E. apply closure_complete in E. destruct E as (I1 & I2 & Cl). split.
    + intros q st ci cs i0 Est Ek S0 P0. pose proof (path_mono _ _ _ _ P0) as M. cbn [snd] in M.
      destruct (Nat.eq_dec i0 i) as [->|NE].
      * destruct (Cl q P0) as [A _]. eapply A; eassumption.
      * apply I1. eapply H1; try eassumption. lia.
    + intros i0 j qa S0 Hj Cj P0 Ha. pose proof (path_mono _ _ _ _ P0) as M. cbn [snd] in M.
      destruct (Nat.eq_dec i0 i) as [->|NE].
      * assert (j = i) by lia. subst j. destruct (Cl qa P0) as [_ B].
        apply B; [exact Ha | apply counts_cond; exact Cj].
      * apply I2. eapply H2; try eassumption. lia.
  - injection E as <- <-. apply orb_false_iff in C. destruct C as [C1 C2]. apply Nat.eqb_neq in C2.
    assert (S0' : forall i0, start_ok i0 -> i0 < i). { intros i0 [A|A]; [congruence | lia]. }
    split.
    + intros q st ci cs i0 Est Ek S0 P0. eapply H1; eauto.
    + intros i0 j qa S0 Hj Cj P0 Ha. eapply H2; eauto.
Qed.

Lemma step_all_complete i ch : nth_error s i = Some ch ->
  forall l new acc new' acc',
  step_all N s (S i) (negb search) ch l new acc = Some (new', acc') ->
  incl (keys new) (keys new') /\ (acc <> None -> acc' <> None) /\
  forall qc qn, In qc (keys l) -> fire ch qc = Some qn ->
    forall q, path tb s (qn, S i) (q, S i) ->
      (forall st ci cs, nth_error tb q = Some st -> s_kind st = KChar ci cs -> In q (keys new')) /\
      (is_accept tb q -> cond s (negb search) (S i) = true -> acc' <> None).
Proof.
  intros Hch. induction l as [|[q0 m] l IH]; intros new acc new' acc' E.
  - cbn [step_all] in E. injection E as <- <-. split; [apply incl_refl|]. split; [tauto|]. intros qc qn [].
  - rewrite step_all_cons in E. destruct (fire ch q0) as [q'|] eqn:F.
    + destruct (advance N s (S i) (negb search) (q', m) new acc) as [[new1 acc1]|] eqn:EA; [|discriminate].
      unfold advance in EA. apply closure_complete in EA. destruct EA as (I1 & I2 & Cl).
      destruct (IH _ _ _ _ E) as (J1 & J2 & J3).
      split; [eapply incl_tran; eassumption|]. split; [tauto|].
      intros qc qn [Hqc|Hqc] Fq q Hp.
      * cbn [fst] in Hqc. subst qc. rewrite F in Fq. injection Fq as <-. destruct (Cl q Hp) as [A B]. split.
        -- intros st ci cs Est Ek. apply J1. eapply A; eassumption.
        -- intros Ha C. apply J2. apply B; assumption.
      * eapply J3; eassumption.
    + destruct (IH _ _ _ _ E) as (J1 & J2 & J3). split; [exact J1|]. split; [exact J2|].
      intros qc qn [Hqc|Hqc] Fq q Hp; [cbn [fst] in Hqc; congruence | eapply J3; eassumption].
Qed.

Lemma step_complete i ch s1 acc s2 acc2 : nth_error s i = Some ch ->
  step_all N s (S i) (negb search) ch s1 [] acc = Some (s2, acc2) ->
  AfterC i s1 -> AccAfterC i acc -> EntryC (S i) s2 /\ AccEntryC (S i) acc2.
Proof.
  intros Hch E H1 H2. destruct (step_all_complete i ch Hch _ _ _ _ _ E) as (_ & J2 & J3).
  assert (Key : forall i0 q, start_ok i0 -> i0 < S i -> path tb s (n_start N, i0) (q, S i) ->
     exists qc qn, In qc (keys s1) /\ fire ch qc = Some qn /\ path tb s (qn, S i) (q, S i)).
  { intros i0 q S0 Hi0 P0.
    assert (L1 : snd (n_start N, i0) <= i) by (cbn [snd]; lia).
    assert (L2 : i < snd (q, S i)) by (cbn [snd]; lia).
    destruct (path_split N s _ _ P0 i L1 L2) as (qc & st & ci & cs & c & qn & P1 & Est & Ek & Ec & Em & En & P2).
    exists qc, qn. split; [eapply H1; eassumption|]. split; [|exact P2].
    apply fire_spec. exists st, ci, cs. rewrite Hch in Ec. injection Ec as <-. auto. }
  split.
  - intros q st ci cs i0 Est Ek S0 Hi0 P0. destruct (Key i0 q S0 Hi0 P0) as (qc & qn & Hin & F & P2).
    destruct (J3 qc qn Hin F q P2) as [A _]. eapply A; eassumption.
  - intros i0 j qa S0 Hi0 Hj Cj P0 Ha. destruct (Nat.eq_dec j (S i)) as [->|NE].
    + destruct (Key i0 qa S0 Hi0 P0) as (qc & qn & Hin & F & P2).
      destruct (J3 qc qn Hin F qa P2) as [_ B]. apply B; [exact Ha | apply counts_cond; exact Cj].
    + apply J2. eapply H2; try eassumption. lia.
Qed.

Lemma loop_complete : forall k i s1 acc s1' acc', k + i = length s ->
  EntryC i s1 -> AccEntryC i acc ->
  loop search N s k i s1 acc = Some (s1', acc') -> AccAfterC (length s) acc'.
Proof.
  induction k as [|k IH]; intros i s1 acc s1' acc' Hk H1 H2 E; cbn [loop] in E.
  - match type of E with match ?X with _ => _ end = _ => destruct X as [[s1a acca]|] eqn:ES; [|discriminate] end.
    cbv beta iota in E. injection E as <- <-.
    destruct (start_complete _ _ _ _ _ ES H1 H2) as [_ B]. assert (i = length s) by lia. subst i. exact B.
  - match type of E with match ?X with _ => _ end = _ => destruct X as [[s1a acca]|] eqn:ES; [|discriminate] end.
    cbv beta iota in E.
    destruct (start_complete _ _ _ _ _ ES H1 H2) as [A B].
    destruct ((search && early_exit s1a acca) || (negb search && is_nil s1a)) eqn:EX.
    + injection E as <- <-. apply orb_true_iff in EX.
      destruct EX as [EX|EX]; apply andb_true_iff in EX; destruct EX as [X1 X2].
      * intros i0 j qa _ _ _ _ _. unfold early_exit in X2. destruct acca as [a|]; [discriminate | discriminate X2].
      * destruct s1a as [|x r]; [|discriminate X2]. apply negb_true_iff in X1.
        intros i0 j qa S0 Hj Cj P0 Ha. exfalso.
        destruct S0 as [S0|S0]; [congruence|]. destruct Cj as [Cj|Cj]; [congruence|]. subst i0 j.
        assert (L1 : snd (n_start N, 0) <= i) by (cbn [snd]; lia).
        assert (L2 : i < snd (qa, length s)) by (cbn [snd]; lia).
        destruct (path_split N s _ _ P0 i L1 L2) as (qc & st & ci & cs & c & qn & P1 & Est & Ek & _).
        exact (A qc st ci cs 0 Est Ek (or_intror eq_refl) P1).
    + destruct (nth_error s i) as [ch|] eqn:Ech.
      2:{ exfalso. apply nth_error_None in Ech. lia. }
      destruct (step_all N s (S i) (negb search) ch s1a [] acca) as [[s2 acc2]|] eqn:ESA; [|discriminate].
      destruct (step_complete _ _ _ _ _ _ Ech ESA A B) as [A' B'].
      apply (IH (S i) s2 acc2 s1' acc'); [lia | exact A' | exact B' | exact E].
Qed.

End Loop.

(** the accept register after the whole loop is set exactly when a path that counts exists *)
Theorem loop_acc_iff_path N s search s1 acc :
  loop search N s (length s) 0 [] None = Some (s1, acc) ->
  (acc <> None <-> AccFound N s search).
Proof.
  intros E. split.
  - assert (H1 : forall q, In q (keys (@nil (nat * mvec))) -> Reach N s search 0 q) by (intros q []).
    assert (H2 : @None mvec <> None -> AccFound N s search) by (intros H; exfalso; apply H; reflexivity).
    exact (loop_sound N s search _ _ _ _ _ _ (Nat.add_0_r _) H1 H2 E).
  - intros (i0 & j & qa & S0 & Hj & P0 & Ha & Cj).
    assert (C : AccAfterC N s search (length s) acc).
    { assert (H1 : EntryC N s search 0 []) by (intros q st ci cs i1 _ _ _ L; lia).
      assert (H2 : AccEntryC N s search 0 None) by (intros i1 j1 qa1 _ L; lia).
      exact (loop_complete N s search _ _ _ _ _ _ (Nat.add_0_r _) H1 H2 E). }
    exact (C i0 j qa S0 Hj Cj P0 Ha).
Qed.

Theorem run_search_iff_path : forall N s, run_nfa true N s = true <-> finds_path N s.
Proof.
  intros N s. unfold run_nfa, run.
  destruct (loop true N s (length s) 0 [] None) as [[s1 acc]|] eqn:E; [|exfalso; exact (loop_total _ _ _ _ _ _ _ E)].
  pose proof (loop_acc_iff_path N s true s1 acc E) as [F1 F2]. cbn [orb]. split.
  - intros H. assert (HA : acc <> None) by (destruct acc; [discriminate | discriminate H]).
    destruct (F1 HA) as (i0 & j & qa & S0 & Hj & P0 & Ha & Cj).
    exists i0, j, qa. split; [|split; assumption].
    pose proof (path_mono _ _ _ _ P0) as M. cbn [snd] in M. lia.
  - intros (i0 & j & qa & Hi0 & P0 & Ha).
    assert (HA : acc <> None).
    { apply F2. exists i0, j, qa. split; [left; reflexivity|]. split; [|split; [exact P0 | split; [exact Ha | left; reflexivity]]].
      apply (path_bound _ _ _ _ P0). exact Hi0. }
    destruct acc; [reflexivity | contradiction].
Qed.

(** whole-string matching, for ANY state graph: the accept register is set exactly when an accepting path exists *)
Theorem loop_matches_iff_path N s s1 acc :
  loop false N s (length s) 0 [] None = Some (s1, acc) ->
  (acc <> None <-> accepts_path N s).
Proof.
  intros E. rewrite (loop_acc_iff_path N s false s1 acc E). split.
  - intros (i0 & j & qa & S0 & Hj & P0 & Ha & Cj).
    destruct S0 as [S0|S0]; [discriminate|]. destruct Cj as [Cj|Cj]; [discriminate|]. subst i0 j.
    exists qa. split; assumption.
  - intros (qa & P0 & Ha). exists 0, (length s), qa.
    split; [right; reflexivity|]. split; [lia|]. split; [exact P0|]. split; [exact Ha | right; reflexivity].
Qed.

(** ... hence a reported whole-string match always has an accepting path (any graph) *)
Theorem run_matches_sound N s : run_nfa false N s = true -> accepts_path N s.
Proof.
  unfold run_nfa, run.
  destruct (loop false N s (length s) 0 [] None) as [[s1 acc]|] eqn:E; [|discriminate].
  intros H. apply (loop_matches_iff_path N s s1 acc E). destruct acc; [discriminate | discriminate H].
Qed.

(* ------------------------------------------------------------------------------------------ *)
(** * The final test of [run] for whole-string matching: the slot-1 discipline

    [run false] only reports the accept when slot 1 of its vector (end of submatch 0) is the end of the
    string.  In the graphs [compile_top] builds, slot 1 is written by exactly one state (n3), which is
    the only predecessor of the accept state and whose only successor is the accept state.  The
    checkable condition below captures that: "writers" of slot 1 are epsilon states all of whose
    successors accept; nobody else reaches an accept state; accept states record nothing. *)

Definition acceptb (tb : list state) (q : nat) : bool :=
  match nth_error tb q with
  | Some st => match s_kind st with KAccept => true | _ => false end
  | None => false
  end.
Definition succs (st : state) : list nat := opt_list (s_n1 st) ++ opt_list (s_n2 st).
Definition is_one (o : option nat) : bool := match o with Some 1 => true | _ => false end.
Definition disc_st (tb : list state) (st : state) : bool :=
  match s_kind st with
  | KAccept => match s_match st with None => true | Some _ => false end
  | KChar _ _ => negb (is_one (s_match st)) && forallb (fun q' => negb (acceptb tb q')) (succs st)
  | _ => if is_one (s_match st) then forallb (acceptb tb) (succs st)
         else forallb (fun q' => negb (acceptb tb q')) (succs st)
  end.
Definition slot1_discipline (N : nfa) : bool :=
  forallb (disc_st (n_tb N)) (n_tb N) && negb (acceptb (n_tb N) (n_start N)) && (2 <=? n_nsave N).

Lemma upd_length {A} (l : list A) k f : length (upd l k f) = length l.
Proof. revert k; induction l as [|x r IH]; intros [|k]; cbn [upd length]; auto. Qed.

Lemma nth_upd_neq {A} (l : list A) k j f d : k <> j -> nth j (upd l k f) d = nth j l d.
Proof.
  revert k j; induction l as [|x r IH]; intros [|k] [|j] H; cbn [upd nth]; try reflexivity; try congruence.
  apply IH. lia.
Qed.

Lemma nth_repeat_none k n : nth k (repeat (@None nat) n) None = None.
Proof. revert k; induction n as [|n IH]; intros [|k]; cbn [repeat nth]; auto. Qed.

Lemma is_one_true o : is_one o = true -> o = Some 1.
Proof. destruct o as [[|[|?]]|]; cbn; congruence. Qed.

Lemma In_pmerge ng p q m q' m' : In (q', m') (pmerge ng p q m) -> In (q', m') p \/ m' = m.
Proof.
  induction p as [|[q0 m0] r IH]; cbn [pmerge]; [tauto|]. destruct (q0 =? q).
  - intros [H|H]; [|left; right; exact H]. injection H as H1 H2. subst q'.
    destruct (match_ge ng 0 m0 m); subst m'; [left; left; reflexivity | right; reflexivity].
  - intros [H|H]; [left; left; exact H|]. destruct (IH H) as [A|A]; [left; right; exact A | right; exact A].
Qed.

Lemma In_padd ng p q m q' m' : In (q', m') (padd ng p q m) -> In (q', m') p \/ m' = m.
Proof.
  unfold padd. destruct (pfind p q); [apply In_pmerge|].
  intros H. apply in_app_iff in H. destruct H as [H|[H|[]]]; [left; exact H | right; congruence].
Qed.

Section Disc.
Variable N : nfa.
Variable s : list char.
Variable whole : bool.
Hypothesis D : slot1_discipline N = true.
Notation tb := (n_tb N).

Definition V0 (m : mvec) : Prop := 2 <= length m /\ getm m 1 = None.
Definition vec_ok (i q : nat) (m : mvec) : Prop := if acceptb tb q then getm m 1 = Some i else V0 m.
Definition posse_v0 (p : posse) : Prop := forall q m, In (q, m) p -> V0 m.
Definition acc_ok (acc : option mvec) : Prop :=
  forall a, acc = Some a -> exists e, getm a 1 = Some e /\ (whole = true -> length s <= e).

Lemma D_st q st : nth_error tb q = Some st -> disc_st tb st = true.
Proof.
  intros E. pose proof D as D0. unfold slot1_discipline in D0.
  apply andb_true_iff in D0. destruct D0 as [D1 _]. apply andb_true_iff in D1. destruct D1 as [D1 _].
  rewrite forallb_forall in D1. apply D1. eapply nth_error_In; exact E.
Qed.

Lemma um_V0 st m i : is_one (s_match st) = false -> V0 m -> V0 (update_match st m i).
Proof.
  intros H [L G]. unfold update_match. destruct (s_match st) as [idx|]; [|split; assumption].
  match goal with |- V0 (if ?c then _ else _) => destruct c end; [split; assumption|].
  split; [unfold setm; rewrite upd_length; exact L|]. unfold getm, setm. rewrite nth_upd_neq; [exact G|].
  intros ->. cbn in H. discriminate H.
Qed.

Lemma um_one st m i : s_match st = Some 1 -> V0 m -> getm (update_match st m i) 1 = Some i.
Proof.
  intros H [L G]. unfold update_match. rewrite H. rewrite G. cbv iota. rewrite andb_false_r.
  destruct m as [|a [|b r]]; cbn [length] in L; try lia. reflexivity.
Qed.

Lemma acceptb_true q st : nth_error tb q = Some st -> s_kind st = KAccept -> acceptb tb q = true.
Proof. unfold acceptb; intros -> ->; reflexivity. Qed.

Lemma acceptb_false q st : nth_error tb q = Some st -> s_kind st <> KAccept -> acceptb tb q = false.
Proof. unfold acceptb; intros -> H. destruct (s_kind st); congruence. Qed.

Lemma adv_disc p n i : forall fuel stk new seen acc new' acc',
  adv fuel N p n i (length s <=? i) whole stk new seen acc = Some (new', acc') ->
  (forall q m, In (q, m) stk -> vec_ok i q m) -> posse_v0 new -> acc_ok acc ->
  posse_v0 new' /\ acc_ok acc'.
Proof.
  induction fuel as [|fuel IH]; intros stk new seen acc new' acc' E Hstk Hnew Hacc.
  - destruct stk as [|[q m0] stk']; cbn [adv] in E; [|discriminate]. injection E as <- <-. split; assumption.
  - destruct stk as [|[q m0] stk']; cbn [adv] in E; [injection E as <- <-; split; assumption|].
    assert (Hq : vec_ok i q m0) by (apply Hstk; left; reflexivity).
    assert (Hstk' : forall q' m', In (q', m') stk' -> vec_ok i q' m') by (intros q' m' H; apply Hstk; right; exact H).
    destruct (nth_error tb q) as [st|] eqn:Eq; [|eapply IH; eassumption].
    pose proof (D_st q st Eq) as Dst. unfold disc_st in Dst.
    assert (Push : (s_kind st = KEps \/ exists k, s_kind st = KAnchor k) ->
       forall q' m', In (q', m') (map (fun q' => (q', update_match st m0 i))
                                      (opt_list (s_n1 st) ++ opt_list (s_n2 st)) ++ stk') -> vec_ok i q' m').
    { intros Hk q' m' H. apply in_app_iff in H. destruct H as [H|H]; [|apply Hstk'; exact H].
      apply in_map_iff in H. destruct H as (x & Hx & Hin). injection Hx as -> <-.
      assert (NA : acceptb tb q = false).
      { eapply acceptb_false; [exact Eq|]. destruct Hk as [Hk|[k Hk]]; rewrite Hk; discriminate. }
      unfold vec_ok in Hq. rewrite NA in Hq.
      assert (Dst' : (if is_one (s_match st) then forallb (acceptb tb) (succs st)
                      else forallb (fun q' => negb (acceptb tb q')) (succs st)) = true).
      { destruct Hk as [Hk|[k Hk]]; rewrite Hk in Dst; exact Dst. }
      unfold vec_ok. destruct (is_one (s_match st)) eqn:E1; rewrite forallb_forall in Dst'; specialize (Dst' q' Hin).
      + rewrite Dst'. apply um_one; [|exact Hq]. apply is_one_true. exact E1.
      + apply negb_true_iff in Dst'. rewrite Dst'. apply um_V0; assumption. }
    destruct (s_kind st) eqn:Ek; cbv iota in E; try rewrite Ek in Dst; cbv iota in Dst.
    + assert (A : acceptb tb q = true) by (eapply acceptb_true; eassumption).
      unfold vec_ok in Hq. rewrite A in Hq.
      assert (Um : update_match st m0 i = m0).
      { unfold update_match. destruct (s_match st); [discriminate Dst | reflexivity]. }
      rewrite Um in E. eapply IH; [exact E | exact Hstk' | exact Hnew |].
      destruct ((negb whole || (length s <=? i)) && _) eqn:C; [|exact Hacc].
      intros a [= <-]. exists i. split; [exact Hq|]. intros Hw. rewrite Hw in C.
      apply andb_true_iff in C. destruct C as [C _]. cbn [negb orb] in C. apply Nat.leb_le. exact C.
    + assert (NA : acceptb tb q = false) by (eapply acceptb_false; [exact Eq | rewrite Ek; discriminate]).
      unfold vec_ok in Hq. rewrite NA in Hq.
      apply andb_true_iff in Dst. destruct Dst as [D1 _]. apply negb_true_iff in D1.
      eapply IH; [exact E | exact Hstk' | | exact Hacc].
      intros q' m' H. apply In_padd in H. destruct H as [H| ->]; [eapply Hnew; exact H | apply um_V0; assumption].
    + destruct (memb q seen); [eapply IH; eassumption|].
      destruct (anchor_ok k p n); [|eapply IH; eassumption].
      eapply IH; [exact E | apply Push; right; exists k; reflexivity | exact Hnew | exact Hacc].
    + destruct (memb q seen); [eapply IH; eassumption|].
      eapply IH; [exact E | apply Push; left; reflexivity | exact Hnew | exact Hacc].
Qed.

Lemma step_all_disc i2 ch : forall l new acc new' acc',
  step_all N s i2 whole ch l new acc = Some (new', acc') ->
  posse_v0 l -> posse_v0 new -> acc_ok acc -> posse_v0 new' /\ acc_ok acc'.
Proof.
  induction l as [|[q m] l IH]; intros new acc new' acc' E Hl Hnew Hacc.
  - cbn [step_all] in E. injection E as <- <-. split; assumption.
  - rewrite step_all_cons in E.
    assert (Hl' : posse_v0 l) by (intros q' m' H; eapply Hl; right; exact H).
    destruct (fire N ch q) as [q'|] eqn:F; [|eapply IH; eassumption].
    destruct (advance N s i2 whole (q', m) new acc) as [[new1 acc1]|] eqn:EA; [|discriminate].
    unfold advance in EA. apply fire_spec in F. destruct F as (st & ci & cs & Est & Ek & Ec & E1).
    pose proof (D_st q st Est) as Dst. unfold disc_st in Dst. rewrite Ek in Dst.
    apply andb_true_iff in Dst. destruct Dst as [_ D2]. rewrite forallb_forall in D2.
    assert (NA : acceptb tb q' = false).
    { apply negb_true_iff. apply D2. unfold succs. rewrite E1. left. reflexivity. }
    assert (Hs : forall q0 m0, In (q0, m0) [(q', m)] -> vec_ok i2 q0 m0).
    { intros q0 m0 [H|[]]. injection H as <- <-. unfold vec_ok. rewrite NA. eapply Hl. left. reflexivity. }
    destruct (adv_disc _ _ _ _ _ _ _ _ _ _ EA Hs Hnew Hacc) as [A B]. eapply IH; eassumption.
Qed.

Lemma start_disc (b : bool) i s1 acc s1a acca :
  (if b then advance N s i whole (start_searcher N) s1 acc else Some (s1, acc)) = Some (s1a, acca) ->
  posse_v0 s1 -> acc_ok acc -> posse_v0 s1a /\ acc_ok acca.
Proof.
  intros E H1 H2. destruct b; [|injection E as <- <-; split; assumption].
  unfold advance, start_searcher in E.
  assert (Hs : forall q0 m0, In (q0, m0) [(n_start N, repeat None (n_nsave N))] -> vec_ok i q0 m0).
  { intros q0 m0 [H|[]]. injection H as <- <-. unfold vec_ok.
    pose proof D as D0. unfold slot1_discipline in D0.
    apply andb_true_iff in D0. destruct D0 as [D1 D3]. apply andb_true_iff in D1. destruct D1 as [_ D2].
    apply negb_true_iff in D2. rewrite D2. apply Nat.leb_le in D3.
    split; [rewrite repeat_length; exact D3|]. unfold getm. apply nth_repeat_none. }
  exact (adv_disc _ _ _ _ _ _ _ _ _ _ E Hs H1 H2).
Qed.

Lemma loop_disc search : negb search = whole -> forall k i s1 acc s1' acc',
  loop search N s k i s1 acc = Some (s1', acc') -> posse_v0 s1 -> acc_ok acc -> acc_ok acc'.
Proof.
  intros Hw. induction k as [|k IH]; intros i s1 acc s1' acc' E H1 H2; cbn [loop] in E; rewrite Hw in E.
  - match type of E with match ?X with _ => _ end = _ => destruct X as [[s1a acca]|] eqn:ES; [|discriminate] end.
    cbv beta iota in E. injection E as <- <-. apply (start_disc _ _ _ _ _ _ ES H1 H2).
  - match type of E with match ?X with _ => _ end = _ => destruct X as [[s1a acca]|] eqn:ES; [|discriminate] end.
    cbv beta iota in E.
    destruct (start_disc _ _ _ _ _ _ ES H1 H2) as [A B].
    destruct ((search && early_exit s1a acca) || (whole && is_nil s1a)); [injection E as <- <-; exact B|].
    destruct (nth_error s i) as [ch|]; [|injection E as <- <-; exact B].
    destruct (step_all N s (S i) whole ch s1a [] acca) as [[s2 acc2]|] eqn:ESA; [|discriminate].
    assert (Hnil : posse_v0 []) by (intros q m []).
    destruct (step_all_disc _ _ _ _ _ _ _ ESA A Hnil B) as [A' B'].
    eapply IH; eassumption.
Qed.

End Disc.

(** Whole-string matching for every graph that obeys the slot-1 discipline.  The discipline is proved for
    every [compile_top x] at the end of this file ([compile_top_slot1_discipline]), which gives the
    unconditional [run_matches_iff_path].  The direction [run_nfa false N s = true -> accepts_path N s]
    holds for every graph ([run_matches_sound]). *)
Theorem run_matches_iff_path_partial : forall N s, slot1_discipline N = true ->
  (run_nfa false N s = true <-> accepts_path N s).
Proof.
  intros N s D. split; [apply run_matches_sound|]. intros HP. unfold run_nfa, run.
  destruct (loop false N s (length s) 0 [] None) as [[s1 acc]|] eqn:E; [|exfalso; exact (loop_total _ _ _ _ _ _ _ E)].
  pose proof (proj2 (loop_matches_iff_path N s s1 acc E) HP) as HA.
  destruct acc as [m|]; [|contradiction].
  assert (H1 : posse_v0 []) by (intros q m0 []).
  assert (H2 : acc_ok s true None) by (intros a H; discriminate H).
  pose proof (loop_disc N s true D false eq_refl _ _ _ _ _ _ E H1 H2) as AO.
  destruct (AO m eq_refl) as (e & G & L).
  cbv beta iota. cbn [orb]. rewrite G. specialize (L eq_refl). apply Nat.leb_le in L. rewrite L. reflexivity.
Qed.

(* ------------------------------------------------------------------------------------------ *)
(** * Examples: the theorems applied to (: ( * ($ (or #\a "bc"))) eos) *)

Definition ex_x : xsre :=
  XSeq (XStar true (XSeq (XSub (XSeq (XAlt (XChr (CsChar 97%N)) (XAlt (XStr [98%N; 99%N]) XFail)) XEps)) XEps))
       (XSeq (XAnc Eos) XEps).
Definition ex_N : nfa := compile_top ex_x.

Example ex_adv_fuel_suffices :
  adv (adv_fuel ex_N) ex_N None (Some 97%N) 0 false true [start_searcher ex_N] [] [] None <> None.
Proof. apply adv_fuel_suffices. Qed.

Example ex_run_total : run false ex_N [97%N; 98%N; 99%N] <> None /\ run true ex_N [120%N; 97%N] <> None.
Proof. split; apply run_total. Qed.

Example ex_posse_keys_bounded :
  exists s1 acc, loop true ex_N [97%N; 98%N; 99%N] 3 0 [] None = Some (s1, acc) /\
                 NoDup (keys s1) /\ length s1 <= length (n_tb ex_N) /\ length s1 = 2.
Proof.
  destruct (loop true ex_N [97%N; 98%N; 99%N] 3 0 [] None) as [[s1 acc]|] eqn:E.
  - exists s1, acc. split; [reflexivity|].
    destruct (posse_keys_bounded true ex_N [97%N; 98%N; 99%N] s1 acc E) as (A & _ & B).
    split; [exact A|]. split; [exact B|].
    vm_compute in E. injection E as <- _. reflexivity.
  - vm_compute in E. discriminate E.
Qed.

Example ex_run_search_iff_path : finds_path ex_N [120%N; 97%N; 98%N; 99%N] /\ finds_path ex_N [120%N].
Proof. split; apply run_search_iff_path; vm_compute; reflexivity. Qed.

Example ex_slot1_discipline : slot1_discipline ex_N = true.
Proof. vm_compute. reflexivity. Qed.

Example ex_run_matches_iff_path :
  accepts_path ex_N [97%N; 98%N; 99%N; 97%N] /\ ~ accepts_path ex_N [97%N; 98%N].
Proof.
  split.
  - apply (run_matches_iff_path_partial ex_N _ ex_slot1_discipline). vm_compute. reflexivity.
  - intros H. apply (run_matches_iff_path_partial ex_N _ ex_slot1_discipline) in H. vm_compute in H. discriminate H.
Qed.

Example ex_loop_acc_iff_path :
  ~ finds_path (compile_top (XSeq (XChr (CsChar 97%N)) (XSeq (XAnc Bos) XEps))) [97%N; 97%N].
Proof. intros H. apply run_search_iff_path in H. vm_compute in H. discriminate H. Qed.

(* ------------------------------------------------------------------------------------------ *)
(** * Every graph [compile_top] builds obeys the slot-1 discipline

    Invariant of the table during compilation ([Rtb]): states 0 and 1 are the two fixed states (accept, n3);
    every other state is not an accept state, records no slot or a slot other than 1, and never points
    to state 0.  [alloc] adds such a state at an id >= 2, [patch1]/[patch2] are only applied to ids >= 2
    with a target other than 0, and every entry point [compile] returns is other than 0. *)
Section CompileDisc.
Variables a0 b0 : state.

Definition Gst (st : state) : Prop :=
  s_kind st <> KAccept /\ is_one (s_match st) = false /\ s_n1 st <> Some 0 /\ s_n2 st <> Some 0.

Definition Rtb (tb : list state) : Prop :=
  2 <= length tb /\ nth_error tb 0 = Some a0 /\ nth_error tb 1 = Some b0 /\
  forall q st, 2 <= q -> nth_error tb q = Some st -> Gst st.

Lemma alloc_R st e id e' : Rtb (e_tb e) -> Gst st -> alloc st e = (id, e') -> Rtb (e_tb e') /\ 2 <= id.
Proof.
  intros (L & H0 & H1 & HG) G A. unfold alloc in A. injection A as <- <-. cbn [e_tb]. split; [|exact L].
  split; [rewrite app_length; lia|].
  split; [rewrite nth_error_app1; [exact H0|lia]|]. split; [rewrite nth_error_app1; [exact H1|lia]|].
  intros q st' Hq E. destruct (Nat.lt_ge_cases q (length (e_tb e))) as [Lt|Ge].
  - rewrite nth_error_app1 in E by exact Lt. eapply HG; eassumption.
  - rewrite nth_error_app2 in E by exact Ge.
    destruct (q - length (e_tb e)) as [|d]; cbn [nth_error] in E; [injection E as <-; exact G | destruct d; discriminate E].
Qed.

Lemma nth_error_upd {A} (l : list A) k f q :
  nth_error (upd l k f) q = if q =? k then option_map f (nth_error l q) else nth_error l q.
Proof.
  revert k q; induction l as [|x r IH]; intros [|k] [|q]; cbn [upd nth_error Nat.eqb option_map];
    try reflexivity; try (destruct (_ =? _); reflexivity); apply IH.
Qed.

Lemma upd_R tb id f : Rtb tb -> 2 <= id -> (forall st, Gst st -> Gst (f st)) -> Rtb (upd tb id f).
Proof.
  intros (L & H0 & H1 & HG) Hid Hf. split; [rewrite upd_length; exact L|].
  split; [rewrite nth_error_upd; destruct (0 =? id) eqn:E; [apply Nat.eqb_eq in E; lia | exact H0]|].
  split; [rewrite nth_error_upd; destruct (1 =? id) eqn:E; [apply Nat.eqb_eq in E; lia | exact H1]|].
  intros q st Hq E. rewrite nth_error_upd in E. destruct (q =? id); [|eapply HG; eassumption].
  destruct (nth_error tb q) as [st0|] eqn:E0; [|discriminate E]. cbn [option_map] in E. injection E as <-.
  apply Hf. eapply HG; eassumption.
Qed.

Lemma patch1_R id n e : Rtb (e_tb e) -> 2 <= id -> n <> Some 0 -> Rtb (e_tb (patch1 id n e)).
Proof.
  intros HR Hid Hn. unfold patch1. cbn [e_tb]. apply upd_R; [exact HR | exact Hid|].
  intros st (A & B & C & D'). repeat split; cbn [s_kind s_match s_n1 s_n2]; assumption.
Qed.

Lemma patch2_R id n e : Rtb (e_tb e) -> 2 <= id -> n <> Some 0 -> Rtb (e_tb (patch2 id n e)).
Proof.
  intros HR Hid Hn. unfold patch2. cbn [e_tb]. apply upd_R; [exact HR | exact Hid|].
  intros st (A & B & C & D'). repeat split; cbn [s_kind s_match s_n1 s_n2]; assumption.
Qed.

Lemma is_one_ge2 k : 2 <= k -> is_one (Some k) = false.
Proof. destruct k as [|[|k]]; [lia | lia | reflexivity]. Qed.

Definition cspec (f : nat -> cenv -> option nat * cenv) : Prop :=
  forall next e r e', next <> 0 -> Rtb (e_tb e) -> f next e = (r, e') -> Rtb (e_tb e') /\ r <> Some 0.

Ltac nz := first [assumption | discriminate | (let HH := fresh in intros HH; injection HH as HH; lia)].
Ltac gst := unfold Gst, eps_state, fork_state, char_state, anchor_state; cbn [s_kind s_match s_n1 s_n2];
            repeat split; try nz; try reflexivity; try (apply is_one_ge2; lia).
Ltac al H :=
  match type of H with
  | context [alloc ?st ?e] =>
      let id := fresh "id" in let e1 := fresh "e" in let A := fresh "A" in let RR := fresh "RR" in
      destruct (alloc st e) as [id e1] eqn:A;
      assert (RR : Rtb (e_tb e1) /\ 2 <= id) by (apply (alloc_R st e id e1); [assumption | gst | exact A]);
      destruct RR as [? ?]; clear A; cbv beta iota zeta in H
  end.
Ltac callt H t pf :=
  let r := fresh "r" in let e1 := fresh "e" in let C := fresh "C" in let RR := fresh "RR" in
  destruct t as [r e1] eqn:C;
  assert (RR : Rtb (e_tb e1) /\ r <> Some 0) by (refine (pf _ _ _ _ _ _ C); [first [assumption | lia] | first [assumption | apply patch2_R; [assumption | lia | nz]]]);
  destruct RR as [? ?]; clear C; cbv beta iota zeta in H.
Ltac rc H :=
  match type of H with
  | context [compile ?x ?ci ?nc ?nx ?e] =>
      match goal with IH : forall ci nocap, cspec (compile x ci nocap) |- _ =>
        callt H (compile x ci nc nx e) (IH ci nc) end
  end.
Ltac fin H :=
  injection H as <- <-;
  split; [ repeat first [assumption | apply patch1_R | apply patch2_R | lia | nz] | nz ].

Lemma compile_chars_R l ci : cspec (compile_chars l ci).
Proof.
  induction l as [|c l IH]; intros next e r e' Hn HR H; cbn [compile_chars] in H.
  - fin H.
  - al H. al H. callt H (compile_chars l ci next e1) IH. fin H.
Qed.

Lemma compile_items_R cb : (forall sb, cspec (cb sb)) -> forall items, cspec (compile_items cb items).
Proof.
  intros Hcb. induction items as [|it rest IH]; intros next e r e' Hn HR H; cbn [compile_items] in H.
  - fin H.
  - al H. destruct it as [sb|sb|].
    + callt H (cb sb id e0) (Hcb sb). callt H (compile_items cb rest next e1) IH. fin H.
    + al H. callt H (cb sb id0 e1) (Hcb sb). al H. callt H (compile_items cb rest next e3) IH. fin H.
    + al H. al H. callt H (cb true id1 e2) (Hcb true). al H.
      match type of H with context [compile_items cb rest next ?ee] => callt H (compile_items cb rest next ee) IH end.
      fin H.
Qed.

Lemma compile_R : forall x ci nocap, cspec (compile x ci nocap).
Proof.
  induction x; intros ci nocap next e r e' Hn HR H; cbn [compile] in H.
  - (* XEps *) fin H.
  - (* XFail *) fin H.
  - (* XChr *) al H. fin H.
  - (* XStr *) eapply compile_chars_R; eassumption.
  - (* XSeq *) al H. rc H. rc H. fin H.
  - (* XAlt *) destruct (is_cset (XAlt x1 x2)).
    + al H. fin H.
    + destruct x2; try solve [rc H; rc H; al H; fin H].
      eapply IHx1; eassumption.
  - (* XBar *) eapply IHx; eassumption.
  - (* XStar *) al H. rc H. al H. fin H.
  - (* XPlus *) al H. rc H. fin H.
  - (* XOpt *) rc H. al H. fin H.
  - (* XRep *)
    refine (compile_items_R _ _ _ _ _ _ _ Hn HR H).
    intros sb. exact (IHx ci (nocap || negb sb)).
  - (* XSub *) destruct nocap; [eapply IHx; eassumption|].
    al H. rc H. al H. injection H as <- <-. split; [|nz]. destruct (ngs x); cbn [e_tb]; assumption.
  - (* XNamed *) destruct nocap; [eapply IHx; eassumption|].
    al H. rc H. al H. injection H as <- <-. split; [|nz]. destruct (ngs x); cbn [e_tb]; assumption.
  - (* XNoCap *) eapply IHx; eassumption.
  - (* XWord *) al H. al H. rc H. al H. al H. fin H.
  - (* XAnc *) al H. fin H.
  - (* XNoCase *) eapply IHx; eassumption.
  - (* XCase *) eapply IHx; eassumption.
Qed.

Lemma Rtb_acceptb tb q : s_kind a0 = KAccept -> s_kind b0 = KEps -> Rtb tb -> acceptb tb q = (q =? 0).
Proof.
  intros Ha Hb (L & H0 & H1 & HG). unfold acceptb. destruct q as [|[|q]].
  - rewrite H0, Ha. reflexivity.
  - rewrite H1, Hb. reflexivity.
  - destruct (nth_error tb (S (S q))) as [st|] eqn:E; [|reflexivity].
    assert (Hq : 2 <= S (S q)) by lia.
    destruct (HG _ _ Hq E) as (A & _). destruct (s_kind st); try reflexivity. congruence.
Qed.

Lemma Rtb_discipline tb start nsave ngi :
  s_kind a0 = KAccept -> s_match a0 = None ->
  s_kind b0 = KEps -> s_match b0 = Some 1 -> s_n1 b0 = Some 0 -> s_n2 b0 = None ->
  Rtb tb -> 2 <= start -> 2 <= nsave -> slot1_discipline (mkNfa tb start nsave ngi) = true.
Proof.
  intros Ha1 Ha2 Hb1 Hb2 Hb3 Hb4 HR Hs Hn. pose proof HR as (L & H0 & H1 & HG).
  unfold slot1_discipline. cbn [n_tb n_start n_nsave].
  assert (AB : forall q, acceptb tb q = (q =? 0)) by (intros q; apply Rtb_acceptb; assumption).
  apply andb_true_iff. split; [apply andb_true_iff; split|].
  - apply forallb_forall. intros st Hin. apply In_nth_error in Hin. destruct Hin as [q Eq].
    unfold disc_st. destruct q as [|[|q]].
    + rewrite H0 in Eq. injection Eq as <-. rewrite Ha1, Ha2. reflexivity.
    + rewrite H1 in Eq. injection Eq as <-. rewrite Hb1, Hb2. cbn [is_one]. unfold succs. rewrite Hb3, Hb4.
      cbn [opt_list app forallb]. rewrite AB. reflexivity.
    + assert (Hq : 2 <= S (S q)) by lia. destruct (HG _ _ Hq Eq) as (A & B & C & D').
      assert (F : forallb (fun q' => negb (acceptb tb q')) (succs st) = true).
      { apply forallb_forall. intros q' Hq'. rewrite AB. unfold succs in Hq'. apply in_app_iff in Hq'.
        destruct q' as [|q']; [|reflexivity]. exfalso.
        destruct Hq' as [Hq'|Hq'].
        - destruct (s_n1 st) as [x|]; cbn [opt_list In] in Hq'; [|contradiction]. destruct Hq' as [->|[]]. apply C. reflexivity.
        - destruct (s_n2 st) as [x|]; cbn [opt_list In] in Hq'; [|contradiction]. destruct Hq' as [->|[]]. apply D'. reflexivity. }
      rewrite B. cbn [negb andb]. destruct (s_kind st); try exact F. congruence.
  - rewrite AB. destruct start as [|start]; [lia | reflexivity].
  - apply Nat.leb_le. exact Hn.
Qed.

End CompileDisc.

Theorem compile_top_slot1_discipline : forall x, slot1_discipline (compile_top x) = true.
Proof.
  intros x. unfold compile_top. cbn [alloc e_tb e_nsub e_ngi length app].
  set (a0 := mkState KAccept None RNone None None).
  set (b0 := mkState KEps (Some 1) (end_rule (ngs x)) (Some 0) None).
  assert (HR : Rtb a0 b0 (e_tb (mkEnv [a0; b0] 0 []))).
  { cbn [e_tb]. split; [cbn [length]; lia|]. split; [reflexivity|]. split; [reflexivity|].
    intros q st Hq E. destruct q as [|[|q]]; [lia | lia |]. cbn [nth_error] in E. destruct q; discriminate E. }
  destruct (compile x false false 1 (mkEnv [a0; b0] 0 [])) as [n2 e1] eqn:C.
  destruct (compile_R a0 b0 x false false 1 _ _ _ (Nat.neq_succ_0 0) HR C) as [R1 Hn2].
  destruct (alloc (mkState KEps (Some 0) RLeft n2 None) e1) as [n1 e2] eqn:A.
  assert (G : Gst (mkState KEps (Some 0) RLeft n2 None)).
  { unfold Gst. cbn [s_kind s_match s_n1 s_n2 is_one]. repeat split; try discriminate; try reflexivity. exact Hn2. }
  destruct (alloc_R a0 b0 _ _ _ _ R1 G A) as [R2 Hn1].
  unfold alloc in A. injection A as <- <-. cbn [e_tb] in R2.
  apply (Rtb_discipline a0 b0); try reflexivity; try assumption. lia.
Qed.

(** whole-string matching: the simulation accepts exactly when an accepting path exists *)
Theorem run_matches_iff_path : forall x s,
  run_nfa false (compile_top x) s = true <-> accepts_path (compile_top x) s.
Proof. intros x s. apply run_matches_iff_path_partial. apply compile_top_slot1_discipline. Qed.

Example ex_run_matches_iff_path_full :
  accepts_path (compile_top ex_x) [98%N; 99%N; 97%N] /\ ~ accepts_path (compile_top ex_x) [98%N; 97%N].
Proof.
  split.
  - apply run_matches_iff_path. vm_compute. reflexivity.
  - intros H. apply run_matches_iff_path in H. vm_compute in H. discriminate H.
Qed.
