(** C20 — the Thompson-style construction [compile_top] of Nfa.v is correct for the SPEC language [L] of Re.v:
    the graph has an accepting path on s  <->  s is in the language.
    Method: a declarative description [Frag] of the graph shape of each fragment in any final table that
    agrees with the compile-time table on the fragment's ids; semantic combinators [FC] ("fragment correct":
    complete, and sound in the form "the first exit of the fragment is through next"). *)
From ChibiV Require Import C20.Re C20.Proofs C20.Nfa C20.NfaSem.
Import ListNotations.
Local Open Scope nat_scope.

(* ------------------------------------------------------------------------------------------ *)
(** * Lists *)

Lemma app_eq_len {A} (a a' x x' : list A) :
  a ++ x = a' ++ x' -> length a = length a' -> a = a' /\ x = x'.
Proof.
  revert a'. induction a as [|h a IH]; intros [|h' a'] E Hl; cbn [length app] in *; try discriminate.
  - auto.
  - injection E as -> E. injection Hl as Hl. destruct (IH _ E Hl) as [-> ->]. auto.
Qed.

Lemma prevc_app (a r : list char) : prevc (a ++ r) (length a) = lastc None a.
Proof.
  destruct a as [|x a] using rev_ind; [reflexivity|].
  rewrite app_length. cbn [length]. replace (length a + 1) with (S (length a)) by lia.
  cbn [prevc]. rewrite <- app_assoc. rewrite nth_error_app2 by lia. rewrite Nat.sub_diag.
  rewrite lastc_app. reflexivity.
Qed.

Lemma nth_error_app_len (a c : list char) : nth_error (a ++ c) (length a) = firstc c None.
Proof. rewrite nth_error_app2 by lia. rewrite Nat.sub_diag. destruct c; reflexivity. Qed.

Section Graph.
Variable T : list state.
Variable s : list char.

(* ------------------------------------------------------------------------------------------ *)
(** * Paths *)

Definition cfg : Type := (nat * nat)%type.

Inductive pathn : nat -> cfg -> cfg -> Prop :=
| pathn_0 : forall c, pathn 0 c c
| pathn_S : forall k c c' c'', step T s c c' -> pathn k c' c'' -> pathn (S k) c c''.

Lemma path_pathn c c' : path T s c c' <-> exists k, pathn k c c'.
Proof.
  split.
  - intros H. induction H as [c|c c1 c2 Hs _ (k & Hk)].
    + exists 0. constructor.
    + exists (S k). econstructor; eauto.
  - intros (k & Hk). induction Hk as [c|k c c1 c2 Hs _ IH].
    + constructor.
    + econstructor; eauto.
Qed.

Lemma path_trans c1 c2 c3 : path T s c1 c2 -> path T s c2 c3 -> path T s c1 c3.
Proof.
  intros H. induction H as [c|c c1 c2 Hs _ IH]; intros H3; [exact H3|].
  econstructor; [exact Hs|]. apply IH. exact H3.
Qed.

Lemma path_step c1 c2 c3 : step T s c1 c2 -> path T s c2 c3 -> path T s c1 c3.
Proof. intros. econstructor; eauto. Qed.

Lemma path_refl c : path T s c c.
Proof. constructor. Qed.

Definition is_eps (q : nat) (n1 n2 : option nat) : Prop :=
  exists st, nth_error T q = Some st /\ s_kind st = KEps /\ s_n1 st = n1 /\ s_n2 st = n2.
Definition is_chr (q : nat) (ci : bool) (cs : cset) (nx : nat) : Prop :=
  exists st, nth_error T q = Some st /\ s_kind st = KChar ci cs /\ s_n1 st = Some nx /\ s_n2 st = None.
Definition is_anc (q : nat) (k : anchor) (nx : nat) : Prop :=
  exists st, nth_error T q = Some st /\ s_kind st = KAnchor k /\ s_n1 st = Some nx /\ s_n2 st = None.

Lemma step_eps_inv q n1 n2 i c : is_eps q n1 n2 -> step T s (q, i) c ->
  exists q1, c = (q1, i) /\ (n1 = Some q1 \/ n2 = Some q1).
Proof.
  intros (st & Hn & Hk & H1 & H2) Hs.
  inversion Hs as [q0 i0 st0 q1 Hn0 Hg Hn1 | q0 i0 st0 q1 Hn0 Hg Hn1 | q0 i0 st0 ci cs ch q1 Hn0 Hk0 Hc Hm Hn1];
    subst; rewrite Hn in Hn0; injection Hn0 as <-.
  - exists q1. split; [reflexivity|]. left. congruence.
  - exists q1. split; [reflexivity|]. right. congruence.
  - congruence.
Qed.

Lemma step_chr_inv q ci cs nx i c : is_chr q ci cs nx -> step T s (q, i) c ->
  c = (nx, S i) /\ exists ch, nth_error s i = Some ch /\ cs_mem ci cs ch = true.
Proof.
  intros (st & Hn & Hk & H1 & H2) Hs.
  inversion Hs as [q0 i0 st0 q1 Hn0 Hg Hn1 | q0 i0 st0 q1 Hn0 Hg Hn1 | q0 i0 st0 ci0 cs0 ch q1 Hn0 Hk0 Hc Hm Hn1];
    subst; rewrite Hn in Hn0; injection Hn0 as <-.
  - unfold guard_ok in Hg. rewrite Hk in Hg. discriminate.
  - congruence.
  - rewrite Hk in Hk0. injection Hk0 as <- <-. split; [congruence|]. eauto.
Qed.

Lemma step_anc_inv q k nx i c : is_anc q k nx -> step T s (q, i) c ->
  c = (nx, i) /\ anchor_ok k (prevc s i) (nth_error s i) = true.
Proof.
  intros (st & Hn & Hk & H1 & H2) Hs.
  inversion Hs as [q0 i0 st0 q1 Hn0 Hg Hn1 | q0 i0 st0 q1 Hn0 Hg Hn1 | q0 i0 st0 ci0 cs0 ch q1 Hn0 Hk0 Hc Hm Hn1];
    subst; rewrite Hn in Hn0; injection Hn0 as <-.
  - unfold guard_ok in Hg. rewrite Hk in Hg. split; [congruence|exact Hg].
  - congruence.
  - congruence.
Qed.

Lemma step_eps1 q n1 n2 q1 i : is_eps q n1 n2 -> n1 = Some q1 -> step T s (q, i) (q1, i).
Proof.
  intros (st & Hn & Hk & H1 & H2) E. eapply step_n1; [exact Hn| |congruence].
  unfold guard_ok. rewrite Hk. reflexivity.
Qed.
Lemma step_eps2 q n1 n2 q1 i : is_eps q n1 n2 -> n2 = Some q1 -> step T s (q, i) (q1, i).
Proof.
  intros (st & Hn & Hk & H1 & H2) E. eapply step_n2; [exact Hn| |congruence].
  unfold guard_ok. rewrite Hk. reflexivity.
Qed.

(* ------------------------------------------------------------------------------------------ *)
(** * Fragment correctness, on position languages *)

Definition plang : Type := nat -> nat -> Prop.

Definition FC (P : plang) (next : nat) (entry : option nat) (R : nat -> Prop) : Prop :=
  (forall i j, P i j -> exists q0, entry = Some q0 /\ path T s (q0, i) (next, j)) /\
  (forall k q0 i q' j', entry = Some q0 -> i <= length s -> pathn k (q0, i) (q', j') -> ~ R q' ->
     exists j k', k' <= k /\ j <= length s /\ P i j /\ pathn k' (next, j) (q', j')).

Lemma FC_ext (P Q : plang) next entry R : (forall i j, P i j <-> Q i j) -> FC P next entry R -> FC Q next entry R.
Proof.
  intros E [C S]. split.
  - intros i j H. apply C. apply E. exact H.
  - intros k q0 i q' j' He Hi Hp HR. destruct (S k q0 i q' j' He Hi Hp HR) as (j & k' & A & B & D & F).
    exists j, k'. repeat split; auto. apply E. exact D.
Qed.

Lemma FC_weaken (P : plang) next entry (R R' : nat -> Prop) :
  (forall q, R q -> R' q) -> FC P next entry R -> FC P next entry R'.
Proof.
  intros E [C S]. split; [exact C|].
  intros k q0 i q' j' He Hi Hp HR. apply (S k q0 i q' j' He Hi Hp). intros H. apply HR, E, H.
Qed.

Definition Peps : plang := fun i j => i = j /\ j <= length s.

Lemma FC_eps next R : FC Peps next (Some next) R.
Proof.
  split.
  - intros i j [-> _]. exists next. split; [reflexivity|apply path_refl].
  - intros k q0 i q' j' He Hi Hp HR. injection He as <-. exists i, k. unfold Peps. repeat split; auto.
Qed.

Lemma FC_fail next R : FC (fun _ _ => False) next None R.
Proof. split; [intros i j []|intros; discriminate]. Qed.

Definition Pchr (ci : bool) (cs : cset) : plang :=
  fun i j => j = S i /\ exists c, nth_error s i = Some c /\ cs_in ci cs c.

Lemma FC_chr q ci cs next (R : nat -> Prop) : is_chr q ci cs next -> R q -> FC (Pchr ci cs) next (Some q) R.
Proof.
  intros Hq HRq. split.
  - intros i j [-> (c & Hc & Hin)]. exists q. split; [reflexivity|].
    destruct Hq as (st & Hn & Hk & H1 & H2).
    eapply path_step; [|apply path_refl].
    eapply step_chr; eauto. apply cs_mem_spec. exact Hin.
  - intros k q0 i q' j' He Hi Hp HR. injection He as <-.
    inversion Hp as [c0|k0 c0 c1 c2 Hs Hp']; subst.
    + contradiction.
    + destruct (step_chr_inv _ _ _ _ _ _ Hq Hs) as [-> (ch & Hch & Hm)].
      exists (S i), k0. split; [lia|]. split.
      * assert (i < length s) by (apply nth_error_Some; congruence). lia.
      * split; [|exact Hp']. split; [reflexivity|]. exists ch. split; [exact Hch|]. apply cs_mem_spec. exact Hm.
Qed.

Definition Panc (a : anchor) : plang :=
  fun i j => i = j /\ j <= length s /\ anchor_ok a (prevc s i) (nth_error s i) = true.

Lemma FC_anc q a next (R : nat -> Prop) : is_anc q a next -> R q -> FC (Panc a) next (Some q) R.
Proof.
  intros Hq HRq. split.
  - intros i j (-> & _ & Ha). exists q. split; [reflexivity|].
    destruct Hq as (st & Hn & Hk & H1 & H2).
    eapply path_step; [|apply path_refl].
    eapply step_n1; eauto. unfold guard_ok. rewrite Hk. exact Ha.
  - intros k q0 i q' j' He Hi Hp HR. injection He as <-.
    inversion Hp as [c0|k0 c0 c1 c2 Hs Hp']; subst.
    + contradiction.
    + destruct (step_anc_inv _ _ _ _ _ Hq Hs) as [-> Ha].
      exists i, k0. unfold Panc. repeat split; auto.
Qed.

Definition Pseq (P Q : plang) : plang := fun i j => exists k, P i k /\ Q k j.

Lemma FC_seq (P Q : plang) m next entry R :
  FC P m entry R -> FC Q next (Some m) R -> FC (Pseq P Q) next entry R.
Proof.
  intros [C1 S1] [C2 S2]. split.
  - intros i j (k & HP & HQ). destruct (C1 _ _ HP) as (q0 & He & Hp1).
    destruct (C2 _ _ HQ) as (q1 & He1 & Hp2). injection He1 as <-.
    exists q0. split; [exact He|]. eapply path_trans; eauto.
  - intros k q0 i q' j' He Hi Hp HR.
    destruct (S1 k q0 i q' j' He Hi Hp HR) as (j1 & k1 & Hk1 & Hj1 & HP & Hp1).
    destruct (S2 k1 m j1 q' j' eq_refl Hj1 Hp1 HR) as (j2 & k2 & Hk2 & Hj2 & HQ & Hp2).
    exists j2, k2. split; [lia|]. split; [exact Hj2|]. split; [|exact Hp2]. exists j1. auto.
Qed.

Definition Por (P Q : plang) : plang := fun i j => P i j \/ Q i j.

Lemma FC_fork (P Q : plang) q n1 n2 next (R : nat -> Prop) :
  is_eps q n1 n2 -> R q -> FC P next n1 R -> FC Q next n2 R -> FC (Por P Q) next (Some q) R.
Proof.
  intros Hq HRq [C1 S1] [C2 S2]. split.
  - intros i j [H|H].
    + destruct (C1 _ _ H) as (q1 & He & Hp). exists q. split; [reflexivity|].
      eapply path_step; [|exact Hp]. eapply step_eps1; eauto.
    + destruct (C2 _ _ H) as (q1 & He & Hp). exists q. split; [reflexivity|].
      eapply path_step; [|exact Hp]. eapply step_eps2; eauto.
  - intros k q0 i q' j' He Hi Hp HR. injection He as <-.
    inversion Hp as [c0|k0 c0 c1 c2 Hs Hp']; subst.
    + contradiction.
    + destruct (step_eps_inv _ _ _ _ _ Hq Hs) as (q1 & -> & [E|E]).
      * destruct (S1 k0 q1 i q' j' E Hi Hp' HR) as (j & k' & A & B & D & F).
        exists j, k'. split; [lia|]. split; [exact B|]. split; [left; exact D|exact F].
      * destruct (S2 k0 q1 i q' j' E Hi Hp' HR) as (j & k' & A & B & D & F).
        exists j, k'. split; [lia|]. split; [exact B|]. split; [right; exact D|exact F].
Qed.

Inductive pstar (P : plang) : plang :=
| pstar_nil : forall i, i <= length s -> pstar P i i
| pstar_cons : forall i k j, P i k -> pstar P k j -> pstar P i j.

(** the loop state [a]: either leave to [next], or go round through the fragment [e2] that comes back to [a] *)
Lemma FC_loop (P : plang) a e2 next (R : nat -> Prop) :
  is_eps a (Some next) e2 -> R a -> FC P a e2 R -> FC (pstar P) next (Some a) R.
Proof.
  intros Ha HRa [C S]. split.
  - intros i j H. exists a. split; [reflexivity|].
    induction H as [i Hi|i k j HP _ IH].
    + eapply path_step; [|apply path_refl]. eapply step_eps1; eauto.
    + destruct (C _ _ HP) as (q0 & He & Hp).
      eapply path_step; [eapply step_eps2; eauto|]. eapply path_trans; eauto.
  - intros k. induction k as [k IH] using lt_wf_ind.
    intros q0 i q' j' He Hi Hp HR. injection He as <-.
    inversion Hp as [c0|k0 c0 c1 c2 Hs Hp']; subst.
    + contradiction.
    + destruct (step_eps_inv _ _ _ _ _ Ha Hs) as (q1 & -> & [E|E]).
      * injection E as <-. exists i, k0. split; [lia|]. split; [exact Hi|]. split; [|exact Hp'].
        constructor. exact Hi.
      * destruct (S k0 q1 i q' j' E Hi Hp' HR) as (j1 & k1 & A & B & D & F).
        destruct (IH k1 ltac:(lia) a j1 q' j' eq_refl B F HR) as (j2 & k2 & A2 & B2 & D2 & F2).
        exists j2, k2. split; [lia|]. split; [exact B2|]. split; [|exact F2].
        econstructor; eauto.
Qed.

(* ------------------------------------------------------------------------------------------ *)
(** * The SPEC languages on positions of [s] *)

Definition Lat (P : lang) : plang := fun i j =>
  exists a b c, s = a ++ b ++ c /\ i = length a /\ j = length a + length b /\ P (lastc None a) b (firstc c None).

Lemma Lat_bounds P i j : Lat P i j -> i <= j /\ j <= length s.
Proof. intros (a & b & c & -> & -> & -> & _). rewrite !app_length. lia. Qed.

Lemma Lat_ext (P Q : lang) : (forall p t n, P p t n <-> Q p t n) -> forall i j, Lat P i j <-> Lat Q i j.
Proof.
  intros E i j. split; intros (a & b & c & H1 & H2 & H3 & H4); exists a, b, c; repeat split; auto; apply E; exact H4.
Qed.

Lemma split_at i : i <= length s -> exists a c, s = a ++ c /\ length a = i.
Proof.
  intros H. exists (firstn i s), (skipn i s). split; [symmetry; apply firstn_skipn|].
  apply firstn_length_le. exact H.
Qed.

Lemma Lat_nil (X : option char -> option char -> Prop) i j :
  Lat (fun p t n => t = [] /\ X p n) i j <-> i = j /\ j <= length s /\ X (prevc s i) (nth_error s i).
Proof.
  split.
  - intros (a & b & c & -> & -> & -> & -> & HX). cbn [length app]. rewrite app_length.
    split; [lia|]. split; [lia|]. rewrite prevc_app, nth_error_app_len. exact HX.
  - intros (<- & Hi & HX). destruct (split_at i Hi) as (a & c & E & Hl).
    exists a, [], c. cbn [app length]. split; [exact E|]. split; [auto|]. split; [lia|].
    split; [reflexivity|]. subst i. rewrite E in HX. rewrite prevc_app, nth_error_app_len in HX. exact HX.
Qed.

Lemma Lat_chr (X : char -> Prop) i j :
  Lat (fun _ t _ => exists c, t = [c] /\ X c) i j <-> j = S i /\ exists c, nth_error s i = Some c /\ X c.
Proof.
  split.
  - intros (a & b & c & -> & -> & -> & ch & -> & HX). cbn [length]. split; [lia|].
    exists ch. split; [|exact HX]. rewrite nth_error_app_len. reflexivity.
  - intros (-> & ch & Hn & HX). apply nth_error_split in Hn. destruct Hn as (l1 & l2 & E & Hl).
    exists l1, [ch], l2. cbn [app length]. split; [exact E|]. split; [auto|]. split; [lia|]. eauto.
Qed.

Lemma Lat_seq (P Q : lang) i j :
  Lat (fun p t n => exists s1 s2, t = s1 ++ s2 /\ P p s1 (firstc s2 n) /\ Q (lastc p s1) s2 n) i j <->
  Pseq (Lat P) (Lat Q) i j.
Proof.
  split.
  - intros (a & b & c & E & -> & -> & s1 & s2 & -> & HP & HQ).
    exists (length a + length s1). split.
    + exists a, s1, (s2 ++ c). split; [rewrite E, <- app_assoc; reflexivity|].
      split; [reflexivity|]. split; [reflexivity|]. rewrite firstc_app. exact HP.
    + exists (a ++ s1), s2, c. split; [rewrite E, <- !app_assoc; reflexivity|].
      rewrite !app_length. split; [reflexivity|]. split; [lia|]. rewrite lastc_app. exact HQ.
  - intros (k & (a1 & b1 & c1 & E1 & -> & -> & HP) & (a2 & b2 & c2 & E2 & Hl & -> & HQ)).
    assert (a2 = a1 ++ b1 /\ b2 ++ c2 = c1) as [-> <-].
    { rewrite E1, app_assoc in E2. symmetry in E2. apply app_eq_len in E2; [tauto|].
      rewrite app_length. lia. }
    exists a1, (b1 ++ b2), c2. split; [rewrite E1, <- app_assoc; reflexivity|].
    split; [reflexivity|]. rewrite !app_length. split; [lia|].
    exists b1, b2. split; [reflexivity|]. rewrite <- firstc_app, <- lastc_app. auto.
Qed.

Lemma Lat_or (P Q : lang) i j : Lat (fun p t n => P p t n \/ Q p t n) i j <-> Por (Lat P) (Lat Q) i j.
Proof.
  split.
  - intros (a & b & c & H1 & H2 & H3 & [H|H]); [left|right]; exists a, b, c; auto.
  - intros [(a & b & c & H1 & H2 & H3 & H)|(a & b & c & H1 & H2 & H3 & H)]; exists a, b, c; auto.
Qed.

Lemma Lat_false i j : Lat (fun _ _ _ => False) i j <-> False.
Proof. split; [intros (a & b & c & _ & _ & _ & [])|intros []]. Qed.

Lemma Lat_eps i j : Lat (fun _ t _ => t = []) i j <-> Peps i j.
Proof.
  rewrite (Lat_ext _ (fun p t n => t = [] /\ (fun _ _ => True) p n)) by (intros; tauto).
  rewrite Lat_nil. unfold Peps. tauto.
Qed.

Fixpoint ppow (P : plang) (n : nat) : plang :=
  fun i j => match n with O => Peps i j | S n' => Pseq P (ppow P n') i j end.

Lemma Lat_pow (P : lang) n : forall i j, Lat (LPow P n) i j <-> ppow (Lat P) n i j.
Proof.
  induction n as [|n IH]; intros i j; cbn [ppow].
  - apply Lat_eps.
  - change (LPow P (S n)) with
      (fun p t n0 => exists s1 s2, t = s1 ++ s2 /\ P p s1 (firstc s2 n0) /\ LPow P n (lastc p s1) s2 n0).
    rewrite Lat_seq. unfold Pseq. split; intros (k & H1 & H2); exists k; (split; [exact H1|apply IH; exact H2]).
Qed.

Lemma pstar_ppow (P : plang) i j : pstar P i j <-> exists n, ppow P n i j.
Proof.
  split.
  - intros H. induction H as [i Hi|i k j HP _ (n & Hn)].
    + exists 0. split; auto.
    + exists (S n), k. auto.
  - intros (n & Hn). revert i Hn. induction n as [|n IH]; intros i Hn; cbn [ppow] in Hn.
    + destruct Hn as [-> Hj]. constructor. exact Hj.
    + destruct Hn as (k & HP & Hk). econstructor; eauto.
Qed.

Lemma Lat_ex {A} (P : A -> lang) i j : Lat (fun p t n => exists x, P x p t n) i j <-> exists x, Lat (P x) i j.
Proof.
  split.
  - intros (a & b & c & H1 & H2 & H3 & x & H). exists x, a, b, c. auto.
  - intros (x & a & b & c & H1 & H2 & H3 & H). exists a, b, c. eauto 6.
Qed.

Lemma Lat_star (P : lang) i j : Lat (LStar P) i j <-> pstar (Lat P) i j.
Proof.
  rewrite (Lat_ext _ (fun p t n => exists k, LPow P k p t n)) by (intros; apply LStar_LPow).
  rewrite Lat_ex, pstar_ppow. split; intros (n & H); exists n; apply Lat_pow; exact H.
Qed.

End Graph.

(* ------------------------------------------------------------------------------------------ *)
(** * All-char-set alternations: [cset_of] has the language of the alternation *)

Definition CSL (x : xsre) : Prop :=
  is_cset x = true -> wf_x x = true ->
  forall ci p t n, L ci (to_sre true x) p t n <-> exists c, t = [c] /\ cs_in ci (cset_of x) c.

Lemma cset_of_alt a b ci c :
  cs_in ci (cset_of (XAlt a b)) c <-> cs_in ci (cset_of a) c \/ cs_in ci (cset_of b) c.
Proof.
  destruct b; cbn [cset_of cs_in]; try tauto.
  unfold cs_empty. cbn [cs_in]. tauto.
Qed.

Lemma seq_eps_lang (P : lang) p t n :
  (exists s1 s2, t = s1 ++ s2 /\ P p s1 (firstc s2 n) /\ s2 = []) <-> P p t n.
Proof.
  split.
  - intros (s1 & s2 & -> & H & ->). rewrite app_nil_r. exact H.
  - intros H. exists t, []. rewrite app_nil_r. auto.
Qed.

Lemma cset_lang_aux x : CSL x /\ (forall a, x = XSeq a XEps -> CSL a).
Proof.
  induction x as [| |cs|l|a IHa b IHb|a IHa b IHb|a IHa|g a IHa|a IHa|g a IHa|g m n a IHa|a IHa|a IHa|a IHa|a IHa|k|a IHa|a IHa];
    (split; [|intros a0 E; try discriminate E]); unfold CSL; try (intros Hc; discriminate Hc).
  - (* XFail *) intros _ _ ci p t n. cbn [to_sre L cset_of]. unfold cs_empty. cbn [cs_in].
    split; [intros []|intros (c & _ & _ & H); apply H; exact I].
  - (* XChr *) intros _ _ ci p t n. reflexivity.
  - (* XStr *) intros Hc _ ci p t n. destruct l as [|c [|c' l]]; try discriminate Hc.
    cbn [to_sre fold_right cset_of]. cbn [L]. rewrite (seq_eps_lang (fun p t n => exists c0, t = [c0] /\ cs_in ci (CsChar c) c0) p t n).
    reflexivity.
  - (* XSeq, second part *) injection E as -> ->. apply (proj1 IHa).
  - (* XAlt *) intros Hc Hw ci p t n. cbn [is_cset] in Hc. cbn [wf_x] in Hw.
    apply andb_true_iff in Hc. apply andb_true_iff in Hw. destruct Hc as [Ha Hb]. destruct Hw as [Wa Wb].
    cbn [to_sre L]. rewrite (proj1 IHa Ha Wa), (proj1 IHb Hb Wb). split.
    + intros [(c & E & H)|(c & E & H)]; exists c; (split; [exact E|]); apply cset_of_alt; auto.
    + intros (c & E & H). apply cset_of_alt in H. destruct H as [H|H]; [left|right]; eauto.
  - (* XBar *) intros Hc Hw ci p t n. apply (proj1 IHa Hc Hw).
  - (* XNoCase *) intros Hc Hw ci p t n. cbn [is_cset] in Hc. cbn [wf_x] in Hw.
    apply andb_true_iff in Hw. destruct Hw as [Wa Wm]. rewrite Hc in Wm. cbn [negb orb] in Wm.
    destruct a as [| | | |a1 a2| | | | | | | | | | | | |]; try discriminate Wm.
    destruct a2; try discriminate Wm.
    cbn [elems_cset] in Hc. rewrite andb_true_r in Hc. cbn [wf_x] in Wa. rewrite andb_true_r in Wa.
    cbn [to_sre cset_of cs_in]. cbn [L]. rewrite (seq_eps_lang (L true (to_sre true a1)) p t n).
    apply (proj2 IHa a1 eq_refl Hc Wa).
  - (* XCase *) intros Hc Hw ci p t n. cbn [is_cset] in Hc. cbn [wf_x] in Hw.
    apply andb_true_iff in Hw. destruct Hw as [Wa Wm]. rewrite Hc in Wm. cbn [negb orb] in Wm.
    destruct a as [| | | |a1 a2| | | | | | | | | | | | |]; try discriminate Wm.
    destruct a2; try discriminate Wm.
    cbn [elems_cset] in Hc. rewrite andb_true_r in Hc. cbn [wf_x] in Wa. rewrite andb_true_r in Wa.
    cbn [to_sre cset_of cs_in]. cbn [L]. rewrite (seq_eps_lang (L false (to_sre true a1)) p t n).
    apply (proj2 IHa a1 eq_refl Hc Wa).
Qed.

Lemma cset_lang x : CSL x.
Proof. apply cset_lang_aux. Qed.

(* ------------------------------------------------------------------------------------------ *)
(** * Derived combinators *)

Section Frag.
Variable T : list state.
Variable s : list char.

Notation FC := (FC T s).
Notation Lat := (Lat s).
Notation Peps := (Peps s).
Notation pstar := (pstar s).
Notation is_eps := (is_eps T).
Notation is_chr := (is_chr T).
Notation is_anc := (is_anc T).

Definition Rg (lo hi q : nat) : Prop := lo <= q < hi.

Lemma FC_before (P : plang) q n1 next (R : nat -> Prop) :
  is_eps q n1 None -> R q -> FC P next n1 R -> FC P next (Some q) R.
Proof.
  intros Hq HR H. eapply FC_ext; [|eapply FC_fork; [exact Hq|exact HR|exact H|apply FC_fail]].
  intros i j. unfold Por. tauto.
Qed.

Lemma FC_after (P : plang) q nx entry (R : nat -> Prop) :
  (forall i j, P i j -> j <= length s) ->
  is_eps q (Some nx) None -> R q -> FC P q entry R -> FC P nx entry R.
Proof.
  intros HB Hq HR H. eapply FC_ext; [|eapply FC_seq; [exact H|]].
  2:{ eapply FC_before; [exact Hq|exact HR|apply FC_eps]. }
  intros i j. unfold Pseq, NfaThompson.Peps. split.
  - intros (k & HP & -> & _). exact HP.
  - intros HP. exists j. split; [exact HP|]. split; [reflexivity|]. eapply HB. exact HP.
Qed.

Lemma pstar_mono (P Q : plang) : (forall i j, P i j -> Q i j) -> forall i j, pstar P i j -> pstar Q i j.
Proof. intros H i j HS. induction HS; [constructor; auto|econstructor; eauto]. Qed.

Lemma pstar_opt (P : plang) i j : pstar (Por P Peps) i j <-> pstar P i j.
Proof.
  split.
  - intros H. induction H as [i Hi|i k j [HP|[-> _]] _ IH].
    + constructor. exact Hi.
    + econstructor; eauto.
    + exact IH.
  - apply pstar_mono. intros; left; auto.
Qed.

Lemma pstar_bound (P : plang) : (forall i j, P i j -> j <= length s) -> forall i j, pstar P i j -> j <= length s.
Proof. intros HB i j H. induction H; auto. Qed.

Lemma FC_star (P : plang) a h body nx (R : nat -> Prop) :
  is_eps a (Some nx) (Some h) -> is_eps h body (Some a) -> R a -> R h ->
  FC P a body R -> FC (pstar P) nx (Some h) R.
Proof.
  intros Ha Hh HRa HRh H.
  assert (FC (Por P Peps) a (Some h) R) as F1.
  { eapply FC_fork; [exact Hh|exact HRh|exact H|apply FC_eps]. }
  assert (FC (pstar (Por P Peps)) nx (Some a) R) as F2.
  { eapply FC_loop; [exact Ha|exact HRa|exact F1]. }
  eapply FC_ext; [|eapply FC_seq; [exact F1|exact F2]].
  intros i j. unfold Pseq. split.
  - intros (k & [HP|[-> _]] & HS); apply (proj1 (pstar_opt _ _ _)) in HS; [econstructor; eauto|exact HS].
  - intros HS. destruct HS as [i Hi|i k j HP HS].
    + exists i. split; [right; split; auto|constructor; exact Hi].
    + exists k. split; [left; exact HP|apply pstar_opt; exact HS].
Qed.

Lemma FC_plus (P : plang) a entry nx (R : nat -> Prop) :
  is_eps a (Some nx) entry -> R a -> FC P a entry R -> FC (Pseq P (pstar P)) nx entry R.
Proof.
  intros Ha HRa H. eapply FC_seq; [exact H|]. eapply FC_loop; eauto.
Qed.

(* ------------------------------------------------------------------------------------------ *)
(** * The shape of a compiled fragment in the table [T] *)

Definition is_fail (x : xsre) : bool := match x with XFail => true | _ => false end.

Fixpoint FragChars (l : list char) (ci : bool) (next : nat) (entry : option nat) (lo hi : nat) : Prop :=
  match l with
  | [] => entry = Some next /\ hi = lo
  | c :: r => exists n3, is_eps lo n3 None /\ is_chr (S lo) ci (CsChar c) lo /\
                         FragChars r ci next n3 (S (S lo)) hi /\ entry = Some (S lo)
  end.

Definition bodyp : Type := nat -> option nat -> nat -> nat -> Prop.

Definition ItemFrag (B : bodyp) (it : rep_item) (nx : nat) (entry : option nat) (lo hi : nat) : Prop :=
  match it with
  | RCopy _ => B nx entry lo hi
  | ROptc _ => exists body h, is_eps lo (Some nx) None /\ B lo body (S lo) h /\ is_eps h body (Some nx) /\
                              hi = S h /\ entry = Some h
  | RStarc => exists body h, is_eps lo (Some nx) (Some h) /\ is_eps (S lo) (Some lo) None /\
                             B (S lo) body (S (S lo)) h /\ is_eps h body (Some lo) /\ hi = S h /\ entry = Some h
  end.

Fixpoint FragItems (B : bodyp) (items : list rep_item) (next : nat) (entry : option nat) (lo hi : nat) : Prop :=
  match items with
  | [] => entry = Some next /\ hi = lo
  | it :: rest => exists n3 mid, is_eps lo n3 None /\ ItemFrag B it lo entry (S lo) mid /\
                                 FragItems B rest next n3 mid hi
  end.

Fixpoint Frag (x : xsre) (ci : bool) (next : nat) (entry : option nat) (lo hi : nat) {struct x} : Prop :=
  match x with
  | XEps => entry = Some next /\ hi = lo
  | XFail => entry = None /\ hi = lo
  | XChr cs => is_chr lo ci cs next /\ entry = Some lo /\ hi = S lo
  | XAnc k => is_anc lo k next /\ entry = Some lo /\ hi = S lo
  | XStr l => FragChars l ci next entry lo hi
  | XSeq a b => exists n3 mid, is_eps lo n3 None /\ Frag a ci lo entry (S lo) mid /\ Frag b ci next n3 mid hi
  | XAlt a b =>
      if is_cset (XAlt a b) then is_chr lo ci (cset_of (XAlt a b)) next /\ entry = Some lo /\ hi = S lo
      else if is_fail b then Frag a ci next entry lo hi
      else exists n1 n2 mid h, Frag a ci next n1 lo mid /\ Frag b ci next n2 mid h /\ is_eps h n1 n2 /\
                               hi = S h /\ entry = Some h
  | XOpt _ b => exists body h, Frag b ci next body lo h /\ is_eps h body (Some next) /\ hi = S h /\ entry = Some h
  | XStar _ b => exists body h, is_eps lo (Some next) (Some h) /\ Frag b ci lo body (S lo) h /\
                                is_eps h body (Some lo) /\ hi = S h /\ entry = Some h
  | XPlus b => is_eps lo (Some next) entry /\ Frag b ci lo entry (S lo) hi
  | XRep _ m n b => FragItems (Frag b ci) (expand_reps m n) next entry lo hi
  | XSub b | XNamed b =>
      Frag b ci next entry lo hi \/
      exists n2 h, is_eps lo (Some next) None /\ Frag b ci lo n2 (S lo) h /\ is_eps h n2 None /\
                   hi = S h /\ entry = Some h
  | XBar b => Frag b ci next entry lo hi
  | XNoCap b => Frag b ci next entry lo hi
  | XNoCase b => Frag b true next entry lo hi
  | XCase b => Frag b false next entry lo hi
  | XWord b => exists nb h, is_eps lo (Some next) None /\ is_anc (S lo) Eow lo /\
                            Frag b ci (S lo) nb (S (S lo)) h /\ is_eps h nb None /\ is_anc (S h) Bow h /\
                            hi = S (S h) /\ entry = Some (S h)
  end.

(** what a correct fragment is, for a SPEC language *)
Definition Good (P : lang) (next : nat) (entry : option nat) (lo hi : nat) : Prop :=
  lo <= hi /\ FC (Lat P) next entry (Rg lo hi).

Lemma Good_ext (P Q : lang) next entry lo hi :
  (forall p t n, P p t n <-> Q p t n) -> Good P next entry lo hi -> Good Q next entry lo hi.
Proof.
  intros E [H1 H2]. split; [exact H1|]. eapply FC_ext; [|exact H2]. intros i j. apply Lat_ext. exact E.
Qed.

Lemma Lat_le (P : lang) i j : Lat P i j -> j <= length s.
Proof. intros H. apply Lat_bounds in H. lia. Qed.

Ltac wk := eapply FC_weaken; [|eassumption]; unfold Rg; intros; lia.
Ltac rg := unfold Rg; lia.

Lemma FragChars_good l : forall ci next entry lo hi, FragChars l ci next entry lo hi ->
  Good (L ci (fold_right (fun c r => Seq (Chr (CsChar c)) r) Eps l)) next entry lo hi.
Proof.
  induction l as [|c r IH]; intros ci next entry lo hi H; cbn [FragChars fold_right] in *.
  - destruct H as [-> ->]. split; [lia|]. eapply FC_ext; [|apply FC_eps].
    intros i j. symmetry. exact (Lat_eps s i j).
  - destruct H as (n3 & H1 & H2 & H3 & ->). apply IH in H3. destruct H3 as [Hle H3].
    split; [lia|].
    eapply FC_ext.
    2:{ eapply FC_seq.
        - eapply FC_chr; [exact H2|rg].
        - eapply FC_before; [exact H1|rg|wk]. }
    intros i j. set (rest := fold_right (fun c r => Seq (Chr (CsChar c)) r) Eps r).
    symmetry. etransitivity; [exact (Lat_seq s (L ci (Chr (CsChar c))) (L ci rest) i j)|]. unfold Pseq.
    split; intros (k & A & B); exists k; (split; [|exact B]).
    + apply (proj1 (Lat_chr s (cs_in ci (CsChar c)) i k)). exact A.
    + apply (proj2 (Lat_chr s (cs_in ci (CsChar c)) i k)). exact A.
Qed.

Section Items.
Variable B : bodyp.
Variable P : lang.
Hypothesis HB : forall nx en lo hi, B nx en lo hi -> Good P nx en lo hi.

Lemma ItemFrag_good it nx entry lo hi : ItemFrag B it nx entry lo hi -> Good (item_lang P it) nx entry lo hi.
Proof.
  destruct it as [sb|sb|]; cbn [ItemFrag item_lang].
  - apply HB.
  - intros (body & h & H1 & H2 & H3 & -> & ->). apply HB in H2. destruct H2 as [Hle H2].
    split; [lia|]. eapply FC_ext.
    2:{ eapply FC_fork; [exact H3|rg| |apply FC_eps].
        eapply FC_after; [apply Lat_le|exact H1|rg|wk]. }
    intros i j. symmetry. etransitivity; [exact (Lat_or s (fun _ t _ => t = []) P i j)|].
    unfold Por. rewrite Lat_eps. tauto.
  - intros (body & h & H1 & H2 & H3 & H4 & -> & ->). apply HB in H3. destruct H3 as [Hle H3].
    split; [lia|]. eapply FC_ext.
    2:{ eapply FC_star; [exact H1|exact H4|rg|rg|].
        eapply FC_after; [apply Lat_le|exact H2|rg|wk]. }
    intros i j. symmetry. exact (Lat_star s P i j).
Qed.

Lemma FragItems_good items : forall next entry lo hi, FragItems B items next entry lo hi ->
  Good (items_lang P items) next entry lo hi.
Proof.
  induction items as [|it rest IH]; intros next entry lo hi H; cbn [FragItems items_lang] in *.
  - destruct H as [-> ->]. split; [lia|]. eapply FC_ext; [|apply FC_eps].
    intros i j. symmetry. exact (Lat_eps s i j).
  - destruct H as (n3 & mid & H1 & H2 & H3). apply ItemFrag_good in H2. apply IH in H3.
    destruct H2 as [Hl2 H2]. destruct H3 as [Hl3 H3]. split; [lia|].
    eapply FC_ext.
    2:{ eapply FC_seq.
        - eapply FC_weaken; [|exact H2]. unfold Rg; intros; lia.
        - eapply FC_before; [exact H1|rg|]. eapply FC_weaken; [|exact H3]. unfold Rg; intros; lia. }
    intros i j. symmetry. exact (Lat_seq s (item_lang P it) (items_lang P rest) i j).
Qed.
End Items.

Lemma rep_lang (P : lang) g ci m n a p t n0 :
  (forall p t n, P p t n <-> L ci a p t n) ->
  match n with Some n' => m <=? n' | None => true end = true ->
  (L ci (Rep g m n a) p t n0 <-> items_lang P (expand_reps m n) p t n0).
Proof.
  intros E Hw. cbn [L]. destruct n as [n'|].
  - apply Nat.leb_le in Hw. rewrite expand_reps_bounded by exact Hw.
    split; intros (k & Hk & H); exists k; (split; [exact Hk|]); eapply LPow_ext; try exact H; intros; [|symmetry]; apply E.
  - rewrite expand_reps_unbounded.
    split; intros (k & Hk & H); exists k; (split; [exact Hk|]); eapply LPow_ext; try exact H; intros; [|symmetry]; apply E.
Qed.

Lemma plus_lang (P : lang) i j :
  Lat (fun p t n => exists k, 1 <= k /\ LPow P k p t n) i j <-> Pseq (Lat P) (pstar (Lat P)) i j.
Proof.
  rewrite Lat_ex. split.
  - intros (k & a & b & c & E1 & E2 & E3 & Hk & H).
    assert (Lat (LPow P k) i j) as HL by (exists a, b, c; auto).
    apply Lat_pow in HL. destruct k as [|k]; [lia|]. cbn [ppow] in HL.
    destruct HL as (m & H1 & H2). exists m. split; [exact H1|]. apply pstar_ppow. eauto.
  - intros (m & H1 & H2). apply pstar_ppow in H2. destruct H2 as (k & H2).
    assert (Lat (LPow P (S k)) i j) as HL by (apply Lat_pow; exists m; auto).
    destruct HL as (a & b & c & E1 & E2 & E3 & H). exists (S k), a, b, c. repeat split; auto. lia.
Qed.

Theorem Frag_good x : wf_x x = true -> forall ci next entry lo hi,
  Frag x ci next entry lo hi -> Good (L ci (to_sre true x)) next entry lo hi.
Proof.
  induction x as [| |cs|l|a IHa b IHb|a IHa b IHb|a IHa|g a IHa|a IHa|g a IHa|g m n a IHa|a IHa|a IHa|a IHa|a IHa|k|a IHa|a IHa];
    intros Hw ci next entry lo hi H; cbn [Frag to_sre wf_x] in *.
  - (* XEps *) destruct H as [-> ->]. split; [lia|]. eapply FC_ext; [|apply FC_eps].
    intros i j. symmetry. exact (Lat_eps s i j).
  - (* XFail *) destruct H as [-> ->]. split; [lia|]. eapply FC_ext; [|apply FC_fail].
    intros i j. symmetry. exact (Lat_false s i j).
  - (* XChr *) destruct H as (H & -> & ->). split; [lia|]. eapply FC_ext; [|eapply FC_chr; [exact H|rg]].
    intros i j. symmetry. exact (Lat_chr s (cs_in ci cs) i j).
  - (* XStr *) apply FragChars_good. exact H.
  - (* XSeq *) apply andb_true_iff in Hw. destruct Hw as [Wa Wb].
    destruct H as (n3 & mid & H1 & H2 & H3). apply (IHa Wa) in H2. apply (IHb Wb) in H3.
    destruct H2 as [Hl2 H2]. destruct H3 as [Hl3 H3]. split; [lia|].
    eapply FC_ext.
    2:{ eapply FC_seq.
        - eapply FC_weaken; [|exact H2]. unfold Rg; intros; lia.
        - eapply FC_before; [exact H1|rg|]. eapply FC_weaken; [|exact H3]. unfold Rg; intros; lia. }
    intros i j. symmetry. exact (Lat_seq s (L ci (to_sre true a)) (L ci (to_sre true b)) i j).
  - (* XAlt *) destruct (is_cset (XAlt a b)) eqn:Ecs.
    + destruct H as (H & -> & ->). split; [lia|]. eapply FC_ext; [|eapply FC_chr; [exact H|rg]].
      intros i j. symmetry. etransitivity; [|exact (Lat_chr s (cs_in ci (cset_of (XAlt a b))) i j)].
      apply Lat_ext. intros p t n0. apply (cset_lang (XAlt a b) Ecs Hw).
    + apply andb_true_iff in Hw. destruct Hw as [Wa Wb]. destruct (is_fail b) eqn:Ef.
      * destruct b; try discriminate Ef. apply (IHa Wa) in H. eapply Good_ext; [|exact H].
        intros p t n0. cbn [to_sre L]. tauto.
      * destruct H as (n1 & n2 & mid & h & H1 & H2 & H3 & -> & ->).
        apply (IHa Wa) in H1. apply (IHb Wb) in H2.
        destruct H1 as [Hl1 H1]. destruct H2 as [Hl2 H2]. split; [lia|].
        eapply FC_ext.
        2:{ eapply FC_fork; [exact H3|rg| |].
            - eapply FC_weaken; [|exact H1]. unfold Rg; intros; lia.
            - eapply FC_weaken; [|exact H2]. unfold Rg; intros; lia. }
        intros i j. symmetry. exact (Lat_or s (L ci (to_sre true a)) (L ci (to_sre true b)) i j).
  - (* XBar *) apply IHa; assumption.
  - (* XStar *) destruct H as (body & h & H1 & H2 & H3 & -> & ->). apply (IHa Hw) in H2.
    destruct H2 as [Hl H2]. split; [lia|]. eapply FC_ext.
    2:{ eapply FC_star; [exact H1|exact H3|rg|rg|wk]. }
    intros i j. symmetry. exact (Lat_star s (L ci (to_sre true a)) i j).
  - (* XPlus *) destruct H as (H1 & H2). apply (IHa Hw) in H2.
    destruct H2 as [Hl H2]. split; [lia|]. eapply FC_ext.
    2:{ eapply FC_plus; [exact H1|rg|wk]. }
    intros i j. symmetry. exact (plus_lang (L ci (to_sre true a)) i j).
  - (* XOpt *) destruct H as (body & h & H1 & H2 & -> & ->). apply (IHa Hw) in H1.
    destruct H1 as [Hl H1]. split; [lia|]. eapply FC_ext.
    2:{ eapply FC_fork; [exact H2|rg| |apply FC_eps]. wk. }
    intros i j. symmetry. etransitivity; [exact (Lat_or s (fun _ t _ => t = []) (L ci (to_sre true a)) i j)|].
    unfold Por. rewrite Lat_eps. tauto.
  - (* XRep *) apply andb_true_iff in Hw. destruct Hw as [Wa Wn].
    eapply Good_ext.
    2:{ eapply FragItems_good; [|exact H]. intros nx en lo' hi' HB. exact (IHa Wa ci nx en lo' hi' HB). }
    intros p t n0. symmetry. apply rep_lang; [intros; reflexivity|exact Wn].
  - (* XSub *) destruct H as [H|(n2 & h & H1 & H2 & H3 & -> & ->)]; [apply IHa; assumption|].
    apply (IHa Hw) in H2. destruct H2 as [Hl H2]. split; [lia|].
    eapply FC_before; [exact H3|rg|]. eapply FC_after; [apply Lat_le|exact H1|rg|wk].
  - (* XNamed *) destruct H as [H|(n2 & h & H1 & H2 & H3 & -> & ->)]; [apply IHa; assumption|].
    apply (IHa Hw) in H2. destruct H2 as [Hl H2]. split; [lia|].
    eapply FC_before; [exact H3|rg|]. eapply FC_after; [apply Lat_le|exact H1|rg|wk].
  - (* XNoCap *) apply IHa; assumption.
  - (* XWord *) destruct H as (nb & h & H1 & H2 & H3 & H4 & H5 & -> & ->). apply (IHa Hw) in H3.
    destruct H3 as [Hl H3]. split; [lia|]. eapply FC_ext.
    2:{ eapply FC_seq; [eapply FC_anc; [exact H5|rg]|].
        eapply FC_seq; [eapply FC_before; [exact H4|rg|wk]|].
        eapply FC_after; [|exact H1|rg|eapply FC_anc; [exact H2|rg]].
        intros i j (_ & Hj & _). exact Hj. }
    intros i j. set (A0 := to_sre true a).
    pose proof (fun i j => Lat_nil s (fun p n => anchor_ok Bow p n = true) i j) as NB.
    pose proof (fun i j => Lat_nil s (fun p n => anchor_ok Eow p n = true) i j) as NE.
    symmetry. etransitivity; [exact (Lat_seq s (L ci (Anc Bow)) (L ci (Seq A0 (Anc Eow))) i j)|]. unfold Pseq.
    split; intros (k1 & A & C); exists k1.
    + split; [apply NB; exact A|].
      apply (proj1 (Lat_seq s (L ci A0) (L ci (Anc Eow)) k1 j)) in C. destruct C as (k2 & C & D).
      exists k2. split; [exact C|]. apply NE. exact D.
    + split; [apply NB; exact A|].
      apply (proj2 (Lat_seq s (L ci A0) (L ci (Anc Eow)) k1 j)). destruct C as (k2 & C & D).
      exists k2. split; [exact C|]. apply NE. exact D.
  - (* XAnc *) destruct H as (H & -> & ->). split; [lia|]. eapply FC_ext; [|eapply FC_anc; [exact H|rg]].
    intros i j. symmetry. apply (Lat_nil s (fun p n => anchor_ok k p n = true)).
  - (* XNoCase *) apply andb_true_iff in Hw. destruct Hw as [Wa _]. apply IHa; assumption.
  - (* XCase *) apply andb_true_iff in Hw. destruct Hw as [Wa _]. apply IHa; assumption.
Qed.

End Frag.

(* ------------------------------------------------------------------------------------------ *)
(** * Bookkeeping: [compile] only appends and patches its own states; the result has the shape [Frag] *)

Definition pres (l l' : list state) : Prop :=
  length l <= length l' /\ forall q, q < length l -> nth_error l' q = nth_error l q.

Lemma pres_refl l : pres l l.
Proof. split; auto. Qed.

Lemma pres_trans l1 l2 l3 : pres l1 l2 -> pres l2 l3 -> pres l1 l3.
Proof. intros [A1 B1] [A2 B2]. split; [lia|]. intros q Hq. rewrite B2 by lia. apply B1. exact Hq. Qed.

Lemma length_upd {A} (l : list A) : forall i f, length (upd l i f) = length l.
Proof. induction l as [|x l IH]; intros [|i] f; cbn [upd length]; auto. Qed.

Lemma nth_upd_ne {A} (l : list A) : forall i j f, i <> j -> nth_error (upd l i f) j = nth_error l j.
Proof.
  induction l as [|x l IH]; intros [|i] [|j] f Hne; cbn [upd nth_error]; auto; try lia.
Qed.

Lemma nth_upd_some {A} (l : list A) : forall i f st, nth_error l i = Some st -> nth_error (upd l i f) i = Some (f st).
Proof.
  induction l as [|x l IH]; intros [|i] f st H; cbn [upd nth_error] in *; try discriminate.
  - congruence.
  - apply IH. exact H.
Qed.

Lemma pres_upd l l' id f : length l <= id -> pres l l' -> pres l (upd l' id f).
Proof.
  intros Hid [A B]. split; [rewrite length_upd; exact A|].
  intros q Hq. rewrite nth_upd_ne by lia. apply B. exact Hq.
Qed.

Lemma nth_pres l l' q (st : state) : pres l l' -> nth_error l q = Some st -> nth_error l' q = Some st.
Proof.
  intros [A B] H. rewrite B; [exact H|]. apply nth_error_Some. congruence.
Qed.

Definition agree (T l : list state) (lo hi : nat) : Prop :=
  forall q, lo <= q < hi -> nth_error T q = nth_error l q.

Lemma agree_sub T l l' lo hi lo' hi' :
  agree T l' lo hi -> pres l l' -> lo <= lo' -> hi' <= hi -> hi' <= length l -> agree T l lo' hi'.
Proof. intros H [A B] H1 H2 H3 q Hq. rewrite H by lia. apply B. lia. Qed.

Lemma agree_upd T l id f lo hi lo' hi' :
  agree T (upd l id f) lo hi -> lo <= lo' -> hi' <= hi -> (id < lo' \/ hi' <= id) -> agree T l lo' hi'.
Proof. intros H H1 H2 H3 q Hq. rewrite H by lia. apply nth_upd_ne. lia. Qed.

Lemma agree_get T l lo hi q st : agree T l lo hi -> lo <= q < hi -> nth_error l q = Some st -> nth_error T q = Some st.
Proof. intros H Hq Hn. rewrite H by exact Hq. exact Hn. Qed.

Notation len e := (length (e_tb e)).

Lemma alloc_inv st e n e1 : alloc st e = (n, e1) ->
  n = len e /\ len e1 = S (len e) /\ pres (e_tb e) (e_tb e1) /\ nth_error (e_tb e1) (len e) = Some st.
Proof.
  unfold alloc. intros H. injection H as <- <-. cbn [e_tb]. rewrite app_length. cbn [length].
  split; [reflexivity|]. split; [lia|]. split.
  - split; [rewrite app_length; lia|]. intros q Hq. apply nth_error_app1. exact Hq.
  - rewrite nth_error_app2 by lia. rewrite Nat.sub_diag. reflexivity.
Qed.

Definition CompOK (B : list state -> bodyp) (f : nat -> cenv -> option nat * cenv) : Prop :=
  forall next e en e', f next e = (en, e') ->
    pres (e_tb e) (e_tb e') /\
    forall T, agree T (e_tb e') (len e) (len e') -> B T next en (len e) (len e').

Ltac get_st HT Hn := eexists; split; [eapply (agree_get _ _ _ _ _ _ HT); [|exact Hn]; lia|cbn; auto].

Lemma compile_chars_ok l ci : CompOK (fun T => FragChars T l ci) (compile_chars l ci).
Proof.
  induction l as [|c r IH]; intros next e en e' H; cbn [compile_chars] in H.
  - injection H as <- <-. split; [apply pres_refl|]. intros T HT. cbn [FragChars]. auto.
  - destruct (alloc (eps_state None) e) as [n2 e1] eqn:E1.
    destruct (alloc (char_state ci (CsChar c) n2) e1) as [n1 e2] eqn:E2.
    destruct (compile_chars r ci next e2) as [n3 e3] eqn:E3.
    injection H as <- <-.
    apply alloc_inv in E1. destruct E1 as (-> & L1 & P1 & N1).
    apply alloc_inv in E2. destruct E2 as (-> & L2 & P2 & N2).
    apply IH in E3. destruct E3 as [P3 F3].
    assert (P13 := pres_trans _ _ _ P2 P3).
    cbn [patch1 e_tb]. rewrite length_upd. split.
    + apply pres_upd; [lia|]. eapply pres_trans; [exact P1|exact P13].
    + intros T HT. cbn [FragChars]. exists n3. destruct P3 as [A3 B3].
      split; [|split; [|split]].
      * eapply nth_pres in N1; [|exact P13]. eapply nth_upd_some in N1. get_st HT N1.
      * eapply nth_pres in N2; [|split; [exact A3|exact B3]].
        rewrite <- L1. eexists. split; [rewrite HT by lia; rewrite nth_upd_ne by lia; exact N2|cbn; auto].
      * rewrite <- L1, <- L2. apply F3. eapply agree_upd; [exact HT|lia|lia|lia].
      * rewrite L1. reflexivity.
Qed.

Definition compile_item (cb : bool -> nat -> cenv -> option nat * cenv) (it : rep_item) (n2 : nat) (e : cenv)
  : option nat * cenv :=
  match it with
  | RCopy s => cb s n2 e
  | ROptc s =>
      let '(m2, e) := alloc (eps_state (Some n2)) e in
      let '(body, e) := cb s m2 e in
      let '(id, e) := alloc (fork_state body (Some n2)) e in
      (Some id, e)
  | RStarc =>
      let '(k2, e) := alloc (fork_state (Some n2) None) e in
      let '(m2, e) := alloc (eps_state (Some k2)) e in
      let '(body, e) := cb true m2 e in
      let '(k1, e) := alloc (fork_state body (Some k2)) e in
      (Some k1, patch2 k2 (Some k1) e)
  end.

Lemma compile_items_cons cb it rest next e :
  compile_items cb (it :: rest) next e =
  let '(n2, e) := alloc (eps_state None) e in
  let '(n1, e) := compile_item cb it n2 e in
  let '(n3, e) := compile_items cb rest next e in
  (n1, patch1 n2 n3 e).
Proof. reflexivity. Qed.

Section ItemsOK.
Variable B : list state -> bodyp.
Variable cb : bool -> nat -> cenv -> option nat * cenv.
Hypothesis Hcb : forall sb, CompOK B (cb sb).

Lemma compile_item_ok it : CompOK (fun T => ItemFrag T (B T) it) (compile_item cb it).
Proof.
  destruct it as [sb|sb|]; intros nx e en e'; cbn [compile_item].
  - apply Hcb.
  - destruct (alloc (eps_state (Some nx)) e) as [m2 e1] eqn:E1. destruct (cb sb m2 e1) as [body e2] eqn:E2.
    destruct (alloc (fork_state body (Some nx)) e2) as [id e3] eqn:E3. intros H. injection H as <- <-.
    apply alloc_inv in E1. destruct E1 as (-> & L1 & P1 & N1).
    apply Hcb in E2. destruct E2 as [P2 F2].
    apply alloc_inv in E3. destruct E3 as (-> & L3 & P3 & N3).
    assert (L2 : len e1 <= len e2) by apply P2.
    split; [eapply pres_trans; [exact P1|eapply pres_trans; eauto]|].
    intros T HT. cbn [ItemFrag]. exists body, (len e2).
    split; [|split; [|split; [|split]]].
    + eapply nth_pres in N1; [|eapply pres_trans; [exact P2|exact P3]]. get_st HT N1.
    + rewrite <- L1. apply F2. eapply agree_sub; [exact HT|exact P3|lia|lia|lia].
    + get_st HT N3.
    + exact L3.
    + reflexivity.
  - destruct (alloc (fork_state (Some nx) None) e) as [k2 e1] eqn:E1.
    destruct (alloc (eps_state (Some k2)) e1) as [m2 e2] eqn:E2.
    destruct (cb true m2 e2) as [body e3] eqn:E3.
    destruct (alloc (fork_state body (Some k2)) e3) as [k1 e4] eqn:E4. intros H. injection H as <- <-.
    apply alloc_inv in E1. destruct E1 as (-> & L1 & P1 & N1).
    apply alloc_inv in E2. destruct E2 as (-> & L2 & P2 & N2).
    apply Hcb in E3. destruct E3 as [P3 F3].
    apply alloc_inv in E4. destruct E4 as (-> & L4 & P4 & N4).
    assert (L3 : len e2 <= len e3) by apply P3.
    assert (P14 : pres (e_tb e1) (e_tb e4)) by (eapply pres_trans; [exact P2|eapply pres_trans; eauto]).
    assert (P24 : pres (e_tb e2) (e_tb e4)) by (eapply pres_trans; eauto).
    cbn [patch2 e_tb]. rewrite length_upd.
    split; [apply pres_upd; [lia|]; eapply pres_trans; [exact P1|exact P14]|].
    intros T HT. cbn [ItemFrag]. exists body, (len e3).
    split; [|split; [|split; [|split; [|split]]]].
    + eapply nth_pres in N1; [|exact P14]. eapply nth_upd_some in N1. get_st HT N1.
    + eapply nth_pres in N2; [|exact P24]. rewrite <- L1.
      eexists. split; [rewrite HT by lia; rewrite nth_upd_ne by lia; exact N2|cbn; auto].
    + rewrite <- L1, <- L2. apply F3. eapply agree_sub; [|exact P4|..].
      * eapply (agree_upd T _ _ _ _ _ (len e2) (len e3) HT); lia.
      * lia.
      * lia.
      * lia.
    + eexists. split; [rewrite HT by lia; rewrite nth_upd_ne by lia; exact N4|cbn; auto].
    + exact L4.
    + reflexivity.
Qed.

Lemma compile_items_ok items : CompOK (fun T => FragItems T (B T) items) (compile_items cb items).
Proof.
  induction items as [|it rest IH]; intros next e en e'.
  - cbn [compile_items]. intros H. injection H as <- <-. split; [apply pres_refl|].
    intros T HT. cbn [FragItems]. auto.
  - rewrite compile_items_cons.
    destruct (alloc (eps_state None) e) as [n2 e1] eqn:E1. destruct (compile_item cb it n2 e1) as [n1 e2] eqn:E2.
    destruct (compile_items cb rest next e2) as [n3 e3] eqn:E3. intros H. injection H as <- <-.
    apply alloc_inv in E1. destruct E1 as (-> & L1 & P1 & N1).
    apply compile_item_ok in E2. destruct E2 as [P2 F2].
    apply IH in E3. destruct E3 as [P3 F3].
    assert (L2 : len e1 <= len e2) by apply P2. assert (L3 : len e2 <= len e3) by apply P3.
    assert (P13 : pres (e_tb e1) (e_tb e3)) by (eapply pres_trans; eauto).
    cbn [patch1 e_tb]. rewrite length_upd.
    split; [apply pres_upd; [lia|]; eapply pres_trans; eauto|].
    intros T HT. cbn [FragItems]. exists n3, (len e2).
    split; [|split].
    + eapply nth_pres in N1; [|exact P13]. eapply nth_upd_some in N1. get_st HT N1.
    + rewrite <- L1. apply F2. eapply agree_sub; [|exact P3|..].
      * eapply (agree_upd T _ _ _ _ _ (len e1) (len e2) HT); lia.
      * lia.
      * lia.
      * lia.
    + apply F3. eapply agree_upd; [exact HT|lia|lia|lia].
Qed.
End ItemsOK.

Lemma compile_alt a b ci nocap next e :
  compile (XAlt a b) ci nocap next e =
  if is_cset (XAlt a b) then
    let '(id, e) := alloc (char_state ci (cset_of (XAlt a b)) next) e in (Some id, e)
  else if is_fail b then compile a ci nocap next e
  else
    let '(n1, e) := compile a ci nocap next e in
    let '(n2, e) := compile b ci nocap next e in
    let '(id, e) := alloc (fork_state n1 n2) e in
    (Some id, e).
Proof. destruct b; reflexivity. Qed.

Ltac dal n e E := match goal with |- context [alloc ?st ?e0] => destruct (alloc st e0) as [n e] eqn:E end.
Ltac ainv E L P N := apply alloc_inv in E; cbn [e_tb] in E; destruct E as (-> & L & P & N).
Ltac get_ne HT Hn := eexists; split; [rewrite HT by lia; rewrite nth_upd_ne by lia; exact Hn|cbn; auto].

Lemma compile_ok x : forall ci nocap, CompOK (fun T => Frag T x ci) (compile x ci nocap).
Proof.
  induction x as [| |cs|l|a IHa b IHb|a IHa b IHb|a IHa|g a IHa|a IHa|g a IHa|g m n a IHa|a IHa|a IHa|a IHa|a IHa|k|a IHa|a IHa];
    intros ci nocap next e en e'.
  - (* XEps *) cbn [compile]. intros H. injection H as <- <-. split; [apply pres_refl|].
    intros T HT. cbn [Frag]. auto.
  - (* XFail *) cbn [compile]. intros H. injection H as <- <-. split; [apply pres_refl|].
    intros T HT. cbn [Frag]. auto.
  - (* XChr *) cbn [compile]. dal qid e1 E1. intros H. injection H as <- <-. ainv E1 L1 P1 N1.
    split; [exact P1|]. intros T HT. cbn [Frag]. split; [get_st HT N1|]. split; [reflexivity|exact L1].
  - (* XStr *) cbn [compile]. apply compile_chars_ok.
  - (* XSeq *) cbn [compile]. dal n2 e1 E1.
    destruct (compile a ci nocap n2 e1) as [n1 e2] eqn:E2.
    destruct (compile b ci nocap next e2) as [n3 e3] eqn:E3. intros H. injection H as <- <-.
    ainv E1 L1 P1 N1. apply IHa in E2. destruct E2 as [P2 F2]. apply IHb in E3. destruct E3 as [P3 F3].
    assert (L2 : len e1 <= len e2) by apply P2. assert (L3 : len e2 <= len e3) by apply P3.
    assert (P13 : pres (e_tb e1) (e_tb e3)) by (eapply pres_trans; eauto).
    cbn [patch1 e_tb]. rewrite length_upd.
    split; [apply pres_upd; [lia|]; eapply pres_trans; eauto|].
    intros T HT. cbn [Frag]. exists n3, (len e2). split; [|split].
    + eapply nth_pres in N1; [|exact P13]. eapply nth_upd_some in N1. get_st HT N1.
    + rewrite <- L1. apply F2. eapply agree_sub; [|exact P3|..].
      * eapply (agree_upd T _ _ _ _ _ (len e1) (len e2) HT); lia.
      * lia.
      * lia.
      * lia.
    + apply F3. eapply agree_upd; [exact HT|lia|lia|lia].
  - (* XAlt *) rewrite compile_alt. cbn [Frag]. destruct (is_cset (XAlt a b)).
    + dal qid e1 E1. intros H. injection H as <- <-. ainv E1 L1 P1 N1.
      split; [exact P1|]. intros T HT. split; [get_st HT N1|]. split; [reflexivity|exact L1].
    + destruct (is_fail b); [apply IHa|].
      destruct (compile a ci nocap next e) as [n1 e1] eqn:E1.
      destruct (compile b ci nocap next e1) as [n2 e2] eqn:E2.
      dal qid e3 E3. intros H. injection H as <- <-.
      apply IHa in E1. destruct E1 as [P1 F1]. apply IHb in E2. destruct E2 as [P2 F2]. ainv E3 L3 P3 N3.
      assert (L1 : len e <= len e1) by apply P1. assert (L2 : len e1 <= len e2) by apply P2.
      split; [eapply pres_trans; [exact P1|eapply pres_trans; eauto]|].
      intros T HT. exists n1, n2, (len e1), (len e2). split; [|split; [|split; [|split]]].
      * apply F1. eapply agree_sub; [exact HT|eapply pres_trans; eauto|lia|lia|lia].
      * apply F2. eapply agree_sub; [exact HT|exact P3|lia|lia|lia].
      * get_st HT N3.
      * exact L3.
      * reflexivity.
  - (* XBar *) cbn [compile Frag]. apply IHa.
  - (* XStar *) cbn [compile]. dal n2 e1 E1.
    destruct (compile a ci nocap n2 e1) as [body e2] eqn:E2.
    dal n1 e3 E3. intros H. injection H as <- <-.
    ainv E1 L1 P1 N1. apply IHa in E2. destruct E2 as [P2 F2]. ainv E3 L3 P3 N3.
    assert (L2 : len e1 <= len e2) by apply P2.
    assert (P13 : pres (e_tb e1) (e_tb e3)) by (eapply pres_trans; eauto).
    cbn [patch2 e_tb]. rewrite length_upd.
    split; [apply pres_upd; [lia|]; eapply pres_trans; eauto|].
    intros T HT. cbn [Frag]. exists body, (len e2). split; [|split; [|split; [|split]]].
    + eapply nth_pres in N1; [|exact P13]. eapply nth_upd_some in N1. get_st HT N1.
    + rewrite <- L1. apply F2. eapply agree_sub; [|exact P3|..].
      * eapply (agree_upd T _ _ _ _ _ (len e1) (len e2) HT); lia.
      * lia.
      * lia.
      * lia.
    + get_ne HT N3.
    + exact L3.
    + reflexivity.
  - (* XPlus *) cbn [compile]. dal n2 e1 E1.
    destruct (compile a ci nocap n2 e1) as [n1 e2] eqn:E2. intros H. injection H as <- <-.
    ainv E1 L1 P1 N1. apply IHa in E2. destruct E2 as [P2 F2].
    assert (L2 : len e1 <= len e2) by apply P2.
    cbn [patch2 e_tb]. rewrite length_upd.
    split; [apply pres_upd; [lia|]; eapply pres_trans; eauto|].
    intros T HT. cbn [Frag]. split.
    + eapply nth_pres in N1; [|exact P2]. eapply nth_upd_some in N1. get_st HT N1.
    + rewrite <- L1. apply F2. eapply (agree_upd T _ _ _ _ _ (len e1) (len e2) HT); lia.
  - (* XOpt *) cbn [compile].
    destruct (compile a ci nocap next e) as [body e1] eqn:E1. dal qid e2 E2. intros H. injection H as <- <-.
    apply IHa in E1. destruct E1 as [P1 F1]. ainv E2 L2 P2 N2.
    assert (L1 : len e <= len e1) by apply P1.
    split; [eapply pres_trans; eauto|].
    intros T HT. cbn [Frag]. exists body, (len e1). split; [|split; [|split]].
    + apply F1. eapply agree_sub; [exact HT|exact P2|lia|lia|lia].
    + get_st HT N2.
    + exact L2.
    + reflexivity.
  - (* XRep *) cbn [compile Frag].
    apply (compile_items_ok (fun T => Frag T a ci) (fun subs k e => compile a ci (nocap || negb subs) k e)).
    intros sb nx e0 en0 e0'. apply IHa.
  - (* XSub *) cbn [compile]. destruct nocap.
    { intros H. apply IHa in H. destruct H as [P F]. split; [exact P|]. intros T HT. cbn [Frag]. left. apply F. exact HT. }
    dal n3 e1 E1. destruct (compile a ci false n3 e1) as [n2 e2] eqn:E2. dal n1 e3 E3.
    intros H. injection H as <- <-.
    ainv E1 L1 P1 N1. apply IHa in E2. destruct E2 as [P2 F2]. ainv E3 L3 P3 N3.
    assert (L2 : len e1 <= len e2) by apply P2.
    match goal with |- context [if ngs a then ?A else ?B] =>
      assert (TE : e_tb (if ngs a then A else B) = e_tb e3) by (destruct (ngs a); reflexivity); rewrite !TE end.
    split; [eapply pres_trans; [exact P1|eapply pres_trans; eauto]|].
    intros T HT. cbn [Frag]. right. exists n2, (len e2). split; [|split; [|split; [|split]]].
    + eapply nth_pres in N1; [|eapply pres_trans; eauto]. get_st HT N1.
    + rewrite <- L1. apply F2. eapply agree_sub; [exact HT|exact P3|lia|lia|lia].
    + get_st HT N3.
    + exact L3.
    + reflexivity.
  - (* XNamed *) cbn [compile]. destruct nocap.
    { intros H. apply IHa in H. destruct H as [P F]. split; [exact P|]. intros T HT. cbn [Frag]. left. apply F. exact HT. }
    dal n3 e1 E1. destruct (compile a ci false n3 e1) as [n2 e2] eqn:E2. dal n1 e3 E3.
    intros H. injection H as <- <-.
    ainv E1 L1 P1 N1. apply IHa in E2. destruct E2 as [P2 F2]. ainv E3 L3 P3 N3.
    assert (L2 : len e1 <= len e2) by apply P2.
    match goal with |- context [if ngs a then ?A else ?B] =>
      assert (TE : e_tb (if ngs a then A else B) = e_tb e3) by (destruct (ngs a); reflexivity); rewrite !TE end.
    split; [eapply pres_trans; [exact P1|eapply pres_trans; eauto]|].
    intros T HT. cbn [Frag]. right. exists n2, (len e2). split; [|split; [|split; [|split]]].
    + eapply nth_pres in N1; [|eapply pres_trans; eauto]. get_st HT N1.
    + rewrite <- L1. apply F2. eapply agree_sub; [exact HT|exact P3|lia|lia|lia].
    + get_st HT N3.
    + exact L3.
    + reflexivity.
  - (* XNoCap *) cbn [compile Frag]. apply IHa.
  - (* XWord *) cbn [compile]. dal n2e e1 E1. dal ne e2 E2.
    destruct (compile a ci nocap ne e2) as [nb e3] eqn:E3. dal n2b e4 E4. dal n1 e5 E5.
    intros H. injection H as <- <-.
    ainv E1 L1 P1 N1. ainv E2 L2 P2 N2. apply IHa in E3. destruct E3 as [P3 F3].
    ainv E4 L4 P4 N4. ainv E5 L5 P5 N5.
    assert (L3 : len e2 <= len e3) by apply P3.
    assert (P35 : pres (e_tb e3) (e_tb e5)) by (eapply pres_trans; eauto).
    assert (P25 : pres (e_tb e2) (e_tb e5)) by (eapply pres_trans; eauto).
    assert (P15 : pres (e_tb e1) (e_tb e5)) by (eapply pres_trans; eauto).
    split; [eapply pres_trans; eauto|].
    intros T HT. cbn [Frag]. exists nb, (len e3).
    split; [|split; [|split; [|split; [|split; [|split]]]]].
    + eapply nth_pres in N1; [|exact P15]. get_st HT N1.
    + eapply nth_pres in N2; [|exact P25]. rewrite <- L1. get_st HT N2.
    + rewrite <- L1, <- L2. apply F3. eapply agree_sub; [exact HT|exact P35|lia|lia|lia].
    + eapply nth_pres in N4; [|exact P5]. get_st HT N4.
    + rewrite <- L4. get_st HT N5.
    + lia.
    + rewrite L4. reflexivity.
  - (* XAnc *) cbn [compile]. dal qid e1 E1. intros H. injection H as <- <-. ainv E1 L1 P1 N1.
    split; [exact P1|]. intros T HT. cbn [Frag]. split; [get_st HT N1|]. split; [reflexivity|exact L1].
  - (* XNoCase *) cbn [compile Frag]. apply IHa.
  - (* XCase *) cbn [compile Frag]. apply IHa.
Qed.

(* ------------------------------------------------------------------------------------------ *)
(** * The language does not depend on the submatch bookkeeping flag *)

Lemma seq_ext (P P' Q Q' : lang) :
  (forall p t n, P p t n <-> P' p t n) -> (forall p t n, Q p t n <-> Q' p t n) ->
  forall p t n,
    (exists s1 s2, t = s1 ++ s2 /\ P p s1 (firstc s2 n) /\ Q (lastc p s1) s2 n) <->
    (exists s1 s2, t = s1 ++ s2 /\ P' p s1 (firstc s2 n) /\ Q' (lastc p s1) s2 n).
Proof.
  intros EP EQ p t n. split; intros (s1 & s2 & E & H1 & H2); exists s1, s2;
    (split; [exact E|split; [apply EP; exact H1|apply EQ; exact H2]]).
Qed.

Lemma LPow_mono (P Q : lang) : (forall p t n, P p t n -> Q p t n) ->
  forall k p t n, LPow P k p t n -> LPow Q k p t n.
Proof.
  intros H. induction k as [|k IH]; cbn [LPow]; [auto|].
  intros p t n (s1 & s2 & E & H1 & H2). exists s1, s2. auto.
Qed.

Lemma to_sre_nocap x : forall nocap ci p t n, L ci (to_sre nocap x) p t n <-> L ci (to_sre true x) p t n.
Proof.
  induction x as [| |cs|l|a IHa b IHb|a IHa b IHb|a IHa|g a IHa|a IHa|g a IHa|g m n a IHa|a IHa|a IHa|a IHa|a IHa|k|a IHa|a IHa];
    intros nocap ci p t n0; cbn [to_sre]; try reflexivity.
  - cbn [L]. apply (seq_ext (L ci (to_sre nocap a)) (L ci (to_sre true a)) (L ci (to_sre nocap b)) (L ci (to_sre true b)));
      intros; [apply IHa|apply IHb].
  - cbn [L]. rewrite (IHa nocap), (IHb nocap). reflexivity.
  - apply IHa.
  - cbn [L]. apply LStar_ext. intros. apply IHa.
  - cbn [L]. split; intros (k & Hk & H); exists k; (split; [exact Hk|]); eapply LPow_mono; try exact H;
      intros p' t' n'; apply IHa.
  - cbn [L]. rewrite (IHa nocap). reflexivity.
  - cbn [L]. destruct n as [nn|]; split; intros (k & Hk & H); exists k; (split; [exact Hk|]); eapply LPow_mono; try exact H;
      intros p' t' n'; apply IHa.
  - destruct nocap; cbn [L]; [reflexivity|apply IHa].
  - destruct nocap; cbn [L]; [reflexivity|apply IHa].
  - cbn [L].
    apply (seq_ext (L ci (Anc Bow)) (L ci (Anc Bow)) (L ci (Seq (to_sre nocap a) (Anc Eow))) (L ci (Seq (to_sre true a) (Anc Eow))));
      intros; [reflexivity|].
    cbn [L]. apply (seq_ext (L ci (to_sre nocap a)) (L ci (to_sre true a)) (L ci (Anc Eow)) (L ci (Anc Eow)));
      intros; [apply IHa|reflexivity].
  - cbn [L]. apply IHa.
  - cbn [L]. apply IHa.
Qed.

(* ------------------------------------------------------------------------------------------ *)
(** * The whole regexp *)

Lemma compile_top_shape x :
  exists n2 h, n_start (compile_top x) = h /\ 2 <= h /\
    nth_error (n_tb (compile_top x)) 0 = Some (mkState KAccept None RNone None None) /\
    is_eps (n_tb (compile_top x)) 1 (Some 0) None /\
    is_eps (n_tb (compile_top x)) h n2 None /\
    Frag (n_tb (compile_top x)) x false 1 n2 2 h.
Proof.
  remember (compile_top x) as N eqn:EN. unfold compile_top, alloc in EN.
  cbn [e_tb length app e_nsub e_ngi] in EN.
  match type of EN with context [compile x false false 1 ?e0] =>
    set (e2 := e0) in EN; destruct (compile x false false 1 e2) as [n2 e3] eqn:E3 end.
  subst N. cbn [n_start n_tb e_tb].
  apply compile_ok in E3. destruct E3 as [[A3 B3] F3]. cbn [e2 e_tb length] in A3, B3, F3.
  exists n2, (len e3). split; [reflexivity|]. split; [exact A3|].
  split; [|split; [|split]].
  - rewrite nth_error_app1 by lia. rewrite B3 by lia. reflexivity.
  - eexists. split; [rewrite nth_error_app1 by lia; rewrite B3 by lia; reflexivity|cbn; auto].
  - eexists. split; [rewrite nth_error_app2 by lia; rewrite Nat.sub_diag; reflexivity|cbn; auto].
  - apply F3. intros q Hq. apply nth_error_app1. lia.
Qed.

Lemma Lat_whole (P : lang) s : Lat s P 0 (length s) <-> P None s None.
Proof.
  split.
  - intros (a & b & c & E & Ha & Hb & H). destruct a; [|discriminate Ha]. cbn [app length] in *.
    assert (c = []) as ->.
    { rewrite E, app_length in Hb. destruct c; [reflexivity|cbn [length] in Hb; lia]. }
    rewrite app_nil_r in E. subst b. exact H.
  - intros H. exists [], s, []. cbn [app length]. rewrite app_nil_r. auto.
Qed.

(** every string of the language has an accepting path: completeness of the graph *)
Theorem compile_top_language_implies_path : forall x s, wf_x x = true ->
  L false (to_sre false x) None s None -> accepts_path (compile_top x) s.
Proof.
  intros x s Hw HL. apply to_sre_nocap in HL.
  destruct (compile_top_shape x) as (n2 & h & Hs & Hh & H0 & H1 & Hn1 & HF).
  apply (Frag_good _ s x Hw) in HF. destruct HF as [_ [C _]].
  apply Lat_whole in HL. destruct (C _ _ HL) as (q0 & -> & Hp).
  exists 0. split.
  - rewrite Hs. eapply path_step; [eapply step_eps1; [exact Hn1|reflexivity]|].
    eapply path_trans; [exact Hp|]. eapply path_step; [eapply step_eps1; [exact H1|reflexivity]|apply path_refl].
  - eexists. split; [exact H0|reflexivity].
Qed.

(** the hypotheses are satisfiable: ( * (/ "az")) ($ "01") (w/nocase (or #\x #\y)) on "ab01Y" *)
Definition ex_x : xsre :=
  XSeq (XStar true (XSeq (XChr (CsRange 97%N 122%N)) XEps))
    (XSeq (XSub (XSeq (XStr [48%N; 49%N]) XEps))
      (XSeq (XNoCase (XSeq (XAlt (XChr (CsChar 120%N)) (XAlt (XChr (CsChar 121%N)) XFail)) XEps)) XEps)).
Definition ex_s : list char := [97%N; 98%N; 48%N; 49%N; 89%N].

Example ex_satisfiable :
  wf_x ex_x = true /\ L false (to_sre false ex_x) None ex_s None /\ accepts_path (compile_top ex_x) ex_s.
Proof.
  assert (wf_x ex_x = true) as W by (vm_compute; reflexivity).
  assert (L false (to_sre false ex_x) None ex_s None) as HL by (apply matchb_spec; vm_compute; reflexivity).
  split; [exact W|]. split; [exact HL|]. apply compile_top_language_implies_path; assumption.
Qed.

(* ------------------------------------------------------------------------------------------ *)
(** * No state of a fragment is an accept state *)

Section NoAcc.
Variable T : list state.

Definition NA (lo hi : nat) : Prop :=
  forall q, lo <= q < hi -> forall st, nth_error T q = Some st -> s_kind st <> KAccept.

Lemma NA_eps q n1 n2 : is_eps T q n1 n2 -> NA q (S q).
Proof.
  intros (st & Hn & Hk & _) q' Hq st' Hn'. assert (q' = q) as -> by lia. rewrite Hn in Hn'. injection Hn' as <-. congruence.
Qed.
Lemma NA_chr q ci cs nx : is_chr T q ci cs nx -> NA q (S q).
Proof.
  intros (st & Hn & Hk & _) q' Hq st' Hn'. assert (q' = q) as -> by lia. rewrite Hn in Hn'. injection Hn' as <-. congruence.
Qed.
Lemma NA_anc q k nx : is_anc T q k nx -> NA q (S q).
Proof.
  intros (st & Hn & Hk & _) q' Hq st' Hn'. assert (q' = q) as -> by lia. rewrite Hn in Hn'. injection Hn' as <-. congruence.
Qed.
Lemma NA_nil lo : NA lo lo.
Proof. intros q Hq. lia. Qed.
Lemma NA_app lo mid hi : NA lo mid -> NA mid hi -> NA lo hi.
Proof. intros H1 H2 q Hq. destruct (lt_dec q mid); [apply H1|apply H2]; lia. Qed.

Definition NAok (lo hi : nat) : Prop := lo <= hi /\ NA lo hi.

Lemma NAok_one lo : NA lo (S lo) -> NAok lo (S lo).
Proof. intros H. split; [lia|exact H]. Qed.
Lemma NAok_app lo mid hi : NAok lo mid -> NAok mid hi -> NAok lo hi.
Proof. intros [A1 B1] [A2 B2]. split; [lia|eapply NA_app; eauto]. Qed.
Lemma NAok_nil lo : NAok lo lo.
Proof. split; [lia|apply NA_nil]. Qed.

Ltac na1 H := apply NAok_one; first [eapply NA_eps; exact H|eapply NA_chr; exact H|eapply NA_anc; exact H].

Lemma FragChars_na l : forall ci next entry lo hi, FragChars T l ci next entry lo hi -> NAok lo hi.
Proof.
  induction l as [|c r IH]; intros ci next entry lo hi H; cbn [FragChars] in H.
  - destruct H as [_ ->]. apply NAok_nil.
  - destruct H as (n3 & H1 & H2 & H3 & _). apply IH in H3.
    eapply NAok_app; [na1 H1|]. eapply NAok_app; [na1 H2|exact H3].
Qed.

Section ItemsNA.
Variable B : bodyp.
Hypothesis HB : forall nx en lo hi, B nx en lo hi -> NAok lo hi.

Lemma ItemFrag_na it nx entry lo hi : ItemFrag T B it nx entry lo hi -> NAok lo hi.
Proof.
  destruct it as [sb|sb|]; cbn [ItemFrag].
  - apply HB.
  - intros (body & h & H1 & H2 & H3 & -> & _). apply HB in H2.
    eapply NAok_app; [na1 H1|]. eapply NAok_app; [exact H2|na1 H3].
  - intros (body & h & H1 & H2 & H3 & H4 & -> & _). apply HB in H3.
    eapply NAok_app; [na1 H1|]. eapply NAok_app; [na1 H2|]. eapply NAok_app; [exact H3|na1 H4].
Qed.

Lemma FragItems_na items : forall next entry lo hi, FragItems T B items next entry lo hi -> NAok lo hi.
Proof.
  induction items as [|it rest IH]; intros next entry lo hi H; cbn [FragItems] in H.
  - destruct H as [_ ->]. apply NAok_nil.
  - destruct H as (n3 & mid & H1 & H2 & H3). apply ItemFrag_na in H2. apply IH in H3.
    eapply NAok_app; [na1 H1|]. eapply NAok_app; eauto.
Qed.
End ItemsNA.

Lemma Frag_na x : forall ci next entry lo hi, Frag T x ci next entry lo hi -> NAok lo hi.
Proof.
  induction x as [| |cs|l|a IHa b IHb|a IHa b IHb|a IHa|g a IHa|a IHa|g a IHa|g m n a IHa|a IHa|a IHa|a IHa|a IHa|k|a IHa|a IHa];
    intros ci next entry lo hi H; cbn [Frag] in H.
  - destruct H as [_ ->]. apply NAok_nil.
  - destruct H as [_ ->]. apply NAok_nil.
  - destruct H as (H & _ & ->). na1 H.
  - eapply FragChars_na; exact H.
  - destruct H as (n3 & mid & H1 & H2 & H3). apply IHa in H2. apply IHb in H3.
    eapply NAok_app; [na1 H1|]. eapply NAok_app; eauto.
  - destruct (is_cset (XAlt a b)).
    + destruct H as (H & _ & ->). na1 H.
    + destruct (is_fail b); [eapply IHa; exact H|].
      destruct H as (n1 & n2 & mid & h & H1 & H2 & H3 & -> & _). apply IHa in H1. apply IHb in H2.
      eapply NAok_app; [exact H1|]. eapply NAok_app; [exact H2|na1 H3].
  - eapply IHa; exact H.
  - destruct H as (body & h & H1 & H2 & H3 & -> & _). apply IHa in H2.
    eapply NAok_app; [na1 H1|]. eapply NAok_app; [exact H2|na1 H3].
  - destruct H as (H1 & H2). apply IHa in H2. eapply NAok_app; [na1 H1|exact H2].
  - destruct H as (body & h & H1 & H2 & -> & _). apply IHa in H1. eapply NAok_app; [exact H1|na1 H2].
  - eapply FragItems_na; [|exact H]. intros nx en lo' hi' HB. eapply IHa; exact HB.
  - destruct H as [H|(n2 & h & H1 & H2 & H3 & -> & _)]; [eapply IHa; exact H|]. apply IHa in H2.
    eapply NAok_app; [na1 H1|]. eapply NAok_app; [exact H2|na1 H3].
  - destruct H as [H|(n2 & h & H1 & H2 & H3 & -> & _)]; [eapply IHa; exact H|]. apply IHa in H2.
    eapply NAok_app; [na1 H1|]. eapply NAok_app; [exact H2|na1 H3].
  - eapply IHa; exact H.
  - destruct H as (nb & h & H1 & H2 & H3 & H4 & H5 & -> & _). apply IHa in H3.
    eapply NAok_app; [na1 H1|]. eapply NAok_app; [na1 H2|]. eapply NAok_app; [exact H3|].
    eapply NAok_app; [na1 H4|na1 H5].
  - destruct H as (H & _ & ->). na1 H.
  - eapply IHa; exact H.
  - eapply IHa; exact H.
Qed.
End NoAcc.

Lemma step_acc_inv T s q i c st :
  nth_error T q = Some st -> s_kind st = KAccept -> step T s (q, i) c -> False.
Proof.
  intros Hn Hk Hs.
  inversion Hs as [q0 i0 st0 q1 Hn0 Hg Hn1 | q0 i0 st0 q1 Hn0 Hg Hn1 | q0 i0 st0 ci0 cs0 ch q1 Hn0 Hk0 Hc Hm Hn1];
    subst; rewrite Hn in Hn0; injection Hn0 as <-.
  - unfold guard_ok in Hg. rewrite Hk in Hg. discriminate.
  - unfold guard_ok in Hg. rewrite Hk in Hg. discriminate.
  - congruence.
Qed.

(** every accepting path spells a string of the language: soundness of the graph *)
Theorem compile_top_path_implies_language : forall x s, wf_x x = true ->
  accepts_path (compile_top x) s -> L false (to_sre false x) None s None.
Proof.
  intros x s Hw (q & Hp & (st & Hq & Hk)). apply to_sre_nocap.
  destruct (compile_top_shape x) as (n2 & h & Hs & Hh & H0 & H1 & Hn1 & HF).
  destruct (Frag_na _ x _ _ _ _ _ HF) as [_ HNA].
  apply (Frag_good _ s x Hw) in HF. destruct HF as [_ [_ S]].
  rewrite Hs in Hp. apply path_pathn in Hp. destruct Hp as (k & Hp).
  assert (HR : ~ Rg 2 h q).
  { intros Hr. exact (HNA q Hr st Hq Hk). }
  inversion Hp as [c0|k0 c0 c1 c2 Hs1 Hp1]; subst.
  - destruct Hn1 as (st' & Hn' & Hk' & _). rewrite Hq in Hn'. injection Hn' as <-. congruence.
  - destruct (step_eps_inv _ _ _ _ _ _ _ Hn1 Hs1) as (q1 & -> & [E|E]); [|discriminate E].
    destruct (S k0 q1 0 q (length s) E ltac:(lia) Hp1 HR) as (j & k' & _ & Hj & HP & Hp2).
    inversion Hp2 as [c0|k1 c0 c3 c4 Hs2 Hp3]; subst.
    + destruct H1 as (st' & Hn' & Hk' & _). rewrite Hq in Hn'. injection Hn' as <-. congruence.
    + destruct (step_eps_inv _ _ _ _ _ _ _ H1 Hs2) as (q2 & -> & [E2|E2]); [|discriminate E2].
      injection E2 as <-.
      inversion Hp3 as [c0|k2 c0 c5 c6 Hs3 Hp4]; subst.
      * apply Lat_whole. exact HP.
      * exfalso. eapply step_acc_inv; [exact H0|reflexivity|exact Hs3].
Qed.

(** * Main theorem *)
Theorem compile_top_path_iff_language : forall x s, wf_x x = true ->
  (accepts_path (compile_top x) s <-> L false (to_sre false x) None s None).
Proof.
  intros x s Hw. split.
  - apply compile_top_path_implies_language. exact Hw.
  - apply compile_top_language_implies_path. exact Hw.
Qed.

(* ------------------------------------------------------------------------------------------ *)
(** * Search *)

Lemma firstn_len_app {A} (a r : list A) : firstn (length a) (a ++ r) = a.
Proof. induction a as [|x a IH]; cbn [length app firstn]; [destruct r; reflexivity|rewrite IH; reflexivity]. Qed.
Lemma skipn_len_app {A} (a r : list A) : skipn (length a) (a ++ r) = r.
Proof. induction a as [|x a IH]; cbn [length app skipn]; [reflexivity|exact IH]. Qed.

Lemma Lat_in_lang (P : lang) s i j :
  Lat s P i j <-> (i <= j /\ j <= length s) /\ P (lastc None (pre i s)) (mid i j s) (firstc (post j s) None).
Proof.
  unfold pre, mid, post. split.
  - intros H. split; [apply (Lat_bounds s P i j H)|].
    destruct H as (a & b & c & -> & -> & -> & H).
    rewrite firstn_len_app, skipn_len_app. replace (length a + length b - length a) with (length b) by lia.
    rewrite firstn_len_app. rewrite app_assoc, <- app_length, skipn_len_app. exact H.
  - intros [[Hij Hj] H].
    set (a := firstn i s) in *. set (b := firstn (j - i) (skipn i s)) in *.
    set (c := skipn (j - i) (skipn i s)).
    assert (E : s = a ++ b ++ c).
    { unfold a, b, c. rewrite firstn_skipn. symmetry. apply firstn_skipn. }
    assert (La : length a = i) by (apply firstn_length_le; lia).
    assert (Lb : length b = j - i).
    { apply firstn_length_le. rewrite skipn_length. lia. }
    assert (Ec : skipn j s = c).
    { rewrite E at 1. rewrite app_assoc. replace j with (length (a ++ b)) by (rewrite app_length; lia).
      apply skipn_len_app. }
    rewrite Ec in H. exists a, b, c. split; [exact E|]. split; [lia|]. split; [lia|exact H].
Qed.

Lemma compile_top_path_general x s i j : wf_x x = true -> i <= length s ->
  ((exists q, path (n_tb (compile_top x)) s (n_start (compile_top x), i) (q, j) /\ is_accept (n_tb (compile_top x)) q) <->
   Lat s (L false (to_sre true x)) i j).
Proof.
  intros Hw Hi.
  destruct (compile_top_shape x) as (n2 & h & Hs & Hh & H0 & H1 & Hn1 & HF).
  destruct (Frag_na _ x _ _ _ _ _ HF) as [_ HNA].
  apply (Frag_good _ s x Hw) in HF. destruct HF as [_ [C S]].
  rewrite Hs. split.
  - intros (q & Hp & (st & Hq & Hk)).
    apply path_pathn in Hp. destruct Hp as (k & Hp).
    assert (HR : ~ Rg 2 h q).
    { intros Hr. exact (HNA q Hr st Hq Hk). }
    inversion Hp as [c0|k0 c0 c1 c2 Hs1 Hp1]; subst.
    + destruct Hn1 as (st' & Hn' & Hk' & _). rewrite Hq in Hn'. injection Hn' as <-. congruence.
    + destruct (step_eps_inv _ _ _ _ _ _ _ Hn1 Hs1) as (q1 & -> & [E|E]); [|discriminate E].
      destruct (S k0 q1 i q j E Hi Hp1 HR) as (j0 & k' & _ & Hj & HP & Hp2).
      inversion Hp2 as [c0|k1 c0 c3 c4 Hs2 Hp3]; subst.
      * destruct H1 as (st' & Hn' & Hk' & _). rewrite Hq in Hn'. injection Hn' as <-. congruence.
      * destruct (step_eps_inv _ _ _ _ _ _ _ H1 Hs2) as (q2 & -> & [E2|E2]); [|discriminate E2].
        injection E2 as <-.
        inversion Hp3 as [c0|k2 c0 c5 c6 Hs3 Hp4]; subst.
        -- exact HP.
        -- exfalso. eapply step_acc_inv; [exact H0|reflexivity|exact Hs3].
  - intros HL. destruct (C _ _ HL) as (q0 & -> & Hp).
    exists 0. split.
    + eapply path_step; [eapply step_eps1; [exact Hn1|reflexivity]|].
      eapply path_trans; [exact Hp|]. eapply path_step; [eapply step_eps1; [exact H1|reflexivity]|apply path_refl].
    + eexists. split; [exact H0|reflexivity].
Qed.

Theorem compile_top_finds_iff_substring : forall x s, wf_x x = true ->
  (finds_path (compile_top x) s <-> exists i j, in_lang false (to_sre false x) s i j).
Proof.
  intros x s Hw. unfold finds_path, in_lang. split.
  - intros (i & j & q & Hi & Hp & Ha). exists i, j.
    apply (Lat_in_lang (L false (to_sre false x))).
    apply (Lat_ext s (L false (to_sre true x))); [intros; symmetry; apply to_sre_nocap|].
    apply (compile_top_path_general x s i j Hw Hi). eauto.
  - intros (i & j & H). apply (Lat_in_lang (L false (to_sre false x))) in H.
    apply (Lat_ext s _ (L false (to_sre true x))) in H; [|intros; apply to_sre_nocap].
    assert (Hi : i <= length s) by (apply Lat_bounds in H; lia).
    apply (compile_top_path_general x s i j Hw Hi) in H. destruct H as (q & Hp & Ha).
    exists i, j, q. auto.
Qed.

