(** C14 — the pieces composed: what the translated %resolve-import returns, imported by the model of
    sexp_env_import_op, exposes exactly R7RS's import set, each name on the exporter's own cell. *)
From Coq Require Import String List Bool Arith.
From ChibiV Require Import C14.Sx C14.World C14.Spec C14.Encode C14.SpecProofs Gen.C14_ImportCode C14.Refine
  C14.Env C14.EnvProofs.
Import ListNotations.
Local Open Scope string_scope.

Theorem import_end_to_end_proof W i f to from immutp :
  wf_iset i -> isize i + max_exports W < f -> chibi_ok W i -> unambiguous W i -> to <> [] ->
  (forall n m, denotes W i n m -> env_cell from m <> None) ->
  exists ids l,
    resolve_import f (enc_world W) (enc i) = Ok (Pair (enc_lib (lib_of i)) ids) /\ abs_ids ids = Some l /\
    forall n,
      (forall m, denotes W i n m -> env_cell (env_import to from (Some l) immutp) n = env_cell from m) /\
      ((forall m, ~ denotes W i n m) -> env_cell (env_import to from (Some l) immutp) n = env_cell to n).
Proof.
  intros Hwf Hf Hok Hu Hto Hb.
  pose proof (resolve_refines_denote W i Hwf f Hf) as R. unfold refines in R.
  apply denote_defined_iff in Hok. destruct (denote W i) as [l|] eqn:E; [|congruence].
  destruct R as [ids [H1 H2]]. exists ids, l. split; [exact H1|]. split; [exact H2|].
  exact (import_exposes_exactly_proof W i l to from immutp E Hu Hto Hb).
Qed.

(** non-vacuity: (only (prefix L p:) p:c) over a library exporting (rename b c) *)
Example end_to_end_example :
  let W := [(["v"; "l"], [("a", "a"); ("c", "b")])] in
  let i := IOnly (IPrefix (ILib ["v"; "l"]) "p:") ["p:c"] in
  let lib := [ {| f_renames := []; f_bindings := [("b", 7); ("a", 5); ("h", 9)]; f_immutable := false |} ] in
  denote W i = Some [("p:c", "b")] /\
  env_cell (env_import [empty_frame] lib (denote W i) true) "p:c" = Some 7 /\
  env_cell (env_import [empty_frame] lib (denote W i) true) "b" = None /\
  env_cell (env_import [empty_frame] lib (denote W i) true) "h" = None.
Proof. repeat split. Qed.
