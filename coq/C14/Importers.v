(** C14 — WHO imports does not matter: the module table is a component of the WORLD (one per chibi
    context: the variable *modules* of the single meta environment, sexp_global(ctx, SEXP_G_META_ENV)),
    not of the environment the import form is evaluated in.
    eval.c sexp_load_standard_env, "load and bind meta-7.scm env":
        if (!sexp_envp(tmp = sexp_global(ctx, SEXP_G_META_ENV))) {      -- singleton guard
          tmp = sexp_make_env(ctx); sexp_global(ctx, SEXP_G_META_ENV) = tmp; sexp_env_parent(tmp) = e;
          sexp_load_module_file(ctx, sexp_meta_file, tmp); }             -- meta-7.scm: (define *modules* (list ...))
        ... the `import` (repl-import) of THAT meta environment is spliced into the new environment e.
    Every standard environment — the program's, (scheme-report-environment n), the one a library body
    runs in — therefore reaches the same table through the same repl-import / load-module.
    No proofs in this file. *)
From Coq Require Import List Bool Arith.
From ChibiV Require Import C14.Load.
Import ListNotations.

Record world := {
  w_meta : option state;     (* None: no standard environment yet; Some st: the meta environment and its module table *)
  w_std_envs : nat           (* number of standard environments made so far *)
}.
Definition no_world : world := {| w_meta := None; w_std_envs := 0 |}.

(** eval.c sexp_load_standard_env: the meta environment is made by the FIRST call only *)
Definition load_standard_env (w : world) : world :=
  {| w_meta := match w_meta w with Some st => Some st | None => Some init_state end;
     w_std_envs := S (w_std_envs w) |}.

(** main.c: the program runs in the first standard environment *)
Definition boot : world := load_standard_env no_world.

(** the kinds of importer the correspondence check drives (harness/c14_driver.scm, generated programs) *)
Inductive importer : Type :=
| ByProgram            (* (import (lib)) at the top level of the program: repl-import *)
| ByEnvironment        (* (environment '(lib)): meta-7.scm environment -> load-module *)
| ByEvalImport         (* (eval '(import (lib)) (interaction-environment)) *)
| ByLoadFile           (* (load file env), the file's first form is (import (lib)) *)
| ByLoadPort           (* (load port env) *)
| ByInclude            (* (include file) whose text is (import (lib)) *)
| ByNewStandardEnv     (* (scheme-report-environment n) FIRST, then (load file that-environment) *)
| ByLibrary.           (* an import declaration of another library: resolve-module-imports -> load-module *)

Definition request := (importer * lname)%type.

Definition step (fuel : nat) (d : defs) (w : world) (r : request) : world * outcome :=
  let w1 := match fst r with ByNewStandardEnv => load_standard_env w | _ => w end in
  match w_meta w1 with
  | None => (w1, NotFound (snd r))           (* no standard environment: there is no import form at all *)
  | Some st =>
      let (st', o) := load_module fuel d st (snd r) in
      ({| w_meta := Some st'; w_std_envs := w_std_envs w1 |}, o)
  end.

Fixpoint run (fuel : nat) (d : defs) (w : world) (reqs : list request) : world * list outcome :=
  match reqs with
  | [] => (w, [])
  | r :: rest =>
      let (w1, o) := step fuel d w r in
      let (w2, os) := run fuel d w1 rest in
      (w2, o :: os)
  end.

Definition table_state (w : world) : state := match w_meta w with Some st => st | None => init_state end.
