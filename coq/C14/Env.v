(** C14 — environments as chains of frames with [renames] and [bindings], and the import of an id
    list into an environment (eval.c).  A cell (the pair (name . value) a variable lives in) is a heap
    object with identity: modelled as a location [loc]; what matters here is WHICH cell a name
    resolves to.  None of the functions below takes or returns a store: importing neither allocates
    nor writes cells.  No proofs in this file. *)
From Coq Require Import String List Bool.
Import ListNotations.
Local Open Scope string_scope.

Definition loc := nat.

(** include/chibi/sexp.h:527-532 struct env: parent, lambda, bindings, renames (+ immutable flag in the header) *)
Record frame := {
  f_renames : list (string * loc);    (* key |-> cell of ANOTHER environment (SEXP_USE_RENAME_BINDINGS) *)
  f_bindings : list (string * loc);   (* this frame's own cells, newest first *)
  f_immutable : bool
}.
Definition env := list frame.          (* innermost frame first; the tail is the parent chain *)
Definition empty_frame : frame := {| f_renames := []; f_bindings := []; f_immutable := false |}.

Fixpoint assoc_loc (k : string) (l : list (string * loc)) : option loc :=
  match l with
  | [] => None
  | (a, c) :: r => if String.eqb k a then Some c else assoc_loc k r
  end.

(** eval.c:84-103 sexp_env_cell_loc1, one frame: the renames list first, then the bindings *)
Definition frame_cell (f : frame) (k : string) : option loc :=
  match assoc_loc k (f_renames f) with
  | Some c => Some c
  | None => assoc_loc k (f_bindings f)
  end.

(** eval.c:84-103 sexp_env_cell_loc1 with localp = 0: first frame that has the key, along the parents
    (keys are plain symbols here; the syntactic-closure part of sexp_env_cell_loc belongs to C07) *)
Fixpoint env_cell (e : env) (k : string) : option loc :=
  match e with
  | [] => None
  | f :: r => match frame_cell f k with Some c => Some c | None => env_cell r k end
  end.

(** eval.c:2651-2673, the loop over [ls]: for (newname . oldname), look oldname up in [from] through
    the whole parent chain; if it has a cell, push (newname |-> that very cell) on the FRONT of the
    importing frame's renames (sexp_env_rename = sexp_env_push_rename); if not, only a warning. *)
Fixpoint import_ids (from : env) (ids : list (string * string)) (ren : list (string * loc)) : list (string * loc) :=
  match ids with
  | [] => ren
  | (newname, oldname) :: r =>
      match env_cell from oldname with
      | Some c => import_ids from r ((newname, c) :: ren)
      | None => import_ids from r ren
      end
  end.

(** eval.c:2619-2688 sexp_env_import_op (to, from, ls, immutp).  The C code rewrites [to] in place:
    2626-2637  a new frame takes over to's old bindings, renames and immutable flag and is spliced in
               as to's parent; [to] itself is emptied (its immutable flag is set to immutp meanwhile);
    2639-2673  the imports go into [to]: in bulk (ls = #f: to's bindings/renames := those of from's
               FIRST frame, shared) or one rename per listed id;
    2675-2686  another new frame takes over what [to] now holds (the imports; the new frame's own
               immutable flag stays 0) and is spliced in as to's parent; [to] is emptied again and
               its immutable flag cleared: it is the frame for future defines.
    Result, innermost first:  empty :: imports :: old contents of to :: old parents of to. *)
Definition env_import (to from : env) (ls : option (list (string * string))) (immutp : bool) : env :=
  match to with
  | [] => []
  | f :: rest =>
      let imports :=
        match ls with
        | None => match from with
                  | ff :: _ => {| f_renames := f_renames ff; f_bindings := f_bindings ff; f_immutable := false |}
                  | [] => empty_frame
                  end
        | Some ids => {| f_renames := import_ids from ids []; f_bindings := []; f_immutable := false |}
        end in
      empty_frame :: imports :: f :: rest
  end.

(** the cell the id list delivers for the visible name n: the LAST entry for n whose internal name is
    bound in the exporting environment (later pushes shadow earlier ones) *)
Fixpoint last_hit (from : env) (ids : list (string * string)) (n : string) : option loc :=
  match ids with
  | [] => None
  | (a, b) :: r =>
      match last_hit from r n with
      | Some c => Some c
      | None => if String.eqb n a then env_cell from b else None
      end
  end.
