(** C14 — the S-expression datatype and the Scheme primitives the translated code of
    lib/meta-7.scm is expressed in (gen/c14_import.py emits calls to exactly these names).
    Every primitive is strict and partial the way the Scheme primitive is: applying it outside
    its domain gives an explicit [Err], never a default value.  No proofs in this file. *)
From Coq Require Export String List Bool ZArith Ascii.
Export ListNotations.
Local Open Scope string_scope.

Inductive sx : Type :=
| Nil                      (* '() *)
| Sym (s : string)         (* symbol, by name *)
| Str (s : string)         (* string (sequence of bytes; see notes: ASCII / UTF-8 prefix argument) *)
| Num (n : Z)              (* exact integer *)
| Bool (b : bool)
| Void                     (* unspecified value: cond/case without a matching clause *)
| Pair (a d : sx).

Inductive err : Type :=
| OutOfFuel                          (* recursion fuel exhausted: an artefact of the model, never chibi behaviour *)
| SchemeError (msg : string)         (* (error msg irritant ...) raised by the translated code *)
| TypeError (who : string).          (* a primitive applied outside its domain, e.g. (car '()) *)

Inductive res (A : Type) : Type :=
| Ok (a : A)
| Err (e : err).
Arguments Ok {A} a.
Arguments Err {A} e.

Definition ret {A} (a : A) : res A := Ok a.
Definition bind {A B} (m : res A) (k : A -> res B) : res B :=
  match m with Ok a => k a | Err e => Err e end.

(** Scheme truth: everything but #f *)
Definition truthy (v : sx) : bool := match v with Bool false => false | _ => true end.

(** ** lists *)
Fixpoint list_sx (l : list sx) : sx :=
  match l with [] => Nil | a :: r => Pair a (list_sx r) end.

Definition p_car (v : sx) : res sx := match v with Pair a _ => Ok a | _ => Err (TypeError "car") end.
Definition p_cdr (v : sx) : res sx := match v with Pair _ d => Ok d | _ => Err (TypeError "cdr") end.
Definition p_cadr (v : sx) : res sx := bind (p_cdr v) p_car.
Definition p_cddr (v : sx) : res sx := bind (p_cdr v) p_cdr.
Definition p_caar (v : sx) : res sx := bind (p_car v) p_car.
Definition p_cdar (v : sx) : res sx := bind (p_car v) p_cdr.
Definition p_caddr (v : sx) : res sx := bind (p_cddr v) p_car.
Definition p_cons (a d : sx) : res sx := Ok (Pair a d).

Definition p_pair_p (v : sx) : res sx := Ok (Bool match v with Pair _ _ => true | _ => false end).
Definition p_null_p (v : sx) : res sx := Ok (Bool match v with Nil => true | _ => false end).
Definition p_symbol_p (v : sx) : res sx := Ok (Bool match v with Sym _ => true | _ => false end).
Definition p_string_p (v : sx) : res sx := Ok (Bool match v with Str _ => true | _ => false end).
Definition p_number_p (v : sx) : res sx := Ok (Bool match v with Num _ => true | _ => false end).
Definition p_boolean_p (v : sx) : res sx := Ok (Bool match v with Bool _ => true | _ => false end).
Fixpoint is_list (v : sx) : bool :=
  match v with Nil => true | Pair _ d => is_list d | _ => false end.
Definition p_list_p (v : sx) : res sx := Ok (Bool (is_list v)).
Definition p_not (v : sx) : res sx := Ok (Bool (negb (truthy v))).

(** eq?: identity.  Symbols, fixnums, booleans, '() and the unspecified value are identical iff
    equal; two pairs or two strings are identical only if they are the same object, which a
    value-level model cannot know: that case is an explicit error (fail closed), and the
    theorems show it never arises on well-formed import sets. *)
Definition p_eq_p (a b : sx) : res sx :=
  match a, b with
  | Sym s, Sym t => Ok (Bool (String.eqb s t))
  | Num n, Num m => Ok (Bool (Z.eqb n m))
  | Bool x, Bool y => Ok (Bool (Bool.eqb x y))
  | Nil, Nil => Ok (Bool true)
  | Void, Void => Ok (Bool true)
  | Pair _ _, Pair _ _ => Err (TypeError "eq? on two pairs")
  | Str _, Str _ => Err (TypeError "eq? on two strings")
  | _, _ => Ok (Bool false)
  end.

(** equal?: structural *)
Fixpoint sx_eqb (a b : sx) : bool :=
  match a, b with
  | Nil, Nil => true
  | Sym s, Sym t => String.eqb s t
  | Str s, Str t => String.eqb s t
  | Num n, Num m => Z.eqb n m
  | Bool x, Bool y => Bool.eqb x y
  | Void, Void => true
  | Pair a1 d1, Pair a2 d2 => sx_eqb a1 a2 && sx_eqb d1 d2
  | _, _ => false
  end.
Definition p_equal_p (a b : sx) : res sx := Ok (Bool (sx_eqb a b)).

(** memq / assq are the C opcodes sexp_memq_op / sexp_assq_op (sexp.c:998-1014): walk while the list
    is a pair, compare by identity; an improper tail ends the walk with #f; assq skips elements that
    are not pairs.  (Identity of two pairs / two strings is unknown to a value-level model: [p_eq_p]
    fails closed there.) *)
Fixpoint p_memq (x ls : sx) : res sx :=
  match ls with
  | Pair a d => bind (p_eq_p x a) (fun t => if truthy t then Ok ls else p_memq x d)
  | _ => Ok (Bool false)
  end.

Fixpoint p_assq (x ls : sx) : res sx :=
  match ls with
  | Pair (Pair k v) d => bind (p_eq_p x k) (fun t => if truthy t then Ok (Pair k v) else p_assq x d)
  | Pair _ d => p_assq x d
  | _ => Ok (Bool false)
  end.

(** map with one list (init-7.scm `map`), find (init-7.scm:677-681), filter *)
Fixpoint p_map (f : sx -> res sx) (ls : sx) : res sx :=
  match ls with
  | Nil => Ok Nil
  | Pair a d => bind (f a) (fun a' => bind (p_map f d) (fun d' => Ok (Pair a' d')))
  | _ => Err (TypeError "map: improper list")
  end.

Fixpoint p_find (f : sx -> res sx) (ls : sx) : res sx :=
  match ls with
  | Pair a d => bind (f a) (fun t => if truthy t then Ok a else p_find f d)
  | _ => Ok (Bool false)          (* find-tail: (and (pair? ls) ...) *)
  end.

(** lib/init-7.scm:98-105 (every pred ls) with one list: (if (pair? ls) (every1 pred ls) #t);
    every1: (if (null? (cdr ls)) (pred (car ls)) (if (pred (car ls)) (every1 pred (cdr ls)) #f)) -- the LAST value is returned *)
Fixpoint p_every1 (f : sx -> res sx) (a d : sx) : res sx :=
  match d with
  | Nil => f a
  | Pair a' d' => bind (f a) (fun t => if truthy t then p_every1 f a' d' else Ok (Bool false))
  | _ => bind (f a) (fun t => if truthy t then Err (TypeError "cdr") else Ok (Bool false))
  end.
Definition p_every (f : sx -> res sx) (ls : sx) : res sx :=
  match ls with Pair a d => p_every1 f a d | _ => Ok (Bool true) end.

(** lib/init-7.scm:86-96 (any pred ls) with one list: (if (pair? ls) (any1 pred ls) #f);
    any1: (if (pair? (cdr ls)) ((lambda (x) (if x x (any1 pred (cdr ls)))) (pred (car ls))) (pred (car ls))) *)
Fixpoint p_any1 (f : sx -> res sx) (a d : sx) : res sx :=
  match d with
  | Pair a' d' => bind (f a) (fun t => if truthy t then Ok t else p_any1 f a' d')
  | _ => f a
  end.
Definition p_any (f : sx -> res sx) (ls : sx) : res sx :=
  match ls with Pair a d => p_any1 f a d | _ => Ok (Bool false) end.

Fixpoint p_filter (f : sx -> res sx) (ls : sx) : res sx :=
  match ls with
  | Nil => Ok Nil
  | Pair a d => bind (f a) (fun t => bind (p_filter f d) (fun d' => Ok (if truthy t then Pair a d' else d')))
  | _ => Err (TypeError "filter: improper list")
  end.

(** ** numbers (only what symbol-drop needs) *)
Definition num2 (who : string) (f : Z -> Z -> sx) (a b : sx) : res sx :=
  match a, b with Num n, Num m => Ok (f n m) | _, _ => Err (TypeError who) end.
Definition p_gt := num2 ">" (fun n m => Bool (Z.gtb n m)).
Definition p_ge := num2 ">=" (fun n m => Bool (Z.geb n m)).
Definition p_lt := num2 "<" (fun n m => Bool (Z.ltb n m)).
Definition p_le := num2 "<=" (fun n m => Bool (Z.leb n m)).
Definition p_num_eq := num2 "=" (fun n m => Bool (Z.eqb n m)).
Definition p_add := num2 "+" (fun n m => Num (n + m)).
Definition p_sub := num2 "-" (fun n m => Num (n - m)).

(** ** strings and symbols *)
Definition p_symbol_to_string (v : sx) : res sx :=
  match v with Sym s => Ok (Str s) | _ => Err (TypeError "symbol->string") end.
Definition p_string_to_symbol (v : sx) : res sx :=
  match v with Str s => Ok (Sym s) | _ => Err (TypeError "string->symbol") end.
Definition p_string_append (a b : sx) : res sx :=
  match a, b with Str s, Str t => Ok (Str (s ++ t)) | _, _ => Err (TypeError "string-append") end.
Definition p_string_length (v : sx) : res sx :=
  match v with Str s => Ok (Num (Z.of_nat (String.length s))) | _ => Err (TypeError "string-length") end.
Definition p_string_eq (a b : sx) : res sx :=
  match a, b with Str s, Str t => Ok (Bool (String.eqb s t)) | _, _ => Err (TypeError "string=?") end.

(** (substring s start end): range error unless 0 <= start <= end <= length *)
Definition p_substring3 (v a b : sx) : res sx :=
  match v, a, b with
  | Str s, Num i, Num j =>
      if ((0 <=? i) && (i <=? j) && (j <=? Z.of_nat (String.length s)))%Z
      then Ok (Str (String.substring (Z.to_nat i) (Z.to_nat (j - i)) s))
      else Err (TypeError "substring: range")
  | _, _, _ => Err (TypeError "substring")
  end.
Definition p_substring2 (v a : sx) : res sx :=
  match v with
  | Str s => p_substring3 v a (Num (Z.of_nat (String.length s)))
  | _ => Err (TypeError "substring")
  end.

(** (length ls): proper lists only *)
Fixpoint sx_length (v : sx) : option Z :=
  match v with
  | Nil => Some 0%Z
  | Pair _ d => match sx_length d with Some n => Some (n + 1)%Z | None => None end
  | _ => None
  end.
Definition p_length (v : sx) : res sx :=
  match sx_length v with Some n => Ok (Num n) | None => Err (TypeError "length: not a list") end.

(** (identifier->symbol x): a symbol is itself; syntactic closures (C07) are not S-expression data here *)
(** identifier->symbol is sexp_strip_synclos (opcodes.c:164, eval.c:660): it removes syntactic closures anywhere in the datum; a value of
    this model contains none, so it is the identity (a pair comes back as an equal copy: identity of pairs is unknown to the model anyway) *)
Definition p_identifier_to_symbol (v : sx) : res sx := Ok v.

(** (error msg irritant ...) *)
Definition p_error (msg : sx) (irritants : list sx) : res sx :=
  match msg with Str m => Err (SchemeError m) | _ => Err (SchemeError "?") end.

(** case: (memv key '(d ...)) on constant data (symbols / numbers / booleans) *)
Fixpoint case_mem (k : sx) (ds : list sx) : bool :=
  match ds with [] => false | d :: r => sx_eqb k d || case_mem k r end.
