(** C14 — unbounded: a library that (transitively) imports itself is never loaded, whatever the fuel. *)
From Coq Require Import List Bool Arith Lia Relations.
From ChibiV Require Import C14.Load C14.LoadInv.
Import ListNotations.

(** a library with an environment has all its imports loaded *)
Definition K (d : defs) (st : state) : Prop :=
  forall y e imps i, env_of st y = Some e -> lookup y d = Some imps -> In i imps -> exists e', env_of st i = Some e'.
(** the declarations kept in the table are the ones on disk *)
Definition M (d : defs) (st : state) : Prop :=
  forall y m imps, lookup y (table st) = Some m -> m_meta m = Decls imps -> lookup y d = Some imps.

Lemma find_cases d st x st1 mo : find_module d st x = (st1, mo) ->
  (st1 = st /\ mo = lookup x (table st)) \/
  (exists imps, lookup x (table st) = None /\ lookup x d = Some imps /\ mo = Some {| m_env := None; m_meta := Decls imps |} /\
                st1 = {| table := (x, {| m_env := None; m_meta := Decls imps |}) :: table st; evals := evals st; next_env := next_env st |}).
Proof.
  unfold find_module. destruct (lookup x (table st)) as [m|] eqn:E.
  - intros [= <- <-]. left. split; [reflexivity | congruence].
  - destruct (lookup x d) as [imps|] eqn:Ed.
    + intros [= <- <-]. right. exists imps. repeat split; reflexivity.
    + intros [= <- <-]. left. split; [reflexivity | congruence].
Qed.

Lemma find_KM d st x st1 mo : find_module d st x = (st1, mo) -> K d st -> M d st -> K d st1 /\ M d st1.
Proof.
  intros Hf HK HM. destruct (find_cases _ _ _ _ _ Hf) as [[-> _]|(imps & Hn & Hd & -> & ->)]; [split; assumption|].
  assert (Henv : forall y, env_of {| table := (x, {| m_env := None; m_meta := Decls imps |}) :: table st; evals := evals st; next_env := next_env st |} y = env_of st y).
  { intro y. unfold env_of. cbn [table lookup]. destruct (Nat.eqb y x) eqn:E; [|reflexivity].
    apply Nat.eqb_eq in E. subst y. rewrite Hn. reflexivity. }
  split.
  - intros y e imps' i He Hl Hi. rewrite Henv in He. destruct (HK y e imps' i He Hl Hi) as [e' He']. exists e'. rewrite Henv. exact He'.
  - intros y m imps' Hl Hm. cbn [table lookup] in Hl. destruct (Nat.eqb y x) eqn:E.
    + apply Nat.eqb_eq in E. subst y. injection Hl as <-. cbn [m_meta] in Hm. injection Hm as <-. exact Hd.
    + exact (HM y m imps' Hl Hm).
Qed.

Section Fuel.
  Variable d : defs.
  Variable f : nat.
  Hypothesis IHf : forall st x st' o, load_module f d st x = (st', o) -> J st -> NoDup (evals st) -> K d st -> M d st ->
    K d st' /\ M d st'.

  Lemma import_all_KM : forall imps s s' o, import_all_with (load_module f d) imps s = (s', o) ->
    J s -> NoDup (evals s) -> K d s -> M d s ->
    K d s' /\ M d s' /\ (o = Done -> forall i, In i imps -> exists e, env_of s' i = Some e).
  Proof.
    induction imps as [|i r IH]; cbn [import_all_with]; intros s s' o H HJ Hn HK HM.
    - injection H as <- <-. split; [exact HK|]. split; [exact HM|]. intros _ i [].
    - destruct (load_module f d s i) as [s1 o1] eqn:E.
      destruct (IHf _ _ _ _ E HJ Hn HK HM) as (HK1 & HM1).
      destruct (load_ok d f _ _ _ _ E HJ Hn) as (HJ1 & Hn1 & Hs1).
      destruct o1; try (injection H as <- <-; split; [exact HK1|]; split; [exact HM1 | discriminate]).
      destruct (IH _ _ _ H HJ1 Hn1 HK1 HM1) as (HK2 & HM2 & Hall).
      destruct (import_all_ok d f (load_ok d f) _ _ _ _ H HJ1 Hn1) as (_ & _ & Hs2).
      split; [exact HK2|]. split; [exact HM2|].
      intros Ho j [<-|Hj]; [|exact (Hall Ho j Hj)].
      destruct (load_done_has_env_proof _ _ _ _ _ E) as [e He]. exists e. exact (so_env _ _ Hs2 _ _ He).
  Qed.
End Fuel.

Theorem load_KM d : forall f st x st' o, load_module f d st x = (st', o) -> J st -> NoDup (evals st) -> K d st -> M d st ->
  K d st' /\ M d st'.
Proof.
  induction f as [|f IHf]; intros st x st' o H HJ Hn HK HM.
  - cbn [load_module] in H. injection H as <- <-. split; assumption.
  - cbn [load_module] in H.
    destruct (find_module d st x) as [st1 mo] eqn:Ef.
    destruct (find_ok _ _ _ _ _ Ef HJ Hn) as (HJ1 & Hn1 & Hs1).
    destruct (find_KM _ _ _ _ _ Ef HK HM) as (HK1 & HM1).
    destruct (find_step _ _ _ _ _ Ef) as (He1 & Hmo & _).
    destruct mo as [m|]; [|injection H as <- <-; auto].
    destruct (m_env m) as [e|] eqn:Eenv; [injection H as <- <-; auto|].
    destruct (m_meta m) as [imps|] eqn:Emeta; [|injection H as <- <-; auto].
    set (st2 := set_module st1 x {| m_env := None; m_meta := ErrorForm |}) in H.
    assert (Hx1 : env_of st1 x = None) by (unfold env_of; rewrite <- Hmo; exact Eenv).
    assert (Hd : lookup x d = Some imps) by (apply (HM1 x m imps); [symmetry; exact Hmo | exact Emeta]).
    assert (Henv2 : forall y, env_of st2 y = env_of st1 y).
    { intro y. unfold env_of, st2, set_module. cbn [table]. destruct (Nat.eq_dec y x) as [->|Hne].
      - rewrite lookup_update_same. cbn [m_env]. unfold env_of in Hx1. symmetry. exact Hx1.
      - rewrite lookup_update_other by exact Hne. reflexivity. }
    assert (HJ2 : J st2).
    { intros k Hin. change (evals st2) with (evals st1) in Hin. destruct (HJ1 k Hin) as [e0 H0]. exists e0. rewrite Henv2. exact H0. }
    assert (HK2 : K d st2).
    { intros y e0 imps' i He Hl Hi. rewrite Henv2 in He. destruct (HK1 y e0 imps' i He Hl Hi) as [e' He']. exists e'. rewrite Henv2. exact He'. }
    assert (HM2 : M d st2).
    { intros y m' imps' Hl Hm. unfold st2, set_module in Hl. cbn [table] in Hl. destruct (Nat.eq_dec y x) as [->|Hne].
      - rewrite lookup_update_same in Hl. injection Hl as <-. cbn in Hm. discriminate.
      - rewrite lookup_update_other in Hl by exact Hne. exact (HM1 y m' imps' Hl Hm). }
    destruct (import_all_with (load_module f d) imps st2) as [st3 o3] eqn:Ei.
    destruct (import_all_KM d f IHf _ _ _ _ Ei HJ2 Hn1 HK2 HM2) as (HK3 & HM3 & Hall).
    destruct o3; try (injection H as <- <-; split; assumption).
    injection H as <- <-. split.
    + intros y e0 imps' i He Hl Hi. unfold env_of in *. cbn [table] in *.
      assert (Hi3 : exists e', env_of st3 i = Some e').
      { destruct (Nat.eq_dec y x) as [->|Hne].
        - rewrite Hd in Hl. injection Hl as <-. exact (Hall eq_refl i Hi).
        - rewrite lookup_update_other in He by exact Hne. exact (HK3 y e0 imps' i He Hl Hi). }
      destruct Hi3 as [e' He']. destruct (Nat.eq_dec i x) as [->|Hne'].
      * rewrite lookup_update_same. cbn [m_env]. eexists. reflexivity.
      * rewrite lookup_update_other by exact Hne'. exists e'. exact He'.
    + intros y m' imps' Hl Hm. cbn [table] in Hl. destruct (Nat.eq_dec y x) as [->|Hne].
      * rewrite lookup_update_same in Hl. injection Hl as <-. cbn [m_meta] in Hm. injection Hm as <-. exact Hd.
      * rewrite lookup_update_other in Hl by exact Hne. exact (HM3 y m' imps' Hl Hm).
Qed.

(** the import graph on disk *)
Definition imports (d : defs) (a b : lname) : Prop := exists imps, lookup a d = Some imps /\ In b imps.

(** a loaded library has everything it reaches loaded *)
Lemma env_closed d st : K d st -> forall y x, clos_refl_trans_1n _ (imports d) y x ->
  (exists e, env_of st y = Some e) -> exists e, env_of st x = Some e.
Proof.
  intros HK y x R. induction R as [y|y i x [imps [Hl Hi]] R IH]; intro Hy; [exact Hy|].
  destruct Hy as [e He]. apply IH. exact (HK y e imps i He Hl Hi).
Qed.

Lemma rt1n_cases {A} (Rel : relation A) y x : clos_refl_trans_1n A Rel y x ->
  y = x \/ exists i, Rel y i /\ clos_refl_trans_1n A Rel i x.
Proof. destruct 1; [left; reflexivity | right; eexists; split; eassumption]. Qed.

(** if loading anything that reaches the in-progress x fails, so does importing a list containing such a library *)
Lemma import_all_hits_inprog d f :
  (forall st y x st' o, inprog st x -> J st -> NoDup (evals st) -> K d st -> M d st ->
     clos_refl_trans_1n _ (imports d) y x -> load_module f d st y = (st', o) -> o <> Done) ->
  forall imps i x, In i imps -> clos_refl_trans_1n _ (imports d) i x ->
  forall s s' o, inprog s x -> J s -> NoDup (evals s) -> K d s -> M d s ->
    import_all_with (load_module f d) imps s = (s', o) -> o <> Done.
Proof.
  intros IH imps i x Hi R. induction imps as [|j r IHr]; [destruct Hi|].
  intros s s' o Hx HJ Hn HK HM Ei. cbn [import_all_with] in Ei.
  destruct (load_module f d s j) as [s1 o1] eqn:Ej.
  destruct Hi as [<-|Hi].
  - pose proof (IH _ _ _ _ _ Hx HJ Hn HK HM R Ej) as Hne.
    destruct o1; try (injection Ei as <- <-; discriminate). congruence.
  - destruct (load_ok d f _ _ _ _ Ej HJ Hn) as (HJ' & Hn' & Hs').
    destruct (load_KM d f _ _ _ _ Ej HJ Hn HK HM) as (HK' & HM').
    destruct (so_inprog _ _ Hs' x Hx) as [Hx' _].
    destruct o1; try (injection Ei as <- <-; discriminate).
    exact (IHr Hi s1 s' o Hx' HJ' Hn' HK' HM' Ei).
Qed.

(** while x is in progress, loading anything that reaches x fails *)
Lemma load_reaching_inprog_fails d : forall f st y x st' o,
  inprog st x -> J st -> NoDup (evals st) -> K d st -> M d st ->
  clos_refl_trans_1n _ (imports d) y x ->
  load_module f d st y = (st', o) -> o <> Done.
Proof.
  induction f as [|f IHf]; intros st y x st' o Hx HJ Hn HK HM R H.
  - cbn [load_module] in H. injection H as <- <-. discriminate.
  - assert (Hxenv : env_of st x = None) by (unfold env_of; unfold inprog in Hx; rewrite Hx; reflexivity).
    cbn [load_module] in H.
    destruct (find_module d st y) as [st1 mo] eqn:Ef.
    destruct (find_ok _ _ _ _ _ Ef HJ Hn) as (HJ1 & Hn1 & Hs1).
    destruct (find_KM _ _ _ _ _ Ef HK HM) as (HK1 & HM1).
    destruct (find_step _ _ _ _ _ Ef) as (He1 & Hmo & _).
    destruct (so_inprog _ _ Hs1 x Hx) as [Hx1 _].
    assert (Hx1env : env_of st1 x = None) by (unfold env_of; unfold inprog in Hx1; rewrite Hx1; reflexivity).
    destruct mo as [m|]; [|injection H as <- <-; discriminate].
    destruct (m_env m) as [e|] eqn:Eenv.
    + (* y already loaded: then x would be loaded too *)
      exfalso. destruct (env_closed d st1 HK1 y x R) as [e' He'].
      * exists e. unfold env_of. rewrite <- Hmo. exact Eenv.
      * congruence.
    + destruct (m_meta m) as [imps|] eqn:Emeta; [|injection H as <- <-; discriminate].
      assert (Hd : lookup y d = Some imps) by (apply (HM1 y m imps); [symmetry; exact Hmo | exact Emeta]).
      assert (Hyx : y <> x).
      { intro; subst y. unfold inprog in Hx1. rewrite <- Hmo in Hx1. injection Hx1 as ->. cbn in Emeta. discriminate. }
      (* y reaches x through one of its imports *)
      destruct (rt1n_cases _ _ _ R) as [Heq|(i & [imps' [Hl Hi]] & R')]; [congruence|]. clear R. rename R' into R. rewrite Hd in Hl. injection Hl as <-.
      set (st2 := set_module st1 y {| m_env := None; m_meta := ErrorForm |}) in H.
      assert (Hy1 : env_of st1 y = None) by (unfold env_of; rewrite <- Hmo; exact Eenv).
      assert (Henv2 : forall z, env_of st2 z = env_of st1 z).
      { intro z. unfold env_of, st2, set_module. cbn [table]. destruct (Nat.eq_dec z y) as [->|Hne].
        - rewrite lookup_update_same. cbn [m_env]. unfold env_of in Hy1. symmetry. exact Hy1.
        - rewrite lookup_update_other by exact Hne. reflexivity. }
      assert (HJ2 : J st2).
      { intros k Hin. change (evals st2) with (evals st1) in Hin. destruct (HJ1 k Hin) as [e0 H0]. exists e0. rewrite Henv2. exact H0. }
      assert (HK2 : K d st2).
      { intros z e0 imps' j He Hl Hj. rewrite Henv2 in He. destruct (HK1 z e0 imps' j He Hl Hj) as [e' He']. exists e'. rewrite Henv2. exact He'. }
      assert (HM2 : M d st2).
      { intros z m' imps' Hl Hm. unfold st2, set_module in Hl. cbn [table] in Hl. destruct (Nat.eq_dec z y) as [->|Hne].
        - rewrite lookup_update_same in Hl. injection Hl as <-. cbn in Hm. discriminate.
        - rewrite lookup_update_other in Hl by exact Hne. exact (HM1 z m' imps' Hl Hm). }
      assert (Hx2 : inprog st2 x).
      { unfold inprog, st2, set_module. cbn [table]. rewrite lookup_update_other by (intro; subst; congruence). exact Hx1. }
      destruct (import_all_with (load_module f d) imps st2) as [st3 o3] eqn:Ei.
      assert (Ho3 : o3 <> Done) by exact (import_all_hits_inprog d f IHf imps i x Hi R st2 st3 o3 Hx2 HJ2 Hn1 HK2 HM2 Ei).
      destruct o3; try (injection H as <- <-; discriminate). congruence.
Qed.

Lemma t1n_cases {A} (Rel : relation A) y x : clos_trans_1n A Rel y x ->
  exists i, Rel y i /\ clos_refl_trans_1n A Rel i x.
Proof.
  induction 1 as [a b Hab | a b c Hab Hbc IH].
  - exists b. split; [exact Hab | apply Relation_Operators.rt1n_refl].
  - exists b. split; [exact Hab|]. destruct IH as (i & Hbi & Hic). exact (Relation_Operators.rt1n_trans A Rel b i c Hbi Hic).
Qed.

Lemma K_init d : K d init_state.
Proof. intros y e imps i He. unfold env_of in He. cbn in He. discriminate. Qed.
Lemma M_init d : M d init_state.
Proof. intros y m imps Hl. cbn in Hl. discriminate. Qed.

(** a library on a cycle of the import graph is never loaded: not at the first attempt, for any fuel
    (with little fuel the answer is OutOfFuel, never Done) *)
Theorem cyclic_import_detected_proof : forall d l f,
  clos_trans_1n _ (imports d) l l -> snd (load_module f d init_state l) <> Done.
Proof.
  intros d l f C. destruct f as [|f]; [cbn; discriminate|].
  assert (Hstep : exists imps i, lookup l d = Some imps /\ In i imps /\ clos_refl_trans_1n _ (imports d) i l).
  { destruct (t1n_cases _ _ _ C) as (i & [imps [Hl Hi]] & R). exists imps, i. auto. }
  destruct Hstep as (imps & i & Hl & Hi & R).
  cbn [load_module]. unfold find_module. cbn [table init_state lookup]. rewrite Hl. cbn [m_env m_meta].
  set (st2 := set_module _ l _).
  destruct (import_all_with (load_module f d) imps st2) as [st3 o3] eqn:Ei.
  assert (Ho3 : o3 <> Done).
  { assert (Hx2 : inprog st2 l) by (unfold inprog, st2, set_module; cbn [table]; apply lookup_update_same).
    assert (HJ2 : J st2) by (intros k []).
    assert (Hn2 : NoDup (evals st2)) by constructor.
    assert (HK2 : K d st2).
    { intros y e imps' j He. unfold env_of, st2, set_module in He. cbn [table update] in He. rewrite Nat.eqb_refl in He. cbn [lookup] in He.
      destruct (Nat.eqb y l); cbn in He; discriminate. }
    assert (HM2 : M d st2).
    { intros y m imps' Hlk Hm. unfold st2, set_module in Hlk. cbn [table update] in Hlk. rewrite Nat.eqb_refl in Hlk. cbn [lookup] in Hlk.
      destruct (Nat.eqb y l); [injection Hlk as <-; cbn in Hm; discriminate | discriminate]. }
    exact (import_all_hits_inprog d f (load_reaching_inprog_fails d f) imps i l Hi R st2 st3 o3 Hx2 HJ2 Hn2 HK2 HM2 Ei). }
  destruct o3; cbn [snd]; try discriminate. congruence.
Qed.
