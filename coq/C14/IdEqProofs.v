(** C14 — proofs about IdEq.identifier_eq (eval.c sexp_identifier_eq_op, strict build, repaired): an
    auxiliary keyword imported under another name (rename, prefix, renamed export) IS that keyword for
    every macro that matches it as a literal, because literal matching compares binding CELLS and
    Env.env_import shares the exporter's cell; the function is exactly R7RS 4.3.2's literal matching; and
    merely referring to an undefined variable never changes what matches (refuted for the pinned code). *)
From Coq Require Import String List Bool Arith.
From ChibiV Require Import C14.Spec C14.Env C14.EnvProofs C14.IdEq.
Import ListNotations.
Local Open Scope string_scope.

Lemma live_cell_some undef e a c : live_cell undef e a = Some c <-> bound_to undef e a c.
Proof.
  unfold live_cell, bound_to. destruct (env_cell e a) as [c'|].
  - destruct (undef c') eqn:Hu; split.
    + discriminate.
    + intros [[= ->] H]. congruence.
    + intros [= ->]. split; [reflexivity | exact Hu].
    + intros [[= ->] _]. reflexivity.
  - split; [discriminate | intros [H _]; discriminate].
Qed.

Lemma live_cell_none undef e a : live_cell undef e a = None <-> unbound_in undef e a.
Proof.
  unfold live_cell, unbound_in. destruct (env_cell e a) as [c'|].
  - destruct (undef c') eqn:Hu; split.
    + intros _ c [= <-]. exact Hu.
    + reflexivity.
    + discriminate.
    + intro H. specialize (H c' eq_refl). congruence.
  - split; [intros _ c H; discriminate | reflexivity].
Qed.

(** sexp_identifier_eq_op (repaired) is exactly R7RS 4.3.2's literal matching, for ALL environments,
    names and sets of undefined cells *)
Theorem identifier_eq_is_r7rs_literal_match_proof undef e1 a e2 b :
  identifier_eq undef e1 a e2 b = true <-> r7rs_literal_match undef e1 a e2 b.
Proof.
  unfold identifier_eq, r7rs_literal_match.
  destruct (live_cell undef e1 a) as [c1|] eqn:H1, (live_cell undef e2 b) as [c2|] eqn:H2.
  - apply live_cell_some in H1. apply live_cell_some in H2. split.
    + intro H. apply Nat.eqb_eq in H. subst c2. left. exists c1. split; assumption.
    + intros [[c [[Hc1 _] [Hc2 _]]] | [Hu _]].
      * destruct H1 as [H1 _], H2 as [H2 _]. rewrite Hc1 in H1. rewrite Hc2 in H2.
        injection H1 as <-. injection H2 as <-. apply Nat.eqb_refl.
      * destruct H1 as [H1 Hn]. specialize (Hu c1 H1). congruence.
  - apply live_cell_some in H1. apply live_cell_none in H2. split; [discriminate|].
    intros [[c [_ [Hc2 Hn]]] | [Hu _]].
    + specialize (H2 c Hc2). congruence.
    + destruct H1 as [H1 Hn]. specialize (Hu c1 H1). congruence.
  - apply live_cell_none in H1. apply live_cell_some in H2. split; [discriminate|].
    intros [[c [[Hc1 Hn] _]] | [_ [Hu _]]].
    + specialize (H1 c Hc1). congruence.
    + destruct H2 as [H2 Hn]. specialize (Hu c2 H2). congruence.
  - apply live_cell_none in H1. apply live_cell_none in H2. split.
    + intro H. apply String.eqb_eq in H. right. repeat split; assumption.
    + intros [[c [[Hc1 Hn] _]] | [_ [_ ->]]].
      * specialize (H1 c Hc1). congruence.
      * apply String.eqb_refl.
Qed.

(** two identifiers denoting the same (defined) binding cell through different visible names are identifier=? *)
Theorem same_cell_identifier_eq_proof undef e1 a e2 b c :
  env_cell e1 a = Some c -> env_cell e2 b = Some c -> undef c = false -> identifier_eq undef e1 a e2 b = true.
Proof.
  intros H1 H2 Hu. unfold identifier_eq, live_cell. rewrite H1, H2, Hu. apply Nat.eqb_refl.
Qed.

(** conversely: identifiers with DIFFERENT names are identifier=? only through one shared cell *)
Theorem different_names_need_one_cell_proof undef e1 a e2 b :
  a <> b -> identifier_eq undef e1 a e2 b = true ->
  exists c, env_cell e1 a = Some c /\ env_cell e2 b = Some c /\ undef c = false.
Proof.
  intros Hab H. apply identifier_eq_is_r7rs_literal_match_proof in H.
  destruct H as [[c [[H1 Hu] [H2 _]]] | [_ [_ Heq]]].
  - exists c. repeat split; assumption.
  - contradiction.
Qed.

(** against an identifier that has a binding (every keyword has: keywords are macros), identifier=? is
    EXACTLY "same binding cell", whatever the two names are *)
Theorem keyword_identifier_eq_exact_proof undef e1 a e2 b c2 :
  env_cell e2 b = Some c2 -> undef c2 = false ->
  identifier_eq undef e1 a e2 b = match live_cell undef e1 a with Some c1 => Nat.eqb c1 c2 | None => false end.
Proof.
  intros H2 Hu. unfold identifier_eq.
  assert (Hl : live_cell undef e2 b = Some c2) by (unfold live_cell; rewrite H2, Hu; reflexivity).
  rewrite Hl. destruct (live_cell undef e1 a); reflexivity.
Qed.

(** when no cell is undefined the function is the executable SPEC [same_binding] *)
Theorem identifier_eq_same_binding_proof e1 a e2 b :
  identifier_eq (fun _ => false) e1 a e2 b = same_binding e1 a e2 b.
Proof.
  unfold identifier_eq, same_binding, live_cell.
  destruct (env_cell e1 a), (env_cell e2 b); reflexivity.
Qed.

(** ** references to undefined variables *)
Lemma assoc_loc_none_frame f k : frame_cell f k = None -> assoc_loc k (f_renames f) = None /\ assoc_loc k (f_bindings f) = None.
Proof.
  unfold frame_cell. destruct (assoc_loc k (f_renames f)); [discriminate|]. intro H. split; [reflexivity|exact H].
Qed.

Lemma live_cell_reference undef e n fresh id :
  undef fresh = true -> live_cell undef (reference e n fresh) id = live_cell undef e id.
Proof.
  intro Hu. unfold reference. destruct (env_cell e n) eqn:Hn; [reflexivity|].
  destruct e as [|f r]; [reflexivity|].
  cbn [env_cell] in Hn. destruct (frame_cell f n) eqn:Hf; [discriminate|].
  apply assoc_loc_none_frame in Hf. destruct Hf as [Hr Hb].
  unfold live_cell. cbn [env_cell]. unfold frame_cell. cbn [f_renames f_bindings assoc_loc].
  destruct (String.eqb id n) eqn:He.
  - apply String.eqb_eq in He. subst id. rewrite Hr, Hb, Hn, Hu. reflexivity.
  - reflexivity.
Qed.

(** the repaired function does not depend on which undefined variables the two environments have
    merely REFERRED to so far (in either environment, any name, any number of times) *)
Theorem reference_does_not_change_identifier_eq_proof undef e1 a e2 b n fresh :
  undef fresh = true ->
  identifier_eq undef (reference e1 n fresh) a e2 b = identifier_eq undef e1 a e2 b /\
  identifier_eq undef e1 a (reference e2 n fresh) b = identifier_eq undef e1 a e2 b.
Proof.
  intro Hu. unfold identifier_eq. rewrite !(live_cell_reference undef _ n fresh _ Hu). split; reflexivity.
Qed.

(** the pinned function does: the literal foo of a macro whose library has no foo matches the program's
    unbound foo, until the program refers to the variable foo (F-C14-3) *)
Theorem pinned_identifier_eq_depends_on_references_refuted_proof :
  ~ (forall e1 a e2 b n fresh,
       identifier_eq_pinned (reference e1 n fresh) a e2 b = identifier_eq_pinned e1 a e2 b).
Proof.
  intro H. specialize (H [empty_frame] "foo" [empty_frame] "foo" "foo" 5). vm_compute in H. discriminate.
Qed.

(** composition with import_binds_exporters_cell: after sexp_env_import_op delivered (n . m), the
    importer's identifier n is identifier=? to the exporter's identifier m — e.g. n = otherwise,
    m = else: a renamed import of else IS else (and to nothing else that has a binding: second part) *)
Theorem renamed_import_is_the_keyword_proof undef to from ids immutp n m c :
  to <> [] -> In (n, m) ids -> (forall m', In (n, m') ids -> m' = m) -> env_cell from m = Some c -> undef c = false ->
  identifier_eq undef (env_import to from (Some ids) immutp) n from m = true /\
  (forall e2 b c2, env_cell e2 b = Some c2 -> undef c2 = false ->
     identifier_eq undef (env_import to from (Some ids) immutp) n e2 b = Nat.eqb c c2).
Proof.
  intros Hto Hin Hf Hc Hu.
  pose proof (import_binds_exporters_cell_proof to from ids immutp n m c Hto Hin Hf Hc) as Hi.
  split.
  - exact (same_cell_identifier_eq_proof undef _ n from m c Hi Hc Hu).
  - intros e2 b c2 H2 Hp. rewrite (keyword_identifier_eq_exact_proof undef _ n e2 b c2 H2 Hp).
    unfold live_cell. rewrite Hi, Hu. reflexivity.
Qed.

(** non-vacuity: else imported as otherwise next to an unrelated binding named else; cell 9 is undefined *)
Example renamed_else_example :
  let base := [{| f_renames := []; f_bindings := [("else", 1); ("=>", 2)]; f_immutable := false |}] in
  let prog := env_import [{| f_renames := []; f_bindings := [("else", 7); ("foo", 9)]; f_immutable := false |}] base (Some [("otherwise", "else"); ("then", "=>")]) true in
  let undef := fun c => Nat.eqb c 9 in
  identifier_eq undef prog "otherwise" base "else" = true /\
  identifier_eq undef prog "else" base "else" = false /\
  identifier_eq undef prog "then" base "else" = false /\
  identifier_eq undef prog "then" base "=>" = true /\
  identifier_eq undef prog "foo" base "foo" = true /\
  identifier_eq_pinned prog "foo" base "foo" = false.
Proof. vm_compute. repeat split. Qed.
