(** C14 — proofs about IdEq.identifier_eq (eval.c sexp_identifier_eq_op): an auxiliary keyword imported
    under another name (rename, prefix, renamed export) IS that keyword for every macro that matches it
    as a literal, because literal matching compares binding CELLS and Env.env_import shares the
    exporter's cell. *)
From Coq Require Import String List Bool Arith.
From ChibiV Require Import C14.Spec C14.Env C14.EnvProofs C14.IdEq.
Import ListNotations.
Local Open Scope string_scope.

(** two identifiers denoting the same binding cell through different visible names are identifier=? *)
Theorem same_cell_identifier_eq_proof plain e1 a e2 b c :
  env_cell e1 a = Some c -> env_cell e2 b = Some c -> identifier_eq plain e1 a e2 b = true.
Proof. intros H1 H2. unfold identifier_eq. rewrite H1, H2, Nat.eqb_refl. reflexivity. Qed.

(** conversely: identifiers with DIFFERENT names are identifier=? only through one shared cell *)
Theorem different_names_need_one_cell_proof plain e1 a e2 b :
  a <> b -> identifier_eq plain e1 a e2 b = true ->
  exists c, env_cell e1 a = Some c /\ env_cell e2 b = Some c.
Proof.
  intros Hab H. unfold identifier_eq in H.
  assert (Hn : String.eqb a b = false) by (apply String.eqb_neq; exact Hab).
  rewrite Hn in H. cbn [andb] in H.
  destruct (env_cell e1 a) as [c1|], (env_cell e2 b) as [c2|]; try discriminate.
  rewrite orb_false_r in H. apply Nat.eqb_eq in H. subst c2. exists c1. split; reflexivity.
Qed.

(** for syntax (keywords are macros: not [plain]) identifier=? is EXACTLY "same binding cell",
    whatever the two names are: the non-strict top-level rule never applies *)
Theorem keyword_identifier_eq_exact_proof plain e1 a e2 b c2 :
  env_cell e2 b = Some c2 -> plain c2 = false ->
  identifier_eq plain e1 a e2 b = match env_cell e1 a with Some c1 => Nat.eqb c1 c2 | None => false end.
Proof.
  intros H2 Hp. unfold identifier_eq. rewrite H2.
  destruct (env_cell e1 a) as [c1|].
  - rewrite Hp, andb_false_r, orb_false_r. reflexivity.
  - rewrite Hp, andb_false_r. reflexivity.
Qed.

(** the R7RS reading (same binding, or both unbound and the same name) implies chibi's *)
Theorem same_binding_identifier_eq_proof plain e1 a e2 b :
  same_binding e1 a e2 b = true -> identifier_eq plain e1 a e2 b = true.
Proof.
  unfold same_binding, identifier_eq.
  destruct (env_cell e1 a) as [c1|], (env_cell e2 b) as [c2|]; try discriminate; intro H.
  - rewrite H. reflexivity.
  - exact H.
Qed.

(** where chibi is laxer than R7RS: only two identifiers of the SAME name, neither denoting syntax *)
Theorem identifier_eq_beyond_same_binding_proof plain e1 a e2 b :
  identifier_eq plain e1 a e2 b = true -> same_binding e1 a e2 b = false ->
  a = b /\ (forall c, env_cell e1 a = Some c -> plain c = true) /\ (forall c, env_cell e2 b = Some c -> plain c = true).
Proof.
  unfold identifier_eq, same_binding.
  destruct (env_cell e1 a) as [c1|], (env_cell e2 b) as [c2|]; intros H Hs.
  - rewrite Hs in H. cbn [orb] in H. apply andb_true_iff in H. destruct H as [H Hp2].
    apply andb_true_iff in H. destruct H as [Hn Hp1]. apply String.eqb_eq in Hn.
    split; [exact Hn|]. split; intros c [= <-]; assumption.
  - apply andb_true_iff in H. destruct H as [Hn Hp]. apply String.eqb_eq in Hn.
    split; [exact Hn|]. split; [intros c [= <-]; exact Hp | intros c Hc; discriminate].
  - apply andb_true_iff in H. destruct H as [Hn Hp]. apply String.eqb_eq in Hn.
    split; [exact Hn|]. split; [intros c Hc; discriminate | intros c [= <-]; exact Hp].
  - congruence.
Qed.

(** composition with import_binds_exporters_cell: after sexp_env_import_op delivered (n . m), the
    importer's identifier n is identifier=? to the exporter's identifier m — e.g. n = otherwise,
    m = else: a renamed import of else IS else (and to nothing else that is syntax: second part) *)
Theorem renamed_import_is_the_keyword_proof plain to from ids immutp n m c :
  to <> [] -> In (n, m) ids -> (forall m', In (n, m') ids -> m' = m) -> env_cell from m = Some c ->
  identifier_eq plain (env_import to from (Some ids) immutp) n from m = true /\
  (forall e2 b c2, env_cell e2 b = Some c2 -> plain c2 = false ->
     identifier_eq plain (env_import to from (Some ids) immutp) n e2 b = Nat.eqb c c2).
Proof.
  intros Hto Hin Hf Hc.
  pose proof (import_binds_exporters_cell_proof to from ids immutp n m c Hto Hin Hf Hc) as Hi.
  split.
  - exact (same_cell_identifier_eq_proof plain _ n from m c Hi Hc).
  - intros e2 b c2 H2 Hp. rewrite (keyword_identifier_eq_exact_proof plain _ n e2 b c2 H2 Hp), Hi. reflexivity.
Qed.

(** non-vacuity: else imported as otherwise next to an unrelated binding named else *)
Example renamed_else_example :
  let base := [{| f_renames := []; f_bindings := [("else", 1); ("=>", 2)]; f_immutable := false |}] in
  let prog := env_import [{| f_renames := []; f_bindings := [("else", 7)]; f_immutable := false |}] base (Some [("otherwise", "else"); ("then", "=>")]) true in
  let plain := fun c => Nat.eqb c 7 in
  identifier_eq plain prog "otherwise" base "else" = true /\
  identifier_eq plain prog "else" base "else" = false /\
  identifier_eq plain prog "then" base "else" = false /\
  identifier_eq plain prog "then" base "=>" = true.
Proof. vm_compute. repeat split. Qed.
