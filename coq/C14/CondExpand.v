(** C14 — SPEC of cond-expand feature requirements (R7RS 4.2.1 / 5.6.1 library declarations):
    <feature identifier> | (library <name>) | (and f ...) | (or f ...) | (not f), and of the clause
    selection: the first clause whose requirement holds (else = always).  No proofs in this file. *)
From Coq Require Import String List Bool.
From ChibiV Require Import C14.Sx.
Import ListNotations.
Local Open Scope string_scope.

Inductive feature : Type :=
| FId (s : string)
| FLib (name : sx)
| FAnd (l : list feature)
| FOr (l : list feature)
| FNot (f : feature).

Section Holds.
  Variable feats : list string.        (* the implementation's feature identifiers *)
  Variable lib_exists : sx -> bool.    (* is the library available *)
  Fixpoint holds (f : feature) : bool :=
    match f with
    | FId s => existsb (String.eqb s) feats
    | FLib n => lib_exists n
    | FAnd l => forallb holds l
    | FOr l => existsb holds l
    | FNot g => negb (holds g)
    end.

  (** a clause: requirement (None = else) and body *)
  Fixpoint select (cs : list (option feature * sx)) : option sx :=
    match cs with
    | [] => None
    | (None, body) :: _ => Some body
    | (Some f, body) :: r => if holds f then Some body else select r
    end.
End Holds.

Fixpoint enc_feature (f : feature) : sx :=
  match f with
  | FId s => Sym s
  | FLib n => list_sx [Sym "library"; n]
  | FAnd l => Pair (Sym "and") (list_sx (map enc_feature l))
  | FOr l => Pair (Sym "or") (list_sx (map enc_feature l))
  | FNot g => list_sx [Sym "not"; enc_feature g]
  end.

Definition enc_clause (c : option feature * sx) : sx :=
  Pair (match fst c with Some f => enc_feature f | None => Sym "else" end) (snd c).
