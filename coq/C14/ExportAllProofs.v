(** C14 round 5 — proofs about the export set of an (export-all) library (model: ExportAll.v). *)
From Coq Require Import String List Bool.
Import ListNotations.
From ChibiV Require Import C14.Spec C14.SpecProofs C14.ExportAll.
Local Open Scope string_scope.

Lemma has_true_iff : forall n b, has n b = true <-> exists d, In (n, d) b.
Proof.
  intros n b. unfold has. rewrite existsb_exists. split.
  - intros [[k d] [Hin Heq]]. cbn [fst] in Heq. apply String.eqb_eq in Heq. subst k. now exists d.
  - intros [d Hin]. exists (n, d). split; [exact Hin|]. cbn [fst]. apply String.eqb_refl.
Qed.

Lemma ref1_true : forall imps b x n, In (n, true) (ref1 imps b x) <-> In (n, true) b.
Proof.
  intros imps b x n. unfold ref1. destruct (has x b || mem x imps); [tauto|].
  cbn [In]. split; [intros [Heq|H]; [discriminate Heq|exact H]|intro H; now right].
Qed.

Lemma ref1_has : forall imps b x n, has n b = true -> has n (ref1 imps b x) = true.
Proof.
  intros imps b x n H. unfold ref1. destruct (has x b || mem x imps); [exact H|].
  unfold has in *. cbn [existsb]. rewrite H. apply orb_true_r.
Qed.

Lemma refs_true : forall imps refs b n, In (n, true) (fold_left (ref1 imps) refs b) <-> In (n, true) b.
Proof.
  intros imps refs. induction refs as [|x r IH]; intros b n; cbn [fold_left]; [tauto|].
  rewrite IH. apply ref1_true.
Qed.

Lemma refs_has : forall imps refs b n, has n b = true -> has n (fold_left (ref1 imps) refs b) = true.
Proof.
  intros imps refs. induction refs as [|x r IH]; intros b n H; cbn [fold_left]; [exact H|].
  apply IH. now apply ref1_has.
Qed.

Lemma define_cell_true : forall b m n, In (n, true) (define_cell b m) <-> In (n, true) b.
Proof.
  intros b m n. unfold define_cell. destruct (has m b); [tauto|].
  cbn [In]. split; [intros [Heq|H]; [discriminate Heq|exact H]|intro H; now right].
Qed.

Lemma define_cell_has : forall b m, has m (define_cell b m) = true.
Proof.
  intros b m. unfold define_cell. destruct (has m b) eqn:E; [exact E|].
  unfold has. cbn [existsb fst]. now rewrite String.eqb_refl.
Qed.

Lemma set_defined_true : forall m b n, has m b = true ->
  (In (n, true) (set_defined m b) <-> In (n, true) b \/ n = m).
Proof.
  intros m b n. induction b as [|[k d] r IH]; intro H.
  - discriminate H.
  - cbn [set_defined fst]. destruct (String.eqb_spec k m) as [ ->|Hne].
    + cbn [In]. split.
      * intros [Heq|Hin]; [right; congruence|left; now right].
      * intros [[Heq|Hin]| ->]; [left; congruence|now right|now left].
    + assert (Hr : has m r = true).
      { unfold has in *. cbn [existsb fst] in H. apply orb_true_iff in H. destruct H as [H|H]; [|exact H].
        apply String.eqb_eq in H. contradiction. }
      cbn [In]. rewrite (IH Hr). tauto.
Qed.

Definition defines (f : form) (n : name) : Prop :=
  match f with FDefine m _ => n = m | FExpr _ => False end.

Lemma step_true : forall imps b f n, In (n, true) (step imps b f) <-> In (n, true) b \/ defines f n.
Proof.
  intros imps b [m refs|refs] n; cbn [step defines].
  - rewrite set_defined_true.
    + rewrite refs_true, define_cell_true. tauto.
    + apply refs_has, define_cell_has.
  - rewrite refs_true. tauto.
Qed.

Lemma body_true : forall imps forms b n,
  In (n, true) (fold_left (step imps) forms b) <-> In (n, true) b \/ In n (defined_names forms).
Proof.
  intros imps forms. induction forms as [|f r IH]; intros b n; cbn [fold_left defined_names].
  - cbn [In]. tauto.
  - rewrite IH, step_true. destruct f as [m refs|refs]; cbn [defines defined_names In]; intuition congruence.
Qed.

Lemma exports_fold : forall b acc n,
  In n (fold_left (fun res (c : cell) => if snd c then fst c :: res else res) b acc) <-> In n acc \/ In (n, true) b.
Proof.
  induction b as [|[k d] r IH]; intros acc n; cbn [fold_left In snd fst].
  - tauto.
  - rewrite IH. destruct d; cbn [In]; intuition congruence.
Qed.

Lemma env_exports_defined_cells : forall b n, In n (env_exports [] b) <-> In (n, true) b.
Proof. intros b n. unfold env_exports. cbn [fold_left]. rewrite exports_fold. cbn [In]. tauto. Qed.

(** 1. env-exports of an (export-all) library after its body ran = exactly the names the body DEFINES — whatever it imports, whatever it
    merely mentions, in whatever order (forward references included). *)
Theorem export_all_exports_exactly_the_definitions : forall imps forms n,
  In n (env_exports [] (eval_body imps forms)) <-> In n (defined_names forms).
Proof.
  intros imps forms n. rewrite env_exports_defined_cells. unfold eval_body. rewrite body_true. cbn [In]. tauto.
Qed.

(** 2. a name the body only mentions (dangling free reference: the placeholder cell of analyze_var_ref) is not exported *)
Theorem dangling_reference_not_exported : forall imps forms n,
  In n (referenced_names forms) -> ~ In n (defined_names forms) -> ~ In n (env_exports [] (eval_body imps forms)).
Proof. intros imps forms n _ Hnd H. apply Hnd. now apply export_all_exports_exactly_the_definitions in H. Qed.

(** 3. an imported name the body does not redefine is not re-exported by (export-all) through a modifier *)
Theorem imported_name_not_reexported : forall imps forms n,
  In n imps -> ~ In n (defined_names forms) -> ~ In n (env_exports [] (eval_body imps forms)).
Proof. intros imps forms n _ Hnd H. apply Hnd. now apply export_all_exports_exactly_the_definitions in H. Qed.

(** 4. composition with the SPEC of import sets: whatever nesting of only/except/rename/prefix/drop-prefix is put over a loaded
    (export-all) library, every visible name denotes a name the library's body DEFINES *)
Theorem export_all_import_reaches_only_definitions : forall W i n m imps forms,
  lookup_lib W (lib_of i) = Some (export_all_exports imps forms) -> denotes W i n m -> In m (defined_names forms).
Proof.
  intros W i n m imps forms HW Hd.
  destruct (private_stays_invisible W i n m Hd) as [ex [x [Hl Hin]]].
  rewrite HW in Hl. injection Hl as <-. unfold export_all_exports in Hin.
  apply in_map_iff in Hin. destruct Hin as [k [Heq Hk]]. injection Heq as _ ->.
  now apply export_all_exports_exactly_the_definitions in Hk.
Qed.

(** 5. the seeded mistake (no SEXP_UNDEF filter) does export a name that is only mentioned: what the filter is for *)
Theorem unfiltered_env_exports_lists_dangling_reference_refuted :
  ~ (forall imps forms n, In n (env_exports_unfiltered [] (eval_body imps forms)) -> In n (defined_names forms)).
Proof.
  intro H.
  specialize (H ["car"] [FDefine "b-one" []; FDefine "b-user" ["helper"; "b-one"]] "helper").
  assert (Hin : In "helper" (env_exports_unfiltered [] (eval_body ["car"] [FDefine "b-one" []; FDefine "b-user" ["helper"; "b-one"]]))).
  { vm_compute. right. right. now left. }
  apply H in Hin. cbn [defined_names In] in Hin.
  destruct Hin as [Hin|[Hin|Hin]]; [discriminate Hin|discriminate Hin|exact Hin].
Qed.

Example export_all_example :
  env_exports [] (eval_body ["car"; "later-imp"]
     [FDefine "b-one" []; FDefine "fwd" ["later"; "car"]; FDefine "b-two" ["later-imp"]; FDefine "b-user" ["helper"; "b-one"]; FDefine "later" []])
  = ["b-one"; "fwd"; "later"; "b-two"; "b-user"].
Proof. reflexivity. Qed.
