(** C14 — what an importing environment sees after sexp_env_import_op. *)
From Coq Require Import String List Bool.
From ChibiV Require Import C14.Spec C14.Env C14.SpecProofs.
Import ListNotations.
Local Open Scope string_scope.

Lemma import_ids_char from ids : forall ren n,
  assoc_loc n (import_ids from ids ren) =
  match last_hit from ids n with Some c => Some c | None => assoc_loc n ren end.
Proof.
  induction ids as [|[a b] r IH]; intros ren n; cbn [import_ids last_hit]; [reflexivity|].
  destruct (env_cell from b) as [c|] eqn:Eb; rewrite IH.
  - destruct (last_hit from r n) as [c'|]; [reflexivity|]. cbn [assoc_loc].
    destruct (String.eqb n a); reflexivity.
  - destruct (last_hit from r n) as [c'|]; [reflexivity|]. destruct (String.eqb n a); reflexivity.
Qed.

(** the importer's view, in general (collisions included: the last listed binding wins) *)
Theorem env_cell_import_char f rest from ids immutp n :
  env_cell (env_import (f :: rest) from (Some ids) immutp) n =
  match last_hit from ids n with Some c => Some c | None => env_cell (f :: rest) n end.
Proof.
  cbn [env_import env_cell]. unfold frame_cell at 1. cbn [empty_frame f_renames f_bindings assoc_loc].
  unfold frame_cell at 1. cbn [f_renames f_bindings]. rewrite import_ids_char. cbn [assoc_loc].
  destruct (last_hit from ids n); reflexivity.
Qed.

Lemma last_hit_all_same from r n m c' :
  (forall m', In (n, m') r -> m' = m) -> last_hit from r n = Some c' -> env_cell from m = Some c'.
Proof.
  induction r as [|[a b] r IH]; intros Hf; cbn [last_hit]; [discriminate|].
  destruct (last_hit from r n) as [c2|] eqn:E.
  - intro H. injection H as <-. apply IH; [|reflexivity]. intros m' Hm'. apply Hf. right. exact Hm'.
  - destruct (String.eqb n a) eqn:Ea; [|discriminate]. apply String.eqb_eq in Ea. subst a.
    rewrite (Hf b) by (left; reflexivity). intro H. exact H.
Qed.

Lemma last_hit_functional from ids n m c :
  In (n, m) ids -> (forall m', In (n, m') ids -> m' = m) -> env_cell from m = Some c -> last_hit from ids n = Some c.
Proof.
  induction ids as [|[a b] r IH]; intros Hin Hf Hc; [destruct Hin|]. cbn [last_hit].
  assert (Hf' : forall m', In (n, m') r -> m' = m) by (intros m' Hm'; apply Hf; right; exact Hm').
  destruct (last_hit from r n) as [c'|] eqn:E.
  - rewrite (last_hit_all_same from r n m c' Hf' E) in Hc. exact Hc.
  - destruct Hin as [Hin|Hin].
    + injection Hin as -> ->. rewrite String.eqb_refl. exact Hc.
    + discriminate (IH Hin Hf' Hc).
Qed.

Lemma last_hit_none from ids n : (forall m, In (n, m) ids -> env_cell from m = None) -> last_hit from ids n = None.
Proof.
  induction ids as [|[a b] r IH]; intro H; cbn [last_hit]; [reflexivity|].
  rewrite IH by (intros m Hm; apply H; right; exact Hm).
  destruct (String.eqb n a) eqn:E; [|reflexivity]. apply String.eqb_eq in E. subst a. apply H. left. reflexivity.
Qed.

(** the importer resolves the visible name to the very cell of the exporting library's environment:
    shared, not copied *)
Theorem import_binds_exporters_cell_proof to from ids immutp n m c :
  to <> [] -> In (n, m) ids -> (forall m', In (n, m') ids -> m' = m) -> env_cell from m = Some c ->
  env_cell (env_import to from (Some ids) immutp) n = Some c.
Proof.
  intros Hto Hin Hf Hc. destruct to as [|f rest]; [congruence|].
  rewrite env_cell_import_char, (last_hit_functional from ids n m c Hin Hf Hc). reflexivity.
Qed.

(** nothing else becomes visible, nothing that was visible is lost *)
Theorem import_adds_nothing_else_proof to from ids immutp n :
  (forall m, In (n, m) ids -> env_cell from m = None) ->
  env_cell (env_import to from (Some ids) immutp) n = env_cell to n.
Proof.
  intro H. destruct to as [|f rest]; [reflexivity|].
  rewrite env_cell_import_char, (last_hit_none from ids n H). reflexivity.
Qed.

(** bulk import (ls = #f): exactly the first frame of the exporting environment *)
Theorem import_all_first_frame ff frest f rest immutp n :
  env_cell (env_import (f :: rest) (ff :: frest) None immutp) n =
  match frame_cell ff n with Some c => Some c | None => env_cell (f :: rest) n end.
Proof. reflexivity. Qed.

Lemma last_binding_In n s m : last_binding n s = Some m -> In (n, m) s.
Proof.
  induction s as [|[a b] r IH]; cbn [last_binding]; [discriminate|].
  destruct (last_binding n r) as [m'|].
  - intros [= <-]. right. apply IH. reflexivity.
  - destruct (String.eqb n a) eqn:E; [|discriminate]. apply String.eqb_eq in E. subst a.
    intros [= <-]. left. reflexivity.
Qed.

(** with every listed internal name bound in the exporter, the cell delivered for n is the exporter's
    cell of SPEC's [last_binding] *)
Lemma last_hit_last_binding from ids n :
  (forall a b, In (a, b) ids -> env_cell from b <> None) ->
  last_hit from ids n = match last_binding n ids with Some m => env_cell from m | None => None end.
Proof.
  induction ids as [|[a b] r IH]; intro H; cbn [last_hit last_binding]; [reflexivity|].
  assert (H' : forall a' b', In (a', b') r -> env_cell from b' <> None) by (intros a' b' Hin; apply (H a' b'); right; exact Hin).
  rewrite (IH H').
  destruct (last_binding n r) as [m|] eqn:E.
  - destruct (env_cell from m) eqn:Em; [reflexivity|]. exfalso.
    apply (H' n m (last_binding_In _ _ _ E)). exact Em.
  - destruct (String.eqb n a); reflexivity.
Qed.

(** the whole chain for one import set: with [l] = the id list of import set i (SPEC's [denote], which
    the translated %resolve-import computes), an exporting environment that binds every exported
    internal name, and an import set that does not bind a name twice, the importing environment
    resolves n to the exporter's own cell of m exactly when [denotes W i n m], and keeps what it had
    for every other name. *)
Theorem import_exposes_exactly_proof W i l to from immutp :
  denote W i = Some l -> unambiguous W i -> to <> [] ->
  (forall n m, denotes W i n m -> env_cell from m <> None) ->
  forall n,
    (forall m, denotes W i n m -> env_cell (env_import to from (Some l) immutp) n = env_cell from m) /\
    ((forall m, ~ denotes W i n m) -> env_cell (env_import to from (Some l) immutp) n = env_cell to n).
Proof.
  intros Hd Hu Hto Hb n. split.
  - intros m D. destruct (env_cell from m) as [c|] eqn:Ec; [|exfalso; exact (Hb n m D Ec)].
    apply import_binds_exporters_cell_proof with (m := m); auto.
    + apply (denote_exact W i l Hd Hu). exact D.
    + intros m' Hm'. apply (Hu n m' m); [|exact D]. apply (denote_sound W i l n m' Hd Hm').
  - intro Hn. apply import_adds_nothing_else_proof. intros m Hin. exfalso. apply (Hn m).
    apply (denote_sound W i l n m Hd Hin).
Qed.

Example import_example :
  let lib := [ {| f_renames := []; f_bindings := [("b", 7); ("a", 5)]; f_immutable := false |} ] in
  let to := [ {| f_renames := [("a", 1)]; f_bindings := [("y", 2)]; f_immutable := false |} ] in
  let e := env_import to lib (Some [("c", "b"); ("a", "zz"); ("a", "a")]) true in
  env_cell e "c" = Some 7 /\ env_cell e "a" = Some 5 /\ env_cell e "y" = Some 2 /\ env_cell e "b" = None.
Proof. repeat split. Qed.

(** collision: R7RS "it is an error"; chibi lets the last listed binding win *)
Example import_shadowing_last_wins :
  let lib := [ {| f_renames := []; f_bindings := [("b", 7); ("a", 5)]; f_immutable := false |} ] in
  env_cell (env_import [empty_frame] lib (Some [("n", "a"); ("n", "b")]) true) "n" = Some 7.
Proof. reflexivity. Qed.
