(** C14 — the library-graph level oracle [program_origin] only ever answers with a real definition:
    [Origin l m] means library l exists in the graph and defines m in its own body. *)
From Coq Require Import String List Bool Arith.
From ChibiV Require Import C14.Spec.
Import ListNotations.
Local Open Scope string_scope.

Section G.
  Variable g : list libdef.
  Definition is_definition (l : libname) (m : name) : Prop :=
    exists d, find_lib g l = Some d /\ mem m (ld_defs d) = true.

  Lemma via_import_origin lo i n l m :
    (forall l0 m0, lo l0 m0 = Origin l m -> is_definition l m) ->
    via_import g lo i n = Origin l m -> is_definition l m.
  Proof.
    intros Hlo. unfold via_import. destruct (denote (world_of g) i) as [s|]; [|discriminate].
    destruct (bindings_of n s) as [|m0 r]; [discriminate|].
    destruct (all_same (m0 :: r)); [|discriminate]. apply Hlo.
  Qed.

  Lemma via_imports_origin lo is n l m :
    (forall l0 m0, lo l0 m0 = Origin l m -> is_definition l m) ->
    via_imports g lo is n = Origin l m -> is_definition l m.
  Proof.
    intros Hlo. induction is as [|i r IH]; cbn [via_imports]; [discriminate|].
    destruct (via_import g lo i n) as [l1 m1| | |] eqn:E1; destruct (via_imports g lo r n) as [l2 m2| | |] eqn:E2; try discriminate.
    - destruct (libname_eqb l1 l2 && String.eqb m1 m2); [|discriminate].
      intros [= <- <-]. exact (via_import_origin lo i n l1 m1 Hlo E1).
    - intros [= <- <-]. exact (via_import_origin lo i n l1 m1 Hlo E1).
    - intros [= <- <-]. apply IH. reflexivity.
  Qed.

  Lemma lib_origin_is_definition : forall fuel l0 m0 l m, lib_origin g fuel l0 m0 = Origin l m -> is_definition l m.
  Proof.
    induction fuel as [|f IH]; intros l0 m0 l m; cbn [lib_origin]; [discriminate|].
    destruct (find_lib g l0) as [d|] eqn:Ed; [|discriminate].
    pose proof (via_imports_origin (lib_origin g f) (ld_imports d) m0 l m (fun a b => IH a b l m)) as Himp.
    destruct (mem m0 (ld_defs d)) eqn:Em.
    - destruct (via_imports g (lib_origin g f) (ld_imports d) m0) as [l1 m1| | |]; try discriminate.
      intros [= <- <-]. exists d. split; assumption.
    - exact Himp.
  Qed.

  Theorem origin_is_a_definition_proof is n l m : program_origin g is n = Origin l m -> is_definition l m.
  Proof.
    unfold program_origin. apply via_imports_origin. intros l0 m0. apply lib_origin_is_definition.
  Qed.
End G.

Example origin_example :
  let g := [ {| ld_name := ["v"; "l0"]; ld_imports := []; ld_defs := ["a"; "b"; "h"]; ld_exports := [("a", "a"); ("c", "b")] |};
             {| ld_name := ["v"; "l1"]; ld_imports := [IOnly (ILib ["v"; "l0"]) ["c"]]; ld_defs := ["x"]; ld_exports := [("x", "x"); ("z", "c")] |} ] in
  program_origin g [IPrefix (ILib ["v"; "l1"]) "p:"] "p:z" = Origin ["v"; "l0"] "b" /\
  program_origin g [IPrefix (ILib ["v"; "l1"]) "p:"] "h" = Unbound /\
  program_origin g [ILib ["v"; "l1"]; ILib ["v"; "l0"]] "c" = Origin ["v"; "l0"] "b".
Proof. repeat split. Qed.
