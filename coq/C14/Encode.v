(** C14 — how the objects of the SPEC (import sets, worlds) are written as the S-expressions the
    translated Scheme code works on, and how its results are read back.  Definitions only. *)
From ChibiV Require Import C14.Sx C14.Spec.
Local Open Scope string_scope.

Definition enc_lib (l : libname) : sx := list_sx (map Sym l).

Definition enc_pair (q : name * name) : sx := Pair (Sym (fst q)) (Pair (Sym (snd q)) Nil).

Fixpoint enc (i : iset) : sx :=
  match i with
  | ILib l => enc_lib l
  | IOnly i ids => Pair (Sym "only") (Pair (enc i) (list_sx (map Sym ids)))
  | IExcept i ids => Pair (Sym "except") (Pair (enc i) (list_sx (map Sym ids)))
  | IRename i prs => Pair (Sym "rename") (Pair (enc i) (list_sx (map enc_pair prs)))
  | IPrefix i p => Pair (Sym "prefix") (Pair (enc i) (Pair (Sym p) Nil))
  | IDropPrefix i p => Pair (Sym "drop-prefix") (Pair (enc i) (Pair (Sym p) Nil))
  end.

(** an export list entry as [define-library]'s rewrite-export leaves it (meta-7.scm:322-329):
    the symbol itself, or (external . internal) for (rename internal external) *)
Definition enc_id (q : name * name) : sx :=
  if String.eqb (fst q) (snd q) then Sym (fst q) else Pair (Sym (fst q)) (Sym (snd q)).
Definition enc_exports (ex : exports) : sx := list_sx (map enc_id ex).

(** the modules alist: name |-> module object (exports . env-exports), see C14/World.v *)
Definition enc_world (W : world) : sx :=
  list_sx (map (fun le => Pair (enc_lib (fst le)) (Pair (enc_exports (snd le)) Nil)) W).

(** reading back a resolved id list: a symbol x is (x . x) (to-id / from-id, meta-7.scm:87-88) *)
Definition abs_id (v : sx) : option (name * name) :=
  match v with
  | Sym s => Some (s, s)
  | Pair (Sym a) (Sym b) => Some (a, b)
  | _ => None
  end.
Fixpoint abs_ids (v : sx) : option exports :=
  match v with
  | Nil => Some []
  | Pair a d => match abs_id a, abs_ids d with
                | Some q, Some l => Some (q :: l)
                | _, _ => None
                end
  | _ => None
  end.

(** syntactic well-formedness: library names are non-empty and do not start with a modifier
    keyword (R7RS 5.2 notes the ambiguity for such names) *)
Definition modifiers : list string := ["only"; "except"; "rename"; "prefix"; "drop-prefix"].
Fixpoint wf_iset (i : iset) : Prop :=
  match i with
  | ILib l => l <> [] /\ ~ In (hd "" l) modifiers
  | IOnly i _ | IExcept i _ | IRename i _ | IPrefix i _ | IDropPrefix i _ => wf_iset i
  end.

(** fuel needed by the translated code: nesting depth + the longest id list it walks *)
Fixpoint isize (i : iset) : nat :=
  match i with
  | ILib _ => 1
  | IOnly i ids | IExcept i ids => S (isize i + length ids)
  | IRename i prs => S (isize i + length prs)
  | IPrefix i _ | IDropPrefix i _ => S (isize i)
  end.
Definition max_exports (W : world) : nat := fold_right Nat.max 0 (map (fun le => length (snd le)) W).

(** an <export spec> of a define-library form: a name, or (rename internal external) *)
Inductive export_spec : Type := EName (n : name) | ERename (internal external : name).
Definition enc_espec (e : export_spec) : sx :=
  match e with
  | EName n => Sym n
  | ERename a b => list_sx [Sym "rename"; Sym a; Sym b]
  end.
(** the (external, internal) entry of the export map *)
Definition espec_pair (e : export_spec) : name * name :=
  match e with EName n => (n, n) | ERename a b => (b, a) end.
