(** C14 — the module table: a body is evaluated at most once over any history, importers share one
    environment, cyclic imports are detected.  BOUNDED statements: all import graphs over 3 library
    names (each library absent, or importing any list of distinct libraries among the 3, itself
    included, in any order: 17^3 = 4913 worlds) x all histories of 3 top-level imports, by vm_compute.
    The unbounded counterparts are proved elsewhere: load_once, env_stable (LoadInv.v), cyclic_import_detected
    (LoadCycle.v), missing_import_detected (LoadMissing.v), loadable_loads (LoadLive.v).  What only this bounded
    sweep shows: the exact "iff" with [loadable] in one statement, stickiness of a failure, no OutOfFuel with fuel 6. *)
From Coq Require Import List Bool Arith Lia.
From ChibiV Require Import C14.Load.
Import ListNotations.

Definition perms3 : list (list lname) :=
  [[]; [0]; [1]; [2]; [0;1]; [1;0]; [0;2]; [2;0]; [1;2]; [2;1];
   [0;1;2]; [0;2;1]; [1;0;2]; [1;2;0]; [2;0;1]; [2;1;0]].
Definition choices : list (option (list lname)) := None :: map Some perms3.

Definition defs_of (g : option (list lname) * option (list lname) * option (list lname)) : defs :=
  let '(c0, c1, c2) := g in
  (match c0 with Some i => [(0, i)] | None => [] end) ++
  (match c1 with Some i => [(1, i)] | None => [] end) ++
  (match c2 with Some i => [(2, i)] | None => [] end).

Definition graphs3 := list_prod (list_prod choices choices) choices.
Definition names3 : list lname := [0; 1; 2].
Definition histories3 : list (list lname) :=
  flat_map (fun a => flat_map (fun b => map (fun c => [a; b; c]) names3) names3) names3.

Definition is_done (o : outcome) : bool := match o with Done => true | _ => false end.
Definition is_oof (o : outcome) : bool := match o with OutOfFuel => true | _ => false end.

Fixpoint nodupb (l : list lname) : bool :=
  match l with [] => true | x :: r => negb (existsb (Nat.eqb x) r) && nodupb r end.

Definition opt_eqb (a b : option nat) : bool :=
  match a, b with Some x, Some y => Nat.eqb x y | None, None => true | _, _ => false end.

(** once a library has an environment it keeps that very environment *)
Definition env_kept (s s' : state) : bool :=
  forallb (fun l => match env_of s l with Some e => opt_eqb (env_of s' l) (Some e) | None => true end) [0; 1; 2; 3].
Fixpoint envs_stable (s : state) (tr : list (outcome * state)) : bool :=
  match tr with [] => true | (_, s') :: r => env_kept s s' && envs_stable s' r end.

(** has an environment iff its body ran *)
Definition env_iff_evaluated (s : state) : bool :=
  forallb (fun l => Bool.eqb (match env_of s l with Some _ => true | None => false end) (Nat.eqb (body_evals s l) 1)) [0; 1; 2; 3].

Definition fuel3 := 6.

Definition check_single (d : defs) (l : lname) : bool :=
  let (st, o) := load_module fuel3 d init_state l in
  Bool.eqb (is_done o) (loadable fuel3 d [] l) && negb (is_oof o) && nodupb (evals st) && env_iff_evaluated st &&
  (is_done o || (Nat.eqb (body_evals st l) 0 && opt_eqb (env_of st l) None)) &&
  (* a failed load poisons: loading again fails again, still without evaluating the body *)
  (is_done o || (let (st', o') := load_module fuel3 d st l in
                 negb (is_done o') && Nat.eqb (body_evals st' l) 0 && opt_eqb (env_of st' l) None)).

Definition check_history (d : defs) (h : list lname) : bool :=
  let (st, tr) := run_history fuel3 d init_state h in
  nodupb (evals st) && envs_stable init_state tr && env_iff_evaluated st &&
  forallb (fun os => negb (is_oof (fst os))) tr.

Definition check_graph g : bool :=
  let d := defs_of g in
  forallb (check_single d) [0; 1; 2; 3] && forallb (check_history d) histories3.

Lemma sweep3 : forallb check_graph graphs3 = true.
Proof. vm_compute. reflexivity. Qed.

Lemma nodupb_NoDup l : nodupb l = true -> NoDup l.
Proof.
  induction l as [|x r IH]; cbn [nodupb]; intro H; [constructor|].
  apply andb_true_iff in H. destruct H as [H1 H2]. constructor; [|apply IH; exact H2].
  intro Hin. apply negb_true_iff in H1.
  assert (existsb (Nat.eqb x) r = true) by (apply existsb_exists; exists x; split; [exact Hin | apply Nat.eqb_refl]).
  congruence.
Qed.

(** each library body is evaluated at most once, over any history of 3 imports in any 3-library world *)
Theorem load_once_bounded_proof : forall g h l, In g graphs3 -> In h histories3 ->
  body_evals (fst (run_history fuel3 (defs_of g) init_state h)) l <= 1.
Proof.
  intros g h l Hg Hh. pose proof sweep3 as S. rewrite forallb_forall in S. specialize (S g Hg).
  unfold check_graph in S. apply andb_true_iff in S. destruct S as [_ S].
  rewrite forallb_forall in S. specialize (S h Hh). unfold check_history in S.
  destruct (run_history fuel3 (defs_of g) init_state h) as [st tr]. cbn [fst].
  apply andb_true_iff in S. destruct S as [S _]. apply andb_true_iff in S. destruct S as [S _].
  apply andb_true_iff in S. destruct S as [S _].
  apply nodupb_NoDup in S. unfold body_evals. apply (proj1 (NoDup_count_occ Nat.eq_dec (evals st)) S).
Qed.

(** all importers share one instance: an environment, once made, is the one every later import sees;
    and a library has an environment exactly when its body has run (once) *)
Theorem env_stable_bounded_proof : forall g h, In g graphs3 -> In h histories3 ->
  let (st, tr) := run_history fuel3 (defs_of g) init_state h in
  envs_stable init_state tr = true /\ env_iff_evaluated st = true.
Proof.
  intros g h Hg Hh. pose proof sweep3 as S. rewrite forallb_forall in S. specialize (S g Hg).
  unfold check_graph in S. apply andb_true_iff in S. destruct S as [_ S].
  rewrite forallb_forall in S. specialize (S h Hh). unfold check_history in S.
  destruct (run_history fuel3 (defs_of g) init_state h) as [st tr].
  apply andb_true_iff in S. destruct S as [S _]. apply andb_true_iff in S. destruct S as [S S3].
  apply andb_true_iff in S. destruct S as [_ S2]. split; assumption.
Qed.

(** a library loads iff nothing reachable from it is missing or cyclic; a cyclic or dangling import is an
    error (never a loop: no OutOfFuel; never a half-loaded library: no body evaluated, no environment;
    and the failure is sticky) *)
Theorem cyclic_import_detected_bounded_proof : forall g l, In g graphs3 -> In l [0; 1; 2; 3] ->
  check_single (defs_of g) l = true.
Proof.
  intros g l Hg Hl. pose proof sweep3 as S. rewrite forallb_forall in S. specialize (S g Hg).
  unfold check_graph in S. apply andb_true_iff in S. destruct S as [S _].
  rewrite forallb_forall in S. exact (S l Hl).
Qed.

(** non-vacuity: a diamond loads each body once in dependency order; a 2-cycle is rejected *)
Example diamond : let d := [(0, []); (1, [0]); (2, [0]); (3, [1; 2])] in
  let (st, o) := load_module 6 d init_state 3 in o = Done /\ evals st = [3; 2; 1; 0] /\ env_of st 0 = Some 0.
Proof. vm_compute. repeat split. Qed.
Example two_cycle : let d := [(0, [1]); (1, [0])] in
  let (st, o) := load_module 6 d init_state 0 in o = SelfReference 0 /\ evals st = [] /\ env_of st 0 = None /\ env_of st 1 = None
  /\ snd (load_module 6 d st 1) = SelfReference 1.
Proof. vm_compute. repeat split. Qed.
Example graphs3_size : length graphs3 = 4913 /\ length histories3 = 27.
Proof. vm_compute. split; reflexivity. Qed.
