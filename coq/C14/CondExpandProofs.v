(** C14 — the feature logic of cond-expand as translated from lib/init-7.scm (Gen/C14_CondExpand.v:
    ce_check, ce_expand) against the SPEC CondExpand.holds / select.  BOUNDED: every requirement of
    nesting depth <= 2 whose and/or have at most 2 operands, over the atoms {a feature, a non-feature,
    an existing library, a missing library}; every clause list of <= 2 clauses (+ optional else) over
    depth-1 requirements; by vm_compute.  (The unbounded statement needs a nested induction over
    [feature]; not done.) *)
From Coq Require Import String List Bool Arith.
From ChibiV Require Import C14.Sx C14.World C14.CondExpand Gen.C14_CondExpand.
Import ListNotations.
Local Open Scope string_scope.

Definition feats0 := ["r7rs"; "chibi"].
Definition lib1 := list_sx [Sym "v14"; Sym "g"; Sym "l1"].
Definition lib9 := list_sx [Sym "v14"; Sym "g"; Sym "l9"].
(** module table with one library (module object = (exports . env-exports)) *)
Definition W0 : sx := list_sx [Pair lib1 (Pair (list_sx [Sym "a"]) Nil)].
Definition FE0 : sx := list_sx (map Sym feats0).
Definition lib_exists0 (n : sx) : bool := match w_find_module W0 n with Ok v => truthy v | Err _ => false end.

Definition atoms : list feature := [FId "chibi"; FId "nope"; FLib lib1; FLib lib9].
Definition lists2 (xs : list feature) : list (list feature) :=
  ([] :: map (fun x => [x]) xs ++ flat_map (fun x => map (fun y => [x; y]) xs) xs)%list.
Definition next (xs : list feature) : list feature :=
  (xs ++ map FNot xs ++ map FAnd (lists2 xs) ++ map FOr (lists2 xs))%list.
Definition depth1 := next atoms.
Definition depth2 := next depth1.

Definition check_agrees (f : feature) : bool :=
  match ce_check FE0 64 W0 (enc_feature f) with
  | Ok v => Bool.eqb (truthy v) (holds feats0 lib_exists0 f)
  | Err _ => false
  end.

Lemma sweep_check : forallb check_agrees depth2 = true.
Proof. vm_compute. reflexivity. Qed.

(** [check_agrees f]: the translated check answers a value whose truth is [holds f] *)
Theorem cond_expand_feature_logic_bounded_proof : forall f, In f depth2 -> check_agrees f = true.
Proof. intros f Hf. pose proof sweep_check as S. rewrite forallb_forall in S. exact (S f Hf). Qed.

(** clause selection: bodies are the symbols b0, b1, ... *)
Definition bodies (k : nat) : sx := list_sx [Sym (String (Ascii.ascii_of_nat (48 + k)) "")].
Definition reqs1 : list feature := (atoms ++ map FNot atoms ++ [FAnd []; FOr []; FAnd [FId "chibi"; FLib lib9]; FOr [FId "nope"; FLib lib1]])%list.
Definition clause_lists : list (list (option feature * sx)) :=
  let one := map (fun f => [(Some f, bodies 0)]) reqs1 in
  let two := flat_map (fun f => map (fun g => [(Some f, bodies 0); (Some g, bodies 1)]) reqs1) reqs1 in
  let base := ([] :: one ++ two)%list in
  (base ++ map (fun cs => (cs ++ [(None, bodies 7)])%list) base)%list.

Definition sx_beq_res (r : res sx) (expected : option sx) : bool :=
  match r, expected with
  | Ok v, Some body => sx_eqb v (Pair (Sym "begin") body)
  | Ok v, None => sx_eqb v (Bool true)           (* no clause selected: (cond ((null? ls)) ...) answers #t *)
  | Err _, _ => false
  end.

Definition expand_agrees (cs : list (option feature * sx)) : bool :=
  sx_beq_res (ce_expand FE0 64 W0 (list_sx (map enc_clause cs))) (select feats0 lib_exists0 cs).

Lemma sweep_expand : forallb expand_agrees clause_lists = true.
Proof. vm_compute. reflexivity. Qed.

Theorem cond_expand_selects_first_true_clause_bounded_proof : forall cs, In cs clause_lists ->
  expand_agrees cs = true.
Proof. intros cs H. pose proof sweep_expand as S. rewrite forallb_forall in S. exact (S cs H). Qed.

Example cond_expand_sizes : length depth2 = 5202 /\ length clause_lists = 314.
Proof. vm_compute. split; reflexivity. Qed.
