(** C14 round 5 — composition of the export-all model with the environment model (Env.env_import): importing a loaded (export-all)
    library through ANY nesting of modifiers changes the meaning of a visible name only if that name denotes a name the body DEFINES. *)
From Coq Require Import String List Bool.
Import ListNotations.
From ChibiV Require Import C14.Spec C14.SpecProofs C14.Env C14.EnvProofs C14.ExportAll C14.ExportAllProofs.

Theorem export_all_import_shadows_only_definitions_proof : forall W i l to from immutp imps forms n,
  lookup_lib W (lib_of i) = Some (export_all_exports imps forms) ->
  denote W i = Some l -> unambiguous W i -> to <> nil ->
  (forall m, In m (defined_names forms) -> env_cell from m <> None) ->
  (forall m, In m (defined_names forms) -> ~ denotes W i n m) ->
  env_cell (env_import to from (Some l) immutp) n = env_cell to n.
Proof.
  intros W i l to from immutp imps forms n HW Hd Hu Hto Hfrom Hn.
  assert (Hb : forall n0 m, denotes W i n0 m -> env_cell from m <> None).
  { intros n0 m H. apply Hfrom. exact (export_all_import_reaches_only_definitions W i n0 m imps forms HW H). }
  destruct (import_exposes_exactly_proof W i l to from immutp Hd Hu Hto Hb n) as [_ H2].
  apply H2. intros m H. apply (Hn m); [|exact H].
  exact (export_all_import_reaches_only_definitions W i n m imps forms HW H).
Qed.

(** the seeded demo: (except (c14c b) b-two) after (only (c14c a) helper): helper keeps (c14c a)'s cell *)
Example dangling_helper_keeps_its_binding :
  let forms := [FDefine "b-one" []; FDefine "b-two" []; FDefine "b-user" ["helper"; "b-one"]]%string in
  let W := [(["c14c"; "b"]%string, export_all_exports ["car"%string] forms)] in
  forall n m, denotes W (IExcept (ILib ["c14c"; "b"]%string) ["b-two"%string]) n m -> n <> "helper"%string.
Proof.
  intros forms W n m H Heq. subst n.
  inversion H as [| | ? ? ? ? Hd Hni | | |]; subst.
  inversion Hd as [? ? ? ? Hl Hi | | | | |]; subst.
  vm_compute in Hl. injection Hl as <-. cbn [In] in Hi.
  destruct Hi as [Hi|[Hi|[Hi|Hi]]]; try discriminate Hi; contradiction.
Qed.
