(** C14 — unbounded facts about the module table state machine (any world, any fuel, any history):
    no library body is evaluated twice, and an environment once made is never replaced. *)
From Coq Require Import List Bool Arith Lia.
From ChibiV Require Import C14.Load.
Import ListNotations.

(** a module whose loading is in progress (or was aborted): no environment, error form as meta data *)
Definition inprog (st : state) (l : lname) : Prop :=
  lookup l (table st) = Some {| m_env := None; m_meta := ErrorForm |}.

(** every evaluated body belongs to a module that has its environment *)
Definition J (st : state) : Prop := forall l, In l (evals st) -> exists e, env_of st l = Some e.

Record step_ok (st st' : state) : Prop := {
  so_inprog : forall l, inprog st l -> inprog st' l /\ (In l (evals st') -> In l (evals st));
  so_env : forall l e, env_of st l = Some e -> env_of st' l = Some e;
  so_log : forall l, In l (evals st) -> In l (evals st')
}.

Lemma step_ok_refl st : step_ok st st.
Proof. constructor; auto. Qed.

Lemma step_ok_trans a b c : step_ok a b -> step_ok b c -> step_ok a c.
Proof.
  intros [i1 e1 l1] [i2 e2 l2]. constructor.
  - intros l H. destruct (i1 l H) as [H1 H2]. destruct (i2 l H1) as [H3 H4]. split; auto.
  - intros l e H. auto.
  - intros l H. auto.
Qed.

Lemma lookup_update_same l m t : lookup l (update l m t) = Some m.
Proof.
  induction t as [|[k v] r IH]; cbn [update lookup].
  - rewrite Nat.eqb_refl. reflexivity.
  - destruct (Nat.eqb l k) eqn:E; cbn [lookup]; rewrite E; [reflexivity | exact IH].
Qed.

Lemma lookup_update_other l k m t : k <> l -> lookup k (update l m t) = lookup k t.
Proof.
  intro Hne. induction t as [|[k' v] r IH]; cbn [update lookup].
  - destruct (Nat.eqb k l) eqn:E; [apply Nat.eqb_eq in E; congruence | reflexivity].
  - destruct (Nat.eqb l k') eqn:E; cbn [lookup].
    + apply Nat.eqb_eq in E. subst k'. destruct (Nat.eqb k l) eqn:E2; [apply Nat.eqb_eq in E2; congruence | reflexivity].
    + destruct (Nat.eqb k k'); [reflexivity | exact IH].
Qed.

Lemma find_step d st x st1 mo : find_module d st x = (st1, mo) ->
  evals st1 = evals st /\ mo = lookup x (table st1) /\
  (forall l, lookup l (table st) <> None -> lookup l (table st1) = lookup l (table st)).
Proof.
  unfold find_module. destruct (lookup x (table st)) as [m|] eqn:E.
  - intros [= <- <-]. repeat split; auto.
  - destruct (lookup x d) as [imps|].
    + intros [= <- <-]. cbn [evals table lookup]. rewrite Nat.eqb_refl. repeat split; auto.
      intros l Hl. destruct (Nat.eqb l x) eqn:E2; [|reflexivity]. apply Nat.eqb_eq in E2. subst l. congruence.
    + intros [= <- <-]. repeat split; auto.
Qed.

Lemma find_ok d st x st1 mo : find_module d st x = (st1, mo) -> J st -> NoDup (evals st) ->
  J st1 /\ NoDup (evals st1) /\ step_ok st st1.
Proof.
  intros Hf HJ Hn. destruct (find_step _ _ _ _ _ Hf) as (He & _ & Hl).
  assert (Henv : forall l e, env_of st l = Some e -> env_of st1 l = Some e).
  { intros l e H. unfold env_of in *. rewrite Hl; [exact H|]. destruct (lookup l (table st)); [discriminate|discriminate]. }
  split; [|split].
  - intros l Hin. rewrite He in Hin. destruct (HJ l Hin) as [e H]. exists e. apply Henv. exact H.
  - rewrite He. exact Hn.
  - constructor.
    + intros l H. unfold inprog in *. rewrite Hl by (rewrite H; discriminate). rewrite He. split; auto.
    + exact Henv.
    + intros l H. rewrite He. exact H.
Qed.

Section Fuel.
  Variable d : defs.
  Variable f : nat.
  Hypothesis IHf : forall st x st' o, load_module f d st x = (st', o) -> J st -> NoDup (evals st) ->
    J st' /\ NoDup (evals st') /\ step_ok st st'.

  Lemma import_all_ok : forall imps s s' o, import_all_with (load_module f d) imps s = (s', o) ->
    J s -> NoDup (evals s) -> J s' /\ NoDup (evals s') /\ step_ok s s'.
  Proof.
    induction imps as [|i r IH]; cbn [import_all_with]; intros s s' o H HJ Hn.
    - injection H as <- <-. split; [exact HJ|]. split; [exact Hn | apply step_ok_refl].
    - destruct (load_module f d s i) as [s1 o1] eqn:E.
      destruct (IHf _ _ _ _ E HJ Hn) as (HJ1 & Hn1 & Hs1).
      destruct o1; try (injection H as <- <-; split; [exact HJ1|]; split; [exact Hn1 | exact Hs1]).
      destruct (IH _ _ _ H HJ1 Hn1) as (HJ2 & Hn2 & Hs2).
      split; [exact HJ2|]. split; [exact Hn2 | exact (step_ok_trans _ _ _ Hs1 Hs2)].
  Qed.
End Fuel.

Theorem load_ok d : forall f st x st' o, load_module f d st x = (st', o) -> J st -> NoDup (evals st) ->
  J st' /\ NoDup (evals st') /\ step_ok st st'.
Proof.
  induction f as [|f IHf]; intros st x st' o H HJ Hn.
  - cbn [load_module] in H. injection H as <- <-. split; [exact HJ|]. split; [exact Hn | apply step_ok_refl].
  - cbn [load_module] in H.
    destruct (find_module d st x) as [st1 mo] eqn:Ef.
    destruct (find_ok _ _ _ _ _ Ef HJ Hn) as (HJ1 & Hn1 & Hs1).
    destruct (find_step _ _ _ _ _ Ef) as (He1 & Hmo & _).
    destruct mo as [m|]; [|injection H as <- <-; auto].
    destruct (m_env m) as [e|] eqn:Eenv; [injection H as <- <-; auto|].
    destruct (m_meta m) as [imps|] eqn:Emeta; [|injection H as <- <-; auto].
    (* the real work: x has no environment and ordinary declarations *)
    set (st2 := set_module st1 x {| m_env := None; m_meta := ErrorForm |}) in H.
    assert (Hx1 : env_of st1 x = None) by (unfold env_of; rewrite <- Hmo; exact Eenv).
    assert (Hl2 : forall l, l <> x -> lookup l (table st2) = lookup l (table st1))
      by (intros l Hne; unfold st2, set_module; cbn [table]; apply lookup_update_other; exact Hne).
    assert (Hx2 : inprog st2 x) by (unfold inprog, st2, set_module; cbn [table]; apply lookup_update_same).
    assert (He2 : evals st2 = evals st1) by reflexivity.
    assert (HJ2 : J st2).
    { intros l Hin. rewrite He2 in Hin. destruct (HJ1 l Hin) as [e0 H0]. exists e0.
      assert (l <> x) by (intro; subst l; congruence). unfold env_of in *. rewrite Hl2; assumption. }
    assert (Hs12 : step_ok st1 st2).
    { constructor.
      - intros l Hl. assert (l <> x).
        { intro; subst l. unfold inprog in Hl. rewrite <- Hmo in Hl. injection Hl as ->. cbn in Emeta. discriminate. }
        unfold inprog in *. rewrite Hl2 by assumption. split; [exact Hl | rewrite He2; auto].
      - intros l e0 H0. assert (l <> x) by (intro; subst l; congruence). unfold env_of in *. rewrite Hl2; assumption.
      - intros l H0. rewrite He2. exact H0. }
    destruct (import_all_with (load_module f d) imps st2) as [st3 o3] eqn:Ei.
    destruct (import_all_ok d f IHf _ _ _ _ Ei HJ2 ltac:(rewrite He2; exact Hn1)) as (HJ3 & Hn3 & Hs23).
    pose proof (step_ok_trans _ _ _ Hs1 (step_ok_trans _ _ _ Hs12 Hs23)) as Hs03.
    destruct o3; try (injection H as <- <-; auto).
    (* all imports loaded: the body of x is evaluated now, for the first time *)
    destruct (so_inprog _ _ Hs23 x Hx2) as [Hx3 Hx3e].
    assert (Hnin : ~ In x (evals st3)).
    { intro Hin. apply Hx3e in Hin. rewrite He2 in Hin. destruct (HJ1 x Hin) as [e0 H0]. congruence. }
    assert (Hx3env : env_of st3 x = None) by (unfold env_of; unfold inprog in Hx3; rewrite Hx3; reflexivity).
    split; [|split].
    + intros l Hin. cbn [evals] in Hin. unfold env_of. cbn [table].
      destruct (Nat.eq_dec l x) as [->|Hne].
      * rewrite lookup_update_same. cbn [m_env]. eexists. reflexivity.
      * rewrite lookup_update_other by exact Hne. destruct Hin as [Hin|Hin]; [congruence|]. exact (HJ3 l Hin).
    + cbn [evals]. constructor; assumption.
    + constructor.
      * intros l Hl. destruct (so_inprog _ _ Hs03 l Hl) as [Hl3 Hl3e].
        assert (l <> x).
        { intro; subst l. destruct (so_inprog _ _ Hs1 x Hl) as [Hl1 _]. unfold inprog in Hl1. rewrite <- Hmo in Hl1.
          injection Hl1 as ->. cbn in Emeta. discriminate. }
        unfold inprog in *. cbn [table evals]. rewrite lookup_update_other by assumption. split; [exact Hl3|].
        intros [Hin|Hin]; [congruence | auto].
      * intros l e0 H0. pose proof (so_env _ _ Hs03 l e0 H0) as H3.
        assert (l <> x) by (intro; subst l; congruence).
        unfold env_of in *. cbn [table]. rewrite lookup_update_other; assumption.
      * intros l H0. cbn [evals]. right. exact (so_log _ _ Hs03 l H0).
Qed.

Lemma J_init : J init_state.
Proof. intros l []. Qed.

Lemma history_ok d fuel : forall reqs st, J st -> NoDup (evals st) ->
  let st' := fst (run_history fuel d st reqs) in J st' /\ NoDup (evals st') /\ step_ok st st'.
Proof.
  induction reqs as [|l r IH]; intros st HJ Hn; cbn [run_history].
  - cbn [fst]. split; [exact HJ|]. split; [exact Hn | apply step_ok_refl].
  - destruct (load_module fuel d st l) as [st1 o] eqn:E.
    destruct (load_ok d fuel st l st1 o E HJ Hn) as (HJ1 & Hn1 & Hs1).
    specialize (IH st1 HJ1 Hn1). destruct (run_history fuel d st1 r) as [st2 tr]. cbn [fst] in *.
    destruct IH as (HJ2 & Hn2 & Hs2). split; [exact HJ2|]. split; [exact Hn2 | exact (step_ok_trans _ _ _ Hs1 Hs2)].
Qed.

(** each library body is evaluated at most once: any world (cyclic or with missing libraries), any
    history of imports, any fuel *)
Theorem load_once_proof : forall d fuel reqs l,
  body_evals (fst (run_history fuel d init_state reqs)) l <= 1.
Proof.
  intros d fuel reqs l. destruct (history_ok d fuel reqs init_state J_init (NoDup_nil _)) as (_ & Hn & _).
  unfold body_evals. apply (proj1 (NoDup_count_occ Nat.eq_dec _) Hn).
Qed.

(** all importers share one instance: once a library has an environment, every later load (of it or of
    anything else, successful or not) leaves that very environment in place, and a library whose body
    has been evaluated has one *)
Theorem env_stable_proof : forall d fuel st x st' o l e,
  J st -> NoDup (evals st) -> load_module fuel d st x = (st', o) ->
  env_of st l = Some e -> env_of st' l = Some e.
Proof.
  intros d fuel st x st' o l e HJ Hn H He. destruct (load_ok d fuel st x st' o H HJ Hn) as (_ & _ & Hs).
  exact (so_env _ _ Hs l e He).
Qed.

Theorem evaluated_has_env_proof : forall d fuel reqs l,
  let st := fst (run_history fuel d init_state reqs) in
  In l (evals st) -> exists e, env_of st l = Some e.
Proof.
  intros d fuel reqs l. destruct (history_ok d fuel reqs init_state J_init (NoDup_nil _)) as (HJ & _ & _). exact (HJ l).
Qed.

(** a library found in progress (imported again while its own loading has not finished, or after its
    loading was aborted) is an error, whatever the fuel, and nothing changes *)
Theorem self_reference_detected_proof : forall d f st l,
  inprog st l -> load_module (S f) d st l = (st, SelfReference l).
Proof.
  intros d f st l H. unfold inprog in H. cbn [load_module]. unfold find_module. rewrite H. reflexivity.
Qed.

(** success means loaded: the library has its environment afterwards *)
Theorem load_done_has_env_proof : forall d f st l st',
  load_module f d st l = (st', Done) -> exists e, env_of st' l = Some e.
Proof.
  intros d f st l st' H. destruct f as [|f]; cbn [load_module] in H; [discriminate|].
  destruct (find_module d st l) as [st1 mo] eqn:Ef.
  destruct (find_step _ _ _ _ _ Ef) as (_ & Hmo & _).
  destruct mo as [m|]; [|discriminate].
  destruct (m_env m) as [e|] eqn:Eenv.
  - injection H as <-. exists e. unfold env_of. rewrite <- Hmo. exact Eenv.
  - destruct (m_meta m) as [imps|]; [|discriminate].
    destruct (import_all_with (load_module f d) imps _) as [st3 o3].
    destruct o3; try discriminate. injection H as <-.
    eexists. unfold env_of. cbn [table]. rewrite lookup_update_same. reflexivity.
Qed.

(** failure never leaves a half-loaded library: no environment (so every later import of it fails too,
    or loads it properly from scratch), whatever went wrong (missing library, cycle, fuel) *)
Theorem failed_load_no_env_proof : forall d f st l st' o,
  J st -> NoDup (evals st) -> load_module f d st l = (st', o) -> o <> Done ->
  env_of st l = None -> env_of st' l = None /\ body_evals st' l = body_evals st l.
Proof.
  intros d f st l st' o HJ Hn H Ho He.
  assert (Hcount : forall s, ~ In l (evals s) -> body_evals s l = 0)
    by (intros s Hs; unfold body_evals; apply count_occ_not_In; exact Hs).
  assert (Hnin : ~ In l (evals st)) by (intro Hin; destruct (HJ l Hin) as [e H0]; congruence).
  destruct f as [|f]; cbn [load_module] in H.
  - injection H as <- <-. split; [exact He | reflexivity].
  - destruct (find_module d st l) as [st1 mo] eqn:Ef.
    destruct (find_ok _ _ _ _ _ Ef HJ Hn) as (HJ1 & Hn1 & Hs1).
    destruct (find_step _ _ _ _ _ Ef) as (He1 & Hmo & _).
    assert (Hnin1 : ~ In l (evals st1)) by (rewrite He1; exact Hnin).
    destruct mo as [m|].
    + destruct (m_env m) as [e|] eqn:Eenv; [injection H as <- <-; congruence|].
      assert (Hx1 : env_of st1 l = None) by (unfold env_of; rewrite <- Hmo; exact Eenv).
      destruct (m_meta m) as [imps|] eqn:Emeta.
      * set (st2 := set_module st1 l {| m_env := None; m_meta := ErrorForm |}) in H.
        assert (Hx2 : inprog st2 l) by (unfold inprog, st2, set_module; cbn [table]; apply lookup_update_same).
        assert (HJ2 : J st2).
        { intros k Hin. change (evals st2) with (evals st1) in Hin. destruct (HJ1 k Hin) as [e0 H0]. exists e0.
          assert (k <> l) by (intro; subst k; congruence). unfold env_of in *. unfold st2, set_module. cbn [table].
          rewrite lookup_update_other; assumption. }
        destruct (import_all_with (load_module f d) imps st2) as [st3 o3] eqn:Ei.
        destruct (import_all_ok d f (load_ok d f) _ _ _ _ Ei HJ2 Hn1) as (_ & _ & Hs23).
        destruct (so_inprog _ _ Hs23 l Hx2) as [Hx3 Hx3e].
        destruct o3; try (injection H as <- <-; split;
          [unfold env_of; unfold inprog in Hx3; rewrite Hx3; reflexivity
          | rewrite (Hcount st3) by (intro Hin; apply Hnin1; exact (Hx3e Hin)); rewrite (Hcount st Hnin); reflexivity]).
        injection H as <- <-. congruence.
      * injection H as <- <-. split; [exact Hx1|]. rewrite (Hcount st1 Hnin1), (Hcount st Hnin). reflexivity.
    + injection H as <- <-. split.
      * unfold env_of. rewrite <- Hmo. reflexivity.
      * rewrite (Hcount st1 Hnin1), (Hcount st Hnin). reflexivity.
Qed.
