(** C14 — SPEC: R7RS section 5.2 import sets as a relation "visible name n denotes the exporting
    library's internal name m", plus an executable form [denote] (used as the oracle of the
    correspondence check) and the library-graph level [origin] (which library's own definition a
    name finally denotes, through re-exporting libraries).  No proofs in this file. *)
From Coq Require Import String List Bool Arith.
Import ListNotations.
Local Open Scope string_scope.

Definition name := string.
Definition libname := list string.

(** R7RS 5.2 <import set>, plus chibi's [drop-prefix] *)
Inductive iset : Type :=
| ILib (l : libname)
| IOnly (i : iset) (ids : list name)
| IExcept (i : iset) (ids : list name)
| IRename (i : iset) (prs : list (name * name))      (* (rename <import set> (id1 id2) ...): id1 becomes id2 *)
| IPrefix (i : iset) (p : name)
| IDropPrefix (i : iset) (p : name).

(** a world, as far as import sets are concerned: library |-> export map, a list of
    (external name, internal name) — [(export a (rename b c))] is [("a","a"); ("c","b")] *)
Definition exports := list (name * name).
Definition world := list (libname * exports).

Fixpoint libname_eqb (a b : libname) : bool :=
  match a, b with
  | [], [] => true
  | x :: a', y :: b' => String.eqb x y && libname_eqb a' b'
  | _, _ => false
  end.

Fixpoint lookup_lib (W : world) (l : libname) : option exports :=
  match W with
  | [] => None
  | (k, ex) :: W' => if libname_eqb l k then Some ex else lookup_lib W' l
  end.

Fixpoint lib_of (i : iset) : libname :=
  match i with
  | ILib l => l
  | IOnly i _ | IExcept i _ | IRename i _ | IPrefix i _ | IDropPrefix i _ => lib_of i
  end.

Fixpoint mem (n : name) (l : list name) : bool :=
  match l with [] => false | x :: r => String.eqb n x || mem n r end.

(** (rename ... (id1 id2) ...): the first pair whose id1 is n decides; other names are unchanged *)
Fixpoint rename_of (prs : list (name * name)) (n : name) : name :=
  match prs with
  | [] => n
  | (a, b) :: r => if String.eqb n a then b else rename_of r n
  end.

(** chibi's (drop-prefix <import set> p): a name that PROPERLY starts with p loses it; any other
    name (including p itself) is kept.  Characterised in SpecProofs: [drop_prefix p (p ++ m) = m]
    for m <> "", and [drop_prefix p n = n] when n is not of that form. *)
Definition drop_prefix (p n : name) : name :=
  if Nat.ltb (String.length p) (String.length n) && String.eqb p (substring 0 (String.length p) n)
  then substring (String.length p) (String.length n - String.length p) n
  else n.

(** ** the relation: in import set i, the visible name n denotes internal name m of library [lib_of i] *)
Inductive denotes (W : world) : iset -> name -> name -> Prop :=
| D_lib l ex n m : lookup_lib W l = Some ex -> In (n, m) ex -> denotes W (ILib l) n m
| D_only i ids n m : denotes W i n m -> In n ids -> denotes W (IOnly i ids) n m
| D_except i ids n m : denotes W i n m -> ~ In n ids -> denotes W (IExcept i ids) n m
| D_rename i prs n m : denotes W i n m -> denotes W (IRename i prs) (rename_of prs n) m
| D_prefix i p n m : denotes W i n m -> denotes W (IPrefix i p) (p ++ n) m
| D_drop i p n m : denotes W i n m -> denotes W (IDropPrefix i p) (drop_prefix p n) m.

(** R7RS: "it is an error if any of the listed identifiers are not found in the original set"
    (only, except, rename); and the library must exist. *)
Fixpoint spec_ok (W : world) (i : iset) : Prop :=
  match i with
  | ILib l => lookup_lib W l <> None
  | IOnly i ids => spec_ok W i /\ forall n, In n ids -> exists m, denotes W i n m
  | IExcept i ids => spec_ok W i /\ forall n, In n ids -> exists m, denotes W i n m
  | IRename i prs => spec_ok W i /\ forall n, In n (map fst prs) -> exists m, denotes W i n m
  | IPrefix i _ | IDropPrefix i _ => spec_ok W i
  end.

(** what chibi diagnoses ("it is an error" does not oblige an implementation to signal one):
    unknown library, and an [only] naming an identifier that is not in the original set *)
Fixpoint chibi_ok (W : world) (i : iset) : Prop :=
  match i with
  | ILib l => lookup_lib W l <> None
  | IOnly i ids => chibi_ok W i /\ forall n, In n ids -> exists m, denotes W i n m
  | IExcept i _ | IRename i _ | IPrefix i _ | IDropPrefix i _ => chibi_ok W i
  end.

(** two different bindings for one visible name: "it is an error" in R7RS, nothing is claimed there *)
Definition unambiguous (W : world) (i : iset) : Prop :=
  forall n m1 m2, denotes W i n m1 -> denotes W i n m2 -> m1 = m2.

(** ** executable form: the import set as an association list (visible, internal), in the order
    in which chibi produces it; [None] = chibi signals an error *)
Fixpoint assoc_first (n : name) (s : exports) : option (name * name) :=
  match s with
  | [] => None
  | (a, b) :: r => if String.eqb n a then Some (a, b) else assoc_first n r
  end.

Fixpoint only_list (s : exports) (ids : list name) : option exports :=
  match ids with
  | [] => Some []
  | n :: r => match assoc_first n s with
              | None => None
              | Some p => match only_list s r with None => None | Some l => Some (p :: l) end
              end
  end.

Fixpoint denote (W : world) (i : iset) : option exports :=
  match i with
  | ILib l => lookup_lib W l
  | IOnly i ids => match denote W i with None => None | Some s => only_list s ids end
  | IExcept i ids => option_map (filter (fun q => negb (mem (fst q) ids))) (denote W i)
  | IRename i prs => option_map (map (fun q => (rename_of prs (fst q), snd q))) (denote W i)
  | IPrefix i p => option_map (map (fun q => (p ++ fst q, snd q))) (denote W i)
  | IDropPrefix i p => option_map (map (fun q => (drop_prefix p (fst q), snd q))) (denote W i)
  end.

(** what an environment that imports the list [s] in order sees for n: later entries shadow earlier
    ones (eval.c sexp_env_import_op pushes each rename on the front) *)
Fixpoint last_binding (n : name) (s : exports) : option name :=
  match s with
  | [] => None
  | (a, b) :: r => match last_binding n r with
                   | Some m => Some m
                   | None => if String.eqb n a then Some b else None
                   end
  end.

(** all distinct internal names bound to n: more than one = ambiguous (unspecified by R7RS) *)
Fixpoint bindings_of (n : name) (s : exports) : list name :=
  match s with
  | [] => []
  | (a, b) :: r => if String.eqb n a then b :: bindings_of n r else bindings_of n r
  end.
Fixpoint all_same (l : list name) : bool :=
  match l with
  | a :: ((b :: _) as r) => String.eqb a b && all_same r
  | _ => true
  end.

(** ** library graphs (for the correspondence check): each library has import sets over EARLIER
    libraries, its own definitions, and an export list. *)
Record libdef := {
  ld_name : libname;
  ld_imports : list iset;
  ld_defs : list name;          (* names defined in the body (variables and macros) *)
  ld_exports : exports          (* (external, internal) *)
}.

Definition world_of (g : list libdef) : world := map (fun d => (ld_name d, ld_exports d)) g.

Inductive origin_res : Type :=
| Origin (l : libname) (m : name)     (* the definition [m] in the body of library [l] *)
| Unbound
| Ambiguous                           (* imported twice with different bindings / defined and imported *)
| ImportError.                        (* an import set of the library is rejected *)

Definition origin_eqb (a b : origin_res) : bool :=
  match a, b with
  | Origin l m, Origin l' m' => libname_eqb l l' && String.eqb m m'
  | Unbound, Unbound | Ambiguous, Ambiguous | ImportError, ImportError => true
  | _, _ => false
  end.

Fixpoint find_lib (g : list libdef) (l : libname) : option libdef :=
  match g with
  | [] => None
  | d :: g' => if libname_eqb l (ld_name d) then Some d else find_lib g' l
  end.

Section Origin.
  Variable g : list libdef.
  Let W := world_of g.

  (** what a visible name of import set i finally denotes, given the resolver for internal names
      of (earlier) libraries *)
  Definition via_import (lib_origin : libname -> name -> origin_res) (i : iset) (n : name) : origin_res :=
    match denote W i with
    | None => ImportError
    | Some s => match bindings_of n s with
                | [] => Unbound
                | m :: r => if all_same (m :: r) then lib_origin (lib_of i) m else Ambiguous
                end
    end.

  (** combine the import sets of one library / program, in order *)
  Fixpoint via_imports (lib_origin : libname -> name -> origin_res) (is : list iset) (n : name) : origin_res :=
    match is with
    | [] => Unbound
    | i :: r =>
        match via_import lib_origin i n, via_imports lib_origin r n with
        | ImportError, _ | _, ImportError => ImportError
        | Ambiguous, _ | _, Ambiguous => Ambiguous
        | Unbound, o | o, Unbound => o
        | Origin l m, Origin l' m' => if libname_eqb l l' && String.eqb m m' then Origin l m else Ambiguous
        end
    end.

  (** internal name m inside library l: its own definition, else what its imports give
      (fuel = number of libraries: imports point to earlier libraries) *)
  Fixpoint lib_origin (fuel : nat) (l : libname) (m : name) : origin_res :=
    match fuel with
    | O => Unbound
    | S fuel' =>
        match find_lib g l with
        | None => Unbound
        | Some d =>
            let imp := via_imports (lib_origin fuel') (ld_imports d) m in
            if mem m (ld_defs d)
            then match imp with Unbound => Origin l m | ImportError => ImportError | _ => Ambiguous end
            else imp
        end
    end.

  (** a program importing [is]: what the visible name n denotes *)
  Definition program_origin (is : list iset) (n : name) : origin_res :=
    via_imports (lib_origin (S (length g))) is n.
End Origin.
