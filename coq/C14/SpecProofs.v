(** C14 — the executable import-set algebra [denote] against the relation [denotes]. *)
From Coq Require Import String List Bool Arith Lia.
From ChibiV Require Import C14.Spec.
Import ListNotations.
Local Open Scope string_scope.
Unset Lia Cache.

Lemma mem_In n l : mem n l = true <-> In n l.
Proof.
  induction l as [|x r IH]; cbn [mem In].
  - split; [discriminate | tauto].
  - rewrite orb_true_iff, IH, String.eqb_eq. split; intros [H|H]; auto.
Qed.

Lemma mem_not_In n l : mem n l = false <-> ~ In n l.
Proof. rewrite <- mem_In. destruct (mem n l); split; intro H; try discriminate; try reflexivity; exfalso; apply H; reflexivity. Qed.

Lemma assoc_first_some n s p : assoc_first n s = Some p -> In p s /\ fst p = n.
Proof.
  induction s as [|[a b] r IH]; cbn [assoc_first]; [discriminate|].
  destruct (String.eqb n a) eqn:E.
  - intros [= <-]. apply String.eqb_eq in E. split; [left; reflexivity | symmetry; exact E].
  - intro H. destruct (IH H) as [H1 H2]. split; [right; exact H1 | exact H2].
Qed.

Lemma assoc_first_none n s : assoc_first n s = None -> forall m, ~ In (n, m) s.
Proof.
  induction s as [|[a b] r IH]; cbn [assoc_first]; intros H m Hin; [exact Hin|].
  destruct (String.eqb n a) eqn:E; [discriminate|].
  destruct Hin as [Hin|Hin].
  - injection Hin as -> ->. rewrite String.eqb_refl in E. discriminate.
  - exact (IH H m Hin).
Qed.

Lemma only_list_sound s ids l : only_list s ids = Some l -> forall q, In q l -> In q s /\ In (fst q) ids.
Proof.
  revert l. induction ids as [|n r IH]; cbn [only_list]; intros l H q Hq.
  - injection H as <-. destruct Hq.
  - destruct (assoc_first n s) as [p|] eqn:E; [|discriminate].
    destruct (only_list s r) as [l'|] eqn:E'; [|discriminate].
    injection H as <-. destruct (assoc_first_some _ _ _ E) as [Hp1 Hp2].
    destruct Hq as [<-|Hq].
    + split; [exact Hp1 | left; symmetry; exact Hp2].
    + destruct (IH l' eq_refl q Hq) as [H1 H2]. split; [exact H1 | right; exact H2].
Qed.

Lemma only_list_complete s ids l : only_list s ids = Some l -> forall n, In n ids -> exists m, In (n, m) l.
Proof.
  revert l. induction ids as [|k r IH]; cbn [only_list]; intros l H n Hn; [destruct Hn|].
  destruct (assoc_first k s) as [p|] eqn:E; [|discriminate].
  destruct (only_list s r) as [l'|] eqn:E'; [|discriminate].
  injection H as <-. destruct (assoc_first_some _ _ _ E) as [Hp1 Hp2].
  destruct Hn as [<-|Hn].
  - exists (snd p). left. destruct p; cbn in *. subst. reflexivity.
  - destruct (IH l' eq_refl n Hn) as [m Hm]. exists m. right. exact Hm.
Qed.

Lemma only_list_none s ids : only_list s ids = None -> exists n, In n ids /\ forall m, ~ In (n, m) s.
Proof.
  induction ids as [|k r IH]; cbn [only_list]; [discriminate|].
  destruct (assoc_first k s) as [p|] eqn:E.
  - destruct (only_list s r) as [l'|] eqn:E'; [discriminate|].
    intros _. destruct (IH eq_refl) as [n [Hn Hm]]. exists n. split; [right; exact Hn | exact Hm].
  - intros _. exists k. split; [left; reflexivity | exact (assoc_first_none _ _ E)].
Qed.

Lemma only_list_length s ids l : only_list s ids = Some l -> length l = length ids.
Proof.
  revert l. induction ids as [|k r IH]; cbn [only_list]; intros l H.
  - injection H as <-. reflexivity.
  - destruct (assoc_first k s); [|discriminate]. destruct (only_list s r) eqn:E; [|discriminate].
    injection H as <-. cbn [length]. f_equal. apply IH. reflexivity.
Qed.

(** everything the executable form lists is in the relation *)
Theorem denote_sound W i : forall l n m, denote W i = Some l -> In (n, m) l -> denotes W i n m.
Proof.
  induction i as [lb|i IH ids|i IH ids|i IH prs|i IH p|i IH p]; cbn [denote]; intros l n m H Hin.
  - econstructor; eassumption.
  - destruct (denote W i) as [s|] eqn:E; [|discriminate].
    destruct (only_list_sound _ _ _ H _ Hin) as [H1 H2]. constructor; [eapply IH; [reflexivity|exact H1] | exact H2].
  - destruct (denote W i) as [s|] eqn:E; [|discriminate]. injection H as <-.
    apply filter_In in Hin. destruct Hin as [H1 H2]. cbn [fst] in H2. apply negb_true_iff, mem_not_In in H2.
    constructor; [eapply IH; [reflexivity|exact H1] | exact H2].
  - destruct (denote W i) as [s|] eqn:E; [|discriminate]. injection H as <-.
    apply in_map_iff in Hin. destruct Hin as [[a b] [Hq Hin]]. cbn [fst snd] in Hq. injection Hq as <- <-.
    constructor. eapply IH; [reflexivity|exact Hin].
  - destruct (denote W i) as [s|] eqn:E; [|discriminate]. injection H as <-.
    apply in_map_iff in Hin. destruct Hin as [[a b] [Hq Hin]]. cbn [fst snd] in Hq. injection Hq as <- <-.
    constructor. eapply IH; [reflexivity|exact Hin].
  - destruct (denote W i) as [s|] eqn:E; [|discriminate]. injection H as <-.
    apply in_map_iff in Hin. destruct Hin as [[a b] [Hq Hin]]. cbn [fst snd] in Hq. injection Hq as <- <-.
    constructor. eapply IH; [reflexivity|exact Hin].
Qed.

(** every visible name of the relation is listed (with the same binding when the set is unambiguous) *)
Theorem denote_names_complete W i : forall l n m, denote W i = Some l -> denotes W i n m -> exists m', In (n, m') l.
Proof.
  intros l n m H D. revert l H.
  induction D as [lb ex n m H1 H2|i ids n m D IH Hin|i ids n m D IH Hnin|i prs n m D IH|i p n m D IH|i p n m D IH];
    intros l H; cbn [denote] in H.
  - exists m. congruence.
  - destruct (denote W i) as [s|] eqn:E; [|discriminate].
    eapply only_list_complete; eassumption.
  - destruct (denote W i) as [s|] eqn:E; [|discriminate]. injection H as <-.
    destruct (IH s eq_refl) as [m' Hm']. exists m'. apply filter_In. split; [exact Hm'|].
    cbn [fst]. apply negb_true_iff, mem_not_In. assumption.
  - destruct (denote W i) as [s|] eqn:E; [|discriminate]. injection H as <-.
    destruct (IH s eq_refl) as [m' Hm']. exists m'. apply in_map_iff. exists (n, m'). split; [reflexivity|exact Hm'].
  - destruct (denote W i) as [s|] eqn:E; [|discriminate]. injection H as <-.
    destruct (IH s eq_refl) as [m' Hm']. exists m'. apply in_map_iff. exists (n, m'). split; [reflexivity|exact Hm'].
  - destruct (denote W i) as [s|] eqn:E; [|discriminate]. injection H as <-.
    destruct (IH s eq_refl) as [m' Hm']. exists m'. apply in_map_iff. exists (n, m'). split; [reflexivity|exact Hm'].
Qed.

Corollary denote_exact W i l : denote W i = Some l -> unambiguous W i ->
  forall n m, In (n, m) l <-> denotes W i n m.
Proof.
  intros H U n m. split; [apply denote_sound; exact H|].
  intro D. destruct (denote_names_complete _ _ _ _ _ H D) as [m' Hm'].
  rewrite (U n m m' D (denote_sound _ _ _ _ _ H Hm')). exact Hm'.
Qed.

(** the executable form fails exactly where chibi diagnoses an error *)
Theorem denote_defined_iff W i : denote W i <> None <-> chibi_ok W i.
Proof.
  induction i as [lb|i IH ids|i IH ids|i IH prs|i IH p|i IH p]; cbn [denote chibi_ok].
  - tauto.
  - destruct (denote W i) as [s|] eqn:E.
    + split.
      * intro H. split; [apply IH; discriminate|]. intros n Hn.
        destruct (only_list s ids) as [l|] eqn:E'; [|congruence].
        destruct (only_list_complete _ _ _ E' n Hn) as [m Hm].
        destruct (only_list_sound _ _ _ E' _ Hm) as [Hs _]. exists m. eapply denote_sound; eassumption.
      * intros [_ H] E'. destruct (only_list_none _ _ E') as [n [Hn Hm]].
        destruct (H n Hn) as [m D]. destruct (denote_names_complete _ _ _ _ _ E D) as [m' Hm']. exact (Hm m' Hm').
    + split; [congruence|]. intros [H _]. apply IH in H. congruence.
  - rewrite <- IH. destruct (denote W i); cbn [option_map]; split; intro H; try exact H; discriminate.
  - rewrite <- IH. destruct (denote W i); cbn [option_map]; split; intro H; try exact H; discriminate.
  - rewrite <- IH. destruct (denote W i); cbn [option_map]; split; intro H; try exact H; discriminate.
  - rewrite <- IH. destruct (denote W i); cbn [option_map]; split; intro H; try exact H; discriminate.
Qed.

(** R7RS-valid import sets are never rejected *)
Lemma spec_ok_chibi_ok W i : spec_ok W i -> chibi_ok W i.
Proof.
  induction i as [lb|i IH ids|i IH ids|i IH prs|i IH p|i IH p]; cbn [spec_ok chibi_ok]; try tauto.
Qed.

(** a library's private definitions are never reachable through an import set, whatever the nesting:
    the internal name a visible name denotes is always one the library exports *)
Theorem private_stays_invisible W i n m :
  denotes W i n m -> exists ex x, lookup_lib W (lib_of i) = Some ex /\ In (x, m) ex.
Proof.
  induction 1 as [l ex n m H1 H2| | | | | ]; cbn [lib_of]; try assumption.
  exists ex, n. split; assumption.
Qed.

(** ** drop_prefix is what it should be *)
Lemma substring_app_l p m : substring 0 (String.length p) (p ++ m) = p.
Proof.
  induction p as [|c p IH]; cbn [String.length append substring].
  - destruct m; reflexivity.
  - rewrite IH. reflexivity.
Qed.

Lemma substring_app_r p m : substring (String.length p) (String.length m) (p ++ m) = m.
Proof.
  induction p as [|c p IH]; cbn [String.length append substring].
  - induction m as [|c m IHm]; cbn [String.length substring]; [reflexivity | rewrite IHm; reflexivity].
  - exact IH.
Qed.

Lemma length_app p m : String.length (p ++ m) = String.length p + String.length m.
Proof. induction p as [|c p IH]; cbn [String.length append]; [reflexivity | rewrite IH; reflexivity]. Qed.

Lemma drop_prefix_app p m : m <> "" -> drop_prefix p (p ++ m) = m.
Proof.
  intro Hm. unfold drop_prefix. rewrite length_app, substring_app_l, String.eqb_refl.
  assert (Hlt : Nat.ltb (String.length p) (String.length p + String.length m) = true).
  { apply Nat.ltb_lt. destruct m; [congruence | cbn [String.length]; lia]. }
  rewrite Hlt. cbn [andb]. replace (String.length p + String.length m - String.length p) with (String.length m) by lia.
  apply substring_app_r.
Qed.

Lemma substring_0_len s : substring 0 (String.length s) s = s.
Proof. induction s as [|c s IH]; cbn [String.length substring]; [reflexivity | rewrite IH; reflexivity]. Qed.

Lemma substring_split n s : n <= String.length s ->
  s = substring 0 n s ++ substring n (String.length s - n) s.
Proof.
  revert s. induction n as [|n IH]; intros s Hn.
  - rewrite Nat.sub_0_r, substring_0_len. destruct s; reflexivity.
  - destruct s as [|c s]; cbn [String.length] in *; [lia|].
    cbn [substring append Nat.sub]. f_equal. apply IH. lia.
Qed.

Lemma drop_prefix_other p n : (forall m, m <> "" -> n <> p ++ m) -> drop_prefix p n = n.
Proof.
  intro H. unfold drop_prefix.
  destruct (Nat.ltb (String.length p) (String.length n)) eqn:E; [|reflexivity].
  destruct (String.eqb p (substring 0 (String.length p) n)) eqn:E2; [|reflexivity].
  exfalso. apply Nat.ltb_lt in E. apply String.eqb_eq in E2.
  apply (H (substring (String.length p) (String.length n - String.length p) n)).
  - intro Hz. assert (HL : String.length n = String.length p + 0).
    { rewrite (substring_split (String.length p) n) at 1 by lia. rewrite length_app, Hz, <- E2. reflexivity. }
    lia.
  - rewrite E2 at 1. apply substring_split. lia.
Qed.

Example drop_prefix_ex : drop_prefix "p:" "p:car" = "car" /\ drop_prefix "p:" "p:" = "p:" /\ drop_prefix "p:" "cdr" = "cdr".
Proof. repeat split. Qed.

Example denote_ex :
  let W := [(["v"; "l"], [("a", "a"); ("c", "b")])] in
  denote W (IOnly (IPrefix (ILib ["v"; "l"]) "p:") ["p:c"]) = Some [("p:c", "b")]
  /\ denote W (IOnly (ILib ["v"; "l"]) ["b"]) = None
  /\ denote W (IExcept (IRename (ILib ["v"; "l"]) [("a", "z")]) ["c"]) = Some [("z", "a")].
Proof. repeat split. Qed.
