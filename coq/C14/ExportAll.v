(** C14 round 5 — the export set of an [(export-all)] library.  Executable model, no proofs in this file.

    lib/meta-7.scm:18-22  (module-exports mod) = (or (%module-exports mod) (if (module-env mod) (env-exports (module-env mod)) '()))
    lib/meta-7.scm:331-337 an (export-all) declaration makes %module-exports #f, so every import of the library through a modifier
    (only / except / rename / prefix / drop-prefix: %resolve-import lines 106-115) asks [env-exports] of the library's environment.
    eval.c:203-218 sexp_env_exports_op: the rename keys of the FIRST frame, then the keys of its bindings whose value is not SEXP_UNDEF,
    each pushed on the result (so the result lists them in reverse).
    The first frame of a library's environment after its imports (eval.c sexp_env_import_op leaves an empty frame "for future
    defines" on top) holds exactly the cells the BODY created:
      - analyze_define (eval.c) -> sexp_env_cell_define: looks the name up in the top frame ONLY and pushes (name . SEXP_UNDEF) when
        it is not there (so a definition shadows an import), BEFORE the value expression is analysed; the value is stored when the
        form runs;
      - analyze_var_ref (eval.c) -> sexp_env_cell_create: a referenced name found nowhere in the chain (top frame, imports) gets a
        placeholder cell (name . SEXP_UNDEF) in the top frame ("forward reference").  A dangling reference leaves it undefined for ever.
    A cell = (name, defined?); [false] is the value SEXP_UNDEF. *)
From Coq Require Import String List Bool.
Import ListNotations.
From ChibiV Require Import C14.Spec.

(** a top-level form of a library body, as far as cells are concerned: the name it defines (if any) and the FREE names
    its expression mentions, in the order the compiler meets them *)
Inductive form : Type :=
| FDefine (n : name) (refs : list name)        (* (define n e) / (define (n . args) body ...) / (define-syntax n ...) with refs = [] *)
| FExpr (refs : list name).                    (* a top-level expression *)

Definition cell : Type := (name * bool)%type.

Definition has (n : name) (b : list cell) : bool := existsb (fun c => String.eqb (fst c) n) b.

(** analyze_var_ref: found in the top frame or among the imports -> no new cell; else a placeholder on the top frame *)
Definition ref1 (imps : list name) (b : list cell) (n : name) : list cell :=
  if has n b || mem n imps then b else (n, false) :: b.

(** sexp_env_cell_define: top frame only *)
Definition define_cell (b : list cell) (n : name) : list cell :=
  if has n b then b else (n, false) :: b.

(** running the define: the (first) cell of that name in the top frame receives the value *)
Fixpoint set_defined (n : name) (b : list cell) : list cell :=
  match b with
  | [] => []
  | c :: r => if String.eqb (fst c) n then (fst c, true) :: r else c :: set_defined n r
  end.

Definition step (imps : list name) (b : list cell) (f : form) : list cell :=
  match f with
  | FDefine n refs => set_defined n (fold_left (ref1 imps) refs (define_cell b n))
  | FExpr refs => fold_left (ref1 imps) refs b
  end.

(** the bindings of the library's top frame after its body ran (most recent cell first) *)
Definition eval_body (imps : list name) (forms : list form) : list cell :=
  fold_left (step imps) forms [].

(** eval.c:203-218 sexp_env_exports_op *)
Definition env_exports (renames : list name) (b : list cell) : list name :=
  fold_left (fun res (c : cell) => if snd c then fst c :: res else res) b
            (fold_left (fun res n => n :: res) renames []).

(** the seeded mistake (no SEXP_UNDEF filter), kept to state what must not happen *)
Definition env_exports_unfiltered (renames : list name) (b : list cell) : list name :=
  fold_left (fun res (c : cell) => fst c :: res) b (fold_left (fun res n => n :: res) renames []).

(** SPEC side: the names a body DEFINES *)
Fixpoint defined_names (forms : list form) : list name :=
  match forms with
  | [] => []
  | FDefine n _ :: r => n :: defined_names r
  | FExpr _ :: r => defined_names r
  end.

Fixpoint referenced_names (forms : list form) : list name :=
  match forms with
  | [] => []
  | FDefine _ refs :: r => refs ++ referenced_names r
  | FExpr refs :: r => refs ++ referenced_names r
  end.

(** the export map an (export-all) library contributes to the SPEC's world once it is loaded *)
Definition export_all_exports (imps : list name) (forms : list form) : exports :=
  map (fun n => (n, n)) (env_exports [] (eval_body imps forms)).
