(** C14 — UNBOUNDED refinement of the cond-expand feature logic translated on every run from
    lib/init-7.scm (Gen/C14_CondExpand.v: ce_check, ce_expand) to the SPEC CondExpand.holds / select:
    for EVERY feature requirement (any nesting of and / or / not / library / identifier, any number
    of operands), every feature list, every module table on which find-module answers, and every
    clause list whose else clause (if any) is the last one.  Nested induction over [feature]
    (and/or carry lists of requirements).  Fuel: one unit per nesting level (+ one per clause). *)
From Coq Require Import String List Bool Arith Lia.
From ChibiV Require Import C14.Sx C14.World C14.CondExpand Gen.C14_CondExpand.
Import ListNotations.
Local Open Scope string_scope.

(** nesting depth of a requirement = the fuel its check consumes *)
Fixpoint fdepth (f : feature) : nat :=
  match f with
  | FId _ | FLib _ => 0
  | FAnd l | FOr l => S (list_max (map fdepth l))
  | FNot g => S (fdepth g)
  end.

(** induction principle for the nested type *)
Section FeatureInd.
  Variable P : feature -> Prop.
  Hypothesis HId : forall s, P (FId s).
  Hypothesis HLib : forall n, P (FLib n).
  Hypothesis HAnd : forall l, Forall P l -> P (FAnd l).
  Hypothesis HOr : forall l, Forall P l -> P (FOr l).
  Hypothesis HNot : forall g, P g -> P (FNot g).
  Fixpoint feature_ind' (f : feature) : P f :=
    match f with
    | FId s => HId s
    | FLib n => HLib n
    | FAnd l => HAnd l ((fix go (l : list feature) : Forall P l :=
                           match l with [] => Forall_nil P | x :: r => Forall_cons x (feature_ind' x) (go r) end) l)
    | FOr l => HOr l ((fix go (l : list feature) : Forall P l :=
                         match l with [] => Forall_nil P | x :: r => Forall_cons x (feature_ind' x) (go r) end) l)
    | FNot g => HNot g (feature_ind' g)
    end.
End FeatureInd.

Lemma fdepth_in g l : In g l -> fdepth g <= list_max (map fdepth l).
Proof.
  induction l as [|x r IH]; [intros []|].
  change (list_max (map fdepth (x :: r))) with (Nat.max (fdepth x) (list_max (map fdepth r))).
  intros [->|H]; [lia|]. specialize (IH H). lia.
Qed.

Section Refinement.
  Variable feats : list string.        (* (features) *)
  Variable W : sx.                     (* the module table find-module searches *)
  Definition FE : sx := list_sx (map Sym feats).
  Definition lib_exists (n : sx) : bool := match w_find_module W n with Ok v => truthy v | Err _ => false end.
  (** the table is an association list (find-module answers a module or #f for every name) *)
  Hypothesis Wtotal : forall n, exists v, w_find_module W n = Ok v.

  Lemma memq_feats s : exists v, p_memq (Sym s) FE = Ok v /\ truthy v = existsb (String.eqb s) feats.
  Proof.
    unfold FE. induction feats as [|a r IH]; cbn [map list_sx p_memq existsb].
    - exists (Bool false). split; reflexivity.
    - cbn [p_eq_p bind]. destruct (String.eqb s a) eqn:E; cbn [truthy orb].
      + eexists. split; reflexivity.
      + exact IH.
  Qed.

  (** (every check ls) / (any check ls) over the encoded operand list, given the operands' own refinement *)
  Lemma every_spec (chk : sx -> res sx) (l : list feature) :
    Forall (fun g => exists v, chk (enc_feature g) = Ok v /\ truthy v = holds feats lib_exists g) l ->
    exists v, p_every chk (list_sx (map enc_feature l)) = Ok v /\ truthy v = forallb (holds feats lib_exists) l.
  Proof.
    destruct l as [|a r]; intro H.
    - exists (Bool true). split; reflexivity.
    - cbn [map list_sx p_every]. revert a H. induction r as [|b r IH]; intros a H.
      + inversion H as [|? ? [v [Hv Ht]] _]; subst. cbn [map list_sx p_every1 forallb].
        exists v. split; [exact Hv|]. rewrite andb_true_r. exact Ht.
      + inversion H as [|? ? [v [Hv Ht]] Hr]; subst. cbn [map list_sx p_every1]. rewrite Hv. cbn [bind].
        change (forallb (holds feats lib_exists) (a :: b :: r))
          with (holds feats lib_exists a && forallb (holds feats lib_exists) (b :: r)).
        rewrite <- Ht. destruct (truthy v); cbn [andb].
        * exact (IH b Hr).
        * exists (Bool false). split; reflexivity.
  Qed.

  Lemma any_spec (chk : sx -> res sx) (l : list feature) :
    Forall (fun g => exists v, chk (enc_feature g) = Ok v /\ truthy v = holds feats lib_exists g) l ->
    exists v, p_any chk (list_sx (map enc_feature l)) = Ok v /\ truthy v = existsb (holds feats lib_exists) l.
  Proof.
    destruct l as [|a r]; intro H.
    - exists (Bool false). split; reflexivity.
    - cbn [map list_sx p_any]. revert a H. induction r as [|b r IH]; intros a H.
      + inversion H as [|? ? [v [Hv Ht]] _]; subst. cbn [map list_sx p_any1 existsb].
        exists v. split; [exact Hv|]. rewrite orb_false_r. exact Ht.
      + inversion H as [|? ? [v [Hv Ht]] Hr]; subst. cbn [map list_sx p_any1]. rewrite Hv. cbn [bind].
        change (existsb (holds feats lib_exists) (a :: b :: r))
          with (holds feats lib_exists a || existsb (holds feats lib_exists) (b :: r)).
        rewrite <- Ht. destruct (truthy v) eqn:Etv; cbn [orb].
        * exists v. split; [reflexivity|exact Etv].
        * exact (IH b Hr).
  Qed.

  (** the translated [check] answers a value whose truth is [holds], for every requirement *)
  Theorem check_refines_holds : forall f fuel, fdepth f < fuel ->
    exists v, ce_check FE fuel W (enc_feature f) = Ok v /\ truthy v = holds feats lib_exists f.
  Proof.
    induction f as [s|n|l IH|l IH|g IH] using feature_ind'; intros fuel Hf; (destruct fuel as [|fuel]; [lia|]).
    - cbn [ce_check enc_feature p_pair_p bind truthy p_identifier_to_symbol holds]. apply memq_feats.
    - cbn [enc_feature list_sx]. cbn [ce_check p_pair_p bind truthy p_car].
      change (case_mem (Sym "library") [Sym "and"]) with false.
      change (case_mem (Sym "library") [Sym "or"]) with false.
      change (case_mem (Sym "library") [Sym "not"]) with false.
      change (case_mem (Sym "library") [Sym "library"]) with true.
      cbn [p_cadr p_cdr p_car bind holds]. unfold lib_exists.
      destruct (Wtotal n) as [v Hv]. rewrite Hv. exists v. split; reflexivity.
    - cbn [enc_feature]. cbn [ce_check p_pair_p bind truthy p_car p_cdr].
      change (case_mem (Sym "and") [Sym "and"]) with true. cbn iota. cbn [holds].
      apply every_spec. rewrite Forall_forall in IH |- *. intros g Hg. apply (IH g Hg).
      pose proof (fdepth_in g l Hg). cbn [fdepth] in Hf. lia.
    - cbn [enc_feature]. cbn [ce_check p_pair_p bind truthy p_car p_cdr].
      change (case_mem (Sym "or") [Sym "and"]) with false.
      change (case_mem (Sym "or") [Sym "or"]) with true. cbn iota. cbn [holds].
      apply any_spec. rewrite Forall_forall in IH |- *. intros g Hg. apply (IH g Hg).
      pose proof (fdepth_in g l Hg). cbn [fdepth] in Hf. lia.
    - cbn [enc_feature list_sx]. cbn [ce_check p_pair_p bind truthy p_car].
      change (case_mem (Sym "not") [Sym "and"]) with false.
      change (case_mem (Sym "not") [Sym "or"]) with false.
      change (case_mem (Sym "not") [Sym "not"]) with true.
      cbn [p_cadr p_cdr p_car bind]. cbn [fdepth] in Hf.
      destruct (IH fuel ltac:(lia)) as [v [Hv Ht]]. rewrite Hv. cbn [bind p_not holds].
      eexists. split; [reflexivity|]. rewrite Ht. destruct (holds feats lib_exists g); reflexivity.
  Qed.

  (** clause lists: the else clause, if any, is the last one (R7RS grammar), and no requirement is the bare identifier else *)
  Fixpoint wf_clauses (cs : list (option feature * sx)) : Prop :=
    match cs with
    | [] => True
    | (None, _) :: r => r = []
    | (Some f, _) :: r => f <> FId "else" /\ wf_clauses r
    end.
  Definition cdepth (cs : list (option feature * sx)) : nat :=
    list_max (map (fun c => match fst c with Some f => fdepth f | None => 0 end) cs).

  Lemma cdepth_cons c r : cdepth (c :: r) = Nat.max (match fst c with Some f => fdepth f | None => 0 end) (cdepth r).
  Proof. reflexivity. Qed.

  Lemma enc_not_else f : f <> FId "else" -> p_eq_p (Sym "else") (enc_feature f) = Ok (Bool false).
  Proof.
    destruct f as [s| | | |]; intro H; try reflexivity.
    cbn [enc_feature p_eq_p]. destruct (String.eqb "else" s) eqn:E; [|reflexivity].
    apply String.eqb_eq in E. subst s. congruence.
  Qed.

  (** the translated [expand] answers (begin . body) of the first clause whose requirement holds (else = always), #t when none *)
  Theorem expand_refines_select : forall cs fuel, wf_clauses cs -> length cs + cdepth cs < fuel ->
    ce_expand FE fuel W (list_sx (map enc_clause cs)) =
    Ok (match select feats lib_exists cs with Some body => Pair (Sym "begin") body | None => Bool true end).
  Proof.
    induction cs as [|[[f|] body] r IH]; intros fuel Hwf Hf; (destruct fuel as [|fuel]; [cbn [length] in Hf; lia|]).
    - reflexivity.
    - cbn [map list_sx]. change (enc_clause (Some f, body)) with (Pair (enc_feature f) body).
      cbn [ce_expand p_null_p bind truthy p_car p_pair_p p_not negb p_caar p_identifier_to_symbol].
      destruct Hwf as [Hne Hwf]. rewrite (enc_not_else f Hne). cbn [bind truthy].
      rewrite cdepth_cons in Hf. cbn [fst length] in Hf.
      destruct (check_refines_holds f fuel ltac:(lia)) as [v [Hv Ht]]. rewrite Hv. cbn [bind select]. rewrite <- Ht.
      destruct (truthy v).
      + reflexivity.
      + cbn [p_cdr bind]. apply IH; [exact Hwf|]. lia.
    - cbn [map list_sx]. change (enc_clause (None, body)) with (Pair (Sym "else") body).
      cbn [ce_expand p_null_p bind truthy p_car p_pair_p p_not negb p_caar p_identifier_to_symbol p_eq_p].
      change (String.eqb "else" "else") with true. cbn [truthy bind p_cdr]. cbn [wf_clauses] in Hwf. subst r.
      cbn [map list_sx p_pair_p bind truthy p_cdar p_car p_cdr p_cons select]. reflexivity.
  Qed.
End Refinement.

(** a module table built from a Coq association list satisfies the hypothesis *)
Definition table (es : list (sx * sx)) : sx := list_sx (map (fun e => Pair (fst e) (snd e)) es).
Lemma table_total es : forall n, exists v, w_find_module (table es) n = Ok v.
Proof.
  intro n. unfold w_find_module, table. induction es as [|[k v] r IH]; cbn [map list_sx w_assoc fst snd].
  - eexists. reflexivity.
  - destruct (sx_eqb n k); [eexists; reflexivity|exact IH].
Qed.

(** non-vacuity: a nested requirement and a clause list on a concrete table *)
Example unbounded_example :
  let feats := ["r7rs"; "chibi"] in
  let lib1 := list_sx [Sym "v14"; Sym "g"; Sym "l1"] in
  let W := table [(lib1, Pair (list_sx [Sym "a"]) Nil)] in
  let f := FAnd [FOr [FId "nope"; FNot (FLib (list_sx [Sym "v14"; Sym "g"; Sym "l9"]))]; FLib lib1; FAnd []] in
  holds feats (lib_exists W) f = true /\ fdepth f = 3 /\
  wf_clauses [(Some (FNot f), Nil); (Some f, list_sx [Sym "b1"]); (None, Nil)] /\
  select feats (lib_exists W) [(Some (FNot f), Nil); (Some f, list_sx [Sym "b1"]); (None, Nil)] = Some (list_sx [Sym "b1"]).
Proof. vm_compute. repeat split; discriminate. Qed.
