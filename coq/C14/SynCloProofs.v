(** C14 — an imported binding is visible inside closed user code exactly as outside it. *)
From Coq Require Import String List Bool.
From ChibiV Require Import C14.Spec C14.Env C14.SpecProofs C14.EnvProofs C14.SynClo.
Import ListNotations.
Local Open Scope string_scope.
Local Open Scope list_scope.

Lemma frame_cell_copy f k : frame_cell (copy_frame f) k = frame_cell f k.
Proof. reflexivity. Qed.

Lemma env_cell_app e1 e2 k :
  env_cell (e1 ++ e2) k = match env_cell e1 k with Some c => Some c | None => env_cell e2 k end.
Proof.
  induction e1 as [|f r IH]; [reflexivity|]. cbn [app env_cell].
  destruct (frame_cell f k); [reflexivity|exact IH].
Qed.

(** the copied frames keep every rename entry (imports) and every binding of the frames they copy *)
Lemma env_cell_copy e k : env_cell (map copy_frame e) k = env_cell e k.
Proof.
  induction e as [|f r IH]; [reflexivity|]. cbn [map env_cell]. rewrite frame_cell_copy, IH. reflexivity.
Qed.

Lemma extend_cell fv cenv e k :
  env_cell (extend_synclo_env fv cenv e) k =
  match env_cell e k with
  | Some c => Some c
  | None => match fv with [] => None | _ :: _ => env_cell cenv k end
  end.
Proof.
  destruct fv as [|x fv]; cbn [extend_synclo_env].
  - destruct (env_cell e k); reflexivity.
  - rewrite env_cell_app, env_cell_copy. reflexivity.
Qed.

Lemma fv_memq_names_none k free E fv :
  ~ In k free -> fv_memq k fv = None -> fv_memq k (map FvName free ++ FvEnv E :: fv) = None.
Proof.
  intros Hn Hf. induction free as [|a r IH]; cbn [map app fv_memq]; [exact Hf|].
  destruct (String.eqb k a) eqn:Ea.
  - apply String.eqb_eq in Ea. exfalso. apply Hn. left. symmetry. exact Ea.
  - apply IH. intro H. apply Hn. right. exact H.
Qed.

Lemma fv_memq_names_hit k free E fv :
  In k free -> exists ls, fv_memq k (map FvName free ++ FvEnv E :: fv) = Some ls /\ first_env ls = Some E.
Proof.
  induction free as [|a r IH]; intro Hin; [destruct Hin|]. cbn [map app fv_memq].
  destruct (String.eqb k a) eqn:Ea.
  - eexists. split; [reflexivity|]. clear. cbn [first_env].
    induction r as [|b r IH]; cbn [map app first_env]; [reflexivity|exact IH].
  - destruct Hin as [->|Hin]; [rewrite String.eqb_refl in Ea; discriminate|]. exact (IH Hin).
Qed.

Definition new_fv (c : cctx) (free : list string) : list fv_entry :=
  match free with [] => c_fv c | _ :: _ => map FvName free ++ FvEnv (c_env c) :: c_fv c end.

Lemma enter_synclo_fv c U free : c_fv (enter_synclo c U free) = new_fv c free.
Proof. destruct free; reflexivity. Qed.

Lemma enter_synclo_env c U free : c_env (enter_synclo c U free) = extend_synclo_env (new_fv c free) (c_env c) U.
Proof. destruct free; reflexivity. Qed.

Lemma new_fv_none c free k : ~ In k free -> fv_memq k (c_fv c) = None -> fv_memq k (new_fv c free) = None.
Proof.
  intros Hn Hf. destruct free as [|a r]; [exact Hf|]. unfold new_fv. apply fv_memq_names_none; assumption.
Qed.

(** (1) a key that the closure's environment binds resolves, in the closed form, to the same cell;
    whatever the context (nested closures, local bindings of macro templates, other free names) *)
Theorem closed_lookup_bound_proof c U free k cell :
  ~ In k free -> fv_memq k (c_fv c) = None -> env_cell U k = Some cell ->
  ctx_cell (enter_synclo c U free) k = Some cell.
Proof.
  intros Hn Hf Hc. unfold ctx_cell. rewrite enter_synclo_fv, (new_fv_none c free k Hn Hf), enter_synclo_env, extend_cell, Hc.
  reflexivity.
Qed.

(** (2) a free name of the closure is looked up in the environment of the place where the closure
    is used (the documented meaning of free names; F-C07-2 is about what happens under newer bindings) *)
Theorem free_name_redirected_proof c U free k :
  In k free -> ctx_cell (enter_synclo c U free) k = env_cell (c_env c) k.
Proof.
  intro Hin. unfold ctx_cell. rewrite enter_synclo_fv. destruct free as [|a r]; [destruct Hin|].
  unfold new_fv. destruct (fv_memq_names_hit k (a :: r) (c_env c) (c_fv c) Hin) as [ls [H1 H2]].
  rewrite H1, H2. reflexivity.
Qed.

(** (3) a key the closure's environment does NOT bind: with no free names anywhere it is unbound, as it
    must be; as soon as the context carries free names it falls through to the environment of the
    place of use (in an exported macro: the macro library's environment).  This is the standing leak. *)
Theorem closed_lookup_unbound_proof c U free k :
  ~ In k free -> fv_memq k (c_fv c) = None -> env_cell U k = None ->
  ctx_cell (enter_synclo c U free) k =
  match new_fv c free with [] => None | _ :: _ => env_cell (c_env c) k end.
Proof.
  intros Hn Hf Hc. unfold ctx_cell. rewrite enter_synclo_fv, (new_fv_none c free k Hn Hf), enter_synclo_env, extend_cell, Hc.
  reflexivity.
Qed.

(** (3b) identifier form: the closed form is itself an identifier that is not free: exactly the closure's environment
    (no fall-through at all in this form when no enclosing closure has free names) *)
Theorem ident_lookup_exact_proof c E free k :
  ~ In k free -> fv_memq k (c_fv c) = None -> ident_cell c E free k = env_cell E k.
Proof.
  intros Hn Hf. unfold ident_cell. rewrite Hf.
  assert (He : existsb (String.eqb k) free = false).
  { induction free as [|a r IH]; [reflexivity|]. cbn [existsb].
    destruct (String.eqb k a) eqn:Ea.
    - apply String.eqb_eq in Ea. exfalso. apply Hn. left. symmetry. exact Ea.
    - apply IH. intro H. apply Hn. right. exact H. }
  rewrite He. destruct (env_cell E k); reflexivity.
Qed.

(** ** the macros of the check *)
Definition wfree (w : wrapper) : list string := match w with WSc _ free _ => free | WEr => [] end.

Definition sees (c : cctx) (k : string) (cell : loc) : Prop :=
  fv_memq k (c_fv c) = None /\ env_cell (c_env c) k = Some cell.

Lemma sees_ctx_cell c k cell : sees c k cell -> ctx_cell c k = Some cell.
Proof. intros [H1 H2]. unfold ctx_cell. rewrite H1. exact H2. Qed.

Lemma wrap1_sees w c k cell : ~ In k (wfree w) -> sees c k cell -> sees (wrap1 w c) k cell.
Proof.
  intros Hn [Hf Hc]. destruct w as [M free locals|]; cbn [wrap1 wfree] in *.
  - set (c2 := match locals with [] => enter_synclo c M [] | _ :: _ => bind_local (enter_synclo c M []) locals end).
    assert (Hf2 : fv_memq k (c_fv c2) = None) by (subst c2; destruct locals; exact Hf).
    split.
    + rewrite enter_synclo_fv. apply new_fv_none; assumption.
    + rewrite enter_synclo_env, extend_cell, Hc. reflexivity.
  - split; [exact Hf|]. cbn [bind_local c_env env_cell]. unfold frame_cell. cbn [f_renames f_bindings assoc_loc]. exact Hc.
Qed.

(** (4) through any nesting of the check's macros: a name bound outside (and not declared free by one
    of the macros) denotes the same cell in the user-code position *)
Theorem wrapped_lookup_bound_proof ws : forall c k cell,
  Forall (fun w => ~ In k (wfree w)) ws -> sees c k cell -> ctx_cell (wrap_ctx ws c) k = Some cell.
Proof.
  induction ws as [|w r IH]; intros c k cell HF Hs; cbn [wrap_ctx].
  - apply sees_ctx_cell. exact Hs.
  - inversion HF as [|w' r' Hw Hr]; subst. apply IH; [exact Hr|]. apply wrap1_sees; assumption.
Qed.

(** (5) imports: after sexp_env_import_op the visible name n denotes the exporter's own cell also
    inside user code closed by exported macros of any other library *)
Theorem import_visible_in_closed_code_proof to from ids immutp n m cell ws :
  to <> [] -> In (n, m) ids -> (forall m', In (n, m') ids -> m' = m) -> env_cell from m = Some cell ->
  Forall (fun w => ~ In n (wfree w)) ws ->
  ctx_cell (wrap_ctx ws (top_ctx (env_import to from (Some ids) immutp))) n = Some cell /\
  ctx_cell (top_ctx (env_import to from (Some ids) immutp)) n = Some cell.
Proof.
  intros Hto Hin Hfun Hc HF.
  pose proof (import_binds_exporters_cell_proof to from ids immutp n m cell Hto Hin Hfun Hc) as H.
  assert (Hs : sees (top_ctx (env_import to from (Some ids) immutp)) n cell) by (split; [reflexivity|exact H]).
  split; [apply wrapped_lookup_bound_proof; assumption|apply sees_ctx_cell; exact Hs].
Qed.

(** (6) an sc macro WITHOUT free names used at top level: user code sees exactly the use environment *)
Theorem sc_no_free_names_exact_proof M locals U k :
  ctx_cell (wrap1 (WSc M [] locals) (top_ctx U)) k = env_cell U k.
Proof.
  cbn [wrap1]. unfold ctx_cell. rewrite enter_synclo_fv. cbn [new_fv].
  destruct locals as [|v r]; cbn [bind_local enter_synclo c_fv c_env top_ctx extend_synclo_env fv_memq]; reflexivity.
Qed.

(** (7) an sc macro WITH free names used at top level: a key the program does not bind (and that is
    not free) resolves to the template's local of that name, else to whatever the environment the
    macro was defined in has under that name *)
Theorem sc_free_names_leak_char_proof M a free locals U k :
  ~ In k (a :: free) -> env_cell U k = None ->
  ctx_cell (wrap1 (WSc M (a :: free) locals) (top_ctx U)) k =
  match assoc_loc k locals with Some c => Some c | None => env_cell M k end.
Proof.
  intros Hn Hc. cbn [wrap1].
  set (c2 := match locals with [] => enter_synclo (top_ctx U) M [] | _ :: _ => bind_local (enter_synclo (top_ctx U) M []) locals end).
  assert (Hf2 : fv_memq k (c_fv c2) = None) by (subst c2; destruct locals; reflexivity).
  rewrite (closed_lookup_unbound_proof c2 (c_env (top_ctx U)) (a :: free) k Hn Hf2 Hc). cbn [new_fv map app].
  subst c2. destruct locals as [|v r]; cbn [assoc_loc bind_local enter_synclo c_env c_fv top_ctx extend_synclo_env env_cell].
  - reflexivity.
  - unfold frame_cell. cbn [f_renames f_bindings assoc_loc]. destruct (assoc_loc k (v :: r)); reflexivity.
Qed.

(** the full statement "closed user code sees exactly its own environment" does not hold of the code *)
Theorem closed_code_sees_only_its_environment_refuted_proof :
  ~ (forall c U free k, ~ In k free -> fv_memq k (c_fv c) = None -> ctx_cell (enter_synclo c U free) k = env_cell U k).
Proof.
  intro H.
  specialize (H (top_ctx [ {| f_renames := []; f_bindings := [("value", 7)]; f_immutable := false |} ])
                [empty_frame] ["it"] "value").
  assert (Hn : ~ In "value" ["it"]) by (intros [E|[]]; discriminate).
  specialize (H Hn eq_refl). vm_compute in H. discriminate.
Qed.

(** non-vacuity.  Program: imports value as v:value from library 1 (cell 11) and mine (cell 12); the macro
    library privately imports value from library 0 (cell 5) and defines priv (cell 9). *)
Example closed_lookup_example :
  let lib0 := [ {| f_renames := []; f_bindings := [("value", 5)]; f_immutable := false |} ] in
  let lib1 := [ {| f_renames := []; f_bindings := [("mine", 12); ("value", 11)]; f_immutable := false |} ] in
  let M := match env_import [empty_frame] lib0 (Some [("value", "value")]) true with
           | f :: r => {| f_renames := []; f_bindings := [("priv", 9)]; f_immutable := false |} :: r | [] => [] end in
  let U := env_import [empty_frame] lib1 (Some [("v:value", "value"); ("mine", "mine")]) true in
  let aif := WSc M ["it"] [("it", 0)] in
  let w0 := WSc M [] [] in
  let inside ws k := ctx_cell (wrap_ctx ws (top_ctx U)) k in
  inside [aif] "v:value" = Some 11 /\ inside [aif] "mine" = Some 12 /\ inside [aif; WEr; w0; aif] "mine" = Some 12 /\
  inside [aif] "it" = Some 0 /\
  inside [w0] "value" = None /\ inside [WEr] "value" = None /\
  inside [aif] "value" = Some 5 /\ inside [aif] "priv" = Some 9 /\ inside [aif; w0] "priv" = Some 9.
Proof. vm_compute. repeat split. Qed.

(** graph level: the environments built for a two-library graph *)
Example closed_probe_example :
  let l0 := ["v"; "l0"] in let l1 := ["v"; "l1"] in
  let g := [ {| ld_name := l0; ld_imports := []; ld_defs := ["a"; "b"; "aif"]; ld_exports := [("a", "a"); ("c", "b")] |};
             {| ld_name := l1; ld_imports := [IOnly (ILib l0) ["c"]]; ld_defs := ["a"; "aif"]; ld_exports := [("aif", "aif"); ("a", "a")] |} ] in
  closed_probe g [IPrefix (ILib l0) "p:"] [] "p:c" = Some (def_loc 0 1) /\
  closed_probe g [IPrefix (ILib l0) "p:"; IOnly (ILib l1) ["aif"]] [DSc l1 ["it"] ["it"]] "p:c" = Some (def_loc 0 1) /\
  closed_probe g [IPrefix (ILib l0) "p:"; IOnly (ILib l1) ["aif"]] [DSc l1 ["it"] ["it"]] "a" = Some (def_loc 1 0) /\
  closed_probe g [IPrefix (ILib l0) "p:"; IOnly (ILib l1) ["aif"]] [DSc l1 ["it"] ["it"]] "c" = Some (def_loc 0 1) /\
  closed_probe g [IPrefix (ILib l0) "p:"; IOnly (ILib l1) ["aif"]] [DSc l1 [] []] "a" = None /\
  closed_probe g [IPrefix (ILib l0) "p:"; IOnly (ILib l1) ["aif"]] [] "a" = None.
Proof. vm_compute. repeat split. Qed.
