(** C14 — unbounded converse: in a world where nothing reachable from l is missing or cyclic, l loads
    (the state machine is not vacuously safe). *)
From Coq Require Import List Bool Arith Lia Relations.
From ChibiV Require Import C14.Load C14.LoadInv C14.LoadCycle.
Import ListNotations.

Lemma inprog_iff st x : inprog st x <-> exists m, lookup x (table st) = Some m /\ m_env m = None /\ m_meta m = ErrorForm.
Proof.
  unfold inprog. split.
  - intro H. eexists. split; [exact H|]. split; reflexivity.
  - intros [[e mt] [H [He Hm]]]. cbn in He, Hm. subst. exact H.
Qed.

Section Fuel.
  Variable d : defs.
  Variable f : nat.
  Hypothesis IHf : forall st path l, loadable f d path l = true -> J st -> NoDup (evals st) -> K d st -> M d st ->
    (forall x, inprog st x -> In x path) ->
    exists st', load_module f d st l = (st', Done) /\ (forall x, inprog st' x -> inprog st x).

  Lemma import_all_live : forall imps path s, forallb (loadable f d path) imps = true ->
    J s -> NoDup (evals s) -> K d s -> M d s -> (forall x, inprog s x -> In x path) ->
    exists s', import_all_with (load_module f d) imps s = (s', Done) /\ (forall x, inprog s' x -> inprog s x).
  Proof.
    induction imps as [|i r IH]; intros path s Hall HJ Hn HK HM Hp; cbn [import_all_with].
    - exists s. split; [reflexivity | auto].
    - cbn [forallb] in Hall. apply andb_true_iff in Hall. destruct Hall as [Hi Hr].
      destruct (IHf s path i Hi HJ Hn HK HM Hp) as [s1 [E1 Hin1]]. rewrite E1.
      destruct (load_ok d f _ _ _ _ E1 HJ Hn) as (HJ1 & Hn1 & _).
      destruct (load_KM d f _ _ _ _ E1 HJ Hn HK HM) as (HK1 & HM1).
      destruct (IH path s1 Hr HJ1 Hn1 HK1 HM1 (fun x Hx => Hp x (Hin1 x Hx))) as [s2 [E2 Hin2]].
      exists s2. split; [exact E2 | auto].
  Qed.
End Fuel.

Theorem load_loadable d : forall f st path l, loadable f d path l = true -> J st -> NoDup (evals st) -> K d st -> M d st ->
  (forall x, inprog st x -> In x path) ->
  exists st', load_module f d st l = (st', Done) /\ (forall x, inprog st' x -> inprog st x).
Proof.
  induction f as [|f IHf]; intros st path l HL HJ Hn HK HM Hp; [discriminate|].
  cbn [loadable] in HL.
  destruct (existsb (Nat.eqb l) path) eqn:Epath; [discriminate|].
  destruct (lookup l d) as [imps|] eqn:Ed; [|discriminate].
  assert (Hnotin : ~ In l path).
  { intro Hin. assert (existsb (Nat.eqb l) path = true) by (apply existsb_exists; exists l; split; [exact Hin | apply Nat.eqb_refl]). congruence. }
  cbn [load_module].
  destruct (find_module d st l) as [st1 mo] eqn:Ef.
  destruct (find_ok _ _ _ _ _ Ef HJ Hn) as (HJ1 & Hn1 & Hs1).
  destruct (find_KM _ _ _ _ _ Ef HK HM) as (HK1 & HM1).
  destruct (find_step _ _ _ _ _ Ef) as (He1 & Hmo & _).
  assert (Hin01 : forall x, inprog st1 x -> inprog st x).
  { destruct (find_cases _ _ _ _ _ Ef) as [[-> _]|(imps' & Hnone & _ & _ & ->)]; [auto|].
    intros x Hx. unfold inprog in *. cbn [table lookup] in Hx. destruct (Nat.eqb x l) eqn:Exl; [discriminate Hx | exact Hx]. }
  assert (Hmo' : mo <> None).
  { destruct (find_cases _ _ _ _ _ Ef) as [[-> Hm]|(imps' & _ & _ & -> & _)]; [|discriminate].
    intro Hnone. rewrite Hnone in Hm. unfold find_module in Ef. rewrite <- Hm, Ed, Hnone in Ef. discriminate Ef. }
  destruct mo as [m|]; [|congruence].
  destruct (m_env m) as [e|] eqn:Eenv.
  - exists st1. split; [reflexivity | exact Hin01].
  - destruct (m_meta m) as [imps'|] eqn:Emeta.
    + assert (imps' = imps) by (pose proof (HM1 l m imps' (eq_sym Hmo) Emeta) as H0; congruence). subst imps'.
      set (st2 := set_module st1 l {| m_env := None; m_meta := ErrorForm |}).
      assert (Hy1 : env_of st1 l = None) by (unfold env_of; rewrite <- Hmo; exact Eenv).
      assert (Henv2 : forall z, env_of st2 z = env_of st1 z).
      { intro z. unfold env_of, st2, set_module. cbn [table]. destruct (Nat.eq_dec z l) as [->|Hne].
        - rewrite lookup_update_same. cbn [m_env]. unfold env_of in Hy1. symmetry. exact Hy1.
        - rewrite lookup_update_other by exact Hne. reflexivity. }
      assert (HJ2 : J st2).
      { intros k Hin. change (evals st2) with (evals st1) in Hin. destruct (HJ1 k Hin) as [e0 H0]. exists e0. rewrite Henv2. exact H0. }
      assert (HK2 : K d st2).
      { intros z e0 imps' j He Hl Hj. rewrite Henv2 in He. destruct (HK1 z e0 imps' j He Hl Hj) as [e' He']. exists e'. rewrite Henv2. exact He'. }
      assert (HM2 : M d st2).
      { intros z m' imps' Hl Hm. unfold st2, set_module in Hl. cbn [table] in Hl. destruct (Nat.eq_dec z l) as [->|Hne].
        - rewrite lookup_update_same in Hl. injection Hl as <-. cbn in Hm. discriminate.
        - rewrite lookup_update_other in Hl by exact Hne. exact (HM1 z m' imps' Hl Hm). }
      assert (Hp2 : forall x, inprog st2 x -> In x (l :: path)).
      { intros x Hx. destruct (Nat.eq_dec x l) as [->|Hne]; [left; reflexivity|]. right. apply Hp, Hin01.
        unfold inprog, st2, set_module in *. cbn [table] in Hx. rewrite lookup_update_other in Hx by exact Hne. exact Hx. }
      destruct (import_all_live d f IHf imps (l :: path) st2 HL HJ2 Hn1 HK2 HM2 Hp2) as [st3 [E3 Hin3]].
      rewrite E3. eexists. split; [reflexivity|].
      intros x Hx. unfold inprog in Hx. cbn [table] in Hx.
      destruct (Nat.eq_dec x l) as [->|Hne]; [rewrite lookup_update_same in Hx; discriminate|].
      rewrite lookup_update_other in Hx by exact Hne.
      apply Hin01. pose proof (Hin3 x Hx) as H2. unfold inprog, st2, set_module in H2. cbn [table] in H2.
      rewrite lookup_update_other in H2 by exact Hne. exact H2.
    + exfalso. apply Hnotin, Hp, Hin01. apply inprog_iff. exists m. auto.
Qed.

(** from the initial state: a library from which nothing missing and no cycle is reachable loads *)
Theorem loadable_loads_proof : forall d f l, loadable f d [] l = true ->
  exists st', load_module f d init_state l = (st', Done) /\ exists e, env_of st' l = Some e.
Proof.
  intros d f l H.
  destruct (load_loadable d f init_state [] l H J_init (NoDup_nil _) (K_init d) (M_init d)) as [st' [E _]].
  - intros x Hx. unfold inprog in Hx. cbn in Hx. discriminate.
  - exists st'. split; [exact E | exact (load_done_has_env_proof _ _ _ _ _ E)].
Qed.

Example loadable_diamond : loadable 5 [(0, []); (1, [0]); (2, [0]); (3, [1; 2])] [] 3 = true.
Proof. reflexivity. Qed.
