(** C14 — every kind of importer shares the single instance of a library (proofs about Importers.v) *)
From Coq Require Import List Bool Arith Lia.
From ChibiV Require Import C14.Load C14.LoadInv C14.Importers.
Import ListNotations.

Definition winv (w : world) : Prop := exists st, w_meta w = Some st /\ J st /\ NoDup (evals st).

Lemma boot_inv : winv boot.
Proof. exists init_state. split; [reflexivity|]. split; [apply J_init | apply NoDup_nil]. Qed.

(** a second (third, ...) standard environment neither replaces nor resets the module table *)
Theorem second_standard_env_keeps_table_proof w st :
  w_meta w = Some st -> w_meta (load_standard_env w) = Some st.
Proof. intro H. unfold load_standard_env. cbn [w_meta]. rewrite H. reflexivity. Qed.

Lemma step_inv fuel d w r w' o : winv w -> step fuel d w r = (w', o) ->
  winv w' /\ step_ok (table_state w) (table_state w').
Proof.
  intros (st & Hm & HJ & Hn) H. unfold step in H.
  assert (Hm1 : w_meta (match fst r with ByNewStandardEnv => load_standard_env w | _ => w end) = Some st).
  { destruct (fst r); try exact Hm. apply second_standard_env_keeps_table_proof. exact Hm. }
  rewrite Hm1 in H. destruct (load_module fuel d st (snd r)) as [st' o'] eqn:E.
  injection H as <- <-.
  destruct (load_ok d fuel st (snd r) st' o' E HJ Hn) as (HJ' & Hn' & Hs).
  split.
  - exists st'. split; [reflexivity|]. split; assumption.
  - unfold table_state. rewrite Hm. cbn [w_meta]. exact Hs.
Qed.

Lemma run_inv fuel d : forall reqs w w' os, winv w -> run fuel d w reqs = (w', os) ->
  winv w' /\ step_ok (table_state w) (table_state w').
Proof.
  induction reqs as [|r rest IH]; intros w w' os Hw H; cbn [run] in H.
  - injection H as <- <-. split; [exact Hw | apply step_ok_refl].
  - destruct (step fuel d w r) as [w1 o] eqn:E1. destruct (run fuel d w1 rest) as [w2 os2] eqn:E2.
    injection H as <- <-.
    destruct (step_inv fuel d w r w1 o Hw E1) as (Hw1 & Hs1).
    destruct (IH w1 w2 os2 Hw1 E2) as (Hw2 & Hs2).
    split; [exact Hw2 | exact (step_ok_trans _ _ _ Hs1 Hs2)].
Qed.

(** load_once quantified over importer kinds: any world of libraries on disk (cyclic, dangling), any
    fuel, any history of imports BY ANY MIX OF IMPORTERS from the booted context (second standard
    environments included): every library body is evaluated at most once *)
Theorem load_once_any_importer_proof : forall d fuel (reqs : list request) l,
  body_evals (table_state (fst (run fuel d boot reqs))) l <= 1.
Proof.
  intros d fuel reqs l. destruct (run fuel d boot reqs) as [w' os] eqn:E. cbn [fst].
  destruct (run_inv fuel d reqs boot w' os boot_inv E) as ((st & Hm & _ & Hn) & _).
  unfold table_state. rewrite Hm. unfold body_evals. apply (proj1 (NoDup_count_occ Nat.eq_dec _) Hn).
Qed.

(** one instance for all importers: the environment a library got when it was first loaded is the one
    every later importer of any kind receives *)
Theorem one_instance_any_importer_proof : forall d fuel (reqs1 reqs2 : list request) l e,
  let w1 := fst (run fuel d boot reqs1) in
  env_of (table_state w1) l = Some e ->
  env_of (table_state (fst (run fuel d w1 reqs2))) l = Some e.
Proof.
  intros d fuel reqs1 reqs2 l e w1 He.
  destruct (run fuel d boot reqs1) as [wa osa] eqn:E1. cbn [fst] in w1. subst w1.
  destruct (run_inv fuel d reqs1 boot wa osa boot_inv E1) as (Hwa & _).
  destruct (run fuel d wa reqs2) as [wb osb] eqn:E2. cbn [fst].
  destruct (run_inv fuel d reqs2 wa wb osb Hwa E2) as (_ & Hs).
  exact (so_env _ _ Hs l e He).
Qed.

(** the importer kind never changes an outcome: a history gives, step by step, the outcomes of
    Load.run_history on the bare library names *)
Theorem importer_kind_irrelevant_proof : forall d fuel (reqs : list request),
  snd (run fuel d boot reqs) = map fst (snd (run_history fuel d init_state (map snd reqs))) /\
  table_state (fst (run fuel d boot reqs)) = fst (run_history fuel d init_state (map snd reqs)).
Proof.
  intros d fuel reqs.
  assert (G : forall reqs w st, w_meta w = Some st ->
            snd (run fuel d w reqs) = map fst (snd (run_history fuel d st (map snd reqs))) /\
            table_state (fst (run fuel d w reqs)) = fst (run_history fuel d st (map snd reqs))).
  { clear reqs. induction reqs as [|r rest IH]; intros w st Hm; cbn [run run_history map].
    - cbn [snd fst map]. split; [reflexivity|]. unfold table_state. rewrite Hm. reflexivity.
    - unfold step.
      assert (Hm1 : w_meta (match fst r with ByNewStandardEnv => load_standard_env w | _ => w end) = Some st).
      { destruct (fst r); try exact Hm. apply second_standard_env_keeps_table_proof. exact Hm. }
      rewrite Hm1. destruct (load_module fuel d st (snd r)) as [st' o] eqn:E.
      match goal with |- context [run fuel d ?W rest] => specialize (IH W st' eq_refl) end.
      match goal with |- context [run fuel d ?W rest] => destruct (run fuel d W rest) as [w2 os] end.
      destruct (run_history fuel d st' (map snd rest)) as [st2 tr]. cbn [fst snd map] in *.
      destruct IH as [IH1 IH2]. split; [rewrite IH1; reflexivity | exact IH2]. }
  apply G. reflexivity.
Qed.

(** non-vacuity: a library loaded by the program, then imported again through a second standard
    environment, an eval'ed import and a loaded file: one evaluation, one environment *)
Example importers_example :
  let d := [(0, []); (1, [0])] in
  let (w, os) := run 6 d boot [(ByProgram, 1); (ByNewStandardEnv, 1); (ByEvalImport, 0); (ByLoadFile, 1); (ByNewStandardEnv, 0)] in
  os = [Done; Done; Done; Done; Done] /\ evals (table_state w) = [1; 0] /\ env_of (table_state w) 1 = Some 1 /\ w_std_envs w = 3.
Proof. vm_compute. repeat split. Qed.
