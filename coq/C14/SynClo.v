(** C14 — the syntactic-closure layer of identifier lookup (eval.c), as far as imports are concerned:
    what a plain symbol resolves to INSIDE user code that an exported sc-macro-transformer /
    er-macro-transformer macro closed with (make-syntactic-closure env free-names form).
    The imported bindings of a program or library live in the [renames] of its environment frames
    (Env.env_import); closing user code COPIES those frames (sexp_extend_synclo_env), so the copy must
    keep the rename entries.  Keys are plain symbols: renamed identifiers (syntactic closures used as
    keys, eval.c:113-118) belong to C07.  No proofs in this file. *)
From Coq Require Import String List Bool.
From ChibiV Require Import C14.Spec C14.Env.
Import ListNotations.
Local Open Scope string_scope.

(** sexp_context_fv(ctx): a list mixing free NAMES and, after each group of names, the ENVIRONMENT
    they are to be looked up in (eval.c:1218-1223) *)
Inductive fv_entry : Type :=
| FvName (n : string)
| FvEnv (e : env).

(** the part of a compile context lookup depends on: sexp_context_env, sexp_context_fv *)
Record cctx := { c_env : env; c_fv : list fv_entry }.

(** sexp_memq(ctx, sexp_id_name(key), sexp_context_fv(ctx)) (eval.c:106): the tail starting at the
    first entry eq? to the symbol (an environment entry is never eq? to a symbol) *)
Fixpoint fv_memq (k : string) (fv : list fv_entry) : option (list fv_entry) :=
  match fv with
  | [] => None
  | FvName n :: r => if String.eqb k n then Some fv else fv_memq k r
  | FvEnv _ :: r => fv_memq k r
  end.

(** eval.c:107-111: for ( ; pairp(ls); ls=cdr(ls)) if (envp(car(ls))) { env = car(ls); break; } *)
Fixpoint first_env (ls : list fv_entry) : option env :=
  match ls with
  | [] => None
  | FvEnv e :: _ => Some e
  | FvName _ :: r => first_env r
  end.

(** eval.c:105-112 sexp_env_cell_loc (ctx, env = sexp_context_env(ctx), key a plain symbol, localp 0):
    a free name of an enclosing closure is looked up in the environment recorded after it in the fv
    list, every other key in the context's environment *)
Definition ctx_cell (c : cctx) (k : string) : option loc :=
  let e := match fv_memq k (c_fv c) with
           | Some ls => match first_env ls with Some e' => e' | None => c_env c end
           | None => c_env c
           end in
  env_cell e k.

(** eval.c:105-119 sexp_env_cell_loc when the closed form is ITSELF an identifier: the key is the closure
    (environment E, free names, symbol k), looked up in context c (the place in the macro template
    where the closure stands).  The closure object is eq? to no key of any frame; then, unless k is a
    free name of an enclosing closure (pairp(ls)) or of this closure, the lookup moves to E (the
    original frames, not copies); if nothing is found at compile time, vm.c:1527-1537 GLOBAL_REF looks
    k up in E once more at run time (sexp_env_cell with the run-time context: no fv list) *)
Definition ident_cell (c : cctx) (E : env) (free : list string) (k : string) : option loc :=
  let compile_time :=
    match fv_memq k (c_fv c) with
    | Some ls => env_cell (match first_env ls with Some e' => e' | None => c_env c end) k
    | None => if existsb (String.eqb k) free then env_cell (c_env c) k else env_cell E k
    end in
  match compile_time with Some cell => Some cell | None => env_cell E k end.

(** eval.c:242-248, one iteration of the copy loop: a fresh env object (immutable flag 0) that SHARES
    the bindings list and the renames list of the frame it copies (syntactic_p = 1 matters to
    define only, which is outside this model) *)
Definition copy_frame (f : frame) : frame :=
  {| f_renames := f_renames f; f_bindings := f_bindings f; f_immutable := false |}.

(** eval.c:235-255 sexp_extend_synclo_env (ctx, env): with no free names anywhere in the context the
    closure's environment is used as it is; otherwise every frame of it is copied and the context's
    current environment becomes the parent of the last copy ([e] is never empty in chibi: for the
    NULL environment the C code returns the out-of-memory error object) *)
Definition extend_synclo_env (fv : list fv_entry) (cenv e : env) : env :=
  match fv with
  | [] => e
  | _ :: _ => (map copy_frame e ++ cenv)%list
  end.

(** eval.c:1216-1226 analyze, the sexp_synclop(x) case: child context; if the closure has free names
    the current environment is pushed on the fv list and the names are put in front of it; the
    closure's environment is extended as above and the closed form analysed in the new context *)
Definition enter_synclo (c : cctx) (e : env) (free : list string) : cctx :=
  let fv' := match free with
             | [] => c_fv c
             | _ :: _ => (map FvName free ++ FvEnv (c_env c) :: c_fv c)%list
             end in
  {| c_env := extend_synclo_env fv' (c_env c) e; c_fv := fv' |}.

(** analyze_lambda (a let in a macro template is ((lambda (v ...) body) init ...)): a new frame
    holding the parameters' cells, on top of the context's environment; the fv list is inherited
    (sexp_make_child_context, eval.c:590) *)
Definition bind_local (c : cctx) (vars : list (string * loc)) : cctx :=
  {| c_env := {| f_renames := []; f_bindings := vars; f_immutable := false |} :: c_env c; c_fv := c_fv c |}.

(** ** the macros of the correspondence check, as context transformers.
    [WSc M free locals]: a macro defined in environment M by
      (sc-macro-transformer (lambda (form env)
         `(let ((v init) ...) ... ,(make-syntactic-closure env 'free user-form) ...)))
    lib/init-7.scm sc-macro-transformer closes the transformer's result in M with no free names; the
    template's let binds [locals]; the user form is closed in the environment of the macro use, which
    is the context's environment at that point.
    [WEr]: (er-macro-transformer (lambda (form rename compare) `(,(rename 'let) ((,(rename 'tmp) 1)) ,user-form)))
    the user form is inserted bare; the only binding around it has a renamed identifier as key, which
    no symbol is eq? to: a frame without symbol keys. *)
Inductive wrapper : Type :=
| WSc (M : env) (free : list string) (locals : list (string * loc))
| WEr.

Definition wrap1 (w : wrapper) (c : cctx) : cctx :=
  match w with
  | WSc M free locals =>
      let use_env := c_env c in
      let c1 := enter_synclo c M [] in
      let c2 := match locals with [] => c1 | _ :: _ => bind_local c1 locals end in
      enter_synclo c2 use_env free
  | WEr => bind_local c []
  end.

(** outermost wrapper first *)
Fixpoint wrap_ctx (ws : list wrapper) (c : cctx) : cctx :=
  match ws with
  | [] => c
  | w :: r => wrap_ctx r (wrap1 w c)
  end.

Definition top_ctx (e : env) : cctx := {| c_env := e; c_fv := [] |}.

(** ** environments of a generated library graph (the cells are the definitions: location
    [def_loc j d] = definition number d of library number j; location 0 = a macro template's local) *)
Definition stride := 64.
Definition def_loc (j d : nat) : loc := S (j * stride + d).
Definition local_loc : loc := 0.

Fixpoint def_cells (j d : nat) (defs : list name) (acc : list (string * loc)) : list (string * loc) :=
  match defs with
  | [] => acc
  | n :: r => def_cells j (S d) r ((n, def_loc j d) :: acc)     (* sexp_env_push: newest first *)
  end.

Fixpoint lookup_env (l : libname) (es : list (libname * env)) : option env :=
  match es with
  | [] => None
  | (l', e) :: r => if libname_eqb l l' then Some e else lookup_env l r
  end.

(** lib/meta-7.scm resolve-module-imports + %import: one sexp_env_import_op per import set, in order *)
Definition import_all (W : world) (es : list (libname * env)) (is : list iset) (to : env) : env :=
  fold_left (fun to i =>
               match denote W i, lookup_env (lib_of i) es with
               | Some ids, Some from => env_import to from (Some ids) true
               | _, _ => to
               end) is to.

(** eval-module: imports first, then the body's definitions go into the (empty) innermost frame *)
Definition lib_env (W : world) (es : list (libname * env)) (j : nat) (d : libdef) : env :=
  match import_all W es (ld_imports d) [empty_frame] with
  | f :: rest => {| f_renames := f_renames f; f_bindings := def_cells j 0 (ld_defs d) (f_bindings f);
                    f_immutable := f_immutable f |} :: rest
  | [] => []
  end.

Fixpoint graph_envs (W : world) (g : list libdef) (j : nat) (es : list (libname * env)) : list (libname * env) :=
  match g with
  | [] => es
  | d :: r => graph_envs W r (S j) ((ld_name d, lib_env W es j d) :: es)
  end.

Definition program_env (g : list libdef) (is : list iset) : env :=
  import_all (world_of g) (graph_envs (world_of g) g 0 []) is [empty_frame].

(** wrapper descriptions as the check passes them: the library whose body defines the macro *)
Inductive wdesc : Type :=
| DSc (l : libname) (free : list string) (locals : list string)
| DEr.

Definition wrapper_of (es : list (libname * env)) (w : wdesc) : wrapper :=
  match w with
  | DSc l free locals =>
      WSc (match lookup_env l es with Some e => e | None => [] end) free (map (fun v => (v, local_loc)) locals)
  | DEr => WEr
  end.

(** the cell a plain symbol resolves to in user code written at the position of the innermost
    wrapper's user form, in a program importing [is] *)
Definition closed_probe (g : list libdef) (is : list iset) (ws : list wdesc) (n : name) : option loc :=
  let es := graph_envs (world_of g) g 0 [] in
  ctx_cell (wrap_ctx (map (wrapper_of es) ws) (top_ctx (program_env g is))) n.
