(** C14 — the code translated from lib/meta-7.scm (Gen/C14_ImportCode.v) refines the SPEC. *)
From Coq Require Import String List Bool Arith Lia.
From ChibiV Require Import C14.Sx C14.World C14.Spec C14.Encode C14.SpecProofs Gen.C14_ImportCode.
Import ListNotations.
Local Open Scope string_scope.
Unset Lia Cache.

Lemma is_list_list_sx l : is_list (list_sx l) = true.
Proof. induction l as [|a r IH]; cbn [list_sx is_list]; auto. Qed.

Lemma sx_eqb_enc_lib a b : sx_eqb (enc_lib a) (enc_lib b) = libname_eqb a b.
Proof.
  unfold enc_lib. revert b. induction a as [|x a IH]; intros [|y b]; cbn [map list_sx sx_eqb libname_eqb]; try reflexivity.
  rewrite IH. reflexivity.
Qed.

Lemma abs_id_enc_id q : abs_id (enc_id q) = Some q.
Proof.
  destruct q as [n m]. unfold enc_id. cbn [fst snd]. destruct (String.eqb n m) eqn:E; cbn [abs_id]; [|reflexivity].
  apply String.eqb_eq in E. subst. reflexivity.
Qed.

Lemma abs_ids_enc_exports ex : abs_ids (enc_exports ex) = Some ex.
Proof.
  unfold enc_exports. induction ex as [|q r IH]; cbn [map list_sx abs_ids]; [reflexivity|].
  rewrite abs_id_enc_id, IH. reflexivity.
Qed.

Lemma w_assoc_enc_world W l :
  w_assoc (enc_lib l) (enc_world W) =
  match lookup_lib W l with Some ex => Ok (Pair (enc_exports ex) Nil) | None => Ok (Bool false) end.
Proof.
  unfold enc_world. induction W as [|[k ex] W IH]; cbn [map list_sx w_assoc lookup_lib fst snd]; [reflexivity|].
  rewrite sx_eqb_enc_lib. destruct (libname_eqb l k); [reflexivity | exact IH].
Qed.

Lemma abs_ids_truthy v l : abs_ids v = Some l -> truthy v = true.
Proof. destruct v; cbn [abs_ids truthy]; try discriminate; reflexivity. Qed.

Lemma not_mod_eqb s : ~ In s modifiers ->
  String.eqb s "only" = false /\ String.eqb s "except" = false /\ String.eqb s "rename" = false /\
  String.eqb s "prefix" = false /\ String.eqb s "drop-prefix" = false.
Proof.
  intro H. unfold modifiers in H. cbn [In] in H.
  repeat split; apply String.eqb_neq; intro E; apply H; subst; tauto.
Qed.

Ltac step := cbn [bind truthy negb p_car p_cdr p_cadr p_cddr p_caar p_cdar p_caddr p_cons p_pair_p p_null_p p_symbol_p
                      p_list_p p_not p_eq_p p_memq case_mem sx_eqb is_list orb andb
                      String.eqb Ascii.eqb Bool.eqb p_error].

Lemma resolve_lib f W l : l <> [] -> ~ In (hd "" l) modifiers ->
  resolve_import (S f) (enc_world W) (enc_lib l) =
  match lookup_lib W l with
  | Some ex => Ok (Pair (enc_lib l) (enc_exports ex))
  | None => Err (SchemeError "couldn't find import")
  end.
Proof.
  intros Hne Hm. destruct l as [|s r]; [congruence|]. cbn [hd] in Hm.
  destruct (not_mod_eqb s Hm) as (E1 & E2 & E3 & E4 & E5).
  assert (HW := w_assoc_enc_world W (s :: r)).
  unfold enc_lib in *. destruct r as [|s2 r]; cbn [map list_sx] in *; cbn [resolve_import];
  step; rewrite ?is_list_list_sx; step; rewrite E4, E5; step; unfold w_find_module; rewrite HW;
  (destruct (lookup_lib W _) as [ex|]; step; reflexivity).
Qed.

Lemma enc_shape i : wf_iset i -> exists a d, enc i = Pair a d /\ is_list d = true.
Proof.
  destruct i as [l|i ids|i ids|i prs|i p|i p]; cbn [enc wf_iset]; intro H.
  - destruct H as [H _]. destruct l as [|s r]; [congruence|]. unfold enc_lib. cbn [map list_sx].
    eexists _, _. split; [reflexivity | apply is_list_list_sx].
  - eexists _, _. split; [reflexivity|]. cbn [is_list]. apply is_list_list_sx.
  - eexists _, _. split; [reflexivity|]. cbn [is_list]. apply is_list_list_sx.
  - eexists _, _. split; [reflexivity|]. cbn [is_list]. apply is_list_list_sx.
  - eexists _, _. split; reflexivity.
  - eexists _, _. split; reflexivity.
Qed.

(** an error of the inner import set propagates through every modifier *)
Lemma resolve_err_prop f W' kw a d rest e0 :
  In kw modifiers -> is_list d = true -> is_list rest = true ->
  (kw = "prefix" \/ kw = "drop-prefix" -> exists p, rest = Pair (Sym p) Nil) ->
  resolve_import f W' (Pair a d) = Err e0 ->
  resolve_import (S f) W' (Pair (Sym kw) (Pair (Pair a d) rest)) = Err e0.
Proof.
  intros Hkw Hd Hrest Hp Hin. unfold modifiers in Hkw. cbn [In] in Hkw.
  destruct Hkw as [<-|[<-|[<-|[<-|[<-|[]]]]]].
  - cbn [resolve_import]. step. rewrite Hrest. step. rewrite Hin. reflexivity.
  - cbn [resolve_import]. step. rewrite Hrest. step. rewrite Hin. reflexivity.
  - cbn [resolve_import]. step. rewrite Hrest. step. rewrite Hin. reflexivity.
  - destruct Hp as [p ->]; [left; reflexivity|]. cbn [resolve_import]. step. rewrite Hd. step. rewrite Hin. reflexivity.
  - destruct Hp as [p ->]; [right; reflexivity|]. cbn [resolve_import]. step. rewrite Hd. step. rewrite Hin. reflexivity.
Qed.

(** ** ids: symbols or (to . from) pairs *)
Lemma abs_id_cases v q : abs_id v = Some q ->
  (v = Sym (fst q) /\ fst q = snd q) \/ v = Pair (Sym (fst q)) (Sym (snd q)).
Proof.
  destruct v as [| s | | | | |a d]; cbn [abs_id]; try discriminate.
  - intros [= <-]. left. split; reflexivity.
  - destruct a; try discriminate. destruct d; try discriminate. intros [= <-]. right. reflexivity.
Qed.

Lemma to_id_abs W' v q : abs_id v = Some q -> to_id W' v = Ok (Sym (fst q)).
Proof. intro H. destruct (abs_id_cases _ _ H) as [[-> _]| ->]; reflexivity. Qed.

Lemma from_id_abs W' v q : abs_id v = Some q -> from_id W' v = Ok (Sym (snd q)).
Proof. intro H. destruct (abs_id_cases _ _ H) as [[-> E]| ->]; [rewrite <- E|]; reflexivity. Qed.

Lemma p_map_abs F (g : name * name -> name * name) : 
  (forall v q, abs_id v = Some q -> exists v', F v = Ok v' /\ abs_id v' = Some (g q)) ->
  forall ids l, abs_ids ids = Some l -> exists ids', p_map F ids = Ok ids' /\ abs_ids ids' = Some (map g l).
Proof.
  intros HF. induction ids as [| | | | | |a _ d IH]; cbn [abs_ids]; intros l H; try discriminate.
  - injection H as <-. exists Nil. split; reflexivity.
  - destruct (abs_id a) as [q|] eqn:Ea; [|discriminate]. destruct (abs_ids d) as [l'|] eqn:Ed; [|discriminate].
    injection H as <-. destruct (HF a q Ea) as [v' [Hv1 Hv2]]. destruct (IH l' eq_refl) as [d' [Hd1 Hd2]].
    exists (Pair v' d'). cbn [p_map]. rewrite Hv1. cbn [bind]. rewrite Hd1. cbn [bind abs_ids map]. rewrite Hv2, Hd2.
    split; reflexivity.
Qed.

Lemma symbol_append_sym W' p a : symbol_append W' (Sym p) (Sym a) = Ok (Sym (p ++ a)).
Proof. reflexivity. Qed.

Lemma symbol_drop_sym W' p a : symbol_drop W' (Sym p) (Sym a) = Ok (Sym (drop_prefix p a)).
Proof.
  unfold symbol_drop, drop_prefix.
  cbn [bind p_symbol_to_string p_string_length p_gt num2 truthy].
  replace (Z.gtb (Z.of_nat (String.length a)) (Z.of_nat (String.length p))) with (Nat.ltb (String.length p) (String.length a)).
  2:{ destruct (Nat.ltb (String.length p) (String.length a)) eqn:E.
      - apply Nat.ltb_lt in E. symmetry. apply Z.gtb_lt. lia.
      - apply Nat.ltb_ge in E. symmetry. rewrite Z.gtb_ltb. apply Z.ltb_ge. lia. }
  destruct (Nat.ltb (String.length p) (String.length a)) eqn:E; cbn [truthy andb bind]; [|reflexivity].
  apply Nat.ltb_lt in E.
  unfold p_substring3.
  replace ((0 <=? 0)%Z && (0 <=? Z.of_nat (String.length p))%Z && (Z.of_nat (String.length p) <=? Z.of_nat (String.length a))%Z) with true.
  2:{ symmetry. rewrite !andb_true_iff. repeat split; apply Z.leb_le; lia. }
  cbn [bind p_string_eq]. rewrite Z.sub_0_r, Nat2Z.id. cbn [Z.to_nat].
  destruct (String.eqb p (substring 0 (String.length p) a)) eqn:E2; cbn [truthy bind]; [|reflexivity].
  unfold p_substring2, p_substring3.
  replace ((0 <=? Z.of_nat (String.length p))%Z && (Z.of_nat (String.length p) <=? Z.of_nat (String.length a))%Z
           && (Z.of_nat (String.length a) <=? Z.of_nat (String.length a))%Z) with true.
  2:{ symmetry. rewrite !andb_true_iff. repeat split; apply Z.leb_le; lia. }
  cbn [bind p_string_to_symbol]. rewrite Nat2Z.id, <- Nat2Z.inj_sub, Nat2Z.id by lia. reflexivity.
Qed.

Lemma resolve_prefix_ok f W' a d p L ids l :
  is_list d = true -> resolve_import f W' (Pair a d) = Ok (Pair L ids) -> abs_ids ids = Some l ->
  exists ids', resolve_import (S f) W' (Pair (Sym "prefix") (Pair (Pair a d) (Pair (Sym p) Nil))) = Ok (Pair L ids')
               /\ abs_ids ids' = Some (map (fun q => (p ++ fst q, snd q)) l).
Proof.
  intros Hd Hin Hl. cbn [resolve_import]. step. rewrite Hd. step. rewrite Hin. step.
  rewrite (abs_ids_truthy _ _ Hl). step.
  match goal with |- context [p_map ?F ids] => destruct (p_map_abs F (fun q => (p ++ fst q, snd q))) with (ids := ids) (l := l) as [ids' [H1 H2]] end.
  - intros v q Hq. rewrite (to_id_abs _ _ _ Hq), (from_id_abs _ _ _ Hq). step. rewrite symbol_append_sym. step.
    eexists. split; reflexivity.
  - exact Hl.
  - rewrite H1. step. exists ids'. split; [reflexivity | exact H2].
Qed.

Lemma resolve_drop_ok f W' a d p L ids l :
  is_list d = true -> resolve_import f W' (Pair a d) = Ok (Pair L ids) -> abs_ids ids = Some l ->
  exists ids', resolve_import (S f) W' (Pair (Sym "drop-prefix") (Pair (Pair a d) (Pair (Sym p) Nil))) = Ok (Pair L ids')
               /\ abs_ids ids' = Some (map (fun q => (drop_prefix p (fst q), snd q)) l).
Proof.
  intros Hd Hin Hl. cbn [resolve_import]. step. rewrite Hd. step. rewrite Hin. step.
  rewrite (abs_ids_truthy _ _ Hl). step.
  match goal with |- context [p_map ?F ids] => destruct (p_map_abs F (fun q => (drop_prefix p (fst q), snd q))) with (ids := ids) (l := l) as [ids' [H1 H2]] end.
  - intros v q Hq. rewrite (to_id_abs _ _ _ Hq), (from_id_abs _ _ _ Hq). step. rewrite symbol_drop_sym. step.
    eexists. split; reflexivity.
  - exact Hl.
  - rewrite H1. step. exists ids'. split; [reflexivity | exact H2].
Qed.

(** (rename ...): assq of the visible name in the list of (from to) lists *)
Lemma p_assq_enc_pairs n prs :
  p_assq (Sym n) (list_sx (map enc_pair prs)) =
  Ok (match find (fun pr => String.eqb n (fst pr)) prs with Some pr => enc_pair pr | None => Bool false end).
Proof.
  induction prs as [|[x y] r IH]; cbn [map list_sx p_assq find enc_pair fst snd]; [reflexivity|].
  cbn [p_eq_p bind]. destruct (String.eqb n x); cbn [truthy]; [reflexivity | exact IH].
Qed.

Lemma rename_of_find prs n :
  rename_of prs n = match find (fun pr => String.eqb n (fst pr)) prs with Some pr => snd pr | None => n end.
Proof.
  induction prs as [|[x y] r IH]; cbn [rename_of find fst snd]; [reflexivity|].
  destruct (String.eqb n x); [reflexivity | exact IH].
Qed.

Lemma resolve_rename_ok f W' a d prs L ids l :
  is_list d = true -> resolve_import f W' (Pair a d) = Ok (Pair L ids) -> abs_ids ids = Some l ->
  exists ids', resolve_import (S f) W' (Pair (Sym "rename") (Pair (Pair a d) (list_sx (map enc_pair prs)))) = Ok (Pair L ids')
               /\ abs_ids ids' = Some (map (fun q => (rename_of prs (fst q), snd q)) l).
Proof.
  intros Hd Hin Hl. cbn [resolve_import]. step. rewrite is_list_list_sx. step. rewrite Hin. step.
  rewrite (abs_ids_truthy _ _ Hl). step.
  match goal with |- context [p_map ?F ids] => destruct (p_map_abs F (fun q => (rename_of prs (fst q), snd q))) with (ids := ids) (l := l) as [ids' [H1 H2]] end.
  - intros v q Hq. rewrite (to_id_abs _ _ _ Hq). step. rewrite p_assq_enc_pairs. step. rewrite rename_of_find.
    destruct (find (fun pr => String.eqb (fst q) (fst pr)) prs) as [[x y]|]; cbn [enc_pair truthy fst snd]; step.
    + rewrite (from_id_abs _ _ _ Hq). step. eexists. split; reflexivity.
    + exists v. split; [reflexivity|]. rewrite Hq. destruct q; reflexivity.
  - exact Hl.
  - rewrite H1. step. exists ids'. split; [reflexivity | exact H2].
Qed.

Lemma p_memq_syms n ids : exists t, p_memq (Sym n) (list_sx (map Sym ids)) = Ok t /\ truthy t = mem n ids.
Proof.
  induction ids as [|x r IH]; cbn [map list_sx p_memq mem].
  - exists (Bool false). split; reflexivity.
  - cbn [p_eq_p bind]. destruct (String.eqb n x); cbn [truthy orb].
    + eexists. split; reflexivity.
    + exact IH.
Qed.

Lemma id_filter_abs W' P (g : name -> bool) :
  (forall n, exists t, P (Sym n) = Ok t /\ truthy t = g n) ->
  forall ids l f, abs_ids ids = Some l -> length l < f ->
  exists ids', id_filter f W' P ids = Ok ids' /\ abs_ids ids' = Some (filter (fun q => g (fst q)) l).
Proof.
  intros HP. induction ids as [| | | | | |a _ d IH]; cbn [abs_ids]; intros l f H Hf; try discriminate.
  - injection H as <-. destruct f as [|f]; [cbn [length] in Hf; lia|]. exists Nil. split; reflexivity.
  - destruct (abs_id a) as [q|] eqn:Ea; [|discriminate]. destruct (abs_ids d) as [l'|] eqn:Ed; [|discriminate].
    injection H as <-. cbn [length] in Hf. destruct f as [|f]; [lia|].
    destruct (IH l' f eq_refl ltac:(lia)) as [d' [Hd1 Hd2]].
    destruct (HP (fst q)) as [t [Ht1 Ht2]].
    cbn [id_filter]. step. rewrite (to_id_abs _ _ _ Ea). step. rewrite Ht1. step. rewrite Ht2. cbn [filter].
    destruct (g (fst q)); rewrite Hd1; step.
    + eexists. split; [reflexivity|]. cbn [abs_ids]. rewrite Ea, Hd2. reflexivity.
    + exists d'. split; [reflexivity | exact Hd2].
Qed.

Lemma resolve_except_ok f W' a d exids L ids l :
  is_list d = true -> resolve_import f W' (Pair a d) = Ok (Pair L ids) -> abs_ids ids = Some l -> length l < f ->
  exists ids', resolve_import (S f) W' (Pair (Sym "except") (Pair (Pair a d) (list_sx (map Sym exids)))) = Ok (Pair L ids')
               /\ abs_ids ids' = Some (filter (fun q => negb (mem (fst q) exids)) l).
Proof.
  intros Hd Hin Hl Hf. cbn [resolve_import]. step. rewrite is_list_list_sx. step. rewrite Hin. step.
  rewrite (abs_ids_truthy _ _ Hl). step.
  match goal with |- context [id_filter f W' ?P ids] =>
    destruct (id_filter_abs W' P (fun n => negb (mem n exids))) with (ids := ids) (l := l) (f := f) as [ids' [H1 H2]] end.
  - intro n. destruct (p_memq_syms n exids) as [t [Ht1 Ht2]]. rewrite Ht1. step. eexists. split; [reflexivity|].
    cbn [truthy]. rewrite Ht2. destruct (mem n exids); reflexivity.
  - exact Hl.
  - exact Hf.
  - rewrite H1. step. exists ids'. split; [reflexivity | exact H2].
Qed.

Lemma abs_id_truthy v q : abs_id v = Some q -> truthy v = true.
Proof. destruct v; cbn [abs_id truthy]; try discriminate; reflexivity. Qed.

Lemma abs_ids_not_boolean v l : abs_ids v = Some l -> p_boolean_p v = Ok (Bool false).
Proof. destruct v; cbn [abs_ids]; try discriminate; reflexivity. Qed.

Lemma p_find_abs F n ids l :
  (forall v q, abs_id v = Some q -> F v = Ok (Bool (String.eqb n (fst q)))) -> abs_ids ids = Some l ->
  exists r, p_find F ids = Ok r /\
            match assoc_first n l with Some q => abs_id r = Some q | None => r = Bool false end.
Proof.
  intro HF. revert l. induction ids as [| | | | | |a _ d IH]; cbn [abs_ids]; intros l H; try discriminate.
  - injection H as <-. exists (Bool false). split; reflexivity.
  - destruct (abs_id a) as [[x y]|] eqn:Ea; [|discriminate]. destruct (abs_ids d) as [l'|] eqn:Ed; [|discriminate].
    injection H as <-. cbn [p_find assoc_first]. rewrite (HF _ _ Ea). cbn [fst bind].
    destruct (String.eqb n x); cbn [truthy].
    + exists a. split; [reflexivity | exact Ea].
    + exact (IH l' eq_refl).
Qed.

Lemma p_map_only F l :
  (forall n, match assoc_first n l with
             | Some q => exists v, F (Sym n) = Ok v /\ abs_id v = Some q
             | None => exists msg, F (Sym n) = Err (SchemeError msg)
             end) ->
  forall oids, match only_list l oids with
               | Some l' => exists ids', p_map F (list_sx (map Sym oids)) = Ok ids' /\ abs_ids ids' = Some l'
               | None => exists msg, p_map F (list_sx (map Sym oids)) = Err (SchemeError msg)
               end.
Proof.
  intros HF. induction oids as [|n r IH]; cbn [only_list map list_sx p_map].
  - exists Nil. split; reflexivity.
  - specialize (HF n). destruct (assoc_first n l) as [q|].
    + destruct HF as [v [Hv1 Hv2]]. rewrite Hv1. cbn [bind].
      destruct (only_list l r) as [l'|].
      * destruct IH as [ids' [H1 H2]]. rewrite H1. cbn [bind]. eexists. split; [reflexivity|].
        cbn [abs_ids]. rewrite Hv2, H2. reflexivity.
      * destruct IH as [msg H1]. rewrite H1. cbn [bind]. exists msg. reflexivity.
    + destruct HF as [msg Hm]. rewrite Hm. cbn [bind]. exists msg. reflexivity.
Qed.

Lemma resolve_only_ok f W' a d oids L ids l :
  is_list d = true -> resolve_import f W' (Pair a d) = Ok (Pair L ids) -> abs_ids ids = Some l ->
  match only_list l oids with
  | Some l' => exists ids', resolve_import (S f) W' (Pair (Sym "only") (Pair (Pair a d) (list_sx (map Sym oids)))) = Ok (Pair L ids')
                            /\ abs_ids ids' = Some l'
  | None => exists msg, resolve_import (S f) W' (Pair (Sym "only") (Pair (Pair a d) (list_sx (map Sym oids)))) = Err (SchemeError msg)
  end.
Proof.
  intros Hd Hin Hl. cbn [resolve_import]. step. rewrite is_list_list_sx. step. rewrite Hin. step.
  rewrite (abs_ids_truthy _ _ Hl). step.
  match goal with |- context [p_map ?F (list_sx (map Sym oids))] => assert (HO := p_map_only F l) end.
  lapply HO; [clear HO; intro HO|].
  - specialize (HO oids). destruct (only_list l oids) as [l'|].
    + destruct HO as [ids' [H1 H2]]. rewrite H1. step. exists ids'. split; [reflexivity | exact H2].
    + destruct HO as [msg H1]. rewrite H1. step. exists msg. reflexivity.
  - intro n. rewrite (abs_ids_not_boolean _ _ Hl). step.
    match goal with |- context [p_find ?G ids] => destruct (p_find_abs G n ids l) as [r [Hr1 Hr2]] end.
    { intros v q Hq. rewrite (to_id_abs _ _ _ Hq). reflexivity. }
    { exact Hl. }
    rewrite Hr1. step.
    destruct (assoc_first n l) as [q|].
    + rewrite (abs_id_truthy _ _ Hr2). exists r. split; [reflexivity | exact Hr2].
    + subst r. step. eexists. reflexivity.
Qed.

(** ** fuel *)
Lemma filter_len {A} (g : A -> bool) l : length (filter g l) <= length l.
Proof. induction l as [|x r IH]; cbn [filter length]; [lia|]. destruct (g x); cbn [length]; lia. Qed.

Lemma lookup_len W l ex : lookup_lib W l = Some ex -> length ex <= max_exports W.
Proof.
  unfold max_exports. induction W as [|[k e] W IH]; cbn [lookup_lib map fold_right snd]; [discriminate|].
  destruct (libname_eqb l k).
  - intros [= <-]. lia.
  - intro H. specialize (IH H). lia.
Qed.

Lemma denote_length W i : forall l, denote W i = Some l -> length l <= max_exports W + isize i.
Proof.
  induction i as [lb|i IH ids|i IH ids|i IH prs|i IH p|i IH p]; cbn [denote isize]; intros l H.
  - apply lookup_len in H. lia.
  - destruct (denote W i) as [s|]; [|discriminate]. apply only_list_length in H. lia.
  - destruct (denote W i) as [s|]; [|discriminate]. injection H as <-. specialize (IH s eq_refl).
    pose proof (filter_len (fun q => negb (mem (fst q) ids)) s). lia.
  - destruct (denote W i) as [s|]; [|discriminate]. injection H as <-. rewrite map_length. specialize (IH s eq_refl). lia.
  - destruct (denote W i) as [s|]; [|discriminate]. injection H as <-. rewrite map_length. specialize (IH s eq_refl). eapply Nat.le_trans; [exact IH|]. apply Nat.add_le_mono_l. apply Nat.le_succ_diag_r.
  - destruct (denote W i) as [s|]; [|discriminate]. injection H as <-. rewrite map_length. specialize (IH s eq_refl). eapply Nat.le_trans; [exact IH|]. apply Nat.add_le_mono_l. apply Nat.le_succ_diag_r.
Qed.

(** ** the translated %resolve-import computes [denote], at any nesting depth *)
Definition refines (f : nat) (W : world) (i : iset) : Prop :=
  match denote W i with
  | Some l => exists ids, resolve_import f (enc_world W) (enc i) = Ok (Pair (enc_lib (lib_of i)) ids) /\ abs_ids ids = Some l
  | None => exists msg, resolve_import f (enc_world W) (enc i) = Err (SchemeError msg)
  end.

Theorem resolve_refines_denote W i : wf_iset i -> forall f, isize i + max_exports W < f -> refines f W i.
Proof.
  induction i as [lb|i IH ids|i IH ids|i IH prs|i IH p|i IH p]; cbn [wf_iset isize]; intros Hwf f Hf;
    (destruct f as [|f]; [lia|]); unfold refines; cbn [denote enc lib_of].
  - destruct Hwf as [H1 H2]. rewrite (resolve_lib f W lb H1 H2).
    destruct (lookup_lib W lb) as [ex|].
    + exists (enc_exports ex). split; [reflexivity | apply abs_ids_enc_exports].
    + eexists. reflexivity.
  - specialize (IH Hwf f ltac:(lia)). unfold refines in IH.
    destruct (enc_shape i Hwf) as [a [d [He Hd]]]. rewrite He in *.
    destruct (denote W i) as [l|].
    + destruct IH as [ids0 [H1 H2]]. exact (resolve_only_ok f _ a d ids _ ids0 l Hd H1 H2).
    + destruct IH as [msg H1]. exists msg. apply resolve_err_prop; auto.
      * unfold modifiers; cbn [In]; tauto.
      * apply is_list_list_sx.
      * intros [E|E]; discriminate.
  - specialize (IH Hwf f ltac:(lia)). unfold refines in IH.
    destruct (enc_shape i Hwf) as [a [d [He Hd]]]. rewrite He in *.
    destruct (denote W i) as [l|] eqn:El; cbn [option_map].
    + destruct IH as [ids0 [H1 H2]]. apply (resolve_except_ok f _ a d ids _ ids0 l Hd H1 H2).
      pose proof (denote_length W i l El). lia.
    + destruct IH as [msg H1]. exists msg. apply resolve_err_prop; auto.
      * unfold modifiers; cbn [In]; tauto.
      * apply is_list_list_sx.
      * intros [E|E]; discriminate.
  - specialize (IH Hwf f ltac:(lia)). unfold refines in IH.
    destruct (enc_shape i Hwf) as [a [d [He Hd]]]. rewrite He in *.
    destruct (denote W i) as [l|]; cbn [option_map].
    + destruct IH as [ids0 [H1 H2]]. exact (resolve_rename_ok f _ a d prs _ ids0 l Hd H1 H2).
    + destruct IH as [msg H1]. exists msg. apply resolve_err_prop; auto.
      * unfold modifiers; cbn [In]; tauto.
      * apply is_list_list_sx.
      * intros [E|E]; discriminate.
  - specialize (IH Hwf f ltac:(lia)). unfold refines in IH.
    destruct (enc_shape i Hwf) as [a [d [He Hd]]]. rewrite He in *.
    destruct (denote W i) as [l|]; cbn [option_map].
    + destruct IH as [ids0 [H1 H2]]. exact (resolve_prefix_ok f _ a d p _ ids0 l Hd H1 H2).
    + destruct IH as [msg H1]. exists msg. apply resolve_err_prop; auto.
      * unfold modifiers; cbn [In]; tauto.
      * intros _. eexists. reflexivity.
  - specialize (IH Hwf f ltac:(lia)). unfold refines in IH.
    destruct (enc_shape i Hwf) as [a [d [He Hd]]]. rewrite He in *.
    destruct (denote W i) as [l|]; cbn [option_map].
    + destruct IH as [ids0 [H1 H2]]. exact (resolve_drop_ok f _ a d p _ ids0 l Hd H1 H2).
    + destruct IH as [msg H1]. exists msg. apply resolve_err_prop; auto.
      * unfold modifiers; cbn [In]; tauto.
      * intros _. eexists. reflexivity.
Qed.

(** ** the export list rewriting of define-library (translated from the library wrapper, meta-7.scm:322-329):
    (rename internal external) becomes (external . internal), a plain name stays *)
Theorem rewrite_export_spec W' e :
  exists v, rewrite_export W' (enc_espec e) = Ok v /\ abs_id v = Some (espec_pair e).
Proof.
  destruct e as [n|a b]; cbn [enc_espec espec_pair].
  - exists (Sym n). split; reflexivity.
  - exists (Pair (Sym b) (Sym a)). split; reflexivity.
Qed.

Example rewrite_export_rejects : rewrite_export Nil (list_sx [Sym "rename"; Sym "a"]) = Err (SchemeError "invalid module export").
Proof. reflexivity. Qed.
