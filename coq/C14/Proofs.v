(** C14 — property-level theorems about the code translated from lib/meta-7.scm. *)
From Coq Require Import String List Bool Arith Lia.
From ChibiV Require Import C14.Sx C14.World C14.Spec C14.Encode C14.SpecProofs Gen.C14_ImportCode C14.Refine.
Import ListNotations.
Local Open Scope string_scope.

(** The translated %resolve-import, on the S-expression of ANY import set (any nesting of
    only/except/rename/prefix/drop-prefix) that chibi does not reject, returns the library name and
    an id list whose (visible . internal) pairs are exactly R7RS's import set:
    - sound: every listed pair is in the relation (right name, the exporting library's binding),
    - complete on names: every visible name of the relation is listed,
    - exact when the import set does not bind one name twice (where R7RS says "it is an error").
    What must not change: the library named innermost is returned unchanged ([lib_of]). *)
Theorem resolve_import_refines_spec_proof W i f :
  wf_iset i -> isize i + max_exports W < f -> chibi_ok W i ->
  exists ids l,
    resolve_import f (enc_world W) (enc i) = Ok (Pair (enc_lib (lib_of i)) ids) /\ abs_ids ids = Some l /\
    (forall n m, In (n, m) l -> denotes W i n m) /\
    (forall n m, denotes W i n m -> exists m', In (n, m') l) /\
    (unambiguous W i -> forall n m, denotes W i n m <-> In (n, m) l).
Proof.
  intros Hwf Hf Hok. pose proof (resolve_refines_denote W i Hwf f Hf) as R. unfold refines in R.
  apply denote_defined_iff in Hok. destruct (denote W i) as [l|] eqn:E; [|congruence].
  destruct R as [ids [H1 H2]]. exists ids, l. split; [exact H1|]. split; [exact H2|].
  split; [intros n m; apply denote_sound; exact E|].
  split; [intros n m; apply denote_names_complete; exact E|].
  intros U n m. symmetry. apply denote_exact; assumption.
Qed.

(** chibi signals an error exactly for an unknown library or an [only] of an identifier that is not in
    the original set; in particular never for an import set that is valid by R7RS. *)
Theorem resolve_import_errors_exactly_proof W i f :
  wf_iset i -> isize i + max_exports W < f ->
  ((exists msg, resolve_import f (enc_world W) (enc i) = Err (SchemeError msg)) <-> ~ chibi_ok W i) /\
  (spec_ok W i -> exists v, resolve_import f (enc_world W) (enc i) = Ok v).
Proof.
  intros Hwf Hf. pose proof (resolve_refines_denote W i Hwf f Hf) as R. unfold refines in R.
  pose proof (denote_defined_iff W i) as D.
  destruct (denote W i) as [l|] eqn:E.
  - destruct R as [ids [H1 H2]]. split.
    + split.
      * intros [msg Hm]. congruence.
      * intro Hn. exfalso. apply Hn. apply D. discriminate.
    + intros _. eexists. exact H1.
  - destruct R as [msg Hm]. split.
    + split.
      * intros _ Hok. apply D in Hok. congruence.
      * intros _. exists msg. exact Hm.
    + intro Hs. apply spec_ok_chibi_ok, D in Hs. congruence.
Qed.

(** non-vacuity: a nested import set over a library with a renamed export *)
Example refines_example :
  let W := [(["v"; "l"], [("a", "a"); ("c", "b")])] in
  let i := IOnly (IPrefix (IRename (ILib ["v"; "l"]) [("a", "z")]) "p:") ["p:c"; "p:z"] in
  wf_iset i /\ chibi_ok W i /\
  resolve_import 20 (enc_world W) (enc i)
  = Ok (Pair (enc_lib ["v"; "l"]) (list_sx [Pair (Sym "p:c") (Sym "b"); Pair (Sym "p:z") (Sym "a")])).
Proof.
  split; [|split].
  - cbn. split; [discriminate|]. intros [H|[H|[H|[H|[H|[]]]]]]; discriminate.
  - apply denote_defined_iff. vm_compute. discriminate.
  - vm_compute. reflexivity.
Qed.

Example error_example :
  let W := [(["v"; "l"], [("a", "a"); ("c", "b")])] in
  resolve_import 20 (enc_world W) (enc (IOnly (ILib ["v"; "l"]) ["b"])) = Err (SchemeError "importing unknown binding").
Proof. vm_compute. reflexivity. Qed.
