(** C14 — identifier comparison (free-identifier=?) over environments with rename cells:
    eval.c sexp_identifier_eq_op, the primitive behind the [compare] of er-macro-transformer and the
    literal matching of syntax-rules (lib/init-7.scm), hence behind the recognition of else => ... _
    unquote in cond, case, guard, syntax-rules, quasiquote.  Keys are plain symbols (an identifier
    renamed by a macro is looked up in the macro's environment under its base name: that step is
    C07's).  No proofs in this file.

    Round 4: the pinned build has SEXP_USE_STRICT_TOPLEVEL_BINDINGS = 1 (include/chibi/features.h:629-631;
    props/C14.py reads the default from the source on every run and fails closed when it changes), so the
    "lenient top-level" clause of sexp_identifier_eq_op (eval.c:686-691) is not compiled in: for plain
    symbols the function compares CELLS, and names only when neither identifier has a cell.
    What the round-3 model got wrong was which cells exist: analyze_var_ref (eval.c:790-797) gives an
    identifier that is referred to before it is defined a cell holding SEXP_UNDEF in the top frame of the
    environment (sexp_env_cell_create).  The pinned code counts that cell as a binding, so a literal [foo]
    of an imported macro stops matching the program's unbound [foo] as soon as the program has mentioned
    the variable foo anywhere (F-C14-3; fixes/C14-identifier-eq-undefined-cell.patch makes such a cell
    count as unbound).  [identifier_eq] models the REPAIRED function, [identifier_eq_pinned] the pinned one. *)
From Coq Require Import String List Bool Arith.
From ChibiV Require Import C14.Spec C14.Env C14.SynClo.
Import ListNotations.
Local Open Scope string_scope.

(** the cell of [id] in [e] unless it is an undefined cell: [undef c] = (sexp_cdr(cell) == SEXP_UNDEF),
    the two lines the fix adds after the lookups *)
Definition live_cell (undef : loc -> bool) (e : env) (id : string) : option loc :=
  match env_cell e id with
  | Some c => if undef c then None else Some c
  | None => None
  end.

(** eval.c sexp_identifier_eq_op (e1, id1, e2, id2), strict build, plain symbols, after the fix:
      cell1 = sexp_env_cell(e1, id1); cell2 = sexp_env_cell(e2, id2);
      if (cell1 && cdr(cell1) == SEXP_UNDEF) cell1 = NULL;  (same for cell2)           -- the fix
      if (cell1 && cell1 == cell2) return #t;                          -- same binding CELL, whatever the two names
      else if (!cell1 && !cell2 && id1 == id2) return #t;               -- both unbound, same name
      [strip syntactic closures: identity on plain symbols]
      if (id1 == id2 && !cell1 && !cell2) return #t;                    -- (the lenient clause is #if'ed out)
      return #f; *)
Definition identifier_eq (undef : loc -> bool) (e1 : env) (id1 : string) (e2 : env) (id2 : string) : bool :=
  match live_cell undef e1 id1, live_cell undef e2 id2 with
  | Some c1, Some c2 => Nat.eqb c1 c2
  | None, None => String.eqb id1 id2
  | _, _ => false
  end.

(** the pinned function: every cell counts, also one that only a reference created *)
Definition identifier_eq_pinned (e1 : env) (id1 : string) (e2 : env) (id2 : string) : bool :=
  identifier_eq (fun _ => false) e1 id1 e2 id2.

(** analyze_var_ref (eval.c:790-797) of an identifier that has no cell, at the top level of a program or
    library (no lambda frame, no syntactic copy on top): sexp_env_cell_create -> sexp_env_cell_define
    (eval.c:138-161) pushes (id . SEXP_UNDEF) on the bindings of the first frame; [fresh] is the new
    cell.  An identifier that has a cell is left alone. *)
Definition reference (e : env) (id : string) (fresh : loc) : env :=
  match env_cell e id with
  | Some _ => e
  | None => match e with
            | f :: r => {| f_renames := f_renames f; f_bindings := (id, fresh) :: f_bindings f;
                           f_immutable := f_immutable f |} :: r
            | [] => []
            end
  end.

(** ** SPEC: R7RS 4.3.2 "A subform in the input matches a literal if and only if it is an identifier and
    either both its occurrence in the macro expression and its occurrence in the macro definition have the
    same lexical binding, or the two identifiers are the same and both have no lexical binding."
    An identifier that was only referred to (its cell holds no value yet) has no binding. *)
Definition bound_to (undef : loc -> bool) (e : env) (id : string) (c : loc) : Prop :=
  env_cell e id = Some c /\ undef c = false.
Definition unbound_in (undef : loc -> bool) (e : env) (id : string) : Prop :=
  forall c, env_cell e id = Some c -> undef c = true.
Definition r7rs_literal_match (undef : loc -> bool) (e1 : env) (id1 : string) (e2 : env) (id2 : string) : Prop :=
  (exists c, bound_to undef e1 id1 c /\ bound_to undef e2 id2 c) \/
  (unbound_in undef e1 id1 /\ unbound_in undef e2 id2 /\ id1 = id2).

(** the executable form of the SPEC used by the check when no cell is undefined *)
Definition same_binding (e1 : env) (id1 : string) (e2 : env) (id2 : string) : bool :=
  match env_cell e1 id1, env_cell e2 id2 with
  | Some c1, Some c2 => Nat.eqb c1 c2
  | None, None => String.eqb id1 id2
  | _, _ => false
  end.

(** the literal [lit] of a macro defined in library [D] of graph [g] against the identifier [n] written
    in a program importing [is]: environments as built by Env.env_import (SynClo.program_env / graph_envs) *)
Definition literal_probe (undef : loc -> bool) (g : list libdef) (is : list iset) (D : libname) (lit n : name) : bool :=
  let es := graph_envs (world_of g) g 0 [] in
  match lookup_env D es with
  | Some de => identifier_eq undef (program_env g is) n de lit
  | None => false
  end.
