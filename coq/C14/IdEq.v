(** C14 — identifier comparison (free-identifier=?) over environments with rename cells:
    eval.c sexp_identifier_eq_op, the primitive behind the [compare] of er-macro-transformer and the
    literal matching of syntax-rules (lib/init-7.scm), hence behind the recognition of else => ... _
    unquote in cond, case, guard, syntax-rules, quasiquote.  Keys are plain symbols (an identifier
    renamed by a macro is looked up in the macro's environment under its base name: that step is
    C07's).  No proofs in this file. *)
From Coq Require Import String List Bool Arith.
From ChibiV Require Import C14.Spec C14.Env C14.SynClo.
Import ListNotations.
Local Open Scope string_scope.

(** eval.c sexp_identifier_eq_op (e1, id1, e2, id2):
      cell1 = sexp_env_cell(e1, id1); cell2 = sexp_env_cell(e2, id2);
      if (cell1 && cell1 == cell2) return #t;                          -- same binding CELL, whatever the two names
      else if (!cell1 && !cell2 && id1 == id2) return #t;               -- both unbound, same name
      [strip syntactic closures]
      if (id1 == id2 && ((!cell1 && !cell2)
           || ((!cell1 || plain cell1) && (!cell2 || plain cell2)))) return #t;     -- !SEXP_USE_STRICT_TOPLEVEL_BINDINGS
      return #f;
    [plain c] = the cell holds neither a lambda-local nor syntax (sexp_lambdap(cdr cell), sexp_env_cell_syntactic_p). *)
Definition identifier_eq (plain : loc -> bool) (e1 : env) (id1 : string) (e2 : env) (id2 : string) : bool :=
  match env_cell e1 id1, env_cell e2 id2 with
  | Some c1, Some c2 => Nat.eqb c1 c2 || (String.eqb id1 id2 && plain c1 && plain c2)
  | None, None => String.eqb id1 id2
  | Some c, None | None, Some c => String.eqb id1 id2 && plain c
  end.

(** the strict reading R7RS 4.3.2 gives: same binding, or both unbound and the same name *)
Definition same_binding (e1 : env) (id1 : string) (e2 : env) (id2 : string) : bool :=
  match env_cell e1 id1, env_cell e2 id2 with
  | Some c1, Some c2 => Nat.eqb c1 c2
  | None, None => String.eqb id1 id2
  | _, _ => false
  end.

(** the literal [lit] of a macro defined in library [D] of graph [g] against the identifier [n] written
    in a program importing [is]: environments as built by Env.env_import (SynClo.program_env / graph_envs) *)
Definition literal_probe (plain : loc -> bool) (g : list libdef) (is : list iset) (D : libname) (lit n : name) : bool :=
  let es := graph_envs (world_of g) g 0 [] in
  match lookup_env D es with
  | Some de => identifier_eq plain (program_env g is) n de lit
  | None => false
  end.
