(** C14 — unbounded: a library from which a library that does not exist is reachable is never loaded. *)
From Coq Require Import List Bool Arith Lia Relations.
From ChibiV Require Import C14.Load C14.LoadInv C14.LoadCycle.
Import ListNotations.

(** every module in the table exists on disk *)
Definition N (d : defs) (st : state) : Prop := forall y m, lookup y (table st) = Some m -> lookup y d <> None.

Lemma N_update d st x m0 m : N d st -> lookup x (table st) = Some m0 ->
  forall nx ev, N d {| table := update x m (table st); evals := ev; next_env := nx |}.
Proof.
  intros HN Hx nx ev y m' Hl. cbn [table] in Hl. destruct (Nat.eq_dec y x) as [->|Hne].
  - exact (HN x m0 Hx).
  - rewrite lookup_update_other in Hl by exact Hne. exact (HN y m' Hl).
Qed.

Lemma find_N d st x st1 mo : find_module d st x = (st1, mo) -> N d st -> N d st1.
Proof.
  intros Hf HN. destruct (find_cases _ _ _ _ _ Hf) as [[-> _]|(imps & Hn & Hd & -> & ->)]; [exact HN|].
  intros y m Hl. cbn [table lookup] in Hl. destruct (Nat.eqb y x) eqn:E.
  - apply Nat.eqb_eq in E. subst y. congruence.
  - exact (HN y m Hl).
Qed.

Theorem load_N d : forall f st x st' o, load_module f d st x = (st', o) -> N d st -> N d st'.
Proof.
  induction f as [|f IHf]; intros st x st' o H HN.
  - cbn [load_module] in H. injection H as <- <-. exact HN.
  - cbn [load_module] in H.
    destruct (find_module d st x) as [st1 mo] eqn:Ef.
    pose proof (find_N _ _ _ _ _ Ef HN) as HN1.
    destruct (find_step _ _ _ _ _ Ef) as (_ & Hmo & _).
    destruct mo as [m|]; [|injection H as <- <-; exact HN1].
    destruct (m_env m) as [e|]; [injection H as <- <-; exact HN1|].
    destruct (m_meta m) as [imps|]; [|injection H as <- <-; exact HN1].
    set (st2 := set_module st1 x {| m_env := None; m_meta := ErrorForm |}) in H.
    assert (HN2 : N d st2) by (apply (N_update d st1 x m _ HN1 (eq_sym Hmo))).
    assert (Hx2 : lookup x (table st2) <> None) by (unfold st2, set_module; cbn [table]; rewrite lookup_update_same; discriminate).
    destruct (import_all_with (load_module f d) imps st2) as [st3 o3] eqn:Ei.
    assert (HN3 : N d st3 /\ lookup x (table st3) <> None).
    { clear H. revert Ei HN2 Hx2. generalize st2 st3 o3. clear st2 st3 o3.
      induction imps as [|i r IHr]; intros s2 s3 o3 Ei HN2 Hx2; cbn [import_all_with] in Ei.
      - injection Ei as <- <-. split; assumption.
      - destruct (load_module f d s2 i) as [s' o'] eqn:Ej.
        pose proof (IHf _ _ _ _ Ej HN2) as HN'.
        assert (Hx' : lookup x (table s') <> None).
        { (* tables only grow *)
          clear -Ej Hx2. revert s2 i s' o' Ej Hx2. induction f as [|g IHg]; intros s2 i s' o' Ej Hx2.
          - cbn [load_module] in Ej. injection Ej as <- <-. exact Hx2.
          - cbn [load_module] in Ej. destruct (find_module d s2 i) as [t1 mo] eqn:Ef.
            assert (Hx1 : lookup x (table t1) <> None).
            { destruct (find_step _ _ _ _ _ Ef) as (_ & _ & Hl). rewrite Hl; assumption. }
            destruct mo as [m|]; [|injection Ej as <- <-; exact Hx1].
            destruct (m_env m); [injection Ej as <- <-; exact Hx1|].
            destruct (m_meta m) as [imps|]; [|injection Ej as <- <-; exact Hx1].
            assert (Hgrow : forall (t : list (lname * module)) k mk, lookup x t <> None -> lookup x (update k mk t) <> None).
            { intros t k mk Ht. destruct (Nat.eq_dec x k) as [->|Hne]; [rewrite lookup_update_same; discriminate | rewrite lookup_update_other; assumption]. }
            set (t2 := set_module t1 i {| m_env := None; m_meta := ErrorForm |}) in Ej.
            assert (Hx2' : lookup x (table t2) <> None) by (unfold t2, set_module; cbn [table]; apply Hgrow; exact Hx1).
            destruct (import_all_with (load_module g d) imps t2) as [t3 o3] eqn:Ei.
            assert (Hx3 : lookup x (table t3) <> None).
            { clear Ej. revert Ei Hx2'. generalize t2 t3 o3. clear t2 t3 o3. induction imps as [|j r IHr]; intros t2 t3 o3 Ei Hx2'; cbn [import_all_with] in Ei.
              - injection Ei as <- <-. exact Hx2'.
              - destruct (load_module g d t2 j) as [u ou] eqn:Eu. pose proof (IHg _ _ _ _ Eu Hx2') as Hu.
                destruct ou; try (injection Ei as <- <-; exact Hu). exact (IHr _ _ _ Ei Hu). }
            destruct o3; try (injection Ej as <- <-; exact Hx3).
            injection Ej as <- <-. cbn [table]. apply Hgrow. exact Hx3. }
        destruct o'; try (injection Ei as <- <-; split; assumption).
        exact (IHr _ _ _ Ei HN' Hx'). }
    destruct HN3 as [HN3 Hx3].
    destruct o3; try (injection H as <- <-; exact HN3).
    injection H as <- <-. destruct (lookup x (table st3)) as [m3|] eqn:E3; [|congruence].
    exact (N_update d st3 x m3 _ HN3 E3 _ _).
Qed.

Lemma N_init d : N d init_state.
Proof. intros y m Hl. cbn in Hl. discriminate. Qed.

Lemma import_all_hits_missing d f :
  (forall st y x st' o, lookup x d = None -> J st -> NoDup (evals st) -> K d st -> M d st -> N d st ->
     clos_refl_trans_1n _ (imports d) y x -> load_module f d st y = (st', o) -> o <> Done) ->
  forall imps i x, lookup x d = None -> In i imps -> clos_refl_trans_1n _ (imports d) i x ->
  forall s s' o, J s -> NoDup (evals s) -> K d s -> M d s -> N d s ->
    import_all_with (load_module f d) imps s = (s', o) -> o <> Done.
Proof.
  intros IH imps i x Hx Hi R. induction imps as [|j r IHr]; [destruct Hi|].
  intros s s' o HJ Hn HK HM HN Ei. cbn [import_all_with] in Ei.
  destruct (load_module f d s j) as [s1 o1] eqn:Ej.
  destruct Hi as [<-|Hi].
  - pose proof (IH _ _ _ _ _ Hx HJ Hn HK HM HN R Ej) as Hne.
    destruct o1; try (injection Ei as <- <-; discriminate). congruence.
  - destruct (load_ok d f _ _ _ _ Ej HJ Hn) as (HJ' & Hn' & _).
    destruct (load_KM d f _ _ _ _ Ej HJ Hn HK HM) as (HK' & HM').
    pose proof (load_N d f _ _ _ _ Ej HN) as HN'.
    destruct o1; try (injection Ei as <- <-; discriminate).
    exact (IHr Hi s1 s' o HJ' Hn' HK' HM' HN' Ei).
Qed.

Lemma load_reaching_missing_fails d : forall f st y x st' o,
  lookup x d = None -> J st -> NoDup (evals st) -> K d st -> M d st -> N d st ->
  clos_refl_trans_1n _ (imports d) y x ->
  load_module f d st y = (st', o) -> o <> Done.
Proof.
  induction f as [|f IHf]; intros st y x st' o Hx HJ Hn HK HM HN R H.
  - cbn [load_module] in H. injection H as <- <-. discriminate.
  - cbn [load_module] in H.
    destruct (find_module d st y) as [st1 mo] eqn:Ef.
    destruct (find_ok _ _ _ _ _ Ef HJ Hn) as (HJ1 & Hn1 & _).
    destruct (find_KM _ _ _ _ _ Ef HK HM) as (HK1 & HM1).
    pose proof (find_N _ _ _ _ _ Ef HN) as HN1.
    destruct (find_step _ _ _ _ _ Ef) as (_ & Hmo & _).
    destruct mo as [m|]; [|injection H as <- <-; discriminate].
    destruct (m_env m) as [e|] eqn:Eenv.
    + exfalso. destruct (env_closed d st1 HK1 y x R) as [e' He'].
      * exists e. unfold env_of. rewrite <- Hmo. exact Eenv.
      * unfold env_of in He'. destruct (lookup x (table st1)) as [mx|] eqn:Elx; [|discriminate].
        exact (HN1 x mx Elx Hx).
    + destruct (m_meta m) as [imps|] eqn:Emeta; [|injection H as <- <-; discriminate].
      assert (Hd : lookup y d = Some imps) by (apply (HM1 y m imps); [symmetry; exact Hmo | exact Emeta]).
      destruct (rt1n_cases _ _ _ R) as [Heq|(i & [imps' [Hl Hi]] & R')]; [congruence|].
      rewrite Hd in Hl. injection Hl as <-.
      set (st2 := set_module st1 y {| m_env := None; m_meta := ErrorForm |}) in H.
      assert (Hy1 : env_of st1 y = None) by (unfold env_of; rewrite <- Hmo; exact Eenv).
      assert (Henv2 : forall z, env_of st2 z = env_of st1 z).
      { intro z. unfold env_of, st2, set_module. cbn [table]. destruct (Nat.eq_dec z y) as [->|Hne].
        - rewrite lookup_update_same. cbn [m_env]. unfold env_of in Hy1. symmetry. exact Hy1.
        - rewrite lookup_update_other by exact Hne. reflexivity. }
      assert (HJ2 : J st2).
      { intros k Hin. change (evals st2) with (evals st1) in Hin. destruct (HJ1 k Hin) as [e0 H0]. exists e0. rewrite Henv2. exact H0. }
      assert (HK2 : K d st2).
      { intros z e0 imps' j He Hl Hj. rewrite Henv2 in He. destruct (HK1 z e0 imps' j He Hl Hj) as [e' He']. exists e'. rewrite Henv2. exact He'. }
      assert (HM2 : M d st2).
      { intros z m' imps' Hl Hm. unfold st2, set_module in Hl. cbn [table] in Hl. destruct (Nat.eq_dec z y) as [->|Hne].
        - rewrite lookup_update_same in Hl. injection Hl as <-. cbn in Hm. discriminate.
        - rewrite lookup_update_other in Hl by exact Hne. exact (HM1 z m' imps' Hl Hm). }
      assert (HN2 : N d st2) by (apply (N_update d st1 y m _ HN1 (eq_sym Hmo))).
      destruct (import_all_with (load_module f d) imps st2) as [st3 o3] eqn:Ei.
      assert (Ho3 : o3 <> Done) by exact (import_all_hits_missing d f IHf imps i x Hx Hi R' st2 st3 o3 HJ2 Hn1 HK2 HM2 HN2 Ei).
      destruct o3; try (injection H as <- <-; discriminate). congruence.
Qed.

(** a library that (transitively) imports a library that does not exist is never loaded *)
Theorem missing_import_detected_proof : forall d l x f,
  clos_refl_trans_1n _ (imports d) l x -> lookup x d = None -> snd (load_module f d init_state l) <> Done.
Proof.
  intros d l x f R Hx. destruct (load_module f d init_state l) as [st' o] eqn:E. cbn [snd].
  exact (load_reaching_missing_fails d f init_state l x st' o Hx J_init (NoDup_nil _) (K_init d) (M_init d) (N_init d) R E).
Qed.
