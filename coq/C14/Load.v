(** C14 — the module table state machine of lib/meta-7.scm: find-module (46-53), load-module (247-251),
    eval-module (174-230) with its cyclic-import guard, resolve-module-imports (161-172).
    Only what decides HOW OFTEN a library body is evaluated and WHICH environment importers get is
    kept: a library is its name and the list of libraries its import declarations name, in order.
    No proofs in this file. *)
From Coq Require Import List Bool Arith.
Import ListNotations.

Definition lname := nat.
(** the libraries that exist on disk: name |-> libraries named by its (import ...) declarations *)
Definition defs := list (lname * list lname).

(** module-meta-data: the declarations, or the form eval-module swaps in while the module is loading:
    ((error "module attempted to reference itself while loading" name)) *)
Inductive meta := Decls (imports : list lname) | ErrorForm.

(** (make-module exports env meta): env is #f until the body has been evaluated; an environment is
    identified by the serial number of the eval-module call that made it *)
Record module := { m_env : option nat; m_meta : meta }.

Record state := {
  table : list (lname * module);   (* the modules alist *)
  evals : list lname;              (* log: one entry per evaluation of a library BODY, newest first *)
  next_env : nat
}.
Definition init_state : state := {| table := []; evals := []; next_env := 0 |}.

Inductive outcome := Done | SelfReference (l : lname) | NotFound (l : lname) | OutOfFuel.

Fixpoint lookup {A} (l : lname) (t : list (lname * A)) : option A :=
  match t with
  | [] => None
  | (k, v) :: r => if Nat.eqb l k then Some v else lookup l r
  end.

Fixpoint update (l : lname) (m : module) (t : list (lname * module)) : list (lname * module) :=
  match t with
  | [] => [(l, m)]
  | (k, v) :: r => if Nat.eqb l k then (k, m) :: r else (k, v) :: update l m r
  end.

Definition set_module (st : state) (l : lname) (m : module) : state :=
  {| table := update l m (table st); evals := evals st; next_env := next_env st |}.

(** meta-7.scm:46-53 find-module: the table, else load the library's definition file — which only
    registers the module with env #f and its declarations (add-module!), the body is NOT evaluated *)
Definition find_module (d : defs) (st : state) (l : lname) : state * option module :=
  match lookup l (table st) with
  | Some m => (st, Some m)
  | None =>
      match lookup l d with
      | Some imps => let m := {| m_env := None; m_meta := Decls imps |} in
                     ({| table := (l, m) :: table st; evals := evals st; next_env := next_env st |}, Some m)
      | None => (st, None)
      end
  end.

(** meta-7.scm:247-251 load-module + 174-230 eval-module + 161-172 resolve-module-imports.
    load-module: mod = (find-module name); evaluate only when (module-env mod) is #f.
    eval-module: meta := (module-meta-data mod); the meta data are replaced by the error form;
      resolve-module-imports (OUTSIDE the protect form: an exception from an import leaves the error
      form in place) loads every imported library first (resolve-import fails with "couldn't find
      import" for a library that does not exist); then the declarations run: for the error form that
      is (apply error ...), otherwise the body is evaluated; the meta data are restored, the new env
      is stored. *)
(** resolve-module-imports (161-172): the imported libraries are loaded in order; the first failure aborts *)
Fixpoint import_all_with (ld : state -> lname -> state * outcome) (is : list lname) (s : state) {struct is} : state * outcome :=
  match is with
  | [] => (s, Done)
  | i :: r =>
      match ld s i with
      | (s', Done) => import_all_with ld r s'
      | (s', o) => (s', o)
      end
  end.

Fixpoint load_module (fuel : nat) (d : defs) (st : state) (l : lname) {struct fuel} : state * outcome :=
  match fuel with
  | O => (st, OutOfFuel)
  | S f =>
      match find_module d st l with
      | (st1, None) => (st1, NotFound l)
      | (st1, Some m) =>
          match m_env m with
          | Some _ => (st1, Done)
          | None =>
              match m_meta m with
              | ErrorForm => (st1, SelfReference l)     (* the handler of protect restores the error form itself *)
              | Decls imps =>
                  let st2 := set_module st1 l {| m_env := None; m_meta := ErrorForm |} in
                  match import_all_with (load_module f d) imps st2 with
                  | (st3, Done) =>
                      ({| table := update l {| m_env := Some (next_env st3); m_meta := Decls imps |} (table st3);
                          evals := l :: evals st3;
                          next_env := S (next_env st3) |}, Done)
                  | (st3, o) => (st3, o)
                  end
              end
          end
      end
  end.

Definition body_evals (st : state) (l : lname) : nat := count_occ Nat.eq_dec (evals st) l.
Definition env_of (st : state) (l : lname) : option nat :=
  match lookup l (table st) with Some m => m_env m | None => None end.

(** a history of top-level imports: each request loads one library; errors do not stop the history.
    Returns the final state and, per step, the outcome and the environment table after it. *)
Fixpoint run_history (fuel : nat) (d : defs) (st : state) (reqs : list lname) : state * list (outcome * state) :=
  match reqs with
  | [] => (st, [])
  | l :: r =>
      let (st1, o) := load_module fuel d st l in
      let (st2, tr) := run_history fuel d st1 r in
      (st2, (o, st1) :: tr)
  end.

(** ** executable reference notions for the bounded sweep *)
(** l can be loaded: it exists, and no library reachable from it (including itself) is missing or on a
    cycle; [path] = libraries whose loading is in progress *)
Fixpoint loadable (fuel : nat) (d : defs) (path : list lname) (l : lname) : bool :=
  match fuel with
  | O => false
  | S f =>
      if existsb (Nat.eqb l) path then false
      else match lookup l d with
           | None => false
           | Some imps => forallb (loadable f d (l :: path)) imps
           end
  end.
