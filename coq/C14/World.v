(** C14 — the module-table look-ups the translated code calls (hand-written mirror; the table itself
    is an explicit argument [W], the S-expression form of chibi's [the modules alist] alist).

    [W] = list of [(name . module)]; a module object is modelled as the pair
    [(exports . env-exports)]: [exports] is the module's export list as written by
    [define-library] after [rewrite-export] (meta-7.scm:322-329: a symbol, or [(external . internal)]
    for [(rename internal external)]), or [#f] for modules without an export list ((chibi), (meta));
    [env-exports] stands for what [(env-exports (module-env mod))] would return for such modules.
    No proofs in this file. *)
From ChibiV Require Import C14.Sx.
Local Open Scope string_scope.

(** meta-7.scm:46-53 [(find-module name)]: [(assoc name the modules alist) => cdr], else [#f].  Loading the
    library's definition file on a miss is the business of C14/Load.v: here [W] already lists every
    library that can be found. *)
Fixpoint w_assoc (x ls : sx) : res sx :=
  match ls with
  | Nil => Ok (Bool false)
  | Pair (Pair k v) d => if sx_eqb x k then Ok v else w_assoc x d
  | _ => Err (TypeError "assoc: not an association list")
  end.
Definition w_find_module (W x : sx) : res sx := w_assoc x W.

(** meta-7.scm:12 [(%module-exports mod)] = (vector-ref mod 0) *)
Definition w_pmodule_exports (W m : sx) : res sx :=
  match m with Pair e _ => Ok e | _ => Err (TypeError "%module-exports: not a module") end.

(** meta-7.scm:19-23 [(module-exports mod)] = (or (%module-exports mod) (if (module-env mod) (env-exports ...) '())) *)
Definition w_module_exports (W m : sx) : res sx :=
  match m with
  | Pair e ee => if truthy e then Ok e else Ok ee
  | _ => Err (TypeError "module-exports: not a module")
  end.
