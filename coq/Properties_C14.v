(** C14 — library imports expose exactly the requested bindings: property theorems only. *)
From Coq Require Import String List.
From ChibiV Require Import C14.Sx C14.World C14.Spec C14.Encode C14.SpecProofs Gen.C14_ImportCode C14.Refine C14.Proofs.

Theorem resolve_import_refines_spec : forall W i f,
  wf_iset i -> isize i + max_exports W < f -> chibi_ok W i ->
  exists ids l,
    resolve_import f (enc_world W) (enc i) = Ok (Pair (enc_lib (lib_of i)) ids) /\ abs_ids ids = Some l /\
    (forall n m, In (n, m) l -> denotes W i n m) /\
    (forall n m, denotes W i n m -> exists m', In (n, m') l) /\
    (unambiguous W i -> forall n m, denotes W i n m <-> In (n, m) l).
Proof. exact resolve_import_refines_spec_proof. Qed.
Print Assumptions resolve_import_refines_spec.

Theorem resolve_import_errors_exactly : forall W i f,
  wf_iset i -> isize i + max_exports W < f ->
  ((exists msg, resolve_import f (enc_world W) (enc i) = Err (SchemeError msg)) <-> ~ chibi_ok W i) /\
  (spec_ok W i -> exists v, resolve_import f (enc_world W) (enc i) = Ok v).
Proof. exact resolve_import_errors_exactly_proof. Qed.
Print Assumptions resolve_import_errors_exactly.

Theorem private_stays_invisible : forall W i n m,
  denotes W i n m -> exists ex x, lookup_lib W (lib_of i) = Some ex /\ In (x, m) ex.
Proof. exact SpecProofs.private_stays_invisible. Qed.
Print Assumptions private_stays_invisible.

Theorem denote_is_the_relation : forall W i l, denote W i = Some l -> unambiguous W i ->
  forall n m, In (n, m) l <-> denotes W i n m.
Proof. exact denote_exact. Qed.
Print Assumptions denote_is_the_relation.

Theorem export_rewriting_spec : forall W' e,
  exists v, rewrite_export W' (enc_espec e) = Ok v /\ abs_id v = Some (espec_pair e).
Proof. exact C14.Refine.rewrite_export_spec. Qed.
Print Assumptions export_rewriting_spec.

From ChibiV Require Import C14.OriginProofs.
Theorem origin_is_a_definition : forall g is n l m,
  program_origin g is n = Origin l m -> is_definition g l m.
Proof. exact origin_is_a_definition_proof. Qed.
Print Assumptions origin_is_a_definition.

(** environments (eval.c sexp_env_import_op, sexp_env_cell) *)
From ChibiV Require Import C14.Env C14.EnvProofs.

Theorem import_binds_exporters_cell : forall to from ids immutp n m c,
  to <> nil -> In (n, m) ids -> (forall m', In (n, m') ids -> m' = m) -> env_cell from m = Some c ->
  env_cell (env_import to from (Some ids) immutp) n = Some c.
Proof. exact import_binds_exporters_cell_proof. Qed.
Print Assumptions import_binds_exporters_cell.

Theorem import_adds_nothing_else : forall to from ids immutp n,
  (forall m, In (n, m) ids -> env_cell from m = None) ->
  env_cell (env_import to from (Some ids) immutp) n = env_cell to n.
Proof. exact import_adds_nothing_else_proof. Qed.
Print Assumptions import_adds_nothing_else.

Theorem import_exposes_exactly : forall W i l to from immutp,
  denote W i = Some l -> unambiguous W i -> to <> nil ->
  (forall n m, denotes W i n m -> env_cell from m <> None) ->
  forall n,
    (forall m, denotes W i n m -> env_cell (env_import to from (Some l) immutp) n = env_cell from m) /\
    ((forall m, ~ denotes W i n m) -> env_cell (env_import to from (Some l) immutp) n = env_cell to n).
Proof. exact import_exposes_exactly_proof. Qed.
Print Assumptions import_exposes_exactly.

From ChibiV Require Import C14.EndToEnd.
Theorem import_end_to_end : forall W i f to from immutp,
  wf_iset i -> isize i + max_exports W < f -> chibi_ok W i -> unambiguous W i -> to <> nil ->
  (forall n m, denotes W i n m -> env_cell from m <> None) ->
  exists ids l,
    resolve_import f (enc_world W) (enc i) = Ok (Pair (enc_lib (lib_of i)) ids) /\ abs_ids ids = Some l /\
    forall n,
      (forall m, denotes W i n m -> env_cell (env_import to from (Some l) immutp) n = env_cell from m) /\
      ((forall m, ~ denotes W i n m) -> env_cell (env_import to from (Some l) immutp) n = env_cell to n).
Proof. exact import_end_to_end_proof. Qed.
Print Assumptions import_end_to_end.

(** the module table (meta-7.scm find-module / load-module / eval-module) *)
From ChibiV Require Import C14.Load C14.LoadInv C14.LoadProofs.

Theorem load_once : forall d fuel reqs l,
  body_evals (fst (run_history fuel d init_state reqs)) l <= 1.
Proof. exact load_once_proof. Qed.
Print Assumptions load_once.

Theorem env_stable : forall d fuel st x st' o l e,
  J st -> NoDup (evals st) -> load_module fuel d st x = (st', o) ->
  env_of st l = Some e -> env_of st' l = Some e.
Proof. exact env_stable_proof. Qed.
Print Assumptions env_stable.

Theorem load_done_has_env : forall d f st l st',
  load_module f d st l = (st', Done) -> exists e, env_of st' l = Some e.
Proof. exact load_done_has_env_proof. Qed.
Print Assumptions load_done_has_env.

Theorem failed_load_no_env : forall d f st l st' o,
  J st -> NoDup (evals st) -> load_module f d st l = (st', o) -> o <> Done ->
  env_of st l = None -> env_of st' l = None /\ body_evals st' l = body_evals st l.
Proof. exact failed_load_no_env_proof. Qed.
Print Assumptions failed_load_no_env.

Theorem self_reference_detected : forall d f st l,
  inprog st l -> load_module (S f) d st l = (st, SelfReference l).
Proof. exact self_reference_detected_proof. Qed.
Print Assumptions self_reference_detected.

From Coq Require Import Relations.
From ChibiV Require Import C14.LoadCycle.
Theorem cyclic_import_detected : forall d l f,
  clos_trans_1n _ (imports d) l l -> snd (load_module f d init_state l) <> Done.
Proof. exact cyclic_import_detected_proof. Qed.
Print Assumptions cyclic_import_detected.

From ChibiV Require Import C14.LoadLive.
Theorem loadable_loads : forall d f l, loadable f d nil l = true ->
  exists st', load_module f d init_state l = (st', Done) /\ exists e, env_of st' l = Some e.
Proof. exact loadable_loads_proof. Qed.
Print Assumptions loadable_loads.

From ChibiV Require Import C14.LoadMissing.
Theorem missing_import_detected : forall d l x f,
  clos_refl_trans_1n _ (imports d) l x -> lookup x d = None -> snd (load_module f d init_state l) <> Done.
Proof. exact missing_import_detected_proof. Qed.
Print Assumptions missing_import_detected.

Theorem cyclic_import_detected_bounded : forall g l, In g graphs3 -> In l (0 :: 1 :: 2 :: 3 :: nil) ->
  check_single (defs_of g) l = true.
Proof. exact cyclic_import_detected_bounded_proof. Qed.
Print Assumptions cyclic_import_detected_bounded.

(** round 2: the syntactic-closure layer (user code closed by exported sc/er macros of other libraries) *)
From ChibiV Require Import C14.Env C14.SynClo C14.SynCloProofs.
Theorem closed_lookup_bound : forall c U free k cell,
  ~ In k free -> fv_memq k (c_fv c) = None -> env_cell U k = Some cell ->
  ctx_cell (enter_synclo c U free) k = Some cell.
Proof. exact closed_lookup_bound_proof. Qed.
Print Assumptions closed_lookup_bound.

Theorem wrapped_lookup_bound : forall ws c k cell,
  Forall (fun w => ~ In k (wfree w)) ws -> sees c k cell -> ctx_cell (wrap_ctx ws c) k = Some cell.
Proof. exact wrapped_lookup_bound_proof. Qed.
Print Assumptions wrapped_lookup_bound.

Theorem import_visible_in_closed_code : forall to from ids immutp n m cell ws,
  to <> nil -> In (n, m) ids -> (forall m', In (n, m') ids -> m' = m) -> env_cell from m = Some cell ->
  Forall (fun w => ~ In n (wfree w)) ws ->
  ctx_cell (wrap_ctx ws (top_ctx (env_import to from (Some ids) immutp))) n = Some cell /\
  ctx_cell (top_ctx (env_import to from (Some ids) immutp)) n = Some cell.
Proof. exact import_visible_in_closed_code_proof. Qed.
Print Assumptions import_visible_in_closed_code.

Theorem free_name_redirected : forall c U free k,
  In k free -> ctx_cell (enter_synclo c U free) k = env_cell (c_env c) k.
Proof. exact free_name_redirected_proof. Qed.
Print Assumptions free_name_redirected.

Theorem sc_no_free_names_exact : forall M locals U k,
  ctx_cell (wrap1 (WSc M nil locals) (top_ctx U)) k = env_cell U k.
Proof. exact sc_no_free_names_exact_proof. Qed.
Print Assumptions sc_no_free_names_exact.

Theorem sc_free_names_leak_char : forall M a free locals U k,
  ~ In k (a :: free) -> env_cell U k = None ->
  ctx_cell (wrap1 (WSc M (a :: free) locals) (top_ctx U)) k =
  match assoc_loc k locals with Some c => Some c | None => env_cell M k end.
Proof. exact sc_free_names_leak_char_proof. Qed.
Print Assumptions sc_free_names_leak_char.

Theorem closed_code_sees_only_its_environment_refuted :
  ~ (forall c U free k, ~ In k free -> fv_memq k (c_fv c) = None -> ctx_cell (enter_synclo c U free) k = env_cell U k).
Proof. exact closed_code_sees_only_its_environment_refuted_proof. Qed.
Print Assumptions closed_code_sees_only_its_environment_refuted.

Theorem ident_lookup_exact : forall c E free k,
  ~ In k free -> fv_memq k (c_fv c) = None -> ident_cell c E free k = env_cell E k.
Proof. exact ident_lookup_exact_proof. Qed.
Print Assumptions ident_lookup_exact.

(** ---- round 3: auxiliary-syntax literals under other names; importers of every kind ---- *)
From Coq Require Import Arith Bool.
From ChibiV Require Import C14.IdEq C14.IdEqProofs C14.Importers C14.ImportersProofs.

Theorem same_cell_identifier_eq : forall undef e1 a e2 b c,
  env_cell e1 a = Some c -> env_cell e2 b = Some c -> undef c = false -> identifier_eq undef e1 a e2 b = true.
Proof. exact same_cell_identifier_eq_proof. Qed.
Print Assumptions same_cell_identifier_eq.

Theorem different_names_need_one_cell : forall undef e1 a e2 b,
  a <> b -> identifier_eq undef e1 a e2 b = true ->
  exists c, env_cell e1 a = Some c /\ env_cell e2 b = Some c /\ undef c = false.
Proof. exact different_names_need_one_cell_proof. Qed.
Print Assumptions different_names_need_one_cell.

Theorem keyword_identifier_eq_exact : forall undef e1 a e2 b c2,
  env_cell e2 b = Some c2 -> undef c2 = false ->
  identifier_eq undef e1 a e2 b = match live_cell undef e1 a with Some c1 => Nat.eqb c1 c2 | None => false end.
Proof. exact keyword_identifier_eq_exact_proof. Qed.
Print Assumptions keyword_identifier_eq_exact.

Theorem renamed_import_is_the_keyword : forall undef to from ids immutp n m c,
  to <> nil -> In (n, m) ids -> (forall m', In (n, m') ids -> m' = m) -> env_cell from m = Some c -> undef c = false ->
  identifier_eq undef (env_import to from (Some ids) immutp) n from m = true /\
  (forall e2 b c2, env_cell e2 b = Some c2 -> undef c2 = false ->
     identifier_eq undef (env_import to from (Some ids) immutp) n e2 b = Nat.eqb c c2).
Proof. exact renamed_import_is_the_keyword_proof. Qed.
Print Assumptions renamed_import_is_the_keyword.

(** round 4: the model of the (repaired, strict-build) sexp_identifier_eq_op IS R7RS 4.3.2's literal matching -- same binding, or both
    unbound and the same name, where a cell that only a reference created counts as unbound -- for all environments *)
Theorem identifier_eq_is_r7rs_literal_match : forall undef e1 a e2 b,
  identifier_eq undef e1 a e2 b = true <-> r7rs_literal_match undef e1 a e2 b.
Proof. exact identifier_eq_is_r7rs_literal_match_proof. Qed.
Print Assumptions identifier_eq_is_r7rs_literal_match.

(** referring to an undefined variable (analyze_var_ref creates an undefined cell) never changes which literals match *)
Theorem reference_does_not_change_identifier_eq : forall undef e1 a e2 b n fresh,
  undef fresh = true ->
  identifier_eq undef (reference e1 n fresh) a e2 b = identifier_eq undef e1 a e2 b /\
  identifier_eq undef e1 a (reference e2 n fresh) b = identifier_eq undef e1 a e2 b.
Proof. exact reference_does_not_change_identifier_eq_proof. Qed.
Print Assumptions reference_does_not_change_identifier_eq.

(** ... which the PINNED function (every cell counts as a binding) does not satisfy: F-C14-3 *)
Theorem pinned_identifier_eq_depends_on_references_refuted :
  ~ (forall e1 a e2 b n fresh,
       identifier_eq_pinned (reference e1 n fresh) a e2 b = identifier_eq_pinned e1 a e2 b).
Proof. exact pinned_identifier_eq_depends_on_references_refuted_proof. Qed.
Print Assumptions pinned_identifier_eq_depends_on_references_refuted.

Theorem load_once_any_importer : forall d fuel (reqs : list request) l,
  body_evals (table_state (fst (run fuel d boot reqs))) l <= 1.
Proof. exact load_once_any_importer_proof. Qed.
Print Assumptions load_once_any_importer.

Theorem one_instance_any_importer : forall d fuel (reqs1 reqs2 : list request) l e,
  let w1 := fst (run fuel d boot reqs1) in
  env_of (table_state w1) l = Some e ->
  env_of (table_state (fst (run fuel d w1 reqs2))) l = Some e.
Proof. exact one_instance_any_importer_proof. Qed.
Print Assumptions one_instance_any_importer.

Theorem second_standard_env_keeps_table : forall w st,
  w_meta w = Some st -> w_meta (load_standard_env w) = Some st.
Proof. exact second_standard_env_keeps_table_proof. Qed.
Print Assumptions second_standard_env_keeps_table.

Theorem importer_kind_irrelevant : forall d fuel (reqs : list request),
  snd (run fuel d boot reqs) = map fst (snd (run_history fuel d init_state (map snd reqs))) /\
  table_state (fst (run fuel d boot reqs)) = fst (run_history fuel d init_state (map snd reqs)).
Proof. exact importer_kind_irrelevant_proof. Qed.
Print Assumptions importer_kind_irrelevant.

(** ---- cond-expand feature logic, translated on every run from lib/init-7.scm; round 4: UNBOUNDED (nested induction over [feature]) ---- *)
From ChibiV Require Import C14.Sx C14.World C14.CondExpand Gen.C14_CondExpand C14.CondExpandUnbounded.

(** for EVERY feature requirement f (any nesting of and / or / not / (library name) / identifier, any number of operands), every feature
    list and every module table on which find-module answers: the translated [check] returns a value whose truth is [holds f]
    (fuel: one unit per nesting level, premise visible) *)
Theorem cond_expand_feature_logic : forall feats W,
  (forall n, exists v, w_find_module W n = Ok v) ->
  forall f fuel, fdepth f < fuel ->
  exists v, ce_check (FE feats) fuel W (enc_feature f) = Ok v /\ truthy v = holds feats (lib_exists W) f.
Proof. exact check_refines_holds. Qed.
Print Assumptions cond_expand_feature_logic.

(** for EVERY clause list whose else clause (if any) is the last one: the translated [expand] answers (begin . body) of the first clause
    whose requirement holds (else = always), #t when there is none -- CondExpand.select *)
Theorem cond_expand_selects_first_true_clause : forall feats W,
  (forall n, exists v, w_find_module W n = Ok v) ->
  forall cs fuel, wf_clauses cs -> length cs + cdepth cs < fuel ->
  ce_expand (FE feats) fuel W (list_sx (map enc_clause cs)) =
  Ok (match select feats (lib_exists W) cs with Some body => Pair (Sym "begin") body | None => Bool true end).
Proof. exact expand_refines_select. Qed.
Print Assumptions cond_expand_selects_first_true_clause.

(** the hypothesis on the module table holds of every association list *)
Theorem module_table_total : forall es n, exists v, w_find_module (table es) n = Ok v.
Proof. exact table_total. Qed.
Print Assumptions module_table_total.

(* round 5: the export set of an (export-all) library = env-exports of its environment (eval.c sexp_env_exports_op) *)
From ChibiV Require Import C14.ExportAll C14.ExportAllProofs.

Theorem export_all_exports_exactly_the_definitions : forall imps forms n,
  In n (env_exports [] (eval_body imps forms)) <-> In n (defined_names forms).
Proof. exact ExportAllProofs.export_all_exports_exactly_the_definitions. Qed.
Print Assumptions export_all_exports_exactly_the_definitions.

Theorem dangling_reference_not_exported : forall imps forms n,
  In n (referenced_names forms) -> ~ In n (defined_names forms) -> ~ In n (env_exports [] (eval_body imps forms)).
Proof. exact ExportAllProofs.dangling_reference_not_exported. Qed.
Print Assumptions dangling_reference_not_exported.

Theorem imported_name_not_reexported : forall imps forms n,
  In n imps -> ~ In n (defined_names forms) -> ~ In n (env_exports [] (eval_body imps forms)).
Proof. exact ExportAllProofs.imported_name_not_reexported. Qed.
Print Assumptions imported_name_not_reexported.

Theorem export_all_import_reaches_only_definitions : forall W i n m imps forms,
  lookup_lib W (lib_of i) = Some (export_all_exports imps forms) -> denotes W i n m -> In m (defined_names forms).
Proof. exact ExportAllProofs.export_all_import_reaches_only_definitions. Qed.
Print Assumptions export_all_import_reaches_only_definitions.

Theorem unfiltered_env_exports_lists_dangling_reference_refuted :
  ~ (forall imps forms n, In n (env_exports_unfiltered [] (eval_body imps forms)) -> In n (defined_names forms)).
Proof. exact ExportAllProofs.unfiltered_env_exports_lists_dangling_reference_refuted. Qed.
Print Assumptions unfiltered_env_exports_lists_dangling_reference_refuted.

From ChibiV Require Import C14.ExportAllEnv.
Theorem export_all_import_shadows_only_definitions : forall W i l to from immutp imps forms n,
  lookup_lib W (lib_of i) = Some (export_all_exports imps forms) ->
  denote W i = Some l -> unambiguous W i -> to <> nil ->
  (forall m, In m (defined_names forms) -> env_cell from m <> None) ->
  (forall m, In m (defined_names forms) -> ~ denotes W i n m) ->
  env_cell (env_import to from (Some l) immutp) n = env_cell to n.
Proof. exact export_all_import_shadows_only_definitions_proof. Qed.
Print Assumptions export_all_import_shadows_only_definitions.
