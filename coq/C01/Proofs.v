(** C01 — proofs about the guard-table checker (part 1). *)
From Coq Require Import ZArith List Bool Lia.
From ChibiV Require Import C01.Model.
Import ListNotations.
Local Open Scope Z_scope.

(** * decidable equalities are equalities *)
Lemma arg_eqb_eq a b : arg_eqb a b = true -> a = b.
Proof. destruct a, b; simpl; congruence. Qed.

Lemma pred_eqb_eq a b : pred_eqb a b = true -> a = b.
Proof. destruct a, b; simpl; congruence. Qed.

Lemma cmp_eqb_eq a b : cmp_eqb a b = true -> a = b.
Proof. destruct a, b; simpl; congruence. Qed.

Lemma iexp_eqb_eq a b : iexp_eqb a b = true -> a = b.
Proof.
  destruct a as [x|x|x], b as [y|y|y]; simpl; intros H; try discriminate;
    apply arg_eqb_eq in H; congruence.
Qed.

Lemma lexp_eqb_eq a b : lexp_eqb a b = true -> a = b.
Proof.
  destruct a as [x|x|x|x], b as [y|y|y|y]; simpl; intros H; try discriminate.
  - apply Z.eqb_eq in H. congruence.
  - apply arg_eqb_eq in H. congruence.
  - apply arg_eqb_eq in H. congruence.
  - apply arg_eqb_eq in H. congruence.
Qed.

Lemma guard_eqb_eq a b : guard_eqb a b = true -> a = b.
Proof.
  destruct a as [p x|x|i c l], b as [q y|y|j d m]; simpl; intros H; try discriminate.
  - apply andb_true_iff in H as [H1 H2]. apply pred_eqb_eq in H1. apply arg_eqb_eq in H2. congruence.
  - apply arg_eqb_eq in H. congruence.
  - apply andb_true_iff in H as [H12 H3]. apply andb_true_iff in H12 as [H1 H2].
    apply iexp_eqb_eq in H1. apply cmp_eqb_eq in H2. apply lexp_eqb_eq in H3. congruence.
Qed.

Lemma has_In fs g : has fs g = true -> In g fs.
Proof.
  unfold has. intros H. apply existsb_exists in H as [x [Hin He]].
  apply guard_eqb_eq in He. subst. exact Hin.
Qed.

(** * facts: guards that passed and still speak about the current operands *)
Definition facts_hold (st : state) (fs : list guard) : Prop :=
  forall g, In g fs -> guard_holds st g = true.

Lemma holds_heap p v t : pred_tag p = Some t -> holds p v = true ->
  exists o, v = Ptr o /\ tag_eqb (o_tag o) t = true.
Proof.
  destruct p; simpl; intros Ht; inversion Ht; subst; destruct v; simpl; try discriminate;
    intros H; eauto.
Qed.

Lemma fact_is st fs p a t : facts_hold st fs -> has fs (GIs p a) = true -> pred_tag p = Some t ->
  exists o, sarg st a = Ptr o /\ tag_eqb (o_tag o) t = true.
Proof.
  intros Hf H Ht. apply has_In in H. apply Hf in H. simpl in H. eapply holds_heap; eauto.
Qed.

Lemma fact_cmp st fs i c l : facts_hold st fs -> has fs (GCmp i c l) = true ->
  cmpb c (eval_i st i) (eval_l st l) = true.
Proof. intros Hf H. apply has_In in H. apply Hf in H. exact H. Qed.

Lemma len_as_tag st t o : tag_eqb (o_tag o) t = true -> len_as st t (Ptr o) = o_len o.
Proof. intros H. unfold len_as. rewrite H. reflexivity. Qed.

Ltac split_and H :=
  repeat match type of H with
         | (_ && _) = true => let H1 := fresh H in apply andb_true_iff in H as [H H1]; split_and H1
         end.

(** the checker's per-access test is sound *)
Lemma access_ok_sound st fs x : facts_hold st fs -> access_ok fs x = true -> safeb st x = true.
Proof.
  intros Hf H. destruct x as [v i|b i|s i|s i|s i|p a|a|i|i|]; cbn [access_ok] in H.
  - apply andb_true_iff in H as [H12 H3]. apply andb_true_iff in H12 as [H1 H2].
    destruct (fact_is st fs PVector v TVector Hf H1 eq_refl) as [o [Ho Ht]].
    pose proof (fact_cmp _ _ _ _ _ Hf H2) as C2. pose proof (fact_cmp _ _ _ _ _ Hf H3) as C3.
    unfold cmpb, eval_l in C2, C3. rewrite Ho in C3. rewrite (len_as_tag _ _ _ Ht) in C3.
    unfold safeb. rewrite Ho, Ht, C2, C3. reflexivity.
  - apply andb_true_iff in H as [H12 H3]. apply andb_true_iff in H12 as [H1 H2].
    destruct (fact_is st fs PBytes b TBytes Hf H1 eq_refl) as [o [Ho Ht]].
    pose proof (fact_cmp _ _ _ _ _ Hf H2) as C2. pose proof (fact_cmp _ _ _ _ _ Hf H3) as C3.
    unfold cmpb, eval_l in C2, C3. rewrite Ho in C3. rewrite (len_as_tag _ _ _ Ht) in C3.
    unfold safeb. rewrite Ho, Ht, C2, C3. reflexivity.
  - apply andb_true_iff in H as [H12 H3]. apply andb_true_iff in H12 as [H1 H2].
    destruct (fact_is st fs PString s TString Hf H1 eq_refl) as [o [Ho Ht]].
    pose proof (fact_cmp _ _ _ _ _ Hf H2) as C2. pose proof (fact_cmp _ _ _ _ _ Hf H3) as C3.
    unfold cmpb, eval_l in C2, C3. rewrite Ho in C3. rewrite (len_as_tag _ _ _ Ht) in C3.
    unfold safeb. rewrite Ho, Ht, C2, C3. reflexivity.
  - apply andb_true_iff in H as [H12 H3]. apply andb_true_iff in H12 as [H1 H2].
    destruct (fact_is st fs PString s TString Hf H1 eq_refl) as [o [Ho Ht]].
    pose proof (fact_cmp _ _ _ _ _ Hf H2) as C2. pose proof (fact_cmp _ _ _ _ _ Hf H3) as C3.
    unfold cmpb, eval_l in C2, C3. rewrite Ho in C3. rewrite (len_as_tag _ _ _ Ht) in C3.
    unfold safeb. rewrite Ho, Ht, C2, C3. reflexivity.
  - apply andb_true_iff in H as [H12 H3]. apply andb_true_iff in H12 as [H1 H2].
    destruct (fact_is st fs PString s TString Hf H1 eq_refl) as [o [Ho Ht]].
    pose proof (fact_cmp _ _ _ _ _ Hf H2) as C2. pose proof (fact_cmp _ _ _ _ _ Hf H3) as C3.
    unfold cmpb, eval_l in C2, C3. rewrite Ho in C3. rewrite (len_as_tag _ _ _ Ht) in C3.
    unfold safeb. rewrite Ho, Ht, C2, C3. reflexivity.
  - unfold safeb. destruct (pred_tag p) as [t|] eqn:Ep; [|discriminate].
    apply has_In in H. apply Hf in H. exact H.
  - apply existsb_exists in H as [p [Hp H]].
    assert (exists t, pred_tag p = Some t) as [t Ht].
    { unfold heap_preds in Hp. simpl in Hp.
      destruct Hp as [<-|[<-|[<-|[<-|[<-|[<-|[]]]]]]]; simpl; eauto. }
    destruct (fact_is st fs p a t Hf H Ht) as [o [Ho _]]. unfold safeb. rewrite Ho. reflexivity.
  - pose proof (fact_cmp _ _ _ _ _ Hf H) as C. unfold cmpb, eval_l in C. exact C.
  - apply has_In in H. apply Hf in H. exact H.
  - discriminate.
Qed.

(** * operand updates only disturb the guards that mention the operand *)
Lemma eval_i_set st a v i : arg_eqb a (iexp_arg i) = false -> eval_i (set_arg st a v) i = eval_i st i.
Proof. destruct i as [b|b|b]; simpl; intros H; rewrite H; reflexivity. Qed.

Lemma eval_l_set st a v l : lexp_mentions l a = false -> eval_l (set_arg st a v) l = eval_l st l.
Proof.
  destruct l as [z|b|b|b]; simpl; intros H; try reflexivity; rewrite H; reflexivity.
Qed.

Lemma guard_holds_set st a v g : mentions g a = false ->
  guard_holds (set_arg st a v) g = guard_holds st g.
Proof.
  destruct g as [p b|b|i c l]; simpl; intros H.
  - rewrite H. reflexivity.
  - rewrite H. reflexivity.
  - apply orb_false_iff in H as [H1 H2].
    change (cmpb c (eval_i (set_arg st a v) i) (eval_l (set_arg st a v) l) = cmpb c (eval_i st i) (eval_l st l)).
    rewrite eval_i_set by exact H1. rewrite eval_l_set by exact H2. reflexivity.
Qed.

(** * soundness of the checker *)
Lemma check_sound : forall items fs st, check fs items = true -> facts_hold st fs -> trace_ok st items.
Proof.
  induction items as [|it r IH]; intros fs st Hc Hf; [exact I|].
  destruct it as [g|x|g xs|a|]; simpl in Hc |- *.
  - apply andb_true_iff in Hc as [Hr Hc]. split.
    + apply Forall_forall. intros x Hx. rewrite forallb_forall in Hr.
      apply (access_ok_sound st fs); auto.
    + intros Hg. apply (IH (g :: fs)); auto. intros g' [<-|Hin]; auto.
  - apply andb_true_iff in Hc as [Hx Hc]. split.
    + eapply access_ok_sound; eauto.
    + eapply IH; eauto.
  - apply andb_true_iff in Hc as [Hc Hr']. apply andb_true_iff in Hc as [Hr Hxs]. split; [|split].
    + apply Forall_forall. intros x Hx. rewrite forallb_forall in Hr.
      apply (access_ok_sound st fs); auto.
    + intros Hg. apply Forall_forall. intros x Hx. rewrite forallb_forall in Hxs.
      apply (access_ok_sound st (g :: fs)); auto. intros g' [<-|Hin]; auto.
    + eapply IH; eauto.
  - intros v. eapply IH; [exact Hc|]. intros g Hin. apply filter_In in Hin as [Hin Hm].
    apply negb_true_iff in Hm. rewrite guard_holds_set by exact Hm. auto.
  - intros st'. eapply IH; [exact Hc|]. intros g [].
Qed.

(** Theorem (entry_safe_sound): an entry accepted by the checker performs only in-bounds,
    rightly-typed accesses, on every operand state (any values, any junk from ill-typed unboxing) *)
Theorem entry_safe_sound_proof : forall e, entry_safe e = true -> forall st, trace_ok st (snd e).
Proof. intros e H st. eapply check_sound; [exact H|]. intros g []. Qed.

Theorem table_safe_proof : forall tbl, forallb entry_safe tbl = true ->
  forall e, In e tbl -> forall st, trace_ok st (snd e).
Proof.
  intros tbl H e Hin st. rewrite forallb_forall in H. apply entry_safe_sound_proof. auto.
Qed.

(** the checker is not vacuous: a guarded vector-ref body is accepted, and the same body without
    the upper range test, or indexing by another operand, is rejected *)
Definition ex_vector_ref : entry :=
  (0, [IGuard (GIs PVector A1); IGuard (GIs PFixnum A2);
       IGuard (GCmp (IFix A2) CGe (LConst 0)); IGuard (GCmp (IFix A2) CLt (LVec A1));
       IAccess (AVecData A1 (IFix A2)); IAssign A2; ITop]).
Example ex_vector_ref_ok : entry_safe ex_vector_ref = true.
Proof. reflexivity. Qed.
Example ex_vector_ref_no_upper : entry_safe
  (0, [IGuard (GIs PVector A1); IGuard (GIs PFixnum A2); IGuard (GCmp (IFix A2) CGe (LConst 0));
       IAccess (AVecData A1 (IFix A2))]) = false.
Proof. reflexivity. Qed.
Example ex_vector_ref_wrong_index : entry_safe
  (0, [IGuard (GIs PVector A1); IGuard (GCmp (IFix A2) CGe (LConst 0)); IGuard (GCmp (IFix A2) CLt (LVec A1));
       IAccess (AVecData A1 (IFix A3))]) = false.
Proof. reflexivity. Qed.
Example ex_stale_after_assign : entry_safe
  (0, [IGuard (GIs PPair A1); IAssign A1; IAccess (AField PPair A1)]) = false.
Proof. reflexivity. Qed.
(** and trace_ok really is falsifiable: an unguarded vector access fails on a fixnum operand *)
Example ex_unguarded_unsafe :
  ~ trace_ok (mk_state (Fix 3) (Fix 0) Imm Imm) [IAccess (AVecData A1 (IFix A2))].
Proof. simpl. intros [H _]. discriminate. Qed.
