(** C01 — executable model, part 2: foreign primitives with range arithmetic.  Each function mirrors the C control flow (order of the
    argument tests, computed offsets, memcpy lengths) and answers either an error or the list of
    memory regions the C code reads and writes.  No proofs here. *)
From Coq Require Import ZArith List Bool.
From ChibiV Require Import Common.Words C01.Model.
Import ListNotations.
Local Open Scope Z_scope.

(** * machine arithmetic *)
Definition HALF : Z := 9223372036854775808.       (* 2^63 *)
Definition Q60 : Z := 1152921504606846976.        (* 2^60: string cursors carry 61 signed bits *)
Definition Q61 : Z := 2305843009213693952.        (* 2^61 *)

(** unsigned view of a 64-bit word (pointer comparison `end < start` in sexp_substring_op compares
    the tagged words as addresses) *)
Definition uword (w : Z) : Z := w mod B.

(** sexp_make_string_cursor (sexp.h:959-962): (n << 3) + 2; for a cursor in the 61-bit range no
    overflow happens *)
Definition tag_cursor (n : Z) : Z := n * 8 + 2.

(** sexp_fixnum_to_string_cursor (sexp.h:966) = make_string_cursor(unbox_fixnum(n)): the shift by
    SEXP_STRING_CURSOR_BITS = 3 drops the top bits of a 63-bit fixnum (signed overflow, which the
    compiled code performs as two's-complement wrap); unboxing the result gives the 61-bit signed
    wrap of n *)
Definition fix_to_cur (n : Z) : Z := (n + Q60) mod Q61 - Q60.

(** * regions *)
Record region := mkreg { r_cap : Z; r_off : Z; r_len : Z }.
(** [r_cap]: bytes (or words) allocated for the buffer the region lies in *)
Definition in_bounds (r : region) : Prop := 0 <= r_off r /\ 0 <= r_len r /\ r_off r + r_len r <= r_cap r.
Definition in_boundsb (r : region) : bool := (0 <=? r_off r) && (0 <=? r_len r) && (r_off r + r_len r <=? r_cap r).

Inductive errkind := ETyp | ERange.
Inductive outcome := PErr (k : errkind) | POk (rs : list region).

Definition is_str (v : val) : option obj :=
  match v with Ptr o => if tag_eqb (o_tag o) TString then Some o else None | _ => None end.
Definition is_bytes (v : val) : option obj :=
  match v with Ptr o => if tag_eqb (o_tag o) TBytes then Some o else None | _ => None end.

(** a string or bytevector of n bytes owns n+1 bytes of data: sexp_make_bytes_op allocates
    sexp_sizeof(bytes)+clen+1 and stores the terminator (sexp.c:1183-1192) *)
Definition data_cap (n : Z) : Z := n + 1.

(** the copy performed once the ranges are accepted (sexp.c:1469-1473):
    res = sexp_make_string(e - s)  [sexp_make_bytes_op refuses a negative length, sexp.c:1182];
    memcpy(data(res), data(str)+s, size(res));  data(res)[size(res)] = 0 *)
Definition copy_regions (size s e : Z) : outcome :=
  let n := e - s in
  if n <? 0 then POk [mkreg 0 0 1]   (* sexp_make_string answers an exception object and
                                        sexp_substring_op uses it unchecked: a wild write *)
  else POk [mkreg (data_cap size) s n; mkreg (data_cap n) 0 n; mkreg (data_cap n) n 1].

(** sexp_substring_op (sexp.c:1456-1476), entered with a string of [size] bytes and cursors s, e
    (already type-checked); the five range tests in their C order, the last one on tagged words *)
Definition substring_core (size s e : Z) : outcome :=
  if (s <? 0) || (size <? s) || (e <? 0) || (size <? e) || (uword (tag_cursor e) <? uword (tag_cursor s))
  then PErr ERange
  else copy_regions size s e.

(** sexp_substring_op on arbitrary values; [end_ = None] is #f (sexp_not(end)) *)
Definition prim_substring (str start : val) (end_ : option val) : outcome :=
  match is_str str with
  | None => PErr ETyp                                  (* sexp_assert_type(sexp_stringp, str) *)
  | Some o =>
    match start with
    | Cur s =>                                         (* sexp_assert_type(sexp_string_cursorp, start) *)
      match (match end_ with None => Cur (o_len o) | Some v => v end) with
      | Cur e => substring_core (o_len o) s e          (* sexp_assert_type(sexp_string_cursorp, end) *)
      | _ => PErr ETyp
      end
    | _ => PErr ETyp
    end
  end.

(** sexp_subbytes_op (sexp.c:1478-1500): a temporary string header over the bytevector, fixnum
    bounds converted by sexp_fixnum_to_string_cursor, then sexp_substring_op *)
Definition prim_subbytes (vec start : val) (end_ : option val) : outcome :=
  match is_bytes vec with
  | None => PErr ETyp
  | Some o =>
    match start with
    | Fix s =>
      match (match end_ with None => Fix (o_len o) | Some v => v end) with
      | Fix e => substring_core (o_len o) (fix_to_cur s) (fix_to_cur e)
      | _ => PErr ETyp
      end
    | _ => PErr ETyp
    end
  end.

(** sexp_string_cursor_to_index (sexp.c:1338-1362, default configuration): off is unboxed before
    the type tests (arithmetic only), then 0 <= off <= size, then sexp_string_utf8_length scans
    data[0 .. off) *)
Definition prim_cursor_to_index (str offset : val) : outcome :=
  match is_str str with
  | None => PErr ETyp
  | Some o =>
    match offset with
    | Cur off => if (off <? 0) || (o_len o <? off) then PErr ERange
                 else POk [mkreg (data_cap (o_len o)) 0 off]
    | _ => PErr ETyp
    end
  end.

(** sexp_make_vector_op (sexp.c:1621-1635).  [clen] is sexp_unbox_fixnum(len) of whatever word is
    passed (the foreign path has NO fixnum test; the opcode path tests sexp_fixnump first), so the
    model takes any integer.  [max_len] = SEXP_MAX_VECTOR_LENGTH, [hdr] = sexp_sizeof(vector),
    [word] = sizeof(sexp).  The allocation size hdr + clen*word is size_t arithmetic (mod 2^64);
    the object then holds (size - hdr) / word element slots and the fill loop writes x[0 .. clen). *)
Definition prim_make_vector (max_len hdr word : Z) (clen : Z) : outcome :=
  if clen =? 0 then POk []                             (* the shared empty vector *)
  else if (clen <? 0) || (max_len <? clen) then PErr ERange
  else let size := (hdr + clen * word) mod B in
       POk [mkreg ((size - hdr) / word) 0 clen].

(** sexp_make_bytes_op (sexp.c:1178-1194): clen+1 bytes, memset of clen, terminator at clen *)
Definition prim_make_bytes (len : val) : outcome :=
  match len with
  | Fix clen => if clen <? 0 then PErr ERange
                else POk [mkreg (data_cap clen) 0 clen; mkreg (data_cap clen) clen 1]
  | _ => PErr ETyp
  end.

(** sexp_string_index_to_cursor (sexp.c:1277-1336, default configuration: no index table, no
    cache): the scan  for ( ; i>0 && j<limit; i--) j += sexp_utf8_initial_byte_count(p[j]);
    over the bytes [p] of a string of [limit] bytes.  Returns the remaining i, the final j and
    the offsets read (most recent first).  Fuel: every round advances j by at least 1. *)
Definition initial_byte_count (c : Z) : Z :=       (* sexp.c:1225-1229 *)
  if c <? 192 then 1 else if c <? 224 then 2 else ((c / 16) mod 2) + 3.

Fixpoint index_scan (fuel : nat) (p : list Z) (limit i j : Z) (reads : list Z) : Z * Z * list Z :=
  match fuel with
  | O => (i, j, reads)
  | S f => if (0 <? i) && (j <? limit)
           then index_scan f p limit (i - 1) (j + initial_byte_count (nth (Z.to_nat j) p 0)) (j :: reads)
           else (i, j, reads)
  end.

(** the whole primitive on a string with bytes [p] (length p = size): error unless i reaches 0 *)
Definition prim_index_to_cursor (p : list Z) (index : val) : outcome * Z :=
  match index with
  | Fix i => let limit := Z.of_nat (length p) in
             let '(i', j, reads) := index_scan (length p) p limit i 0 [] in
             if i' =? 0 then (POk (map (fun o => mkreg (data_cap limit) o 1) reads), j)
             else (PErr ERange, j)
  | _ => (PErr ETyp, 0)
  end.

(** sexp_string_utf8_ref (sexp.c:1252-1264), reached from SEXP_OP_STRING_REF after the test
    0 <= i < size: the lead byte p[i] alone decides how many bytes are read (1 for ASCII and for
    the bytes answered with "invalid utf8 byte", else 2, 3 or 4); there is no test against size. *)
Definition utf8_ref_len (c : Z) : Z :=
  if c <? 128 then 1
  else if (c <? 192) || (247 <? c) then 1
  else if c <? 224 then 2
  else if c <? 240 then 3
  else 4.

Definition prim_utf8_ref (p : list Z) (i : Z) : region :=
  mkreg (data_cap (Z.of_nat (length p))) i (utf8_ref_len (nth (Z.to_nat i) p 0)).

(** the REPAIRED sexp_string_utf8_ref (fixes/C01-utf8-truncated-lead-byte.patch): after the two one-byte cases a third test
    `sexp_utf8_initial_byte_count( *p) > size - i` answers "truncated utf8 sequence"; only then the continuation bytes are
    read.  [p] = the bytes of the string (any bytes), [i] = the cursor (0 <= i < size checked by the opcode). *)
Definition prim_utf8_ref_checked (p : list Z) (i : Z) : outcome :=
  let size := Z.of_nat (length p) in
  let c := nth (Z.to_nat i) p 0 in
  if c <? 128 then POk [mkreg (data_cap size) i 1]
  else if (c <? 192) || (247 <? c) then POk [mkreg (data_cap size) i 1]       (* "invalid utf8 byte": only *p was read *)
  else if size - i <? utf8_ref_len c then PErr ERange                          (* "truncated utf8 sequence" *)
  else POk [mkreg (data_cap size) i (utf8_ref_len c)].

(** sexp_utf8_initial_byte_count (sexp.c:1234-1238): 1, 2, or ((c>>4)&1)+3 - for the bytes F8..FF that is 4 as well *)
Definition utf8_initial_count (c : Z) : Z :=
  if c <? 192 then 1 else if c <? 224 then 2 else ((c / 16) mod 2) + 3.

(** sexp_string_utf8_set (eval.c:2072-2108), the resize branch, entered with 0 <= i < size and a character of
    [new_len] bytes: old_len comes from the lead byte at i; [clamp] = the repaired code, which cuts old_len down to
    the bytes that are left.  Regions: memcpy(q, data, i) [read, write]; memcpy(q+i+new_len, p+old_len,
    len-i-new_len+1) [read incl. the terminator, write]; the new character at q+i. *)
Definition prim_utf8_set (clamp : bool) (p : list Z) (i new_len : Z) : list region :=
  let size := Z.of_nat (length p) in
  let c := nth (Z.to_nat i) p 0 in
  let old0 := utf8_initial_count c in
  let old_len := if clamp && (size - i <? old0) then size - i else old0 in
  if old_len =? new_len then [mkreg (data_cap size) i new_len]                 (* written in place *)
  else
    let len := size + (new_len - old_len) in
    let tail := len - i - new_len + 1 in
    [mkreg (data_cap size) 0 i; mkreg (data_cap len) 0 i;
     mkreg (data_cap size) (i + old_len) tail; mkreg (data_cap len) (i + new_len) tail;
     mkreg (data_cap len) i new_len].

(** part 3 (stack growth) has no hand-written model: Gen/C01_Stack.v is translated from vm.c and
    C01/StackProofs.v proves the policy about the translated functions directly. *)
