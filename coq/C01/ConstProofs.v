(** C01 — obligations about the constants REGENERATED from the headers (Gen/C01_Consts.v). *)
From Coq Require Import ZArith Lia.
From ChibiV Require Import Common.Words C01.Model C01.Prims C01.PrimProofs Gen.C01_Consts.
Local Open Scope Z_scope.

(** the largest vector the code accepts still has an allocation size below 2^64 *)
Lemma vector_size_no_wrap_proof : max_vector_length * word_bytes + vector_header_bytes < B.
Proof. vm_compute. reflexivity. Qed.

(** the cursor encoding the model uses (n*8+2, 61-bit payload) is the one of the headers *)
Lemma cursor_encoding_proof : cursor_bits = 3 /\ cursor_tag = 2 /\ disjoint_cursors = 1 /\ 2 ^ (64 - cursor_bits - 1) = Q60.
Proof. vm_compute. repeat split; reflexivity. Qed.

Lemma stack_checks_enabled_proof : check_stack = 1 /\ grow_stack = 1 /\ init_stack_size <= max_stack_size.
Proof. vm_compute. repeat split; discriminate. Qed.

Lemma make_vector_in_bounds_proof : forall clen,
  regions_ok (prim_make_vector max_vector_length vector_header_bytes word_bytes clen).
Proof.
  intros clen. apply prim_make_vector_safe.
  - vm_compute. discriminate.
  - vm_compute. reflexivity.
  - exact vector_size_no_wrap_proof.
Qed.
