(** C01 — part 2: the range tests of the modelled foreign primitives suffice, for ALL argument
    values. *)
From Coq Require Import ZArith List Bool Lia.
From ChibiV Require Import Common.Words C01.Model C01.Prims.
Import ListNotations.
Local Open Scope Z_scope.

Definition regions_ok (r : outcome) : Prop :=
  match r with PErr _ => True | POk rs => Forall in_bounds rs end.

(** sizes of live objects fit the 61-bit cursor range (a string of 2^60 bytes cannot exist) *)
Definition wf_obj (o : obj) : Prop := 0 <= o_len o < Q60.
Definition wf_val (v : val) : Prop := match v with Ptr o => wf_obj o | _ => True end.

Lemma B_Q60 : B = 16 * Q60.  Proof. reflexivity. Qed.

Lemma uword_tag_small z : 0 <= z < Q60 -> uword (tag_cursor z) = z * 8 + 2.
Proof.
  intros Hz. unfold uword, tag_cursor. pose proof B_Q60 as HB.
  apply Z.mod_small. lia.
Qed.

Lemma orb_false_5 a b c d e : a || b || c || d || e = false ->
  a = false /\ b = false /\ c = false /\ d = false /\ e = false.
Proof. destruct a, b, c, d, e; simpl; intros H; try discriminate; auto. Qed.

Lemma substring_core_safe size s e : 0 <= size < Q60 -> regions_ok (substring_core size s e).
Proof.
  intros Hsz. unfold substring_core.
  destruct ((s <? 0) || (size <? s) || (e <? 0) || (size <? e)
            || (uword (tag_cursor e) <? uword (tag_cursor s))) eqn:E; [exact I|].
  apply orb_false_5 in E as (E1 & E2 & E3 & E4 & E5).
  apply Z.ltb_ge in E1, E2, E3, E4, E5.
  rewrite !uword_tag_small in E5 by lia.
  unfold copy_regions. cbv zeta.
  destruct (Z.ltb_spec (e - s) 0) as [Hn|Hn]; [lia|].
  unfold regions_ok, data_cap.
  repeat constructor; unfold in_bounds; cbn [r_off r_len r_cap]; lia.
Qed.

Lemma prim_substring_safe str start end_ : wf_val str -> regions_ok (prim_substring str start end_).
Proof.
  intros Hw. unfold prim_substring, is_str.
  destruct str as [z|z|z| |o]; try exact I.
  destruct (tag_eqb (o_tag o) TString); [|exact I].
  destruct start as [z|s|z| |o']; try exact I.
  destruct end_ as [[z|e|z| |o']|]; try exact I; apply substring_core_safe; exact Hw.
Qed.

Lemma prim_subbytes_safe vec start end_ : wf_val vec -> regions_ok (prim_subbytes vec start end_).
Proof.
  intros Hw. unfold prim_subbytes, is_bytes.
  destruct vec as [z|z|z| |o]; try exact I.
  destruct (tag_eqb (o_tag o) TBytes); [|exact I].
  destruct start as [s|z|z| |o']; try exact I.
  destruct end_ as [[e|z|z| |o']|]; try exact I; apply substring_core_safe; exact Hw.
Qed.

Lemma prim_cursor_to_index_safe str off : regions_ok (prim_cursor_to_index str off).
Proof.
  unfold prim_cursor_to_index, is_str.
  destruct str as [z|z|z| |o]; try exact I.
  destruct (tag_eqb (o_tag o) TString); [|exact I].
  destruct off as [z|c|z| |o']; try exact I.
  destruct ((c <? 0) || (o_len o <? c)) eqn:E; [exact I|].
  apply orb_false_iff in E as [E1 E2]. apply Z.ltb_ge in E1, E2.
  unfold regions_ok, data_cap. repeat constructor; unfold in_bounds; cbn [r_off r_len r_cap]; lia.
Qed.

Lemma prim_make_vector_safe max_len hdr word clen :
  0 <= hdr -> 0 < word -> max_len * word + hdr < B ->
  regions_ok (prim_make_vector max_len hdr word clen).
Proof.
  intros Hh Hw Hmax. unfold prim_make_vector.
  destruct (clen =? 0); [constructor|].
  destruct ((clen <? 0) || (max_len <? clen)) eqn:E; [exact I|].
  apply orb_false_iff in E as [E1 E2]. apply Z.ltb_ge in E1, E2.
  cbv zeta. assert (0 <= hdr + clen * word < B) as Hs by nia.
  rewrite (Z.mod_small _ _ Hs).
  replace (hdr + clen * word - hdr) with (clen * word) by lia.
  rewrite Z.div_mul by lia.
  unfold regions_ok. repeat constructor; unfold in_bounds; cbn [r_off r_len r_cap]; lia.
Qed.

(** with the bound of the pinned headers (2^61-1 elements of 8 bytes after a 16-byte header) the
    size wraps to 8 bytes and the fill loop leaves the object: F-C01-4 *)
Lemma prim_make_vector_pinned_bound_refuted :
  ~ regions_ok (prim_make_vector 2305843009213693951 16 8 2305843009213693951).
Proof.
  assert (prim_make_vector 2305843009213693951 16 8 2305843009213693951
          = POk [mkreg (-1) 0 2305843009213693951]) as E by (vm_compute; reflexivity).
  rewrite E. intros H. apply Forall_inv in H. unfold in_bounds in H.
  cbn [r_off r_len r_cap] in H. lia.
Qed.

Lemma prim_make_bytes_safe len : regions_ok (prim_make_bytes len).
Proof.
  unfold prim_make_bytes. destruct len as [n|z|z| |o]; try exact I.
  destruct (Z.ltb_spec n 0); [exact I|].
  unfold regions_ok, data_cap. repeat constructor; unfold in_bounds; cbn [r_off r_len r_cap]; lia.
Qed.

(** * string-index->cursor: every byte the scan looks at lies inside the string *)
Lemma ibc_pos c : 1 <= initial_byte_count c <= 4.
Proof.
  unfold initial_byte_count.
  destruct (c <? 192); [lia|]. destruct (c <? 224); [lia|].
  pose proof (Z.mod_pos_bound (c / 16) 2 ltac:(lia)). lia.
Qed.

Lemma index_scan_reads : forall fuel p limit i j reads,
  0 <= j -> Forall (fun r => 0 <= r < limit) reads ->
  let '(_, j', reads') := index_scan fuel p limit i j reads in
  0 <= j' /\ Forall (fun r => 0 <= r < limit) reads'.
Proof.
  induction fuel as [|f IH]; intros p limit i j reads Hj Hr; cbn [index_scan].
  - auto.
  - destruct ((0 <? i) && (j <? limit)) eqn:E.
    + apply andb_true_iff in E as [_ E2]. apply Z.ltb_lt in E2.
      pose proof (ibc_pos (nth (Z.to_nat j) p 0)).
      apply IH; [lia|]. constructor; [lia|exact Hr].
    + auto.
Qed.

(** the fuel (= number of bytes) never cuts the C loop short *)
Lemma index_scan_fuel : forall fuel p limit i j reads,
  limit <= j + Z.of_nat fuel ->
  let '(i', j', _) := index_scan fuel p limit i j reads in i' <= 0 \/ limit <= j'.
Proof.
  induction fuel as [|f IH]; intros p limit i j reads Hf; cbn [index_scan].
  - right. lia.
  - destruct ((0 <? i) && (j <? limit)) eqn:E.
    + pose proof (ibc_pos (nth (Z.to_nat j) p 0)). apply IH. lia.
    + apply andb_false_iff in E as [E|E]; apply Z.ltb_ge in E; [left|right]; lia.
Qed.

Lemma prim_index_to_cursor_safe p index : regions_ok (fst (prim_index_to_cursor p index)).
Proof.
  unfold prim_index_to_cursor. destruct index as [i|z|z| |o]; try exact I.
  cbv zeta.
  pose proof (index_scan_reads (length p) p (Z.of_nat (length p)) i 0 [] ltac:(lia) ltac:(constructor)) as H.
  destruct (index_scan (length p) p (Z.of_nat (length p)) i 0 []) as [[i' j'] reads'].
  destruct H as [_ H]. destruct (i' =? 0); [|exact I].
  cbn [fst regions_ok]. apply Forall_forall. intros r Hr. apply in_map_iff in Hr as [o [<- Ho]].
  rewrite Forall_forall in H. specialize (H o Ho).
  unfold in_bounds, data_cap. cbn [r_off r_len r_cap]. lia.
Qed.

(** non-vacuity: accepted calls with real regions, and rejected ones *)
Example ex_substring_ok :
  prim_substring (Ptr (mkobj TString 6 false)) (Cur 2) (Some (Cur 5))
  = POk [mkreg 7 2 3; mkreg 4 0 3; mkreg 4 3 1].
Proof. reflexivity. Qed.
Example ex_substring_end_past : prim_substring (Ptr (mkobj TString 6 false)) (Cur 2) (Some (Cur 7)) = PErr ERange.
Proof. reflexivity. Qed.
Example ex_substring_reversed : prim_substring (Ptr (mkobj TString 6 false)) (Cur 5) (Some (Cur 2)) = PErr ERange.
Proof. reflexivity. Qed.
(** a fixnum beyond the cursor range wraps: 2^61 becomes cursor 0, and is range-checked after the wrap *)
Example ex_subbytes_wrap :
  prim_subbytes (Ptr (mkobj TBytes 6 false)) (Fix 2305843009213693952) (Some (Fix 2))
  = POk [mkreg 7 0 2; mkreg 3 0 2; mkreg 3 2 1].
Proof. reflexivity. Qed.
Example ex_index_scan : prim_index_to_cursor [206; 187; 97; 226; 130; 172] (Fix 2)
  = (POk [mkreg 7 2 1; mkreg 7 0 1], 3).
Proof. reflexivity. Qed.
Example ex_index_scan_past : fst (prim_index_to_cursor [206; 187; 97] (Fix 3)) = PErr ERange.
Proof. reflexivity. Qed.
(** without the comparison of the tagged cursors the copy could be reached with end < start *)
Example ex_copy_needs_order : ~ regions_ok (copy_regions 6 5 2).
Proof. intros H. inversion H as [|r l Hb _]. unfold in_bounds in Hb. cbn in Hb. lia. Qed.

(** * string-cursor-ref: the continuation bytes *)

(** every lead byte has its continuation bytes inside the string (true of every string built from
    characters by the modelled constructors; NOT true of utf8->string on arbitrary bytes) *)
Definition leads_complete (p : list Z) : Prop :=
  forall i, 0 <= i < Z.of_nat (length p) -> i + utf8_ref_len (nth (Z.to_nat i) p 0) <= Z.of_nat (length p).

Lemma utf8_ref_len_bounds c : 1 <= utf8_ref_len c <= 4.
Proof.
  unfold utf8_ref_len. destruct (c <? 128); [lia|]. destruct ((c <? 192) || (247 <? c)); [lia|].
  destruct (c <? 224); [lia|]. destruct (c <? 240); lia.
Qed.

Lemma prim_utf8_ref_safe p i : leads_complete p -> 0 <= i < Z.of_nat (length p) -> in_bounds (prim_utf8_ref p i).
Proof.
  intros Hw Hi. specialize (Hw i Hi). pose proof (utf8_ref_len_bounds (nth (Z.to_nat i) p 0)).
  unfold in_bounds, prim_utf8_ref, data_cap. cbn [r_off r_len r_cap]. lia.
Qed.

(** without that premise the read leaves the string's bytes (incl. the terminator) by up to two
    bytes: the string "a\xf0" at cursor 1 (candidate F-C01-2) *)
Lemma prim_utf8_ref_trusts_lead_byte_refuted :
  exists p i, 0 <= i < Z.of_nat (length p) /\ ~ in_bounds (prim_utf8_ref p i).
Proof.
  exists [97; 240], 1. split; [cbn; lia|]. intros [_ [_ H]]. vm_compute in H. apply H. reflexivity.
Qed.

(** * the repaired string-ref / string-set!: no premise on the bytes any more *)

Lemma prim_utf8_ref_checked_safe p i : 0 <= i < Z.of_nat (length p) ->
  match prim_utf8_ref_checked p i with POk rs => Forall in_bounds rs | PErr _ => True end.
Proof.
  intros Hi. unfold prim_utf8_ref_checked. cbv zeta.
  pose proof (utf8_ref_len_bounds (nth (Z.to_nat i) p 0)) as Hb.
  destruct (nth (Z.to_nat i) p 0 <? 128).
  { constructor; [|constructor]. unfold in_bounds, data_cap. cbn [r_off r_len r_cap]. lia. }
  destruct ((nth (Z.to_nat i) p 0 <? 192) || (247 <? nth (Z.to_nat i) p 0)).
  { constructor; [|constructor]. unfold in_bounds, data_cap. cbn [r_off r_len r_cap]. lia. }
  destruct (Z.ltb_spec (Z.of_nat (length p) - i) (utf8_ref_len (nth (Z.to_nat i) p 0))) as [Hlt|Hge]; [exact I|].
  constructor; [|constructor]. unfold in_bounds, data_cap. cbn [r_off r_len r_cap]. lia.
Qed.

(** the error is raised only for a lead byte that really is cut off (the repair is not stricter than needed) *)
Lemma prim_utf8_ref_checked_complete p i : 0 <= i < Z.of_nat (length p) ->
  i + utf8_ref_len (nth (Z.to_nat i) p 0) <= Z.of_nat (length p) ->
  prim_utf8_ref_checked p i = POk [prim_utf8_ref p i].
Proof.
  intros Hi Hc. unfold prim_utf8_ref_checked, prim_utf8_ref, utf8_ref_len in *. cbv zeta.
  destruct (nth (Z.to_nat i) p 0 <? 128); [reflexivity|].
  destruct ((nth (Z.to_nat i) p 0 <? 192) || (247 <? nth (Z.to_nat i) p 0)); [reflexivity|].
  match goal with |- (if ?a <? ?b then _ else _) = _ => destruct (Z.ltb_spec a b) as [Hlt|Hge] end; [lia|reflexivity].
Qed.

Example ex_utf8_ref_checked_truncated : prim_utf8_ref_checked [97; 240] 1 = PErr ERange.
Proof. reflexivity. Qed.
Example ex_utf8_ref_checked_whole : prim_utf8_ref_checked [97; 240; 159; 152; 128] 1 = POk [mkreg 6 1 4].
Proof. reflexivity. Qed.

Lemma utf8_initial_count_bounds c : 0 <= c -> 1 <= utf8_initial_count c <= 4.
Proof.
  intros Hc. unfold utf8_initial_count. destruct (c <? 192); [lia|]. destruct (c <? 224); [lia|].
  pose proof (Z.mod_pos_bound (c / 16) 2 ltac:(lia)). lia.
Qed.

Lemma prim_utf8_set_safe p i n : (forall k, 0 <= nth k p 0) -> 0 <= i < Z.of_nat (length p) -> 1 <= n <= 4 ->
  Forall in_bounds (prim_utf8_set true p i n).
Proof.
  intros Hp Hi Hn. unfold prim_utf8_set. cbv zeta.
  pose proof (utf8_initial_count_bounds (nth (Z.to_nat i) p 0) (Hp _)) as Hb.
  set (size := Z.of_nat (length p)) in *. set (old0 := utf8_initial_count (nth (Z.to_nat i) p 0)) in *.
  cbn [andb].
  destruct (Z.ltb_spec (size - i) old0) as [Hcut|Hfit];
    match goal with |- Forall _ (if ?a =? ?b then _ else _) => destruct (Z.eqb_spec a b) as [He|He] end;
    repeat constructor; unfold data_cap; cbn [r_off r_len r_cap]; lia.
Qed.

(** the pinned code (old_len straight from the lead byte) computes a NEGATIVE copy length for a lead byte cut off by the end
    of the string: "aaaa\xf0", (string-set! s 4 #\b): memcpy(q+5, p+8, -2) *)
Lemma prim_utf8_set_unclamped_refuted :
  exists p i n, (forall k, 0 <= nth k p 0) /\ 0 <= i < Z.of_nat (length p) /\ 1 <= n <= 4 /\
                ~ Forall in_bounds (prim_utf8_set false p i n).
Proof.
  exists [97; 97; 97; 97; 240], 4, 1. split.
  { intros k. do 6 (destruct k as [|k]; [cbn; lia|]). cbn. lia. }
  split; [cbn; lia|]. split; [lia|]. intros H.
  inversion H as [|r1 l1 _ H1]; subst. inversion H1 as [|r2 l2 _ H2]; subst. inversion H2 as [|r3 l3 Hb _]; subst.
  unfold in_bounds in Hb. vm_compute in Hb. destruct Hb as [_ [Hb _]]. apply Hb. reflexivity.
Qed.

Example ex_utf8_set_clamped : prim_utf8_set true [97; 97; 97; 97; 240] 4 1 = [mkreg 6 4 1].
Proof. reflexivity. Qed.
Example ex_utf8_set_resize : prim_utf8_set true [97; 206; 187; 98] 1 1
  = [mkreg 5 0 1; mkreg 4 0 1; mkreg 5 3 2; mkreg 4 2 2; mkreg 4 1 1].
Proof. reflexivity. Qed.
