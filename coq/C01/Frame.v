(* C01/Frame.v - index-level model of the call / return / raise FRAME PROTOCOL
   of the VM of /repo/vm.c.  The stack is a TOTAL function Z -> cell together
   with its declared length: the model does NOT protect itself, a write at an
   index < 0 or >= len is performed and logged like any other.  Every index
   written / read is recorded (most recent first) so that FrameProofs.v can
   state "every access is inside the window and below the length".
   No proofs in this file. *)
Require Import ZArith List Bool.
Import ListNotations.
Open Scope Z_scope.

(* tagged words as the protocol sees them *)
Inductive cell := CFix (z : Z) | CObj (n : Z) | CNull | CPair (a d : cell).

(* sexp_unbox_fixnum is an arithmetic shift applied blindly *)
Definition unbox (c : cell) : Z :=
  match c with CFix z => z | CObj n => n | _ => 0 end.

(* sexp_procedure_num_args, the variadic / unused-rest flags, bytecode max_depth *)
Record proc := mkproc { p_nargs : Z; p_variadic : bool; p_unused_rest : bool; p_depth : Z }.

Record vm := mkvm {
  mem : Z -> cell;   (* stack[] *)
  len : Z;           (* sexp_stack_length *)
  top : Z; fp : Z; self : cell; ip : Z;
  wlog : list Z;     (* every index WRITTEN, most recent first *)
  rlog : list Z      (* every index READ *)
}.

Definition wr (s : vm) (k : Z) (v : cell) : vm :=
  mkvm (fun x => if Z.eqb x k then v else mem s x)
       (len s) (top s) (fp s) (self s) (ip s) (k :: wlog s) (rlog s).
(* a read of stack[k] is  [let s := logr s k in ... mem s k ...]  *)
Definition logr (s : vm) (k : Z) : vm :=
  mkvm (mem s) (len s) (top s) (fp s) (self s) (ip s) (wlog s) (k :: rlog s).
Definition set_top (s : vm) (t : Z) : vm :=
  mkvm (mem s) (len s) t (fp s) (self s) (ip s) (wlog s) (rlog s).
Definition set_len (s : vm) (l : Z) : vm :=
  mkvm (mem s) l (top s) (fp s) (self s) (ip s) (wlog s) (rlog s).
Definition set_regs (s : vm) (t f : Z) (sf : cell) (i : Z) : vm :=
  mkvm (mem s) (len s) t f sf i (wlog s) (rlog s).

Inductive outcome :=
| Enter (s : vm)              (* frame pushed, body of the callee starts *)
| Raise (msg : Z) (s : vm)    (* sexp_raise done, control at call_error_handler *)
| OOS (s : vm).               (* ensure_stack failed: _ARG1 = OOS error, goto end_loop *)

Definition MSG_NONPROC := 1.
Definition MSG_NOT_ENOUGH := 2.
Definition MSG_TOO_MANY := 3.
Definition MSG_IMPROPER := 4.
Definition OOS_ERROR := CObj 99.
Definition FINAL_RESUMER := CObj 98.

(* vm.c 1051-1061 sexp_ensure_stack(n).  [grow len top n] is the result of the
   growth arithmetic of sexp_grow_stack(ctx, top+n+1): Some new length or None
   (refused).  sexp_grow_stack copies stack[0..top+1] to the new array: the
   total [mem] is kept as is. *)
Definition ensure (grow : Z -> Z -> Z -> option Z) (n : Z) (s : vm) : option vm :=
  if len s <=? top s + n then
    match grow (len s) (top s) n with
    | Some l => Some (set_len s l)
    | None => None
    end
  else Some s.

(* the failure branch of the macro: _ARG1 = OOS error, i.e. stack[top-1] *)
Definition oos (s : vm) : outcome := OOS (wr s (top s - 1) OOS_ERROR).

(* vm.c 949-956 sexp_raise(msg, args): stack[top] = args; stack[top] =
   exception(..., stack[top]); top++.  NO ensure_stack. *)
Definition raise_push (msg : Z) (irritant : cell) (s : vm) : vm :=
  let t := top s in
  let s := wr s t irritant in
  let s := logr s t in
  let s := wr s t (CObj msg) in
  set_top s (t + 1).

(* ---- the loops ---- *)

(* vm.c 1435-1436: for (k=top-i; k<top-(i-j)-1; k++)
                     stack[top-i-1] = cons(stack[k], stack[top-i-1]);
   [base] is top-i-1, [n] the trip count *)
Fixpoint rest_loop (n : nat) (k base : Z) (s : vm) : vm :=
  match n with
  | O => s
  | S n' =>
    let s := logr s k in
    let s := logr s base in
    let s := wr s base (CPair (mem s k) (mem s base)) in
    rest_loop n' (k + 1) base s
  end.

(* ascending copy  stack[dst+m] = stack[src+m], m = 0..n-1.
   vm.c 1437-1438: for ( ; k<top; k++) stack[k-j+1] = stack[k];   (src = k, dst = k-j+1)
   vm.c 1402-1403: for (k=0; k<i; k++) stack[fp-j+k] = stack[top-1-i+k]; *)
Fixpoint copy_fwd (n : nat) (dst src : Z) (s : vm) : vm :=
  match n with
  | O => s
  | S n' =>
    let s := logr s src in
    let s := wr s dst (mem s src) in
    copy_fwd n' (dst + 1) (src + 1) s
  end.

(* vm.c 1448-1449: for (k=top; k>=top-i; k--) stack[k] = stack[k-1]; *)
Fixpoint copy_bwd (n : nat) (k : Z) (s : vm) : vm :=
  match n with
  | O => s
  | S n' =>
    let s := logr s (k - 1) in
    let s := wr s k (mem s (k - 1)) in
    copy_bwd n' (k - 1) s
  end.

(* vm.c 1193-1194 / 1377-1378: for (...; pairp(tmp2); tmp2=cdr(tmp2), top--) stack[k] = car(tmp2);
   structural on the list of the cars *)
Fixpoint spread (l : list cell) (k : Z) (s : vm) : vm :=
  match l with
  | [] => s
  | a :: l' => spread l' (k - 1) (wr s k a)
  end.

(* ---- make_call, vm.c 1413-1464 ---- *)

(* vm.c 1454-1463 *)
Definition push_frame (tmp1 : cell) (ret_ip : Z) (i : Z) (s : vm) : vm :=
  let t := top s in
  let s := wr s (t - 1) (CFix i) in           (* _ARG1 = make_fixnum(i) *)
  let s := wr s t (CFix ret_ip) in
  let s := wr s (t + 1) (self s) in
  let s := wr s (t + 2) (CFix (fp s)) in
  set_regs s (t + 3) (t + 3 - 4) tmp1 0.

(* vm.c 1434-1440: surplus arguments consed into the rest list *)
Definition rest_count (t i j : Z) : nat := Z.to_nat ((t - (i - j) - 1) - (t - i)).
Definition rest_used_surplus (i j : Z) (s : vm) : vm :=
  let t := top s in
  let base := t - i - 1 in
  let s := logr s base in
  let s := wr s base (CPair (mem s base) CNull) in
  let n1 := rest_count t i j in
  let s := rest_loop n1 (t - i) base s in
  let k := t - i + Z.of_nat n1 in              (* value of k when the first loop stops *)
  let s := copy_fwd (Z.to_nat (t - k)) (k - j + 1) k s in
  set_top s (t - (j - 1)).

(* vm.c 1447-1452: exact argument count, rest parameter = '() *)
Definition empty_count (t i : Z) : nat := Z.to_nat (t - (t - i) + 1).
Definition rest_used_empty (i : Z) (s : vm) : vm :=
  let t := top s in
  let s := copy_bwd (empty_count t i) t s in
  let s := wr s (t - i - 1) CNull in
  set_top s (t + 1).

(* [tmp1] is the register holding the callee (also at stack[top-1]);
   [p] its decoding: None = not a procedure.  [ret_ip] = ip+sizeof(sexp)-data(bc). *)
Definition make_call (grow : Z -> Z -> Z -> option Z) (tmp1 : cell) (p : option proc)
           (i : Z) (ret_ip : Z) (s : vm) : outcome :=
  match p with
  | None => Raise MSG_NONPROC (raise_push MSG_NONPROC tmp1 s)
  | Some p =>
    let j := i - p_nargs p in
    if j <? 0 then Raise MSG_NOT_ENOUGH (raise_push MSG_NOT_ENOUGH tmp1 s) else
    match ensure grow (p_depth p + 64) s with
    | None => oos s
    | Some s =>
      if 0 <? j then
        if p_variadic p then
          if negb (p_unused_rest p)
          then Enter (push_frame tmp1 ret_ip (i - (j - 1)) (rest_used_surplus i j s))
          else Enter (push_frame tmp1 ret_ip i s)
        else Raise MSG_TOO_MANY (raise_push MSG_TOO_MANY tmp1 s)
      else if p_variadic p && negb (p_unused_rest p)
      then Enter (push_frame tmp1 ret_ip (i + 1) (rest_used_empty i s))
      else Enter (push_frame tmp1 ret_ip i s)
    end
  end.

(* a deliberately WRONG variant: the shift loop of the empty-rest protocol runs
   one step further (k >= top-i-1).  Only used by a counter-example. *)
Definition rest_used_empty_bad (i : Z) (s : vm) : vm :=
  let t := top s in
  let s := copy_bwd (S (empty_count t i)) t s in
  let s := wr s (t - i - 1) CNull in
  set_top s (t + 1).

(* vm.c 1409-1412 SEXP_OP_CALL; [decode] = the heap's view of a word as a procedure *)
Definition op_call grow (decode : cell -> option proc) (i : Z) (s : vm) : outcome :=
  let s := logr s (top s - 1) in
  let tmp1 := mem s (top s - 1) in
  make_call grow tmp1 (decode tmp1) i (ip s + 1) s.

(* vm.c 1390-1407 SEXP_OP_TAIL_CALL up to the goto *)
Definition tail_call_prep (i : Z) (s : vm) : cell * vm :=
  let t := top s in
  let f := fp s in
  let s := logr s (t - 1) in let tmp1 := mem s (t - 1) in
  let s := logr s (f + 3) in let tmp2 := mem s (f + 3) in
  let s := logr s f in let j := unbox (mem s f) in
  let s := logr s (f + 2) in let sf := mem s (f + 2) in
  let s := logr s (f + 1) in let rip := unbox (mem s (f + 1)) in
  let s := copy_fwd (Z.to_nat i) (f - j) (t - 1 - i) s in
  let s := set_top s (f + i - j) in
  let s := set_top (wr s (top s) tmp1) (top s + 1) in      (* _PUSH(tmp1) *)
  (tmp1, set_regs s (top s) (unbox tmp2) sf (rip - 1)).
Definition op_tail_call grow (decode : cell -> option proc) (i : Z) (s : vm) : outcome :=
  let '(tmp1, s) := tail_call_prep i s in
  make_call grow tmp1 (decode tmp1) i (ip s + 1) s.

(* vm.c 1360-1389 SEXP_OP_APPLY1.  [args] = the cars of the pairs of tmp2,
   [proper] = its final cdr is '();  i = sexp_length = number of pairs *)
Definition apply1_spread (tmp1 : cell) (args : list cell) (s : vm) : vm :=
  let f := fp s in
  let i := Z.of_nat (length args) in
  let s := logr s (f + 3) in let k := unbox (mem s (f + 3)) in
  let s := logr s f in let j := unbox (mem s f) in
  let s := logr s (f + 2) in let sf := mem s (f + 2) in
  let s := logr s (f + 1) in let rip := unbox (mem s (f + 1)) in
  let s := spread args (f - j + i - 1) s in
  let s := set_top s (f + i - j) in
  let s := set_top (wr s (top s) tmp1) (top s + 1) in
  set_regs s (top s) k sf (rip - 1).
Definition op_apply1 grow (decode : cell -> option proc) (args : list cell) (proper : bool)
           (s : vm) : outcome :=
  let s := logr s (top s - 1) in let tmp1 := mem s (top s - 1) in
  let s := logr s (top s - 2) in
  let i := Z.of_nat (length args) in
  let depth := match decode tmp1 with Some p => p_depth p | None => 0 end in
  match ensure grow (i + 64 + depth) s with
  | None => oos s
  | Some s =>
    let prev_top := top s in
    let s := apply1_spread tmp1 args s in
    if proper then make_call grow tmp1 (decode tmp1) i (ip s + 1) s
    else
      let s := set_top s prev_top in
      let s := logr s (prev_top - 2) in
      Raise MSG_IMPROPER (raise_push MSG_IMPROPER (mem s (prev_top - 2)) s)
  end.

(* vm.c 2402-2411 SEXP_OP_RET *)
Definition op_ret (s : vm) : vm :=
  let f := fp s in
  let s := logr s f in let i := unbox (mem s f) in
  let s := logr s (top s - 1) in
  let s := wr s (f - i) (mem s (top s - 1)) in
  let s := logr s (f + 2) in
  let s := logr s (f + 1) in
  let s := logr s (f + 3) in
  set_regs s (f - i + 1) (unbox (mem s (f + 3))) (mem s (f + 2)) (unbox (mem s (f + 1))).

(* vm.c 1287-1326 SEXP_OP_RAISE (non-trampoline part) *)
Inductive routcome := Handler (s : vm) | EndLoop (s : vm).
Definition op_raise (htmp : cell) (handler : option proc) (is_exn : bool) (s : vm) : routcome :=
  match handler with
  | None =>
    (* not an exception: _ARG1 = make_exception(UNCAUGHT ... _ARG1 ...) *)
    if is_exn then EndLoop s
    else let s := logr s (top s - 1) in EndLoop (wr s (top s - 1) (CObj 5))
  | Some _ =>
    let t := top s in
    let s := wr s t (CFix 1) in
    let s := wr s (t + 1) (CFix (ip s)) in
    let s := wr s (t + 2) (self s) in
    let s := wr s (t + 3) (CFix (fp s)) in
    Handler (set_regs s (t + 4) (t + 4 - 4) htmp 0)
  end.

(* vm.c 1168-1198 sexp_apply prologue; entry_top = top s *)
Definition apply_entry grow (tmp1 : cell) (p : option proc) (args : list cell) (s : vm) : outcome :=
  let s := set_regs s (top s) (top s - 4) FINAL_RESUMER (-1) in
  let i := Z.of_nat (length args) in
  let depth := match p with Some p => p_depth p | None => 0 end in
  match ensure grow (i + 64 + depth) s with
  | None => oos s
  | Some s =>
    let s := set_top s (top s + i) in
    let s := spread args (top s - 1) s in      (* _ARG1 = car(tmp2), top-- *)
    let s := set_top s (top s - i) in          (* the i decrements of the loop *)
    let s := set_top s (top s + i) in          (* top += i *)
    let s := set_top (wr s (top s) tmp1) (top s + 1) in
    make_call grow tmp1 p i (ip s + 1) s
  end.

(* vm.c 2452-2455 end_loop: the context top that sexp_apply leaves *)
Definition apply_exit (entry_top : Z) (is_exception : bool) (s : vm) : Z :=
  if is_exception then entry_top else top s - 1.

(* eval.c 2795-2817 sexp_eval_op on the fields of ctx that it saves.  [run] is
   everything that happens between the save and the restore (context creation,
   compile, sexp_apply on the child context ctx2 which has ITS OWN stack):
   an arbitrary transformation of ctx's fields and a result kind. *)
Record ctx := mkctx { c_top : Z; c_params : cell; c_child : cell }.
Definition eval_op (ctx2 : cell) (run : ctx -> ctx * bool) (c : ctx) : ctx * bool :=
  let t := c_top c in
  let params := c_params c in
  let c := mkctx (c_top c) CNull (c_child c) in
  let tmp := c_child c in
  let c := mkctx (c_top c) (c_params c) ctx2 in
  let '(c, res) := run c in
  let c := mkctx (c_top c) (c_params c) tmp in
  let c := mkctx (c_top c) params (c_child c) in
  let c := mkctx t (c_params c) (c_child c) in
  (c, res).
