(** C01 round 4 — the buffer discipline of the reader's token collectors (executable model, no proofs here).

    Mirrors the common shape of [sexp_read_string] (sexp.c, the loop from
    [for (c = sexp_read_char(ctx, in); c != sentinel; ...)] to [maybe_expand:] and the final [buf[i] = '\0']) and of
    [sexp_read_symbol] (same file): a buffer [buf] of [size] bytes (first the on-stack [initbuf] of
    INIT_STRING_BUFFER_SIZE bytes, later malloc blocks), a fill index [i]; every iteration WRITES [w] bytes at [buf+i]
    ([buf[i++] = c]: w = 1; the [\x...;] escape: [sexp_utf8_encode_char(buf+i, len, c); i += len] with
    w = len = sexp_utf8_char_byte_count(c); a line continuation writes nothing: w = 0) and only THEN tests
    [if (i + H >= size)] — expanding to a malloc block of [size*2] bytes, [memcpy(tmp, buf, i)], [size *= 2].
    After the loop one more byte is written: [buf[i] = '\0'].

    The model does not protect itself: every access is LOGGED as a region (offset, length, capacity of the buffer
    it goes to); "in bounds" is a theorem about the log.  The constants (initial size, the H of the test, the largest
    w) are REGENERATED from sexp.c (coq/Gen/C01_ReadBuf.v). *)
From Coq Require Import ZArith List.
Import ListNotations.
Local Open Scope Z_scope.

Record rbparams := mkrb { rb_init : Z;      (* INIT_STRING_BUFFER_SIZE *)
                          rb_head : Z;      (* H of [if (i + H >= size)]; [i > size] is H = -1 *)
                          rb_maxw : Z }.    (* most bytes one iteration writes before the test *)

Record rbstate := mkst { rb_pos : Z; rb_size : Z }.

(** a logged access: offset, length, capacity of the block accessed *)
Definition region := (Z * Z * Z)%type.
Definition region_ok (r : region) : Prop := let '(off, len, cap) := r in 0 <= off /\ 0 <= len /\ off + len <= cap.
Definition region_okb (r : region) : bool := let '(off, len, cap) := r in (0 <=? off) && (0 <=? len) && (off + len <=? cap).

(** one iteration writing [w] bytes, then [maybe_expand] *)
Definition rb_step (p : rbparams) (st : rbstate) (w : Z) : rbstate * list region :=
  let i  := rb_pos st in
  let i' := i + w in
  let wr := (i, w, rb_size st) in                               (* the write of this iteration: buf[i .. i+w) *)
  if i' + rb_head p >=? rb_size st
  then (mkst i' (2 * rb_size st),
        [wr; (0, i', rb_size st);                               (* memcpy source: old buffer, i bytes *)
             (0, i', 2 * rb_size st)])                          (* memcpy destination: the new block *)
  else (mkst i' (rb_size st), [wr]).

Fixpoint rb_run (p : rbparams) (st : rbstate) (ws : list Z) : rbstate * list region :=
  match ws with
  | [] => (st, [])
  | w :: ws' => let '(st1, l1) := rb_step p st w in
                let '(st2, l2) := rb_run p st1 ws' in (st2, l1 ++ l2)
  end.

(** the whole routine: the loop, then the terminating NUL *)
Definition rb_collect (p : rbparams) (ws : list Z) : list region :=
  let '(st, l) := rb_run p (mkst 0 (rb_init p)) ws in
  l ++ [(rb_pos st, 1, rb_size st)].

(** what the constants must satisfy (checked by vm_compute on the regenerated ones) *)
Definition rb_params_ok (p : rbparams) : bool :=
  (0 <=? rb_head p) && (1 <=? rb_maxw p) && (rb_maxw p <=? rb_head p + 1) && (rb_head p + rb_maxw p <? rb_init p).

(** the fixed digit buffer of [sexp_read_float_tail]: [char digits[LEN + SLACK]]; digits are stored only while
    [ndigits < LEN]; the exponent suffix is printed by [snprintf(digits+ndigits, N, ...)] only when [ndigits < LEN];
    the first [snprintf(digits, LEN, "%.0f", whole)] returns at most [WHOLE] (309 digits of the largest double + sign) *)
Record fbparams := mkfb { fb_len : Z; fb_slack : Z; fb_snprintf_n : Z; fb_whole : Z }.
Definition fb_params_ok (p : fbparams) : bool :=
  (fb_whole p <? fb_len p) && (fb_snprintf_n p <=? fb_slack p + 1) && (0 <=? fb_slack p) && (0 <? fb_snprintf_n p).
(** accesses for [k] fraction digits offered after a whole part of [w0] characters *)
Definition fb_collect (p : fbparams) (w0 k : Z) : list region :=
  let cap := fb_len p + fb_slack p in
  let stored := Z.max 0 (Z.min k (fb_len p - w0)) in
  let nd := w0 + stored in
  [(0, Z.min (w0 + 1) (fb_len p), cap); (w0, stored, cap)] ++
  (if nd <? fb_len p then [(nd, fb_snprintf_n p, cap)] else []).
