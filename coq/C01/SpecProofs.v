(** C01 — the guards REGENERATED from vm.c implement the SPEC of the opcode-backed primitives:
    when no guard of the opcode raises, the SPEC does not demand an error (the operands are inside
    the safe domain), and when the SPEC demands a value no guard raises (the guards are not
    stricter than the domain).  Together with [vm_ops_accesses_safe] this connects the
    hand-written SPEC, the generated table and the access requirements inside Coq. *)
From Coq Require Import ZArith List Bool Lia.
From ChibiV Require Import C01.Model C01.Spec Gen.C01_VmGuards.
Import ListNotations.
Local Open Scope Z_scope.

(** [passes k a1..a4]: no guard of table entry k raises on these operands *)
Definition passes (k : Z) (a1 a2 a3 a4 : val) : Prop := run_entry vm_table k a1 a2 a3 a4 = -1.

Ltac finish :=
  repeat match goal with
         | H : (_ <=? _) = true |- _ => apply Z.leb_le in H
         | H : (_ <=? _) = false |- _ => apply Z.leb_gt in H
         | H : (_ <? _) = true |- _ => apply Z.ltb_lt in H
         | H : (_ <? _) = false |- _ => apply Z.ltb_ge in H
         | H : (_ =? _) = true |- _ => apply Z.eqb_eq in H
         | H : (_ =? _) = false |- _ => apply Z.eqb_neq in H
         end;
  try discriminate; try congruence; try lia.

Ltac red_all :=
  cbn [first_raise guard_holds holds mk_state sarg junk eval_i eval_l len_as cmpb tag_eqb o_tag o_len o_imm negb
       spec andb orb Z.add Pos.add Pos.succ Pos.add_carry] in *;
  unfold indexed, typed, typed_io, is_obj, in_range in *.

(** follow the guards: split only the value, object, tag or comparison the next test is stuck on;
    a branch in which a guard raises has a hypothesis k = -1 with k >= 0 and is closed at once *)
Ltac follow :=
  repeat (red_all; try discriminate;
          match goal with
          | H : context [match ?v with _ => _ end] |- _ => is_var v; destruct v
          | H : context [if ?b then _ else _] |- _ => destruct b eqn:?
          | |- context [match ?v with _ => _ end] => is_var v; destruct v
          | |- context [if ?b then _ else _] => destruct b eqn:?
          end).

Ltac norm_table :=
  unfold passes, run_entry in *;
  repeat match goal with
  | H : context [lookup vm_table ?c] |- _ =>
      let e := eval vm_compute in (lookup vm_table c) in change (lookup vm_table c) with e in H
  | |- context [lookup vm_table ?c] =>
      let e := eval vm_compute in (lookup vm_table c) in change (lookup vm_table c) with e
  end.

Ltac solve_refine := intros; norm_table; follow; red_all; finish; try reflexivity.

(** soundness direction, by operand shape: each lemma fixes the shapes that matter and leaves the
    numbers universally quantified *)
Section Refine.
  Variables a1 a2 a3 a4 : val.

  Lemma refine_vector_ref : passes code_VECTOR_REF a1 a2 a3 a4 -> spec PrVectorRef [a1; a2] <> MustError.
  Proof. solve_refine. Qed.
  Lemma refine_vector_set : passes code_VECTOR_SET a1 a2 a3 a4 -> spec PrVectorSet [a1; a2; a3] <> MustError.
  Proof. solve_refine. Qed.
  Lemma refine_vector_length : passes code_VECTOR_LENGTH a1 a2 a3 a4 -> spec PrVectorLength [a1] <> MustError.
  Proof. solve_refine. Qed.
  Lemma refine_bytes_ref : passes code_BYTES_REF a1 a2 a3 a4 -> spec PrBytesRef [a1; a2] <> MustError.
  Proof. solve_refine. Qed.
  Lemma refine_bytes_set : passes code_BYTES_SET a1 a2 a3 a4 -> spec PrBytesSet [a1; a2; a3] <> MustError.
  Proof. solve_refine. Qed.
  Lemma refine_bytes_length : passes code_BYTES_LENGTH a1 a2 a3 a4 -> spec PrBytesLength [a1] <> MustError.
  Proof. solve_refine. Qed.
  Lemma refine_string_ref : passes code_STRING_REF a1 a2 a3 a4 -> spec PrStringCursorRef [a1; a2] <> MustError.
  Proof. solve_refine. Qed.
  Lemma refine_string_set : passes code_STRING_SET a1 a2 a3 a4 -> spec PrStringCursorSet [a1; a2; a3] <> MustError.
  Proof. solve_refine. Qed.
  Lemma refine_cursor_next : passes code_STRING_CURSOR_NEXT a1 a2 a3 a4 -> spec PrStringCursorNext [a1; a2] <> MustError.
  Proof. solve_refine. Qed.
  Lemma refine_cursor_prev : passes code_STRING_CURSOR_PREV a1 a2 a3 a4 -> spec PrStringCursorPrev [a1; a2] <> MustError.
  Proof. solve_refine. Qed.
  Lemma refine_cursor_end : passes code_STRING_CURSOR_END a1 a2 a3 a4 -> spec PrStringCursorEnd [a1] <> MustError.
  Proof. solve_refine. Qed.
  Lemma refine_string_length : passes code_STRING_LENGTH a1 a2 a3 a4 -> spec PrStringLength [a1] <> MustError.
  Proof. solve_refine. Qed.
  Lemma refine_car : passes code_CAR a1 a2 a3 a4 -> spec PrCar [a1] <> MustError.
  Proof. solve_refine. Qed.
  Lemma refine_cdr : passes code_CDR a1 a2 a3 a4 -> spec PrCdr [a1] <> MustError.
  Proof. solve_refine. Qed.
  Lemma refine_set_car : passes code_SET_CAR a1 a2 a3 a4 -> spec PrSetCar [a1; a2] <> MustError.
  Proof. solve_refine. Qed.
  Lemma refine_set_cdr : passes code_SET_CDR a1 a2 a3 a4 -> spec PrSetCdr [a1; a2] <> MustError.
  Proof. solve_refine. Qed.
  Lemma refine_make_vector : passes code_MAKE_VECTOR a1 a2 a3 a4 -> spec PrMakeVector [a1; a2] <> MustError.
  Proof. solve_refine. Qed.

  (** completeness direction: inside the must-value domain no guard raises *)
  Lemma complete_vector_ref : spec PrVectorRef [a1; a2] = MustValue -> passes code_VECTOR_REF a1 a2 a3 a4.
  Proof. solve_refine. Qed.
  Lemma complete_bytes_set : spec PrBytesSet [a1; a2; a3] = MustValue -> passes code_BYTES_SET a1 a2 a3 a4.
  Proof. solve_refine. Qed.
  Lemma complete_cursor_next : spec PrStringCursorNext [a1; a2] = MustValue -> passes code_STRING_CURSOR_NEXT a1 a2 a3 a4.
  Proof. solve_refine. Qed.
End Refine.

(** all twenty-four in one statement (the multi-path opcodes WRITE_CHAR / READ_CHAR / PEEK_CHAR through their first path: the
    type guards are common to all paths) *)
Definition prim_code (p : prim) : Z :=
  match p with
  | PrVectorRef => code_VECTOR_REF | PrVectorSet => code_VECTOR_SET | PrVectorLength => code_VECTOR_LENGTH
  | PrBytesRef => code_BYTES_REF | PrBytesSet => code_BYTES_SET | PrBytesLength => code_BYTES_LENGTH
  | PrStringCursorRef => code_STRING_REF | PrStringCursorSet => code_STRING_SET
  | PrStringCursorNext => code_STRING_CURSOR_NEXT | PrStringCursorPrev => code_STRING_CURSOR_PREV
  | PrStringCursorEnd => code_STRING_CURSOR_END | PrStringLength => code_STRING_LENGTH
  | PrCar => code_CAR | PrCdr => code_CDR | PrSetCar => code_SET_CAR | PrSetCdr => code_SET_CDR
  | PrMakeVector => code_MAKE_VECTOR
  | PrCharToInt => code_CHAR2INT | PrIntToChar => code_INT2CHAR | PrCharUpcase => code_CHAR_UPCASE
  | PrCharDowncase => code_CHAR_DOWNCASE | PrWriteChar => code_WRITE_CHAR | PrReadChar => code_READ_CHAR
  | PrPeekChar => code_PEEK_CHAR
  end.

Definition prim_args (p : prim) (a1 a2 a3 : val) : list val :=
  match p with
  | PrVectorLength | PrBytesLength | PrStringCursorEnd | PrStringLength | PrCar | PrCdr
  | PrCharToInt | PrIntToChar | PrCharUpcase | PrCharDowncase | PrReadChar | PrPeekChar => [a1]
  | PrVectorSet | PrBytesSet | PrStringCursorSet => [a1; a2; a3]
  | _ => [a1; a2]
  end.

Lemma guards_refine_spec_proof : forall p a1 a2 a3 a4,
  passes (prim_code p) a1 a2 a3 a4 -> spec p (prim_args p a1 a2 a3) <> MustError.
Proof.
  intros p a1 a2 a3 a4. destruct p; cbn [prim_code prim_args].
  - apply refine_vector_ref.  - apply refine_vector_set.  - apply refine_vector_length.
  - apply refine_bytes_ref.  - apply refine_bytes_set.  - apply refine_bytes_length.
  - apply refine_string_ref.  - apply refine_string_set.  - apply refine_cursor_next.
  - apply refine_cursor_prev.  - apply refine_cursor_end.  - apply refine_string_length.
  - apply refine_car.  - apply refine_cdr.  - apply refine_set_car.  - apply refine_set_cdr.
  - apply refine_make_vector.
  - solve_refine.  - solve_refine.  - solve_refine.  - solve_refine.  - solve_refine.  - solve_refine.  - solve_refine.
Qed.

Lemma guards_complete_spec_proof : forall p a1 a2 a3 a4,
  spec p (prim_args p a1 a2 a3) = MustValue -> passes (prim_code p) a1 a2 a3 a4.
Proof. intros p a1 a2 a3 a4. destruct p; cbn [prim_code prim_args]; solve_refine. Qed.

(** both directions are falsifiable: an index equal to the length passes no table and is MustError *)
Example ex_refine_boundary :
  ~ passes code_VECTOR_REF (Ptr (mkobj TVector 3 false)) (Fix 3) Imm Imm
  /\ spec PrVectorRef [Ptr (mkobj TVector 3 false); Fix 3] = MustError
  /\ passes code_VECTOR_REF (Ptr (mkobj TVector 3 false)) (Fix 2) Imm Imm.
Proof. unfold passes. repeat split; vm_compute; congruence. Qed.
