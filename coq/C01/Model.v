(** C01 — evaluation never corrupts memory: executable model, part 1.

    The VM opcodes of vm.c (switch in sexp_apply, vm.c:1169-2290) that touch heap objects through
    their stack operands are described by a *guard table*: for every opcode the ordered list of
    - guards     `if (! pred(_ARGk)) sexp_raise(...)`, `if ((i < 0) || (i >= len(_ARGk))) sexp_raise(...)`
    - accesses   `sexp_vector_data(x)[i]`, `sexp_bytes_data(x)[i]`, string bytes, header fields
    - operand updates (`_ARGk = ...`, `top--`) after which earlier facts are stale.
    The table itself is REGENERATED from vm.c by gen/c01_vmguards.py into Gen/C01_VmGuards.v;
    this file defines what a table entry means ([trace_ok]) and the checker [entry_safe].
    No proofs here. *)
From Coq Require Import ZArith List Bool.
Import ListNotations.
Local Open Scope Z_scope.

(** * Values as the guards see them *)

(** _ARG1 .. _ARG6 of vm.c:915-920 (stack[top-k]) *)
Inductive arg := A1 | A2 | A3 | A4 | A5 | A6.

(** heap object kinds the modelled opcodes distinguish (sexp.h sexp_pointer_tag) *)
Inductive tag := TPair | TVector | TBytes | TString | TIPort | TOPort | TOther.

(** header of a live heap object: tag, the per-type length field (vector length, bytes length,
    string size in bytes), immutable flag (sexp.h:438-452) *)
Record obj := mkobj { o_tag : tag; o_len : Z; o_imm : bool }.

(** a tagged word: fixnum, string cursor, character, other immediate, pointer to a live object *)
Inductive val := Fix (z : Z) | Cur (z : Z) | Chr (z : Z) | Imm | Ptr (o : obj).

(** the type predicates used by guards: sexp_fixnump, sexp_string_cursorp, sexp_charp, sexp_pairp,
    sexp_vectorp, sexp_bytesp, sexp_stringp (sexp.h:760-830) *)
Inductive pred := PFixnum | PCursor | PChar | PPair | PVector | PBytes | PString
  | PIPort | POPort.     (* sexp_iportp / sexp_oportp = sexp_check_tag(x, SEXP_IPORT / SEXP_OPORT) *)

Definition arg_eqb (a b : arg) : bool :=
  match a, b with
  | A1, A1 | A2, A2 | A3, A3 | A4, A4 | A5, A5 | A6, A6 => true
  | _, _ => false
  end.

Definition tag_eqb (a b : tag) : bool :=
  match a, b with
  | TPair, TPair | TVector, TVector | TBytes, TBytes | TString, TString | TOther, TOther
  | TIPort, TIPort | TOPort, TOPort => true
  | _, _ => false
  end.

Definition pred_eqb (a b : pred) : bool :=
  match a, b with
  | PFixnum, PFixnum | PCursor, PCursor | PChar, PChar | PPair, PPair
  | PVector, PVector | PBytes, PBytes | PString, PString | PIPort, PIPort | POPort, POPort => true
  | _, _ => false
  end.

(** heap type tested by a predicate (None: an immediate predicate) *)
Definition pred_tag (p : pred) : option tag :=
  match p with
  | PPair => Some TPair | PVector => Some TVector | PBytes => Some TBytes | PString => Some TString
  | PIPort => Some TIPort | POPort => Some TOPort
  | PFixnum | PCursor | PChar => None
  end.

(** sexp_check_tag(x,t) = sexp_pointerp(x) && sexp_pointer_tag(x)==t : safe on every value *)
Definition holds (p : pred) (v : val) : bool :=
  match p, v with
  | PFixnum, Fix _ => true
  | PCursor, Cur _ => true
  | PChar, Chr _ => true
  | PPair, Ptr o => tag_eqb (o_tag o) TPair
  | PVector, Ptr o => tag_eqb (o_tag o) TVector
  | PBytes, Ptr o => tag_eqb (o_tag o) TBytes
  | PString, Ptr o => tag_eqb (o_tag o) TString
  | PIPort, Ptr o => tag_eqb (o_tag o) TIPort
  | POPort, Ptr o => tag_eqb (o_tag o) TOPort
  | _, _ => false
  end.

(** * Expressions of the guards *)

(** index expressions: sexp_unbox_fixnum(_ARGk), sexp_unbox_string_cursor(_ARGk) *)
Inductive iexp := IFix (a : arg) | ICur (a : arg) | IChr (a : arg).   (* IChr: sexp_unbox_character(_ARGa) *)

(** bounds: literal, sexp_vector_length(_ARGk), sexp_bytes_length(_ARGk), sexp_string_size(_ARGk) *)
Inductive lexp := LConst (z : Z) | LVec (a : arg) | LBytes (a : arg) | LStr (a : arg).

Inductive cmp := CLt | CLe | CGt | CGe.

(** a guard, written as the condition under which execution CONTINUES (the C text raises on its
    negation) *)
Inductive guard :=
  | GIs (p : pred) (a : arg)               (* if (! pred(_ARGa)) sexp_raise *)
  | GMutable (a : arg)                     (* if (sexp_immutablep(_ARGa)) sexp_raise *)
  | GCmp (i : iexp) (c : cmp) (l : lexp).  (* if (!(i c l)) sexp_raise *)

(** memory accesses an opcode body performs through its operands *)
Inductive access :=
  | AVecData (v : arg) (i : iexp)      (* sexp_vector_data(_ARGv)[i]   read or write *)
  | ABytesData (b : arg) (i : iexp)    (* sexp_bytes_data(_ARGb)[i] *)
  | AStrByte (s : arg) (i : iexp)      (* sexp_string_data(_ARGs)[i], the byte a cursor points at *)
  | AStrByteT (s : arg) (i : iexp)     (* the same, where i may also be the terminator position:
                                          string bytes live in a bytes object allocated with one
                                          extra 0 byte (sexp_make_bytes_op, sexp.c:1183-1192) *)
  | AStrPrev (s : arg) (i : iexp)      (* sexp_string_utf8_prev(data+i): first read is data[i-1] *)
  | AField (p : pred) (a : arg)        (* a header field of _ARGa viewed as type p: length, car, cdr *)
  | APtr (a : arg)                     (* the common header of _ARGa: (x)->immutablep *)
  | AAlloc (i : iexp)                  (* allocation of i elements: i must not be negative *)
  | AUnbox (i : iexp)                  (* an unboxed operand used as a VALUE (result, callee argument): the operand must have
                                          the immediate type, or the number is junk *)
  | AUnknown.                          (* anything the translator could not classify *)

Inductive item :=
  | IGuard (g : guard)
  | IAccess (x : access)
  | IWhen (g : guard) (xs : list access)
                           (* if (g) <statement performing xs>; else <statement without access> *)
  | IAssign (a : arg)      (* _ARGa = ... : facts about _ARGa are stale *)
  | ITop.                  (* top changes: every _ARGk now names another slot *)

(** one opcode: its number in the generator's name list, and its body *)
Definition entry := (Z * list item)%type.

(** * Semantics *)

Inductive junk_kind := KFix | KCur | KLen | KChr.

(** operand values, plus what the unchecked C expressions yield on ill-typed operands: unboxing a
    non-fixnum or reading the "length" of a non-vector gives *some* number; the model leaves it
    arbitrary (a component of the state, universally quantified in the theorems) *)
Record state := mkstate { sarg : arg -> val; junk : junk_kind -> val -> Z }.

Definition set_arg (st : state) (a : arg) (v : val) : state :=
  mkstate (fun b => if arg_eqb a b then v else sarg st b) (junk st).

Definition eval_i (st : state) (i : iexp) : Z :=
  match i with
  | IFix a => match sarg st a with Fix z => z | v => junk st KFix v end
  | ICur a => match sarg st a with Cur z => z | v => junk st KCur v end
  | IChr a => match sarg st a with Chr z => z | v => junk st KChr v end
  end.

Definition len_as (st : state) (t : tag) (v : val) : Z :=
  match v with
  | Ptr o => if tag_eqb (o_tag o) t then o_len o else junk st KLen v
  | _ => junk st KLen v
  end.

Definition eval_l (st : state) (l : lexp) : Z :=
  match l with
  | LConst z => z
  | LVec a => len_as st TVector (sarg st a)
  | LBytes a => len_as st TBytes (sarg st a)
  | LStr a => len_as st TString (sarg st a)
  end.

Definition cmpb (c : cmp) (x y : Z) : bool :=
  match c with CLt => x <? y | CLe => x <=? y | CGt => y <? x | CGe => y <=? x end.

Definition guard_holds (st : state) (g : guard) : bool :=
  match g with
  | GIs p a => holds p (sarg st a)
  | GMutable a => match sarg st a with Ptr o => negb (o_imm o) | _ => true end
  | GCmp i c l => cmpb c (eval_i st i) (eval_l st l)
  end.

(** what evaluating the guard's own condition reads *)
Definition lexp_reads (l : lexp) : list access :=
  match l with
  | LConst _ => []
  | LVec a => [AField PVector a]
  | LBytes a => [AField PBytes a]
  | LStr a => [AField PString a]
  end.

Definition guard_reads (g : guard) : list access :=
  match g with
  | GIs _ _ => []
  | GMutable a => [APtr a]
  | GCmp _ _ l => lexp_reads l
  end.

Definition iexp_arg (i : iexp) : arg := match i with IFix a | ICur a | IChr a => a end.
Definition iexp_pred (i : iexp) : pred := match i with IFix _ => PFixnum | ICur _ => PCursor | IChr _ => PChar end.

(** the access requirement: inside a live object of the right type *)
Definition safeb (st : state) (x : access) : bool :=
  match x with
  | AVecData v i => match sarg st v with
                    | Ptr o => tag_eqb (o_tag o) TVector && (0 <=? eval_i st i) && (eval_i st i <? o_len o)
                    | _ => false end
  | ABytesData b i => match sarg st b with
                      | Ptr o => tag_eqb (o_tag o) TBytes && (0 <=? eval_i st i) && (eval_i st i <? o_len o)
                      | _ => false end
  | AStrByte s i => match sarg st s with
                    | Ptr o => tag_eqb (o_tag o) TString && (0 <=? eval_i st i) && (eval_i st i <? o_len o)
                    | _ => false end
  | AStrByteT s i => match sarg st s with
                     | Ptr o => tag_eqb (o_tag o) TString && (0 <=? eval_i st i) && (eval_i st i <=? o_len o)
                     | _ => false end
  | AStrPrev s i => match sarg st s with
                    | Ptr o => tag_eqb (o_tag o) TString && (0 <? eval_i st i) && (eval_i st i <=? o_len o)
                    | _ => false end
  | AField p a => match pred_tag p with Some _ => holds p (sarg st a) | None => false end
  | APtr a => match sarg st a with Ptr _ => true | _ => false end
  | AAlloc i => 0 <=? eval_i st i
  | AUnbox i => holds (iexp_pred i) (sarg st (iexp_arg i))
  | AUnknown => false
  end.

(** every access on every path through the body is safe.  A failing guard leaves the body
    (sexp_raise = goto call_error_handler, vm.c:938-944). *)
Fixpoint trace_ok (st : state) (items : list item) : Prop :=
  match items with
  | [] => True
  | IGuard g :: r => Forall (fun x => safeb st x = true) (guard_reads g)
                     /\ (guard_holds st g = true -> trace_ok st r)
  | IAccess x :: r => safeb st x = true /\ trace_ok st r
  | IWhen g xs :: r => Forall (fun x => safeb st x = true) (guard_reads g)
                       /\ (guard_holds st g = true -> Forall (fun x => safeb st x = true) xs)
                       /\ trace_ok st r
  | IAssign a :: r => forall v, trace_ok (set_arg st a v) r
  | ITop :: r => forall st', trace_ok st' r
  end.

(** executable outcome: index (among the guards, from 0) of the first guard that raises, or -1 *)
Fixpoint first_raise (st : state) (items : list item) (k : Z) : Z :=
  match items with
  | [] => -1
  | IGuard g :: r => if guard_holds st g then first_raise st r (k + 1) else k
  | _ :: r => first_raise st r k
  end.

(** * The checker *)

Definition iexp_eqb (a b : iexp) : bool :=
  match a, b with
  | IFix x, IFix y | ICur x, ICur y | IChr x, IChr y => arg_eqb x y
  | _, _ => false
  end.

Definition lexp_eqb (a b : lexp) : bool :=
  match a, b with
  | LConst x, LConst y => x =? y
  | LVec x, LVec y | LBytes x, LBytes y | LStr x, LStr y => arg_eqb x y
  | _, _ => false
  end.

Definition cmp_eqb (a b : cmp) : bool :=
  match a, b with CLt, CLt | CLe, CLe | CGt, CGt | CGe, CGe => true | _, _ => false end.

Definition guard_eqb (a b : guard) : bool :=
  match a, b with
  | GIs p x, GIs q y => pred_eqb p q && arg_eqb x y
  | GMutable x, GMutable y => arg_eqb x y
  | GCmp i c l, GCmp j d m => iexp_eqb i j && cmp_eqb c d && lexp_eqb l m
  | _, _ => false
  end.

Definition has (fs : list guard) (g : guard) : bool := existsb (guard_eqb g) fs.

Definition heap_preds : list pred := [PPair; PVector; PBytes; PString; PIPort; POPort].

Definition access_ok (fs : list guard) (x : access) : bool :=
  match x with
  | AVecData v i => has fs (GIs PVector v) && has fs (GCmp i CGe (LConst 0)) && has fs (GCmp i CLt (LVec v))
  | ABytesData b i => has fs (GIs PBytes b) && has fs (GCmp i CGe (LConst 0)) && has fs (GCmp i CLt (LBytes b))
  | AStrByte s i => has fs (GIs PString s) && has fs (GCmp i CGe (LConst 0)) && has fs (GCmp i CLt (LStr s))
  | AStrByteT s i => has fs (GIs PString s) && has fs (GCmp i CGe (LConst 0)) && has fs (GCmp i CLe (LStr s))
  | AStrPrev s i => has fs (GIs PString s) && has fs (GCmp i CGt (LConst 0)) && has fs (GCmp i CLe (LStr s))
  | AField p a => match pred_tag p with Some _ => has fs (GIs p a) | None => false end
  | APtr a => existsb (fun p => has fs (GIs p a)) heap_preds
  | AAlloc i => has fs (GCmp i CGe (LConst 0))
  | AUnbox i => has fs (GIs (iexp_pred i) (iexp_arg i))
  | AUnknown => false
  end.

Definition lexp_mentions (l : lexp) (a : arg) : bool :=
  match l with LConst _ => false | LVec b | LBytes b | LStr b => arg_eqb a b end.

Definition mentions (g : guard) (a : arg) : bool :=
  match g with
  | GIs _ b | GMutable b => arg_eqb a b
  | GCmp i _ l => arg_eqb a (iexp_arg i) || lexp_mentions l a
  end.

(** [fs] = guards known to have passed and not invalidated since *)
Fixpoint check (fs : list guard) (items : list item) : bool :=
  match items with
  | [] => true
  | IGuard g :: r => forallb (access_ok fs) (guard_reads g) && check (g :: fs) r
  | IAccess x :: r => access_ok fs x && check fs r
  | IWhen g xs :: r => forallb (access_ok fs) (guard_reads g) && forallb (access_ok (g :: fs)) xs && check fs r
  | IAssign a :: r => check (filter (fun g => negb (mentions g a)) fs) r
  | ITop :: r => check [] r
  end.

Definition entry_safe (e : entry) : bool := check [] (snd e).

(** run one table entry on concrete operands (for the correspondence with the real opcode) *)
Definition mk_state (a1 a2 a3 a4 : val) : state :=
  mkstate (fun a => match a with A1 => a1 | A2 => a2 | A3 => a3 | A4 => a4 | _ => Imm end)
          (fun _ _ => 0).

Fixpoint lookup (tbl : list entry) (k : Z) : option (list item) :=
  match tbl with
  | [] => None
  | (k', its) :: r => if k =? k' then Some its else lookup r k
  end.

Definition run_entry (tbl : list entry) (k : Z) (a1 a2 a3 a4 : val) : Z :=
  match lookup tbl k with
  | None => -2
  | Some its => first_raise (mk_state a1 a2 a3 a4) its 0
  end.
