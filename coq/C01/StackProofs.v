(** C01 — part 3: the stack growth arithmetic REGENERATED from vm.c (Gen/C01_Stack.v:
    sexp_grow_stack, sexp_ensure_stack) gives enough room or reports out-of-stack. *)
From Coq Require Import ZArith Bool Lia.
From ChibiV Require Import Gen.C01_Stack.
Local Open Scope Z_scope.

Ltac split_tests :=
  repeat (match goal with
          | |- context [?a <? ?b] => destruct (Z.ltb_spec a b)
          | |- context [?a <=? ?b] => destruct (Z.leb_spec a b)
          | |- context [?a =? ?b] => destruct (Z.eqb_spec a b)
          end; cbn [orb andb negb]).

(** grow_policy.  A VM state has 0 <= top, top+2 <= length (the words up to top+1 exist: every
    frame push leaves a 64-word margin) and length <= MAX.  After sexp_ensure_stack(n), n >= 0:
    - either the stack (old or new) has room for index top+n:  top + n < length' <= MAX, it never
      shrinks, and when it was reallocated the words copied from the old stack exist in both;
    - or out-of-stack is reported, and then top+n really does not fit below MAX. *)
Lemma grow_policy_proof : forall MAX len top n,
  0 <= top -> top + 2 <= len -> len <= MAX -> 0 <= n ->
  match gen_ensure_stack MAX len top n with
  | Some l => top + n < l /\ l <= MAX /\ len <= l
              /\ (l <> len -> gen_grow_copy top <= len /\ gen_grow_copy top <= l)
  | None => MAX <= top + n
  end.
Proof.
  intros MAX len top n Ht Hl Hm Hn.
  unfold gen_ensure_stack, gen_grow_stack, gen_grow_copy. cbv zeta.
  split_tests; lia.
Qed.

(** hypotheses are satisfiable and all three outcomes occur *)
Example grow_policy_stays : gen_ensure_stack 8192000 8192 100 64 = Some 8192.
Proof. reflexivity. Qed.
Example grow_policy_doubles : gen_ensure_stack 8192000 8192 8100 200 = Some 16384.
Proof. reflexivity. Qed.
Example grow_policy_long_apply : gen_ensure_stack 8192000 16384 10000 40064 = Some 50065.
Proof. reflexivity. Qed.
Example grow_policy_oos : gen_ensure_stack 8192000 8192000 8191000 2000 = None.
Proof. reflexivity. Qed.

(** the arithmetic of the pinned tree (sexp_grow_stack(ctx, n): min_size = n instead of top+n+1, no
    test after capping at MAX) does NOT have the property: F-C01-3 *)
Definition pinned_grow_stack (MAX len min_size : Z) : option Z :=
  let size := len in
  let new_size := size * 2 in
  let new_size := if new_size <? min_size then min_size else new_size in
  if MAX <? new_size then (if size =? MAX then None else Some MAX) else Some new_size.
Definition pinned_ensure_stack (MAX len top n : Z) : option Z :=
  if len <=? top + n then pinned_grow_stack MAX len n else Some len.
Lemma pinned_grow_insufficient_proof :
  exists MAX len top n l, 0 <= top /\ top + 2 <= len /\ len <= MAX /\ 0 <= n /\
    pinned_ensure_stack MAX len top n = Some l /\ l <= top + n.
Proof. exists 8192000, 16384, 10000, 40064, 40064. repeat split; try lia; reflexivity. Qed.

(** round 4 — sexp_restore_stack (RESUMECC), regenerated as [gen_restore_stack]: a continuation whose saved vector has [n]
    words is restored onto a stack of [slen] words (a FRESH context's stack can be much shorter than the one the continuation
    was captured on: sexp_eval_op gives every sexp_eval_string call its own).  Either out-of-stack is reported and the saved
    frames really do not fit below MAX with their margin, or the stack the words are copied to (the one read from the context
    AFTER the growth — the translator rejects any other order) has room for all [n] words AND the 64-word margin above the new
    top that every later push without its own sexp_ensure_stack relies on ([call_margin]); it never shrinks. *)
Lemma restore_policy_proof : forall MAX slen n,
  0 <= n -> 0 < slen -> slen <= MAX ->
  match gen_restore_stack MAX slen n with
  | Some l => gen_restore_copy n + 64 <= l /\ l <= MAX /\ slen <= l
  | None => MAX <= n + 64
  end.
Proof.
  intros MAX slen n Hn Hs Hm.
  unfold gen_restore_stack, gen_grow_stack, gen_restore_copy. cbv zeta.
  split_tests; lia.
Qed.

Example restore_policy_stays : gen_restore_stack 1024000 4096 1158 = Some 4096.
Proof. reflexivity. Qed.
Example restore_policy_doubles : gen_restore_stack 1024000 1024 960 = Some 2048.
Proof. reflexivity. Qed.
Example restore_policy_exact_fit : gen_restore_stack 1024000 1024 30000 = Some 30064.
Proof. reflexivity. Qed.
Example restore_policy_oos : gen_restore_stack 1024000 1024 1023990 = None.
Proof. reflexivity. Qed.
