(** C01 round 4 — proofs about the reader's buffer discipline (model: C01/ReadBuf.v). *)
From Coq Require Import ZArith List Lia Bool.
From ChibiV Require Import C01.ReadBuf.
Import ListNotations.
Local Open Scope Z_scope.

Ltac regs := repeat (apply Forall_cons; [unfold region_ok; cbv beta iota; lia|]); apply Forall_nil.

Definition rb_inv (p : rbparams) (st : rbstate) : Prop :=
  0 <= rb_pos st /\ rb_pos st + rb_head p < rb_size st /\ rb_init p <= rb_size st.

Lemma rb_params_ok_spec : forall p, rb_params_ok p = true ->
  0 <= rb_head p /\ 1 <= rb_maxw p /\ rb_maxw p <= rb_head p + 1 /\ rb_head p + rb_maxw p < rb_init p.
Proof.
  intros p H. unfold rb_params_ok in H.
  repeat (apply andb_prop in H; destruct H as [H ?]).
  repeat split; try (apply Z.leb_le; assumption); apply Z.ltb_lt; assumption.
Qed.

Lemma rb_step_ok : forall p st w, rb_params_ok p = true -> rb_inv p st -> 0 <= w <= rb_maxw p ->
  rb_inv p (fst (rb_step p st w)) /\ Forall region_ok (snd (rb_step p st w)).
Proof.
  intros p st w Hp [Hpos [Hhead Hinit]] Hw.
  destruct (rb_params_ok_spec p Hp) as [H0 [H1 [H2 H3]]].
  unfold rb_step. destruct (rb_pos st + w + rb_head p >=? rb_size st) eqn:E; cbn [fst snd rb_pos rb_size].
  - apply Z.geb_le in E. split.
    + unfold rb_inv; cbn [rb_pos rb_size]. lia.
    + regs.
  - rewrite Z.geb_leb in E. apply Z.leb_gt in E.
    split.
    + unfold rb_inv; cbn [rb_pos rb_size]. lia.
    + regs.
Qed.

Lemma rb_run_ok : forall p, rb_params_ok p = true -> forall ws st, rb_inv p st ->
  Forall (fun w => 0 <= w <= rb_maxw p) ws ->
  rb_inv p (fst (rb_run p st ws)) /\ Forall region_ok (snd (rb_run p st ws)).
Proof.
  intros p Hp ws. induction ws as [|w ws IH]; intros st Hinv Hws.
  - cbn. split; [exact Hinv | constructor].
  - inversion Hws as [|? ? Hw Hws']; subst.
    destruct (rb_step_ok p st w Hp Hinv Hw) as [Hinv1 Hl1].
    cbn [rb_run]. destruct (rb_step p st w) as [st1 l1] eqn:E1. cbn [fst snd] in *.
    specialize (IH st1 Hinv1 Hws'). destruct (rb_run p st1 ws) as [st2 l2] eqn:E2. cbn [fst snd] in *.
    destruct IH as [Hinv2 Hl2]. split; [exact Hinv2 | apply Forall_app; split; assumption].
Qed.

(** the discipline: for constants with [w_max <= H + 1] every write of every iteration, both sides of every memcpy and the
    final NUL are inside the buffer they go to — for ALL sequences of per-iteration write sizes (= all tokens) *)
Theorem rb_collect_in_bounds : forall p, rb_params_ok p = true ->
  forall ws, Forall (fun w => 0 <= w <= rb_maxw p) ws -> Forall region_ok (rb_collect p ws).
Proof.
  intros p Hp ws Hws. unfold rb_collect.
  destruct (rb_params_ok_spec p Hp) as [H0 [H1 [H2 H3]]].
  assert (Hinv0 : rb_inv p (mkst 0 (rb_init p))) by (unfold rb_inv; cbn; lia).
  destruct (rb_run_ok p Hp ws _ Hinv0 Hws) as [Hinv Hl].
  destruct (rb_run p (mkst 0 (rb_init p)) ws) as [st l]. cbn [fst snd] in *.
  apply Forall_app. split; [exact Hl|].
  destruct Hinv as [A [B C]]. regs.
Qed.

(** the condition is also NECESSARY: with head-room H and a write of H+2 bytes allowed, some token overruns *)
Lemma region_okb_spec : forall r, region_okb r = true <-> region_ok r.
Proof.
  intros [[off len] cap]. unfold region_okb, region_ok. rewrite !andb_true_iff, !Z.leb_le. tauto.
Qed.

(** seeded change C01-c3: [if (i+1 >= size)] with the 4-byte [\x10400;] escape: 126 one-byte characters, then the escape *)
Example rb_headroom_one_overruns :
  forallb region_okb (rb_collect (mkrb 128 1 4) (repeat 1 126 ++ [4])) = false.
Proof. vm_compute. reflexivity. Qed.
Example rb_headroom_four_same_token :
  forallb region_okb (rb_collect (mkrb 128 4 4) (repeat 1 126 ++ [4])) = true.
Proof. vm_compute. reflexivity. Qed.
(** [i > size] in sexp_read_symbol (H = -1): a 129-byte symbol *)
Example rb_symbol_gt_overruns :
  forallb region_okb (rb_collect (mkrb 128 (-1) 1) (repeat 1 129)) = false.
Proof. vm_compute. reflexivity. Qed.

Theorem rb_headroom_one_refuted : ~ (forall ws, Forall (fun w => 0 <= w <= 4) ws -> Forall region_ok (rb_collect (mkrb 128 1 4) ws)).
Proof.
  intro H. specialize (H (repeat 1 126 ++ [4])).
  assert (Hws : Forall (fun w => 0 <= w <= 4) (repeat 1 126 ++ [4])).
  { apply Forall_app. split; [apply Forall_forall; intros x Hx; apply repeat_spec in Hx; lia | repeat constructor; lia]. }
  specialize (H Hws).
  assert (forallb region_okb (rb_collect (mkrb 128 1 4) (repeat 1 126 ++ [4])) = true).
  { apply forallb_forall. intros r Hr. apply region_okb_spec. rewrite Forall_forall in H. apply H. exact Hr. }
  rewrite rb_headroom_one_overruns in H0. discriminate.
Qed.

(** the digit buffer of sexp_read_float_tail *)
Lemma fb_params_ok_spec : forall p, fb_params_ok p = true ->
  fb_whole p < fb_len p /\ fb_snprintf_n p <= fb_slack p + 1 /\ 0 <= fb_slack p /\ 0 < fb_snprintf_n p.
Proof.
  intros p H. unfold fb_params_ok in H.
  repeat (apply andb_prop in H; destruct H as [H ?]).
  repeat split; try (apply Z.leb_le; assumption); apply Z.ltb_lt; assumption.
Qed.

Theorem fb_collect_in_bounds : forall p, fb_params_ok p = true ->
  forall w0 k, 1 <= w0 <= fb_whole p -> 0 <= k -> Forall region_ok (fb_collect p w0 k).
Proof.
  intros p Hp w0 k Hw Hk. destruct (fb_params_ok_spec p Hp) as [A [B [C D]]].
  unfold fb_collect. apply Forall_app. split.
  - regs.
  - destruct (w0 + Z.max 0 (Z.min k (fb_len p - w0)) <? fb_len p) eqn:E; [|constructor].
    apply Z.ltb_lt in E. regs.
Qed.

Example fb_no_slack_overruns :
  forallb region_okb (fb_collect (mkfb 1100 0 32 310) 1 1098) = false.
Proof. vm_compute. reflexivity. Qed.
