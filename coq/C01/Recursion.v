(** C01 round 2 — the depth-bound discipline of the C printer [sexp_write_one] (sexp.c) and of the other
    depth-bounded C recursions.  The data being printed does not appear: whatever the data is (cyclic, shared,
    huge), a C stack of nested [sexp_write_one] activations is a list of CALL SITES (the site at which each
    activation called the next).  The table of sites with the bound expression each one passes is REGENERATED
    from sexp.c (Gen/C01_Recursion.v, clang AST); the theorem below is about any such table. *)
From Coq Require Import List Arith Lia Bool.
Import ListNotations.

(** what a call site of sexp_write_one passes as the 4th argument ([bound + delta]), or, for the sites that
    go through [sexp_write] (= sexp_write_one (..., 0)), the class of the object that is printed there *)
Inductive argclass := Atomic | Name | NumberPart | OtherObj.
Inductive site := Rec (delta : nat) | Reset (c : argclass) | Unknown.

(** how many further activations an object of that class can cause by its TYPE: a fixnum, string or symbol
    none; a part of a ratio/complex number at most two (complex -> ratio -> integer) *)
Definition rank (c : argclass) : option nat :=
  match c with Atomic => Some 0 | Name => Some 0 | NumberPart => Some 2 | OtherObj => None end.
Definition max_rank := 2.

Definition site_ok (s : site) : bool :=
  match s with
  | Rec d => Nat.eqb d 1
  | Reset c => match rank c with Some _ => true | None => false end
  | Unknown => false
  end.

(** the state of the innermost activation: [Bounded b] it runs with bound = b (sexp.c:2212 refuses to recurse
    when b >= WB); [Leaf k] it prints an object that by its type allows k more activations *)
Inductive frame := Bounded (b : nat) | Leaf (k : nat).

Definition step (WB : nat) (f : frame) (s : site) : option frame :=
  match f, s with
  | Bounded b, Rec d => if b <? WB then Some (Bounded (b + d)) else None
  | Bounded _, Reset c => match rank c with Some r => Some (Leaf r) | None => Some (Bounded 0) end
  | Leaf (S k), Reset c => match rank c with Some r => Some (Leaf (Nat.min k r)) | None => Some (Bounded 0) end
  | Leaf 0, _ => None
  | Leaf _, Rec _ => None
  | _, Unknown => Some (Bounded 0)
  end.

Fixpoint run (WB : nat) (f : frame) (p : list site) : option frame :=
  match p with
  | [] => Some f
  | s :: p' => match step WB f s with Some f' => run WB f' p' | None => None end
  end.

(** measure: the number of further activations a frame can still cause *)
Definition room (WB : nat) (f : frame) : nat :=
  match f with Bounded b => (WB - b) + 1 + max_rank | Leaf k => k end.
Definition wf (WB : nat) (f : frame) : Prop :=
  match f with Bounded b => b <= WB | Leaf k => k <= max_rank end.

(** ---- call graphs of mutually recursive families (the analyzer): every edge either passes [depth] on
    unchanged (Same), makes progress (Inc: passes depth+1, or enters the function that counts), or is Bad
    (passes anything else, e.g. a literal).  Obligation: no Bad edge, and the Same edges contain no cycle. *)
Inductive edge_kind := Same | Inc | Bad.
Definition edge := (nat * nat * edge_kind)%type.     (* caller, callee, kind *)

Definition is_same (e : edge) : bool := match e with (_, _, Same) => true | _ => false end.
Definition is_bad (e : edge) : bool := match e with (_, _, Bad) => true | _ => false end.
Definition has_out (es : list edge) (v : nat) : bool := existsb (fun e => match e with (a, _, _) => Nat.eqb a v end) es.
(** drop the edges whose target has no outgoing edge; after |V| rounds a cycle-free graph is empty *)
Definition prune (es : list edge) : list edge := filter (fun e => match e with (_, b, _) => has_out es b end) es.
Fixpoint prune_n (n : nat) (es : list edge) : list edge :=
  match n with 0 => es | S n' => prune_n n' (prune es) end.
Definition graph_ok (nfun : nat) (es : list edge) : bool :=
  negb (existsb is_bad es) && match prune_n nfun (filter is_same es) with [] => true | _ => false end.

(** a rank certificate for the same-depth edges: along every edge that passes [depth] on unchanged (and does not
    enter the counting function) the rank of the callee is strictly smaller — so between two increments of the depth
    at most [rank] C activations can pile up *)
Definition edge_ok (rank : nat -> nat) (e : edge) : bool :=
  match e with
  | (a, b, Same) => rank b <? rank a
  | (_, _, Inc) => true
  | (_, _, Bad) => false
  end.
(** a chain of Same edges of the graph starting at function v *)
Fixpoint same_chain (es : list edge) (v : nat) (p : list edge) : Prop :=
  match p with
  | [] => True
  | e :: p' => match e with (a, b, k) => a = v /\ k = Same /\ In e es /\ same_chain es b p' end
  end.
