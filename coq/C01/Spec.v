(** C01 — SPEC for the opcode-backed primitives: for which operand values a call must deliver a
    value, and for which it must deliver an error object (because the only way to produce a value
    would be an access outside a live object of the right type).  Written from the meaning of the
    Scheme procedures, independently of vm.c and of the generated table. *)
From Coq Require Import ZArith List Bool.
From ChibiV Require Import C01.Model.
Import ListNotations.
Local Open Scope Z_scope.

Inductive prim :=
  | PrVectorRef | PrVectorSet | PrVectorLength
  | PrBytesRef | PrBytesSet | PrBytesLength
  | PrStringCursorRef | PrStringCursorSet | PrStringCursorNext | PrStringCursorPrev
  | PrStringCursorEnd | PrStringLength
  | PrCar | PrCdr | PrSetCar | PrSetCdr | PrMakeVector
  | PrCharToInt | PrIntToChar | PrCharUpcase | PrCharDowncase | PrWriteChar | PrReadChar | PrPeekChar.

(** MustValue: the call is inside the domain, an error would be wrong.
    MustError: no in-bounds execution exists; anything but an error object violates C01.
    Either: both are acceptable for C01 (immutable targets, allocation that may exhaust the heap,
    a cursor on the terminating position). *)
Inductive verdict := MustValue | MustError | Either.

Definition is_obj (t : tag) (v : val) : option obj :=
  match v with Ptr o => if tag_eqb (o_tag o) t then Some o else None | _ => None end.

Definition in_range (lo i hi : Z) : bool := (lo <=? i) && (i <? hi).

Definition indexed (t : tag) (v : val) (i : Z) (mutating : bool) : verdict :=
  match is_obj t v with
  | Some o => if in_range 0 i (o_len o) then (if mutating && o_imm o then Either else MustValue) else MustError
  | None => MustError
  end.

Definition typed (t : tag) (v : val) (mutating : bool) : verdict :=
  match is_obj t v with
  | Some o => if mutating && o_imm o then Either else MustValue
  | None => MustError
  end.

(** port operations: a port of the right direction may still answer an error (closed port, I/O failure) *)
Definition typed_io (t : tag) (v : val) : verdict :=
  match is_obj t v with Some _ => Either | None => MustError end.

(** allocation sizes up to this many elements must succeed; above, running out of heap is allowed *)
Definition small_alloc : Z := 65536.

Definition spec (p : prim) (args : list val) : verdict :=
  match p, args with
  | PrVectorRef, [v; Fix i] => indexed TVector v i false
  | PrVectorSet, [v; Fix i; _] => indexed TVector v i true
  | PrVectorLength, [v] => typed TVector v false
  | PrBytesRef, [v; Fix i] => indexed TBytes v i false
  | PrBytesSet, [v; Fix i; Fix b] => if in_range 0 b 256 then indexed TBytes v i true else MustError
  | PrBytesLength, [v] => typed TBytes v false
  | PrStringCursorRef, [s; Cur c] => indexed TString s c false
  | PrStringCursorSet, [s; Cur c; Chr _] => indexed TString s c true
  | PrStringCursorNext, [s; Cur c] =>
      (* a cursor before the start just moves; from 0 to the terminator position a byte is read *)
      match is_obj TString s with
      | Some o => if c <=? o_len o then MustValue else MustError
      | None => MustError
      end
  | PrStringCursorPrev, [s; Cur c] =>
      match is_obj TString s with
      | Some o => if c <=? o_len o then MustValue else MustError
      | None => MustError
      end
  | PrStringCursorEnd, [s] => typed TString s false
  | PrStringLength, [s] => typed TString s false
  | PrCar, [v] => typed TPair v false
  | PrCdr, [v] => typed TPair v false
  | PrSetCar, [v; _] => typed TPair v true
  | PrSetCdr, [v; _] => typed TPair v true
  | PrMakeVector, [Fix n; _] => if n <? 0 then MustError else if n <=? small_alloc then MustValue else Either
  | PrCharToInt, [Chr _] => MustValue
  | PrIntToChar, [Fix _] => MustValue      (* ANY fixnum: integer->char does not test for a scalar value; what the
                                              string opcodes guarantee for such characters: PrimProofs.prim_utf8_set_safe *)
  | PrCharUpcase, [Chr _] => MustValue
  | PrCharDowncase, [Chr _] => MustValue
  | PrWriteChar, [Chr _; p] => typed_io TOPort p
  | PrReadChar, [p] => typed_io TIPort p
  | PrPeekChar, [p] => typed_io TIPort p
  | _, _ => MustError
  end.
