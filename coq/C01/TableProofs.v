(** C01 — obligations about the table REGENERATED from vm.c (Gen/C01_VmGuards.v). *)
From Coq Require Import ZArith List Bool Lia.
From ChibiV Require Import C01.Model C01.Proofs Gen.C01_VmGuards.
Import ListNotations.
Local Open Scope Z_scope.

(** every opcode body of the regenerated table passes the verified checker: the table is finite,
    so evaluation of the checker is a proof *)
Lemma vm_ops_guarded_proof : forallb entry_safe vm_table = true.
Proof. vm_compute. reflexivity. Qed.

(** the table is the quantifier: it must not silently shrink *)
Lemma vm_table_size_proof : (24 <= length vm_table)%nat.
Proof. vm_compute. lia. Qed.

Lemma vm_ops_accesses_safe_proof : forall e, In e vm_table -> forall st, trace_ok st (snd e).
Proof. apply table_safe_proof. exact vm_ops_guarded_proof. Qed.
