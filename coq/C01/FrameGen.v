(** C01 — the frame protocol theorems instantiated with the growth arithmetic REGENERATED from vm.c
    (Gen/C01_Stack.v: sexp_grow_stack, sexp_ensure_stack): the abstract premise [grow_ok] of
    C01/FrameProofs.v is discharged by [grow_policy_proof] about the translated functions. *)
From Coq Require Import ZArith Bool Lia List.
From ChibiV Require Import C01.Frame C01.FrameProofs C01.FrameOps C01.StackProofs Gen.C01_Stack.
Local Open Scope Z_scope.

(** sexp_ensure_stack as translated, used inside the VM invariants under which [grow_policy] speaks
    (0 <= top, top+2 <= length <= MAX, 0 <= n); outside them the model refuses (out of stack) *)
Definition gen_grow (MAX len top n : Z) : option Z :=
  if (0 <=? top) && (top + 2 <=? len) && (len <=? MAX) && (0 <=? n)
  then gen_ensure_stack MAX len top n else None.

Lemma gen_grow_agrees MAX len top n : 0 <= top -> top + 2 <= len -> len <= MAX -> 0 <= n ->
  gen_grow MAX len top n = gen_ensure_stack MAX len top n.
Proof.
  intros H1 H2 H3 H4. unfold gen_grow.
  apply Z.leb_le in H1, H2, H3, H4. rewrite H1, H2, H3, H4. reflexivity.
Qed.

Lemma gen_grow_ok MAX : grow_ok (gen_grow MAX).
Proof.
  unfold grow_ok, gen_grow. intros len top n l H.
  destruct (0 <=? top) eqn:E1; [|discriminate]. destruct (top + 2 <=? len) eqn:E2; [|discriminate].
  destruct (len <=? MAX) eqn:E3; [|discriminate]. destruct (0 <=? n) eqn:E4; [|discriminate].
  cbn [andb] in H. apply Z.leb_le in E1, E2, E3, E4.
  pose proof (grow_policy_proof MAX len top n E1 E2 E3 E4) as P. rewrite H in P. lia.
Qed.

Example gen_grow_grows : gen_grow 8192000 8192 8100 200 = Some 16384.
Proof. reflexivity. Qed.
Example gen_grow_refuses : gen_grow 8192000 8192000 8191000 2000 = None.
Proof. reflexivity. Qed.

(** the call protocol with the REGENERATED growth arithmetic: for every procedure (any arity, flags, max_depth), every
    argument count and every stack state, a successful make_call has written only stack[top-i-1 .. top+3] and read only
    stack[top-i-1 .. top-1], all inside the (possibly regrown) stack *)
Lemma call_protocol_in_frame_gen : forall MAX tmp1 p i ret_ip s s',
  0 <= i -> i + 1 <= top s -> 0 <= p_nargs p -> 0 <= p_depth p ->
  make_call (gen_grow MAX) tmp1 (Some p) i ret_ip s = Enter s' ->
  (exists new, wlog s' = new ++ wlog s /\
     Forall (fun k => 0 <= k /\ top s - i - 1 <= k <= top s + 3 /\ k < len s') new) /\
  (exists new, rlog s' = new ++ rlog s /\
     Forall (fun k => 0 <= k /\ top s - i - 1 <= k <= top s - 1 /\ k < len s') new) /\
  (forall k, ~ (top s - i - 1 <= k <= top s + 3) -> mem s' k = mem s k) /\
  len s <= len s'.
Proof. intros MAX tmp1 p i ret_ip s s'. apply call_protocol_in_frame. apply gen_grow_ok. Qed.

(** the 64-word margin: inside a body that keeps to its max_depth every push of up to 59 more words (the 4-word handler
    frame of RAISE, the 1-word push of sexp_raise, the opcodes' own pushes) is inside the stack *)
Lemma margin_after_call_gen : forall MAX tmp1 p i ret_ip s s',
  0 <= i -> 0 <= p_nargs p -> 0 <= p_depth p ->
  make_call (gen_grow MAX) tmp1 (Some p) i ret_ip s = Enter s' ->
  forall t', t' <= fp s' + 4 + p_depth p -> t' + 59 < len s'.
Proof. intros MAX tmp1 p i ret_ip s s'. apply margin_after_call. apply gen_grow_ok. Qed.
