(** C01 round 4 — obligations about the reader's buffer constants REGENERATED from sexp.c (Gen/C01_ReadBuf.v). *)
From Coq Require Import ZArith List Lia.
From ChibiV Require Import C01.ReadBuf C01.ReadBufProofs Gen.C01_ReadBuf.
Local Open Scope Z_scope.

(** the constants of THIS sexp.c keep the head-room: largest write <= H + 1, for both collectors; the digit buffer has room
    for the exponent suffix *)
Lemma reader_buffers_have_headroom_proof :
  rb_params_ok read_string_params = true /\ rb_params_ok read_symbol_params = true /\ fb_params_ok float_digits_params = true.
Proof. vm_compute. repeat split; reflexivity. Qed.

Lemma read_string_in_bounds_proof : forall ws, Forall (fun w => 0 <= w <= rb_maxw read_string_params) ws ->
  Forall region_ok (rb_collect read_string_params ws).
Proof. apply rb_collect_in_bounds. apply reader_buffers_have_headroom_proof. Qed.

Lemma read_symbol_in_bounds_proof : forall ws, Forall (fun w => 0 <= w <= rb_maxw read_symbol_params) ws ->
  Forall region_ok (rb_collect read_symbol_params ws).
Proof. apply rb_collect_in_bounds. apply reader_buffers_have_headroom_proof. Qed.

Lemma float_digits_in_bounds_proof : forall w0 k, 1 <= w0 <= fb_whole float_digits_params -> 0 <= k ->
  Forall region_ok (fb_collect float_digits_params w0 k).
Proof. apply fb_collect_in_bounds. apply reader_buffers_have_headroom_proof. Qed.
