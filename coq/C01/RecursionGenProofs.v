(** C01 round 2 — obligations about the tables REGENERATED from sexp.c / eval.c (Gen/C01_Recursion.v). *)
From Coq Require Import ZArith List Bool Lia.
From ChibiV Require Import C01.Recursion C01.RecursionProofs Gen.C01_Recursion Gen.C01_Consts.
Import ListNotations.

(** every call of sexp_write_one inside sexp_write_one passes bound+1; every call through sexp_write (which
    restarts the bound) prints an object whose type bounds its own depth *)
Lemma write_sites_pass_bound_proof : forallb site_ok (map snd write_sites) = true /\ 7 <= length write_sites.
Proof. split; [vm_compute; reflexivity | vm_compute; lia]. Qed.

(** hence, with the regenerated table and the regenerated SEXP_DEFAULT_WRITE_BOUND: whatever the data *)
Lemma write_recursion_bounded_proof : forall (p : list site) f',
  (forall s, In s p -> In s (map snd write_sites)) ->
  run (Z.to_nat write_bound) (Bounded 0) p = Some f' ->
  (Z.of_nat (length p) <= write_bound + 3)%Z.
Proof.
  intros p f' Hin Hrun.
  pose proof (write_depth_bounded_proof (Z.to_nat write_bound) (map snd write_sites) p f'
                (proj1 write_sites_pass_bound_proof) Hin Hrun) as H.
  assert (Hw : (0 <= write_bound)%Z) by (vm_compute; discriminate).
  lia.
Qed.

(** sexp_equalp_bound passes depth-1 at its only non-tail self call; sexp_strip_synclos_bound and sexp_contains_syntax_p_bound at all six *)
Lemma equal_strip_sites_pass_bound_proof :
  forallb site_ok (map snd equal_sites) = true /\ 1 <= length equal_sites /\
  forallb site_ok (map snd strip_sites) = true /\ 6 <= length strip_sites.
Proof. repeat split; vm_compute; try reflexivity; lia. Qed.

(** the analyzer: no call inside the analyze* family passes anything but depth / depth+1, and every cycle of
    calls goes through [analyze] (which counts: ++depth > SEXP_MAX_ANALYZE_DEPTH) or passes depth+1 *)
Lemma analyze_cycles_increment_depth_proof : graph_ok analyze_nfun analyze_edges = true /\ 25 <= length analyze_edges.
Proof. split; [vm_compute; reflexivity | vm_compute; lia]. Qed.

(** rank certificate (regenerated): along every call that passes depth on unchanged the rank strictly decreases;
    hence between two increments of the analyzer's depth counter at most [rank v] <= 6 activations pile up *)
Lemma analyze_rank_certificate_proof : forallb (edge_ok (fun v => nth v analyze_rank 0)) analyze_edges = true.
Proof. vm_compute. reflexivity. Qed.

Lemma analyze_same_chain_bounded_proof : forall p v, same_chain analyze_edges v p -> length p <= nth v analyze_rank 0.
Proof.
  intros p v.
  exact (same_chain_bounded_proof (fun v => nth v analyze_rank 0) analyze_edges analyze_rank_certificate_proof p v).
Qed.

(** equal?: the depth argument counts down from SEXP_DEFAULT_EQUAL_DEPTH and the function returns when it is
    negative: the same bounded-counter discipline with WB = depth + 1 *)
Lemma equal_recursion_bounded_proof : forall (p : list site) f',
  (forall s, In s p -> In s (map snd equal_sites)) ->
  run (Z.to_nat equal_depth + 1) (Bounded 0) p = Some f' ->
  (Z.of_nat (length p) <= equal_depth + 4)%Z.
Proof.
  intros p f' Hin Hrun.
  pose proof (write_depth_bounded_proof (Z.to_nat equal_depth + 1) (map snd equal_sites) p f'
                (proj1 equal_strip_sites_pass_bound_proof) Hin Hrun) as H.
  assert (Hw : (0 <= equal_depth)%Z) by (vm_compute; discriminate).
  lia.
Qed.
