(* C01/FrameProofs.v - the frame protocol of vm.c stays inside its window of the
   stack array: lemmas about the model C01/Frame.v *)
From ChibiV Require Import C01.Frame.
Require Import ZArith List Bool Lia.
Import ListNotations.
Open Scope Z_scope.

(* the property of sexp_grow_stack's arithmetic that the proofs use *)
Definition grow_ok (grow : Z -> Z -> Z -> option Z) : Prop :=
  forall len top n l, grow len top n = Some l -> top + n < l /\ len <= l.

(* ------------------------------------------------------------------ *)
(* access bookkeeping                                                  *)

Definition inr (a b : Z) : Z -> Prop := fun k => a <= k <= b.
Definition nowhere : Z -> Prop := fun _ => False.

(* s' is reached from s by writes inside PW and reads inside PR only *)
Definition steps (PW PR : Z -> Prop) (s s' : vm) : Prop :=
  (exists nw, wlog s' = nw ++ wlog s /\ Forall PW nw) /\
  (exists nr, rlog s' = nr ++ rlog s /\ Forall PR nr) /\
  (forall k, ~ PW k -> mem s' k = mem s k) /\
  len s' = len s.

Lemma steps_refl : forall PW PR s, steps PW PR s s.
Proof.
  intros. repeat split; try (exists []; split; [reflexivity|constructor]); auto.
Qed.

Lemma steps_trans : forall PW PR s s1 s2,
  steps PW PR s s1 -> steps PW PR s1 s2 -> steps PW PR s s2.
Proof.
  intros PW PR s s1 s2 ((w1 & Hw1 & Fw1) & (r1 & Hr1 & Fr1) & M1 & L1)
         ((w2 & Hw2 & Fw2) & (r2 & Hr2 & Fr2) & M2 & L2).
  repeat split.
  - exists (w2 ++ w1). rewrite Hw2, Hw1, app_assoc. split; auto. apply Forall_app; auto.
  - exists (r2 ++ r1). rewrite Hr2, Hr1, app_assoc. split; auto. apply Forall_app; auto.
  - intros k Hk. rewrite M2, M1; auto.
  - congruence.
Qed.

Lemma steps_weaken : forall (PW PR PW' PR' : Z -> Prop) s s',
  (forall k, PW k -> PW' k) -> (forall k, PR k -> PR' k) ->
  steps PW PR s s' -> steps PW' PR' s s'.
Proof.
  intros PW PR PW' PR' s s' HW HR ((w & Hw & Fw) & (r & Hr & Fr) & M & L).
  repeat split.
  - exists w. split; auto. eapply Forall_impl; eauto.
  - exists r. split; auto. eapply Forall_impl; eauto.
  - intros k Hk. apply M. intro. apply Hk. auto.
  - auto.
Qed.

Lemma mem_wr_eq : forall s k v, mem (wr s k v) k = v.
Proof. intros. cbn. rewrite Z.eqb_refl. reflexivity. Qed.
Lemma mem_wr_neq : forall s k v x, x <> k -> mem (wr s k v) x = mem s x.
Proof. intros. cbn. destruct (Z.eqb_spec x k); congruence. Qed.

Lemma steps_wr : forall (PW PR : Z -> Prop) s s1 k v,
  steps PW PR s s1 -> PW k -> steps PW PR s (wr s1 k v).
Proof.
  intros PW PR s s1 k v H Hk. eapply steps_trans; [exact H|].
  repeat split.
  - exists [k]. split; [reflexivity|]. constructor; auto.
  - exists []. split; [reflexivity|constructor].
  - intros x Hx. apply mem_wr_neq. intro; subst; auto.
Qed.

Lemma steps_logr : forall (PW PR : Z -> Prop) s s1 k,
  steps PW PR s s1 -> PR k -> steps PW PR s (logr s1 k).
Proof.
  intros PW PR s s1 k H Hk. eapply steps_trans; [exact H|].
  repeat split.
  - exists []. split; [reflexivity|constructor].
  - exists [k]. split; [reflexivity|]. constructor; auto.
Qed.

Lemma steps_set_top : forall PW PR s s1 t, steps PW PR s s1 -> steps PW PR s (set_top s1 t).
Proof. intros PW PR s s1 t H. exact H. Qed.
Lemma steps_set_regs : forall PW PR s s1 t f sf i,
  steps PW PR s s1 -> steps PW PR s (set_regs s1 t f sf i).
Proof. intros PW PR s s1 t f sf i H. exact H. Qed.

(* registers untouched *)
Definition same_regs (s s' : vm) : Prop :=
  top s' = top s /\ fp s' = fp s /\ self s' = self s /\ ip s' = ip s.

(* ------------------------------------------------------------------ *)
(* the loops                                                           *)

Lemma copy_fwd_steps : forall n dst src (PW PR : Z -> Prop) s,
  (forall m, 0 <= m < Z.of_nat n -> PW (dst + m) /\ PR (src + m)) ->
  steps PW PR s (copy_fwd n dst src s) /\ same_regs s (copy_fwd n dst src s).
Proof.
  induction n as [|n IH]; intros dst src PW PR s H; cbn [copy_fwd].
  - split; [apply steps_refl | repeat split].
  - destruct (H 0 ltac:(lia)) as [H0w H0r]. rewrite Z.add_0_r in H0w, H0r.
    destruct (IH (dst + 1) (src + 1) PW PR (wr (logr s src) dst (mem (logr s src) src))) as [S1 R1].
    { intros m Hm. destruct (H (m + 1) ltac:(lia)) as [A B].
      replace (dst + 1 + m) with (dst + (m + 1)) by lia.
      replace (src + 1 + m) with (src + (m + 1)) by lia. auto. }
    split.
    + eapply steps_trans; [|exact S1]. apply steps_wr; auto. apply steps_logr; auto. apply steps_refl.
    + exact R1.
Qed.

Lemma copy_fwd_mem : forall n dst src s, dst <= src ->
  (forall m, 0 <= m < Z.of_nat n -> mem (copy_fwd n dst src s) (dst + m) = mem s (src + m)) /\
  (forall x, ~ (dst <= x < dst + Z.of_nat n) -> mem (copy_fwd n dst src s) x = mem s x).
Proof.
  induction n as [|n IH]; intros dst src s Hle; cbn [copy_fwd].
  - split; intros; [lia | reflexivity].
  - destruct (IH (dst + 1) (src + 1) (wr (logr s src) dst (mem (logr s src) src)) ltac:(lia)) as [A B].
    split.
    + intros m Hm. destruct (Z.eq_dec m 0) as [->|Hne].
      * rewrite Z.add_0_r. rewrite B by lia. rewrite mem_wr_eq. rewrite Z.add_0_r. reflexivity.
      * replace (dst + m) with (dst + 1 + (m - 1)) by lia. rewrite A by lia.
        rewrite mem_wr_neq by lia. cbn [mem logr]. f_equal. lia.
    + intros x Hx. rewrite B by lia. rewrite mem_wr_neq by lia. reflexivity.
Qed.

Lemma copy_bwd_steps : forall n k (PW PR : Z -> Prop) s,
  (forall m, 0 <= m < Z.of_nat n -> PW (k - m) /\ PR (k - m - 1)) ->
  steps PW PR s (copy_bwd n k s) /\ same_regs s (copy_bwd n k s).
Proof.
  induction n as [|n IH]; intros k PW PR s H; cbn [copy_bwd].
  - split; [apply steps_refl | repeat split].
  - destruct (H 0 ltac:(lia)) as [H0w H0r]. rewrite Z.sub_0_r in H0w, H0r.
    destruct (IH (k - 1) PW PR (wr (logr s (k - 1)) k (mem (logr s (k - 1)) (k - 1)))) as [S1 R1].
    { intros m Hm. destruct (H (m + 1) ltac:(lia)) as [A B].
      replace (k - 1 - m) with (k - (m + 1)) by lia. auto. }
    split.
    + eapply steps_trans; [|exact S1]. apply steps_wr; auto. apply steps_logr; auto. apply steps_refl.
    + exact R1.
Qed.

Lemma copy_bwd_mem : forall n k s,
  (forall x, k - Z.of_nat n < x <= k -> mem (copy_bwd n k s) x = mem s (x - 1)) /\
  (forall x, ~ (k - Z.of_nat n < x <= k) -> mem (copy_bwd n k s) x = mem s x).
Proof.
  induction n as [|n IH]; intros k s; cbn [copy_bwd].
  - split; intros; [lia | reflexivity].
  - destruct (IH (k - 1) (wr (logr s (k - 1)) k (mem (logr s (k - 1)) (k - 1)))) as [A B].
    split.
    + intros x Hx. destruct (Z.eq_dec x k) as [->|Hne].
      * rewrite B by lia. rewrite mem_wr_eq. reflexivity.
      * rewrite A by lia. rewrite mem_wr_neq by lia. reflexivity.
    + intros x Hx. rewrite B by lia. rewrite mem_wr_neq by lia. reflexivity.
Qed.

Lemma rest_loop_steps : forall n k base (PW PR : Z -> Prop) s,
  PW base -> PR base -> (forall m, 0 <= m < Z.of_nat n -> PR (k + m)) ->
  steps PW PR s (rest_loop n k base s) /\ same_regs s (rest_loop n k base s).
Proof.
  induction n as [|n IH]; intros k base PW PR s Hb Hrb H; cbn [rest_loop].
  - split; [apply steps_refl | repeat split].
  - pose proof (H 0 ltac:(lia)) as H0. rewrite Z.add_0_r in H0.
    match goal with |- steps _ _ _ (rest_loop _ _ _ ?X) /\ _ =>
      destruct (IH (k + 1) base PW PR X Hb Hrb) as [S1 R1] end.
    { intros m Hm. replace (k + 1 + m) with (k + (m + 1)) by lia. apply H. lia. }
    split.
    + eapply steps_trans; [|exact S1]. apply steps_wr; auto.
      apply steps_logr; auto. apply steps_logr; auto. apply steps_refl.
    + exact R1.
Qed.

(* the cells stack[k], stack[k+1], ..., n of them *)
Fixpoint seg_up (m : Z -> cell) (k : Z) (n : nat) : list cell :=
  match n with O => [] | S n' => m k :: seg_up m (k + 1) n' end.
Fixpoint list_of (l : list cell) : cell :=
  match l with [] => CNull | a :: l' => CPair a (list_of l') end.

Lemma seg_up_ext : forall n k (m1 m2 : Z -> cell),
  (forall x, k <= x -> m1 x = m2 x) -> seg_up m1 k n = seg_up m2 k n.
Proof.
  induction n as [|n IH]; intros k m1 m2 H; cbn [seg_up]; [reflexivity|].
  rewrite H by lia. f_equal. apply IH. intros; apply H; lia.
Qed.

Lemma rest_loop_mem : forall n k base s l0, base < k -> mem s base = list_of l0 ->
  mem (rest_loop n k base s) base = list_of (rev (seg_up (mem s) k n) ++ l0) /\
  (forall x, x <> base -> mem (rest_loop n k base s) x = mem s x).
Proof.
  induction n as [|n IH]; intros k base s l0 Hlt H0; cbn [rest_loop seg_up].
  - split; auto.
  - match goal with |- mem (rest_loop _ _ _ ?X) _ = _ /\ _ =>
      destruct (IH (k + 1) base X (mem s k :: l0) ltac:(lia)) as [A B] end.
    { rewrite mem_wr_eq. cbn [mem logr list_of]. rewrite H0. reflexivity. }
    split.
    + rewrite A. f_equal. cbn [rev]. rewrite <- app_assoc. cbn [app]. f_equal.
      f_equal. apply seg_up_ext. intros x Hx. rewrite mem_wr_neq by lia. reflexivity.
    + intros x Hx. rewrite B by auto. rewrite mem_wr_neq by auto. reflexivity.
Qed.

Lemma spread_steps : forall l k (PW PR : Z -> Prop) s,
  (forall m, 0 <= m < Z.of_nat (length l) -> PW (k - m)) ->
  steps PW PR s (spread l k s) /\ same_regs s (spread l k s).
Proof.
  induction l as [|a l IH]; intros k PW PR s H; cbn [spread].
  - split; [apply steps_refl | repeat split].
  - pose proof (H 0 ltac:(cbn [length]; lia)) as H0. rewrite Z.sub_0_r in H0.
    destruct (IH (k - 1) PW PR (wr s k a)) as [S1 R1].
    { intros m Hm. replace (k - 1 - m) with (k - (m + 1)) by lia. apply H. cbn [length]. lia. }
    split.
    + eapply steps_trans; [|exact S1]. apply steps_wr; auto. apply steps_refl.
    + exact R1.
Qed.

Lemma spread_mem : forall l k s,
  (forall m, (m < length l)%nat -> mem (spread l k s) (k - Z.of_nat m) = nth m l CNull) /\
  (forall x, ~ (k - Z.of_nat (length l) < x <= k) -> mem (spread l k s) x = mem s x).
Proof.
  induction l as [|a l IH]; intros k s; cbn [spread length].
  - split; intros; [lia | reflexivity].
  - destruct (IH (k - 1) (wr s k a)) as [A B]. split.
    + intros m Hm. destruct m as [|m].
      * cbn [nth]. rewrite Z.sub_0_r. rewrite B by lia. apply mem_wr_eq.
      * cbn [nth]. replace (k - Z.of_nat (S m)) with (k - 1 - Z.of_nat m) by lia. apply A. lia.
    + intros x Hx. rewrite B by lia. rewrite mem_wr_neq by lia. reflexivity.
Qed.

(* exact write log of the spreading loop: k, k-1, ..., most recent first *)
Fixpoint down_from (k : Z) (n : nat) : list Z :=
  match n with O => [] | S n' => k :: down_from (k - 1) n' end.
Lemma spread_wlog : forall l k s,
  wlog (spread l k s) = rev (down_from k (length l)) ++ wlog s.
Proof.
  induction l as [|a l IH]; intros k s; cbn [spread length down_from rev]; [reflexivity|].
  rewrite IH. cbn [wlog wr]. rewrite <- app_assoc. reflexivity.
Qed.

(* ------------------------------------------------------------------ *)
(* ensure_stack, push of the frame header, the two rest-list protocols *)

Lemma ensure_some : forall grow n s s0, grow_ok grow -> ensure grow n s = Some s0 ->
  top s + n < len s0 /\ len s <= len s0 /\ mem s0 = mem s /\ top s0 = top s /\
  fp s0 = fp s /\ self s0 = self s /\ ip s0 = ip s /\ wlog s0 = wlog s /\ rlog s0 = rlog s.
Proof.
  unfold ensure; intros grow n s s0 G H.
  destruct (Z.leb_spec (len s) (top s + n)) as [Hle|Hlt].
  - destruct (grow (len s) (top s) n) as [l|] eqn:E; [|discriminate].
    apply G in E. injection H as <-. cbn. repeat split; lia.
  - injection H as <-. repeat split; lia.
Qed.

Ltac mw := repeat (rewrite mem_wr_eq || rewrite mem_wr_neq by lia).
(* split a right-nested conjunction without unfolding definitions *)
Ltac csplit := match goal with |- _ /\ _ => split; [|csplit] | _ => idtac end.

Lemma push_frame_spec : forall tmp1 r i s,
  steps (inr (top s - 1) (top s + 2)) nowhere s (push_frame tmp1 r i s) /\
  top (push_frame tmp1 r i s) = top s + 3 /\ fp (push_frame tmp1 r i s) = top s - 1 /\
  self (push_frame tmp1 r i s) = tmp1 /\ ip (push_frame tmp1 r i s) = 0 /\
  mem (push_frame tmp1 r i s) (top s - 1) = CFix i /\
  mem (push_frame tmp1 r i s) (top s) = CFix r /\
  mem (push_frame tmp1 r i s) (top s + 1) = self s /\
  mem (push_frame tmp1 r i s) (top s + 2) = CFix (fp s).
Proof.
  intros. unfold push_frame. cbv zeta. split.
  - apply steps_set_regs. repeat (apply steps_wr; [|unfold inr; lia]). apply steps_refl.
  - cbn [top fp self ip set_regs mem]. repeat split; try lia; mw; reflexivity.
Qed.

Lemma surplus_spec : forall i j s, 1 <= j -> j <= i ->
  steps (inr (top s - i - 1) (top s - j)) (inr (top s - i - 1) (top s - 1)) s (rest_used_surplus i j s) /\
  top (rest_used_surplus i j s) = top s - (j - 1) /\
  fp (rest_used_surplus i j s) = fp s /\ self (rest_used_surplus i j s) = self s /\
  ip (rest_used_surplus i j s) = ip s /\
  mem (rest_used_surplus i j s) (top s - i - 1)
    = list_of (rev (seg_up (mem s) (top s - i - 1) (Z.to_nat j))) /\
  (forall x, top s - i <= x <= top s - j -> mem (rest_used_surplus i j s) x = mem s (x + j - 1)) /\
  (forall x, top s - j < x -> mem (rest_used_surplus i j s) x = mem s x).
Proof.
  intros i j s Hj Hji. unfold rest_used_surplus. cbv zeta.
  remember (rest_count (top s) i j) as n1 eqn:En1.
  assert (Hn1 : Z.of_nat n1 = j - 1) by (subst n1; unfold rest_count; lia).
  remember (Z.to_nat (top s - (top s - i + Z.of_nat n1))) as n2 eqn:En2.
  assert (Hn2 : Z.of_nat n2 = i - j + 1) by lia.
  clear En1 En2.
  set (base := top s - i - 1).
  set (sa := wr (logr s base) base (CPair (mem (logr s base) base) CNull)).
  set (sb := rest_loop n1 (top s - i) base sa).
  set (dst := top s - i + Z.of_nat n1 - j + 1).
  set (src := top s - i + Z.of_nat n1).
  set (sc := copy_fwd n2 dst src sb).
  set (PW := inr (top s - i - 1) (top s - j)).
  set (PR := inr (top s - i - 1) (top s - 1)).
  assert (Sa : steps PW PR s sa).
  { apply steps_wr; [|unfold PW, inr, base; lia].
    apply steps_logr; [|unfold PR, inr, base; lia]. apply steps_refl. }
  destruct (rest_loop_steps n1 (top s - i) base PW PR sa) as [Sb Rb];
    try (unfold PW, PR, inr, base; intros; lia).
  destruct (copy_fwd_steps n2 dst src PW PR sb) as [Sc Rc];
    try (unfold PW, PR, inr, dst, src; intros; lia).
  fold sb in Sb, Rb. fold sc in Sc, Rc.
  destruct Rb as (Rb1 & Rb2 & Rb3 & Rb4). destruct Rc as (Rc1 & Rc2 & Rc3 & Rc4).
  destruct (rest_loop_mem n1 (top s - i) base sa [mem s base]) as [Mb1 Mb2];
    [unfold base; lia | unfold sa; rewrite mem_wr_eq; reflexivity |].
  fold sb in Mb1, Mb2.
  destruct (copy_fwd_mem n2 dst src sb) as [Mc1 Mc2]; [unfold dst, src; lia|].
  fold sc in Mc1, Mc2.
  split; [|split; [|split; [|split; [|split; [|split; [|split]]]]]].
  - apply steps_set_top. eapply steps_trans; [exact Sa|]. eapply steps_trans; [exact Sb|exact Sc].
  - reflexivity.
  - cbn [fp set_top]. rewrite Rc2, Rb2. reflexivity.
  - cbn [self set_top]. rewrite Rc3, Rb3. reflexivity.
  - cbn [ip set_top]. rewrite Rc4, Rb4. reflexivity.
  - cbn [mem set_top]. rewrite Mc2 by (unfold dst, base; lia). rewrite Mb1.
    replace (Z.to_nat j) with (S n1) by lia. cbn [seg_up rev]. fold base. f_equal. f_equal. f_equal.
    replace (base + 1) with (top s - i) by (unfold base; lia).
    apply seg_up_ext. intros x Hx. unfold sa. rewrite mem_wr_neq by (unfold base; lia). reflexivity.
  - intros x Hx. cbn [mem set_top].
    replace x with (dst + (x - dst)) at 1 by lia. rewrite Mc1 by (unfold dst; lia).
    rewrite Mb2 by (unfold src, dst, base; lia). unfold sa.
    rewrite mem_wr_neq by (unfold src, dst, base; lia). cbn [mem logr]. f_equal. unfold src, dst. lia.
  - intros x Hx. cbn [mem set_top]. rewrite Mc2 by (unfold dst; lia).
    rewrite Mb2 by (unfold base; lia). unfold sa. rewrite mem_wr_neq by (unfold base; lia). reflexivity.
Qed.

Lemma empty_spec : forall i s, 0 <= i ->
  steps (inr (top s - i - 1) (top s)) (inr (top s - i - 1) (top s - 1)) s (rest_used_empty i s) /\
  top (rest_used_empty i s) = top s + 1 /\
  fp (rest_used_empty i s) = fp s /\ self (rest_used_empty i s) = self s /\
  ip (rest_used_empty i s) = ip s /\
  mem (rest_used_empty i s) (top s - i - 1) = CNull /\
  (forall x, top s - i <= x <= top s -> mem (rest_used_empty i s) x = mem s (x - 1)).
Proof.
  intros i s Hi. unfold rest_used_empty. cbv zeta.
  remember (empty_count (top s) i) as n eqn:En.
  assert (Hn : Z.of_nat n = i + 1) by (subst n; unfold empty_count; lia). clear En.
  set (PW := inr (top s - i - 1) (top s)).
  set (PR := inr (top s - i - 1) (top s - 1)).
  destruct (copy_bwd_steps n (top s) PW PR s) as [Sa (Ra1 & Ra2 & Ra3 & Ra4)];
    try (unfold PW, PR, inr; intros; lia).
  destruct (copy_bwd_mem n (top s) s) as [Ma1 Ma2].
  set (sa := copy_bwd n (top s) s) in *.
  split; [|split; [|split; [|split; [|split; [|split]]]]].
  - apply steps_set_top. apply steps_wr; [exact Sa | unfold PW, inr; lia].
  - reflexivity.
  - cbn [fp set_top wr]. exact Ra2.
  - cbn [self set_top wr]. exact Ra3.
  - cbn [ip set_top wr]. exact Ra4.
  - cbn [mem set_top]. apply mem_wr_eq.
  - intros x Hx. cbn [mem set_top]. rewrite mem_wr_neq by lia. apply Ma1. lia.
Qed.

(* ------------------------------------------------------------------ *)
(* make_call: master lemma for the Enter outcome                        *)

Lemma make_call_enter : forall grow tmp1 p i ret_ip s s',
  grow_ok grow -> 0 <= i -> 0 <= p_nargs p ->
  make_call grow tmp1 (Some p) i ret_ip s = Enter s' ->
  exists s0 i',
    ensure grow (p_depth p + 64) s = Some s0 /\
    steps (inr (top s - i - 1) (top s + 3)) (inr (top s - i - 1) (top s - 1)) s0 s' /\
    fp s' = top s' - 4 /\ self s' = tmp1 /\ ip s' = 0 /\
    fp s' - i' = top s - i - 1 /\ 0 <= i' /\ fp s' <= top s /\
    mem s' (fp s') = CFix i' /\ mem s' (fp s' + 1) = CFix ret_ip /\
    mem s' (fp s' + 2) = self s /\ mem s' (fp s' + 3) = CFix (fp s).
Proof.
  intros grow tmp1 p i ret_ip s s' G Hi Hn H. unfold make_call in H.
  destruct (Z.ltb_spec (i - p_nargs p) 0) as [Hj|Hj]; [discriminate|].
  destruct (ensure grow (p_depth p + 64) s) as [s0|] eqn:E; [|discriminate].
  destruct (ensure_some _ _ _ _ G E) as (E1 & E2 & E3 & E4 & E5 & E6 & E7 & E8 & E9).
  exists s0.
  assert (Plain : forall i0, i0 = i -> s' = push_frame tmp1 ret_ip i0 s0 ->
     exists i', Some s0 = Some s0 /\
    steps (inr (top s - i - 1) (top s + 3)) (inr (top s - i - 1) (top s - 1)) s0 s' /\
    fp s' = top s' - 4 /\ self s' = tmp1 /\ ip s' = 0 /\
    fp s' - i' = top s - i - 1 /\ 0 <= i' /\ fp s' <= top s /\
    mem s' (fp s') = CFix i' /\ mem s' (fp s' + 1) = CFix ret_ip /\
    mem s' (fp s' + 2) = self s /\ mem s' (fp s' + 3) = CFix (fp s)).
  { intros i0 -> ->. exists i.
    destruct (push_frame_spec tmp1 ret_ip i s0) as (P1 & P2 & P3 & P4 & P5 & P6 & P7 & P8 & P9).
    rewrite P2, P3, P4, P5. rewrite <- E4, <- E5, <- E6.
    replace (top s0 - 1 + 1) with (top s0) by lia.
    replace (top s0 - 1 + 2) with (top s0 + 1) by lia.
    replace (top s0 - 1 + 3) with (top s0 + 2) by lia.
    csplit; try lia; auto.
    eapply steps_weaken; [| |exact P1]; unfold inr, nowhere; intros; lia. }
  destruct (Z.ltb_spec 0 (i - p_nargs p)) as [Hj2|Hj2].
  - destruct (p_variadic p); [|discriminate].
    destruct (p_unused_rest p); cbn [negb] in H.
    + injection H as <-. apply (Plain i eq_refl eq_refl).
    + injection H as <-. set (j := i - p_nargs p) in *.
      destruct (surplus_spec i j s0 ltac:(lia) ltac:(lia)) as (U1 & U2 & U3 & U4 & U5 & _).
      set (s1 := rest_used_surplus i j s0) in *.
      destruct (push_frame_spec tmp1 ret_ip (i - (j - 1)) s1) as (P1 & P2 & P3 & P4 & P5 & P6 & P7 & P8 & P9).
      exists (i - (j - 1)). rewrite P2, P3, P4, P5. rewrite <- E4, <- E5, <- E6, <- U3, <- U4.
      replace (top s1 - 1 + 1) with (top s1) by lia.
      replace (top s1 - 1 + 2) with (top s1 + 1) by lia.
      replace (top s1 - 1 + 3) with (top s1 + 2) by lia.
      csplit; try lia; auto.
      eapply steps_trans.
      * eapply steps_weaken; [| |exact U1]; unfold inr; intros; lia.
      * eapply steps_weaken; [| |exact P1]; unfold inr, nowhere; intros; lia.
  - destruct (p_variadic p && negb (p_unused_rest p)).
    + injection H as <-.
      destruct (empty_spec i s0 Hi) as (U1 & U2 & U3 & U4 & U5 & _).
      set (s1 := rest_used_empty i s0) in *.
      destruct (push_frame_spec tmp1 ret_ip (i + 1) s1) as (P1 & P2 & P3 & P4 & P5 & P6 & P7 & P8 & P9).
      exists (i + 1). rewrite P2, P3, P4, P5. rewrite <- E4, <- E5, <- E6, <- U3, <- U4.
      replace (top s1 - 1 + 1) with (top s1) by lia.
      replace (top s1 - 1 + 2) with (top s1 + 1) by lia.
      replace (top s1 - 1 + 3) with (top s1 + 2) by lia.
      csplit; try lia; auto.
      eapply steps_trans.
      * eapply steps_weaken; [| |exact U1]; unfold inr; intros; lia.
      * eapply steps_weaken; [| |exact P1]; unfold inr, nowhere; intros; lia.
    + injection H as <-. apply (Plain i eq_refl eq_refl).
Qed.

(* 1. every access of a successful make_call is inside the window
      [base, top+3] = [top-i-1, top+3] and below the (possibly grown) length *)
Theorem call_protocol_in_frame : forall grow tmp1 p i ret_ip s s',
  grow_ok grow -> 0 <= i -> i + 1 <= top s -> 0 <= p_nargs p -> 0 <= p_depth p ->
  make_call grow tmp1 (Some p) i ret_ip s = Enter s' ->
  (exists new, wlog s' = new ++ wlog s /\
     Forall (fun k => 0 <= k /\ top s - i - 1 <= k <= top s + 3 /\ k < len s') new) /\
  (exists new, rlog s' = new ++ rlog s /\
     Forall (fun k => 0 <= k /\ top s - i - 1 <= k <= top s - 1 /\ k < len s') new) /\
  (forall k, ~ (top s - i - 1 <= k <= top s + 3) -> mem s' k = mem s k) /\
  len s <= len s'.
Proof.
  intros grow tmp1 p i ret_ip s s' G Hi Ht Hn Hd H.
  destruct (make_call_enter _ _ _ _ _ _ _ G Hi Hn H) as (s0 & i' & E & S & _).
  destruct (ensure_some _ _ _ _ G E) as (E1 & E2 & E3 & E4 & E5 & E6 & E7 & E8 & E9).
  destruct S as ((w & Hw & Fw) & (r & Hr & Fr) & M & L).
  csplit.
  - exists w. rewrite <- E8. split; auto.
    eapply Forall_impl; [|exact Fw]. unfold inr. intros; lia.
  - exists r. rewrite <- E9. split; auto.
    eapply Forall_impl; [|exact Fr]. unfold inr. intros; lia.
  - intros k Hk. rewrite M by (unfold inr; lia). rewrite E3. reflexivity.
  - lia.
Qed.

(* 2a. shape of the pushed frame: registers, header, base *)
Theorem make_call_frame_shape : forall grow tmp1 p i ret_ip s s',
  grow_ok grow -> 0 <= i -> 0 <= p_nargs p ->
  make_call grow tmp1 (Some p) i ret_ip s = Enter s' ->
  fp s' = top s' - 4 /\ self s' = tmp1 /\ ip s' = 0 /\
  (exists i', mem s' (fp s') = CFix i' /\ fp s' - i' = top s - i - 1 /\ 0 <= i') /\
  mem s' (fp s' + 1) = CFix ret_ip /\
  mem s' (fp s' + 2) = self s /\
  mem s' (fp s' + 3) = CFix (fp s) /\
  (forall k, k < top s - i - 1 -> mem s' k = mem s k).
Proof.
  intros grow tmp1 p i ret_ip s s' G Hi Hn H.
  destruct (make_call_enter _ _ _ _ _ _ _ G Hi Hn H)
    as (s0 & i' & E & S & A1 & A2 & A3 & A4 & A5 & A6 & A7 & A8 & A9 & A10).
  destruct (ensure_some _ _ _ _ G E) as (E1 & E2 & E3 & E4 & E5 & E6 & E7 & E8 & E9).
  destruct S as (_ & _ & M & _).
  csplit; auto.
  - exists i'. auto.
  - intros k Hk. rewrite M by (unfold inr; lia). rewrite E3. reflexivity.
Qed.

(* 1b. the Raise / OOS outcomes of make_call: sexp_raise pushes ONE word at
   stack[top] WITHOUT any ensure_stack ("non procedure application" and "not
   enough args" are raised BEFORE the ensure of make_call): in bounds only
   under the margin hypothesis top < len. *)
Theorem call_raise_in_frame : forall grow tmp1 p i ret_ip s msg s',
  grow_ok grow ->
  make_call grow tmp1 p i ret_ip s = Raise msg s' ->
  wlog s' = [top s; top s] ++ wlog s /\ rlog s' = [top s] ++ rlog s /\
  top s' = top s + 1 /\ fp s' = fp s /\ len s <= len s' /\
  (forall k, k <> top s -> mem s' k = mem s k) /\
  (0 <= top s < len s -> Forall (fun k => 0 <= k < len s') [top s; top s]).
Proof.
  intros grow tmp1 p i ret_ip s msg s' G H. unfold make_call in H.
  assert (R : forall m s0, wlog s0 = wlog s -> rlog s0 = rlog s -> top s0 = top s ->
              fp s0 = fp s -> len s <= len s0 -> mem s0 = mem s ->
              Raise m (raise_push m tmp1 s0) = Raise msg s' ->
    wlog s' = [top s; top s] ++ wlog s /\ rlog s' = [top s] ++ rlog s /\
    top s' = top s + 1 /\ fp s' = fp s /\ len s <= len s' /\
    (forall k, k <> top s -> mem s' k = mem s k) /\
    (0 <= top s < len s -> Forall (fun k => 0 <= k < len s') [top s; top s])).
  { intros m s0 W R T F L M HR. injection HR as _ <-. unfold raise_push. cbv zeta.
    cbn [wlog rlog top fp len set_top wr logr mem]. rewrite W, R, T, F, M.
    csplit; auto.
    - intros k Hk. destruct (Z.eqb_spec k (top s)); [contradiction|reflexivity].
    - intros Hb. repeat constructor; lia. }
  destruct p as [p|]; [|eapply R; eauto; lia].
  destruct (Z.ltb_spec (i - p_nargs p) 0) as [Hj|Hj]; [eapply R; eauto; lia|].
  destruct (ensure grow (p_depth p + 64) s) as [s0|] eqn:E; [|discriminate].
  destruct (ensure_some _ _ _ _ G E) as (E1 & E2 & E3 & E4 & E5 & E6 & E7 & E8 & E9).
  destruct (0 <? i - p_nargs p).
  - destruct (p_variadic p); [destruct (negb (p_unused_rest p)); discriminate|].
    eapply R; eauto.
  - destruct (p_variadic p && negb (p_unused_rest p)); discriminate.
Qed.

Theorem call_oos_in_frame : forall grow tmp1 p i ret_ip s s',
  make_call grow tmp1 p i ret_ip s = OOS s' ->
  wlog s' = (top s - 1) :: wlog s /\ rlog s' = rlog s /\ top s' = top s /\ len s' = len s.
Proof.
  intros grow tmp1 p i ret_ip s s' H. unfold make_call in H.
  destruct p as [p|]; [|discriminate].
  destruct (i - p_nargs p <? 0); [discriminate|].
  destruct (ensure grow (p_depth p + 64) s) as [s0|] eqn:E.
  - destruct (0 <? i - p_nargs p).
    + destruct (p_variadic p); [destruct (negb (p_unused_rest p))|]; discriminate.
    + destruct (p_variadic p && negb (p_unused_rest p)); discriminate.
  - unfold oos in H. injection H as <-. cbn. auto.
Qed.

(* 6b. the margin that the ensure of make_call leaves for the body *)
Theorem margin_after_call : forall grow tmp1 p i ret_ip s s',
  grow_ok grow -> 0 <= i -> 0 <= p_nargs p -> 0 <= p_depth p ->
  make_call grow tmp1 (Some p) i ret_ip s = Enter s' ->
  forall t', t' <= fp s' + 4 + p_depth p -> t' + 59 < len s'.
Proof.
  intros grow tmp1 p i ret_ip s s' G Hi Hn Hd H t' Ht.
  destruct (make_call_enter _ _ _ _ _ _ _ G Hi Hn H)
    as (s0 & i' & E & S & A1 & A2 & A3 & A4 & A5 & A6 & _).
  destruct (ensure_some _ _ _ _ G E) as (E1 & _).
  destruct S as (_ & _ & _ & L). lia.
Qed.

(* ------------------------------------------------------------------ *)
(* RET                                                                  *)

Lemma op_ret_spec : forall s i', mem s (fp s) = CFix i' -> 0 <= i' ->
  top (op_ret s) = fp s - i' + 1 /\
  fp (op_ret s) = unbox (mem s (fp s + 3)) /\
  self (op_ret s) = mem s (fp s + 2) /\
  ip (op_ret s) = unbox (mem s (fp s + 1)) /\
  mem (op_ret s) (fp s - i') = mem s (top s - 1) /\
  (forall k, k <> fp s - i' -> mem (op_ret s) k = mem s k) /\
  wlog (op_ret s) = (fp s - i') :: wlog s /\
  rlog (op_ret s) = [fp s + 3; fp s + 1; fp s + 2; top s - 1; fp s] ++ rlog s /\
  len (op_ret s) = len s.
Proof.
  intros s i' H Hi. unfold op_ret. cbv zeta.
  cbn [top fp self ip len wlog rlog mem set_regs logr wr]. rewrite H. cbn [unbox].
  csplit; try reflexivity.
  - destruct (Z.eqb_spec (fp s + 3) (fp s - i')); [lia|reflexivity].
  - destruct (Z.eqb_spec (fp s + 2) (fp s - i')); [lia|reflexivity].
  - destruct (Z.eqb_spec (fp s + 1) (fp s - i')); [lia|reflexivity].
  - rewrite Z.eqb_refl. reflexivity.
  - intros k Hk. destruct (Z.eqb_spec k (fp s - i')); [contradiction|reflexivity].
Qed.

(* 3. RET undoes make_call for all three protocols: procedure and ALL
   arguments popped, one result pushed at the base *)
Theorem frame_restored_by_ret : forall grow tmp1 p i ret_ip s s1 s2,
  grow_ok grow -> 0 <= i -> i + 1 <= top s -> 0 <= p_nargs p -> 0 <= p_depth p ->
  make_call grow tmp1 (Some p) i ret_ip s = Enter s1 ->
  fp s2 = fp s1 -> len s1 <= len s2 ->
  mem s2 (fp s1) = mem s1 (fp s1) -> mem s2 (fp s1 + 1) = mem s1 (fp s1 + 1) ->
  mem s2 (fp s1 + 2) = mem s1 (fp s1 + 2) -> mem s2 (fp s1 + 3) = mem s1 (fp s1 + 3) ->
  fp s1 + 5 <= top s2 ->
  (forall k, k < top s - i - 1 -> mem s2 k = mem s1 k) ->
  top (op_ret s2) = top s - i /\
  mem (op_ret s2) (top (op_ret s2) - 1) = mem s2 (top s2 - 1) /\
  fp (op_ret s2) = fp s /\ self (op_ret s2) = self s /\ ip (op_ret s2) = ret_ip /\
  (forall k, k < top s - i - 1 -> mem (op_ret s2) k = mem s k) /\
  wlog (op_ret s2) = (top s - i - 1) :: wlog s2 /\
  0 <= top s - i - 1 < len s2 /\
  (exists i', rlog (op_ret s2) = [fp s1 + 3; fp s1 + 1; fp s1 + 2; top s2 - 1; fp s1] ++ rlog s2 /\
              fp s1 - i' = top s - i - 1 /\ 0 <= i') /\
  len (op_ret s2) = len s2.
Proof.
  intros grow tmp1 p i ret_ip s s1 s2 G Hi Ht Hn Hd H Hfp Hlen M0 M1 M2 M3 Htop Hbelow.
  destruct (make_call_enter _ _ _ _ _ _ _ G Hi Hn H)
    as (s0 & i' & E & S & A1 & A2 & A3 & A4 & A5 & A6 & A7 & A8 & A9 & A10).
  destruct (ensure_some _ _ _ _ G E) as (E1 & E2 & E3 & E4 & E5 & E6 & E7 & E8 & E9).
  destruct S as (_ & _ & M & L).
  destruct (op_ret_spec s2 i') as (R1 & R2 & R3 & R4 & R5 & R6 & R7 & R8 & R9);
    [rewrite Hfp, M0; exact A7 | exact A5 |].
  rewrite Hfp in *.
  csplit.
  - rewrite R1. lia.
  - rewrite R1. replace (fp s1 - i' + 1 - 1) with (fp s1 - i') by lia. exact R5.
  - rewrite R2, M3, A10. reflexivity.
  - rewrite R3, M2, A9. reflexivity.
  - rewrite R4, M1, A8. reflexivity.
  - intros k Hk. rewrite R6 by lia. rewrite Hbelow by lia.
    rewrite M by (unfold inr; lia). rewrite E3. reflexivity.
  - rewrite R7. f_equal. lia.
  - lia.
  - exists i'. csplit; auto.
  - exact R9.
Qed.

(* 6a. RAISE with a handler pushes exactly 4 words, with NO ensure_stack *)
Theorem raise_push_in_bounds : forall htmp h is_exn s s',
  op_raise htmp (Some h) is_exn s = Handler s' ->
  wlog s' = [top s + 3; top s + 2; top s + 1; top s] ++ wlog s /\ rlog s' = rlog s /\
  top s' = top s + 4 /\ fp s' = top s /\ self s' = htmp /\ len s' = len s /\
  mem s' (fp s') = CFix 1 /\ mem s' (fp s' + 1) = CFix (ip s) /\
  mem s' (fp s' + 2) = self s /\ mem s' (fp s' + 3) = CFix (fp s) /\
  mem s' (fp s' - 1) = mem s (top s - 1) /\
  (forall k, k < top s -> mem s' k = mem s k) /\
  (0 <= top s -> top s + 3 < len s ->
   Forall (fun k => 0 <= k < len s') [top s + 3; top s + 2; top s + 1; top s]).
Proof.
  intros htmp h is_exn s s' H. unfold op_raise in H. injection H as <-.
  cbn [wlog rlog top fp self ip len set_regs wr].
  csplit; try reflexivity; try lia.
  - replace (top s + 4 - 4) with (top s) by lia. cbn [mem set_regs]. mw. reflexivity.
  - replace (top s + 4 - 4 + 1) with (top s + 1) by lia. cbn [mem set_regs]. mw. reflexivity.
  - replace (top s + 4 - 4 + 2) with (top s + 2) by lia. cbn [mem set_regs]. mw. reflexivity.
  - replace (top s + 4 - 4 + 3) with (top s + 3) by lia. cbn [mem set_regs]. mw. reflexivity.
  - replace (top s + 4 - 4 - 1) with (top s - 1) by lia. cbn [mem set_regs]. mw. reflexivity.
  - intros k Hk. cbn [mem set_regs]. mw. reflexivity.
  - intros H0 H3. repeat constructor; lia.
Qed.

Theorem raise_no_handler_in_frame : forall htmp is_exn s s',
  op_raise htmp None is_exn s = EndLoop s' ->
  top s' = top s /\ len s' = len s /\
  (exists new, wlog s' = new ++ wlog s /\ Forall (fun k => k = top s - 1) new).
Proof.
  intros htmp is_exn s s' H. unfold op_raise in H. destruct is_exn; injection H as <-.
  - csplit; auto. exists []. split; [reflexivity|constructor].
  - csplit; auto. exists [top s - 1]. split; [reflexivity|]. repeat constructor.
Qed.

(* ------------------------------------------------------------------ *)
(* 7. entry / exit of sexp_apply, sexp_eval_op                          *)

Theorem raise_to_toplevel_restores : forall entry_top s, apply_exit entry_top true s = entry_top.
Proof. reflexivity. Qed.

Lemma apply_entry_enter : forall grow tmp1 p args s s1,
  grow_ok grow ->
  apply_entry grow tmp1 p args s = Enter s1 ->
  exists s0 sx,
    make_call grow tmp1 p (Z.of_nat (length args)) (ip sx + 1) sx = Enter s1 /\
    ip sx = -1 /\ top sx = top s + Z.of_nat (length args) + 1 /\ fp sx = top s - 4 /\
    self sx = FINAL_RESUMER /\
    len s <= len s0 /\ wlog s0 = wlog s /\ rlog s0 = rlog s /\ mem s0 = mem s /\
    steps (inr (top s) (top s + Z.of_nat (length args))) nowhere s0 sx /\
    top s + Z.of_nat (length args) + 64 + match p with Some p0 => p_depth p0 | None => 0 end < len sx.
Proof.
  intros grow tmp1 p args s s1 G H. unfold apply_entry in H. cbv zeta in H.
  set (i := Z.of_nat (length args)) in *.
  set (depth := match p with Some p0 => p_depth p0 | None => 0 end) in *.
  set (sr := set_regs s (top s) (top s - 4) FINAL_RESUMER (-1)) in *.
  destruct (ensure grow (i + 64 + depth) sr) as [s0|] eqn:E; [|discriminate].
  destruct (ensure_some _ _ _ _ G E) as (E1 & E2 & E3 & E4 & E5 & E6 & E7 & E8 & E9).
  cbn [top fp self ip len mem wlog rlog set_regs sr] in E1, E2, E3, E4, E5, E6, E7, E8, E9.
  set (sa := set_top s0 (top s0 + i)) in *.
  destruct (spread_steps args (top sa - 1) (inr (top s) (top s + i)) nowhere sa)
    as [Sb (Rb1 & Rb2 & Rb3 & Rb4)].
  { intros m Hm. unfold inr, sa. cbn [top set_top]. fold i in Hm. lia. }
  set (sb := spread args (top sa - 1) sa) in *.
  assert (Lb : len sb = len s0) by (destruct Sb as (_ & _ & _ & L); exact L).
  match type of H with make_call _ _ _ _ _ ?X = _ => set (sx := X) in * end.
  exists s0, sx.
  assert (Tsa : top sa = top s + i) by (unfold sa; cbn [top set_top]; lia).
  assert (Tx : top sx = top s + i + 1).
  { unfold sx. cbn [top set_top wr]. rewrite Rb1, Tsa. lia. }
  csplit; auto.
  - unfold sx. cbn [ip set_top wr]. rewrite Rb4. unfold sa. cbn [ip set_top]. exact E7.
  - unfold sx. cbn [fp set_top wr]. rewrite Rb2. unfold sa. cbn [fp set_top]. exact E5.
  - unfold sx. cbn [self set_top wr]. rewrite Rb3. unfold sa. cbn [self set_top]. exact E6.
  - unfold sx. apply steps_set_top. apply steps_wr.
    + repeat apply steps_set_top. exact Sb.
    + unfold inr. cbn [top set_top]. rewrite Rb1, Tsa. lia.
  - unfold sx. cbn [len set_top wr]. rewrite Lb. fold depth. lia.
Qed.

Theorem apply_normal_exit_restores_top : forall grow tmp1 p args s s1 s2,
  grow_ok grow -> 0 <= p_nargs p ->
  apply_entry grow tmp1 (Some p) args s = Enter s1 ->
  (* the body ran and left a result on top of the same frame *)
  fp s2 = fp s1 ->
  mem s2 (fp s1) = mem s1 (fp s1) -> mem s2 (fp s1 + 1) = mem s1 (fp s1 + 1) ->
  mem s2 (fp s1 + 2) = mem s1 (fp s1 + 2) -> mem s2 (fp s1 + 3) = mem s1 (fp s1 + 3) ->
  (* RET into the final resumer, whose code is DONE -> end_loop *)
  apply_exit (top s) false (op_ret s2) = top s /\
  fp (op_ret s2) = top s - 4 /\ self (op_ret s2) = FINAL_RESUMER /\ ip (op_ret s2) = 0 /\
  mem (op_ret s2) (top s) = mem s2 (top s2 - 1) /\
  wlog (op_ret s2) = top s :: wlog s2.
Proof.
  intros grow tmp1 p args s s1 s2 G Hn H Hfp M0 M1 M2 M3.
  destruct (apply_entry_enter _ _ _ _ _ _ G H)
    as (s0 & sx & C & X1 & X2 & X3 & X4 & _).
  destruct (make_call_enter _ _ _ _ _ _ _ G (Nat2Z.is_nonneg _) Hn C)
    as (s0' & i' & E & S & A1 & A2 & A3 & A4 & A5 & A6 & A7 & A8 & A9 & A10).
  destruct (op_ret_spec s2 i') as (R1 & R2 & R3 & R4 & R5 & R6 & R7 & R8 & R9);
    [rewrite Hfp, M0; exact A7 | exact A5 |].
  rewrite Hfp in *. unfold apply_exit.
  assert (B : fp s1 - i' = top s) by lia.
  csplit.
  - rewrite R1. lia.
  - rewrite R2, M3, A10. cbn [unbox]. exact X3.
  - rewrite R3, M2, A9. exact X4.
  - rewrite R4, M1, A8. cbn [unbox]. lia.
  - rewrite <- B. exact R5.
  - rewrite R7, B. reflexivity.
Qed.

Theorem eval_op_restores_context : forall ctx2 run c,
  c_top (fst (eval_op ctx2 run c)) = c_top c /\
  c_params (fst (eval_op ctx2 run c)) = c_params c /\
  c_child (fst (eval_op ctx2 run c)) = c_child c /\
  snd (eval_op ctx2 run c) = snd (run (mkctx (c_top c) CNull ctx2)).
Proof.
  intros ctx2 run c. unfold eval_op. cbn [c_top c_params c_child].
  destruct (run _) as [c' res]. cbn. auto.
Qed.

(* ------------------------------------------------------------------ *)
(* concrete instances                                                   *)

Definition mem0 : Z -> cell := fun k => CObj k.
Definition st (t l f : Z) : vm := mkvm mem0 l t f (CObj 1000) 7 [] [].
Definition grow_none : Z -> Z -> Z -> option Z := fun _ _ _ => None.
Definition grow_dbl : Z -> Z -> Z -> option Z :=
  fun len top n => Some (Z.max len (Z.max (2 * len) (top + n + 1))).
Lemma grow_dbl_ok : grow_ok grow_dbl.
Proof. unfold grow_ok, grow_dbl. intros len top n l H. injection H as <-. lia. Qed.
Lemma grow_none_ok : grow_ok grow_none.
Proof. unfold grow_ok, grow_none. intros; discriminate. Qed.

Definition view (o : outcome) :=
  match o with
  | Enter s => (0, top s, fp s, len s, wlog s, rlog s)
  | Raise m s => (m, top s, fp s, len s, wlog s, rlog s)
  | OOS s => (-1, top s, fp s, len s, wlog s, rlog s)
  end.
Definition cells (o : outcome) (ks : list Z) : list cell :=
  match o with Enter s | Raise _ s | OOS s => map (mem s) ks end.

Definition pv := mkproc 2 true false 10.   (* (lambda (a b . r) ...) using r *)
Definition pu := mkproc 2 true true 10.    (* (lambda (a b . r) ...) never using r *)
Definition pf := mkproc 2 false false 10.  (* (lambda (a b) ...) *)

(* protocol 1: 5 arguments to pv at top = 20: rest list of arguments 2,3,4 built at
   the base 14, fixed arguments moved to 16,15, frame header at 17..20 *)
Example ex_surplus_view :
  view (make_call grow_none (CObj 19) (Some pv) 5 8 (st 20 100 3))
  = (0, 21, 17, 100, [20; 19; 18; 17; 17; 16; 15; 14; 14; 14], [19; 18; 17; 14; 16; 14; 15; 14]).
Proof. vm_compute. reflexivity. Qed.
Example ex_surplus_cells :
  cells (make_call grow_none (CObj 19) (Some pv) 5 8 (st 20 100 3)) [13; 14; 15; 16; 17; 18; 19; 20]
  = [CObj 13; list_of [CObj 16; CObj 15; CObj 14]; CObj 17; CObj 18;
     CFix 3; CFix 8; CObj 1000; CFix 3].
Proof. vm_compute. reflexivity. Qed.
(* protocol 2: unused rest: nothing moves, stack[fp] = 5 *)
Example ex_unused_view :
  view (make_call grow_none (CObj 19) (Some pu) 5 8 (st 20 100 3))
  = (0, 23, 19, 100, [22; 21; 20; 19], []).
Proof. vm_compute. reflexivity. Qed.
Example ex_unused_cells :
  cells (make_call grow_none (CObj 19) (Some pu) 5 8 (st 20 100 3)) [14; 18; 19; 20; 21; 22]
  = [CObj 14; CObj 18; CFix 5; CFix 8; CObj 1000; CFix 3].
Proof. vm_compute. reflexivity. Qed.
(* protocol 3: exact count, rest = '(): everything shifts up by one, writes stack[top] *)
Example ex_empty_view :
  view (make_call grow_none (CObj 19) (Some pv) 2 8 (st 20 100 3))
  = (0, 24, 20, 100, [23; 22; 21; 20; 17; 18; 19; 20], [17; 18; 19]).
Proof. vm_compute. reflexivity. Qed.
Example ex_empty_cells :
  cells (make_call grow_none (CObj 19) (Some pv) 2 8 (st 20 100 3)) [16; 17; 18; 19; 20; 21; 22; 23]
  = [CObj 16; CNull; CObj 17; CObj 18; CFix 3; CFix 8; CObj 1000; CFix 3].
Proof. vm_compute. reflexivity. Qed.
(* the hypotheses of call_protocol_in_frame / frame_restored_by_ret hold here, and
   RET brings all three back to top = 15 resp. 18 = top - i, fp = 3, ip = 8 *)
Example ex_ret_all_protocols :
  map (fun o => match o with Enter s1 =>
         let s3 := op_ret (set_top (wr s1 (top s1) (CObj 77)) (top s1 + 1)) in
         (top s3, fp s3, ip s3, mem s3 (top s3 - 1))
       | _ => (0, 0, 0, CNull) end)
    [make_call grow_none (CObj 19) (Some pv) 5 8 (st 20 100 3);
     make_call grow_none (CObj 19) (Some pu) 5 8 (st 20 100 3);
     make_call grow_none (CObj 19) (Some pv) 2 8 (st 20 100 3);
     make_call grow_none (CObj 19) (Some pf) 2 8 (st 20 100 3)]
  = [(15, 3, 8, CObj 77); (15, 3, 8, CObj 77); (18, 3, 8, CObj 77); (18, 3, 8, CObj 77)].
Proof. vm_compute. reflexivity. Qed.
(* the errors: one word pushed at stack[top] *)
Example ex_raises :
  map view [make_call grow_none (CObj 19) (Some pf) 5 8 (st 20 100 3);
            make_call grow_none (CObj 19) (Some pf) 1 8 (st 20 100 3);
            make_call grow_none (CObj 19) None 1 8 (st 20 100 3)]
  = [(3, 21, 3, 100, [20; 20], [20]); (2, 21, 3, 100, [20; 20], [20]);
     (1, 21, 3, 100, [20; 20], [20])].
Proof. vm_compute. reflexivity. Qed.
(* NON-VACUITY 1: "non procedure application" is raised BEFORE the ensure of
   make_call; without a margin (top = len = 20) its push is out of bounds *)
Example ex_raise_without_margin_oob :
  view (make_call grow_none (CObj 19) None 1 8 (st 20 20 3)) = (1, 21, 3, 20, [20; 20], [20]).
Proof. vm_compute. reflexivity. Qed.
(* NON-VACUITY 2: the frame push without the preceding ensure (len = 22) writes index 22 *)
Example ex_push_without_ensure_oob :
  wlog (push_frame (CObj 19) 8 2 (st 20 22 3)) = [22; 21; 20; 19].
Proof. vm_compute. reflexivity. Qed.
(* with the ensure: refused growth -> OOS (writes _ARG1 only); granted -> len 95 *)
Example ex_ensure_oos :
  view (make_call grow_none (CObj 19) (Some pv) 2 8 (st 20 22 3)) = (-1, 20, 3, 22, [19], []).
Proof. vm_compute. reflexivity. Qed.
Example ex_ensure_grown :
  view (make_call grow_dbl (CObj 19) (Some pv) 2 8 (st 20 22 3))
  = (0, 24, 20, 95, [23; 22; 21; 20; 17; 18; 19; 20], [17; 18; 19]).
Proof. vm_compute. reflexivity. Qed.
(* NON-VACUITY 3: a shift loop running one step further READS below the base 17
   (its extra write lands on the base, which the next statement overwrites) *)
Example ex_bad_shift_leaves_window :
  wlog (rest_used_empty_bad 2 (st 20 100 3)) = [17; 17; 18; 19; 20] /\
  rlog (rest_used_empty_bad 2 (st 20 100 3)) = [16; 17; 18; 19].
Proof. vm_compute. split; reflexivity. Qed.
(* sexp_apply on a FRESH context (top = 0) whose ensure_stack is refused:
   _ARG1 = OOS error is stack[-1] *)
Example ex_apply_entry_oos_writes_minus_one :
  view (apply_entry grow_none (CObj 19) (Some pv) [CObj 1] (st 0 50 0)) = (-1, 0, -4, 50, [-1], []).
Proof. vm_compute. reflexivity. Qed.
(* sexp_apply of pv to 3 arguments from top = 0, then RET and DONE: context top 0 *)
Example ex_apply_round_trip :
  match apply_entry grow_dbl (CObj 19) (Some pv) [CObj 1; CObj 2; CObj 3] (st 0 50 0) with
  | Enter s1 =>
    let s3 := op_ret (set_top (wr s1 (top s1) (CObj 77)) (top s1 + 1)) in
    (top s1, fp s1, len s1, wlog s1, apply_exit 0 false s3, fp s3, self s3, ip s3, mem s3 0)
  | _ => (0, 0, 0, [], 1, 0, CNull, 0, CNull) end
  = (7, 3, 100, [6; 5; 4; 3; 3; 2; 1; 0; 3; 0; 1; 2], 0, -4, FINAL_RESUMER, 0, CObj 77).
Proof. vm_compute. reflexivity. Qed.
Example ex_raise_handler :
  match op_raise (CObj 55) (Some pf) true (st 20 100 3) with
  | Handler s' => (top s', fp s', wlog s', map (mem s') [19; 20; 21; 22; 23])
  | EndLoop _ => (0, 0, [], []) end
  = (24, 20, [23; 22; 21; 20], [CObj 19; CFix 1; CFix 7; CObj 1000; CFix 3]).
Proof. vm_compute. reflexivity. Qed.
Example ex_eval_op :
  eval_op (CObj 2) (fun c => (mkctx 999 (CObj 5) (CObj 6), true)) (mkctx 12 (CObj 3) (CObj 4))
  = (mkctx 12 (CObj 3) (CObj 4), true).
Proof. vm_compute. reflexivity. Qed.

(* ------------------------------------------------------------------ *)
(* 4. TAIL_CALL up to the goto make_call                                *)
Theorem tail_call_in_frame : forall i s j,
  mem s (fp s) = CFix j -> 0 <= j <= fp s -> 0 <= i -> fp s + 4 + i + 1 <= top s ->
  fst (tail_call_prep i s) = mem s (top s - 1) /\
  steps (inr (fp s - j) (fp s - j + i))
        (fun k => top s - 1 - i <= k <= top s - 1 \/ fp s <= k <= fp s + 3)
        s (snd (tail_call_prep i s)) /\
  top (snd (tail_call_prep i s)) = fp s - j + i + 1 /\
  fp (snd (tail_call_prep i s)) = unbox (mem s (fp s + 3)) /\
  self (snd (tail_call_prep i s)) = mem s (fp s + 2) /\
  ip (snd (tail_call_prep i s)) + 1 = unbox (mem s (fp s + 1)) /\
  mem (snd (tail_call_prep i s)) (fp s - j + i) = mem s (top s - 1) /\
  (* tail_call_args_preserved: the forward copy never clobbers an unread source *)
  (forall k, 0 <= k < i -> mem (snd (tail_call_prep i s)) (fp s - j + k) = mem s (top s - 1 - i + k)) /\
  (forall x, ~ (fp s - j <= x <= fp s - j + i) -> mem (snd (tail_call_prep i s)) x = mem s x) /\
  0 <= fp s - j /\ fp s - j + i + 1 < top s.
Proof.
  intros i s j Hm Hj Hi Ht.
  unfold tail_call_prep. cbv zeta. cbn [fst snd].
  set (sl := logr (logr (logr (logr (logr s (top s - 1)) (fp s + 3)) (fp s)) (fp s + 2)) (fp s + 1)).
  cbn [mem logr]. rewrite Hm. cbn [unbox].
  set (PW := inr (fp s - j) (fp s - j + i)).
  set (PR := fun k => top s - 1 - i <= k <= top s - 1 \/ fp s <= k <= fp s + 3).
  assert (Sl : steps PW PR s sl).
  { unfold sl. repeat (apply steps_logr; [|unfold PR; lia]). apply steps_refl. }
  destruct (copy_fwd_steps (Z.to_nat i) (fp s - j) (top s - 1 - i) PW PR sl)
    as [Sc (Rc1 & Rc2 & Rc3 & Rc4)].
  { intros m Hmm. unfold PW, PR, inr. lia. }
  destruct (copy_fwd_mem (Z.to_nat i) (fp s - j) (top s - 1 - i) sl ltac:(lia)) as [Mc1 Mc2].
  set (sc := copy_fwd (Z.to_nat i) (fp s - j) (top s - 1 - i) sl) in *.
  cbn [top fp self ip set_regs set_top wr].
  change (mem sl) with (mem s) in *.
  csplit; try reflexivity; try lia.
  - apply steps_set_regs. apply steps_set_top. apply steps_wr.
    + apply steps_set_top. eapply steps_trans; [exact Sl|exact Sc].
    + unfold PW, inr. cbn [top set_top]. lia.
  - cbn [mem set_regs set_top]. replace (fp s + i - j) with (fp s - j + i) by lia.
    apply mem_wr_eq.
  - intros k Hk. cbn [mem set_regs set_top]. rewrite mem_wr_neq by lia.
    cbn [mem set_top]. rewrite Mc1 by lia. reflexivity.
  - intros x Hx. cbn [mem set_regs set_top]. rewrite mem_wr_neq by lia.
    cbn [mem set_top]. rewrite Mc2 by lia. reflexivity.
Qed.

Example ex_tail_call :
  let s := wr (st 30 100 20) 20 (CFix 2) in   (* running frame with 2 params, 3 new args + proc *)
  let r := snd (tail_call_prep 3 s) in
  (top r, wlog r, map (mem r) [18; 19; 20; 21]) = (22, [21; 20; 19; 18; 20], [CObj 26; CObj 27; CObj 28; CObj 29]).
Proof. vm_compute. reflexivity. Qed.

(* ------------------------------------------------------------------ *)
(* 5. APPLY1: the list-spreading loop and the push, after ensure(i+64+depth) *)
Theorem apply1_in_frame : forall tmp1 args s j,
  mem s (fp s) = CFix j -> 0 <= j <= fp s ->
  steps (inr (fp s - j) (fp s - j + Z.of_nat (length args))) (inr (fp s) (fp s + 3))
        s (apply1_spread tmp1 args s) /\
  wlog (apply1_spread tmp1 args s)
    = (fp s - j + Z.of_nat (length args))
        :: rev (down_from (fp s - j + Z.of_nat (length args) - 1) (length args)) ++ wlog s /\
  top (apply1_spread tmp1 args s) = fp s - j + Z.of_nat (length args) + 1 /\
  fp (apply1_spread tmp1 args s) = unbox (mem s (fp s + 3)) /\
  mem (apply1_spread tmp1 args s) (fp s - j + Z.of_nat (length args)) = tmp1 /\
  (forall m, (m < length args)%nat ->
     mem (apply1_spread tmp1 args s) (fp s - j + Z.of_nat (length args) - 1 - Z.of_nat m)
     = nth m args CNull) /\
  (* in bounds when the ensure has succeeded: fp - j <= top, so top + i < len suffices *)
  (forall k, fp s - j <= k <= fp s - j + Z.of_nat (length args) ->
     fp s - j + Z.of_nat (length args) < len s -> 0 <= k < len (apply1_spread tmp1 args s)).
Proof.
  intros tmp1 args s j Hm Hj.
  unfold apply1_spread. cbv zeta.
  set (i := Z.of_nat (length args)).
  set (sl := logr (logr (logr (logr s (fp s + 3)) (fp s)) (fp s + 2)) (fp s + 1)).
  cbn [mem logr]. rewrite Hm. cbn [unbox].
  set (PW := inr (fp s - j) (fp s - j + i)).
  set (PR := inr (fp s) (fp s + 3)).
  assert (Sl : steps PW PR s sl).
  { unfold sl. repeat (apply steps_logr; [|unfold PR, inr; lia]). apply steps_refl. }
  destruct (spread_steps args (fp s - j + i - 1) PW PR sl) as [Sc (Rc1 & Rc2 & Rc3 & Rc4)].
  { intros m Hmm. unfold PW, inr. fold i in Hmm. lia. }
  destruct (spread_mem args (fp s - j + i - 1) sl) as [Mc1 Mc2].
  pose proof (spread_wlog args (fp s - j + i - 1) sl) as Wc.
  set (sc := spread args (fp s - j + i - 1) sl) in *.
  assert (Lc : len sc = len s) by (destruct Sc as (_ & _ & _ & L); exact L).
  cbn [top fp self ip len wlog set_regs set_top wr].
  change (mem sl) with (mem s) in *. change (wlog sl) with (wlog s) in *.
  csplit; try reflexivity; try lia.
  - apply steps_set_regs. apply steps_set_top. apply steps_wr.
    + apply steps_set_top. eapply steps_trans; [exact Sl|exact Sc].
    + unfold PW, inr. cbn [top set_top]. lia.
  - rewrite Wc. f_equal. lia.
  - cbn [mem set_regs set_top]. replace (fp s + i - j) with (fp s - j + i) by lia.
    apply mem_wr_eq.
  - intros m Hmm. cbn [mem set_regs set_top]. rewrite mem_wr_neq by lia.
    cbn [mem set_top]. apply Mc1. exact Hmm.
Qed.

Example ex_apply1 :
  let s := wr (st 30 100 20) 20 (CFix 2) in
  let r := apply1_spread (CObj 29) [CObj 1; CObj 2; CObj 3] s in
  (top r, fp r, wlog r, map (mem r) [18; 19; 20; 21]) =
  (22, 23, [21; 18; 19; 20; 20], [CObj 3; CObj 2; CObj 1; CObj 29]).
Proof. vm_compute. reflexivity. Qed.
