(** C01 round 2 — proofs about the depth-bound discipline model of C01/Recursion.v *)
From Coq Require Import List Arith Lia Bool.
Import ListNotations.
From ChibiV Require Import C01.Recursion.

Lemma step_room : forall WB f s f',
  site_ok s = true -> wf WB f -> step WB f s = Some f' -> wf WB f' /\ S (room WB f') <= room WB f.
Proof.
  intros WB f s f' Hok Hwf Hst.
  destruct f as [b|k]; destruct s as [d|c|]; simpl in Hok; try discriminate.
  - (* Bounded, Rec *) apply Nat.eqb_eq in Hok. subst d. simpl in Hst.
    destruct (b <? WB) eqn:E; try discriminate. apply Nat.ltb_lt in E.
    injection Hst as <-. simpl. unfold max_rank. split; lia.
  - (* Bounded, Reset *) simpl in Hst. destruct c; simpl in Hst, Hok; try discriminate;
      injection Hst as <-; simpl in *; unfold max_rank; split; lia.
  - (* Leaf, Rec *) destruct k; simpl in Hst; discriminate.
  - (* Leaf, Reset *) destruct k; simpl in Hst; try discriminate.
    destruct c; simpl in Hst, Hok; try discriminate; injection Hst as <-; simpl in *; unfold max_rank in *; split; lia.
Qed.

Lemma run_room : forall WB p f f',
  forallb site_ok p = true -> wf WB f -> run WB f p = Some f' -> length p <= room WB f.
Proof.
  intros WB p. induction p as [|s p IH]; intros f f' Hok Hwf Hrun; simpl in *.
  - lia.
  - apply andb_true_iff in Hok. destruct Hok as [Hs Hp].
    destruct (step WB f s) as [f1|] eqn:E; try discriminate.
    destruct (step_room WB f s f1 Hs Hwf E) as [Hwf1 Hroom].
    specialize (IH f1 f' Hp Hwf1 Hrun). lia.
Qed.

(** THE THEOREM: if every site of the table passes [bound+1] (or prints an object whose type bounds its own
    depth), then for ALL data - any sequence of sites the data may drive the printer through - the number of
    nested C activations below the outermost call [sexp_write_one(obj, 0)] is at most WB + 3. *)

Theorem write_depth_bounded_proof : forall WB (table : list site) (p : list site) f',
  forallb site_ok table = true ->
  (forall s, In s p -> In s table) ->
  run WB (Bounded 0) p = Some f' ->
  length p <= WB + 3.
Proof.
  intros WB table p f' Htab Hin Hrun.
  assert (Hok : forallb site_ok p = true).
  { apply forallb_forall. intros s Hs. rewrite forallb_forall in Htab. apply Htab, Hin, Hs. }
  pose proof (run_room WB p (Bounded 0) f' Hok) as H. simpl in H.
  specialize (H (Nat.le_0_l WB) Hrun). unfold max_rank in H. lia.
Qed.

(** and NOT otherwise: a single site that passes its own bound on (delta 0) lets data nested through that
    site drive the C recursion to any depth *)

Theorem write_depth_unbounded_if_a_site_keeps_bound_proof : forall WB n, 0 < WB ->
  run WB (Bounded 0) (repeat (Rec 0) n) = Some (Bounded 0).
Proof.
  intros WB n HWB. induction n as [|n IH]; simpl; [reflexivity|].
  destruct (0 <? WB) eqn:E; [exact IH | apply Nat.ltb_ge in E; lia].
Qed.

(** likewise a site that restarts the bound on an arbitrary object (the pinned SEXP_SYNCLO case) *)

Theorem write_depth_unbounded_if_a_site_resets_proof : forall WB n,
  run WB (Bounded 0) (repeat (Reset OtherObj) n) = Some (Bounded 0).
Proof. intros WB n. induction n as [|n IH]; simpl; [reflexivity | exact IH]. Qed.

Example ok_table_example : forallb site_ok [Rec 1; Rec 1; Reset Atomic; Reset NumberPart] = true.
Proof. reflexivity. Qed.

Example bad_table_example : forallb site_ok [Rec 1; Rec 0] = false.
Proof. reflexivity. Qed.

Example run_example : run 3 (Bounded 0) [Rec 1; Rec 1; Rec 1; Reset NumberPart; Reset NumberPart; Reset Atomic] = Some (Leaf 0).
Proof. reflexivity. Qed.

Example run_stops_example : run 3 (Bounded 0) [Rec 1; Rec 1; Rec 1; Rec 1] = None.
Proof. reflexivity. Qed.

Example graph_ok_example : graph_ok 3 [(0, 1, Same); (1, 2, Same); (2, 0, Inc)] = true.
Proof. reflexivity. Qed.

Example graph_cycle_example : graph_ok 3 [(0, 1, Same); (1, 1, Same); (2, 0, Inc)] = false.
Proof. reflexivity. Qed.

Example graph_bad_example : graph_ok 3 [(0, 1, Same); (1, 2, Bad)] = false.
Proof. reflexivity. Qed.

(** with a rank certificate, a chain of calls that all pass [depth] on unchanged is no longer than the rank of the
    function it starts in: the analyzer's C recursion between two increments of its depth counter is bounded *)
Theorem same_chain_bounded_proof : forall (rank : nat -> nat) (es : list edge),
  forallb (edge_ok rank) es = true ->
  forall p v, same_chain es v p -> length p <= rank v.
Proof.
  intros rank es Hok p. induction p as [|e p IH]; intros v Hc; simpl in *.
  - lia.
  - destruct e as [[a b] k]. destruct Hc as [Ha [Hk [Hin Hrest]]]. subst a k.
    rewrite forallb_forall in Hok. specialize (Hok _ Hin). simpl in Hok.
    apply Nat.ltb_lt in Hok. specialize (IH b Hrest). lia.
Qed.

Example same_chain_example : same_chain [(0, 1, Same); (1, 2, Same); (2, 0, Inc)] 0 [(0, 1, Same); (1, 2, Same)].
Proof. simpl. repeat split; auto. Qed.
Example edge_ok_example : forallb (edge_ok (fun v => 3 - v)) [(0, 1, Same); (1, 2, Same); (2, 0, Inc)] = true.
Proof. reflexivity. Qed.
