(* C01/FrameOps.v - whole-opcode theorems composing the parts of FrameProofs.v:
   arguments delivered by make_call, CALL / TAIL_CALL / APPLY1 in their window,
   round trips through RET. *)
From ChibiV Require Import C01.Frame C01.FrameProofs.
Require Import ZArith List Bool Lia.
Import ListNotations.
Open Scope Z_scope.

(* [steps] without the "length unchanged" clause (an ensure_stack may grow it):
   s' is reached from s by writes inside PW and reads inside PR only *)
Definition acc (PW PR : Z -> Prop) (s s' : vm) : Prop :=
  (exists nw, wlog s' = nw ++ wlog s /\ Forall PW nw) /\
  (exists nr, rlog s' = nr ++ rlog s /\ Forall PR nr) /\
  (forall k, ~ PW k -> mem s' k = mem s k).

Lemma acc_of_steps : forall PW PR s s', steps PW PR s s' -> acc PW PR s s'.
Proof. intros PW PR s s' (A & B & C & _). split; [exact A|split; [exact B|exact C]]. Qed.

Lemma acc_trans : forall PW PR s s1 s2, acc PW PR s s1 -> acc PW PR s1 s2 -> acc PW PR s s2.
Proof.
  intros PW PR s s1 s2 ((w1 & Hw1 & Fw1) & (r1 & Hr1 & Fr1) & M1)
         ((w2 & Hw2 & Fw2) & (r2 & Hr2 & Fr2) & M2).
  split; [|split].
  - exists (w2 ++ w1). rewrite Hw2, Hw1, app_assoc. split; auto. apply Forall_app; auto.
  - exists (r2 ++ r1). rewrite Hr2, Hr1, app_assoc. split; auto. apply Forall_app; auto.
  - intros k Hk. rewrite M2, M1; auto.
Qed.

Lemma acc_weaken : forall (PW PR PW' PR' : Z -> Prop) s s',
  (forall k, PW k -> PW' k) -> (forall k, PR k -> PR' k) ->
  acc PW PR s s' -> acc PW' PR' s s'.
Proof.
  intros PW PR PW' PR' s s' HW HR ((w & Hw & Fw) & (r & Hr & Fr) & M).
  split; [|split].
  - exists w. split; auto. eapply Forall_impl; eauto.
  - exists r. split; auto. eapply Forall_impl; eauto.
  - intros k Hk. apply M. intro. apply Hk. auto.
Qed.

Lemma acc_same : forall (PW PR : Z -> Prop) s s',
  wlog s' = wlog s -> rlog s' = rlog s -> mem s' = mem s -> acc PW PR s s'.
Proof.
  intros PW PR s s' W R M. split; [|split].
  - exists []. split; [exact W|constructor].
  - exists []. split; [exact R|constructor].
  - intros k _. rewrite M. reflexivity.
Qed.

Lemma acc_logr : forall (PW PR : Z -> Prop) s k, PR k -> acc PW PR s (logr s k).
Proof.
  intros PW PR s k Hk. split; [|split].
  - exists []. split; [reflexivity|constructor].
  - exists [k]. split; [reflexivity|]. constructor; auto.
  - reflexivity.
Qed.

Lemma push_frame_below : forall tmp1 r i s k,
  k < top s - 1 -> mem (push_frame tmp1 r i s) k = mem s k.
Proof.
  intros tmp1 r i s k Hk.
  destruct (push_frame_spec tmp1 r i s) as ((_ & _ & M & _) & _).
  apply M. unfold inr. lia.
Qed.

(* ------------------------------------------------------------------ *)
(* 1. what the callee finds in its argument slots                       *)
Theorem make_call_args_delivered : forall grow tmp1 p i ret_ip s s',
  grow_ok grow -> 0 <= i -> 0 <= p_nargs p ->
  make_call grow tmp1 (Some p) i ret_ip s = Enter s' ->
  (* fixed argument m (first argument = m 0, at top-2) unchanged, all protocols *)
  (forall m, 0 <= m < p_nargs p -> mem s' (fp s' - 1 - m) = mem s (top s - 2 - m)) /\
  (* rest USED, j = i - nargs > 0: the j surplus arguments, in call order *)
  (p_variadic p = true -> p_unused_rest p = false -> 0 < i - p_nargs p ->
   mem s' (fp s' - 1 - p_nargs p)
   = list_of (rev (seg_up (mem s) (top s - i - 1) (Z.to_nat (i - p_nargs p))))) /\
  (* rest USED, exact count: '() *)
  (p_variadic p = true -> p_unused_rest p = false -> i = p_nargs p ->
   mem s' (fp s' - 1 - p_nargs p) = CNull) /\
  (* rest UNUSED or not variadic: all i arguments stay in place *)
  (p_variadic p = false \/ p_unused_rest p = true ->
   forall m, 0 <= m < i -> mem s' (fp s' - 1 - m) = mem s (top s - 2 - m)).
Proof.
  intros grow tmp1 p i ret_ip s s' G Hi Hn H. unfold make_call in H.
  destruct (Z.ltb_spec (i - p_nargs p) 0) as [Hj|Hj]; [discriminate|].
  destruct (ensure grow (p_depth p + 64) s) as [s0|] eqn:E; [|discriminate].
  destruct (ensure_some _ _ _ _ G E) as (E1 & E2 & E3 & E4 & E5 & E6 & E7 & E8 & E9).
  assert (Plain : s' = push_frame tmp1 ret_ip i s0 ->
                  forall m, 0 <= m -> mem s' (fp s' - 1 - m) = mem s (top s - 2 - m)).
  { intros -> m Hm. destruct (push_frame_spec tmp1 ret_ip i s0) as (_ & _ & P3 & _).
    rewrite P3. rewrite push_frame_below by lia. rewrite E3. f_equal. lia. }
  destruct (Z.ltb_spec 0 (i - p_nargs p)) as [Hj2|Hj2].
  - destruct (p_variadic p) eqn:V; [|discriminate].
    destruct (p_unused_rest p) eqn:U; cbn [negb] in H; injection H as H; symmetry in H.
    + csplit; intros; try congruence; try lia; apply (Plain H); lia.
    + remember (i - p_nargs p) as j eqn:Ej.
      destruct (surplus_spec i j s0 ltac:(lia) ltac:(lia)) as (_ & U2 & _ & _ & _ & U6 & U7 & _).
      set (s1 := rest_used_surplus i j s0) in *.
      destruct (push_frame_spec tmp1 ret_ip (i - (j - 1)) s1) as (_ & _ & P3 & _).
      subst s'. csplit.
      * intros m Hm. rewrite P3. rewrite push_frame_below by lia.
        rewrite U7 by lia. rewrite E3. f_equal. lia.
      * intros _ _ _. rewrite P3. rewrite push_frame_below by lia.
        replace (top s1 - 1 - 1 - p_nargs p) with (top s0 - i - 1) by lia.
        rewrite U6, E3, E4. reflexivity.
      * intros; lia.
      * intros [C|C]; congruence.
  - destruct (p_variadic p) eqn:V; destruct (p_unused_rest p) eqn:U;
      cbn [andb negb] in H; injection H as H; symmetry in H.
    + csplit; intros; try congruence; try lia; apply (Plain H); lia.
    + destruct (empty_spec i s0 Hi) as (_ & U2 & _ & _ & _ & U6 & U7).
      set (s1 := rest_used_empty i s0) in *.
      destruct (push_frame_spec tmp1 ret_ip (i + 1) s1) as (_ & _ & P3 & _).
      subst s'. csplit.
      * intros m Hm. rewrite P3. rewrite push_frame_below by lia.
        rewrite U7 by lia. rewrite E3. f_equal. lia.
      * intros; lia.
      * intros _ _ _. rewrite P3. rewrite push_frame_below by lia.
        replace (top s1 - 1 - 1 - p_nargs p) with (top s0 - i - 1) by lia. exact U6.
      * intros [C|C]; congruence.
    + csplit; intros; try congruence; try lia; apply (Plain H); lia.
    + csplit; intros; try congruence; try lia; apply (Plain H); lia.
Qed.

(* make_call's window in [acc] form, with the margin it leaves *)
Lemma mc_acc : forall grow tmp1 p i ret_ip s s',
  grow_ok grow -> 0 <= i -> 0 <= p_nargs p -> 0 <= p_depth p ->
  make_call grow tmp1 (Some p) i ret_ip s = Enter s' ->
  acc (fun k => top s - i - 1 <= k <= top s + 3 /\ k < len s')
      (fun k => top s - i - 1 <= k <= top s - 1 /\ k < len s') s s' /\
  len s <= len s' /\ top s + p_depth p + 64 < len s'.
Proof.
  intros grow tmp1 p i ret_ip s s' G Hi Hn Hd H.
  destruct (make_call_enter _ _ _ _ _ _ _ G Hi Hn H) as (s0 & i' & E & S & _).
  destruct (ensure_some _ _ _ _ G E) as (E1 & E2 & E3 & E4 & E5 & E6 & E7 & E8 & E9).
  destruct S as ((w & Hw & Fw) & (r & Hr & Fr) & M & L).
  split; [|lia]. split; [|split].
  - exists w. rewrite <- E8. split; auto.
    eapply Forall_impl; [|exact Fw]. unfold inr. intros; lia.
  - exists r. rewrite <- E9. split; auto.
    eapply Forall_impl; [|exact Fr]. unfold inr. intros; lia.
  - intros k Hk. rewrite M; [rewrite E3; reflexivity|]. unfold inr. intro. apply Hk. lia.
Qed.

Ltac weak X := eapply acc_weaken; [| |exact X]; cbv beta; unfold inr, nowhere; intros; lia.

(* ------------------------------------------------------------------ *)
(* 2a. SEXP_OP_CALL                                                     *)
Lemma op_call_unfold : forall grow decode i s,
  op_call grow decode i s =
  make_call grow (mem s (top s - 1)) (decode (mem s (top s - 1))) i (ip s + 1) (logr s (top s - 1)).
Proof. reflexivity. Qed.

Theorem op_call_in_frame : forall grow decode i s p s',
  grow_ok grow -> 0 <= i -> i + 1 <= top s ->
  decode (mem s (top s - 1)) = Some p -> 0 <= p_nargs p -> 0 <= p_depth p ->
  op_call grow decode i s = Enter s' ->
  acc (fun k => top s - i - 1 <= k <= top s + 3 /\ 0 <= k < len s')
      (fun k => top s - i - 1 <= k <= top s - 1 /\ 0 <= k < len s') s s' /\
  len s <= len s' /\ self s' = mem s (top s - 1) /\ fp s' = top s' - 4 /\
  (exists i', mem s' (fp s') = CFix i' /\ fp s' - i' = top s - i - 1 /\ 0 <= i') /\
  mem s' (fp s' + 1) = CFix (ip s + 1) /\ mem s' (fp s' + 2) = self s /\
  mem s' (fp s' + 3) = CFix (fp s).
Proof.
  intros grow decode i s p s' G Hi Ht Hd Hn Hdp H.
  rewrite op_call_unfold, Hd in H.
  set (sl := logr s (top s - 1)) in *.
  destruct (mc_acc _ _ _ _ _ _ _ G Hi Hn Hdp H) as (A & L & Mg).
  destruct (make_call_frame_shape _ _ _ _ _ _ _ G Hi Hn H) as (F1 & F2 & F3 & F4 & F5 & F6 & F7 & F8).
  change (top sl) with (top s) in *. change (len sl) with (len s) in *.
  change (self sl) with (self s) in *. change (fp sl) with (fp s) in *.
  csplit; auto.
  eapply acc_trans.
  - apply (acc_logr _ _ s (top s - 1)). cbv beta. lia.
  - fold sl. weak A.
Qed.

(* ------------------------------------------------------------------ *)
(* 2b. SEXP_OP_TAIL_CALL: the running frame is REUSED (base = fp - j)   *)
Lemma op_tail_call_enter : forall grow decode i s s',
  op_tail_call grow decode i s = Enter s' ->
  make_call grow (fst (tail_call_prep i s)) (decode (fst (tail_call_prep i s))) i
            (ip (snd (tail_call_prep i s)) + 1) (snd (tail_call_prep i s)) = Enter s'.
Proof.
  unfold op_tail_call. intros grow decode i s s' H.
  destruct (tail_call_prep i s) as [t sp]. exact H.
Qed.

Theorem op_tail_call_in_frame : forall grow decode i s j p s',
  grow_ok grow -> mem s (fp s) = CFix j -> 0 <= j <= fp s -> 0 <= i ->
  fp s + 4 + i + 1 <= top s -> top s <= len s ->
  decode (mem s (top s - 1)) = Some p -> 0 <= p_nargs p -> 0 <= p_depth p ->
  op_tail_call grow decode i s = Enter s' ->
  acc (fun k => fp s - j <= k <= fp s - j + i + 4 /\ 0 <= k < len s')
      (fun k => fp s - j <= k <= top s - 1 /\ 0 <= k < len s') s s' /\
  len s <= len s' /\ self s' = mem s (top s - 1) /\ fp s' = top s' - 4 /\
  (exists i', mem s' (fp s') = CFix i' /\ fp s' - i' = fp s - j /\ 0 <= i') /\
  (* the return information of the reused frame is carried over *)
  mem s' (fp s' + 1) = CFix (unbox (mem s (fp s + 1))) /\
  mem s' (fp s' + 2) = mem s (fp s + 2) /\
  mem s' (fp s' + 3) = CFix (unbox (mem s (fp s + 3))).
Proof.
  intros grow decode i s j p s' G Hm Hj Hi Ht Hlen Hd Hn Hdp H.
  apply op_tail_call_enter in H.
  destruct (tail_call_in_frame i s j Hm Hj Hi Ht)
    as (T1 & T2 & T3 & T4 & T5 & T6 & T7 & T8 & T9 & T10 & T11).
  set (sp := snd (tail_call_prep i s)) in *.
  rewrite T1, Hd in H.
  destruct (mc_acc _ _ _ _ _ _ _ G Hi Hn Hdp H) as (A & L & Mg).
  destruct (make_call_frame_shape _ _ _ _ _ _ _ G Hi Hn H) as (F1 & F2 & F3 & (i' & F4 & F4b & F4c) & F5 & F6 & F7 & F8).
  assert (Lp : len sp = len s) by (destruct T2 as (_ & _ & _ & L0); exact L0).
  csplit.
  - eapply acc_trans.
    + apply acc_of_steps in T2. weak T2.
    + weak A.
  - lia.
  - exact F2.
  - exact F1.
  - exists i'. csplit; auto. lia.
  - rewrite F5. f_equal. lia.
  - rewrite F6. exact T5.
  - rewrite F7, T4. reflexivity.
Qed.

(* ------------------------------------------------------------------ *)
(* 2c. SEXP_OP_APPLY1                                                   *)
Lemma op_apply1_unfold : forall grow decode args proper s,
  op_apply1 grow decode args proper s =
  match ensure grow (Z.of_nat (length args) + 64 +
                     match decode (mem s (top s - 1)) with Some p => p_depth p | None => 0 end)
               (logr (logr s (top s - 1)) (top s - 2)) with
  | None => oos (logr (logr s (top s - 1)) (top s - 2))
  | Some s0 =>
    if proper then
      make_call grow (mem s (top s - 1)) (decode (mem s (top s - 1))) (Z.of_nat (length args))
                (ip (apply1_spread (mem s (top s - 1)) args s0) + 1)
                (apply1_spread (mem s (top s - 1)) args s0)
    else Raise MSG_IMPROPER
           (raise_push MSG_IMPROPER
              (mem (apply1_spread (mem s (top s - 1)) args s0) (top s0 - 2))
              (logr (set_top (apply1_spread (mem s (top s - 1)) args s0) (top s0)) (top s0 - 2)))
  end.
Proof. reflexivity. Qed.

Lemma apply1_spread_self_ip : forall tmp1 args s,
  self (apply1_spread tmp1 args s) = mem s (fp s + 2) /\
  ip (apply1_spread tmp1 args s) + 1 = unbox (mem s (fp s + 1)).
Proof.
  intros. unfold apply1_spread. cbv zeta. cbn [self ip set_regs mem logr].
  split; [reflexivity|lia].
Qed.

Theorem op_apply1_in_frame : forall grow decode args s j p s',
  grow_ok grow -> mem s (fp s) = CFix j -> 0 <= j <= fp s -> fp s + 6 <= top s ->
  decode (mem s (top s - 1)) = Some p -> 0 <= p_nargs p -> 0 <= p_depth p ->
  op_apply1 grow decode args true s = Enter s' ->
  acc (fun k => fp s - j <= k <= fp s - j + Z.of_nat (length args) + 4 /\ 0 <= k < len s')
      (fun k => (fp s - j <= k <= fp s - j + Z.of_nat (length args) \/ fp s <= k <= top s - 1)
                /\ 0 <= k < len s') s s' /\
  len s <= len s' /\ self s' = mem s (top s - 1) /\ fp s' = top s' - 4 /\
  (exists i', mem s' (fp s') = CFix i' /\ fp s' - i' = fp s - j /\ 0 <= i') /\
  mem s' (fp s' + 1) = CFix (unbox (mem s (fp s + 1))) /\
  mem s' (fp s' + 2) = mem s (fp s + 2) /\
  mem s' (fp s' + 3) = CFix (unbox (mem s (fp s + 3))).
Proof.
  intros grow decode args s j p s' G Hm Hj Ht Hd Hn Hdp H.
  rewrite op_apply1_unfold, Hd in H.
  set (sA := logr (logr s (top s - 1)) (top s - 2)) in *.
  destruct (ensure grow (Z.of_nat (length args) + 64 + p_depth p) sA) as [s0|] eqn:E; [|discriminate].
  destruct (ensure_some _ _ _ _ G E) as (E1 & E2 & E3 & E4 & E5 & E6 & E7 & E8 & E9).
  change (top sA) with (top s) in *. change (fp sA) with (fp s) in *.
  change (mem sA) with (mem s) in *. change (wlog sA) with (wlog s) in *.
  change (len sA) with (len s) in *.
  destruct (apply1_in_frame (mem s (top s - 1)) args s0 j) as (A1 & A2 & A3 & A4 & A5 & A6 & A7);
    [rewrite E3, E5; exact Hm | rewrite E5; exact Hj |].
  destruct (apply1_spread_self_ip (mem s (top s - 1)) args s0) as (A8 & A9).
  set (s1 := apply1_spread (mem s (top s - 1)) args s0) in *.
  rewrite E3, E5 in *.
  destruct (mc_acc _ _ _ _ _ _ _ G (Nat2Z.is_nonneg _) Hn Hdp H) as (A & L & Mg).
  destruct (make_call_frame_shape _ _ _ _ _ _ _ G (Nat2Z.is_nonneg _) Hn H)
    as (F1 & F2 & F3 & (i' & F4 & F4b & F4c) & F5 & F6 & F7 & F8).
  assert (L1 : len s1 = len s0) by (destruct A1 as (_ & _ & _ & L0); exact L0).
  csplit; [| lia | exact F2 | exact F1 | | | | ].
  - eapply acc_trans; [|eapply acc_trans; [|eapply acc_trans]].
    + (* the two operand reads *)
      eapply (acc_trans _ _ s (logr s (top s - 1)) sA).
      * apply acc_logr. cbv beta. lia.
      * apply acc_logr. cbv beta. lia.
    + (* ensure *) apply (acc_same _ _ sA s0); [exact E8 | exact E9 | exact E3].
    + apply acc_of_steps in A1. weak A1.
    + weak A.
  - exists i'. csplit; auto. lia.
  - rewrite F5. f_equal. lia.
  - rewrite F6. exact A8.
  - rewrite F7, A4. reflexivity.
Qed.

(* the IMPROPER-list path: spread, then top = prev_top and sexp_raise *)
Theorem op_apply1_improper_in_frame : forall grow decode args s j msg s',
  grow_ok grow -> mem s (fp s) = CFix j -> 0 <= j <= fp s -> fp s + 6 <= top s ->
  (forall p, decode (mem s (top s - 1)) = Some p -> 0 <= p_depth p) ->
  op_apply1 grow decode args false s = Raise msg s' ->
  msg = MSG_IMPROPER /\ top s' = top s + 1 /\
  acc (fun k => (fp s - j <= k <= fp s - j + Z.of_nat (length args) \/ k = top s)
                /\ 0 <= k < len s')
      (fun k => fp s <= k <= top s /\ 0 <= k < len s') s s' /\
  fp s' = unbox (mem s (fp s + 3)) /\ len s <= len s'.
Proof.
  intros grow decode args s j msg s' G Hm Hj Ht Hdp H.
  rewrite op_apply1_unfold in H.
  set (sA := logr (logr s (top s - 1)) (top s - 2)) in *.
  set (depth := match decode (mem s (top s - 1)) with Some p => p_depth p | None => 0 end) in *.
  assert (Hd0 : 0 <= depth).
  { unfold depth. destruct (decode (mem s (top s - 1))) as [p|] eqn:D; [apply (Hdp p); reflexivity|lia]. }
  destruct (ensure grow (Z.of_nat (length args) + 64 + depth) sA) as [s0|] eqn:E; [|discriminate].
  destruct (ensure_some _ _ _ _ G E) as (E1 & E2 & E3 & E4 & E5 & E6 & E7 & E8 & E9).
  change (top sA) with (top s) in *. change (fp sA) with (fp s) in *.
  change (mem sA) with (mem s) in *. change (wlog sA) with (wlog s) in *.
  change (len sA) with (len s) in *.
  destruct (apply1_in_frame (mem s (top s - 1)) args s0 j) as (A1 & A2 & A3 & A4 & A5 & A6 & A7);
    [rewrite E3, E5; exact Hm | rewrite E5; exact Hj |].
  set (s1 := apply1_spread (mem s (top s - 1)) args s0) in *.
  rewrite E3, E5 in *.
  assert (L1 : len s1 = len s0) by (destruct A1 as (_ & _ & _ & L0); exact L0).
  injection H as <- <-.
  unfold raise_push. cbv zeta. cbn [top fp len set_top wr logr]. rewrite E4.
  csplit; auto; try lia.
  eapply acc_trans; [|eapply acc_trans; [|eapply acc_trans]].
  - eapply (acc_trans _ _ s (logr s (top s - 1)) sA).
    + apply acc_logr. cbv beta. cbn [len set_top wr logr]. lia.
    + apply acc_logr. cbv beta. cbn [len set_top wr logr]. lia.
  - apply (acc_same _ _ sA s0); [exact E8 | exact E9 | exact E3].
  - apply acc_of_steps in A1. eapply acc_weaken; [| |exact A1]; cbv beta;
      cbn [len set_top wr logr]; unfold inr; intros; lia.
  - (* set_top; read prev_top-2; two writes and one read at prev_top *)
    split; [|split].
    + exists [top s; top s]. split; [reflexivity|]. cbn [len set_top wr logr].
      repeat constructor; lia.
    + exists [top s; top s - 2]. split; [reflexivity|]. cbn [len set_top wr logr].
      repeat constructor; lia.
    + intros k Hk. cbn [mem set_top wr logr].
      destruct (Z.eqb_spec k (top s)) as [->|Hne]; [|reflexivity].
      exfalso. apply Hk. cbn [len set_top wr logr]. lia.
Qed.

(* ------------------------------------------------------------------ *)
(* 3. round trips: opcode, body leaving a result on the same frame, RET *)

Theorem frame_round_trip_call : forall grow decode i s p s1 s2,
  grow_ok grow -> 0 <= i -> i + 1 <= top s ->
  decode (mem s (top s - 1)) = Some p -> 0 <= p_nargs p -> 0 <= p_depth p ->
  op_call grow decode i s = Enter s1 ->
  fp s2 = fp s1 -> len s1 <= len s2 ->
  mem s2 (fp s1) = mem s1 (fp s1) -> mem s2 (fp s1 + 1) = mem s1 (fp s1 + 1) ->
  mem s2 (fp s1 + 2) = mem s1 (fp s1 + 2) -> mem s2 (fp s1 + 3) = mem s1 (fp s1 + 3) ->
  fp s1 + 5 <= top s2 ->
  (forall k, k < top s - i - 1 -> mem s2 k = mem s1 k) ->
  top (op_ret s2) = top s - i /\
  mem (op_ret s2) (top (op_ret s2) - 1) = mem s2 (top s2 - 1) /\
  fp (op_ret s2) = fp s /\ self (op_ret s2) = self s /\ ip (op_ret s2) = ip s + 1 /\
  (forall k, k < top s - i - 1 -> mem (op_ret s2) k = mem s k) /\
  wlog (op_ret s2) = (top s - i - 1) :: wlog s2 /\
  0 <= top s - i - 1 < len s2.
Proof.
  intros grow decode i s p s1 s2 G Hi Ht Hd Hn Hdp H Hfp Hlen M0 M1 M2 M3 Htop Hbelow.
  rewrite op_call_unfold, Hd in H.
  destruct (frame_restored_by_ret _ _ _ _ _ (logr s (top s - 1)) s1 s2
              G Hi Ht Hn Hdp H Hfp Hlen M0 M1 M2 M3 Htop Hbelow)
    as (R1 & R2 & R3 & R4 & R5 & R6 & R7 & R8 & _).
  csplit; [exact R1|exact R2|exact R3|exact R4|exact R5|exact R6|exact R7|apply R8|apply R8].
Qed.

Theorem frame_round_trip_apply1 : forall grow decode args s j p s1 s2,
  grow_ok grow -> mem s (fp s) = CFix j -> 0 <= j <= fp s -> fp s + 6 <= top s ->
  decode (mem s (top s - 1)) = Some p -> 0 <= p_nargs p -> 0 <= p_depth p ->
  op_apply1 grow decode args true s = Enter s1 ->
  fp s2 = fp s1 -> len s1 <= len s2 ->
  mem s2 (fp s1) = mem s1 (fp s1) -> mem s2 (fp s1 + 1) = mem s1 (fp s1 + 1) ->
  mem s2 (fp s1 + 2) = mem s1 (fp s1 + 2) -> mem s2 (fp s1 + 3) = mem s1 (fp s1 + 3) ->
  fp s1 + 5 <= top s2 ->
  (forall k, k < fp s - j -> mem s2 k = mem s1 k) ->
  (* RET returns to the CALLER of the frame that executed APPLY1 *)
  top (op_ret s2) = fp s - j + 1 /\
  mem (op_ret s2) (fp s - j) = mem s2 (top s2 - 1) /\
  fp (op_ret s2) = unbox (mem s (fp s + 3)) /\ self (op_ret s2) = mem s (fp s + 2) /\
  ip (op_ret s2) = unbox (mem s (fp s + 1)) /\
  (forall k, k < fp s - j -> mem (op_ret s2) k = mem s k) /\
  wlog (op_ret s2) = (fp s - j) :: wlog s2 /\
  0 <= fp s - j < len s2.
Proof.
  intros grow decode args s j p s1 s2 G Hm Hj Ht Hd Hn Hdp H Hfp Hlen M0 M1 M2 M3 Htop Hbelow.
  rewrite op_apply1_unfold, Hd in H.
  set (sA := logr (logr s (top s - 1)) (top s - 2)) in *.
  destruct (ensure grow (Z.of_nat (length args) + 64 + p_depth p) sA) as [s0|] eqn:E; [|discriminate].
  destruct (ensure_some _ _ _ _ G E) as (E1 & E2 & E3 & E4 & E5 & E6 & E7 & E8 & E9).
  change (top sA) with (top s) in *. change (fp sA) with (fp s) in *.
  change (mem sA) with (mem s) in *. change (len sA) with (len s) in *.
  destruct (apply1_in_frame (mem s (top s - 1)) args s0 j) as (A1 & A2 & A3 & A4 & A5 & A6 & A7);
    [rewrite E3, E5; exact Hm | rewrite E5; exact Hj |].
  destruct (apply1_spread_self_ip (mem s (top s - 1)) args s0) as (A8 & A9).
  set (sp := apply1_spread (mem s (top s - 1)) args s0) in *.
  rewrite E3, E5 in *.
  assert (Hb : forall k, k < top sp - Z.of_nat (length args) - 1 -> mem s2 k = mem s1 k).
  { intros k Hk. apply Hbelow. lia. }
  assert (Hti : Z.of_nat (length args) + 1 <= top sp) by lia.
  destruct (frame_restored_by_ret _ _ _ _ _ sp s1 s2
              G (Nat2Z.is_nonneg _) Hti Hn Hdp H Hfp Hlen M0 M1 M2 M3 Htop Hb)
    as (R1 & R2 & R3 & R4 & R5 & R6 & R7 & R8 & _).
  destruct A1 as (_ & _ & MA & _).
  csplit.
  - lia.
  - rewrite <- R2. f_equal. lia.
  - rewrite R3. exact A4.
  - rewrite R4. exact A8.
  - rewrite R5. exact A9.
  - intros k Hk. rewrite R6 by lia. rewrite MA by (unfold inr; lia). rewrite E3. reflexivity.
  - rewrite R7. f_equal. lia.
  - lia.
  - lia.
Qed.

Theorem frame_round_trip_tail_call : forall grow decode i s j p s1 s2,
  grow_ok grow -> mem s (fp s) = CFix j -> 0 <= j <= fp s -> 0 <= i ->
  fp s + 4 + i + 1 <= top s ->
  decode (mem s (top s - 1)) = Some p -> 0 <= p_nargs p -> 0 <= p_depth p ->
  op_tail_call grow decode i s = Enter s1 ->
  fp s2 = fp s1 -> len s1 <= len s2 ->
  mem s2 (fp s1) = mem s1 (fp s1) -> mem s2 (fp s1 + 1) = mem s1 (fp s1 + 1) ->
  mem s2 (fp s1 + 2) = mem s1 (fp s1 + 2) -> mem s2 (fp s1 + 3) = mem s1 (fp s1 + 3) ->
  fp s1 + 5 <= top s2 ->
  (forall k, k < fp s - j -> mem s2 k = mem s1 k) ->
  top (op_ret s2) = fp s - j + 1 /\
  mem (op_ret s2) (fp s - j) = mem s2 (top s2 - 1) /\
  fp (op_ret s2) = unbox (mem s (fp s + 3)) /\ self (op_ret s2) = mem s (fp s + 2) /\
  ip (op_ret s2) = unbox (mem s (fp s + 1)) /\
  (forall k, k < fp s - j -> mem (op_ret s2) k = mem s k) /\
  wlog (op_ret s2) = (fp s - j) :: wlog s2 /\
  0 <= fp s - j < len s2.
Proof.
  intros grow decode i s j p s1 s2 G Hm Hj Hi Ht Hd Hn Hdp H Hfp Hlen M0 M1 M2 M3 Htop Hbelow.
  apply op_tail_call_enter in H.
  destruct (tail_call_in_frame i s j Hm Hj Hi Ht)
    as (T1 & T2 & T3 & T4 & T5 & T6 & T7 & T8 & T9 & T10 & T11).
  set (sp := snd (tail_call_prep i s)) in *.
  rewrite T1, Hd in H.
  assert (Hb : forall k, k < top sp - i - 1 -> mem s2 k = mem s1 k).
  { intros k Hk. apply Hbelow. lia. }
  assert (Hti : i + 1 <= top sp) by lia.
  destruct (frame_restored_by_ret _ _ _ _ _ sp s1 s2
              G Hi Hti Hn Hdp H Hfp Hlen M0 M1 M2 M3 Htop Hb)
    as (R1 & R2 & R3 & R4 & R5 & R6 & R7 & R8 & _).
  csplit.
  - lia.
  - rewrite <- R2. f_equal. lia.
  - rewrite R3. exact T4.
  - rewrite R4. exact T5.
  - rewrite R5. exact T6.
  - intros k Hk. rewrite R6 by lia. apply T9. lia.
  - rewrite R7. f_equal. lia.
  - lia.
  - lia.
Qed.

(* ------------------------------------------------------------------ *)
(* concrete instances                                                   *)
Definition dec (c : cell) : option proc :=
  match c with CObj 19 => Some pv | CObj 29 => Some pv | _ => None end.
(* a running frame: fp = 20, 2 parameters at 19,18, return ip 40, saved self CObj 500,
   saved fp 9; operands up to top = 30 *)
Definition fr (l : Z) : vm :=
  wr (wr (wr (wr (st 30 l 20) 20 (CFix 2)) 21 (CFix 40)) 22 (CObj 500)) 23 (CFix 9).
Definition ret1 (o : outcome) :=
  match o with
  | Enter s1 =>
    let s3 := op_ret (set_top (wr s1 (top s1) (CObj 77)) (top s1 + 1)) in
    (top s3, fp s3, self s3, ip s3, mem s3 (top s3 - 1))
  | _ => (0, 0, CNull, 0, CNull)
  end.

(* make_call_args_delivered, the three protocols: cells fp-1, fp-2, fp-3 *)
Example ex_args_delivered :
  map (fun o => match o with Enter s' => map (fun m => mem s' (fp s' - 1 - m)) [0; 1; 2]
                           | _ => [] end)
      [make_call grow_none (CObj 19) (Some pv) 5 8 (st 20 100 3);
       make_call grow_none (CObj 19) (Some pu) 5 8 (st 20 100 3);
       make_call grow_none (CObj 19) (Some pv) 2 8 (st 20 100 3)]
  = [[CObj 18; CObj 17; list_of [CObj 16; CObj 15; CObj 14]];
     [CObj 18; CObj 17; CObj 16];
     [CObj 18; CObj 17; CNull]].
Proof. vm_compute. reflexivity. Qed.

Example ex_op_call :
  view (op_call grow_none dec 5 (st 20 100 3))
  = (0, 21, 17, 100, [20; 19; 18; 17; 17; 16; 15; 14; 14; 14], [19; 18; 17; 14; 16; 14; 15; 14; 19]) /\
  ret1 (op_call grow_none dec 5 (st 20 100 3)) = (15, 3, CObj 1000, 8, CObj 77).
Proof. vm_compute. split; reflexivity. Qed.

(* TAIL_CALL of pv with 3 arguments from the frame fr: the frame at base 18 is
   reused, the header carries the OLD return information (40, CObj 500, 9), and
   RET goes back to the caller of fr: top = 19 = fp - j + 1 *)
Example ex_op_tail_call :
  view (op_tail_call grow_none dec 3 (fr 100))
  = (0, 25, 21, 100,
     [24; 23; 22; 21; 21; 20; 19; 18; 21; 20; 19; 18; 23; 22; 21; 20],
     [21; 20; 19; 18; 28; 27; 26; 21; 22; 20; 23; 29]) /\
  cells (op_tail_call grow_none dec 3 (fr 100)) [17; 18; 19; 20; 21; 22; 23; 24]
  = [CObj 17; list_of [CObj 26]; CObj 27; CObj 28; CFix 3; CFix 40; CObj 500; CFix 9] /\
  ret1 (op_tail_call grow_none dec 3 (fr 100)) = (19, 9, CObj 500, 40, CObj 77).
Proof. vm_compute. repeat split; reflexivity. Qed.

(* APPLY1 of pv to the proper list (1 2 3 4) *)
Example ex_op_apply1 :
  view (op_apply1 grow_none dec [CObj 1; CObj 2; CObj 3; CObj 4] true (fr 200))
  = (0, 25, 21, 200,
     [24; 23; 22; 21; 21; 20; 19; 18; 18; 22; 18; 19; 20; 21; 23; 22; 21; 20],
     [22; 21; 20; 18; 19; 18; 21; 22; 20; 23; 28; 29]) /\
  cells (op_apply1 grow_none dec [CObj 1; CObj 2; CObj 3; CObj 4] true (fr 200))
        [17; 18; 19; 20; 21; 22; 23; 24]
  = [CObj 17; list_of [CObj 3; CObj 4]; CObj 2; CObj 1; CFix 3; CFix 40; CObj 500; CFix 9] /\
  ret1 (op_apply1 grow_none dec [CObj 1; CObj 2; CObj 3; CObj 4] true (fr 200))
  = (19, 9, CObj 500, 40, CObj 77).
Proof. vm_compute. repeat split; reflexivity. Qed.
(* with len = 100 the ensure(i+64+depth) of APPLY1 is refused: OOS, only _ARG1 written *)
Example ex_op_apply1_oos :
  view (op_apply1 grow_none dec [CObj 1; CObj 2; CObj 3; CObj 4] true (fr 100))
  = (-1, 30, 20, 100, [29; 23; 22; 21; 20], [28; 29]).
Proof. vm_compute. reflexivity. Qed.
(* improper list: top = prev_top + 1 = 31 after the raise *)
Example ex_op_apply1_improper :
  view (op_apply1 grow_none dec [CObj 1; CObj 2; CObj 3; CObj 4] false (fr 200))
  = (4, 31, 9, 200, [30; 30; 22; 18; 19; 20; 21; 23; 22; 21; 20], [30; 28; 21; 22; 20; 23; 28; 29]).
Proof. vm_compute. reflexivity. Qed.
(* improper list with 12 pairs: the spreading loop reaches stack[prev_top-2] = stack[28]
   (the list operand, here CObj 28) BEFORE the error path reads it as the irritant:
   the irritant is the 2nd element instead of the list (wrong message, no corruption) *)
Example ex_op_apply1_improper_clobbered_irritant :
  cells (op_apply1 grow_none dec (map CObj [1; 2; 3; 4; 5; 6; 7; 8; 9; 10; 11; 12]) false (fr 200)) [28]
  = [CObj 2].
Proof. vm_compute. reflexivity. Qed.
