From Coq Require Import ExtrOcamlBasic.
From ChibiV Require Import Common.ExtractBase C15.Table C15.Obj C15.Graph C15.Run C15.ChainRun.
Extraction "model.ml" ext_base obj_hist map_hist q_equal_bound q_equal q_eqv q_hash q_string_hash q_geq q_gmodel q_gtop q_chain_delete q_regrow_relink q_regrow_cells.
