(** Machine words and little-endian word lists (sexp_uint_t = 64-bit). *)
From Coq Require Export ZArith List Lia Bool.
From Coq Require Import ZifyBool.
Export ListNotations.
Local Open Scope Z_scope.

Ltac Zify.zify_post_hook ::= Z.div_mod_to_equations.

Definition B : Z := 18446744073709551616.      (* 2^64 *)
Definition WMAX : Z := 18446744073709551615.   (* SEXP_UINT_T_MAX *)

Lemma B_eq : B = 2 ^ 64.  Proof. reflexivity. Qed.
Lemma B_pos : 0 < B.  Proof. reflexivity. Qed.
Lemma WMAX_eq : WMAX = B - 1.  Proof. reflexivity. Qed.

Definition isword (x : Z) : Prop := 0 <= x < B.
Notation words := (Forall isword).

(** value of a little-endian word list *)
Fixpoint val (l : list Z) : Z :=
  match l with
  | [] => 0
  | x :: r => x + B * val r
  end.

Lemma val_nonneg l : words l -> 0 <= val l.
Proof.
  induction 1 as [|x r Hx _ IH]; cbn [val]; [lia|].
  unfold isword in Hx. pose proof B_pos. nia.
Qed.

Lemma val_bound l : words l -> val l < B ^ Z.of_nat (length l).
Proof.
  induction 1 as [|x r Hx _ IH].
  - cbn. lia.
  - cbn [val length]. rewrite Nat2Z.inj_succ, Z.pow_succ_r by lia.
    unfold isword in Hx. pose proof B_pos. nia.
Qed.

Lemma val_app a b : val (a ++ b) = val a + B ^ Z.of_nat (length a) * val b.
Proof.
  induction a as [|x a IH]; cbn [val app length].
  - rewrite Z.pow_0_r. lia.
  - rewrite IH, Nat2Z.inj_succ, Z.pow_succ_r by lia. ring.
Qed.

Lemma val_repeat0 n : val (repeat 0 n) = 0.
Proof. induction n as [|n IH]; cbn [repeat val]; lia. Qed.

Lemma words_app a b : words a -> words b -> words (a ++ b).
Proof. intros; apply Forall_app; auto. Qed.

Lemma words_repeat0 n : words (repeat 0 n).
Proof. apply Forall_forall. intros x Hx. apply repeat_spec in Hx. subst. unfold isword, B. lia. Qed.

Lemma words_firstn n l : words l -> words (firstn n l).
Proof.
  intros H. rewrite <- (firstn_skipn n l) in H. apply Forall_app in H. tauto.
Qed.

Lemma words_skipn n l : words l -> words (skipn n l).
Proof.
  intros H. rewrite <- (firstn_skipn n l) in H. apply Forall_app in H. tauto.
Qed.

Lemma val_firstn_skipn n l : val l = val (firstn n l) + B ^ Z.of_nat (length (firstn n l)) * val (skipn n l).
Proof. rewrite <- val_app, firstn_skipn. reflexivity. Qed.

(** all-zero lists *)
Lemma val_zero_iff l : words l -> (val l = 0 <-> Forall (fun x => x = 0) l).
Proof.
  induction 1 as [|x r Hx Hr IH]; cbn [val].
  - split; auto.
  - pose proof (val_nonneg r Hr). unfold isword in Hx. pose proof B_pos.
    split.
    + intros Hz. assert (x = 0 /\ val r = 0) as [-> Hv] by nia.
      constructor; [reflexivity| apply IH; exact Hv].
    + intros HF. inversion HF as [|? ? Hx0 Hr0]; subst. apply IH in Hr0. lia.
Qed.

(** strip trailing (high) zero words; [hi] mirrors sexp_bignum_hi: at least 1 *)
Fixpoint strip (l : list Z) : list Z :=
  match l with
  | [] => []
  | x :: r => match strip r with
              | [] => if x =? 0 then [] else [x]
              | r' => x :: r'
              end
  end.

Definition hi (l : list Z) : nat := Nat.max 1 (length (strip l)).

Lemma val_strip l : val (strip l) = val l.
Proof.
  induction l as [|x r IH]; cbn [strip val]; [reflexivity|].
  destruct (strip r) as [|y r'] eqn:E.
  - cbn [val] in IH. destruct (Z.eqb_spec x 0); cbn [val]; lia.
  - cbn [val] in *. lia.
Qed.

Lemma strip_length_le l : (length (strip l) <= length l)%nat.
Proof.
  induction l as [|x r IH]; cbn [strip length]; [lia|].
  destruct (strip r); [destruct (x =? 0)|]; cbn [length] in *; lia.
Qed.

Lemma words_strip l : words l -> words (strip l).
Proof.
  induction 1 as [|x r Hx Hr IH]; cbn [strip]; [constructor|].
  destruct (strip r); [destruct (x =? 0); [constructor|constructor; [exact Hx|constructor]]|].
  constructor; auto.
Qed.

Lemma strip_last_nonzero l : strip l <> [] -> last (strip l) 0 <> 0.
Proof.
  induction l as [|x r IH]; cbn [strip]; [congruence|].
  destruct (strip r) as [|y r'] eqn:E.
  - destruct (Z.eqb_spec x 0); [congruence|]. cbn. auto.
  - intros _. change (last (x :: y :: r') 0) with (last (y :: r') 0). apply IH. congruence.
Qed.

Lemma val_lower_bound l : words l -> l <> [] -> last l 0 <> 0 -> B ^ Z.of_nat (length l - 1) <= val l.
Proof.
  induction 1 as [|x r Hx Hr IH]; [congruence|]. intros _ Hl.
  destruct r as [|y r'].
  - cbn in *. unfold isword in Hx. lia.
  - change (last (x :: y :: r') 0) with (last (y :: r') 0) in Hl.
    specialize (IH ltac:(congruence) Hl).
    cbn [val length] in *. unfold isword in Hx. pose proof B_pos.
    replace (Z.of_nat (S (S (length r')) - 1)) with (Z.succ (Z.of_nat (S (length r') - 1))) by lia.
    rewrite Z.pow_succ_r by lia. nia.
Qed.

(** hi words hold the whole value *)
Lemma firstn_strip_val l : words l -> val (firstn (hi l) l) = val l.
Proof.
  intros Hw. unfold hi.
  assert (forall n, (length (strip l) <= n)%nat -> val (firstn n l) = val l) as H.
  { clear. induction l as [|x r IH]; intros n Hn; [destruct n; reflexivity|].
    cbn [strip] in Hn. destruct n as [|n].
    - destruct (strip r) eqn:E; [destruct (Z.eqb_spec x 0)|]; cbn [length] in Hn; try lia.
      subst x. cbn [firstn val]. pose proof (val_strip r) as Hs. rewrite E in Hs. cbn in Hs. lia.
    - cbn [firstn val]. rewrite IH; [reflexivity|].
      destruct (strip r) eqn:E; [cbn; lia|]. cbn [length] in *. lia. }
  apply H. lia.
Qed.

Lemma hi_le_length l : l <> [] -> (hi l <= length l)%nat.
Proof.
  intros Hl. unfold hi. pose proof (strip_length_le l). destruct l; [congruence|]. cbn [length] in *. lia.
Qed.

Lemma hi_ge1 l : (1 <= hi l)%nat.
Proof. unfold hi. lia. Qed.

(** comparing by hi: a list with more significant words is larger *)
Lemma val_lt_pow_hi l : words l -> val l < B ^ Z.of_nat (hi l).
Proof.
  intros Hw. rewrite <- val_strip. unfold hi.
  pose proof (val_bound _ (words_strip _ Hw)) as Hb.
  eapply Z.lt_le_trans; [exact Hb|]. apply Z.pow_le_mono_r; [reflexivity|lia].
Qed.

Lemma val_ge_pow_hi l : words l -> (2 <= hi l)%nat -> B ^ Z.of_nat (hi l - 1) <= val l.
Proof.
  intros Hw Hh. rewrite <- val_strip. unfold hi in *.
  assert (strip l <> []) as Hne by (destruct (strip l); cbn in *; [lia|congruence]).
  pose proof (val_lower_bound _ (words_strip _ Hw) Hne (strip_last_nonzero _ Hne)) as Hb.
  replace (Nat.max 1 (length (strip l)) - 1)%nat with (length (strip l) - 1)%nat by lia. exact Hb.
Qed.
