(** Roots every extraction includes, so that ocaml/common.ml (conversions between the extracted
    inductive numbers and text) always finds the types it names. *)
From Coq Require Import ZArith NArith List.
Definition ext_base := (Z.add, N.add, Nat.add, Pos.add, Z.of_N, Z.to_N, Z.of_nat, Z.to_nat, N.of_nat, N.to_nat, @List.length Z).
