(** C12 — strings are sequences of scalar values whatever the encoding: property theorems only.
    [cp c] = code point 0..0x10FFFF (a superset of the scalar values); [Rep h s cs] = in heap [h]
    the string record [s] (bytes object, offset, size) represents the code-point array [cs]. *)
From ChibiV Require Import C12.Model C12.Spec C12.Utf8Proofs C12.Proofs C12.Proofs2 C12.Proofs3 C12.Proofs4
  C12.PortModel C12.PortProofs C12.RangeModel C12.OutProofs C12.RangeProofs C12.CmpProofs C12.LineProofs
  C12.PortErrProofs C12.CopyProofs C12.MapModel C12.MapProofs C12.HistModel2 C12.HistProofs2 C12.FilePortModel C12.FilePortProofs C12.CiModel C12.CiProofs C12.TruncProofs C12.TruncProofs2.
Local Open Scope Z_scope.

(* [decode_at d i rem]: sexp_string_utf8_ref at byte i with [rem] bytes left up to the end of the string *)
Theorem utf8_roundtrip : forall c, cp c -> forall rest,
  (forall rem, Z.of_nat (width c) <= rem -> decode_at (encode c ++ rest) 0 rem = Some c) /\
  lead_count (byte_at (encode c ++ rest) 0) = width c /\ length (encode c) = width c.
Proof. exact utf8_roundtrip_all. Qed.
Print Assumptions utf8_roundtrip.

Theorem encode_wellformed : forall c, is_scalar c -> wf_seq (encode c) /\ seq_value (encode c) = c.
Proof. exact encode_wellformed_scalar. Qed.
Print Assumptions encode_wellformed.

Theorem decode_wellformed_inverse : forall l rest rem, wf_seq l -> Z.of_nat (length l) <= rem ->
  decode_at (l ++ rest) 0 rem = Some (seq_value l) /\ is_scalar (seq_value l) /\ encode (seq_value l) = l.
Proof. exact decode_wellformed. Qed.
Print Assumptions decode_wellformed_inverse.

Theorem leaf_arithmetic_no_signed_overflow :
  (forall b, 0 <= b < 256 -> sexp_utf8_initial_byte_count_safe b = true) /\
  (forall c, cp c -> sexp_utf8_char_byte_count_safe c = true) /\
  (forall c, cp c -> sexp_utf8_encode_char_safe (sexp_utf8_char_byte_count c) c = true).
Proof. exact leaves_no_signed_overflow. Qed.
Print Assumptions leaf_arithmetic_no_signed_overflow.

Theorem string_length_refines : forall h s cs, Rep h s cs -> string_length h s = Ok (length cs).
Proof. exact length_refines. Qed.
Print Assumptions string_length_refines.

Theorem string_index_to_cursor_refines : forall h s cs i, Rep h s cs ->
  index_to_cursor h s i =
  if (0 <=? i) && (i <=? Z.of_nat (length cs)) then Ok (length (enc_all (firstn (Z.to_nat i) cs)))
  else Err RangeErr.
Proof. exact index_to_cursor_refines. Qed.
Print Assumptions string_index_to_cursor_refines.

Theorem string_ref_refines : forall h s cs i, Rep h s cs ->
  string_ref h s i =
  if (0 <=? i) && (i <? Z.of_nat (length cs)) then Ok (nth (Z.to_nat i) cs 0) else Err RangeErr.
Proof. exact ref_refines. Qed.
Print Assumptions string_ref_refines.

Theorem string_set_refines : forall h s cs i c, Rep h s cs -> cp c ->
  if (0 <=? i) && (i <? Z.of_nat (length cs)) then
    exists h' s', string_set h s i c = Ok (h', s') /\ Rep h' s' (upd (Z.to_nat i) c cs)
  else string_set h s i c = Err RangeErr.
Proof. exact set_refines. Qed.
Print Assumptions string_set_refines.

Theorem string_set_does_not_touch_other_strings : forall h s cs i c h' s' t ct,
  Rep h s cs -> cp c -> string_set h s i c = Ok (h', s') -> Rep h t ct ->
  (sbytes t <> sbytes s \/ sbytes s' <> sbytes s) -> Rep h' t ct /\ sdata h' t = sdata h t.
Proof. exact set_does_not_touch_other_strings. Qed.
Print Assumptions string_set_does_not_touch_other_strings.

Theorem string_substring_refines : forall h s cs a b, Rep h s cs ->
  let n := Z.of_nat (length cs) in
  let e := match b with Some e => e | None => n end in
  if (0 <=? a) && (a <=? e) && (e <=? n) then
    exists q s', substring h s a b = Ok (h ++ [q], s') /\ sbytes s' = length h /\
                 Rep (h ++ [q]) s' (sub (Z.to_nat a) (Z.to_nat e) cs)
  else exists x, substring h s a b = Err x.
Proof. exact substring_refines. Qed.
Print Assumptions string_substring_refines.

Theorem string_append_refines : forall h ss css, Forall2 (Rep h) ss css ->
  exists q s', string_append h ss = (h ++ [q], s') /\ sbytes s' = length h /\ Rep (h ++ [q]) s' (concat css).
Proof. exact append_refines. Qed.
Print Assumptions string_append_refines.

Theorem make_string_refines_repeat : forall h n c, cp c ->
  exists q s', make_string h n c = (h ++ [q], s') /\ sbytes s' = length h /\ Rep (h ++ [q]) s' (repeat c n).
Proof. exact make_string_refines. Qed.
Print Assumptions make_string_refines_repeat.

Theorem string_bytes_wellformed : forall h s cs, Rep h s cs -> Forall is_scalar cs ->
  exists seqs, slice h s = concat seqs /\ Forall wf_seq seqs /\ map seq_value seqs = cs.
Proof. exact slice_wellformed. Qed.
Print Assumptions string_bytes_wellformed.

Theorem string_ops_refine_codepoint_array : forall ops st sp,
  Inv st sp -> Forall op_ok ops -> Inv (run st ops) (spec_run sp ops).
Proof. exact history_refines. Qed.
Print Assumptions string_ops_refine_codepoint_array.

Theorem string_history_observables : forall ops, Forall op_ok ops ->
  let st := run (mkst [] []) ops in let sp := spec_run [] ops in
  length (mvars st) = length sp /\
  forall v, (v < length sp)%nat ->
    string_length (mheap st) (var st v) = Ok (length (svar sp v)) /\
    slice (mheap st) (var st v) = enc_all (svar sp v) /\
    forall i, string_ref (mheap st) (var st v) i =
              if (0 <=? i) && (i <? Z.of_nat (length (svar sp v))) then Ok (nth (Z.to_nat i) (svar sp v) 0) else Err RangeErr.
Proof. exact history_observables. Qed.
Print Assumptions string_history_observables.

Theorem string_cursor_next_refines : forall h s cs k, Rep h s cs -> (k < length cs)%nat ->
  cursor_next h s (cursor_of cs k) = cursor_of cs (S k).
Proof. exact cursor_next_refines. Qed.
Print Assumptions string_cursor_next_refines.

Theorem string_cursor_next_prev_inverse : forall h s cs k, Rep h s cs -> (k < length cs)%nat ->
  cursor_prev h s (cursor_of cs (S k)) = Ok (Z.of_nat (cursor_of cs k)) /\
  cursor_prev h s (cursor_next h s (cursor_of cs k)) = Ok (Z.of_nat (cursor_of cs k)).
Proof. intros h s cs k R Hk. split; [exact (cursor_prev_refines h s cs k R Hk)|exact (cursor_next_prev_inverse h s cs k R Hk)]. Qed.
Print Assumptions string_cursor_next_prev_inverse.

Theorem string_cursor_to_index_refines : forall h s cs k, Rep h s cs -> (k <= length cs)%nat ->
  cursor_to_index h s (Z.of_nat (cursor_of cs k)) = Ok k.
Proof. exact cursor_to_index_refines. Qed.
Print Assumptions string_cursor_to_index_refines.

Theorem utf8_to_string_shared_rep : forall h bv pre cs post, (bv < length h)%nat -> Forall cp cs ->
  nth bv h [] = pre ++ enc_all cs ++ post -> post <> [] ->
  Rep h (of_utf8_shared bv (length pre) (length pre + length (enc_all cs))) cs.
Proof. exact of_utf8_shared_rep. Qed.
Print Assumptions utf8_to_string_shared_rep.

Theorem string_to_utf8_of_utf8 : forall h s cs, Rep h s cs ->
  to_utf8 h s = (h ++ [enc_all cs ++ [0]], length h) /\
  let '(h1, bv) := to_utf8 h s in
  exists q s', of_utf8 h1 bv 0 (length (enc_all cs)) = Ok (h1 ++ [q], s') /\ Rep (h1 ++ [q]) s' cs.
Proof. intros h s cs R. split; [exact (to_utf8_refines h s cs R)|exact (to_utf8_of_utf8 h s cs R)]. Qed.
Print Assumptions string_to_utf8_of_utf8.

(* ---- round 2 ---- *)
(** string-concatenate / string-join with a separator of any byte width (Some sp), the empty separator, or none *)
Theorem concat_refines : forall h ss css sep seps, Forall2 (Rep h) ss css ->
  match sep with Some sp => Rep h sp seps | None => seps = [] end ->
  exists q s', string_concatenate h ss sep = (h ++ [q], s') /\ sbytes s' = length h /\
               Rep (h ++ [q]) s' (intercalate seps css).
Proof. exact concatenate_refines. Qed.
Print Assumptions concat_refines.

(** [port_ok p]: offset <= size <= buffer length; string ports have no source, refillable ports a buffer
    longer than BUF_START.  [pending p]: unread part of the buffer ++ unread source. *)
Theorem read_char_refines : forall p c rest, port_ok p -> cp c -> pending p = encode c ++ rest ->
  exists p', read_char p = (RChar c, p') /\ port_ok p' /\ pending p' = rest.
Proof. exact read_char_spec. Qed.
Print Assumptions read_char_refines.

Theorem peek_leaves_stream_unchanged : forall p c rest, port_ok p -> cp c -> pending p = encode c ++ rest ->
  exists p', peek_char p = (RChar c, p') /\ port_ok p' /\ pending p' = pending p.
Proof. exact peek_char_spec. Qed.
Print Assumptions peek_leaves_stream_unchanged.

Theorem read_string_refines : forall n p cs, port_ok p -> Forall cp cs -> pending p = enc_all cs ->
  exists p', read_string n p = (Ok (firstn n cs), p') /\ port_ok p' /\ pending p' = enc_all (skipn n cs).
Proof. exact read_string_spec. Qed.
Print Assumptions read_string_refines.

Theorem port_char_roundtrip : forall cs n src sched, Forall cp cs -> (BUF_START < n)%nat -> src = enc_all cs ->
  (exists p', read_string (length cs) (open_fd_port n src sched) = (Ok cs, p') /\ pending p' = [] /\ port_ok p') /\
  (exists p', read_string (length cs) (open_string_port src) = (Ok cs, p') /\ pending p' = [] /\ port_ok p').
Proof. exact port_read_roundtrip. Qed.
Print Assumptions port_char_roundtrip.

(* ---------------------------------------------------------------- round 3: output and optional ranges *)
(** [oport_ok o]: write offset <= size = buffer length >= 1.  [out_bytes o] = what get-output-string returns /
    what has reached the file: the flushed chunks, then the buffer up to the offset. *)
Theorem write_char_refines : forall o c, oport_ok o -> cp c ->
  exists o', write_char o c = Ok o' /\ oport_ok o' /\ out_bytes o' = out_bytes o ++ encode c.
Proof. exact write_char_spec. Qed.
Print Assumptions write_char_refines.

(** write-char of every character to a string port of any buffer size, then read-char of the bytes from a
    string port or a file-descriptor port (any buffer size > 4, any schedule of read sizes) gives them back *)
Theorem port_write_then_read_roundtrip : forall cs wn rn sched, Forall cp cs -> (1 <= wn)%nat -> (BUF_START < rn)%nat ->
  exists o, write_chars (open_output_string wn) cs = Ok o /\ out_bytes o = enc_all cs /\
    (exists p', read_string (length cs) (open_string_port (out_bytes o)) = (Ok cs, p') /\ pending p' = []) /\
    (exists p', read_string (length cs) (open_fd_port rn (out_bytes o) sched) = (Ok cs, p') /\ pending p' = []).
Proof. exact port_write_read_roundtrip. Qed.
Print Assumptions port_write_then_read_roundtrip.

(** the byte-count contract of the %write-string opcode: [count] (None = #t) is a number of BYTES: for every
    count in 0..size, on a character boundary or not, exactly that many bytes of the string's own slice are
    appended; any other count raises.  (A Scheme wrapper must convert character indices first.) *)
Theorem write_string_opcode_counts_bytes : forall h s cs count o, Rep h s cs -> oport_ok o ->
  let n := match count with None => Z.of_nat (ssize s) | Some n => n end in
  if (0 <=? n) && (n <=? Z.of_nat (ssize s)) then
    exists o', op_write_string h s count o = Ok o' /\ oport_ok o' /\
               out_bytes o' = out_bytes o ++ firstn (Z.to_nat n) (enc_all cs)
  else op_write_string h s count o = Err RangeErr.
Proof. exact op_write_string_contract. Qed.
Print Assumptions write_string_opcode_counts_bytes.

(** write-string with no range, (start) or (start end): the bytes that reach the port are the standard
    encoding of the characters start..end-1 (sub = firstn/skipn on the code-point array), nothing else; every
    other string keeps its contents; an invalid range raises *)
Theorem write_string_range : forall h s cs r o, Rep h s cs -> oport_ok o ->
  let '(a, e) := range_bounds r (length cs) in
  if (0 <=? a) && (a <=? e) && (e <=? Z.of_nat (length cs)) then
    exists h' o', write_string_io h s r o = Ok (h', o') /\ oport_ok o' /\
                  out_bytes o' = out_bytes o ++ enc_all (sub (Z.to_nat a) (Z.to_nat e) cs) /\
                  (forall t ct, Rep h t ct -> Rep h' t ct)
  else exists x, write_string_io h s r o = Err x.
Proof. exact write_string_range_refines. Qed.
Print Assumptions write_string_range.

(** string-fill! with no range / (start) / (start end), for every old and new character width *)
Theorem string_fill_range : forall h s cs c r, Rep h s cs -> cp c ->
  let '(a, e) := range_bounds r (length cs) in
  0 <= a <= e -> e <= Z.of_nat (length cs) ->
  exists h' s', string_fill h s c r = Ok (h', s') /\
    Rep h' s' (firstn (Z.to_nat a) cs ++ repeat c (Z.to_nat (e - a)) ++ skipn (Z.to_nat e) cs).
Proof. exact string_fill_refines. Qed.
Print Assumptions string_fill_range.

(** string->utf8 with a range: the new bytevector starts with the encoding of characters start..end-1 *)
Theorem string_to_utf8_with_range : forall h s cs r, Rep h s cs ->
  let '(a, e) := range_bounds r (length cs) in
  0 <= a <= e -> e <= Z.of_nat (length cs) ->
  exists h' bv, string_to_utf8_range h s r = Ok (h', bv) /\
    firstn (length (enc_all (sub (Z.to_nat a) (Z.to_nat e) cs))) (nth bv h' []) = enc_all (sub (Z.to_nat a) (Z.to_nat e) cs).
Proof. exact string_to_utf8_range_refines. Qed.
Print Assumptions string_to_utf8_with_range.

(** read-line (limit n): [spec_line n cs] = (characters before the first LF / CR / CR LF, at most n; the rest) *)
Theorem read_line_refines : forall n p cs, port_ok p -> Forall cp cs -> pending p = enc_all cs ->
  exists p', read_line n p = (Ok (match cs with [] => None | _ => Some (fst (spec_line n cs)) end), p') /\
             port_ok p' /\ pending p' = enc_all (snd (spec_line n cs)).
Proof. exact read_line_spec. Qed.
Print Assumptions read_line_refines.

(** lexicographic order of UTF-8 bytes = lexicographic order of code points ([lex] compares lists of integers) *)
Theorem utf8_byte_order_is_code_point_order : forall cs1, Forall cp cs1 -> forall cs2, Forall cp cs2 ->
  lex (enc_all cs1) (enc_all cs2) = lex cs1 cs2.
Proof. exact lex_enc_all. Qed.
Print Assumptions utf8_byte_order_is_code_point_order.

(** string-cmp (string=? string<? string>? string<=? string>=? compare it with 0) has the sign of the
    lexicographic comparison of the code-point arrays; U+0000 is an ordinary character *)
Theorem string_cmp_is_code_point_order : forall h s1 s2 cs1 cs2, Rep h s1 cs1 -> Rep h s2 cs2 ->
  (string_cmp h s1 s2 ?= 0) = lex cs1 cs2.
Proof. exact string_cmp_refines. Qed.
Print Assumptions string_cmp_is_code_point_order.

(* ---------------------------------------------------------------- round 4 *)
(** ILL-FORMED INPUT, the two specified outcomes (buffered ports: string / bytevector / fd / custom; every position of the
    bytes relative to the buffer end, every schedule of read(2) answers).  A stream that ends after k bytes (0 < k < width)
    of a multi-byte character: read-char and peek-char raise, the cut bytes are consumed, nothing is pushed back. *)
Theorem port_truncated_sequence_is_error : forall p c k, port_ok p -> cp c -> (0 < k < width c)%nat ->
  pending p = firstn k (encode c) ->
  (exists p', read_char p = (RBad, p') /\ port_ok p' /\ pending p' = []) /\
  (exists p', peek_char p = (RBad, p') /\ port_ok p' /\ pending p' = []).
Proof. exact truncated_sequence_is_error. Qed.
Print Assumptions port_truncated_sequence_is_error.

(** a byte 0x80..0xBF or 0xF8..0xFF where a character should start: read-char and peek-char raise, exactly that byte is
    consumed (peek-char does not push an exception back), the rest stays pending *)
Theorem port_invalid_lead_byte_is_error : forall p b rest, port_ok p -> pending p = b :: rest ->
  128 <= b < 192 \/ 248 <= b < 256 ->
  (exists p', read_char p = (RBad, p') /\ port_ok p' /\ pending p' = rest) /\
  (exists p', peek_char p = (RBad, p') /\ port_ok p' /\ pending p' = rest).
Proof. exact invalid_lead_byte_is_error. Qed.
Print Assumptions port_invalid_lead_byte_is_error.

(** string-copy! onto ANOTHER string (different store), any optional range, every old/new width (the target's byte store is
    re-allocated whenever a width changes): positions at..at+(e-a)-1 of the target receive characters a..e-1 of the source;
    the source and every string in another store keep their contents.  [copy_result tcs fcs at a e] =
    firstn at tcs ++ sub a e fcs ++ skipn (at + (e - a)) tcs *)
Theorem string_copy_bang_other_target : forall h to from tcs fcs at_ r,
  Rep h to tcs -> Rep h from fcs -> sbytes to <> sbytes from ->
  let '(a, e) := range_bounds r (length fcs) in
  0 <= a <= e -> e <= Z.of_nat (length fcs) -> 0 <= at_ -> at_ + (e - a) <= Z.of_nat (length tcs) ->
  exists h' to', string_copy_bang h to at_ from false r = Ok (h', to') /\
    Rep h' to' (copy_result tcs fcs (Z.to_nat at_) (Z.to_nat a) (Z.to_nat e)) /\
    (sbytes to' = sbytes to \/ (length h <= sbytes to')%nat) /\ (length h <= length h')%nat /\
    (forall t ct, Rep h t ct -> sbytes t <> sbytes to -> Rep h' t ct).
Proof. exact copy_bang_other. Qed.
Print Assumptions string_copy_bang_other_target.

(** string-copy! of a string onto ITSELF, both overlap directions (at <= start: forward loop; at > start: backward loop),
    width-changing copies included: the result is what copying from an untouched snapshot would give *)
Theorem string_copy_bang_same_string : forall h s cs at_ r,
  Rep h s cs ->
  let '(a, e) := range_bounds r (length cs) in
  0 <= a <= e -> e <= Z.of_nat (length cs) -> 0 <= at_ -> at_ + (e - a) <= Z.of_nat (length cs) ->
  exists h' s', string_copy_bang h s at_ s true r = Ok (h', s') /\
    Rep h' s' (copy_result cs cs (Z.to_nat at_) (Z.to_nat a) (Z.to_nat e)) /\
    (sbytes s' = sbytes s \/ (length h <= sbytes s')%nat) /\ (length h <= length h')%nat /\
    (forall t ct, Rep h t ct -> sbytes t <> sbytes s -> Rep h' t ct).
Proof. exact copy_bang_same. Qed.
Print Assumptions string_copy_bang_same_string.

(** n-ary string-for-each: proc is applied to the COLUMNS of the code-point arrays, as many as the shortest string has
    characters ([columns css]), in order; [fold_res] = left fold that stops at the first error *)
Theorem string_for_each_nary_refines : forall (A : Type) h ss css (proc : A -> list Z -> res A) a,
  ss <> [] -> Forall2 (Rep h) ss css ->
  string_for_each_n h ss proc a = fold_res proc a (columns css).
Proof. exact @string_for_each_n_refines. Qed.
Print Assumptions string_for_each_nary_refines.

(** n-ary string-map (strings of different lengths, any output buffer size): the bytes of the result are the standard
    encoding of f applied to each column *)
Theorem string_map_nary_refines : forall bufsize h ss css f,
  (1 <= bufsize)%nat -> ss <> [] -> Forall2 (Rep h) ss css -> (forall args, cp (f args)) ->
  string_map_n bufsize h ss f = Ok (enc_all (map f (columns css))).
Proof. exact string_map_n_refines. Qed.
Print Assumptions string_map_nary_refines.

Theorem string_map_one_refines : forall bufsize h s cs f, (1 <= bufsize)%nat -> Rep h s cs -> (forall c, cp (f c)) ->
  string_map bufsize h s f = Ok (enc_all (map f cs)).
Proof. exact string_map_refines. Qed.
Print Assumptions string_map_one_refines.

(** THE HISTORY THEOREM, extended: the operations of round 1 plus string-join / string-concatenate with a separator
    variable (possibly one of the joined strings), string-fill! and string-copy! with optional ranges (another variable or
    the variable itself).  [hist_ok sp ops]: at the specification state reached so far, characters are code points and the
    ranges of fill!/copy! are valid (with invalid ranges those two Scheme loops mutate part of the string before raising:
    outside the claim); every other failing operation fails on both sides and leaves both states unchanged. *)
Theorem string_ops_refine_codepoint_array_extended : forall ops st sp,
  Inv st sp -> hist_ok sp ops -> Inv (xrun st ops) (xspec_run sp ops).
Proof. exact xhistory_refines. Qed.
Print Assumptions string_ops_refine_codepoint_array_extended.

(** ... with write-string (optional range) to an output string port of any buffer size in the history: what has reached
    the port is the standard encoding of the characters the specification wrote; length, bytes and string-ref of every
    variable agree with the arrays *)
Theorem string_and_output_history_observables : forall n ops, (1 <= n)%nat -> whist_ok wspec_init ops ->
  let w := wrun (winit n) ops in let ws := wspec_run wspec_init ops in
  out_bytes (wout w) = enc_all (snd ws) /\
  length (mvars (wst w)) = length (fst ws) /\
  forall v, (v < length (fst ws))%nat ->
    string_length (mheap (wst w)) (var (wst w) v) = Ok (length (svar (fst ws) v)) /\
    slice (mheap (wst w)) (var (wst w) v) = enc_all (svar (fst ws) v) /\
    forall i, string_ref (mheap (wst w)) (var (wst w) v) i =
              if (0 <=? i) && (i <? Z.of_nat (length (svar (fst ws) v))) then Ok (nth (Z.to_nat i) (svar (fst ws) v) 0) else Err RangeErr.
Proof. exact whistory_observables. Qed.
Print Assumptions string_and_output_history_observables.

(** FILE* PORTS (open-input-file: getc / ungetc, no chibi buffer).  [fcap p] = how many pushed-back bytes the C library
    accepts, [fpending p] = pushed-back bytes ++ rest of the stream.  peek-char leaves the stream unchanged PROVIDED the
    library accepts as many pushed-back bytes as the character is wide (glibc: unbounded; ISO C guarantees one) *)
Theorem file_port_peek_leaves_stream_unchanged : forall p c rest, cp c -> fpending p = encode c ++ rest ->
  (Nat.max (length (fpush p)) (width c) <= fcap p)%nat ->
  exists p', fpeek_char p = (RChar c, p') /\ fpending p' = fpending p /\ fcap p' = fcap p /\
             length (fpush p') = Nat.max (length (fpush p)) (width c).
Proof. exact fpeek_char_spec. Qed.
Print Assumptions file_port_peek_leaves_stream_unchanged.

Theorem file_port_read_string_refines : forall n p cs, fport_ok p -> Forall cp cs -> fpending p = enc_all cs ->
  exists p', fread_string n p = (Ok (firstn n cs), p') /\ fport_ok p' /\ fpending p' = enc_all (skipn n cs).
Proof. exact fread_string_spec. Qed.
Print Assumptions file_port_read_string_refines.

Theorem file_port_ill_formed_input_is_error :
  (forall p c k, cp c -> (0 < k < width c)%nat -> fpending p = firstn k (encode c) ->
     (exists p', fread_char p = (RBad, p') /\ fpending p' = []) /\ (exists p', fpeek_char p = (RBad, p') /\ fpending p' = [])) /\
  (forall p b rest, fpending p = b :: rest -> 128 <= b < 192 \/ 248 <= b < 256 ->
     (exists p', fread_char p = (RBad, p') /\ fpending p' = rest) /\ (exists p', fpeek_char p = (RBad, p') /\ fpending p' = rest)).
Proof. split; [exact ftruncated_sequence_is_error|exact finvalid_lead_byte_is_error]. Qed.
Print Assumptions file_port_ill_formed_input_is_error.

(** the portable-C defect, as a refutation of "peek-char is transparent on every conforming C library": with the ONE byte of
    pushback ISO C guarantees, peek-char of any non-ASCII character keeps only its last byte; the next read-char raises *)
Theorem file_port_peek_with_one_byte_pushback_refuted : forall p c rest, cp c -> 128 <= c ->
  fpush p = [] -> fcap p = 1%nat -> fsrc p = encode c ++ rest ->
  exists p', fpeek_char p = (RChar c, p') /\ fpending p' = ((128 + c mod 64) :: rest) /\
             fpending p' <> fpending p /\
             exists p'', fread_char p' = (RBad, p'') /\ fpending p'' = rest.
Proof. exact fpeek_one_byte_pushback_loses. Qed.
Print Assumptions file_port_peek_with_one_byte_pushback_refuted.

(** CASE-INSENSITIVE COMPARISON.  chibi has two implementations.
    (A) the core (chibi) string-ci=? ... = (string-cmp a b #t) = the C loop over tolower'ed BYTES in the "C" locale: it folds
    the ASCII letters only ([ascii_fold]), every multi-byte character compares as itself. *)
Theorem core_string_ci_folds_ascii_letters_only : forall h s1 s2 cs1 cs2, Rep h s1 cs1 -> Rep h s2 cs2 ->
  (string_cmp_ci h s1 s2 ?= 0) = lex (map ascii_fold cs1) (map ascii_fold cs2).
Proof. exact string_cmp_ci_refines. Qed.
Print Assumptions core_string_ci_folds_ascii_letters_only.

(** (B) (scheme char) string-ci=? ... compare (string-foldcase a) with (string-foldcase b).  The tables are REGENERATED from
    lib/scheme/char/case-offsets.scm (char-foldcase-map) and special-casing.scm on every run (coq/Gen/C12_CaseFold.v); the two
    binary searches of full.scm are proved to be plain table lookups ([assoc] = first match), for every key and every non-key *)
Theorem char_foldcase_is_table_lookup :
  (forall c, char_foldcase c = match assoc c foldcase_map with Some v => v | None => c end) /\
  (forall c, special_case_fold c = assoc c special_fold).
Proof. split; [exact char_foldcase_spec|exact special_case_fold_spec]. Qed.
Print Assumptions char_foldcase_is_table_lookup.

(** string-foldcase (read-char from a string port, write-char / write-string to a string port of any buffer size) gives the
    standard encoding of the folded code points, multi-byte cased characters and one-to-many foldings (ß -> ss) included *)
Theorem string_foldcase_refines_fold_of_code_points : forall bufsize h s cs, Rep h s cs -> (1 <= bufsize)%nat ->
  string_foldcase bufsize h s = Ok (enc_all (string_foldcase_cps cs)).
Proof. exact string_foldcase_refines. Qed.
Print Assumptions string_foldcase_refines_fold_of_code_points.

(** hence the (scheme char) comparison = lexicographic comparison (in particular equality) of the FOLDED code-point lists *)
Theorem string_ci_refines_comparison_of_folded_code_points : forall bufsize h s1 s2 cs1 cs2,
  Rep h s1 cs1 -> Rep h s2 cs2 -> (1 <= bufsize)%nat ->
  exists z, string_ci_cmp_full bufsize h s1 s2 = Ok z /\
            (z ?= 0) = lex (string_foldcase_cps cs1) (string_foldcase_cps cs2).
Proof. exact string_ci_full_refines. Qed.
Print Assumptions string_ci_refines_comparison_of_folded_code_points.

(** round 5: a lead byte cut off by the end of the string (sexp.c sexp_string_utf8_ref "truncated utf8 sequence",
    eval.c sexp_string_utf8_set clamp).  [Trunc h s a x k]: [s] holds the characters [a], then only the first
    k (0 < k < width x) bytes of the encoding of the non-ASCII [x]; what follows in the store is not part of [s]. *)
Theorem truncated_lead_byte_is_a_decoding_error : forall c, cp c -> 128 <= c ->
  forall rest rem, rem < Z.of_nat (width c) -> decode_at (encode c ++ rest) 0 rem = None.
Proof. exact truncated_lead_is_error. Qed.
Print Assumptions truncated_lead_byte_is_a_decoding_error.

Theorem string_ref_of_truncated_lead_is_error : forall h s a x k, Trunc h s a x k ->
  string_ref h s (Z.of_nat (length a)) = Err Utf8Err.
Proof. exact ref_of_truncated_lead_is_error. Qed.
Print Assumptions string_ref_of_truncated_lead_is_error.

(** string-set! there replaces exactly the k bytes that are left (never the announced width), and - when it
    re-allocates - the result is the characters before the cut followed by the new character, in a fresh store,
    every existing store unchanged *)
Theorem string_set_at_truncated_lead_replaces_remaining_bytes : forall h s a x k c, Trunc h s a x k -> cp c ->
  clamp_old_len (lead_count (byte_at (sdata h s) (length (enc_all a)))) (ssize s - length (enc_all a)) = k /\
  ((scow s = true \/ width c <> k) ->
   exists h' s', string_set h s (Z.of_nat (length a)) c = Ok (h', s') /\ Rep h' s' (a ++ [c]) /\
                 sbytes s' = length h /\ (forall j, (j < length h)%nat -> nth j h' [] = nth j h [])).
Proof.
  intros h s a x k c T Hc. split; [exact (set_at_truncated_lead_replaces_remaining h s a x k T)|].
  exact (set_at_truncated_lead_fresh h s a x k c T Hc).
Qed.
Print Assumptions string_set_at_truncated_lead_replaces_remaining_bytes.

(** the remaining case: the new character is exactly as wide as the k bytes left and the string is not copy-on-write:
    overwritten in place inside the (possibly shared) store, every other store unchanged *)
Theorem string_set_at_truncated_lead_in_place : forall h s a x k c, Trunc h s a x k -> cp c ->
  scow s = false -> width c = k ->
  exists h', string_set h s (Z.of_nat (length a)) c = Ok (h', s) /\ Rep h' s (a ++ [c]) /\
             (forall j, j <> sbytes s -> nth j h' [] = nth j h []).
Proof. exact set_at_truncated_lead_in_place. Qed.
Print Assumptions string_set_at_truncated_lead_in_place.
