(** C12 — strings are sequences of scalar values whatever the encoding: property theorems only.
    [cp c] = code point 0..0x10FFFF (a superset of the scalar values); [Rep h s cs] = in heap [h]
    the string record [s] (bytes object, offset, size) represents the code-point array [cs]. *)
From ChibiV Require Import C12.Model C12.Spec C12.Utf8Proofs C12.Proofs C12.Proofs2 C12.Proofs3 C12.Proofs4
  C12.PortModel C12.PortProofs C12.RangeModel C12.OutProofs C12.RangeProofs C12.CmpProofs C12.LineProofs.
Local Open Scope Z_scope.

Theorem utf8_roundtrip : forall c, cp c -> forall rest,
  decode_at (encode c ++ rest) 0 = Some c /\
  lead_count (byte_at (encode c ++ rest) 0) = width c /\ length (encode c) = width c.
Proof. exact utf8_roundtrip_all. Qed.
Print Assumptions utf8_roundtrip.

Theorem encode_wellformed : forall c, is_scalar c -> wf_seq (encode c) /\ seq_value (encode c) = c.
Proof. exact encode_wellformed_scalar. Qed.
Print Assumptions encode_wellformed.

Theorem decode_wellformed_inverse : forall l rest, wf_seq l ->
  decode_at (l ++ rest) 0 = Some (seq_value l) /\ is_scalar (seq_value l) /\ encode (seq_value l) = l.
Proof. exact decode_wellformed. Qed.
Print Assumptions decode_wellformed_inverse.

Theorem leaf_arithmetic_no_signed_overflow :
  (forall b, 0 <= b < 256 -> sexp_utf8_initial_byte_count_safe b = true) /\
  (forall c, cp c -> sexp_utf8_char_byte_count_safe c = true) /\
  (forall c, cp c -> sexp_utf8_encode_char_safe (sexp_utf8_char_byte_count c) c = true).
Proof. exact leaves_no_signed_overflow. Qed.
Print Assumptions leaf_arithmetic_no_signed_overflow.

Theorem string_length_refines : forall h s cs, Rep h s cs -> string_length h s = Ok (length cs).
Proof. exact length_refines. Qed.
Print Assumptions string_length_refines.

Theorem string_index_to_cursor_refines : forall h s cs i, Rep h s cs ->
  index_to_cursor h s i =
  if (0 <=? i) && (i <=? Z.of_nat (length cs)) then Ok (length (enc_all (firstn (Z.to_nat i) cs)))
  else Err RangeErr.
Proof. exact index_to_cursor_refines. Qed.
Print Assumptions string_index_to_cursor_refines.

Theorem string_ref_refines : forall h s cs i, Rep h s cs ->
  string_ref h s i =
  if (0 <=? i) && (i <? Z.of_nat (length cs)) then Ok (nth (Z.to_nat i) cs 0) else Err RangeErr.
Proof. exact ref_refines. Qed.
Print Assumptions string_ref_refines.

Theorem string_set_refines : forall h s cs i c, Rep h s cs -> cp c ->
  if (0 <=? i) && (i <? Z.of_nat (length cs)) then
    exists h' s', string_set h s i c = Ok (h', s') /\ Rep h' s' (upd (Z.to_nat i) c cs)
  else string_set h s i c = Err RangeErr.
Proof. exact set_refines. Qed.
Print Assumptions string_set_refines.

Theorem string_set_does_not_touch_other_strings : forall h s cs i c h' s' t ct,
  Rep h s cs -> cp c -> string_set h s i c = Ok (h', s') -> Rep h t ct ->
  (sbytes t <> sbytes s \/ sbytes s' <> sbytes s) -> Rep h' t ct /\ sdata h' t = sdata h t.
Proof. exact set_does_not_touch_other_strings. Qed.
Print Assumptions string_set_does_not_touch_other_strings.

Theorem string_substring_refines : forall h s cs a b, Rep h s cs ->
  let n := Z.of_nat (length cs) in
  let e := match b with Some e => e | None => n end in
  if (0 <=? a) && (a <=? e) && (e <=? n) then
    exists q s', substring h s a b = Ok (h ++ [q], s') /\ sbytes s' = length h /\
                 Rep (h ++ [q]) s' (sub (Z.to_nat a) (Z.to_nat e) cs)
  else exists x, substring h s a b = Err x.
Proof. exact substring_refines. Qed.
Print Assumptions string_substring_refines.

Theorem string_append_refines : forall h ss css, Forall2 (Rep h) ss css ->
  exists q s', string_append h ss = (h ++ [q], s') /\ sbytes s' = length h /\ Rep (h ++ [q]) s' (concat css).
Proof. exact append_refines. Qed.
Print Assumptions string_append_refines.

Theorem make_string_refines_repeat : forall h n c, cp c ->
  exists q s', make_string h n c = (h ++ [q], s') /\ sbytes s' = length h /\ Rep (h ++ [q]) s' (repeat c n).
Proof. exact make_string_refines. Qed.
Print Assumptions make_string_refines_repeat.

Theorem string_bytes_wellformed : forall h s cs, Rep h s cs -> Forall is_scalar cs ->
  exists seqs, slice h s = concat seqs /\ Forall wf_seq seqs /\ map seq_value seqs = cs.
Proof. exact slice_wellformed. Qed.
Print Assumptions string_bytes_wellformed.

Theorem string_ops_refine_codepoint_array : forall ops st sp,
  Inv st sp -> Forall op_ok ops -> Inv (run st ops) (spec_run sp ops).
Proof. exact history_refines. Qed.
Print Assumptions string_ops_refine_codepoint_array.

Theorem string_history_observables : forall ops, Forall op_ok ops ->
  let st := run (mkst [] []) ops in let sp := spec_run [] ops in
  length (mvars st) = length sp /\
  forall v, (v < length sp)%nat ->
    string_length (mheap st) (var st v) = Ok (length (svar sp v)) /\
    slice (mheap st) (var st v) = enc_all (svar sp v) /\
    forall i, string_ref (mheap st) (var st v) i =
              if (0 <=? i) && (i <? Z.of_nat (length (svar sp v))) then Ok (nth (Z.to_nat i) (svar sp v) 0) else Err RangeErr.
Proof. exact history_observables. Qed.
Print Assumptions string_history_observables.

Theorem string_cursor_next_refines : forall h s cs k, Rep h s cs -> (k < length cs)%nat ->
  cursor_next h s (cursor_of cs k) = cursor_of cs (S k).
Proof. exact cursor_next_refines. Qed.
Print Assumptions string_cursor_next_refines.

Theorem string_cursor_next_prev_inverse : forall h s cs k, Rep h s cs -> (k < length cs)%nat ->
  cursor_prev h s (cursor_of cs (S k)) = Ok (Z.of_nat (cursor_of cs k)) /\
  cursor_prev h s (cursor_next h s (cursor_of cs k)) = Ok (Z.of_nat (cursor_of cs k)).
Proof. intros h s cs k R Hk. split; [exact (cursor_prev_refines h s cs k R Hk)|exact (cursor_next_prev_inverse h s cs k R Hk)]. Qed.
Print Assumptions string_cursor_next_prev_inverse.

Theorem string_cursor_to_index_refines : forall h s cs k, Rep h s cs -> (k <= length cs)%nat ->
  cursor_to_index h s (Z.of_nat (cursor_of cs k)) = Ok k.
Proof. exact cursor_to_index_refines. Qed.
Print Assumptions string_cursor_to_index_refines.

Theorem utf8_to_string_shared_rep : forall h bv pre cs post, (bv < length h)%nat -> Forall cp cs ->
  nth bv h [] = pre ++ enc_all cs ++ post -> post <> [] ->
  Rep h (of_utf8_shared bv (length pre) (length pre + length (enc_all cs))) cs.
Proof. exact of_utf8_shared_rep. Qed.
Print Assumptions utf8_to_string_shared_rep.

Theorem string_to_utf8_of_utf8 : forall h s cs, Rep h s cs ->
  to_utf8 h s = (h ++ [enc_all cs ++ [0]], length h) /\
  let '(h1, bv) := to_utf8 h s in
  exists q s', of_utf8 h1 bv 0 (length (enc_all cs)) = Ok (h1 ++ [q], s') /\ Rep (h1 ++ [q]) s' cs.
Proof. intros h s cs R. split; [exact (to_utf8_refines h s cs R)|exact (to_utf8_of_utf8 h s cs R)]. Qed.
Print Assumptions string_to_utf8_of_utf8.

(* ---- round 2 ---- *)
(** string-concatenate / string-join with a separator of any byte width (Some sp), the empty separator, or none *)
Theorem concat_refines : forall h ss css sep seps, Forall2 (Rep h) ss css ->
  match sep with Some sp => Rep h sp seps | None => seps = [] end ->
  exists q s', string_concatenate h ss sep = (h ++ [q], s') /\ sbytes s' = length h /\
               Rep (h ++ [q]) s' (intercalate seps css).
Proof. exact concatenate_refines. Qed.
Print Assumptions concat_refines.

(** [port_ok p]: offset <= size <= buffer length; string ports have no source, refillable ports a buffer
    longer than BUF_START.  [pending p]: unread part of the buffer ++ unread source. *)
Theorem read_char_refines : forall p c rest, port_ok p -> cp c -> pending p = encode c ++ rest ->
  exists p', read_char p = (RChar c, p') /\ port_ok p' /\ pending p' = rest.
Proof. exact read_char_spec. Qed.
Print Assumptions read_char_refines.

Theorem peek_leaves_stream_unchanged : forall p c rest, port_ok p -> cp c -> pending p = encode c ++ rest ->
  exists p', peek_char p = (RChar c, p') /\ port_ok p' /\ pending p' = pending p.
Proof. exact peek_char_spec. Qed.
Print Assumptions peek_leaves_stream_unchanged.

Theorem read_string_refines : forall n p cs, port_ok p -> Forall cp cs -> pending p = enc_all cs ->
  exists p', read_string n p = (firstn n cs, p') /\ port_ok p' /\ pending p' = enc_all (skipn n cs).
Proof. exact read_string_spec. Qed.
Print Assumptions read_string_refines.

Theorem port_char_roundtrip : forall cs n src sched, Forall cp cs -> (BUF_START < n)%nat -> src = enc_all cs ->
  (exists p', read_string (length cs) (open_fd_port n src sched) = (cs, p') /\ pending p' = [] /\ port_ok p') /\
  (exists p', read_string (length cs) (open_string_port src) = (cs, p') /\ pending p' = [] /\ port_ok p').
Proof. exact port_read_roundtrip. Qed.
Print Assumptions port_char_roundtrip.

(* ---------------------------------------------------------------- round 3: output and optional ranges *)
(** [oport_ok o]: write offset <= size = buffer length >= 1.  [out_bytes o] = what get-output-string returns /
    what has reached the file: the flushed chunks, then the buffer up to the offset. *)
Theorem write_char_refines : forall o c, oport_ok o -> cp c ->
  exists o', write_char o c = Ok o' /\ oport_ok o' /\ out_bytes o' = out_bytes o ++ encode c.
Proof. exact write_char_spec. Qed.
Print Assumptions write_char_refines.

(** write-char of every character to a string port of any buffer size, then read-char of the bytes from a
    string port or a file-descriptor port (any buffer size > 4, any schedule of read sizes) gives them back *)
Theorem port_write_then_read_roundtrip : forall cs wn rn sched, Forall cp cs -> (1 <= wn)%nat -> (BUF_START < rn)%nat ->
  exists o, write_chars (open_output_string wn) cs = Ok o /\ out_bytes o = enc_all cs /\
    (exists p', read_string (length cs) (open_string_port (out_bytes o)) = (cs, p') /\ pending p' = []) /\
    (exists p', read_string (length cs) (open_fd_port rn (out_bytes o) sched) = (cs, p') /\ pending p' = []).
Proof. exact port_write_read_roundtrip. Qed.
Print Assumptions port_write_then_read_roundtrip.

(** the byte-count contract of the %write-string opcode: [count] (None = #t) is a number of BYTES: for every
    count in 0..size, on a character boundary or not, exactly that many bytes of the string's own slice are
    appended; any other count raises.  (A Scheme wrapper must convert character indices first.) *)
Theorem write_string_opcode_counts_bytes : forall h s cs count o, Rep h s cs -> oport_ok o ->
  let n := match count with None => Z.of_nat (ssize s) | Some n => n end in
  if (0 <=? n) && (n <=? Z.of_nat (ssize s)) then
    exists o', op_write_string h s count o = Ok o' /\ oport_ok o' /\
               out_bytes o' = out_bytes o ++ firstn (Z.to_nat n) (enc_all cs)
  else op_write_string h s count o = Err RangeErr.
Proof. exact op_write_string_contract. Qed.
Print Assumptions write_string_opcode_counts_bytes.

(** write-string with no range, (start) or (start end): the bytes that reach the port are the standard
    encoding of the characters start..end-1 (sub = firstn/skipn on the code-point array), nothing else; every
    other string keeps its contents; an invalid range raises *)
Theorem write_string_range : forall h s cs r o, Rep h s cs -> oport_ok o ->
  let '(a, e) := range_bounds r (length cs) in
  if (0 <=? a) && (a <=? e) && (e <=? Z.of_nat (length cs)) then
    exists h' o', write_string_io h s r o = Ok (h', o') /\ oport_ok o' /\
                  out_bytes o' = out_bytes o ++ enc_all (sub (Z.to_nat a) (Z.to_nat e) cs) /\
                  (forall t ct, Rep h t ct -> Rep h' t ct)
  else exists x, write_string_io h s r o = Err x.
Proof. exact write_string_range_refines. Qed.
Print Assumptions write_string_range.

(** string-fill! with no range / (start) / (start end), for every old and new character width *)
Theorem string_fill_range : forall h s cs c r, Rep h s cs -> cp c ->
  let '(a, e) := range_bounds r (length cs) in
  0 <= a <= e -> e <= Z.of_nat (length cs) ->
  exists h' s', string_fill h s c r = Ok (h', s') /\
    Rep h' s' (firstn (Z.to_nat a) cs ++ repeat c (Z.to_nat (e - a)) ++ skipn (Z.to_nat e) cs).
Proof. exact string_fill_refines. Qed.
Print Assumptions string_fill_range.

(** string->utf8 with a range: the new bytevector starts with the encoding of characters start..end-1 *)
Theorem string_to_utf8_with_range : forall h s cs r, Rep h s cs ->
  let '(a, e) := range_bounds r (length cs) in
  0 <= a <= e -> e <= Z.of_nat (length cs) ->
  exists h' bv, string_to_utf8_range h s r = Ok (h', bv) /\
    firstn (length (enc_all (sub (Z.to_nat a) (Z.to_nat e) cs))) (nth bv h' []) = enc_all (sub (Z.to_nat a) (Z.to_nat e) cs).
Proof. exact string_to_utf8_range_refines. Qed.
Print Assumptions string_to_utf8_with_range.

(** read-line (limit n): [spec_line n cs] = (characters before the first LF / CR / CR LF, at most n; the rest) *)
Theorem read_line_refines : forall n p cs, port_ok p -> Forall cp cs -> pending p = enc_all cs ->
  exists p', read_line n p = (match cs with [] => None | _ => Some (fst (spec_line n cs)) end, p') /\
             port_ok p' /\ pending p' = enc_all (snd (spec_line n cs)).
Proof. exact read_line_spec. Qed.
Print Assumptions read_line_refines.

(** lexicographic order of UTF-8 bytes = lexicographic order of code points ([lex] compares lists of integers) *)
Theorem utf8_byte_order_is_code_point_order : forall cs1, Forall cp cs1 -> forall cs2, Forall cp cs2 ->
  lex (enc_all cs1) (enc_all cs2) = lex cs1 cs2.
Proof. exact lex_enc_all. Qed.
Print Assumptions utf8_byte_order_is_code_point_order.

(** string-cmp (string=? string<? string>? string<=? string>=? compare it with 0) has the sign of the
    lexicographic comparison of the code-point arrays; U+0000 is an ordinary character *)
Theorem string_cmp_is_code_point_order : forall h s1 s2 cs1 cs2, Rep h s1 cs1 -> Rep h s2 cs2 ->
  (string_cmp h s1 s2 ?= 0) = lex cs1 cs2.
Proof. exact string_cmp_refines. Qed.
Print Assumptions string_cmp_is_code_point_order.
