(** C19 — codec libraries invert each other and are total on hostile input: property theorems only. *)
From ChibiV Require Import C19.Prims C19.Base64 C19.Base64Proofs C19.IntCodec C19.IntCodecProofs.
Local Open Scope Z_scope.

(** base64: decode . encode = id on every byte string (any length class mod 3) *)
Theorem base64_roundtrip : forall bs, bytes bs -> b64_decode (b64_encode bs) = bs.
Proof. exact Base64Proofs.base64_roundtrip. Qed.
Print Assumptions base64_roundtrip.

(** base64: the encoder emits only A-Z a-z 0-9 + / = and exactly 4*ceil(n/3) characters *)
Theorem base64_alphabet : forall bs, bytes bs ->
  Forall (fun c => b64char c = true) (b64_encode bs) /\
  Z.of_nat (length (b64_encode bs)) = 4 * ((Z.of_nat (length bs) + 2) / 3).
Proof. exact Base64Proofs.base64_alphabet. Qed.
Print Assumptions base64_alphabet.

(** base64: on ARBITRARY input the decoder yields bytes and stays inside the buffer it allocated *)
Theorem base64_decode_total : forall src,
  bytes (b64_decode src) /\ Z.of_nat (length (b64_decode src)) <= dst_len (Z.of_nat (length src)).
Proof. exact Base64Proofs.base64_decode_total. Qed.
Print Assumptions base64_decode_total.

(** base64: characters outside the alphabet (white space, line breaks, ...) never change the result *)
Theorem base64_decode_skips_outside : forall a b, filter inband a = filter inband b -> b64_decode a = b64_decode b.
Proof. exact Base64Proofs.base64_decode_skips_outside. Qed.
Print Assumptions base64_decode_skips_outside.

Theorem base64_roundtrip_interleaved : forall bs t, bytes bs -> filter inband t = b64_encode bs -> b64_decode t = bs.
Proof. exact Base64Proofs.base64_roundtrip_interleaved. Qed.
Print Assumptions base64_roundtrip_interleaved.

(** numeric accessors: every width, both signednesses, both byte orders *)
Theorem int_codec_roundtrip : forall (w : nat) (signed big : bool) (v : Z),
  (0 < w)%nat -> in_range w signed v -> decode_int w signed big (encode_int w big v) = v.
Proof. exact IntCodecProofs.int_codec_roundtrip. Qed.
Print Assumptions int_codec_roundtrip.

Theorem int_codec_encode_length : forall w big v, length (encode_int w big v) = w /\ bytes (encode_int w big v).
Proof. exact IntCodecProofs.encode_length_bytes. Qed.
Print Assumptions int_codec_encode_length.

(** an accessor succeeds exactly when its whole window is inside the bytevector *)
Theorem accessor_in_bounds : forall (w : nat) (signed big : bool) (bv : list Z) (k v : Z),
  (bv_ref w signed big bv k <> None <-> 0 <= k /\ k + Z.of_nat w <= Z.of_nat (length bv)) /\
  (bv_set w big bv k v <> None <-> 0 <= k /\ k + Z.of_nat w <= Z.of_nat (length bv)).
Proof. exact IntCodecProofs.accessor_in_bounds. Qed.
Print Assumptions accessor_in_bounds.

(** set! then ref gives the value back, keeps the length, and touches nothing outside the window *)
Theorem accessor_set_ref : forall (w : nat) (signed big : bool) (bv bv' : list Z) (k v : Z),
  (0 < w)%nat -> in_range w signed v -> bv_set w big bv k v = Some bv' ->
  length bv' = length bv /\ bv_ref w signed big bv' k = Some v /\
  (forall i, (i < Z.to_nat k \/ Z.to_nat k + w <= i)%nat -> nth_error bv' i = nth_error bv i).
Proof. exact IntCodecProofs.accessor_set_ref. Qed.
Print Assumptions accessor_set_ref.
