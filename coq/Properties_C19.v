(** C19 — codec libraries invert each other and are total on hostile input: property theorems only. *)
From ChibiV Require Import C19.Prims C19.Base64 C19.Base64Proofs C19.Base64Stream C19.Base64StreamProofs
  C19.IntCodec C19.IntCodecProofs C19.AccTable Gen.C19_AccTable C19.AccTableProofs C19.UvTable Gen.C19_UvTable C19.UvTableProofs
  C19.Json C19.JsonNum C19.JsonNumProofs C19.JsonProofs C19.JsonValueProofs C19.JsonTextProofs C19.QP C19.QPProofs C19.Uri C19.UriProofs
  C19.Csv C19.CsvProofs Gen.C19_Quarters C19.Half Gen.C19_HalfFns C19.HalfBnd C19.HalfProofs1 C19.HalfProofs2 C19.HalfProofs3 C19.QuarterProofs.
Local Open Scope Z_scope.

(** base64: decode . encode = id on every byte string (any length class mod 3) *)
Theorem base64_roundtrip : forall bs, bytes bs -> b64_decode (b64_encode bs) = bs.
Proof. exact Base64Proofs.base64_roundtrip. Qed.
Print Assumptions base64_roundtrip.

(** base64: the encoder emits only A-Z a-z 0-9 + / = and exactly 4*ceil(n/3) characters *)
Theorem base64_alphabet : forall bs, bytes bs ->
  Forall (fun c => b64char c = true) (b64_encode bs) /\
  Z.of_nat (length (b64_encode bs)) = 4 * ((Z.of_nat (length bs) + 2) / 3).
Proof. exact Base64Proofs.base64_alphabet. Qed.
Print Assumptions base64_alphabet.

(** base64: on ARBITRARY input the decoder yields bytes and stays inside the buffer it allocated *)
Theorem base64_decode_total : forall src,
  bytes (b64_decode src) /\ Z.of_nat (length (b64_decode src)) <= dst_len (Z.of_nat (length src)).
Proof. exact Base64Proofs.base64_decode_total. Qed.
Print Assumptions base64_decode_total.

(** base64: characters outside the alphabet (white space, line breaks, ...) never change the result *)
Theorem base64_decode_skips_outside : forall a b, filter inband a = filter inband b -> b64_decode a = b64_decode b.
Proof. exact Base64Proofs.base64_decode_skips_outside. Qed.
Print Assumptions base64_decode_skips_outside.

Theorem base64_roundtrip_interleaved : forall bs t, bytes bs -> filter inband t = b64_encode bs -> b64_decode t = bs.
Proof. exact Base64Proofs.base64_roundtrip_interleaved. Qed.
Print Assumptions base64_roundtrip_interleaved.

(** numeric accessors: every width, both signednesses, both byte orders *)
Theorem int_codec_roundtrip : forall (w : nat) (signed big : bool) (v : Z),
  (0 < w)%nat -> in_range w signed v -> decode_int w signed big (encode_int w big v) = v.
Proof. exact IntCodecProofs.int_codec_roundtrip. Qed.
Print Assumptions int_codec_roundtrip.

Theorem int_codec_encode_length : forall w big v, length (encode_int w big v) = w /\ bytes (encode_int w big v).
Proof. exact IntCodecProofs.encode_length_bytes. Qed.
Print Assumptions int_codec_encode_length.

(** an accessor succeeds exactly when its whole window is inside the bytevector *)
Theorem accessor_in_bounds : forall (w : nat) (signed big : bool) (bv : list Z) (k v : Z),
  (bv_ref w signed big bv k <> None <-> 0 <= k /\ k + Z.of_nat w <= Z.of_nat (length bv)) /\
  (bv_set w big bv k v <> None <-> 0 <= k /\ k + Z.of_nat w <= Z.of_nat (length bv)).
Proof. exact IntCodecProofs.accessor_in_bounds. Qed.
Print Assumptions accessor_in_bounds.

(** set! then ref gives the value back, keeps the length, and touches nothing outside the window *)
Theorem accessor_set_ref : forall (w : nat) (signed big : bool) (bv bv' : list Z) (k v : Z),
  (0 < w)%nat -> in_range w signed v -> bv_set w big bv k v = Some bv' ->
  length bv' = length bv /\ bv_ref w signed big bv' k = Some v /\
  (forall i, (i < Z.to_nat k \/ Z.to_nat k + w <= i)%nat -> nth_error bv' i = nth_error bv i).
Proof. exact IntCodecProofs.accessor_set_ref. Qed.
Print Assumptions accessor_set_ref.

(** JSON strings: for every sequence of Unicode scalar values the writer's escaped text (incl. every surrogate
    pair, every control character, quote and backslash) is read back as exactly the UTF-8 bytes of that sequence *)
Theorem json_string_escape_roundtrip : forall (s : list Z), Forall (fun c => scalar c = true) s ->
  exists t, wr_chars s = Some t /\
    forall (f : nat) (rest : list Z), (length s < f)%nat -> read_string f (t ++ rest) = Ok (utf8_str s, rest).
Proof. exact JsonProofs.json_string_escape_roundtrip. Qed.
Print Assumptions json_string_escape_roundtrip.

(** JSON values of any shape and any depth up to the reader's limit (exact integers |z| <= 2^62-1, no floats, object
    keys = strings, strings = scalar values): reading what the writer wrote gives the value back, strings as the
    UTF-8 of their code points.  [need v] is an explicit fuel bound (fuel is not in the code). *)
Theorem json_roundtrip : forall (v : json) (fuel : nat),
  wfj v -> jdepth v <= MAXDEPTH -> (need v <= fuel)%nat ->
  exists t, jwrite v = Some t /\ jread fuel 0 t = Ok (utf8_val v, []).
Proof. exact JsonValueProofs.json_roundtrip. Qed.
Print Assumptions json_roundtrip.

(** whatever value the writer accepts (strings of any non-negative code points), its text is printable ASCII only:
    control characters, the quote, the backslash and everything non-ASCII leave as escapes *)
Theorem json_writer_emits_ascii : forall (v : json) (t : list Z),
  nonneg_strings v -> jwrite v = Some t -> Forall printable t.
Proof. exact (fun v t H => JsonTextProofs.json_writer_ascii v H t). Qed.
Print Assumptions json_writer_emits_ascii.

(** quoted-printable (repaired encoder, pinned decoder) *)
Theorem qp_roundtrip : forall bs, bytes bs -> qp_decode (qp_encode bs) = Some bs.
Proof. exact QPProofs.qp_roundtrip. Qed.
Print Assumptions qp_roundtrip.

Theorem qp_alphabet : forall bs, bytes bs -> Forall (fun c => qp_char c = true) (qp_encode bs).
Proof. exact QPProofs.qp_alphabet. Qed.
Print Assumptions qp_alphabet.

Theorem qp_line_length : forall bs, bytes bs -> max_line (qp_encode bs) 0 0 <= 76.
Proof. exact QPProofs.qp_line_length. Qed.
Print Assumptions qp_line_length.

(** URI escaping (pinned code), for ANY classification [ext] of the non-ASCII alphabetic/numeric characters:
    decode (encode s) = s whenever every character that needs escaping is below U+0100 ... *)
Theorem uri_roundtrip : forall (ext : Z -> bool) (plus : bool) (s : list Z),
  Forall (encodable ext) s -> uri_dec plus (uri_encode ext plus s) = Some s.
Proof. exact UriProofs.uri_roundtrip. Qed.
Print Assumptions uri_roundtrip.

(** ... and NOT above (finding F-C19-1, sig uri:roundtrip:unsafe-char-above-latin1): the euro sign comes back as " ac" *)
Theorem uri_roundtrip_refuted :
  uri_encode (fun _ => false) false [8364] = [37; 50; 48; 97; 99] /\
  uri_dec false (uri_encode (fun _ => false) false [8364]) = Some [32; 97; 99].
Proof. exact UriProofs.uri_roundtrip_refuted. Qed.
Print Assumptions uri_roundtrip_refuted.

(** round 2 ------------------------------------------------------------------------------------------------ *)

(** base64-decode on a binary port (chunk buffer of N bytes, pending sextets re-encoded into the head of the next
    chunk): for EVERY chunk size >= 4 and EVERY input — white space, CR LF, junk, padding at any position relative to a
    chunk boundary — the loop terminates and writes exactly what the one-shot decoder returns *)
Theorem stream_decode_equals_decode : forall (N : nat) (input : list Z),
  (4 <= N)%nat -> b64_stream_decode N input = Some (b64_decode input).
Proof. exact Base64StreamProofs.stream_decode_equals_decode. Qed.
Print Assumptions stream_decode_equals_decode.

(** every round's output fits the dst buffer of 3*((3+N)>>2) bytes the port decoder allocates once *)
Theorem stream_decode_chunk_fits : forall (N : nat) (chunk : list Z), length chunk = N ->
  let '(out, _, (c1, c2, c3)) := dec_k chunk OUTSIDE OUTSIDE OUTSIDE in
  Z.of_nat (length (out ++ Base64.finish c1 c2 c3)) <= dst_len (Z.of_nat N).
Proof. exact Base64StreamProofs.stream_decode_chunk_fits. Qed.
Print Assumptions stream_decode_chunk_fits.

(** base64-encode on a binary port: for every chunk size that is a positive multiple of 3, = the one-shot encoder *)
Theorem stream_encode_equals_encode : forall (n : nat) (input : list Z),
  (0 < n)%nat -> b64_stream_encode (3 * n) input = Some (b64_encode input).
Proof. exact Base64StreamProofs.stream_encode_equals_encode. Qed.
Print Assumptions stream_encode_equals_encode.

(** ... and the pinned chunk size 2048 is refuted (padding in mid-stream; the text no longer decodes to the input) *)
Theorem stream_encode_chunk_2048_refuted :
  exists input, b64_stream_encode 2048 input <> Some (b64_encode input) /\
                option_map b64_decode (b64_stream_encode 2048 input) <> Some input.
Proof. exact Base64StreamProofs.stream_encode_chunk_2048_refuted. Qed.
Print Assumptions stream_encode_chunk_2048_refuted.

(** base64-encode-header (repaired): encoded words =?name?B?w?= separated by nl TAB (a leading nl TAB when the first line has
    no room for a quantum); the payloads concatenated are the encoding *)
Theorem base64_header_words : forall (name bs : list Z) (start_col max_col : Z) (nl : list Z),
  let prefix := [61; 63] ++ name ++ [63; 66; 63] in
  exists lead words,
    b64_header name bs start_col max_col nl = lead ++ join (nl ++ [9]) (map (fun w => prefix ++ w ++ [63; 61]) words) /\
    concat words = b64_encode bs /\ (lead = [] \/ lead = nl ++ [9]).
Proof. exact Base64StreamProofs.header_words. Qed.
Print Assumptions base64_header_words.

(** every row of the accessor table REGENERATED from lib/scheme/bytevector.stub (integer and ieee, ref and set!,
    native and explicit endianness) asserts exactly the window it accesses: it is the model accessor of its width *)
Theorem accessor_table_in_bounds : forall e, In e acc_table ->
  forall (big : bool) (bv : list Z) (k v : Z),
    acc_ref e big bv k = bv_ref (a_width e) (a_signed e) big bv k /\
    acc_set e big bv k v = bv_set (a_width e) big bv k v /\
    (acc_ref e big bv k <> None <-> 0 <= k /\ k + Z.of_nat (a_width e) <= Z.of_nat (length bv)) /\
    (acc_set e big bv k v <> None <-> 0 <= k /\ k + Z.of_nat (a_width e) <= Z.of_nat (length bv)) /\
    a_decl_width e = a_width e /\ a_decl_kind e = a_kind e /\ (0 < a_width e)%nat.
Proof. exact AccTableProofs.accessor_table_in_bounds. Qed.
Print Assumptions accessor_table_in_bounds.

(** every SRFI 160 accessor binding REGENERATED from lib/srfi/160/uvprims.stub asserts 0 <= i < (uvector-length uv) on the index
    and vector its C function uses *)
Theorem uvector_table_in_bounds : forall e, In e uv_table -> forall len i, uasserted e len i = true <-> 0 <= i < len.
Proof. exact UvTableProofs.uvector_table_in_bounds. Qed.
Print Assumptions uvector_table_in_bounds.

From Coq Require Import List.
Import ListNotations.
Local Open Scope Z_scope.

(** CSV (lib/chibi/csv.scm, any well-formed grammar: separators, quote char, doubling or escape char, lax / crlf / single-character
    record separator): reading what the writer wrote returns the table, for fields over ALL characters (quotes, separators, CR, LF,
    CRLF, the escape character, empty fields); the two row shapes the format cannot represent — the empty row and the row of one
    empty field, both written as a bare record separator — vanish *)
Theorem csv_roundtrip : forall g, wf g -> forall rows txt, csv_write g rows = Some txt -> csv_read g txt = Some (filter representable rows).
Proof. exact CsvProofs.csv_roundtrip. Qed.
Print Assumptions csv_roundtrip.

(** CSV: for a well-formed grammar the writer never raises; for the default grammar (comma, double quote doubled, lax) every table round-trips *)
Theorem csv_roundtrip_default : (forall g, wf g -> forall rows, csv_write g rows <> None) /\
  forall rows, exists txt, csv_write default_grammar rows = Some txt /\ csv_read default_grammar txt = Some (filter representable rows).
Proof. exact (conj CsvProofs.csv_write_total CsvProofs.csv_roundtrip_default). Qed.
Print Assumptions csv_roundtrip_default.

(** CSV: the writer quotes a field iff it contains the quote char, the escape char, a separator, the record-separator char, CR or LF ... *)
Theorem csv_writer_quotes_exactly_when_needed :
  (forall g f, write_field g f = if existsb (needs_quoting g) f then write_quoted g f else Some f) /\
  (forall g ch, needs_quoting g ch = true <-> (quote g = Some ch \/ esc g = Some ch \/ In ch (seps g) \/ rs g = RChar ch \/ ch = LF \/ ch = CR)).
Proof. exact CsvProofs.csv_writer_quotes_exactly_when_needed. Qed.
Print Assumptions csv_writer_quotes_exactly_when_needed.

(** ... and each of these is NEEDED under the default grammar: a field containing one of them, written bare, is never read back as that field *)
Theorem csv_unquoted_special_misread : forall f, existsb (needs_quoting default_grammar) f = true ->
  csv_read default_grammar (f ++ [LF]) <> Some [[f]].
Proof. exact CsvProofs.csv_unquoted_special_misread. Qed.
Print Assumptions csv_unquoted_special_misread.

(** mini-floats: sexp_double_to_half (sexp_half_to_double h) = h for ALL 65536 patterns (functions REGENERATED from sexp.c) *)
Theorem half_roundtrip : forall h, 0 <= h < 65536 -> gen_double_to_half (gen_half_to_double h) = h.
Proof. exact HalfProofs1.half_roundtrip. Qed.
Print Assumptions half_roundtrip.

(** mini-floats: the double denotes exactly the half's value (-1)^s m 2^-24 resp. (-1)^s (1024+m) 2^(e-25) — exponent field 31 is an ordinary
    exponent in sexp.c; only 0x7C00 / 0xFC00 / 0x7FFF are +inf / -inf / NaN *)
Theorem half_to_double_exact : forall h, 0 <= h < 65536 -> half_special h = false ->
  finite64 (gen_half_to_double h) = true /\ dy_eq (dyadic64 (gen_half_to_double h)) (half_dyadic h).
Proof. exact HalfProofs2.half_to_double_exact. Qed.
Print Assumptions half_to_double_exact.

(** mini-floats: at every boundary between adjacent half values the tie goes away from zero, the next binary32 below goes down, the next
    binary64 below goes up (sexp_double_to_half rounds its argument to binary32 first) *)
Theorem double_to_half_boundaries : forall a, 0 <= a < 32767 -> half_special a = false -> half_special (a + 1) = false ->
  gen_double_to_half (hmid a) = a + 1 /\ gen_double_to_half (predf64 (hmid a)) = a /\ gen_double_to_half (pred64 (hmid a)) = a + 1.
Proof. exact HalfProofs3.double_to_half_boundaries. Qed.
Print Assumptions double_to_half_boundaries.

(** mini-floats: wherever the subnormal term of sexp_half_to_double counts, its shift count 150 - v is a defined C shift *)
Theorem half_shift_counts_defined : forall h, 0 <= h < 65536 ->
  Z.land (Z.shiftr h 10) 31 = 0 -> Z.land h 1023 <> 0 -> 0 <= h2d_shift_count h < 32.
Proof. exact HalfProofs2.half_shift_counts_defined. Qed.
Print Assumptions half_shift_counts_defined.

(** quarters (table REGENERATED from sexp.c): every pattern round-trips up to NaN collapse (125..127, 253..255 -> 127) and -0 -> +0 *)
Theorem quarter_roundtrip : forall q, 0 <= q < 256 -> double_to_quarter (quarter_to_double q) = quarter_canon q.
Proof. exact QuarterProofs.quarter_roundtrip. Qed.
Print Assumptions quarter_roundtrip.

(** quarters: the table is the 1.5.2 format with bias 15, exactly; it is strictly increasing (what the binary search relies on) *)
Theorem quarter_to_double_exact : (forall q, 0 <= q < 256 -> Z.land q 127 < 124 ->
  finite64 (quarter_to_double q) = true /\ dy_eq (dyadic64 (quarter_to_double q)) (quarter_dyadic q)) /\
  (forall i, 0 <= i < 124 -> qtab i < qtab (i + 1)).
Proof. exact (conj QuarterProofs.quarter_to_double_exact QuarterProofs.quarters_sorted). Qed.
Print Assumptions quarter_to_double_exact.

(** quarters: sexp_double_to_quarter rounds to nearest at every boundary (midpoint and the double below go down, the double above goes up,
    both signs), and the model's search fuel suffices *)
Theorem double_to_quarter_boundaries : (forall i, 0 <= i < 123 ->
  double_to_quarter (qmid i) = i /\ double_to_quarter (pred64 (qmid i)) = i /\ double_to_quarter (succ64 (qmid i)) = i + 1 /\
  double_to_quarter (neg64 (qmid i)) = 128 + i /\ double_to_quarter (neg64 (succ64 (qmid i))) = 128 + i + 1) /\
  (forall f, q_search 9 0 (quarters_infinity_index - 1) f <> None).
Proof. exact (conj QuarterProofs.double_to_quarter_boundaries QuarterProofs.d2q_search_total). Qed.
Print Assumptions double_to_quarter_boundaries.

(** CSV: the reader never returns an empty row or a row of one empty field, for ANY grammar and ANY input: `representable` is exactly what can come back *)
Theorem csv_read_rows_representable : forall g txt rows, csv_read g txt = Some rows -> forallb representable rows = true.
Proof. exact CsvProofs.csv_read_rows_representable. Qed.
Print Assumptions csv_read_rows_representable.

(** CSV: whatever the reader accepts (hostile text included) can be written and is read back unchanged *)
Theorem csv_read_write_read : forall g, wf g -> forall txt rows, csv_read g txt = Some rows ->
  exists txt', csv_write g rows = Some txt' /\ csv_read g txt' = Some rows.
Proof. exact CsvProofs.csv_read_write_read. Qed.
Print Assumptions csv_read_write_read.

(** 38-40: round 4 — the acceptance predicate for the text of a JSON number (Json writer, 10 significant digits) *)
Theorem json_number_text_relative_error : forall m e d k p : Z, m <> 0 -> JsonNum.num_accept m e d k p = true ->
  2000000000 * Z.abs (JsonNum.na_T e d k p - JsonNum.na_X m e k p) <= Z.abs (JsonNum.na_X m e k p).
Proof. exact JsonNumProofs.num_accept_relative. Qed.
Print Assumptions json_number_text_relative_error.

Theorem json_number_text_sign : forall m e d k p : Z, m <> 0 -> JsonNum.num_accept m e d k p = true ->
  (0 < m <-> 0 < d) /\ d <> 0.
Proof. exact JsonNumProofs.num_accept_sign. Qed.
Print Assumptions json_number_text_sign.

Theorem json_number_text_exponent_unique : forall m e d k p j : Z, m <> 0 -> 0 < j ->
  JsonNum.num_accept m e d k p = true -> JsonNum.num_accept m e (d * 10 ^ j) k p = false.
Proof. exact JsonNumProofs.num_accept_exponent_unique. Qed.
Print Assumptions json_number_text_exponent_unique.
