(** C11 — green threads: property theorems only (model: C11/Model.v, repaired scheduler). *)
From Coq Require Import ZArith List.
From ChibiV Require Import C11.Model C11.Invariant C11.SchedProofs C11.Theorems.
Import ListNotations.

Theorem queues_wellformed : forall s, reachable s ->
  NoDup (front s) /\ NoDup (paused s) /\ (forall t, In t (front s) -> ~ In t (paused s)) /\
  back s = last_opt (front s) /\ ~ In (cur s) (front s).
Proof. exact queues_wellformed_thm. Qed.
Print Assumptions queues_wellformed.

Theorem waiting_is_paused : forall s, reachable s ->
  (forall t, waitp (th s t) = true -> live (th s t) = true -> t = cur s \/ In t (paused s)) /\
  (forall t, In t (paused s) -> waitp (th s t) = true).
Proof. exact waiting_is_paused_thm. Qed.
Print Assumptions waiting_is_paused.

Theorem no_thread_lost : forall s, reachable s ->
  forall t, started s t = true -> live (th s t) = true -> t = cur s \/ In t (front s) \/ In t (paused s).
Proof. exact no_thread_lost_thm. Qed.
Print Assumptions no_thread_lost.

Theorem invariant_preserved_by_every_step : forall s o, inv s -> enabled s o = true -> inv (fst (step true s o)).
Proof. exact inv_step. Qed.
Print Assumptions invariant_preserved_by_every_step.

Theorem unlock_wakes_one_waiter : forall s m pre w post,
  locked (mx s m) = true -> paused s = pre ++ w :: post -> ev (th s w) = EMutex m ->
  (forall y, In y pre -> ev (th s y) <> EMutex m) ->
  let s' := fst (mutex_unlock s m None TNone (0%Z, 0%Z)) in
  front s' = w :: front s /\ paused s' = pre ++ post /\ waitp (th s' w) = false /\
  timeoutp (th s' w) = false /\ locked (mx s' m) = false /\ (forall x, x <> w -> th s' x = th s x).
Proof. exact unlock_wakes_one_waiter_thm. Qed.
Print Assumptions unlock_wakes_one_waiter.

Theorem signal_wakes_one_waiter : forall s c pre w post,
  paused s = pre ++ w :: post -> ev (th s w) = ECond c ->
  (forall y, In y pre -> ev (th s y) <> ECond c) ->
  let r := condvar_signal s c in
  snd r = true /\ front (fst r) = w :: front s /\ paused (fst r) = pre ++ post /\
  waitp (th (fst r) w) = false /\ timeoutp (th (fst r) w) = false /\ (forall x, x <> w -> th (fst r) x = th s x).
Proof. exact signal_wakes_one_waiter_thm. Qed.
Print Assumptions signal_wakes_one_waiter.

Theorem signal_without_waiter : forall s c, (forall y, In y (paused s) -> ev (th s y) <> ECond c) ->
  condvar_signal s c = (s, false).
Proof. exact signal_without_waiter_thm. Qed.
Print Assumptions signal_without_waiter.

Theorem terminate_wakes_joiners : forall s t, In t (paused (wake_joiners s)) ->
  ev (th s t) <> EThread (cur s) /\ In t (paused s).
Proof. exact terminate_wakes_joiners_thm. Qed.
Print Assumptions terminate_wakes_joiners.

Theorem queues_wellformed_pinned_refuted :
  exists s tr, run false init pinned_witness = Some (s, tr) /\ front s = [O; O] /\ ~ NoDup (front s).
Proof. exact queues_wellformed_pinned_refuted_thm. Qed.
Print Assumptions queues_wellformed_pinned_refuted.
