(** C11 — green threads: property theorems only (model: C11/Model.v, repaired scheduler). *)
From Coq Require Import ZArith List.
From ChibiV Require Import C11.Model C11.Invariant C11.SchedProofs C11.Theorems C11.Round2 C11.Sorted.
From ChibiV Require C11.Prog C11.ProgProofs C11.Round4.
Import ListNotations.

Theorem queues_wellformed : forall s, reachable s ->
  NoDup (front s) /\ NoDup (paused s) /\ (forall t, In t (front s) -> ~ In t (paused s)) /\
  back s = last_opt (front s) /\ ~ In (cur s) (front s).
Proof. exact queues_wellformed_thm. Qed.
Print Assumptions queues_wellformed.

Theorem waiting_is_paused : forall s, reachable s ->
  (forall t, waitp (th s t) = true -> live (th s t) = true -> t = cur s \/ In t (paused s)) /\
  (forall t, In t (paused s) -> waitp (th s t) = true).
Proof. exact waiting_is_paused_thm. Qed.
Print Assumptions waiting_is_paused.

Theorem no_thread_lost : forall s, reachable s ->
  forall t, started s t = true -> live (th s t) = true -> t = cur s \/ In t (front s) \/ In t (paused s).
Proof. exact no_thread_lost_thm. Qed.
Print Assumptions no_thread_lost.

Theorem invariant_preserved_by_every_step : forall s o, inv s -> enabled s o = true -> inv (fst (step true s o)).
Proof. exact inv_step. Qed.
Print Assumptions invariant_preserved_by_every_step.

Theorem unlock_wakes_one_waiter : forall s m pre w post,
  locked (mx s m) = true -> paused s = pre ++ w :: post -> ev (th s w) = EMutex m ->
  (forall y, In y pre -> ev (th s y) <> EMutex m) ->
  let s' := fst (mutex_unlock s m None TNone (0%Z, 0%Z)) in
  front s' = w :: front s /\ paused s' = pre ++ post /\ waitp (th s' w) = false /\
  timeoutp (th s' w) = false /\ locked (mx s' m) = false /\ (forall x, x <> w -> th s' x = th s x).
Proof. exact unlock_wakes_one_waiter_thm. Qed.
Print Assumptions unlock_wakes_one_waiter.

Theorem signal_wakes_one_waiter : forall s c pre w post,
  paused s = pre ++ w :: post -> ev (th s w) = ECond c ->
  (forall y, In y pre -> ev (th s y) <> ECond c) ->
  let r := condvar_signal s c in
  snd r = true /\ front (fst r) = w :: front s /\ paused (fst r) = pre ++ post /\
  waitp (th (fst r) w) = false /\ timeoutp (th (fst r) w) = false /\ (forall x, x <> w -> th (fst r) x = th s x).
Proof. exact signal_wakes_one_waiter_thm. Qed.
Print Assumptions signal_wakes_one_waiter.

Theorem signal_without_waiter : forall s c, (forall y, In y (paused s) -> ev (th s y) <> ECond c) ->
  condvar_signal s c = (s, false).
Proof. exact signal_without_waiter_thm. Qed.
Print Assumptions signal_without_waiter.

Theorem terminate_wakes_joiners : forall s t, In t (paused (wake_joiners s)) ->
  ev (th s t) <> EThread (cur s) /\ In t (paused s).
Proof. exact terminate_wakes_joiners_thm. Qed.
Print Assumptions terminate_wakes_joiners.

Theorem queues_wellformed_pinned_refuted :
  exists s tr, run false init pinned_witness = Some (s, tr) /\ front s = [O; O] /\ ~ NoDup (front s).
Proof. exact queues_wellformed_pinned_refuted_thm. Qed.
Print Assumptions queues_wellformed_pinned_refuted.

(* ---- round 2 ---- *)

Theorem broadcast_wakes_all : forall s c,
  let s' := fst (condvar_broadcast s c) in
  (forall t, In t (paused s) -> ev (th s t) = ECond c ->
     In t (front s') /\ ~ In t (paused s') /\ waitp (th s' t) = false /\ timeoutp (th s' t) = false) /\
  paused s' = filter (fun y => negb (event_eqb (ev (th s y)) (ECond c))) (paused s) /\
  (forall x, In x (front s) -> In x (front s')) /\
  (forall x, ev (th s x) <> ECond c -> th s' x = th s x) /\
  cur s' = cur s /\ mx s' = mx s.
Proof. exact broadcast_wakes_all_thm. Qed.
Print Assumptions broadcast_wakes_all.

Theorem join_wakes_all_joiners : forall s, back s = last_opt (front s) ->
  let isj := fun y => event_eqb (ev (th s y)) (EThread (cur s)) in
  let s' := wake_joiners s in
  front s' = front s ++ filter isj (paused s) /\
  paused s' = filter (fun y => negb (isj y)) (paused s) /\
  (forall t, In t (paused s) -> ev (th s t) = EThread (cur s) ->
     In t (front s') /\ ~ In t (paused s') /\ waitp (th s' t) = false /\ timeoutp (th s' t) = false) /\
  (forall x, ev (th s x) <> EThread (cur s) -> th s' x = th s x).
Proof. exact join_wakes_all_joiners_thm. Qed.
Print Assumptions join_wakes_all_joiners.

Theorem joiner_runnable_after_exit : forall s n1 n2 t, inv s -> live (th s (cur s)) = false ->
  In t (paused s) -> ev (th s t) = EThread (cur s) ->
  let s' := scheduler true s n1 n2 in
  (t = cur s' \/ In t (front s')) /\ waitp (th s' t) = false.
Proof. exact joiner_runnable_after_exit_thm. Qed.
Print Assumptions joiner_runnable_after_exit.

Theorem join_terminated_returns : forall s t tmo now, live (th s t) = false -> thread_join s t tmo now = (s, true).
Proof. exact join_terminated_returns_thm. Qed.
Print Assumptions join_terminated_returns.

Theorem round_robin_fair : forall pre clocks s t post,
  paused s = [] -> front s = pre ++ t :: post -> length clocks = S (length pre) ->
  (forall x, x = cur s \/ In x (front s) -> live (th s x) = true /\ waitp (th s x) = false) ->
  cur (sched_calls clocks s) = t.
Proof. exact round_robin_fair_thm. Qed.
Print Assumptions round_robin_fair.

Theorem mutex_exclusion : forall ops s tr, run true init ops = Some (s, tr) ->
  (forall m, locked (mx s m) = true <-> exists t, held (fun _ => None) tr m = Some t) /\
  (forall tr1 t m tmo now o tr2, tr = tr1 ++ (t, OLock m tmo now o, true) :: tr2 ->
     held (fun _ => None) tr1 m = None).
Proof. exact mutex_exclusion_thm. Qed.
Print Assumptions mutex_exclusion.

Theorem paused_sorted : forall ops s tr, Forall op_clock_ok ops -> run true init ops = Some (s, tr) ->
  psorted (th s) (paused s) /\ forall x, wf_time (th s x).
Proof. exact paused_sorted_thm. Qed.
Print Assumptions paused_sorted.

Theorem timed_wait_bounded : forall s n1 n2 t, inv s -> tinv s -> In t (paused s) ->
  before (th s t) (fst n1) (snd n1) = true ->
  let s' := scheduler true s n1 n2 in
  (t = cur s' \/ In t (front s')) /\ waitp (th s' t) = false.
Proof. exact timed_wait_bounded_thm. Qed.
Print Assumptions timed_wait_bounded.

(** round 3: programs (C11/Prog.v: thread language with the retry loops of lib/srfi/18/interface.scm on top of the scheduler
    model; Prog.run : fuel -> schedule -> prog -> outcome).
    FULL STATEMENT aimed at (DESIGN.md section 4, schedule_independence_locked): for every program in which every access to a
    shared variable x happens while holding the mutex assigned to x and whose critical sections on one variable are commutative
    updates OR are totally ordered by the program's own synchronisation (join / condvar handshake), Prog.run yields the same
    final store and thread results for ALL fair schedules (positive slices), and it yields them (every fair run finishes).
    PROVED below (…_partial): the commutative-update class decided by Prog.properly_locked, n threads, nested sections,
    timed locks (neutral bodies) and condvar waits included, for ALL schedules (any slice lengths incl. 0, any clock advances):
    every run that finishes has the outcome computed from the program text alone, hence any two finishing runs agree.
    MISSING: (1) liveness — that a run under a fair schedule finishes (neither OutOfFuel, LockFailed nor Abandoned) is not
    proved (it is checked: the canonical run of every generated program must be Finished, and on the real binary every
    schedule must end with every thread finished and every untimed lock granted); (2) the class "sections totally ordered by
    join / condvar handshake" (results that depend on values read from shared variables) is not covered. *)
Theorem mutex_sections_do_not_interleave : forall P, Prog.properly_locked P = true ->
  forall M, ProgProofs.mreach P M ->
  (forall t u m, ProgProofs.inside M t m -> ProgProofs.inside M u m -> t = u) /\
  (forall t m, ProgProofs.inside M t m ->
     locked (mx (Prog.sch M) m) = true /\ owner (mx (Prog.sch M) m) = Some t) /\
  (forall t x k r, Prog.code (Prog.ts M t) = Prog.IWrite x k :: r ->
     Prog.tmp (Prog.ts M t) = Prog.store M x /\ ProgProofs.holds (Prog.sch M) t (Prog.mu P x)).
Proof. exact ProgProofs.mutex_sections_do_not_interleave_thm. Qed.
Print Assumptions mutex_sections_do_not_interleave.

Theorem finished_outcome_is_static : forall P, Prog.properly_locked P = true ->
  forall fuel sc v r, Prog.run fuel sc P = Prog.Finished v r ->
  v = ProgProofs.expected_vals P /\ r = ProgProofs.expected_results P.
Proof. exact ProgProofs.finished_outcome_is_static_thm. Qed.
Print Assumptions finished_outcome_is_static.

Theorem schedule_independence_locked_partial : forall P, Prog.properly_locked P = true ->
  forall fuel1 sc1 fuel2 sc2 v1 r1 v2 r2,
    Prog.run fuel1 sc1 P = Prog.Finished v1 r1 -> Prog.run fuel2 sc2 P = Prog.Finished v2 r2 -> v1 = v2 /\ r1 = r2.
Proof. exact ProgProofs.schedule_independence_locked_partial_thm. Qed.
Print Assumptions schedule_independence_locked_partial.

Theorem unlocked_sections_schedule_dependent :
  Prog.properly_locked ProgProofs.ex_unlocked = false /\
  Prog.run 2000 Prog.canonical ProgProofs.ex_unlocked = Prog.Finished [16%Z] [100%Z; 310%Z; 307%Z] /\
  Prog.run 2000 (Prog.mkSl 2 0%Z :: ProgProofs.ones 200) ProgProofs.ex_unlocked = Prog.Finished [5%Z] [100%Z; 310%Z; 307%Z].
Proof. exact ProgProofs.unlocked_sections_schedule_dependent_thm. Qed.
Print Assumptions unlocked_sections_schedule_dependent.

(** round 4: thread-terminate! of EVERY thread is an enabled operation (Model.enabled no longer excludes a paused victim with
    a pending timeout), so `reachable` — and with it theorems 1-4, 15, 16 above — now ranges over all uses of the primitive. *)
Theorem dead_threads_do_not_wait : forall s, reachable s ->
  (forall t, live (th s t) = false -> waitp (th s t) = false /\ ~ In t (paused s)) /\
  (forall t, In t (paused s) -> live (th s t) = true).
Proof. exact Round4.dead_threads_do_not_wait_thm. Qed.
Print Assumptions dead_threads_do_not_wait.

Theorem terminate_paused_victim : forall s t, live (th s (cur s)) = true -> t <> cur s -> In t (paused s) ->
  back s = last_opt (front s) ->
  let s' := fst (thread_terminate s t) in
  snd (thread_terminate s t) = false /\ cur s' = cur s /\
  paused s' = remove1 t (paused s) /\ front s' = front s ++ [t] /\ back s' = Some t /\
  th s' t = mkT false false false (ev (th s t)) (tsec (th s t)) (tusec (th s t)) /\
  (forall y, y <> t -> th s' y = th s y) /\ mx s' = mx s.
Proof. exact Round4.terminate_paused_victim_thm. Qed.
Print Assumptions terminate_paused_victim.

Theorem deadline_exact : forall x ds dus now,
  let d := deadline x (TRel ds dus) now in
  (Round4.instant (fst d) (snd d) = Round4.instant (fst now) (snd now) + Round4.instant ds dus)%Z /\
  ((0 <= snd now < 1000000)%Z -> (0 <= dus < 1000000)%Z -> (0 <= snd d <= 1000000)%Z).
Proof. exact Round4.deadline_exact_thm. Qed.
Print Assumptions deadline_exact.

Theorem timed_wait_not_early : forall s t ds dus now0 now,
  (0 <= snd now0 < 1000000)%Z -> (0 <= dus < 1000000)%Z -> (0 <= snd now)%Z ->
  before (th (insert_timed s t (TRel ds dus) now0) t) (fst now) (snd now) = true ->
  (Round4.instant (fst now0) (snd now0) + Round4.instant ds dus <= Round4.instant (fst now) (snd now))%Z.
Proof. exact Round4.timed_wait_not_early_thm. Qed.
Print Assumptions timed_wait_not_early.

(** round 4: fairness of the run queue without the premise "nothing is paused" of round_robin_fair *)
Theorem scheduler_takes_front : forall s n1 n2 x rest, reachable s -> front s = x :: rest ->
  let s' := scheduler true s n1 n2 in
  cur s' = x /\ waitp (th s' x) = false /\ exists app, front s' = rest ++ app.
Proof. exact Round4.scheduler_takes_front_thm. Qed.
Print Assumptions scheduler_takes_front.

Theorem round_robin_fair_general : forall pre clocks s t post, reachable s ->
  front s = pre ++ t :: post -> length clocks = S (length pre) ->
  cur (sched_calls clocks s) = t /\ waitp (th (sched_calls clocks s) t) = false.
Proof. exact Round4.round_robin_fair_general_thm. Qed.
Print Assumptions round_robin_fair_general.

(** round 4: "a thread blocked on a mutex / condition variable is resumed once the awaited event has happened", scheduler level *)
Theorem unlock_resumes_waiter : forall s m pre w post n1 n2, reachable s ->
  live (th s (cur s)) = true -> waitp (th s (cur s)) = false ->
  locked (mx s m) = true -> paused s = pre ++ w :: post -> ev (th s w) = EMutex m ->
  (forall y, In y pre -> ev (th s y) <> EMutex m) ->
  let s1 := fst (step true s (OUnlock m None TNone (0%Z, 0%Z))) in
  let s2 := scheduler true s1 n1 n2 in
  cur s2 = w /\ waitp (th s2 w) = false /\ live (th s2 w) = true.
Proof. exact Round4.unlock_resumes_waiter_thm. Qed.
Print Assumptions unlock_resumes_waiter.

Theorem signal_resumes_waiter : forall s c pre w post n1 n2, reachable s ->
  live (th s (cur s)) = true -> waitp (th s (cur s)) = false ->
  paused s = pre ++ w :: post -> ev (th s w) = ECond c ->
  (forall y, In y pre -> ev (th s y) <> ECond c) ->
  let s1 := fst (step true s (OSignal c)) in
  let s2 := scheduler true s1 n1 n2 in
  cur s2 = w /\ waitp (th s2 w) = false /\ live (th s2 w) = true.
Proof. exact Round4.signal_resumes_waiter_thm. Qed.
Print Assumptions signal_resumes_waiter.

Theorem runnable_thread_runs : forall s t, reachable s -> In t (front s) ->
  exists k, (1 <= k <= length (front s))%nat /\
    forall clocks, length clocks = k -> cur (sched_calls clocks s) = t /\ waitp (th (sched_calls clocks s) t) = false.
Proof. exact Round4.runnable_thread_runs_thm. Qed.
Print Assumptions runnable_thread_runs.

Theorem ended_thread_resumes_joiner : forall s n1 n2 t, reachable s -> live (th s (cur s)) = false ->
  In t (paused s) -> ev (th s t) = EThread (cur s) ->
  let s1 := scheduler true s n1 n2 in
  waitp (th s1 t) = false /\
  (cur s1 = t \/
   exists k, (1 <= k <= length (front s1))%nat /\
     forall clocks, length clocks = k -> cur (sched_calls clocks s1) = t /\ waitp (th (sched_calls clocks s1) t) = false).
Proof. exact Round4.ended_thread_resumes_joiner_thm. Qed.
Print Assumptions ended_thread_resumes_joiner.

Theorem expired_timed_wait_resumes : forall ops s tr n1 n2 t, Forall op_clock_ok ops ->
  run true init ops = Some (s, tr) -> In t (paused s) -> before (th s t) (fst n1) (snd n1) = true ->
  let s1 := scheduler true s n1 n2 in
  waitp (th s1 t) = false /\
  (cur s1 = t \/
   exists k, (1 <= k <= length (front s1))%nat /\
     forall clocks, length clocks = k -> cur (sched_calls clocks s1) = t /\ waitp (th (sched_calls clocks s1) t) = false).
Proof. exact Round4.expired_timed_wait_resumes_thm. Qed.
Print Assumptions expired_timed_wait_resumes.
