(** C16 — proofs: the repaired collector marks exactly the SPEC's live set, and what follows for ephemerons. *)
From Coq Require Import ZArith List Bool PArith FMapPositive Lia.
From ChibiV Require Import C16.Model C16.Spec.
Import ListNotations.

(* ------------------------------------------------------------------ mark sets *)
Lemma mem_madd_same : forall a m, mem a (madd a m) = true.
Proof. intros; unfold mem, madd; rewrite PM.gss; reflexivity. Qed.

Lemma mem_madd_other : forall a b m, a <> b -> mem b (madd a m) = mem b m.
Proof. intros; unfold mem, madd; rewrite PM.gso; auto. Qed.

Lemma mem_madd_mono : forall a b m, mem b m = true -> mem b (madd a m) = true.
Proof.
  intros a b m H. destruct (Pos.eq_dec a b) as [->|N].
  - apply mem_madd_same.
  - rewrite mem_madd_other; auto.
Qed.

Lemma mem_empty : forall a, mem a (PM.empty unit) = false.
Proof. intros; unfold mem; rewrite PM.gempty; reflexivity. Qed.

Definition sub (m m' : mset) : Prop := forall a, mem a m = true -> mem a m' = true.
Lemma sub_refl : forall m, sub m m. Proof. unfold sub; auto. Qed.
Lemma sub_trans : forall a b c, sub a b -> sub b c -> sub a c. Proof. unfold sub; auto. Qed.

(** a predicate on addresses closed under strong slots *)
Definition strong_closed (h : objmap) (L : addr -> Prop) : Prop :=
  forall a o b, L a -> PM.find a h = Some o -> In (Ptr b) (strong o) -> isobj h b -> L b.

(** ... and under the ephemeron rule *)
Definition eph_closed (h : objmap) (L : addr -> Prop) : Prop :=
  forall e o b, L e -> PM.find e h = Some o -> weakp o = true ->
    (In Imm (weak o) \/ exists k, In (Ptr k) (weak o) /\ L k) ->
    In (Ptr b) (extra o) -> isobj h b -> L b.

Definition within (m : mset) (L : addr -> Prop) : Prop := forall a, mem a m = true -> L a.

(** the marked set is closed under strong slots except for what is still on the work list *)
Definition closed_ex (h : objmap) (m : mset) (w : list ref) : Prop :=
  forall a o b, mem a m = true -> PM.find a h = Some o -> In (Ptr b) (strong o) -> isobj h b ->
                mem b m = true \/ In (Ptr b) w.

(* ------------------------------------------------------------------ mark_loop *)
Lemma mark_loop_mono : forall h f w m m', mark_loop h f w m = Some m' -> sub m m'.
Proof.
  induction f as [|f IH]; intros w m m' H; destruct w as [|r w]; simpl in H.
  - inversion H; apply sub_refl.
  - discriminate.
  - inversion H; apply sub_refl.
  - destruct r as [|a].
    + eauto.
    + destruct (mem a m) eqn:Ma; [eauto|].
      destruct (PM.find a h) as [o|] eqn:Fa; [|eauto].
      apply IH in H. intros b Hb. apply H. apply mem_madd_mono; auto.
Qed.

Lemma mark_loop_sound : forall h L, strong_closed h L ->
  forall f w m m', mark_loop h f w m = Some m' -> within m L ->
  (forall a, In (Ptr a) w -> isobj h a -> L a) -> within m' L.
Proof.
  intros h L SC. induction f as [|f IH]; intros w m m' H W HW; destruct w as [|r w]; simpl in H.
  - inversion H; subst; auto.
  - discriminate.
  - inversion H; subst; auto.
  - destruct r as [|a].
    + eapply IH; eauto. intros; apply HW; simpl; auto.
    + destruct (mem a m) eqn:Ma.
      { eapply IH; eauto. intros; apply HW; simpl; auto. }
      destruct (PM.find a h) as [o|] eqn:Fa.
      2:{ eapply IH; eauto. intros; apply HW; simpl; auto. }
      assert (La : L a). { apply HW; simpl; auto. unfold isobj; rewrite Fa; discriminate. }
      eapply IH; eauto.
      * intros b Hb. destruct (Pos.eq_dec a b) as [->|N]; auto.
        rewrite mem_madd_other in Hb; auto.
      * intros b Hb Ib. apply in_app_or in Hb. destruct Hb as [Hb|Hb].
        -- eapply SC; eauto.
        -- apply HW; simpl; auto.
Qed.

Lemma mark_loop_closed : forall h f w m m', mark_loop h f w m = Some m' -> closed_ex h m w ->
  closed_ex h m' [] /\ (forall a, In (Ptr a) w -> isobj h a -> mem a m' = true).
Proof.
  intros h. induction f as [|f IH]; intros w m m' H C; destruct w as [|r w]; simpl in H.
  - inversion H; subst; split; [auto | intros a []].
  - discriminate.
  - inversion H; subst; split; [auto | intros a []].
  - destruct r as [|a].
    + destruct (IH _ _ _ H) as [C1 C2].
      { intros x o b Mx Fx Ib Ob. destruct (C x o b Mx Fx Ib Ob) as [|[E|I]]; auto. discriminate. }
      split; auto. intros x [E|I] Ox; [discriminate|auto].
    + destruct (mem a m) eqn:Ma.
      { destruct (IH _ _ _ H) as [C1 C2].
        { intros x o b Mx Fx Ib Ob. destruct (C x o b Mx Fx Ib Ob) as [|[E|I]]; auto.
          inversion E; subst; auto. }
        split; auto. intros x [E|I] Ox; auto. inversion E; subst.
        eapply mark_loop_mono; eauto. }
      destruct (PM.find a h) as [o|] eqn:Fa.
      2:{ destruct (IH _ _ _ H) as [C1 C2].
          { intros x o b Mx Fx Ib Ob. destruct (C x o b Mx Fx Ib Ob) as [|[E|I]]; auto.
            inversion E; subst. exfalso; apply Ob; auto. }
          split; auto. intros x [E|I] Ox; auto. inversion E; subst. exfalso; apply Ox; auto. }
      destruct (IH _ _ _ H) as [C1 C2].
      { intros x ox b Mx Fx Ib Ob. destruct (Pos.eq_dec a x) as [->|N].
        - rewrite Fa in Fx; inversion Fx; subst. right. apply in_or_app; auto.
        - rewrite mem_madd_other in Mx; auto.
          destruct (C x ox b Mx Fx Ib Ob) as [|[E|I]].
          + left; apply mem_madd_mono; auto.
          + inversion E; subst. left; apply mem_madd_same.
          + right; apply in_or_app; auto. }
      split; auto. intros x [E|I] Ox.
      * inversion E; subst. eapply mark_loop_mono; eauto. apply mem_madd_same.
      * apply C2; auto. apply in_or_app; auto.
Qed.

(** marking one unmarked pointer either marks it or leaves the set untouched *)
Lemma mark_loop_single : forall h f a m m', mark_loop h f [Ptr a] m = Some m' ->
  mem a m = false -> mem a m' = false -> m' = m /\ PM.find a h = None.
Proof.
  intros h f a m m' H Ma Ma'. destruct f as [|f]; simpl in H; [discriminate|].
  rewrite Ma in H. destruct (PM.find a h) as [o|] eqn:Fa.
  - apply mark_loop_mono in H. rewrite (H a (mem_madd_same a m)) in Ma'. discriminate.
  - destruct f; simpl in H; inversion H; auto.
Qed.

(* ------------------------------------------------------------------ mark_extras *)
Lemma mark_extras_mono : forall h f xs st st', mark_extras h f xs st = Some st' -> sub (fst st) (fst st').
Proof.
  intros h f. induction xs as [|x xs IH]; intros st st' H; simpl in H.
  - inversion H; apply sub_refl.
  - destruct (ref_live (fst st) x); [eauto|].
    destruct (mark_loop h f [x] (fst st)) as [m'|] eqn:ML; [|discriminate].
    apply IH in H; simpl in H. eapply sub_trans; eauto. eapply mark_loop_mono; eauto.
Qed.

Lemma mark_extras_flag : forall h f xs st st', mark_extras h f xs st = Some st' -> snd st = true -> snd st' = true.
Proof.
  intros h f. induction xs as [|x xs IH]; intros st st' H T; simpl in H.
  - inversion H; subst; auto.
  - destruct (ref_live (fst st) x); [eauto|].
    destruct (mark_loop h f [x] (fst st)) as [m'|]; [|discriminate].
    eapply IH; eauto. simpl. rewrite T; auto.
Qed.

Lemma mark_extras_sound : forall h L, strong_closed h L ->
  forall f xs st st', mark_extras h f xs st = Some st' -> within (fst st) L ->
  (forall a, In (Ptr a) xs -> isobj h a -> L a) -> within (fst st') L.
Proof.
  intros h L SC f. induction xs as [|x xs IH]; intros st st' H W HX; simpl in H.
  - inversion H; subst; auto.
  - destruct (ref_live (fst st) x).
    + eapply IH; eauto. intros; apply HX; simpl; auto.
    + destruct (mark_loop h f [x] (fst st)) as [m'|] eqn:ML; [|discriminate].
      eapply IH; eauto; simpl.
      * eapply mark_loop_sound; eauto. intros a [E|[]] Oa. subst. apply HX; simpl; auto.
      * intros; apply HX; simpl; auto.
Qed.

Lemma mark_extras_closed : forall h f xs st st', mark_extras h f xs st = Some st' ->
  closed_ex h (fst st) [] -> closed_ex h (fst st') [].
Proof.
  intros h f. induction xs as [|x xs IH]; intros st st' H C; simpl in H.
  - inversion H; subst; auto.
  - destruct (ref_live (fst st) x); [eauto|].
    destruct (mark_loop h f [x] (fst st)) as [m'|] eqn:ML; [|discriminate].
    eapply IH; eauto; simpl.
    apply mark_loop_closed in ML; [tauto|].
    intros a o b Ma Fa Ib Ob. destruct (C a o b Ma Fa Ib Ob) as [|[]]; auto.
Qed.

(** a slot is settled w.r.t. a mark set: immediate, marked, or not an object of the heap *)
Definition settled (h : objmap) (m : mset) (r : ref) : Prop :=
  ref_live m r = true \/ exists b, r = Ptr b /\ PM.find b h = None.

Lemma mark_extras_quiet : forall h f xs st st', mark_extras h f xs st = Some st' -> snd st' = false ->
  st' = st /\ forall x, In x xs -> settled h (fst st) x.
Proof.
  intros h f. induction xs as [|x xs IH]; intros st st' H Q; simpl in H.
  - inversion H; subst; split; auto. intros x [].
  - destruct (ref_live (fst st) x) eqn:RL.
    + destruct (IH _ _ H Q) as [E S]. split; auto. intros y [<-|I]; auto. left; auto.
    + destruct (mark_loop h f [x] (fst st)) as [m'|] eqn:ML; [|discriminate].
      destruct (ref_live m' x) eqn:RL'.
      * exfalso. assert (T : snd st' = true). { eapply mark_extras_flag; eauto. simpl. apply orb_true_r. }
        rewrite T in Q; discriminate.
      * destruct x as [|a]; [discriminate|]. simpl in RL, RL'.
        destruct (mark_loop_single _ _ _ _ _ ML RL RL') as [-> Fa].
        rewrite orb_false_r in H. replace (fst st, snd st) with st in H by (destruct st; auto).
        destruct (IH _ _ H Q) as [E S]. split; auto. intros y [<-|I]; auto.
        right; eauto.
Qed.

(* ------------------------------------------------------------------ eph_visit / eph_pass / eph_loop *)
Lemma eph_visit_mono : forall h f a st st', eph_visit h f a st = Some st' -> sub (fst st) (fst st').
Proof.
  intros h f a st st' H. unfold eph_visit in H.
  destruct (mem a (fst st)); [|inversion H; apply sub_refl].
  destruct (PM.find a h) as [o|]; [|inversion H; apply sub_refl].
  destruct (weakp o && existsb (ref_live (fst st)) (weak o)); [|inversion H; apply sub_refl].
  eapply mark_extras_mono; eauto.
Qed.

Lemma eph_visit_flag : forall h f a st st', eph_visit h f a st = Some st' -> snd st = true -> snd st' = true.
Proof.
  intros h f a st st' H T. unfold eph_visit in H.
  destruct (mem a (fst st)); [|inversion H; subst; auto].
  destruct (PM.find a h) as [o|]; [|inversion H; subst; auto].
  destruct (weakp o && existsb (ref_live (fst st)) (weak o)); [|inversion H; subst; auto].
  eapply mark_extras_flag; eauto.
Qed.

Lemma existsb_ref_live : forall m L ws, within m L -> existsb (ref_live m) ws = true ->
  In Imm ws \/ exists k, In (Ptr k) ws /\ L k.
Proof.
  intros m L ws W H. apply existsb_exists in H. destruct H as [r [I R]].
  destruct r as [|k]; auto. right; exists k; split; auto.
Qed.

Lemma eph_visit_sound : forall h L, strong_closed h L -> eph_closed h L ->
  forall f a st st', eph_visit h f a st = Some st' -> within (fst st) L -> within (fst st') L.
Proof.
  intros h L SC EC f a st st' H W. unfold eph_visit in H.
  destruct (mem a (fst st)) eqn:Ma; [|inversion H; subst; auto].
  destruct (PM.find a h) as [o|] eqn:Fa; [|inversion H; subst; auto].
  destruct (weakp o && existsb (ref_live (fst st)) (weak o)) eqn:Cnd; [|inversion H; subst; auto].
  apply andb_true_iff in Cnd. destruct Cnd as [Wp Ex].
  eapply mark_extras_sound; eauto.
  intros b Ib Ob. eapply EC; eauto. eapply existsb_ref_live; eauto.
Qed.

Lemma eph_visit_closed : forall h f a st st', eph_visit h f a st = Some st' ->
  closed_ex h (fst st) [] -> closed_ex h (fst st') [].
Proof.
  intros h f a st st' H C. unfold eph_visit in H.
  destruct (mem a (fst st)); [|inversion H; subst; auto].
  destruct (PM.find a h) as [o|]; [|inversion H; subst; auto].
  destruct (weakp o && existsb (ref_live (fst st)) (weak o)); [|inversion H; subst; auto].
  eapply mark_extras_closed; eauto.
Qed.

(** what a visit that changed nothing establishes for that object *)
Definition eph_ok (h : objmap) (m : mset) (a : addr) : Prop :=
  forall o, mem a m = true -> PM.find a h = Some o -> weakp o = true ->
            existsb (ref_live m) (weak o) = true -> forall x, In x (extra o) -> settled h m x.

Lemma eph_visit_quiet : forall h f a st st', eph_visit h f a st = Some st' -> snd st' = false ->
  st' = st /\ eph_ok h (fst st) a.
Proof.
  intros h f a st st' H Q. unfold eph_visit in H. unfold eph_ok.
  destruct (mem a (fst st)) eqn:Ma.
  2:{ inversion H; subst; split; auto. intros; discriminate. }
  destruct (PM.find a h) as [o|] eqn:Fa.
  2:{ inversion H; subst; split; auto. intros; discriminate. }
  destruct (weakp o && existsb (ref_live (fst st)) (weak o)) eqn:Cnd.
  - destruct (mark_extras_quiet _ _ _ _ _ H Q) as [E S]. split; auto.
    intros o' _ Fo' _ _. inversion Fo'; subst; auto.
  - inversion H; subst; split; auto. intros o' _ Fo' Wp Ex. inversion Fo'; subst.
    rewrite Wp, Ex in Cnd; discriminate.
Qed.

Lemma eph_pass_mono : forall h f ord st st', eph_pass h f ord st = Some st' -> sub (fst st) (fst st').
Proof.
  intros h f. induction ord as [|a r IH]; intros st st' H; simpl in H.
  - inversion H; apply sub_refl.
  - destruct (eph_visit h f a st) as [st1|] eqn:V; [|discriminate].
    eapply sub_trans; [eapply eph_visit_mono; eauto | eauto].
Qed.

Lemma eph_pass_flag : forall h f ord st st', eph_pass h f ord st = Some st' -> snd st = true -> snd st' = true.
Proof.
  intros h f. induction ord as [|a r IH]; intros st st' H T; simpl in H.
  - inversion H; subst; auto.
  - destruct (eph_visit h f a st) as [st1|] eqn:V; [|discriminate].
    eapply IH; eauto. eapply eph_visit_flag; eauto.
Qed.

Lemma eph_pass_sound : forall h L, strong_closed h L -> eph_closed h L ->
  forall f ord st st', eph_pass h f ord st = Some st' -> within (fst st) L -> within (fst st') L.
Proof.
  intros h L SC EC f. induction ord as [|a r IH]; intros st st' H W; simpl in H.
  - inversion H; subst; auto.
  - destruct (eph_visit h f a st) as [st1|] eqn:V; [|discriminate].
    eapply IH; eauto. eapply eph_visit_sound; eauto.
Qed.

Lemma eph_pass_closed : forall h f ord st st', eph_pass h f ord st = Some st' ->
  closed_ex h (fst st) [] -> closed_ex h (fst st') [].
Proof.
  intros h f. induction ord as [|a r IH]; intros st st' H C; simpl in H.
  - inversion H; subst; auto.
  - destruct (eph_visit h f a st) as [st1|] eqn:V; [|discriminate].
    eapply IH; eauto. eapply eph_visit_closed; eauto.
Qed.

Lemma eph_pass_quiet : forall h f ord st st', eph_pass h f ord st = Some st' -> snd st' = false ->
  st' = st /\ forall a, In a ord -> eph_ok h (fst st) a.
Proof.
  intros h f. induction ord as [|a r IH]; intros st st' H Q; simpl in H.
  - inversion H; subst; split; auto. intros a [].
  - destruct (eph_visit h f a st) as [st1|] eqn:V; [|discriminate].
    destruct (IH _ _ H Q) as [E S]. subst st'.
    destruct (eph_visit_quiet _ _ _ _ _ V Q) as [E1 S1]. subst st1.
    split; auto. intros b [<-|I]; auto.
Qed.

Lemma eph_loop_spec : forall h L, strong_closed h L -> eph_closed h L ->
  forall f ord passes m m', eph_loop h f ord passes m = Some m' ->
  sub m m' /\ (within m L -> within m' L) /\ (closed_ex h m [] -> closed_ex h m' []) /\
  (forall a, In a ord -> eph_ok h m' a).
Proof.
  intros h L SC EC f ord. induction passes as [|p IH]; intros m m' H; simpl in H; [discriminate|].
  destruct (eph_pass h f ord (m, false)) as [[m1 [|]]|] eqn:P; [| |discriminate].
  - destruct (IH _ _ H) as [S [W [C O]]].
    pose proof (eph_pass_mono _ _ _ _ _ P) as S1. pose proof (eph_pass_sound _ _ SC EC _ _ _ _ P) as W1.
    pose proof (eph_pass_closed _ _ _ _ _ P) as C1. simpl in *.
    repeat split; auto. eapply sub_trans; eauto.
  - inversion H; subst m1. destruct (eph_pass_quiet _ _ _ _ _ P eq_refl) as [E O].
    inversion E; subst m'. simpl in O. repeat split; auto. apply sub_refl.
Qed.

(* ------------------------------------------------------------------ the collector marks exactly the live set *)
Lemma live_isobj : forall h roots a, live h roots a -> isobj h a.
Proof. intros h roots a H; destruct H; auto. Qed.

Lemma live_strong_closed : forall h roots, strong_closed h (live h roots).
Proof. intros h roots a o b; intros; eapply live_strong; eauto. Qed.

Lemma live_eph_closed : forall h roots, eph_closed h (live h roots).
Proof.
  intros h roots e o b Le Fe Wp [I|[k [I Lk]]] Ib Ob.
  - apply (live_extra_imm _ _ e o b); assumption.
  - apply (live_extra_key _ _ e o k b); assumption.
Qed.

Lemma sreach_live : forall h roots a, sreach h roots a -> live h roots a.
Proof.
  intros h roots a H; induction H.
  - apply live_root; auto.
  - eapply live_strong; eauto.
Qed.

(** every object of the heap is met by the heap walk *)
Definition order_complete (h : heap) : Prop := forall a, isobj (objs h) a -> In a (order h).

Definition marks (fuel passes : nat) (h : heap) (roots : list ref) : option mset :=
  match mark_loop (objs h) fuel roots (PM.empty unit) with
  | None => None
  | Some m0 => eph_loop (objs h) fuel (order h) passes m0
  end.

Lemma marks_exact : forall fuel passes h roots m, order_complete h ->
  marks fuel passes h roots = Some m -> forall a, mem a m = true <-> live (objs h) roots a.
Proof.
  intros fuel passes h roots m OC H. unfold marks in H.
  destruct (mark_loop (objs h) fuel roots (PM.empty unit)) as [m0|] eqn:ML; [|discriminate].
  pose proof (live_strong_closed (objs h) roots) as SC. pose proof (live_eph_closed (objs h) roots) as EC.
  destruct (eph_loop_spec _ _ SC EC _ _ _ _ _ H) as [S [W [C O]]].
  assert (W0 : within m0 (live (objs h) roots)).
  { eapply mark_loop_sound; eauto.
    - intros a Ma. rewrite mem_empty in Ma; discriminate.
    - intros a Ia Oa. apply live_root; auto. }
  destruct (mark_loop_closed _ _ _ _ _ ML) as [C0 R0].
  { intros a o b Ma. rewrite mem_empty in Ma; discriminate. }
  specialize (W W0). specialize (C C0).
  intros a; split; [apply W|].
  intros La. induction La as [a Ia Oa | a o b La IHa Fa Ib Ob | e o b Le IHe Fe Wp Ik Ib Ob | e o k b Le IHe Fe Wp Ik Lk IHk Ib Ob].
  - apply S. apply R0; auto.
  - destruct (C a o b IHa Fa Ib Ob) as [|[]]; auto.
  - assert (Ie : In e (order h)). { apply OC. unfold isobj; rewrite Fe; discriminate. }
    assert (Ex : existsb (ref_live m) (weak o) = true). { apply existsb_exists. exists Imm; split; auto. }
    destruct (O e Ie o IHe Fe Wp Ex (Ptr b) Ib) as [Hs|[b' [E Fb]]]; auto.
    inversion E; subst. exfalso; apply Ob; auto.
  - assert (Ie : In e (order h)). { apply OC. unfold isobj; rewrite Fe; discriminate. }
    assert (Ex : existsb (ref_live m) (weak o) = true). { apply existsb_exists. exists (Ptr k); split; auto. }
    destruct (O e Ie o IHe Fe Wp Ex (Ptr b) Ib) as [Hs|[b' [E Fb]]]; auto.
    inversion E; subst. exfalso; apply Ob; auto.
Qed.
