(** C16 — what a whole collection does to the heap: which objects stay, what weak objects look like. *)
From Coq Require Import ZArith List Bool PArith FMapPositive Lia.
From ChibiV Require Import C16.Model C16.Spec C16.Proofs.
Import ListNotations.

(* ------------------------------------------------------------------ weak_reset, sweep *)
Lemma find_weak_reset : forall m h a,
  PM.find a (weak_reset m h) = option_map (fun o => if mem a m then reset_obj m o else o) (PM.find a h).
Proof. intros; unfold weak_reset; rewrite PM.gmapi; reflexivity. Qed.

Lemma find_sweep : forall m h a, PM.find a (sweep m h) = sweep_f (PM.find a h) (PM.find a m).
Proof. intros; unfold sweep; rewrite PM.gmap2; reflexivity. Qed.

Lemma find_sweep_marked : forall m h a, mem a m = true -> PM.find a (sweep m h) = PM.find a h.
Proof.
  intros m h a M. rewrite find_sweep. unfold mem in M. destruct (PM.find a m); [|discriminate].
  destruct (PM.find a h); reflexivity.
Qed.

Lemma find_sweep_unmarked : forall m h a, mem a m = false -> PM.find a (sweep m h) = None.
Proof.
  intros m h a M. rewrite find_sweep. unfold mem in M. destruct (PM.find a m); [discriminate|].
  destruct (PM.find a h); reflexivity.
Qed.

(* ------------------------------------------------------------------ finalisers only touch [kind] *)
Definition shape (o : obj) := (strong o, weakp o, weak o, extra o, brokenp o).
Definition same_shape (h h' : objmap) : Prop :=
  forall a, option_map shape (PM.find a h) = option_map shape (PM.find a h').

Lemma same_shape_refl : forall h, same_shape h h. Proof. intros h a; reflexivity. Qed.
Lemma same_shape_trans : forall a b c, same_shape a b -> same_shape b c -> same_shape a c.
Proof. intros a b c H1 H2 x; rewrite H1; apply H2. Qed.

Lemma same_shape_add : forall h f o k, PM.find f h = Some o -> same_shape h (PM.add f (set_kind o k) h).
Proof.
  intros h f o k F a. destruct (Pos.eq_dec f a) as [->|N].
  - rewrite PM.gss, F. reflexivity.
  - rewrite PM.gso; auto.
Qed.

Lemma finalize_fileno_shape : forall h log f, same_shape h (fst (finalize_fileno h log f)).
Proof.
  intros h log f. unfold finalize_fileno.
  destruct (PM.find f h) as [o|] eqn:F; [|apply same_shape_refl].
  destruct (kind o) as [| |op nc fd c]; try apply same_shape_refl.
  destruct op; [|apply same_shape_refl]. destruct nc; [apply same_shape_refl|].
  simpl. apply same_shape_add; auto.
Qed.

Lemma finalize_port_shape : forall h log p, same_shape h (fst (finalize_port h log p)).
Proof.
  intros h log p. unfold finalize_port.
  destruct (PM.find p h) as [o|] eqn:F; [|apply same_shape_refl].
  destruct (kind o) as [|op nc st|]; try apply same_shape_refl.
  destruct op; [|apply same_shape_refl].
  pose proof (same_shape_add h p o (KPort false nc st) F) as S1.
  set (h1 := PM.add p (set_kind o (KPort false nc st)) h) in *.
  assert (S2 : forall h2 l2,
             (match port_fd o with
              | Ptr f => match PM.find f h1 with
                         | Some fo => match kind fo with
                                      | KFileno true fnc fd cnt =>
                                        if nc then (h1, log)
                                        else let h1' := PM.add f (set_kind fo (KFileno true fnc fd (cnt - 1))) h1 in
                                             if (cnt - 1 =? 0)%Z then finalize_fileno h1' log f else (h1', log)
                                      | _ => (h1, log)
                                      end
                         | None => (h1, log)
                         end
              | Imm => (h1, log)
              end) = (h2, l2) -> same_shape h h2).
  { intros h2 l2 E. destruct (port_fd o) as [|f]; [inversion E; subst; auto|].
    destruct (PM.find f h1) as [fo|] eqn:Ff; [|inversion E; subst; auto].
    destruct (kind fo) as [| |fop fnc fd cnt]; try (inversion E; subst; auto; fail).
    destruct fop; [|inversion E; subst; auto].
    destruct nc; [inversion E; subst; auto|].
    pose proof (same_shape_add h1 f fo (KFileno true fnc fd (cnt - 1)) Ff) as S3.
    cbv zeta in E. destruct (cnt - 1 =? 0)%Z.
    - pose proof (finalize_fileno_shape (PM.add f (set_kind fo (KFileno true fnc fd (cnt - 1))) h1) log f) as S4.
      rewrite E in S4. simpl in S4. eapply same_shape_trans; eauto. eapply same_shape_trans; eauto.
    - inversion E; subst. eapply same_shape_trans; eauto. }
  match goal with |- context [let '(a, b) := ?X in _] => destruct X as [h2 l2] eqn:E end.
  specialize (S2 _ _ eq_refl).
  destruct st as [s|]; [destruct nc|]; simpl; auto.
Qed.

Lemma finalize_one_shape : forall m st a, same_shape (fst st) (fst (finalize_one m st a)).
Proof.
  intros m st a. unfold finalize_one. destruct (mem a m); [apply same_shape_refl|].
  destruct (PM.find a (fst st)) as [o|]; [|apply same_shape_refl].
  destruct (kind o).
  - apply same_shape_refl.
  - apply finalize_port_shape.
  - apply finalize_fileno_shape.
Qed.

Lemma finalize_shape : forall m ord h log, same_shape h (fst (finalize m h log ord)).
Proof.
  intros m. unfold finalize. induction ord as [|a r IH]; intros h log; simpl.
  - apply same_shape_refl.
  - destruct (finalize_one m (h, log) a) as [h1 l1] eqn:E.
    pose proof (finalize_one_shape m (h, log) a) as S. rewrite E in S. simpl in S.
    eapply same_shape_trans; [exact S | apply IH].
Qed.

(* ------------------------------------------------------------------ the collection as a whole *)
Lemma gc_unfold : forall fuel passes h roots log h' log' m,
  gc fuel passes h roots log = Some (h', log', m) ->
  marks fuel passes h roots = Some m /\
  objs h' = sweep m (fst (finalize m (weak_reset m (objs h)) log (order h))) /\
  order h' = filter (fun a => mem a m) (order h) /\
  log' = snd (finalize m (weak_reset m (objs h)) log (order h)).
Proof.
  intros fuel passes h roots log h' log' m H. unfold gc in H. unfold marks.
  destruct (mark_loop (objs h) fuel roots (PM.empty unit)) as [m0|]; [|discriminate].
  destruct (eph_loop (objs h) fuel (order h) passes m0) as [m1|]; [|discriminate].
  destruct (finalize m1 (weak_reset m1 (objs h)) log (order h)) as [h2 l2] eqn:F.
  inversion H; subst. rewrite F. simpl. auto.
Qed.

(** every object after the collection: gone iff not live; otherwise it has the shape weak_reset gave it *)
Lemma gc_object : forall fuel passes h roots log h' log' m,
  order_complete h -> gc fuel passes h roots log = Some (h', log', m) ->
  forall a,
    (live (objs h) roots a ->
       forall o, PM.find a (objs h) = Some o ->
       exists o', PM.find a (objs h') = Some o' /\ shape o' = shape (reset_obj m o)) /\
    (~ live (objs h) roots a -> PM.find a (objs h') = None).
Proof.
  intros fuel passes h roots log h' log' m OC H a.
  destruct (gc_unfold _ _ _ _ _ _ _ _ H) as [M [O [_ _]]].
  pose proof (marks_exact _ _ _ _ _ OC M a) as EX. rewrite O. split.
  - intros La o Fa. apply EX in La. rewrite find_sweep_marked; auto.
    pose proof (finalize_shape m (order h) (weak_reset m (objs h)) log a) as S.
    rewrite find_weak_reset, Fa, La in S. simpl in S.
    destruct (PM.find a (fst (finalize m (weak_reset m (objs h)) log (order h)))) as [o'|]; [|discriminate].
    exists o'. split; auto. simpl in S. inversion S. unfold shape. congruence.
  - intros NL. apply find_sweep_unmarked. destruct (mem a m) eqn:Ma; auto. exfalso; apply NL, EX; auto.
Qed.

Lemma reset_obj_nonweak : forall m o, weakp o = false -> reset_obj m o = o.
Proof. intros m o W; unfold reset_obj; rewrite W; reflexivity. Qed.

Lemma shape_strong : forall o o', shape o' = shape o -> strong o' = strong o.
Proof. intros o o' H; unfold shape in H; inversion H; auto. Qed.

Lemma reset_obj_strong : forall m o, strong (reset_obj m o) = strong o.
Proof. intros m o; unfold reset_obj; destruct (weakp o); reflexivity. Qed.

(** the retained set is exactly the SPEC's live set *)
Lemma gc_retains_exactly_live_l : forall fuel passes h roots log h' log' m,
  order_complete h -> gc fuel passes h roots log = Some (h', log', m) ->
  forall a, isobj (objs h') a <-> live (objs h) roots a.
Proof.
  intros fuel passes h roots log h' log' m OC H a.
  destruct (gc_object _ _ _ _ _ _ _ _ OC H a) as [G1 G2].
  destruct (gc_unfold _ _ _ _ _ _ _ _ H) as [M _].
  pose proof (marks_exact _ _ _ _ _ OC M a) as EX.
  split.
  - intros I. destruct (mem a m) eqn:Ma; [apply EX; auto|].
    exfalso. apply I. apply G2. intros L. apply EX in L. congruence.
  - intros L. pose proof (live_isobj _ _ _ L) as Oa. unfold isobj in Oa.
    destruct (PM.find a (objs h)) as [o|] eqn:Fa; [|congruence].
    destruct (G1 L o eq_refl) as [o' [F' _]]. unfold isobj; rewrite F'; discriminate.
Qed.

(** live objects keep their strong slots (nothing reachable is corrupted by the weak passes) *)
Lemma gc_live_strong_kept : forall fuel passes h roots log h' log' m,
  order_complete h -> gc fuel passes h roots log = Some (h', log', m) ->
  forall a o, live (objs h) roots a -> PM.find a (objs h) = Some o ->
  exists o', PM.find a (objs h') = Some o' /\ strong o' = strong o.
Proof.
  intros fuel passes h roots log h' log' m OC H a o L F.
  destruct (gc_object _ _ _ _ _ _ _ _ OC H a) as [G1 _].
  destruct (G1 L o F) as [o' [F' S]]. exists o'; split; auto.
  apply shape_strong in S. rewrite S. apply reset_obj_strong.
Qed.

(* ------------------------------------------------------------------ ephemerons *)
(** an ephemeron: one weak slot (the key) and its extra slots (the value) *)
Lemma key_broken_iff_unreachable_l : forall fuel passes h roots log h' log' m e o k,
  order_complete h -> gc fuel passes h roots log = Some (h', log', m) ->
  live (objs h) roots e -> PM.find e (objs h) = Some o -> weakp o = true -> weak o = [Ptr k] ->
  exists o', PM.find e (objs h') = Some o' /\
    (live (objs h) roots k -> weak o' = [Ptr k] /\ extra o' = extra o /\ brokenp o' = brokenp o) /\
    (~ live (objs h) roots k -> weak o' = [Imm] /\ extra o' = map (fun _ => Imm) (extra o) /\ brokenp o' = true).
Proof.
  intros fuel passes h roots log h' log' m e o k OC H Le Fe Wp Wk.
  destruct (gc_object _ _ _ _ _ _ _ _ OC H e) as [G1 _].
  destruct (G1 Le o Fe) as [o' [F' S]]. exists o'. split; auto.
  destruct (gc_unfold _ _ _ _ _ _ _ _ H) as [M _].
  pose proof (marks_exact _ _ _ _ _ OC M k) as EX.
  unfold shape, reset_obj in S. rewrite Wp, Wk in S. simpl in S. unfold ref_dead in S. simpl in S.
  split; intros Lk.
  - apply EX in Lk. rewrite Lk in S. simpl in S. rewrite orb_false_r in S. inversion S; auto.
  - assert (Mk : mem k m = false). { destruct (mem k m) eqn:Mk; auto. exfalso; apply Lk, EX; auto. }
    rewrite Mk in S. simpl in S. rewrite orb_true_r in S. inversion S; auto.
Qed.

Lemma broken_only_after_unreachable_l : forall fuel passes h roots log h' log' m e o k,
  order_complete h -> gc fuel passes h roots log = Some (h', log', m) ->
  live (objs h) roots e -> PM.find e (objs h) = Some o -> weakp o = true -> weak o = [Ptr k] ->
  sreach (objs h) roots k ->
  exists o', PM.find e (objs h') = Some o' /\ weak o' = [Ptr k] /\ extra o' = extra o /\ brokenp o' = brokenp o.
Proof.
  intros fuel passes h roots log h' log' m e o k OC H Le Fe Wp Wk Sk.
  destruct (key_broken_iff_unreachable_l _ _ _ _ _ _ _ _ _ _ _ OC H Le Fe Wp Wk) as [o' [F' [A _]]].
  exists o'. split; [exact F' | exact (A (sreach_live _ _ _ Sk))].
Qed.

(** strong paths from an object *)
Inductive reach_from (h : objmap) (v : addr) : addr -> Prop :=
| rf_refl : isobj h v -> reach_from h v v
| rf_step : forall a o b, reach_from h v a -> PM.find a h = Some o -> In (Ptr b) (strong o) -> isobj h b ->
                          reach_from h v b.

Lemma live_reach_from : forall h roots v b, live h roots v -> reach_from h v b -> live h roots b.
Proof.
  intros h roots v b Lv R. induction R; auto. eapply live_strong; eauto.
Qed.

Lemma value_retained_while_key_live_l : forall fuel passes h roots log h' log' m e o v,
  order_complete h -> gc fuel passes h roots log = Some (h', log', m) ->
  live (objs h) roots e -> PM.find e (objs h) = Some o -> weakp o = true ->
  (In Imm (weak o) \/ exists k, In (Ptr k) (weak o) /\ live (objs h) roots k) ->
  In (Ptr v) (extra o) -> isobj (objs h) v ->
  (exists o', PM.find e (objs h') = Some o' /\ extra o' = extra o) /\
  forall b ob, reach_from (objs h) v b -> PM.find b (objs h) = Some ob ->
    exists ob', PM.find b (objs h') = Some ob' /\ strong ob' = strong ob.
Proof.
  intros fuel passes h roots log h' log' m e o v OC H Le Fe Wp K Iv Ov.
  assert (Lv : live (objs h) roots v).
  { destruct K as [I|[k [I Lk]]].
    - apply (live_extra_imm _ _ e o v); auto.
    - apply (live_extra_key _ _ e o k v); auto. }
  split.
  - destruct (gc_object _ _ _ _ _ _ _ _ OC H e) as [G1 _].
    destruct (G1 Le o Fe) as [o' [F' S]]. exists o'; split; auto.
    destruct (gc_unfold _ _ _ _ _ _ _ _ H) as [M _].
    pose proof (marks_exact _ _ _ _ _ OC M) as EX.
    unfold shape, reset_obj in S. rewrite Wp in S. simpl in S.
    assert (A : forallb (ref_dead m) (weak o) = false).
    { apply not_true_is_false. intros A. rewrite forallb_forall in A.
      destruct K as [I|[k [I Lk]]].
      - specialize (A _ I). discriminate.
      - specialize (A _ I). unfold ref_dead in A. simpl in A. apply EX in Lk. rewrite Lk in A. discriminate. }
    rewrite A in S. inversion S; auto.
  - intros b ob R Fb. eapply gc_live_strong_kept; eauto. eapply live_reach_from; eauto.
Qed.

(** when every weak slot (the key) is dead the extra slots (the value) are cleared, so nothing is retained
    through this object; and by gc_retains_exactly_live the retained set is the live set, whose definition
    only goes through the extras of objects with a live key *)
Lemma value_not_retained_by_dead_key_l : forall fuel passes h roots log h' log' m e o,
  order_complete h -> gc fuel passes h roots log = Some (h', log', m) ->
  live (objs h) roots e -> PM.find e (objs h) = Some o -> weakp o = true ->
  (forall r, In r (weak o) -> ~ rlive (objs h) roots r) ->
  exists o', PM.find e (objs h') = Some o' /\ extra o' = map (fun _ => Imm) (extra o) /\
             Forall (fun r => r = Imm) (weak o') /\ (weak o <> [] -> brokenp o' = true).
Proof.
  intros fuel passes h roots log h' log' m e o OC H Le Fe Wp D.
  destruct (gc_object _ _ _ _ _ _ _ _ OC H e) as [G1 _].
  destruct (G1 Le o Fe) as [o' [F' S]]. exists o'; split; auto.
  destruct (gc_unfold _ _ _ _ _ _ _ _ H) as [M _].
  pose proof (marks_exact _ _ _ _ _ OC M) as EX.
  assert (DD : forall r, In r (weak o) -> ref_live m r = false).
  { intros r I. specialize (D r I). destruct r as [|a]; simpl in *; [exfalso; auto|].
    destruct (mem a m) eqn:Ma; auto. exfalso; apply D, EX; auto. }
  assert (A : forallb (ref_dead m) (weak o) = true).
  { apply forallb_forall. intros r I. unfold ref_dead. rewrite DD; auto. }
  unfold shape, reset_obj in S. rewrite Wp, A in S. simpl in S.
  assert (E1 : weak o' = map (fun r => if ref_live m r then r else Imm) (weak o)) by congruence.
  assert (E2 : extra o' = map (fun _ : ref => Imm) (extra o)) by congruence.
  assert (E3 : brokenp o' = (brokenp o || existsb (ref_dead m) (weak o))) by congruence.
  split; auto. split.
  - apply Forall_forall. intros r I. rewrite E1 in I. apply in_map_iff in I. destruct I as [r0 [E I0]].
    rewrite DD in E; auto.
  - intros NE. rewrite E3. destruct (weak o) as [|r w] eqn:W; [congruence|]. simpl.
    unfold ref_dead at 1. rewrite (DD r); simpl; auto. apply orb_true_r.
Qed.

(** the dead key's ephemeron does not contribute to liveness: clearing its extra slots BEFORE the collection
    would give the same live set *)
Definition without_extras (h : objmap) (e : addr) (o : obj) : objmap :=
  PM.add e (mkObj (strong o) (weakp o) (weak o) [] (brokenp o) (kind o)) h.

Lemma isobj_without_extras : forall h e o a, PM.find e h = Some o -> (isobj (without_extras h e o) a <-> isobj h a).
Proof.
  intros h e o a F. unfold isobj, without_extras. destruct (Pos.eq_dec e a) as [->|N].
  - rewrite PM.gss, F. split; intros; discriminate.
  - rewrite PM.gso; auto. tauto.
Qed.

Lemma dead_key_extras_irrelevant_l : forall h roots e o, PM.find e h = Some o ->
  (forall r, In r (weak o) -> ~ rlive h roots r) ->
  forall b, live h roots b <-> live (without_extras h e o) roots b.
Proof.
  intros h roots e o Fe D b. pose proof (isobj_without_extras h e o) as IO. split; intros L.
  - induction L as [a Ia Oa | a oa b La IHa Fa Ib Ob | e1 o1 b Le IHe F1 Wp Ik Ib Ob | e1 o1 k b Le IHe F1 Wp Ik Lk IHk Ib Ob].
    + apply live_root; auto. apply IO; auto.
    + destruct (Pos.eq_dec e a) as [->|N].
      * rewrite Fe in Fa; inversion Fa; subst oa.
        apply (live_strong _ _ a (mkObj (strong o) (weakp o) (weak o) [] (brokenp o) (kind o)) b); auto.
        -- unfold without_extras; rewrite PM.gss; auto.
        -- apply IO; auto.
      * apply (live_strong _ _ a oa b); auto.
        -- unfold without_extras; rewrite PM.gso; auto.
        -- apply IO; auto.
    + destruct (Pos.eq_dec e e1) as [->|N].
      * rewrite Fe in F1; inversion F1; subst o1. exfalso. apply (D Imm Ik). simpl; auto.
      * apply (live_extra_imm _ _ e1 o1 b); auto.
        -- unfold without_extras; rewrite PM.gso; auto.
        -- apply IO; auto.
    + destruct (Pos.eq_dec e e1) as [->|N].
      * rewrite Fe in F1; inversion F1; subst o1. exfalso. apply (D (Ptr k) Ik). simpl; auto.
      * apply (live_extra_key _ _ e1 o1 k b); auto.
        -- unfold without_extras; rewrite PM.gso; auto.
        -- apply IO; auto.
  - induction L as [a Ia Oa | a oa b La IHa Fa Ib Ob | e1 o1 b Le IHe F1 Wp Ik Ib Ob | e1 o1 k b Le IHe F1 Wp Ik Lk IHk Ib Ob].
    + apply live_root; auto. apply IO; auto.
    + destruct (Pos.eq_dec e a) as [->|N].
      * unfold without_extras in Fa; rewrite PM.gss in Fa; inversion Fa; subst oa. simpl in Ib.
        apply (live_strong _ _ a o b); auto. apply IO; auto.
      * unfold without_extras in Fa; rewrite PM.gso in Fa; auto.
        apply (live_strong _ _ a oa b); auto. apply IO; auto.
    + destruct (Pos.eq_dec e e1) as [->|N].
      * unfold without_extras in F1; rewrite PM.gss in F1; inversion F1; subst o1. simpl in Ib. destruct Ib.
      * unfold without_extras in F1; rewrite PM.gso in F1; auto.
        apply (live_extra_imm _ _ e1 o1 b); auto. apply IO; auto.
    + destruct (Pos.eq_dec e e1) as [->|N].
      * unfold without_extras in F1; rewrite PM.gss in F1; inversion F1; subst o1. simpl in Ib. destruct Ib.
      * unfold without_extras in F1; rewrite PM.gso in F1; auto.
        apply (live_extra_key _ _ e1 o1 k b); auto. apply IO; auto.
Qed.
