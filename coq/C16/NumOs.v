(** C16 — number-level OS model.  History.v names descriptors by INSTANCE (never reused), which is sound as long as every
    close goes through the owner object (FdOnce.v).  Here the objects hold descriptor NUMBERS, the OS keeps a table
    number -> open file instance and hands out the lowest free number, so that operations on a number whose owner object
    no longer owns it are inside the model:
      - (close-file-descriptor N) on a raw INTEGER (the fileno object that holds N is not told),
      - close-file-descriptor / duplicate-file-descriptor / duplicate-file-descriptor-to on a fileno object that is
        already closed (its stale number may be free — EBADF — or belong to somebody else),
      so two fileno objects can hold the same number, and the finaliser of the stale one can close the other's descriptor
      (what the property forbids the COLLECTOR to cause on its own: FdOnce.v; here it is the program's doing).
    The unify-by-number table of sexp_make_fileno is compiled out (SEXP_USE_UNIFY_FILENOS_BY_NUMBER = 0, checked by the probe).
    The object-level transitions are those of History.step / Model.v with [fd] read as a number; every close(number) call
    they log is then applied to the table ([settle]).  Executable; NO proofs (NumOsProofs.v). *)
From Coq Require Import ZArith List Bool PArith FMapPositive.
From ChibiV Require Import C16.Model C16.History.
Import ListNotations.
Local Open Scope Z_scope.

Definition table := list (Z * Z).          (* open number |-> file instance *)

Fixpoint tab_find (n : Z) (t : table) : option Z :=
  match t with
  | [] => None
  | (k, i) :: r => if k =? n then Some i else tab_find n r
  end.

Fixpoint tab_remove (n : Z) (t : table) : table :=
  match t with
  | [] => []
  | (k, i) :: r => if k =? n then tab_remove n r else (k, i) :: tab_remove n r
  end.

(** open(2) / dup(2) / pipe(2) / socketpair(2): the lowest number that is not open.  Among 0..|t| one is free; should the
    search run out (it cannot when the keys are distinct) any number above every key is taken. *)
Fixpoint max_key (t : table) : Z :=
  match t with
  | [] => -1
  | (k, _) :: r => Z.max k (max_key r)
  end.
Fixpoint lowest_from (k : nat) (n : Z) (t : table) : Z :=
  match k with
  | O => Z.max n (1 + max_key t)
  | S k' => match tab_find n t with Some _ => lowest_from k' (n + 1) t | None => n end
  end.
Definition lowest_free (t : table) : Z := lowest_from (length t) 0 t.

Record nstate := mkN {
  ist : state;                 (* History.state; every fd field and every entry of oslog is a NUMBER *)
  tab : table;
  ninst : Z;                   (* next fresh file instance *)
  rel : list Z;                (* instances released (close on an open number, or dup2 over it), oldest first *)
  ebadf : nat;                 (* close / dup calls that hit a number that was not open *)
  seen : nat;                  (* how many entries of oslog have been applied to the table *)
  owners : list (Z * addr) }.  (* instance |-> the object (fileno or stream port) it was opened for *)

(** close(n) *)
Definition os_close (n : Z) (ns : table * list Z * nat) : table * list Z * nat :=
  let '(t, r, e) := ns in
  match tab_find n t with
  | Some i => (tab_remove n t, r ++ [i], e)
  | None => (t, r, S e)
  end.

(** apply the close(number) calls the object-level machine has logged since the last settle, in order *)
Definition settle (ns : nstate) (st : state) : nstate :=
  let '(t, r, e) := fold_left (fun acc n => os_close n acc) (skipn (seen ns) (oslog st)) (tab ns, rel ns, ebadf ns) in
  mkN st t (ninst ns) r e (length (oslog st)) (owners ns).

Definition with_nextfd (st : state) (n : Z) : state :=
  mkState (hp st) (slots st) (obs st) (oslog st) (next st) n (fuel st).
Definition with_heap (st : state) (h : objmap) : state :=
  mkState (mkHeap h (order (hp st))) (slots st) (obs st) (oslog st) (next st) (nextfd st) (fuel st).
Definition log_close (st : state) (n : Z) : state :=
  mkState (hp st) (slots st) (obs st) (oslog st ++ [n]) (next st) (nextfd st) (fuel st).
(** the harness numbers the objects a history creates; an operation that was to create one but did not still uses a number *)
Definition skip_id (st : state) : state :=
  mkState (hp st) (slots st) (obs st) (oslog st) (Pos.succ (next st)) (nextfd st) (fuel st).

(** sexp_make_fileno_op (sexp.c) on a number n just handed out by the OS: a new fileno object (the build has
    SEXP_USE_UNIFY_FILENOS_BY_NUMBER = 0, pinned by gen/c16_layout.py's probe: no lookup of an existing object by number) *)
Definition make_fileno (i : nat) (n : Z) (st : state) : state := open_fileno i (with_nextfd st n).

(** a descriptor is opened and wrapped: lowest free number, fresh instance *)
Definition os_open_fileno (i : nat) (ns : nstate) : nstate :=
  let n := lowest_free (tab ns) in
  let st' := make_fileno i n (ist ns) in
  mkN st' ((n, ninst ns) :: tab ns) (ninst ns + 1) (rel ns) (ebadf ns) (seen ns)
      (match slot st' i with Ptr a => (ninst ns, a) :: owners ns | Imm => owners ns end).

(** the number held by the fileno object in R[i], whatever its state *)
Definition fileno_number (st : state) (i : nat) : option (addr * Z) :=
  match slot st i with
  | Ptr f => match PM.find f (objs (hp st)) with
             | Some fo => match kind fo with KFileno _ _ fd _ => Some (f, fd) | _ => None end
             | None => None
             end
  | Imm => None
  end.

Inductive nop :=
| NOp (o : op)              (* an operation of History.v *)
| NRawClose (i : nat).      (* (close-file-descriptor N), N = the integer held by the fileno object R[i]: the object is not told *)

Definition nstep (o : nop) (ns : nstate) : option nstate :=
  let st := ist ns in
  match o with
  | NRawClose i =>
      match fileno_number st i with
      | Some (_, n) => Some (settle ns (log_close st n))
      | None => Some ns
      end
  | NOp (OFileno i) => Some (os_open_fileno i ns)
  | NOp (OOpenFile i) =>       (* a stream port on a fresh number (the link sexp_make_input_port makes to an open fileno object
                                  holding the same number is NOT modelled: the generator does not open stream ports after raw closes) *)
      let n := lowest_free (tab ns) in
      match step (OOpenFile i) (with_nextfd st n) with
      | Some st' => Some (mkN st' ((n, ninst ns) :: tab ns) (ninst ns + 1) (rel ns) (ebadf ns) (seen ns)
                              (match slot st' i with Ptr a => (ninst ns, a) :: owners ns | Imm => owners ns end))
      | None => None
      end
  | NOp (OCloseFd i) =>        (* sexp_close_file_descriptor on a fileno object, open or not: openp := 0; close(number) *)
      match fileno_number st i with
      | Some (f, n) =>
          match PM.find f (objs (hp st)) with
          | Some fo => match kind fo with
                       | KFileno _ nc fd c => Some (settle ns (log_close (with_heap st (PM.add f (set_kind fo (KFileno false nc fd c)) (objs (hp st)))) n))
                       | _ => Some ns
                       end
          | None => Some ns
          end
      | None => Some ns
      end
  | NOp (ODup i f) =>          (* dup(number of R[f]): EBADF when that number is not open (R[i] := #f) *)
      match fileno_number st f with
      | Some (_, n) =>
          match tab_find n (tab ns) with
          | Some _ => Some (os_open_fileno i ns)
          | None => Some (mkN (skip_id (with_slot st i Imm)) (tab ns) (ninst ns) (rel ns) (S (ebadf ns)) (seen ns) (owners ns))
          end
      | None => Some ns
      end
  | NOp (ODupTo a b) =>        (* dup2(number of R[a], number of R[b]): the file R[b]'s number named, if any, is released by the OS *)
      match fileno_number st a, fileno_number st b with
      | Some (_, na), Some (fb, nb) =>
          match tab_find na (tab ns) with
          | Some _ =>
              if na =? nb then Some ns
              else let '(t, r, e) := match tab_find nb (tab ns) with
                                     | Some _ => os_close nb (tab ns, rel ns, ebadf ns)
                                     | None => (tab ns, rel ns, ebadf ns)
                                     end in
                   Some (mkN st ((nb, ninst ns) :: t) (ninst ns + 1) r e (seen ns) ((ninst ns, fb) :: owners ns))
          | None => Some (mkN st (tab ns) (ninst ns) (rel ns) (S (ebadf ns)) (seen ns) (owners ns))
          end
      | _, _ => Some ns
      end
  | NOp o' =>                  (* everything else: the object-level transition, then its close calls hit the table *)
      match step o' st with
      | Some st' => Some (settle ns st')
      | None => None
      end
  end.

Fixpoint nrun (ops : list nop) (ns : nstate) : option nstate :=
  match ops with
  | [] => Some ns
  | o :: r => match nstep o ns with None => None | Some ns' => nrun r ns' end
  end.

Definition ninit (nslots fuel : nat) : nstate := mkN (init nslots fuel) [] 0 [] O O [].

(** the instance a number names right now *)
Definition names (ns : nstate) (n : Z) : option Z := tab_find n (tab ns).
