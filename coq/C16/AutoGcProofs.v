(** C16 — proofs about AutoGc.v: automatic collections at any allocation, and the two edits of the gate protocol. *)
From Coq Require Import ZArith List Bool PArith FMapPositive Lia.
From ChibiV Require Import C16.Model C16.Spec C16.History C16.HistProofs C16.Gate C16.GateProofs C16.AutoGc.
Import ListNotations.

Lemma has_weak_false : forall h, has_weak h = false -> no_weak h.
Proof.
  intros h H a o F. destruct (weakp o) eqn:W; auto. exfalso.
  assert (E : has_weak h = true).
  { unfold has_weak. apply existsb_exists. exists (a, o). split; [apply PM.elements_correct; exact F | exact W]. }
  congruence.
Qed.

Definition ginv (fs : bool * state) : Prop := (0 < fuel (snd fs))%nat /\ (fst fs = false -> no_weak (objs (hp (snd fs)))).

Lemma run_app : forall a b st, run (a ++ b) st = match run a st with None => None | Some s => run b s end.
Proof.
  induction a as [|o a IH]; intros b st; simpl; auto.
  destruct (step o st); auto.
Qed.

(** one gated collection under any policy = the collection of the ungated machine, and the invariant survives *)
Lemma gc_flag_inv : forall pol flag st, ginv (flag, st) ->
  match gc_flag pol (flag, st), step OGc st with
  | Some (fl', st'), Some st'' => st' = st'' /\ ginv (fl', st') /\ (clears pol = false -> fl' = flag)
  | None, None => True
  | _, _ => False
  end.
Proof.
  intros pol flag st [FU NW]. simpl in FU, NW. unfold gc_flag. rewrite step_gated_eq by auto.
  destruct (step OGc st) as [st1|] eqn:S1; simpl; auto.
  rewrite orb_false_r. split; [reflexivity|]. split.
  - split; simpl.
    + rewrite (step_fuel _ _ _ S1). exact FU.
    + destruct (clears pol && flag && negb (has_weak (objs (hp st1)))) eqn:C.
      * intros _. apply andb_true_iff in C. destruct C as [_ C]. apply negb_true_iff in C. apply has_weak_false; exact C.
      * intros F. apply (step_no_weak OGc st st1); [reflexivity | exact S1 | apply NW; exact F].
  - intros C. rewrite C. reflexivity.
Qed.

Definition step_alloc (pol : policy) (auto : bool) (o : op) (fs : bool * state) : option (bool * state) :=
  let '(flag, st) := fs in
  let flag1 := flag || (sets_before pol && is_eph o) in
  match (if auto then gc_flag pol (flag1, st) else Some (flag1, st)) with
  | None => None
  | Some (flag2, st2) =>
    match step o st2 with
    | None => None
    | Some st3 => Some (flag2 || (negb (sets_before pol) && is_eph o), st3)
    end
  end.

Lemma step_sched_nongc : forall pol auto o fs, o <> OGc -> step_sched pol (auto, o) fs = step_alloc pol auto o fs.
Proof. intros pol auto o [flag st] N. destruct o; try reflexivity. congruence. Qed.

Lemma expand1_nongc : forall auto o, o <> OGc -> expand1 (auto, o) = if auto then [OGc; o] else [o].
Proof. intros auto o N. destruct o; try reflexivity. congruence. Qed.

Lemma after_alloc : forall pol o fl2 st2, clears pol && sets_before pol = false ->
  ginv (fl2, st2) -> (is_eph o = true -> sets_before pol = true -> fl2 = true) ->
  match step o st2 with
  | Some st3 => ginv (fl2 || (negb (sets_before pol) && is_eph o), st3)
  | None => True
  end.
Proof.
  intros pol o fl2 st2 P [FU NW] E. simpl in FU, NW.
  destruct (step o st2) as [st3|] eqn:S3; auto. split; simpl.
  - rewrite (step_fuel _ _ _ S3). exact FU.
  - intros F. apply orb_false_iff in F. destruct F as [F1 F2].
    destruct (is_eph o) eqn:Eo.
    + destruct (sets_before pol) eqn:Sb; simpl in F2; [|discriminate].
      rewrite E in F1; auto. discriminate.
    + eapply step_no_weak; eauto.
Qed.

Lemma step_sched_inv : forall pol ao fs, clears pol && sets_before pol = false -> ginv fs ->
  match step_sched pol ao fs, run (expand1 ao) (snd fs) with
  | Some (fl', st'), Some st'' => st' = st'' /\ ginv (fl', st')
  | None, None => True
  | _, _ => False
  end.
Proof.
  intros pol [auto o] [flag st] P I.
  assert (D : o = OGc \/ o <> OGc) by (destruct o; auto; right; discriminate).
  destruct D as [-> | N].
  - simpl step_sched. simpl expand1. simpl snd. cbn [run].
    pose proof (gc_flag_inv pol flag st I) as G.
    destruct (gc_flag pol (flag, st)) as [[fl' st']|]; destruct (step OGc st) as [st''|]; simpl; try contradiction; auto.
    destruct G as [G1 [G2 _]]. auto.
  - rewrite step_sched_nongc, expand1_nongc by exact N. simpl snd. unfold step_alloc.
    set (flag1 := flag || (sets_before pol && is_eph o)).
    assert (I1 : ginv (flag1, st)).
    { destruct I as [FU NW]. split; simpl in *; auto. intros F. apply NW. unfold flag1 in F. apply orb_false_iff in F. tauto. }
    destruct auto.
    + cbn [run]. pose proof (gc_flag_inv pol flag1 st I1) as G.
      destruct (gc_flag pol (flag1, st)) as [[fl2 st2]|]; destruct (step OGc st) as [st2'|]; simpl; try contradiction; auto.
      destruct G as [<- [G2 G3]].
      assert (E : is_eph o = true -> sets_before pol = true -> fl2 = true).
      { intros Eo Sb. rewrite Sb, andb_true_r in P. rewrite (G3 P). unfold flag1. rewrite Eo, Sb. apply orb_true_r. }
      pose proof (after_alloc pol o fl2 st2 P G2 E) as A.
      destruct (step o st2) as [st3|]; simpl; auto.
    + cbn [run].
      assert (E : is_eph o = true -> sets_before pol = true -> flag1 = true).
      { intros Eo Sb. unfold flag1. rewrite Eo, Sb. apply orb_true_r. }
      pose proof (after_alloc pol o flag1 st P I1 E) as A.
      destruct (step o st) as [st3|]; simpl; auto.
Qed.

Lemma run_sched_inv : forall pol sched fs, clears pol && sets_before pol = false -> ginv fs ->
  option_map snd (run_sched pol sched fs) = run (expand sched) (snd fs).
Proof.
  intros pol sched. induction sched as [|ao r IH]; intros fs P I.
  - reflexivity.
  - cbn [run_sched expand flat_map]. fold (expand r). rewrite run_app.
    pose proof (step_sched_inv pol ao fs P I) as S.
    destruct (step_sched pol ao fs) as [[fl' st']|]; destruct (run (expand1 ao) (snd fs)) as [st''|]; try contradiction; auto.
    destruct S as [<- I']. rewrite IH; auto.
Qed.

(** For EVERY schedule of automatic collections (inside any operation of any history) from a fresh context, and for each
    of the two edits of the gate protocol ALONE (and for the pinned protocol): the gated machine computes exactly the states
    of the machine whose weak pass is always on, run on the history with one explicit collection in front of every
    operation whose allocation triggered one.  So all [history_*] theorems hold under automatic collections. *)
Lemma auto_gc_gate_transparent_l : forall pol sched n f, clears pol && sets_before pol = false ->
  option_map snd (run_sched pol sched (false, init n (S f))) = run (expand sched) (init n (S f)).
Proof.
  intros pol sched n f P. apply (run_sched_inv pol sched (false, init n (S f)) P).
  split; [simpl; lia | intros _; apply (init_no_weak n (S f))].
Qed.

(** the flag of the pinned protocol: on exactly when make-ephemeron has been called *)
Lemma pinned_flag_l : forall sched fl st n f,
  run_sched pinned_policy sched (false, init n (S f)) = Some (fl, st) -> fl = existsb (fun ao => is_eph (snd ao)) sched.
Proof.
  intros sched. assert (G : forall fs fl st, run_sched pinned_policy sched fs = Some (fl, st) ->
                            fl = fst fs || existsb (fun ao => is_eph (snd ao)) sched).
  { induction sched as [|[auto o] r IH]; intros [flag st0] fl st R.
    - simpl in R. inversion R; subst. simpl. rewrite orb_false_r. reflexivity.
    - cbn [run_sched] in R. destruct (step_sched pinned_policy (auto, o) (flag, st0)) as [[fl1 st1]|] eqn:S1; [|discriminate].
      apply IH in R. rewrite R. cbn [existsb fst snd]. rewrite orb_assoc. f_equal.
      assert (D : o = OGc \/ o <> OGc) by (destruct o; auto; right; discriminate).
      destruct D as [-> | N].
      + simpl in S1. unfold gc_flag in S1. destruct (step_gated OGc (flag, st0)) as [[fl2 st2]|] eqn:S2; [|discriminate].
        simpl in S1. inversion S1; subst. simpl. rewrite orb_false_r.
        unfold step_gated in S2. destruct (gc_gated flag (fuel st0) (fuel st0) (hp st0) (roots_of st0) (oslog st0)) as [[[h' l'] m]|]; [|discriminate].
        inversion S2; reflexivity.
      + rewrite step_sched_nongc in S1 by exact N. unfold step_alloc in S1. simpl sets_before in S1. simpl andb in S1.
        rewrite orb_false_r in S1.
        destruct auto.
        * unfold gc_flag in S1. destruct (step_gated OGc (flag, st0)) as [[fl2 st2]|] eqn:S2; [|discriminate].
          simpl clears in S1. simpl andb in S1. cbv iota in S1.
          destruct (step o st2) as [st3|]; [|discriminate]. inversion S1; subst.
          unfold step_gated in S2. destruct (gc_gated flag (fuel st0) (fuel st0) (hp st0) (roots_of st0) (oslog st0)) as [[[h' l'] m]|]; [|discriminate].
          inversion S2; reflexivity.
        * destruct (step o st0) as [st3|]; [|discriminate]. inversion S1; reflexivity. }
  intros fl st n f R. apply G in R. exact R.
Qed.

(* ------------------------------------------------------------------ both edits together are wrong *)
(** K0; K1; make-ephemeron(R0, R1) whose allocation triggers a collection; drop R0; gc.  With both edits: the flag is set,
    the collection inside the allocation meets no weak object and clears it, the ephemeron is created under a flag that says
    "no weak objects", the final collection skips the weak pass: the key is swept and the live ephemeron keeps pointing at it,
    unbroken.  The machine without gate breaks the ephemeron. *)
Definition sched_auto_eph : list (bool * op) :=
  [(false, OKey 0); (false, OKey 1); (true, OEph 2 0 1); (false, ODrop 0); (false, OGc)].

Lemma gate_cleared_and_set_before_allocation_refuted_l :
  (exists st, run_sched (mkPolicy true true) sched_auto_eph (false, init 3 100) = Some (false, st) /\ dangling_key st) /\
  (exists st e o, run (expand sched_auto_eph) (init 3 100) = Some st /\ obs st = [e] /\ PM.find e (objs (hp st)) = Some o /\
                  weak o = [Imm] /\ extra o = [Imm] /\ brokenp o = true) /\
  (forall pol, pol = mkPolicy true false \/ pol = mkPolicy false true \/ pol = pinned_policy ->
     option_map snd (run_sched pol sched_auto_eph (false, init 3 100)) = run (expand sched_auto_eph) (init 3 100)).
Proof.
  split; [|split].
  - eexists. split; [vm_compute; reflexivity|].
    exists 3%positive. eexists. exists 1%positive. repeat split; try (vm_compute; reflexivity). left; reflexivity.
  - eexists. exists 3%positive. eexists. split; [vm_compute; reflexivity|]. split; [vm_compute; reflexivity|].
    split; [vm_compute; reflexivity|]. split; [vm_compute; reflexivity|]. split; vm_compute; reflexivity.
  - intros pol [-> | [-> | ->]]; apply auto_gc_gate_transparent_l; reflexivity.
Qed.

(** the hypotheses are satisfiable: a schedule with automatic collections inside three different operations *)
Example ex_sched : exists fl st, run_sched pinned_policy
    [(false, OKey 0); (true, OCons 1 0 0); (true, OEph 2 0 1); (false, ODrop 0); (true, OKey 3); (false, OGc)]
    (false, init 4 100) = Some (fl, st) /\ fl = true.
Proof. eexists. eexists. split; [vm_compute; reflexivity | reflexivity]. Qed.

(* ------------------------------------------------------------------ the property under automatic collections *)
Lemma run_sched_app : forall pol a b fs,
  run_sched pol (a ++ b) fs = match run_sched pol a fs with None => None | Some fs' => run_sched pol b fs' end.
Proof.
  induction a as [|ao a IH]; intros b fs; simpl; auto.
  destruct (step_sched pol ao fs); auto.
Qed.

Lemma expand_app : forall a b, expand (a ++ b) = expand a ++ expand b.
Proof. intros a b. unfold expand. apply flat_map_app. Qed.

(** At any point of any history WITH automatic collections inside arbitrary operations, under the gate (pinned protocol or
    one of the two edits alone): the next collection — explicit or automatic — breaks exactly the ephemerons whose key is
    not live and leaves the others untouched. *)
Lemma scheduled_key_broken_iff_unreachable_l : forall pol sched n f fl st fl' st' e o k,
  clears pol && sets_before pol = false ->
  run_sched pol sched (false, init n (S f)) = Some (fl, st) ->
  gc_flag pol (fl, st) = Some (fl', st') ->
  live (objs (hp st)) (roots_of st) e -> PM.find e (objs (hp st)) = Some o -> weakp o = true -> weak o = [Ptr k] ->
  exists o', PM.find e (objs (hp st')) = Some o' /\
    (live (objs (hp st)) (roots_of st) k -> weak o' = [Ptr k] /\ extra o' = extra o /\ brokenp o' = brokenp o) /\
    (~ live (objs (hp st)) (roots_of st) k -> weak o' = [Imm] /\ extra o' = map (fun _ => Imm) (extra o) /\ brokenp o' = true).
Proof.
  intros pol sched n f fl st fl' st' e o k P R G L F W K.
  pose proof (auto_gc_gate_transparent_l pol sched n f P) as T1. rewrite R in T1.
  change (Some st = run (expand sched) (init n (S f))) in T1.
  pose proof (auto_gc_gate_transparent_l pol (sched ++ [(false, OGc)]) n f P) as T2.
  rewrite run_sched_app, R in T2.
  assert (E : run_sched pol [(false, OGc)] (fl, st) = Some (fl', st')).
  { unfold run_sched, step_sched. rewrite G. reflexivity. }
  rewrite E in T2. change (Some st' = run (expand (sched ++ [(false, OGc)])) (init n (S f))) in T2.
  rewrite expand_app, run_app, <- T1 in T2.
  change (expand [(false, OGc)]) with [OGc] in T2. unfold run in T2. cbn [step] in T2.
  destruct (gc (fuel st) (fuel st) (hp st) (roots_of st) (oslog st)) as [[[h' log'] m]|] eqn:GC; [|discriminate].
  inversion T2; subst st'. cbn [hp].
  eapply history_key_broken_iff_unreachable_l; eauto.
Qed.
