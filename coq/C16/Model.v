(** C16 — executable model of chibi-scheme's collector as far as weak references and finalizers
    are concerned (gc.c as repaired by fixes/C16-ephemeron-value-retained.patch).

    A heap is a finite map from addresses to objects plus the order in which the heap walk of gc.c
    (for each heap, for each non-free chunk, by increasing address) meets them.  An object has
      - strong slots  (sexp_type_field_base .. num_slots_of_object; for a context also its gc saves),
      - a weak range  (sexp_type_weak_base > 0: [weakp]; the slots v[0..len)),
      - extra slots   (v[len .. len+weak_len_extra): the value of an ephemeron, sexp.c:314),
      - the header bit brokenp, and
      - what its type's finaliser needs: ports and filenos (sexp.h:492-507).
    NO proofs in this file.  Every function names the C function it mirrors. *)
From Coq Require Import ZArith List Bool PArith FMapPositive.
Import ListNotations.
Module PM := PositiveMap.

Definition addr := positive.

(** a slot content: an immediate (fixnum, #f, NULL, a static object outside the heaps) or a heap pointer *)
Inductive ref := Imm | Ptr (a : addr).

Inductive okind :=
| KPlain
| KPort (openp no_close : bool) (stream : option Z)     (* sexp_port_openp, sexp_port_no_closep, fileno of the FILE* if any *)
| KFileno (openp no_close : bool) (fd count : Z).       (* sexp.h:504-507 *)

Record obj := mkObj {
  strong : list ref; weakp : bool; weak : list ref; extra : list ref; brokenp : bool; kind : okind }.

Definition objmap := PM.t obj.
Record heap := mkHeap { objs : objmap; order : list addr }.

(** mark bits (sexp_markedp), kept beside the heap *)
Definition mset := PM.t unit.
Definition mem (a : addr) (m : mset) : bool := match PM.find a m with Some _ => true | None => false end.
Definition madd (a : addr) (m : mset) : mset := PM.add a tt m.

(** sexp_mark / sexp_mark_one / sexp_mark_one_start (gc.c:256-302): the explicit mark stack is the work
    list.  `!x || !sexp_pointerp(x)` = Imm; `sexp_markedp(x)` = mem; an address that is not an object of
    the heap is skipped (sexp_valid_object_p).  The order in which slots are pushed does not matter for the
    resulting set (that mark = reachability for the real traversal order is C02's subject).  One unit of
    fuel per work item; None = out of fuel. *)
Fixpoint mark_loop (h : objmap) (fuel : nat) (work : list ref) (m : mset) : option mset :=
  match work with
  | [] => Some m
  | r :: w =>
    match fuel with
    | O => None
    | S f =>
      match r with
      | Imm => mark_loop h f w m
      | Ptr a =>
        if mem a m then mark_loop h f w m
        else match PM.find a h with
             | None => mark_loop h f w m
             | Some o => mark_loop h f (strong o ++ w) (madd a m)
             end
      end
    end
  end.

(** `! (v[i] && sexp_pointerp(v[i]) && ! sexp_markedp(v[i]))` — the test both weak passes use *)
Definition ref_live (m : mset) (r : ref) : bool := match r with Imm => true | Ptr a => mem a m end.

(** sexp_mark_weak_extras (the fix), inner loop over the extra slots: an unmarked pointer is passed to
    sexp_mark; changed_p is set when that marked it *)
Fixpoint mark_extras (h : objmap) (fuel : nat) (xs : list ref) (st : mset * bool) : option (mset * bool) :=
  match xs with
  | [] => Some st
  | x :: xs' =>
    if ref_live (fst st) x then mark_extras h fuel xs' st
    else match mark_loop h fuel [x] (fst st) with
         | None => None
         | Some m' => mark_extras h fuel xs' (m', snd st || ref_live m' x)
         end
  end.

(** one object of the heap walk of sexp_mark_weak_extras: marked, type has a weak range, and at least one
    weak slot is live (live_p) => mark the extras *)
Definition eph_visit (h : objmap) (fuel : nat) (a : addr) (st : mset * bool) : option (mset * bool) :=
  if mem a (fst st) then
    match PM.find a h with
    | Some o => if weakp o && existsb (ref_live (fst st)) (weak o)
                then mark_extras h fuel (extra o) st else Some st
    | None => Some st
    end
  else Some st.

(** one pass over the heap (marks set earlier in the pass are seen later in the same pass, as in C) *)
Fixpoint eph_pass (h : objmap) (fuel : nat) (ord : list addr) (st : mset * bool) : option (mset * bool) :=
  match ord with
  | [] => Some st
  | a :: r => match eph_visit h fuel a st with
              | None => None
              | Some st' => eph_pass h fuel r st'
              end
  end.

(** do { changed_p = 0; pass } while (changed_p);   [passes] bounds the number of passes (None = exceeded) *)
Fixpoint eph_loop (h : objmap) (fuel : nat) (ord : list addr) (passes : nat) (m : mset) : option mset :=
  match passes with
  | O => None
  | S p => match eph_pass h fuel ord (m, false) with
           | None => None
           | Some (m', true) => eph_loop h fuel ord p m'
           | Some (m', false) => Some m'
           end
  end.

(** sexp_reset_weak_references (gc.c, after the call of sexp_mark_weak_extras), body for one marked object
    whose type has a weak range: dead weak slots become #f and set brokenp; when ALL weak slots were reset
    (all_reset_p) the extra slots are reset too *)
Definition ref_dead (m : mset) (r : ref) : bool := negb (ref_live m r).
Definition reset_obj (m : mset) (o : obj) : obj :=
  if weakp o then
    mkObj (strong o) true
          (map (fun r => if ref_live m r then r else Imm) (weak o))
          (if forallb (ref_dead m) (weak o) then map (fun _ => Imm) (extra o) else extra o)
          (brokenp o || existsb (ref_dead m) (weak o))
          (kind o)
  else o.
(** the heap walk: each marked object independently (the walk order cannot matter: an object's reset reads
    mark bits only) *)
Definition weak_reset (m : mset) (h : objmap) : objmap :=
  PM.mapi (fun a o => if mem a m then reset_obj m o else o) h.

(** finalisers (sexp.c:196-232).  The OS is a log of close(fd) calls, oldest first. *)
Definition set_kind (o : obj) (k : okind) : obj := mkObj (strong o) (weakp o) (weak o) (extra o) (brokenp o) k.

(** sexp_finalize_fileno *)
Definition finalize_fileno (h : objmap) (log : list Z) (f : addr) : objmap * list Z :=
  match PM.find f h with
  | Some o => match kind o with
              | KFileno true false fd cnt => (PM.add f (set_kind o (KFileno false false fd cnt)) h, log ++ [fd])
              | _ => (h, log)
              end
  | None => (h, log)
  end.

(** sexp_port_fd(port): third slot of a port (name, cookie, fd) *)
Definition port_fd (o : obj) : ref := nth 2 (strong o) Imm.

(** sexp_finalize_port (also what close-port runs: eval.c:1344-1358) *)
Definition finalize_port (h : objmap) (log : list Z) (p : addr) : objmap * list Z :=
  match PM.find p h with
  | Some o =>
    match kind o with
    | KPort true nc stream =>
      let h1 := PM.add p (set_kind o (KPort false nc stream)) h in
      let '(h2, log2) :=
        match port_fd o with
        | Ptr f =>
          match PM.find f h1 with
          | Some fo =>
            match kind fo with
            | KFileno true fnc fd cnt =>
              if nc then (h1, log)
              else let h1' := PM.add f (set_kind fo (KFileno true fnc fd (cnt - 1))) h1 in
                   if (cnt - 1 =? 0)%Z then finalize_fileno h1' log f else (h1', log)
            | _ => (h1, log)
            end
          | None => (h1, log)
          end
        | Imm => (h1, log)
        end in
      match stream with
      | Some s => if nc then (h2, log2) else (h2, log2 ++ [s])     (* fclose(sexp_port_stream(port)) *)
      | None => (h2, log2)
      end
    | _ => (h, log)
    end
  | None => (h, log)
  end.

(** sexp_finalize (gc.c:419-468): one object of the walk — unmarked and its type has a finaliser *)
Definition finalize_one (m : mset) (st : objmap * list Z) (a : addr) : objmap * list Z :=
  if mem a m then st
  else match PM.find a (fst st) with
       | Some o => match kind o with
                   | KPort _ _ _ => finalize_port (fst st) (snd st) a
                   | KFileno _ _ _ _ => finalize_fileno (fst st) (snd st) a
                   | KPlain => st
                   end
       | None => st
       end.
Definition finalize (m : mset) (h : objmap) (log : list Z) (ord : list addr) : objmap * list Z :=
  fold_left (finalize_one m) ord (h, log).

(** sexp_sweep: unmarked objects become free chunks (leave the map); marks are cleared (the mark set is dropped) *)
Definition sweep_f (o : option obj) (k : option unit) : option obj :=
  match o, k with Some x, Some _ => Some x | _, _ => None end.
Definition sweep (m : mset) (h : objmap) : objmap := PM._map2 sweep_f h m.

(** sexp_gc: mark from the roots (the context; its saves and stack are strong slots), mark weak extras to a
    fixpoint, reset weak references, finalise, sweep.  Also returns the final mark set. *)
Definition gc (fuel passes : nat) (h : heap) (roots : list ref) (log : list Z) : option (heap * list Z * mset) :=
  match mark_loop (objs h) fuel roots (PM.empty unit) with
  | None => None
  | Some m0 =>
    match eph_loop (objs h) fuel (order h) passes m0 with
    | None => None
    | Some m1 =>
      let h1 := weak_reset m1 (objs h) in
      let '(h2, log2) := finalize m1 h1 log (order h) in
      Some (mkHeap (sweep m1 h2) (filter (fun a => mem a m1) (order h)), log2, m1)
    end
  end.

(** the collector as pinned (without sexp_mark_weak_extras): kept only to state what the fix repairs *)
Definition gc_pinned (fuel : nat) (h : heap) (roots : list ref) (log : list Z) : option (heap * list Z * mset) :=
  match mark_loop (objs h) fuel roots (PM.empty unit) with
  | None => None
  | Some m1 =>
    let h1 := weak_reset m1 (objs h) in
    let '(h2, log2) := finalize m1 h1 log (order h) in
    Some (mkHeap (sweep m1 h2) (filter (fun a => mem a m1) (order h)), log2, m1)
  end.

(** the phases after marking, from a given mark set (used to replay heap dumps taken around real collections:
    the dump "marked" gives m0, the dumps "weak"/"post" give what to compare with) *)
Definition gc_after_mark (fuel passes : nat) (h : heap) (m0 : mset) (log : list Z) : option (heap * list Z * mset) :=
  match eph_loop (objs h) fuel (order h) passes m0 with
  | None => None
  | Some m1 =>
    let h1 := weak_reset m1 (objs h) in
    let '(h2, log2) := finalize m1 h1 log (order h) in
    Some (mkHeap (sweep m1 h2) (filter (fun a => mem a m1) (order h)), log2, m1)
  end.
