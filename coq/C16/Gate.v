(** C16 — the gate of the weak pass.  sexp_reset_weak_references (gc.c) returns at once unless the global
    SEXP_G_WEAK_OBJECTS_PRESENT is set; the global is false in a fresh context and set (never cleared) by
    sexp_make_ephemeron_op, the only allocator of objects of a weak type (both pinned by (G): Gen.C16_Layout
    weak_gate_sites, make_ephemeron_sets_gate, ephemeron_alloc_sites).  [gc_gated flag] is sexp_gc with that early
    return; [Model.gc] is the collector with the weak pass always on, about which every other theorem speaks.
    Here: skipping the weak pass is unobservable exactly as long as the heap holds no weak object, and in every
    history the heap holds no weak object as long as make-ephemeron has not been called — whatever key and value
    the first ephemeron gets (immediates included), the flag must be on from then on.  Definitions only; proofs in GateProofs.v. *)
From Coq Require Import ZArith List Bool PArith FMapPositive.
From ChibiV Require Import C16.Model C16.History.
Import ListNotations.

(** sexp_gc with the early return of sexp_reset_weak_references: flag = false skips sexp_mark_weak_extras and the reset walk *)
Definition gc_gated (flag : bool) (fuel passes : nat) (h : heap) (roots : list ref) (log : list Z)
  : option (heap * list Z * mset) :=
  if flag then gc fuel passes h roots log
  else match mark_loop (objs h) fuel roots (PM.empty unit) with
       | None => None
       | Some m0 =>
         let '(h2, log2) := finalize m0 (objs h) log (order h) in
         Some (mkHeap (sweep m0 h2) (filter (fun a => mem a m0) (order h)), log2, m0)
       end.

Definition no_weak (h : objmap) : Prop := forall a o, PM.find a h = Some o -> weakp o = false.

(** the history machine with the gate: the flag is part of the state, set by make-ephemeron only *)
Definition is_eph (o : op) : bool := match o with OEph _ _ _ => true | _ => false end.

Definition step_gated (o : op) (fs : bool * state) : option (bool * state) :=
  let '(flag, st) := fs in
  match o with
  | OGc =>
      match gc_gated flag (fuel st) (fuel st) (hp st) (roots_of st) (oslog st) with
      | None => None
      | Some (h', log', _) => Some (flag, mkState h' (slots st) (obs st) log' (next st) (nextfd st) (fuel st))
      end
  | _ => match step o st with
         | None => None
         | Some st' => Some (flag || is_eph o, st')
         end
  end.

Fixpoint run_gated (ops : list op) (fs : bool * state) : option (bool * state) :=
  match ops with
  | [] => Some fs
  | o :: r => match step_gated o fs with None => None | Some fs' => run_gated r fs' end
  end.

(** a variant in which make-ephemeron switches the weak pass on only under a condition on its arguments (the class of
    changes "no need to scan for immediates"): [cond k v] is evaluated on the slot contents *)
Definition step_gated_if (cond : ref -> ref -> bool) (o : op) (fs : bool * state) : option (bool * state) :=
  let '(flag, st) := fs in
  match o with
  | OEph i k v => match step o st with
                  | None => None
                  | Some st' => Some (flag || cond (slot st k) (slot st v), st')
                  end
  | _ => step_gated o fs
  end.

Fixpoint run_gated_if (cond : ref -> ref -> bool) (ops : list op) (fs : bool * state) : option (bool * state) :=
  match ops with
  | [] => Some fs
  | o :: r => match step_gated_if cond o fs with None => None | Some fs' => run_gated_if cond r fs' end
  end.

Definition is_ptr (r : ref) : bool := match r with Ptr _ => true | Imm => false end.
