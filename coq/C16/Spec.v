(** C16 — SPEC: which objects a collection must keep, and what an ephemeron must look like afterwards
    (SRFI 124 / the property text).  Short mathematical objects only. *)
From Coq Require Import ZArith List Bool PArith FMapPositive.
From ChibiV Require Import C16.Model.
Import ListNotations.

Definition isobj (h : objmap) (a : addr) : Prop := PM.find a h <> None.

(** strong reachability: paths through strong slots only (weak slots and ephemeron values never count) *)
Inductive sreach (h : objmap) (roots : list ref) : addr -> Prop :=
| sreach_root : forall a, In (Ptr a) roots -> isobj h a -> sreach h roots a
| sreach_step : forall a o b, sreach h roots a -> PM.find a h = Some o -> In (Ptr b) (strong o) -> isobj h b ->
                              sreach h roots b.

(** liveness with ephemerons: the least set containing the roots, closed under strong slots, and under
    "the extra slots (value) of a live weak object one of whose weak slots (key) is an immediate or live".
    Being a LEAST fixpoint is what says "the key must be reachable without going through the ephemeron's
    own value": a key that is only reachable from the value of its own ephemeron (or around a cycle of
    ephemerons) is not live. *)
Inductive live (h : objmap) (roots : list ref) : addr -> Prop :=
| live_root : forall a, In (Ptr a) roots -> isobj h a -> live h roots a
| live_strong : forall a o b, live h roots a -> PM.find a h = Some o -> In (Ptr b) (strong o) -> isobj h b ->
                              live h roots b
| live_extra_imm : forall e o b, live h roots e -> PM.find e h = Some o -> weakp o = true ->
                              In Imm (weak o) -> In (Ptr b) (extra o) -> isobj h b -> live h roots b
| live_extra_key : forall e o k b, live h roots e -> PM.find e h = Some o -> weakp o = true ->
                              In (Ptr k) (weak o) -> live h roots k -> In (Ptr b) (extra o) -> isobj h b ->
                              live h roots b.

(** a slot content is "alive" *)
Definition rlive (h : objmap) (roots : list ref) (r : ref) : Prop :=
  match r with Imm => True | Ptr a => live h roots a end.

(** what a weak object must look like after a collection, given which of its weak slots are alive:
    dead weak slots read #f, brokenp is set iff it was set before or some weak slot died now, and the extra
    slots are kept iff some weak slot survived *)
Definition slot_after (alive : ref -> Prop) (r r' : ref) : Prop :=
  (alive r /\ r' = r) \/ (~ alive r /\ r' = Imm).

(** descriptor bookkeeping: a well-formed descriptor table *)
Definition fileno_of (h : objmap) (f : addr) : option (bool * bool * Z * Z) :=
  match PM.find f h with
  | Some o => match kind o with KFileno op nc fd c => Some (op, nc, fd, c) | _ => None end
  | None => None
  end.
