(** C16 — facts about the number-level OS model (definitions in NumOs.v). *)
From Coq Require Import ZArith List Bool PArith FMapPositive Lia.
From ChibiV Require Import C16.Model C16.History C16.NumOs.
Import ListNotations.
Local Open Scope Z_scope.

(* ------------------------------------------------------------------ the table *)
Lemma tab_find_le_max : forall t n i, tab_find n t = Some i -> n <= max_key t.
Proof.
  induction t as [|[k j] r IH]; intros n i F; simpl in *; [discriminate|].
  destruct (k =? n) eqn:E.
  - apply Z.eqb_eq in E. lia.
  - specialize (IH _ _ F). lia.
Qed.

Lemma tab_find_in : forall t n, tab_find n t <> None <-> In n (map fst t).
Proof.
  induction t as [|[k j] r IH]; intros n; simpl.
  - split; [intros H; exfalso; apply H; reflexivity | intros []].
  - destruct (k =? n) eqn:E.
    + apply Z.eqb_eq in E. split; [left; auto | discriminate].
    + apply Z.eqb_neq in E. rewrite IH. split; [right; auto | intros [H|H]; [contradiction|auto]].
Qed.

Lemma lowest_from_free : forall k n t, tab_find (lowest_from k n t) t = None.
Proof.
  induction k as [|k IH]; intros n t; simpl.
  - destruct (tab_find (Z.max n (1 + max_key t)) t) as [i|] eqn:F; auto.
    apply tab_find_le_max in F. lia.
  - destruct (tab_find n t) eqn:F; auto.
Qed.

(** the OS never hands out a number that is open *)
Lemma lowest_free_is_free_l : forall t, tab_find (lowest_free t) t = None.
Proof. intros t. apply lowest_from_free. Qed.

Lemma tab_remove_keys : forall t n x, In x (map fst (tab_remove n t)) -> In x (map fst t) /\ x <> n.
Proof.
  induction t as [|[k j] r IH]; intros n x H; simpl in *; [contradiction|].
  destruct (k =? n) eqn:E.
  - destruct (IH _ _ H). split; auto.
  - apply Z.eqb_neq in E. simpl in H. destruct H as [H|H].
    + subst. split; auto.
    + destruct (IH _ _ H). split; auto.
Qed.

Lemma tab_remove_nodup : forall t n, NoDup (map fst t) -> NoDup (map fst (tab_remove n t)).
Proof.
  induction t as [|[k j] r IH]; intros n ND; simpl in *; [constructor|].
  inversion ND; subst. destruct (k =? n); auto. simpl. constructor; auto.
  intros H. apply tab_remove_keys in H. tauto.
Qed.

Lemma tab_remove_not_found : forall t n, tab_find n (tab_remove n t) = None.
Proof.
  intros t n. destruct (tab_find n (tab_remove n t)) eqn:F; auto.
  assert (H : tab_find n (tab_remove n t) <> None) by congruence.
  apply tab_find_in, tab_remove_keys in H. tauto.
Qed.

Definition keys_ok (t : table) : Prop := NoDup (map fst t).

Lemma os_close_keys : forall n t r e, keys_ok t -> keys_ok (fst (fst (os_close n (t, r, e)))).
Proof.
  intros n t r e K. unfold os_close. destruct (tab_find n t); simpl; auto. apply tab_remove_nodup; auto.
Qed.

Lemma fold_close_keys : forall l t r e, keys_ok t ->
  keys_ok (fst (fst (fold_left (fun acc n => os_close n acc) l (t, r, e)))).
Proof.
  induction l as [|n l IH]; intros t r e K; cbn [fold_left]; auto.
  pose proof (os_close_keys n t r e K) as H.
  destruct (os_close n (t, r, e)) as [[t' r'] e'] eqn:E.
  apply IH. exact H.
Qed.

Lemma settle_keys : forall ns st, keys_ok (tab ns) -> keys_ok (tab (settle ns st)).
Proof.
  intros ns st K. unfold settle.
  pose proof (fold_close_keys (skipn (seen ns) (oslog st)) (tab ns) (rel ns) (ebadf ns) K) as H.
  destruct (fold_left (fun acc n => os_close n acc) (skipn (seen ns) (oslog st)) (tab ns, rel ns, ebadf ns)) as [[t r] e].
  simpl in *. exact H.
Qed.

Lemma cons_free_keys : forall t n i, keys_ok t -> tab_find n t = None -> keys_ok ((n, i) :: t).
Proof.
  intros t n i K F. unfold keys_ok. simpl. constructor; auto.
  intros H. apply tab_find_in in H. congruence.
Qed.

(** in every number-level history — raw closes, closes / dups / dup2s of closed filenos included — an open number names
    exactly one file instance at any time *)
Lemma nstep_keys : forall o ns ns', keys_ok (tab ns) -> nstep o ns = Some ns' -> keys_ok (tab ns').
Proof.
  intros o ns ns' K H. destruct o as [o|i]; [|simpl in H].
  - destruct o; cbn [nstep] in H;
      try (match type of H with
           | match step ?o ?s with _ => _ end = _ => destruct (step o s) as [st'|]; [|discriminate]
           end; inversion H; subst; apply settle_keys; auto; fail).
    + (* OOpenFile *)
      destruct (step (OOpenFile i) (with_nextfd (ist ns) (lowest_free (tab ns)))) as [st'|]; [|discriminate].
      inversion H; subst; simpl. apply cons_free_keys; auto. apply lowest_free_is_free_l.
    + (* OFileno *) inversion H; subst. unfold os_open_fileno; simpl. apply cons_free_keys; auto. apply lowest_free_is_free_l.
    + (* OCloseFd *)
      destruct (fileno_number (ist ns) i) as [[f n]|]; [|inversion H; subst; auto].
      destruct (PM.find f (objs (hp (ist ns)))) as [fo|]; [|inversion H; subst; auto].
      destruct (kind fo); inversion H; subst; auto; apply settle_keys; auto.
    + (* ODup *)
      destruct (fileno_number (ist ns) f) as [[g n]|]; [|inversion H; subst; auto].
      destruct (tab_find n (tab ns)); inversion H; subst; simpl; auto.
      apply cons_free_keys; auto. apply lowest_free_is_free_l.
    + (* ODupTo *)
      destruct (fileno_number (ist ns) a) as [[fa na]|]; [|inversion H; subst; auto].
      destruct (fileno_number (ist ns) b) as [[fb nb]|]; [|inversion H; subst; auto].
      destruct (tab_find na (tab ns)); [|inversion H; subst; auto].
      destruct (na =? nb); [inversion H; subst; auto|].
      destruct (tab_find nb (tab ns)) eqn:Fb.
      * unfold os_close in H. rewrite Fb in H. inversion H; subst; simpl.
        apply cons_free_keys; [apply tab_remove_nodup; auto | apply tab_remove_not_found].
      * inversion H; subst; simpl. apply cons_free_keys; auto.
  - destruct (fileno_number (ist ns) i) as [[f n]|]; inversion H; subst; auto. apply settle_keys; auto.
Qed.

Lemma number_names_one_instance_l : forall ops n f ns,
  nrun ops (ninit n f) = Some ns -> NoDup (map fst (tab ns)).
Proof.
  intros ops n f. assert (K0 : keys_ok (tab (ninit n f))) by (unfold keys_ok; simpl; constructor).
  revert K0. generalize (ninit n f). induction ops as [|o r IH]; intros ns0 K0 ns R; simpl in R.
  - inversion R; subst; auto.
  - destruct (nstep o ns0) as [ns1|] eqn:S1; [|discriminate]. apply (IH ns1); auto. eapply nstep_keys; eauto.
Qed.

(* ------------------------------------------------------------------ what a raw close does *)
(** open R0; close its NUMBER by hand (the object is not told); open R1 (the OS hands the same number out again); drop R0;
    collect: the finaliser of the stale object closes the number — R1, live and open, has lost its descriptor.  (The collector did what
    it must: the owner R0 was unreachable and open.  The release-once property is broken by the program's raw close, which
    is why the histories of History.v exclude it and FdOnce.v can prove release-once for them.) *)
Definition ops_raw : list nop := [NOp (OFileno 0); NRawClose 0; NOp (OFileno 1); NOp (ODrop 0); NOp OGc].

Lemma raw_close_lets_a_stale_owner_close_anothers_descriptor_l :
  exists ns a o n c, nrun ops_raw (ninit 2 100) = Some ns /\
    slot (ist ns) 1 = Ptr a /\ PM.find a (objs (hp (ist ns))) = Some o /\ kind o = KFileno true false n c /\
    names ns n = None /\ rel ns = [0; 1].
Proof.
  eexists. exists 2%positive. eexists. exists 0. exists 0. repeat split; vm_compute; reflexivity.
Qed.
