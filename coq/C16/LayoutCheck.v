(** C16 — (G) what Model.v assumes about the type table and the phase order of sexp_gc, checked against
    coq/Gen/C16_Layout.v, which gen/c16_layout.py regenerates from the build on every run. *)
From Coq Require Import ZArith List Bool.
From ChibiV Require Import Gen.C16_Layout.
Import ListNotations.
Local Open Scope Z_scope.

(** - the only type with a weak range is the ephemeron: no strong slots (field_len_base = field_len_scale = 0:
      [strong = []] for ephemerons in the histories and nothing traced through them by mark_loop), the weak range
      starts at the first field (the key), has exactly one slot (weak_len_base = 1, scale 0) and one extra slot
      (the value);
    - the finalisers that touch descriptors are exactly those of input ports, output ports (sexp_finalize_port)
      and filenos (sexp_finalize_fileno);
    - sexp_gc runs: mark, sexp_mark_weak_extras (first thing in the weak pass), weak reset, finalise, sweep *)
Lemma layout_as_modelled_l :
  weak_types = [(ephemeron_tag, 0, 0, true, 1, 0, 1)] /\
  filter (fun p => snd p <? 3) finalised_types = [(iport_tag, 1); (iport_tag + 1, 1); (fileno_tag, 2)] /\
  gc_phases = [1; 2; 3; 4; 5].
Proof. repeat split; reflexivity. Qed.

(** sexp_mark_weak_extras has the control skeleton Model.v mirrors (eph_loop = do { changed_p = 0; walk } while
    (changed_p); eph_pass = the walk of all heaps by increasing address skipping free chunks; eph_visit = marked
    object of a type with a weak range and extra slots, live_p = some weak slot is an immediate or marked;
    mark_extras = each unmarked pointer among the extra slots goes through sexp_mark and changed_p is set iff that
    marked it — [scan_rerun = [1]]: NO further condition on where the value lies), and nothing else *)
Lemma scan_skeleton_as_modelled_l :
  scan_loop = 1 /\ scan_pieces = [1; 1; 1; 1; 1; 1] /\ scan_rerun = [1] /\ scan_nothing_else = 1.
Proof. repeat split; reflexivity. Qed.

(** (close-file-descriptor fileno) clears the open flag of the fileno object (History.v OCloseFd = finalize_fileno) *)
Lemma close_fd_as_modelled_l : close_fd_marks_fileno_closed = 1.
Proof. reflexivity. Qed.
