(** C16 — (G) what Model.v assumes about the type table and the phase order of sexp_gc, checked against
    coq/Gen/C16_Layout.v, which gen/c16_layout.py regenerates from the build on every run. *)
From Coq Require Import ZArith List Bool.
From ChibiV Require Import Gen.C16_Layout.
Import ListNotations.
Local Open Scope Z_scope.

(** - the only type with a weak range is the ephemeron: no strong slots (field_len_base = field_len_scale = 0:
      [strong = []] for ephemerons in the histories and nothing traced through them by mark_loop), the weak range
      starts at the first field (the key), has exactly one slot (weak_len_base = 1, scale 0) and one extra slot
      (the value);
    - the finalisers that touch descriptors are exactly those of input ports, output ports (sexp_finalize_port)
      and filenos (sexp_finalize_fileno);
    - sexp_gc runs: mark, sexp_mark_weak_extras (first thing in the weak pass), weak reset, finalise, sweep *)
Lemma layout_as_modelled_l :
  weak_types = [(ephemeron_tag, 0, 0, true, 1, 0, 1)] /\
  filter (fun p => snd p <? 3) finalised_types = [(iport_tag, 1); (iport_tag + 1, 1); (fileno_tag, 2)] /\
  gc_phases = [1; 2; 3; 4; 5].
Proof. repeat split; reflexivity. Qed.

(** sexp_mark_weak_extras has the control skeleton Model.v mirrors (eph_loop = do { changed_p = 0; walk } while
    (changed_p); eph_pass = the walk of all heaps by increasing address skipping free chunks; eph_visit = marked
    object of a type with a weak range and extra slots, live_p = some weak slot is an immediate or marked;
    mark_extras = each unmarked pointer among the extra slots goes through sexp_mark and changed_p is set iff that
    marked it — [scan_rerun = [1]]: NO further condition on where the value lies), and nothing else *)
Lemma scan_skeleton_as_modelled_l :
  scan_loop = 1 /\ scan_pieces = [1; 1; 1; 1; 1; 1] /\ scan_rerun = [1] /\ scan_nothing_else = 1.
Proof. repeat split; reflexivity. Qed.

(** (close-file-descriptor fileno) clears the open flag of the fileno object (History.v OCloseFd = finalize_fileno) *)
Lemma close_fd_as_modelled_l : close_fd_marks_fileno_closed = 1.
Proof. reflexivity. Qed.

(** round 3.  sexp_finalize_fileno, sexp_finalize_port (the fileno's count is decremented once per closed port and
    sexp_finalize_fileno runs exactly when it reaches 0: the port's shutdown flag only guards the calls of shutdown(2), which
    release nothing), the heap walk of sexp_finalize and the reset walk of sexp_reset_weak_references read as Model.v's
    finalize_fileno / finalize_port / finalize / weak_reset mirror them *)
Lemma finaliser_skeletons_as_modelled_l :
  finalize_fileno_as_modelled = 1 /\ finalize_port_as_modelled = 1 /\ finalize_walk_as_modelled = 1 /\
  weak_reset_walk_as_modelled = 1.
Proof. repeat split; reflexivity. Qed.

(** the gate of the weak pass (Gate.v): SEXP_G_WEAK_OBJECTS_PRESENT is mentioned in exactly four places — false at context
    creation, set by sexp_make_ephemeron_op, tested at the top of the weak pass, declared —; sexp_make_ephemeron_op sets it
    unconditionally (whatever key and value are) and is the only allocator of the only weak type *)
Lemma weak_gate_as_modelled_l :
  weak_gate_sites = [1; 2; 3; 4] /\ make_ephemeron_sets_gate = 1 /\ ephemeron_alloc_sites = 1.
Proof. repeat split; reflexivity. Qed.

(** open-input-file / open-output-file: a failed fopen is retried once, after a collection, exactly when errno is EMFILE
    directly after the failed fopen (nothing — in particular no finaliser — runs between the fopen and the test) *)
Lemma open_retry_as_modelled_l : open_retry_as_modelled = [1; 1; 1].
Proof. reflexivity. Qed.
