(** C16 — the ephemeron scan of gc.c (sexp_mark_weak_extras: walk the heaps by increasing address, mark the value of
    every marked ephemeron whose key is live, set changed_p when that marked something, repeat while changed_p)
    computes the least fixpoint [live] for ANY order in which the walk meets the objects — and the "optimisation"
    that only requests another pass when the newly marked value lies below the scan pointer does not. *)
From Coq Require Import ZArith List Bool PArith FMapPositive.
From ChibiV Require Import C16.Model C16.Spec C16.Proofs.
Import ListNotations.

(** [eph_loop] IS the scan as written in C (Model.v: eph_visit / eph_pass with the Gauss-Seidel effect of marks made
    earlier in the same walk, eph_loop = do { changed_p = 0; pass } while (changed_p)); [ord] is the walk order, an
    arbitrary list that meets every object (no sortedness, no relation to creation order is assumed) *)
Lemma scan_fixpoint_equals_least_fixpoint_l : forall fuel passes (os : objmap) (ord : list addr) roots m,
  (forall a, isobj os a -> In a ord) ->
  marks fuel passes (mkHeap os ord) roots = Some m ->
  forall a, mem a m = true <-> live os roots a.
Proof. intros fuel passes os ord roots m OC H. exact (marks_exact fuel passes (mkHeap os ord) roots m OC H). Qed.

(** so two walks of the same heap in different orders (two address layouts of the same object graph) mark the same set *)
Lemma scan_order_irrelevant_l : forall f1 p1 f2 p2 (os : objmap) ord1 ord2 roots m1 m2,
  (forall a, isobj os a -> In a ord1) -> (forall a, isobj os a -> In a ord2) ->
  marks f1 p1 (mkHeap os ord1) roots = Some m1 -> marks f2 p2 (mkHeap os ord2) roots = Some m2 ->
  forall a, mem a m1 = mem a m2.
Proof.
  intros f1 p1 f2 p2 os ord1 ord2 roots m1 m2 O1 O2 H1 H2 a.
  pose proof (scan_fixpoint_equals_least_fixpoint_l _ _ _ _ _ _ O1 H1 a) as A1.
  pose proof (scan_fixpoint_equals_least_fixpoint_l _ _ _ _ _ _ O2 H2 a) as A2.
  revert A1 A2.
  destruct (mem a m1) eqn:E1; destruct (mem a m2) eqn:E2; intros A1 A2; auto.
  - destruct A1 as [A1 _]. destruct A2 as [_ A2]. specialize (A2 (A1 eq_refl)). discriminate.
  - destruct A2 as [A2 _]. destruct A1 as [_ A1]. specialize (A1 (A2 eq_refl)). discriminate.
Qed.

(** the variant of the scan in which changed_p is only set when the newly marked value lies BELOW the scan pointer p
    ("objects above p are still to be visited in this pass") *)
Definition below (x : ref) (p : addr) : bool := match x with Imm => false | Ptr a => (a <? p)%positive end.
Fixpoint mark_extras_opt (h : objmap) (fuel : nat) (p : addr) (xs : list ref) (st : mset * bool) : option (mset * bool) :=
  match xs with
  | [] => Some st
  | x :: xs' =>
    if ref_live (fst st) x then mark_extras_opt h fuel p xs' st
    else match mark_loop h fuel [x] (fst st) with
         | None => None
         | Some m' => mark_extras_opt h fuel p xs' (m', snd st || (ref_live m' x && below x p))
         end
  end.
Definition eph_visit_opt (h : objmap) (fuel : nat) (a : addr) (st : mset * bool) : option (mset * bool) :=
  if mem a (fst st) then
    match PM.find a h with
    | Some o => if weakp o && existsb (ref_live (fst st)) (weak o)
                then mark_extras_opt h fuel a (extra o) st else Some st
    | None => Some st
    end
  else Some st.
Fixpoint eph_pass_opt (h : objmap) (fuel : nat) (ord : list addr) (st : mset * bool) : option (mset * bool) :=
  match ord with
  | [] => Some st
  | a :: r => match eph_visit_opt h fuel a st with None => None | Some st' => eph_pass_opt h fuel r st' end
  end.
Fixpoint eph_loop_opt (h : objmap) (fuel : nat) (ord : list addr) (passes : nat) (m : mset) : option mset :=
  match passes with
  | O => None
  | S p => match eph_pass_opt h fuel ord (m, false) with
           | None => None
           | Some (m', true) => eph_loop_opt h fuel ord p m'
           | Some (m', false) => Some m'
           end
  end.

(** witness: K0 = 1 (held), E1 = 2 (key K1 = 5, value K2 = 6), E0 = 3 (key K0, value V0 = 4), V0 = 4 -> K1, walked by
    increasing address.  E1 is met before K1 is marked; marking V0 (above E0) marks K1; no further pass: K2 stays
    unmarked although it is live (it would be swept under the live ephemeron E1 whose key K1 survives). *)
Local Open Scope positive_scope.
Definition w_plain (s : list ref) : obj := mkObj s false [] [] false KPlain.
Definition w_eph (k v : addr) : obj := mkObj [] true [Ptr k] [Ptr v] false KPlain.
Definition w_objs : objmap :=
  PM.add 1 (w_plain []) (PM.add 2 (w_eph 5 6) (PM.add 3 (w_eph 1 4) (PM.add 4 (w_plain [Ptr 5])
    (PM.add 5 (w_plain []) (PM.add 6 (w_plain []) (PM.empty obj)))))).
Definition w_ord : list addr := [1; 2; 3; 4; 5; 6].
Definition w_roots : list ref := [Ptr 1; Ptr 2; Ptr 3].
Definition marks_opt (fuel passes : nat) (h : heap) (roots : list ref) : option mset :=
  match mark_loop (objs h) fuel roots (PM.empty unit) with
  | None => None
  | Some m0 => eph_loop_opt (objs h) fuel (order h) passes m0
  end.

Lemma scan_below_pointer_optimisation_refuted_l :
  exists m, marks_opt 100%nat 100%nat (mkHeap w_objs w_ord) w_roots = Some m /\
            live w_objs w_roots 6%positive /\ mem 6%positive m = false /\
            (forall m', marks 100%nat 100%nat (mkHeap w_objs w_ord) w_roots = Some m' -> mem 6%positive m' = true).
Proof.
  assert (L6 : live w_objs w_roots 6%positive).
  { assert (I : forall a, In a w_ord -> isobj w_objs a).
    { intros a Ia. unfold isobj. simpl in Ia. repeat (destruct Ia as [<-|Ia]; [vm_compute; discriminate|]). destruct Ia. }
    assert (L1 : live w_objs w_roots 1%positive) by (apply live_root; [simpl; auto | apply I; simpl; auto]).
    assert (L2 : live w_objs w_roots 2%positive) by (apply live_root; [simpl; auto | apply I; simpl; auto 10]).
    assert (L3 : live w_objs w_roots 3%positive) by (apply live_root; [simpl; auto | apply I; simpl; auto 10]).
    assert (L4 : live w_objs w_roots 4%positive).
    { eapply (live_extra_key _ _ 3%positive (w_eph 1 4) 1%positive 4%positive); auto; try reflexivity; simpl; auto.
      apply I; simpl; auto 10. }
    assert (L5 : live w_objs w_roots 5%positive).
    { eapply (live_strong _ _ 4%positive (w_plain [Ptr 5%positive]) 5%positive); auto; try reflexivity; simpl; auto.
      apply I; simpl; auto 10. }
    eapply (live_extra_key _ _ 2%positive (w_eph 5 6) 5%positive 6%positive); auto; try reflexivity; simpl; auto.
    apply I; simpl; auto 10. }
  eexists. split; [vm_compute; reflexivity|]. split; [exact L6|]. split; [vm_compute; reflexivity|].
  intros m' H. eapply scan_fixpoint_equals_least_fixpoint_l; eauto.
  intros a Oa. unfold isobj in Oa. simpl.
  destruct (Pos.eq_dec a 1) as [->|N1]; auto. destruct (Pos.eq_dec a 2) as [->|N2]; auto.
  destruct (Pos.eq_dec a 3) as [->|N3]; auto. destruct (Pos.eq_dec a 4) as [->|N4]; auto.
  destruct (Pos.eq_dec a 5) as [->|N5]; auto 10. destruct (Pos.eq_dec a 6) as [->|N6]; auto 10.
  exfalso. apply Oa. unfold w_objs. repeat (rewrite PM.gso; [|auto]). apply PM.gempty.
Qed.
